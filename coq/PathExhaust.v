(* Exhaustiveness of the depth-first loop over registered alternatives.

   STATUS: the four requested results (a)-(d) are all proved; every
   Print Assumptions at the end of the file answers "Closed under the global
   context".

   Vocabulary (all defined below):
     registered e q c   exactly the requested definition;
     reg en c           the same for one entry (registered_reg relates them);
     used en c          c is used up in en: thread t Visited / k < l_pos /
                        (c = CSpur false and p_spur = true);
     todo en c          c is still to do in en: thread t Pending /
                        l_pos < k < length l_vals / (c = CSpur true and
                        p_spur = false);
     wf2_entry          ESched: at most one Active thread
                        (count_active (s_threads s) <= 1); ELoad, ESpur: True;
     wf2_path p         Forall wf2_entry (branches p);
     fresh_entry        ESched: no Visited thread; ELoad: l_pos = 0;
                        ESpur: p_spur = false;
     fresh_path p       Forall fresh_entry (branches p);
     new_entries p p'   skipn (length (branches p)) (branches p');
     iter_ok2 it        forall p, wf_path p -> wf2_path p ->
                          wf2_path (it p) /\ Forall fresh_entry (new_entries p (it p)).

   (a) Theorem step_none_exhausted e :
         step e = None ->
         forall q en, nth_error (branches e) q = Some en ->
                      entry_exploring en = true -> advance_entry en = None.
       Unfoldings: exhausted_sched (no Pending thread), exhausted_load
       (length l_vals <= S l_pos), exhausted_spur (p_spur = true), and
       exhausted_reg: wf2_entry en -> entry_exploring en = true ->
         advance_entry en = None -> reg en c -> used en c \/ choice_of en = c.

   (b) Theorem popped_entries_exhausted e e' :
         step e = Some e' ->
         exists a, a < length (branches e) /\ length (branches e') = S a /\
           (exists en en', nth_error (branches e) a = Some en /\
              nth_error (branches e') a = Some en' /\ advance_entry en = Some en') /\
           (forall q, q < a -> nth_error (branches e') q = nth_error (branches e) q) /\
           (forall q en, a < q -> nth_error (branches e) q = Some en ->
                         advance_entry en = None).

   (c) Theorem visited_witness :
         forall it n p, iter_ok it -> iter_ok2 it ->
           wf_path p -> wf2_path p -> fresh_path p ->
         forall k ek q en c,
           nth_error (explore it n p) k = Some ek ->
           nth_error (branches ek) q = Some en -> entry_exploring en = true ->
           used en c ->
           exists j ej, j < k /\ nth_error (explore it n p) j = Some ej /\
                        firstn q (choices ej) = firstn q (choices ek) /\
                        nth_error (choices ej) q = Some c.

   (d) Theorem dfs_exhaustive :
         forall it n p, iter_ok it -> iter_ok2 it ->
           wf_path p -> wf2_path p -> fresh_path p -> finishes it n p = true ->
         forall k ek q c,
           nth_error (explore it n p) k = Some ek -> registered ek q c ->
           exists j ej, nth_error (explore it n p) j = Some ej /\
                        firstn q (choices ej) = firstn q (choices ek) /\
                        nth_error (choices ej) q = Some c.
       (In the proof: used alternatives have j < k by (c), the current decision
       has j = k, alternatives still to do have j > k by [step_todo]/[progress].)

   Extra hypotheses of (c)/(d) with respect to the requested statement:
   iter_ok2 it, wf2_path p, fresh_path p.  Without freshness of the initial
   stack and of appended entries the statement is false (a Visited thread that
   was never Active has no witness).  No bound on l_pos is needed: see
   load_pos_ok at the end for the bound that does hold with empty value lists.

   The concrete Path API satisfies them (api_ok2 p p' := wf2_path p ->
   wf2_path p' /\ Forall fresh_entry (new_entries p p')): push_load_wf2,
   branch_load_wf2, branch_spurious_wf2, backtrack_wf2, explore_state_wf2,
   critical_wf2, skip_branch_wf2, and branch_thread_wf2 (freshness needs a seed
   without Visited; branch_thread_wf2_only gives wf2 for every seed).
   api_ok2_compose chains consecutive calls, step_wf2 is the step case,
   path_new_fresh the initial path. *)
Require Import LV.Base LV.Path LV.PathSpec LV.PathTerm LV.PathDistinct LV.PathApi.
From Coq Require Import Lia.

(* ------------------------------------------------------------------ *)
(* definitions                                                         *)
(* ------------------------------------------------------------------ *)

(* alternative [c] is registered at position q of END path e *)
Definition registered (e : path) (q : nat) (c : choice) : Prop :=
  exists en, nth_error (branches e) q = Some en /\ entry_exploring en = true /\
    match en, c with
    | ESched s, CThread (Some t) =>
        nth_error (s_threads s) t = Some Pending \/
        nth_error (s_threads s) t = Some Active \/
        nth_error (s_threads s) t = Some Visited
    | ELoad l, CLoad k => k < length (l_vals l)
    | ESpur _, CSpur _ => True
    | _, _ => False
    end.

(* the same, entry by entry *)
Definition reg (en : entry) (c : choice) : Prop :=
  match en, c with
  | ESched s, CThread (Some t) =>
      nth_error (s_threads s) t = Some Pending \/
      nth_error (s_threads s) t = Some Active \/
      nth_error (s_threads s) t = Some Visited
  | ELoad l, CLoad k => k < length (l_vals l)
  | ESpur _, CSpur _ => True
  | _, _ => False
  end.

Lemma registered_reg e q c :
  registered e q c <->
  exists en, nth_error (branches e) q = Some en /\ entry_exploring en = true /\ reg en c.
Proof. unfold registered, reg. reflexivity. Qed.

(* [c] has been used up in [en] / is still to do in [en] *)
Definition used (en : entry) (c : choice) : Prop :=
  match en, c with
  | ESched s, CThread (Some t) => nth_error (s_threads s) t = Some Visited
  | ELoad l, CLoad k => k < l_pos l
  | ESpur s, CSpur b => b = false /\ p_spur s = true
  | _, _ => False
  end.

Definition todo (en : entry) (c : choice) : Prop :=
  match en, c with
  | ESched s, CThread (Some t) => nth_error (s_threads s) t = Some Pending
  | ELoad l, CLoad k => l_pos l < k /\ k < length (l_vals l)
  | ESpur s, CSpur b => b = true /\ p_spur s = false
  | _, _ => False
  end.

Definition count_active (l : list tstat) : nat := length (filter is_active l).

Definition wf2_entry (e : entry) : Prop :=
  match e with
  | ESched s => count_active (s_threads s) <= 1
  | ELoad _ => True
  | ESpur _ => True
  end.

Definition wf2_path (p : path) : Prop := Forall wf2_entry (branches p).

Definition fresh_entry (e : entry) : Prop :=
  match e with
  | ESched s => Forall (fun t => t <> Visited) (s_threads s)
  | ELoad l => l_pos l = 0
  | ESpur s => p_spur s = false
  end.

Definition fresh_path (p : path) : Prop := Forall fresh_entry (branches p).

(* the entries of p' beyond the stack of p *)
Definition new_entries (p p' : path) : list entry :=
  skipn (length (branches p)) (branches p').

Definition iter_ok2 (it : path -> path) : Prop :=
  forall p, wf_path p -> wf2_path p ->
            wf2_path (it p) /\ Forall fresh_entry (new_entries p (it p)).

(* ------------------------------------------------------------------ *)
(* thread-status lists                                                 *)
(* ------------------------------------------------------------------ *)

Lemma count_active_cons h l :
  count_active (h :: l) = (if is_active h then 1 else 0) + count_active l.
Proof. unfold count_active. cbn [filter]. destruct (is_active h); reflexivity. Qed.

Lemma count_active_pos l t : nth_error l t = Some Active -> 1 <= count_active l.
Proof.
  revert t; induction l as [|h l IH]; intros [|t] Hn; cbn [nth_error] in Hn;
    try discriminate; rewrite count_active_cons.
  - injection Hn as ->. cbn. lia.
  - specialize (IH _ Hn). lia.
Qed.

Lemma count_active_find l t :
  count_active l <= 1 -> nth_error l t = Some Active -> find_index is_active l = Some t.
Proof.
  revert t; induction l as [|h l IH]; intros [|t] Hc Hn; cbn [nth_error] in Hn;
    try discriminate; rewrite count_active_cons in Hc; cbn [find_index].
  - injection Hn as ->. reflexivity.
  - destruct (is_active h).
    + pose proof (count_active_pos _ _ Hn). lia.
    + rewrite (IH t); [reflexivity|lia|exact Hn].
Qed.

Lemma find_index_none_count l : find_index is_active l = None -> count_active l = 0.
Proof.
  induction l as [|h l IH]; [reflexivity|]. cbn [find_index]. rewrite count_active_cons.
  destruct (is_active h); [discriminate|].
  destruct (find_index is_active l); [discriminate|]. intros _. rewrite IH; reflexivity.
Qed.

Lemma visit_active_count l : count_active l <= 1 -> count_active (visit_active l) = 0.
Proof.
  induction l as [|h l IH]; [reflexivity|]. rewrite count_active_cons. intros Hc.
  cbn [visit_active]. destruct (is_active h) eqn:Hh; rewrite count_active_cons.
  - cbn. lia.
  - rewrite Hh. rewrite IH; lia.
Qed.

Lemma activate_pending_count l l' :
  activate_pending l = Some l' -> count_active l' = S (count_active l).
Proof.
  revert l'; induction l as [|h l IH]; intros l' H; [discriminate|].
  cbn [activate_pending] in H. destruct (is_pending h) eqn:Hp.
  - injection H as <-. rewrite !count_active_cons.
    destruct h; try discriminate. reflexivity.
  - destruct (activate_pending l) as [l0|]; [|discriminate].
    injection H as <-. rewrite !count_active_cons, (IH _ eq_refl). lia.
Qed.

Lemma ext_count l l' : Forall2 ext_t l l' -> count_active l' = count_active l.
Proof.
  induction 1 as [|t t' l l' Ht _ IH]; [reflexivity|].
  rewrite !count_active_cons, IH, (ext_t_active Ht). reflexivity.
Qed.

Lemma visit_active_pending l a :
  nth_error l a = Some Pending -> nth_error (visit_active l) a = Some Pending.
Proof.
  revert a; induction l as [|h l IH]; intros [|a] H; cbn [nth_error visit_active] in *;
    try discriminate.
  - injection H as ->. reflexivity.
  - destruct (is_active h); cbn [nth_error]; auto.
Qed.

Lemma activate_pending_some l a :
  nth_error l a = Some Pending -> activate_pending l <> None.
Proof.
  revert a; induction l as [|h l IH]; intros [|a] H; cbn [nth_error activate_pending] in *;
    try discriminate.
  - injection H as ->. discriminate.
  - destruct (is_pending h); [discriminate|].
    specialize (IH _ H). destruct (activate_pending l); [discriminate|congruence].
Qed.

Lemma activate_pending_pending l l' a :
  activate_pending l = Some l' -> nth_error l a = Some Pending ->
  nth_error l' a = Some Pending \/ nth_error l' a = Some Active.
Proof.
  revert l' a; induction l as [|h l IH]; intros l' a H Hn; [discriminate|].
  cbn [activate_pending] in H. destruct (is_pending h) eqn:Hp.
  - injection H as <-. destruct a as [|a]; cbn [nth_error] in *; auto.
  - destruct (activate_pending l) as [l0|]; [|discriminate].
    injection H as <-. destruct a as [|a]; cbn [nth_error] in *.
    + injection Hn as ->. discriminate.
    + eapply IH; eauto.
Qed.

Lemma activate_pending_visited_inv l l' a :
  activate_pending l = Some l' -> nth_error l' a = Some Visited ->
  nth_error l a = Some Visited.
Proof.
  revert l' a; induction l as [|h l IH]; intros l' a H Hn; [discriminate|].
  cbn [activate_pending] in H. destruct (is_pending h) eqn:Hp.
  - injection H as <-. destruct a as [|a]; cbn [nth_error] in *; [discriminate|auto].
  - destruct (activate_pending l) as [l0|]; [|discriminate].
    injection H as <-. destruct a as [|a]; cbn [nth_error] in *; auto.
    eapply IH; eauto.
Qed.

Lemma visit_active_visited_inv l a :
  nth_error (visit_active l) a = Some Visited ->
  nth_error l a = Some Visited \/ find_index is_active l = Some a.
Proof.
  revert a; induction l as [|h l IH]; intros a H; cbn [visit_active] in H.
  - destruct a; discriminate.
  - cbn [find_index]. destruct (is_active h) eqn:Hh.
    + destruct a as [|a]; cbn [nth_error] in *; auto.
    + destruct a as [|a]; cbn [nth_error] in *; auto.
      destruct (IH _ H) as [H1|H1]; auto. rewrite H1. right; reflexivity.
Qed.

Lemma ext_threads_visited_inv l l' a :
  Forall2 ext_t l l' -> nth_error l' a = Some Visited -> nth_error l a = Some Visited.
Proof.
  intros H; revert a.
  induction H as [|t t' l l' Ht _ IH]; intros [|a] Hn; cbn [nth_error] in *;
    try discriminate; auto.
  injection Hn as ->. destruct Ht as [Ht|[_ Ht]]; [subst; reflexivity|discriminate].
Qed.

Lemma ext_threads_pending l l' a :
  Forall2 ext_t l l' -> nth_error l a = Some Pending -> nth_error l' a = Some Pending.
Proof.
  intros H; revert a.
  induction H as [|t t' l l' Ht _ IH]; intros [|a] Hn; cbn [nth_error] in *;
    try discriminate; auto.
  injection Hn as ->. destruct Ht as [Ht|[Ht _]]; [subst; reflexivity|discriminate].
Qed.

Lemma activate_pending_none l :
  activate_pending l = None -> Forall (fun t => t <> Pending) l.
Proof.
  induction l as [|h l IH]; intros H; [constructor|].
  cbn [activate_pending] in H. destruct (is_pending h) eqn:Hp; [discriminate|].
  destruct (activate_pending l); [discriminate|].
  constructor; [|auto]. intros ->. discriminate.
Qed.

Lemma visit_active_no_pending_inv l :
  Forall (fun t => t <> Pending) (visit_active l) -> Forall (fun t => t <> Pending) l.
Proof.
  induction l as [|h l IH]; intros H; [constructor|].
  cbn [visit_active] in H. destruct (is_active h) eqn:Hh; inversion H; subst.
  - constructor; auto. intros ->. discriminate.
  - constructor; auto.
Qed.

(* ------------------------------------------------------------------ *)
(* entries: reg / used / todo under advance_entry and ext              *)
(* ------------------------------------------------------------------ *)

Lemma reg_cases en c :
  wf2_entry en -> reg en c -> used en c \/ choice_of en = c \/ todo en c.
Proof.
  destruct en as [s|l|s], c as [[t|]|k|b]; cbn [reg used todo choice_of wf2_entry];
    intros Hwf H; try contradiction.
  - destruct H as [H|[H|H]]; auto.
    right; left. unfold active_thread_index. rewrite (count_active_find _ _ Hwf H).
    reflexivity.
  - destruct (lt_eq_lt_dec k (l_pos l)) as [[Hlt|Heq]|Hgt]; auto.
    all: try (right; left; congruence).
  - destruct (p_spur s) eqn:Hs, b; auto.
Qed.

Lemma todo_advance en c :
  entry_exploring en = true -> todo en c -> advance_entry en <> None.
Proof.
  destruct en as [s|l|s], c as [[t|]|k|b]; cbn [todo entry_exploring advance_entry];
    intros Hex H; try contradiction; rewrite Hex; cbn [negb].
  - pose proof (activate_pending_some _ _ (visit_active_pending _ _ H)) as Hne.
    destruct (activate_pending (visit_active (s_threads s))); [discriminate|congruence].
  - destruct (Nat.ltb_spec (S (l_pos l)) (length (l_vals l))); [discriminate|lia].
  - destruct H as [_ ->]. discriminate.
Qed.

Lemma advance_wf2 e e' : advance_entry e = Some e' -> wf2_entry e -> wf2_entry e'.
Proof.
  destruct e as [s|l|s]; cbn [advance_entry]; intros H Hwf.
  - destruct (negb (s_ex s)); [discriminate|].
    destruct (activate_pending (visit_active (s_threads s))) as [th|] eqn:Hth; [|discriminate].
    injection H as <-. cbn [wf2_entry s_threads] in *.
    rewrite (activate_pending_count _ _ Hth), (visit_active_count _ Hwf). lia.
  - destruct (negb (l_ex l)); [discriminate|].
    destruct (Nat.ltb _ _) in H; [|discriminate]. injection H as <-. exact I.
  - destruct (negb (p_ex s)); [discriminate|].
    destruct (p_spur s); [discriminate|]. injection H as <-. exact I.
Qed.

Lemma advance_todo e e' c :
  wf2_entry e -> advance_entry e = Some e' -> todo e c -> todo e' c \/ choice_of e' = c.
Proof.
  intros Hwf Ha. pose proof (advance_wf2 _ _ Ha Hwf) as Hwf'. revert Ha Hwf'.
  destruct e as [s|l|s], c as [[t|]|k|b]; cbn [todo advance_entry];
    intros Ha Hwf' H; try contradiction.
  - destruct (negb (s_ex s)); [discriminate|].
    destruct (activate_pending (visit_active (s_threads s))) as [th|] eqn:Hth; [|discriminate].
    injection Ha as <-. cbn [todo choice_of wf2_entry s_threads] in *.
    destruct (activate_pending_pending _ _ _ Hth (visit_active_pending _ _ H)) as [Hp|Hact];
      [left; exact Hp|right].
    unfold active_thread_index. cbn [s_threads].
    rewrite (count_active_find _ _ Hwf' Hact). reflexivity.
  - destruct (negb (l_ex l)); [discriminate|].
    destruct (Nat.ltb _ _) in Ha; [|discriminate]. injection Ha as <-.
    cbn [todo choice_of l_pos l_vals].
    destruct (Nat.eq_dec k (S (l_pos l))) as [->|Hne]; [right; reflexivity|left; lia].
  - destruct (negb (p_ex s)); [discriminate|].
    destruct (p_spur s); [discriminate|]. injection Ha as <-.
    cbn [choice_of p_spur]. destruct H as [-> _]. right; reflexivity.
Qed.

Lemma advance_used e e' c :
  advance_entry e = Some e' -> used e' c -> used e c \/ choice_of e = c.
Proof.
  destruct e as [s|l|s]; cbn [advance_entry]; intros Ha.
  - destruct (negb (s_ex s)); [discriminate|].
    destruct (activate_pending (visit_active (s_threads s))) as [th|] eqn:Hth; [|discriminate].
    injection Ha as <-. destruct c as [[t|]|k|b]; cbn [used choice_of s_threads];
      try contradiction.
    intros Hv. pose proof (activate_pending_visited_inv _ _ _ Hth Hv) as Hv'.
    destruct (visit_active_visited_inv _ _ Hv') as [H1|H1]; [left; exact H1|right].
    unfold active_thread_index. rewrite H1. reflexivity.
  - destruct (negb (l_ex l)); [discriminate|].
    destruct (Nat.ltb _ _) in Ha; [|discriminate]. injection Ha as <-.
    destruct c as [[t|]|k|b]; cbn [used choice_of l_pos]; try contradiction.
    intros Hk. destruct (Nat.eq_dec k (l_pos l)) as [->|Hne]; [right; reflexivity|left; lia].
  - destruct (negb (p_ex s)); [discriminate|].
    destruct (p_spur s) eqn:Hs; [discriminate|]. injection Ha as <-.
    destruct c as [[t|]|k|b]; cbn [used choice_of p_spur]; try contradiction.
    intros [-> _]. right. rewrite Hs. reflexivity.
Qed.

Lemma ext_used_inv en en' c : ext en en' -> used en' c -> used en c.
Proof.
  intros H. destruct (ext_inv _ _ H) as [->|(s & th & -> & -> & _ & Hth)]; [auto|].
  destruct c as [[t|]|k|b]; cbn [used s_threads]; try contradiction.
  apply ext_threads_visited_inv. exact Hth.
Qed.

Lemma ext_todo en en' c : ext en en' -> todo en c -> todo en' c.
Proof.
  intros H. destruct (ext_inv _ _ H) as [->|(s & th & -> & -> & _ & Hth)]; [auto|].
  destruct c as [[t|]|k|b]; cbn [todo s_threads]; try contradiction.
  apply ext_threads_pending. exact Hth.
Qed.

Lemma ext_wf2_entry en en' : ext en en' -> wf2_entry en -> wf2_entry en'.
Proof.
  intros H. destruct (ext_inv _ _ H) as [->|(s & th & -> & -> & _ & Hth)]; [auto|].
  cbn [wf2_entry s_threads]. rewrite (ext_count _ _ Hth). auto.
Qed.

Lemma fresh_not_used en c : fresh_entry en -> ~ used en c.
Proof.
  destruct en as [s|l|s], c as [[t|]|k|b]; cbn [fresh_entry used]; intros Hf H;
    try contradiction.
  - apply nth_error_In in H. rewrite Forall_forall in Hf. exact (Hf _ H eq_refl).
  - lia.
  - destruct H as [_ H]. congruence.
Qed.

(* ------------------------------------------------------------------ *)
(* (a) step = None: every entry is exhausted                           *)
(* ------------------------------------------------------------------ *)

Lemma step_rev_none rb :
  step_rev rb = None -> Forall (fun x => advance_entry x = None) rb.
Proof.
  induction rb as [|e rb IH]; intros H; [constructor|].
  cbn [step_rev] in H. destruct (advance_entry e) eqn:He; [discriminate|].
  constructor; auto.
Qed.

Lemma step_none_all e :
  step e = None -> Forall (fun x => advance_entry x = None) (branches e).
Proof.
  unfold step. intros H.
  destruct (step_rev (rev (branches e))) eqn:Hs; [discriminate|].
  rewrite <- (rev_involutive (branches e)). apply Forall_rev, step_rev_none, Hs.
Qed.

Theorem step_none_exhausted e :
  step e = None ->
  forall q en, nth_error (branches e) q = Some en -> entry_exploring en = true ->
               advance_entry en = None.
Proof.
  intros H q en Hn _. pose proof (step_none_all _ H) as Hall.
  rewrite Forall_forall in Hall. apply Hall. eapply nth_error_In; eauto.
Qed.

(* what "exhausted" means for each kind of exploring entry *)
Lemma exhausted_sched s :
  s_ex s = true -> advance_entry (ESched s) = None ->
  Forall (fun t => t <> Pending) (s_threads s).
Proof.
  cbn [advance_entry]. intros -> H. cbn [negb] in H.
  destruct (activate_pending (visit_active (s_threads s))) eqn:Hth; [discriminate|].
  apply visit_active_no_pending_inv, activate_pending_none, Hth.
Qed.

Lemma exhausted_load l :
  l_ex l = true -> advance_entry (ELoad l) = None -> length (l_vals l) <= S (l_pos l).
Proof.
  cbn [advance_entry]. intros -> H. cbn [negb] in H.
  destruct (Nat.ltb_spec (S (l_pos l)) (length (l_vals l))); [discriminate|lia].
Qed.

Lemma exhausted_spur s :
  p_ex s = true -> advance_entry (ESpur s) = None -> p_spur s = true.
Proof.
  cbn [advance_entry]. intros -> H. cbn [negb] in H.
  destruct (p_spur s); [reflexivity|discriminate].
Qed.

(* an exhausted exploring entry has nothing left to do: every registered
   alternative is used up or is the current decision *)
Lemma exhausted_reg en c :
  wf2_entry en -> entry_exploring en = true -> advance_entry en = None ->
  reg en c -> used en c \/ choice_of en = c.
Proof.
  intros Hwf Hex Hadv Hreg.
  destruct (reg_cases _ _ Hwf Hreg) as [H|[H|H]]; auto.
  exfalso. exact (todo_advance _ _ Hex H Hadv).
Qed.

(* ------------------------------------------------------------------ *)
(* (b) step = Some: every popped entry is exhausted                    *)
(* ------------------------------------------------------------------ *)

Theorem popped_entries_exhausted e e' :
  step e = Some e' ->
  exists a, a < length (branches e) /\ length (branches e') = S a /\
    (exists en en', nth_error (branches e) a = Some en /\
                    nth_error (branches e') a = Some en' /\
                    advance_entry en = Some en') /\
    (forall q, q < a -> nth_error (branches e') q = nth_error (branches e) q) /\
    (forall q en, a < q -> nth_error (branches e) q = Some en -> advance_entry en = None).
Proof.
  intros H.
  destruct (step_cases _ _ H) as (kept & e0 & e0' & popped & Hb & Hb' & Ha & Hpop & _).
  exists (length kept). rewrite Hb, Hb', !app_length. cbn [length].
  split; [lia|]. split; [lia|]. split; [|split].
  - exists e0, e0'. rewrite !nth_error_app2, Nat.sub_diag by lia. auto.
  - intros q Hq. rewrite !nth_error_app1 by lia. reflexivity.
  - intros q en Hq Hn. rewrite nth_error_app2 in Hn by lia.
    destruct (q - length kept) as [|m] eqn:Hm; [lia|]. cbn [nth_error] in Hn.
    rewrite Forall_forall in Hpop. apply Hpop. eapply nth_error_In; eauto.
Qed.

(* ------------------------------------------------------------------ *)
(* paths: wf2 under step and under an iteration                        *)
(* ------------------------------------------------------------------ *)

Lemma step_wf2 p p' : wf2_path p -> step p = Some p' -> wf2_path p'.
Proof.
  unfold wf2_path. intros Hp H.
  destruct (step_cases _ _ H) as (kept & e & e' & popped & Hb & Hb' & He & _).
  rewrite Hb'. rewrite Hb in Hp.
  apply Forall_app in Hp. destruct Hp as [Hk Hep].
  inversion Hep as [|x y Hce Hpop]; subst.
  apply Forall_app; split; [exact Hk|].
  constructor; [|constructor]. eapply advance_wf2; eassumption.
Qed.

Lemma Forall2_ext_wf2 l l' : Forall2 ext l l' -> Forall wf2_entry l -> Forall wf2_entry l'.
Proof.
  induction 1 as [|a b l l' Hab _ IH]; intros Hwf; [constructor|].
  inversion Hwf; subst. constructor; eauto using ext_wf2_entry.
Qed.

(* [extends] with the appended part named *)
Lemma extends_new p p' :
  extends p p' ->
  exists old, branches p' = old ++ new_entries p p' /\ Forall2 ext (branches p) old.
Proof.
  intros (_ & _ & _ & old & new & Hb & Hold).
  exists old. split; [|exact Hold].
  unfold new_entries. rewrite (Forall2_len _ _ _ _ _ Hold), Hb.
  rewrite skipn_app, skipn_all, Nat.sub_diag. reflexivity.
Qed.

(* the old part of the stack keeps wf2 through backtrack marks *)
Lemma extends_wf2_old p p' :
  extends p p' -> wf2_path p -> Forall wf2_entry (new_entries p p') -> wf2_path p'.
Proof.
  intros Hext Hp Hnew. destruct (extends_new _ _ Hext) as (old & Hb & Hold).
  unfold wf2_path. rewrite Hb. apply Forall_app. split; [|exact Hnew].
  eapply Forall2_ext_wf2; eauto.
Qed.

Lemma extends_prefix p p' q :
  extends p p' -> q <= length (branches p) ->
  firstn q (choices p') = firstn q (choices p).
Proof.
  intros (_ & _ & _ & old & new & Hb & Hold) Hq.
  unfold choices. rewrite Hb, map_app, (Forall2_ext_choices Hold).
  rewrite firstn_app.
  replace (q - length (map choice_of (branches p))) with 0 by (rewrite map_length; lia).
  cbn [firstn]. rewrite app_nil_r. reflexivity.
Qed.

Lemma extends_nth_old p p' q en :
  extends p p' -> nth_error (branches p) q = Some en ->
  exists en', nth_error (branches p') q = Some en' /\ ext en en'.
Proof.
  intros (_ & _ & _ & old & new & Hb & Hold) Hn.
  destruct (Forall2_nth_error _ Hold Hn) as (en' & Hn' & Hext).
  exists en'. split; [|exact Hext].
  rewrite Hb, nth_error_app1; [exact Hn'|]. apply nth_error_Some. congruence.
Qed.

(* an entry of the extended stack is an old one with marks, or a new one *)
Lemma extends_nth_inv p p' q en' :
  extends p p' -> nth_error (branches p') q = Some en' ->
  (q < length (branches p) /\ exists en, nth_error (branches p) q = Some en /\ ext en en') \/
  (length (branches p) <= q /\ In en' (new_entries p p')).
Proof.
  intros Hext Hn.
  destruct (Nat.lt_ge_cases q (length (branches p))) as [Hlt|Hge].
  - left. split; [exact Hlt|].
    destruct (nth_error (branches p) q) as [en|] eqn:He;
      [|apply nth_error_None in He; lia].
    destruct (extends_nth_old _ _ _ _ Hext He) as (en2 & Hn2 & Hx).
    exists en. split; [reflexivity|]. congruence.
  - right. split; [exact Hge|].
    destruct (extends_new _ _ Hext) as (old & Hb & Hold).
    rewrite Hb in Hn. rewrite nth_error_app2 in Hn
      by (rewrite <- (Forall2_len _ _ _ _ _ Hold); exact Hge).
    eapply nth_error_In; eauto.
Qed.

(* the decision prefix up to the advanced slot is kept by step *)
Lemma step_prefix_choices kept (x y : list entry) q :
  q <= length kept ->
  firstn q (map choice_of (kept ++ x)) = firstn q (map choice_of (kept ++ y)).
Proof.
  intros Hq. eapply firstn_agree_le; [apply choices_app_firstn|exact Hq].
Qed.

(* ------------------------------------------------------------------ *)
(* (c) used-up alternatives have an earlier witness                    *)
(* ------------------------------------------------------------------ *)

(* some path of [H] follows the decision prefix [firstn q cs] and then decides [c] *)
Definition wit (H : list path) (cs : list choice) (q : nat) (c : choice) : Prop :=
  exists ej, In ej H /\ firstn q (choices ej) = firstn q cs /\
             nth_error (choices ej) q = Some c.

Definition past_inv (H : list path) (x : path) : Prop :=
  forall q en c, nth_error (branches x) q = Some en -> entry_exploring en = true ->
                 used en c -> wit H (choices x) q c.

Lemma wit_mono H H' cs cs' q c :
  (forall x, In x H -> In x H') -> firstn q cs = firstn q cs' ->
  wit H cs q c -> wit H' cs' q c.
Proof.
  intros Hin Hcs (ej & Hj & Hf & Hc). exists ej. split; [auto|]. split; [congruence|exact Hc].
Qed.

Lemma past_inv_fresh p : fresh_path p -> past_inv [] p.
Proof.
  intros Hf q en c Hn _ Hu. exfalso.
  unfold fresh_path in Hf. rewrite Forall_forall in Hf.
  exact (fresh_not_used _ _ (Hf _ (nth_error_In _ _ Hn)) Hu).
Qed.

Lemma past_inv_iter H p p' :
  extends p p' -> Forall fresh_entry (new_entries p p') -> past_inv H p -> past_inv H p'.
Proof.
  intros Hext Hnew Hinv q en' c Hn Hex Hu.
  destruct (extends_nth_inv _ _ _ _ Hext Hn) as [(Hlt & en & He & Hx)|(_ & Hin)].
  - eapply wit_mono; [intros x Hxin; exact Hxin| |].
    + symmetry. apply (extends_prefix _ _ q Hext). lia.
    + apply (Hinv q en c He).
      * rewrite <- (ext_exploring _ _ Hx). exact Hex.
      * eapply ext_used_inv; eauto.
  - exfalso. rewrite Forall_forall in Hnew. exact (fresh_not_used _ _ (Hnew _ Hin) Hu).
Qed.

Lemma past_inv_step H e p' :
  step e = Some p' -> past_inv H e -> past_inv (H ++ [e]) p'.
Proof.
  intros Hs Hinv q en c Hn Hex Hu.
  destruct (step_cases _ _ Hs) as (kept & e0 & e0' & popped & Hb & Hb' & Ha & _).
  assert (Hpre : forall q', q' <= length kept ->
                            firstn q' (choices e) = firstn q' (choices p')).
  { intros q' Hq'. unfold choices. rewrite Hb, Hb'. apply step_prefix_choices, Hq'. }
  rewrite Hb' in Hn.
  destruct (lt_eq_lt_dec q (length kept)) as [[Hlt|Heq]|Hgt].
  - rewrite nth_error_app1 in Hn by exact Hlt.
    eapply wit_mono; [| |apply (Hinv q en c)]; auto.
    + intros x Hx. apply in_or_app. left; exact Hx.
    + apply Hpre. lia.
    + rewrite Hb, nth_error_app1 by exact Hlt. exact Hn.
  - subst q. rewrite nth_error_app2, Nat.sub_diag in Hn by lia.
    cbn [nth_error] in Hn. injection Hn as <-.
    assert (He0 : nth_error (branches e) (length kept) = Some e0).
    { rewrite Hb, nth_error_app2, Nat.sub_diag by lia. reflexivity. }
    destruct (advance_used _ _ _ Ha Hu) as [Hu0|Hc0].
    + eapply wit_mono; [| |apply (Hinv (length kept) e0 c)]; auto.
      * intros x Hx. apply in_or_app. left; exact Hx.
      * exact (proj1 (advance_entry_exploring _ _ Ha)).
    + exists e. split; [apply in_or_app; right; left; reflexivity|].
      split; [apply Hpre; lia|].
      unfold choices. rewrite (nth_error_map_some choice_of _ _ He0), Hc0. reflexivity.
  - rewrite nth_error_app2 in Hn by lia.
    destruct (q - length kept) as [|m] eqn:Hm; [lia|]. destruct m; discriminate.
Qed.

Lemma In_firstn_nth (A : Type) (x : A) k l :
  In x (firstn k l) -> exists j, j < k /\ nth_error l j = Some x.
Proof.
  revert l; induction k as [|k IH]; intros [|h l] Hin; cbn [firstn In] in Hin;
    try contradiction.
  destruct Hin as [->|Hin].
  - exists 0. split; [lia|reflexivity].
  - destruct (IH _ Hin) as (j & Hj & Hn). exists (S j). split; [lia|exact Hn].
Qed.

Section Explore.
  Variable it : path -> path.
  Hypothesis Hit : iter_ok it.
  Hypothesis Hit2 : iter_ok2 it.

  Lemma past_inv_explore :
    forall n p H, wf_path p -> wf2_path p -> past_inv H p ->
    forall k ek, nth_error (explore it n p) k = Some ek ->
                 past_inv (H ++ firstn k (explore it n p)) ek.
  Proof.
    induction n as [|n IH]; intros p H Hwf Hwf2 Hinv k ek Hk; cbn [explore] in *.
    - destruct k; discriminate.
    - destruct (Hit p Hwf) as [Hext Hwfi].
      destruct (Hit2 p Hwf Hwf2) as [Hwf2i Hnew].
      pose proof (past_inv_iter _ _ _ Hext Hnew Hinv) as Hinvi.
      destruct k as [|k]; cbn [nth_error firstn] in *.
      + injection Hk as <-. rewrite app_nil_r. exact Hinvi.
      + destruct (step (it p)) as [p'|] eqn:Hs; [|destruct k; discriminate].
        replace (H ++ it p :: firstn k (explore it n p'))
          with ((H ++ [it p]) ++ firstn k (explore it n p'))
          by (rewrite <- app_assoc; reflexivity).
        apply IH; auto.
        * exact (PathTerm.step_wf _ _ Hwfi Hs).
        * exact (step_wf2 _ _ Hwf2i Hs).
        * apply past_inv_step; assumption.
  Qed.

  (* the END path at index k is an iteration from some START path, and the
     rest of the list is the exploration from that START path *)
  Lemma explore_suffix :
    forall n p k ek, wf_path p -> wf2_path p -> finishes it n p = true ->
    nth_error (explore it n p) k = Some ek ->
    exists n' pk, wf_path pk /\ wf2_path pk /\ finishes it (S n') pk = true /\
                  ek = it pk /\
                  forall j, nth_error (explore it (S n') pk) j
                            = nth_error (explore it n p) (k + j).
  Proof.
    induction n as [|n IH]; intros p k ek Hwf Hwf2 Hfin Hk.
    - destruct k; discriminate.
    - destruct k as [|k].
      + exists n, p. cbn [explore nth_error] in Hk. injection Hk as <-.
        split; [exact Hwf|]. split; [exact Hwf2|]. split; [exact Hfin|].
        split; [reflexivity|]. intros j. reflexivity.
      + cbn [explore nth_error] in Hk. cbn [finishes] in Hfin.
        destruct (Hit p Hwf) as [Hext Hwfi].
        destruct (Hit2 p Hwf Hwf2) as [Hwf2i Hnew].
        destruct (step (it p)) as [p'|] eqn:Hs; [|destruct k; discriminate].
        destruct (IH p' k ek (PathTerm.step_wf _ _ Hwfi Hs) (step_wf2 _ _ Hwf2i Hs) Hfin Hk)
          as (n' & pk & H1 & H2 & H3 & H4 & H5).
        exists n', pk.
        split; [exact H1|]. split; [exact H2|]. split; [exact H3|]. split; [exact H4|].
        intros j. rewrite H5. cbn [explore Nat.add nth_error]. rewrite Hs. reflexivity.
  Qed.
End Explore.

Theorem visited_witness :
  forall it n p, iter_ok it -> iter_ok2 it -> wf_path p -> wf2_path p -> fresh_path p ->
  forall k ek q en c,
    nth_error (explore it n p) k = Some ek ->
    nth_error (branches ek) q = Some en -> entry_exploring en = true -> used en c ->
    exists j ej, j < k /\ nth_error (explore it n p) j = Some ej /\
                 firstn q (choices ej) = firstn q (choices ek) /\
                 nth_error (choices ej) q = Some c.
Proof.
  intros it n p Hit Hit2 Hwf Hwf2 Hfresh k ek q en c Hk Hn Hex Hu.
  pose proof (past_inv_explore it Hit Hit2 n p [] Hwf Hwf2 (past_inv_fresh _ Hfresh) k ek Hk)
    as Hinv.
  destruct (Hinv q en c Hn Hex Hu) as (ej & Hin & Hf & Hc).
  cbn [app] in Hin. destruct (In_firstn_nth _ _ _ _ Hin) as (j & Hj & Hnj).
  exists j, ej. auto.
Qed.

(* ------------------------------------------------------------------ *)
(* (d) alternatives still to do are decided by a later iteration       *)
(* ------------------------------------------------------------------ *)

(* a to-do alternative of END path [e] survives step (the slot is not popped)
   and is, in the next START path, still to do or the current decision *)
Lemma step_todo e q en c :
  wf2_path e ->
  nth_error (branches e) q = Some en -> entry_exploring en = true -> todo en c ->
  exists p', step e = Some p' /\
    exists en', nth_error (branches p') q = Some en' /\ entry_exploring en' = true /\
                (todo en' c \/ choice_of en' = c) /\
                firstn q (choices p') = firstn q (choices e).
Proof.
  intros Hwf2 Hn Hex Htodo.
  destruct (step e) as [p'|] eqn:Hs.
  2:{ exfalso. exact (todo_advance _ _ Hex Htodo (step_none_exhausted _ Hs _ _ Hn Hex)). }
  exists p'. split; [reflexivity|].
  destruct (step_cases _ _ Hs) as (kept & e0 & e0' & popped & Hb & Hb' & Ha & Hpop & _).
  assert (Hpre : forall q', q' <= length kept ->
                            firstn q' (choices p') = firstn q' (choices e)).
  { intros q' Hq'. unfold choices. rewrite Hb, Hb'. apply step_prefix_choices, Hq'. }
  rewrite Hb in Hn.
  destruct (lt_eq_lt_dec q (length kept)) as [[Hlt|Heq]|Hgt].
  - rewrite nth_error_app1 in Hn by exact Hlt.
    exists en. rewrite Hb', nth_error_app1 by exact Hlt.
    split; [exact Hn|]. split; [exact Hex|]. split; [left; exact Htodo|]. apply Hpre. lia.
  - subst q. rewrite nth_error_app2, Nat.sub_diag in Hn by lia.
    cbn [nth_error] in Hn. injection Hn as <-.
    exists e0'. rewrite Hb', nth_error_app2, Nat.sub_diag by lia.
    split; [reflexivity|]. split; [exact (proj2 (advance_entry_exploring _ _ Ha))|].
    split; [|apply Hpre; lia].
    apply (advance_todo _ _ _) with (2 := Ha); [|exact Htodo].
    unfold wf2_path in Hwf2. rewrite Hb in Hwf2. apply Forall_app in Hwf2.
    destruct Hwf2 as [_ Hwf2]. inversion Hwf2; assumption.
  - exfalso. rewrite nth_error_app2 in Hn by lia.
    destruct (q - length kept) as [|m] eqn:Hm; [lia|]. cbn [nth_error] in Hn.
    rewrite Forall_forall in Hpop.
    exact (todo_advance _ _ Hex Htodo (Hpop _ (nth_error_In _ _ Hn))).
Qed.

Section Progress.
  Variable it : path -> path.
  Hypothesis Hit : iter_ok it.
  Hypothesis Hit2 : iter_ok2 it.

  (* from a START path in which [c] is to do or current at slot q, some END
     path of the finishing exploration follows the same prefix and decides c *)
  Lemma progress :
    forall n p, wf_path p -> wf2_path p -> finishes it n p = true ->
    forall q en c, nth_error (branches p) q = Some en -> entry_exploring en = true ->
                   (todo en c \/ choice_of en = c) ->
    exists j ej, nth_error (explore it n p) j = Some ej /\
                 firstn q (choices ej) = firstn q (choices p) /\
                 nth_error (choices ej) q = Some c.
  Proof.
    induction n as [|n IH]; intros p Hwf Hwf2 Hfin q en c Hn Hex Hc; [discriminate|].
    cbn [finishes] in Hfin. cbn [explore].
    destruct (Hit p Hwf) as [Hext Hwfi].
    destruct (Hit2 p Hwf Hwf2) as [Hwf2i _].
    destruct (extends_nth_old _ _ _ _ Hext Hn) as (en' & Hn' & Hx).
    assert (Hq : q <= length (branches p)).
    { apply Nat.lt_le_incl, nth_error_Some. congruence. }
    pose proof (extends_prefix _ _ q Hext Hq) as Hpre.
    assert (Hex' : entry_exploring en' = true) by (rewrite (ext_exploring _ _ Hx); exact Hex).
    destruct Hc as [Htodo|Hcur].
    - pose proof (ext_todo _ _ _ Hx Htodo) as Htodo'.
      destruct (step_todo _ _ _ _ Hwf2i Hn' Hex' Htodo')
        as (p' & Hs & en2 & Hn2 & Hex2 & Hc2 & Hpre2).
      rewrite Hs in Hfin |- *.
      destruct (IH p' (PathTerm.step_wf _ _ Hwfi Hs) (step_wf2 _ _ Hwf2i Hs) Hfin
                   q en2 c Hn2 Hex2 Hc2) as (j & ej & Hj & Hf & Hcj).
      exists (S j), ej. cbn [nth_error]. split; [exact Hj|]. split; [congruence|exact Hcj].
    - exists 0, (it p). cbn [nth_error]. split; [reflexivity|]. split; [exact Hpre|].
      unfold choices. rewrite (nth_error_map_some choice_of _ _ Hn').
      rewrite (ext_choice Hx), Hcur. reflexivity.
  Qed.
End Progress.

Theorem dfs_exhaustive :
  forall it n p,
    iter_ok it -> iter_ok2 it -> wf_path p -> wf2_path p -> fresh_path p ->
    finishes it n p = true ->
  forall k ek q c,
    nth_error (explore it n p) k = Some ek -> registered ek q c ->
    exists j ej, nth_error (explore it n p) j = Some ej /\
                 firstn q (choices ej) = firstn q (choices ek) /\
                 nth_error (choices ej) q = Some c.
Proof.
  intros it n p Hit Hit2 Hwf Hwf2 Hfresh Hfin k ek q c Hk Hreg.
  apply registered_reg in Hreg. destruct Hreg as (en & Hn & Hex & Hreg).
  destruct (explore_suffix it Hit Hit2 n p k ek Hwf Hwf2 Hfin Hk)
    as (n' & pk & Hwfk & Hwf2k & Hfink & Hek & Hsuf).
  destruct (Hit pk Hwfk) as [_ Hwfe]. destruct (Hit2 pk Hwfk Hwf2k) as [Hwf2e _].
  rewrite <- Hek in Hwfe, Hwf2e.
  assert (Hwfen : wf2_entry en).
  { unfold wf2_path in Hwf2e. rewrite Forall_forall in Hwf2e.
    apply Hwf2e. eapply nth_error_In; eauto. }
  destruct (reg_cases _ _ Hwfen Hreg) as [Hu|[Hcur|Htodo]].
  - (* used up: an earlier iteration *)
    destruct (visited_witness it n p Hit Hit2 Hwf Hwf2 Hfresh k ek q en c Hk Hn Hex Hu)
      as (j & ej & _ & Hj & Hf & Hc).
    exists j, ej. auto.
  - (* the decision of this very iteration *)
    exists k, ek. split; [exact Hk|]. split; [reflexivity|].
    unfold choices. rewrite (nth_error_map_some choice_of _ _ Hn), Hcur. reflexivity.
  - (* still to do: a later iteration *)
    destruct (step_todo _ _ _ _ Hwf2e Hn Hex Htodo)
      as (p' & Hs & en2 & Hn2 & Hex2 & Hc2 & Hpre2).
    cbn [finishes] in Hfink. rewrite <- Hek, Hs in Hfink.
    destruct (progress it Hit Hit2 n' p' (PathTerm.step_wf _ _ Hwfe Hs)
                (step_wf2 _ _ Hwf2e Hs) Hfink q en2 c Hn2 Hex2 Hc2)
      as (j & ej & Hj & Hf & Hc).
    exists (k + S j), ej. split; [|split; [congruence|exact Hc]].
    rewrite <- Hsuf. cbn [explore nth_error]. rewrite <- Hek, Hs. exact Hj.
Qed.

(* ------------------------------------------------------------------ *)
(* the concrete Path API keeps wf2 and appends only fresh entries      *)
(* ------------------------------------------------------------------ *)

Definition api_ok2 (p p' : path) : Prop :=
  wf2_path p -> wf2_path p' /\ Forall fresh_entry (new_entries p p').

Lemma api_same p p' : branches p' = branches p -> api_ok2 p p'.
Proof.
  intros Hb Hwf. unfold wf2_path, new_entries. rewrite Hb, skipn_all. split; [exact Hwf|constructor].
Qed.

Lemma api_marks p p' : Forall2 ext (branches p) (branches p') -> api_ok2 p p'.
Proof.
  intros Hb Hwf. split.
  - eapply Forall2_ext_wf2; eauto.
  - unfold new_entries. rewrite (Forall2_len _ _ _ _ _ Hb), skipn_all. constructor.
Qed.

Lemma api_push p p' e :
  branches p' = branches p ++ [e] -> wf2_entry e -> fresh_entry e -> api_ok2 p p'.
Proof.
  intros Hb He Hf Hwf. unfold wf2_path, new_entries. rewrite Hb. split.
  - apply Forall_app. split; [exact Hwf|]. constructor; [exact He|constructor].
  - rewrite skipn_app, skipn_all, Nat.sub_diag. cbn [skipn app].
    constructor; [exact Hf|constructor].
Qed.

Lemma push_load_wf2 p seed p' : push_load p seed = POk p' -> api_ok2 p p'.
Proof.
  intros H. destruct (push_load_cases _ _ _ H) as (_ & _ & ->).
  eapply api_push; [reflexivity|exact I|reflexivity].
Qed.

Lemma branch_load_wf2 p p' v : branch_load p = POk (p', v) -> api_ok2 p p'.
Proof.
  intros H. rewrite (branch_load_cases _ _ _ H). apply api_same. reflexivity.
Qed.

Lemma branch_spurious_wf2 p p' b : branch_spurious p = POk (p', b) -> api_ok2 p p'.
Proof.
  intros H. destruct (branch_spurious_cases _ _ _ H) as [(_ & ->)|(_ & _ & ->)].
  - apply api_same. reflexivity.
  - eapply api_push; [reflexivity|exact I|reflexivity].
Qed.

Lemma backtrack_wf2 p point tid p' : backtrack p point tid = POk p' -> api_ok2 p p'.
Proof.
  intros H. destruct (backtrack_marks _ _ _ _ H) as (_ & _ & _ & _ & _ & _ & Hbr).
  apply api_marks. exact Hbr.
Qed.

(* the thread array of the Schedule entry pushed by branch_thread *)
Definition new_threads (seed : list tstat) : list tstat :=
  let threads0 := pad_to MAX_THREADS Disabled seed in
  match find_index is_active threads0 with
  | Some _ => threads0
  | None => activate_first_yield threads0
  end.

Lemma pad_to_count n l : count_active (pad_to n Disabled l) <= count_active l.
Proof.
  revert l; induction n as [|n IH]; intros l; cbn [pad_to].
  - unfold count_active at 1. cbn. lia.
  - destruct l as [|h t]; rewrite !count_active_cons.
    + specialize (IH []). cbn in *. lia.
    + specialize (IH t). lia.
Qed.

Lemma activate_first_yield_count l :
  count_active (activate_first_yield l) <= S (count_active l).
Proof.
  induction l as [|h t IH]; [cbn; lia|].
  cbn [activate_first_yield].
  destruct h; rewrite !count_active_cons; cbn [is_active tstat_eqb]; lia.
Qed.

Lemma activate_first_yield_no_visited l :
  Forall (fun t => t <> Visited) l -> Forall (fun t => t <> Visited) (activate_first_yield l).
Proof.
  induction 1 as [|h t Hh Ht IH]; cbn [activate_first_yield]; [constructor|].
  destruct h; constructor; auto; discriminate.
Qed.

Lemma new_threads_count seed :
  length (filter is_active seed) <= 1 -> count_active (new_threads seed) <= 1.
Proof.
  intros Hs. unfold new_threads. cbv zeta.
  pose proof (pad_to_count MAX_THREADS seed) as Hp. fold (count_active seed) in Hs.
  destruct (find_index is_active (pad_to MAX_THREADS Disabled seed)) eqn:Hf; [lia|].
  pose proof (activate_first_yield_count (pad_to MAX_THREADS Disabled seed)) as Ha.
  rewrite (find_index_none_count _ Hf) in Ha. exact Ha.
Qed.

Lemma new_threads_no_visited seed :
  Forall (fun t => t <> Visited) seed -> Forall (fun t => t <> Visited) (new_threads seed).
Proof.
  intros Hs. unfold new_threads. cbv zeta.
  assert (Hp : Forall (fun t => t <> Visited) (pad_to MAX_THREADS Disabled seed)).
  { apply pad_to_Forall; [discriminate|exact Hs]. }
  destruct (find_index is_active (pad_to MAX_THREADS Disabled seed)); [exact Hp|].
  apply activate_first_yield_no_visited, Hp.
Qed.

Lemma branch_thread_new p seed p' t :
  branch_thread p seed = POk (p', t) -> is_traversed p = true ->
  exists s, branches p' = branches p ++ [ESched s] /\
            s_threads s = new_threads seed /\
            length (filter is_active seed) <= 1.
Proof.
  unfold branch_thread. intros H Ht. rewrite Ht in H.
  destruct (path_len_ok p); cbn [negb] in H; [|discriminate].
  destruct (Nat.ltb MAX_THREADS (length seed)); [discriminate|].
  destruct (Nat.ltb_spec 1 (length (filter is_active seed))) as [|Hact]; [discriminate|].
  cbv zeta in H.
  destruct (negb (opt_le_bound _ _)) in H; [discriminate|].
  cbv iota in H.
  destruct (nth_error _ _) as [[s|l|s]|] in H; try discriminate.
  injection H as <- _. cbn [branches set_pos set_branches].
  eexists. split; [reflexivity|]. split; [reflexivity|exact Hact].
Qed.

(* wf2 holds for every seed (branch_thread itself rejects two Active
   threads); freshness needs a seed without Visited, which is what the
   scheduler passes (Disabled / Skip / Yield / Pending / Active) *)
Lemma branch_thread_wf2 p seed p' t :
  Forall (fun x => x <> Visited) seed ->
  branch_thread p seed = POk (p', t) -> api_ok2 p p'.
Proof.
  intros Hseed H.
  destruct (branch_thread_cases _ _ _ _ H) as [(_ & ->)|(Ht & _)].
  - apply api_same. reflexivity.
  - destruct (branch_thread_new _ _ _ _ H Ht) as (s & Hb & Hth & Hact).
    eapply api_push; [exact Hb| |]; cbn [wf2_entry fresh_entry]; rewrite Hth.
    + apply new_threads_count, Hact.
    + apply new_threads_no_visited, Hseed.
Qed.

Lemma branch_thread_wf2_only p seed p' t :
  branch_thread p seed = POk (p', t) -> wf2_path p -> wf2_path p'.
Proof.
  intros H Hwf.
  destruct (branch_thread_cases _ _ _ _ H) as [(_ & ->)|(Ht & _)]; [exact Hwf|].
  destruct (branch_thread_new _ _ _ _ H Ht) as (s & Hb & Hth & Hact).
  unfold wf2_path. rewrite Hb. apply Forall_app. split; [exact Hwf|].
  constructor; [|constructor]. cbn [wf2_entry]. rewrite Hth. apply new_threads_count, Hact.
Qed.

(* explore_state / critical / skip_branch do not touch the stack *)
Lemma explore_state_wf2 p p' : explore_state p = POk p' -> api_ok2 p p'.
Proof.
  unfold explore_state. intros H. apply api_same.
  destruct (skipping p); [injection H as <-; reflexivity|].
  destruct (exploring p); [discriminate|]. injection H as <-. reflexivity.
Qed.

Lemma critical_wf2 p p' : critical p = POk p' -> api_ok2 p p'.
Proof.
  unfold critical. intros H. apply api_same.
  destruct (skipping p); [injection H as <-; reflexivity|].
  destruct (exploring p); [|discriminate]. injection H as <-. reflexivity.
Qed.

Lemma skip_branch_wf2 p : api_ok2 p (skip_branch p).
Proof. apply api_same. reflexivity. Qed.

(* ---- chaining API calls: the two facts compose along [extends] ---- *)

Lemma ext_threads_no_visited l l' :
  Forall2 ext_t l l' -> Forall (fun t => t <> Visited) l -> Forall (fun t => t <> Visited) l'.
Proof.
  induction 1 as [|t t' l l' Ht _ IH]; intros Hf; [constructor|].
  inversion Hf; subst. constructor; [|auto].
  destruct Ht as [->|[_ ->]]; [assumption|discriminate].
Qed.

Lemma ext_fresh en en' : ext en en' -> fresh_entry en -> fresh_entry en'.
Proof.
  intros H. destruct (ext_inv _ _ H) as [->|(s & th & -> & -> & _ & Hth)]; [auto|].
  cbn [fresh_entry s_threads]. apply ext_threads_no_visited. exact Hth.
Qed.

Lemma Forall2_ext_fresh l l' : Forall2 ext l l' -> Forall fresh_entry l -> Forall fresh_entry l'.
Proof.
  induction 1 as [|a b l l' Hab _ IH]; intros Hf; [constructor|].
  inversion Hf; subst. constructor; eauto using ext_fresh.
Qed.

Lemma new_entries_compose p p1 p2 :
  extends p p1 -> extends p1 p2 ->
  Forall fresh_entry (new_entries p p1) -> Forall fresh_entry (new_entries p1 p2) ->
  Forall fresh_entry (new_entries p p2).
Proof.
  intros H1 H2 Hf1 Hf2.
  destruct (extends_new _ _ H1) as (old1 & Hb1 & Hold1).
  destruct (extends_new _ _ H2) as (old2 & Hb2 & Hold2).
  rewrite Hb1 in Hold2.
  destruct (Forall2_app_inv_l _ _ Hold2) as (o2a & o2b & Ha & Hb & ->).
  unfold new_entries at 1. rewrite Hb2, <- app_assoc.
  rewrite (Forall2_len _ _ _ _ _ Hold1), (Forall2_len _ _ _ _ _ Ha).
  rewrite skipn_app, skipn_all, Nat.sub_diag. cbn [skipn app].
  apply Forall_app. split; [|exact Hf2]. eapply Forall2_ext_fresh; eauto.
Qed.

(* two consecutive API calls *)
Lemma api_ok2_compose p p1 p2 :
  extends p p1 -> extends p1 p2 -> api_ok2 p p1 -> api_ok2 p1 p2 -> api_ok2 p p2.
Proof.
  intros H1 H2 A1 A2 Hwf.
  destruct (A1 Hwf) as [Hwf1 Hf1]. destruct (A2 Hwf1) as [Hwf2 Hf2].
  split; [exact Hwf2|]. eapply new_entries_compose; eauto.
Qed.

(* path_new is fresh and wf2 *)
Lemma path_new_fresh mb b ex : fresh_path (path_new mb b ex) /\ wf2_path (path_new mb b ex).
Proof. split; constructor. Qed.

(* ---- remark on ELoad: the position bound is NOT l_pos < length l_vals ----
   push_load accepts an empty seed; branch_load then reads values[0] of the
   fixed-size array, i.e. 0.  The bound that does hold is the one below; it is
   not needed for exhaustiveness (an empty list registers no alternative). *)
Definition load_pos_ok (e : entry) : Prop :=
  match e with
  | ELoad l => l_pos l < length (l_vals l) \/ l_pos l = 0
  | _ => True
  end.

Lemma load_pos_ok_fresh e : fresh_entry e -> load_pos_ok e.
Proof. destruct e as [s|l|s]; cbn; auto. Qed.

Lemma load_pos_ok_advance e e' : advance_entry e = Some e' -> load_pos_ok e'.
Proof.
  destruct e as [s|l|s]; cbn [advance_entry]; intros H.
  - destruct (negb (s_ex s)); [discriminate|].
    destruct (activate_pending _) in H; [|discriminate]. injection H as <-. exact I.
  - destruct (negb (l_ex l)); [discriminate|].
    destruct (Nat.ltb_spec (S (l_pos l)) (length (l_vals l))); [|discriminate].
    injection H as <-. cbn [load_pos_ok l_pos l_vals]. left; assumption.
  - destruct (negb (p_ex s)); [discriminate|].
    destruct (p_spur s); [discriminate|]. injection H as <-. exact I.
Qed.

Lemma load_pos_ok_ext e e' : ext e e' -> load_pos_ok e -> load_pos_ok e'.
Proof.
  intros H. destruct (ext_inv _ _ H) as [->|(s & th & -> & -> & _)]; [auto|].
  intros _. exact I.
Qed.

Print Assumptions step_none_exhausted.
Print Assumptions exhausted_reg.
Print Assumptions popped_entries_exhausted.
Print Assumptions visited_witness.
Print Assumptions dfs_exhaustive.
Print Assumptions step_wf2.
Print Assumptions push_load_wf2.
Print Assumptions branch_load_wf2.
Print Assumptions branch_spurious_wf2.
Print Assumptions backtrack_wf2.
Print Assumptions branch_thread_wf2.
Print Assumptions api_ok2_compose.
