(* TlsFacts: thread_local! / lazy_static! bookkeeping over whole runs.

   Contents
     0. the TLS/lazy "view" of a state: tsig (body, initialised keys and the
        MLazyGetY / MLazyFinishY micro-operations still in the continuation
        of every thread), inits (the LInitTls / LInitLazy / LDropLazy entries
        of the log), e_lazy, e_bodies; veq (same view)
     1. framing lemmas in continuation style for every helper of Ops.v and
        for schedule
     2. tstep e e': the five ways in which a micro-operation other than
        MLazyGetY / MLazyFinishY can change the view (nothing, spawn, first
        use of a thread-local, initialisation of a lazy static, shutdown of
        the registry); exec_micro_tstep
        ([destruct m; tl_tac], MSpawn / MSpawnW / MTlsWith / MLazyGet /
        MLazyDrop / MDropLocals by hand);
        ystep e e': the four outcomes of a step of Scheduler::run that
        executes MLazyGetY / MLazyFinishY (lazy static with a yielding
        initialiser), pop included: getY_ystep, finY_ystep; getY_init_ok
        (the initialiser itself cannot panic)
     3. the invariant tl_inv and its preservation: tstep_inv, ystep_inv,
        exec_micro_inv, step_inv, steps_inv, run_inv, init_exec_inv;
        expand_prog_ykeys (the only such micro-operation of an expanded
        program is MLazyGetY 2)
     4. thread-locals: run_tls_nodup, run_tls_count, tls_init_le_threads,
        tls_init_once, tls_init_twice (the counterexample to the statement
        without side condition)
     5. lazy statics: run_lazy_nodup = lazy_registered_once,
        run_lazy_balance, run_lazy_balance_shut, run_lazy_all_dropped,
        run_lazy_count / lazy_init_once (keys other than 2),
        lazy_yielding_init_runs_twice (the counterexample for key 2),
        lazy_none_stays, steps_lazy_none, lazy_get_after_shutdown,
        lazy_get_acquires, lazy_init_publishes, lazy_finish_publishes,
        lazy_handover_global, lazyY_handover_global

   DEVIATIONS from the requested statements: see the end of the file. *)
Require Import LV.Base LV.VV LV.VVFacts LV.Path LV.PathSpec LV.PathApi LV.Prog LV.Objects
               LV.Exec LV.Atomic LV.Ops LV.Check LV.SyncFacts LV.ExecFacts LV.SyncMono.
From Coq Require Import List Arith Lia Bool.
Import ListNotations.

(* ================================================================== *)
(* 0. The view                                                         *)
(* ================================================================== *)

(* the lazy-static micro-operations with a yielding initialiser that a
   continuation still holds: (false, k) for MLazyGetY k (an access not yet
   begun), (true, k) for MLazyFinishY k _ (an initialiser of k in flight: its
   value is built, LInitLazy k is logged, the registration is still to come) *)
Definition ykey (m : micro) : list (bool * nat) :=
  match m with
  | MLazyGetY k => [(false, k)]
  | MLazyFinishY k _ => [(true, k)]
  | _ => []
  end.
Definition ykeys (c : list micro) : list (bool * nat) := flat_map ykey c.

Lemma ykeys_app a b : ykeys (a ++ b) = ykeys a ++ ykeys b.
Proof. unfold ykeys. apply flat_map_app. Qed.

Definition tview : Type := nat * (list nat * list (bool * nat)).
Definition bt (t : thread) : tview := (t_body t, (t_tls t, ykeys (t_cont t))).
Definition tsig (e : exec) : list tview := map bt (e_threads e).

Definition is_init (l : logline) : bool :=
  match l with LInitTls _ _ | LInitLazy _ | LDropLazy _ => true | _ => false end.
Definition inits (e : exec) : list logline := filter is_init (e_log e).

Definition veq (e0 e : exec) : Prop :=
  tsig e = tsig e0 /\ inits e = inits e0 /\ e_lazy e = e_lazy e0 /\ e_bodies e = e_bodies e0.

Lemma veq_refl e : veq e e.
Proof. repeat split. Qed.

Lemma veq_trans e0 e1 e2 : veq e0 e1 -> veq e1 e2 -> veq e0 e2.
Proof. intros (A1 & A2 & A3 & A4) (B1 & B2 & B3 & B4). repeat split; congruence. Qed.

Lemma veq_k e0 e e' : veq e e' -> veq e0 e -> veq e0 e'.
Proof. intros H1 H0. eapply veq_trans; eassumption. Qed.

(* ================================================================== *)
(* 1. Framing                                                          *)
(* ================================================================== *)

Lemma veq_same e e' :
  e_threads e' = e_threads e -> e_log e' = e_log e -> e_lazy e' = e_lazy e ->
  e_bodies e' = e_bodies e -> veq e e'.
Proof. intros Ht Hl Hz Hb. unfold veq, tsig, inits. rewrite Ht, Hl, Hz, Hb. auto. Qed.

Lemma veq_same_k e0 e e' :
  e_threads e' = e_threads e -> e_log e' = e_log e -> e_lazy e' = e_lazy e ->
  e_bodies e' = e_bodies e -> veq e0 e -> veq e0 e'.
Proof. intros Ht Hl Hz Hb. apply veq_k, veq_same; assumption. Qed.

Lemma map_list_set (A B : Type) (g : A -> B) (l : list A) i x :
  map g (list_set l i x) = list_set (map g l) i (g x).
Proof.
  revert i; induction l as [|h t IH]; intros [|i]; cbn [list_set map]; try reflexivity.
  rewrite IH. reflexivity.
Qed.

Lemma list_set_same (A : Type) (l : list A) i x : nth_error l i = Some x -> list_set l i x = l.
Proof.
  revert i; induction l as [|h t IH]; intros [|i] H; cbn [list_set nth_error] in *; try discriminate.
  - injection H as ->. reflexivity.
  - rewrite IH by exact H. reflexivity.
Qed.

Lemma map_bt_list_upd l i f : (forall t, bt (f t) = bt t) -> map bt (list_upd l i f) = map bt l.
Proof.
  intros Hf. unfold list_upd. destruct (nth_error l i) as [x|] eqn:Hx; [|reflexivity].
  rewrite map_list_set, Hf. apply list_set_same. rewrite nth_error_map, Hx. reflexivity.
Qed.

Lemma map_bt_mapi_from g : (forall id t, bt (g id t) = bt t) ->
  forall l k, map bt (mapi_from k g l) = map bt l.
Proof.
  intros Hg. induction l as [|h t IH]; intros k; cbn [mapi_from map]; [reflexivity|].
  rewrite Hg, IH. reflexivity.
Qed.

Lemma veq_set_threads e ths : map bt ths = map bt (e_threads e) -> veq e (ex_set_threads e ths).
Proof. intros H. unfold veq, tsig, inits. cbn [ex_set_threads e_threads e_log e_lazy e_bodies]. auto. Qed.

Lemma veq_upd_thread_k e0 e i f :
  (forall t, bt (f t) = bt t) -> veq e0 e -> veq e0 (upd_thread e i f).
Proof. intros Hf. apply veq_k. apply veq_set_threads. apply map_bt_list_upd, Hf. Qed.

(* pushing micro-operations other than MLazyGetY / MLazyFinishY *)
Lemma veq_push_cont_k e0 e me ms : ykeys ms = [] -> veq e0 e -> veq e0 (push_cont e me ms).
Proof.
  intros Hy. unfold push_cont. apply veq_upd_thread_k. intros t.
  unfold bt, th_set_cont. cbn [t_body t_tls t_cont]. rewrite ykeys_app, Hy. reflexivity.
Qed.

Ltac yk_tac :=
  cbv zeta;
  repeat match goal with
         | |- context [if ?c then _ else _] => destruct c
         | |- context [match ?x with _ => _ end] => destruct x
         end; reflexivity.

Lemma veq_mapi_k e0 e g :
  (forall id t, bt (g id t) = bt t) -> veq e0 e ->
  veq e0 (ex_set_threads e (mapi g (e_threads e))).
Proof. intros Hg. apply veq_k. apply veq_set_threads. apply map_bt_mapi_from, Hg. Qed.

Lemma veq_map_others_k e0 e me p f :
  (forall t, bt (f t) = bt t) -> veq e0 e -> veq e0 (map_others e me p f).
Proof.
  intros Hf. unfold map_others. apply veq_mapi_k. intros id t.
  destruct (negb (Nat.eqb id me) && p t); [apply Hf|reflexivity].
Qed.

Lemma filter_app_none (A : Type) (f : A -> bool) l l' :
  (forall x, In x l -> f x = false) -> filter f (l ++ l') = filter f l'.
Proof.
  induction l as [|h t IH]; intros H; cbn [app filter]; [reflexivity|].
  rewrite (H h (or_introl eq_refl)). apply IH. intros x Hx. apply H. right. exact Hx.
Qed.

Lemma veq_log_k e0 e l :
  (forall x, In x l -> is_init x = false) -> veq e0 e -> veq e0 (ex_set_log e (l ++ e_log e)).
Proof.
  intros Hl. apply veq_k. unfold veq, tsig, inits. cbn [ex_set_log e_threads e_log e_lazy e_bodies].
  rewrite filter_app_none by exact Hl. auto.
Qed.

Lemma veq_log1_k e0 e x :
  is_init x = false -> veq e0 e -> veq e0 (ex_set_log e (x :: e_log e)).
Proof.
  intros Hx. apply (veq_log_k e0 e [x]). intros y [<-|[]]. exact Hx.
Qed.

Lemma veq_log_op_k e0 e me r : veq e0 e -> veq e0 (log_op e me r).
Proof.
  intros H. unfold log_op. destruct (get_thread e me); [|exact H]. apply veq_log1_k; [reflexivity|exact H].
Qed.

Lemma veq_log_poll_k e0 e me : veq e0 e -> veq e0 (log_poll e me).
Proof.
  intros H. unfold log_poll. destruct (get_thread e me); [|exact H]. apply veq_log1_k; [reflexivity|exact H].
Qed.

Ltac bt_tac :=
  intros; unfold bt, thread_notified, thread_unpark, set_unparked, set_runnable, set_blocked;
  repeat match goal with
         | |- context [if ?c then _ else _] => destruct c
         | |- context [match ?x with _ => _ end] => destruct x
         end; reflexivity.

Lemma veq_threads_unpark_k e0 e me id : veq e0 e -> veq e0 (threads_unpark e me id).
Proof.
  intros H. unfold threads_unpark. destruct (Nat.eqb id me); (apply veq_upd_thread_k; [bt_tac|exact H]).
Qed.

Lemma veq_fold_unpark_k me l : forall e0 e,
  veq e0 e -> veq e0 (fold_left (fun e t => threads_unpark e me t) l e).
Proof.
  induction l as [|x l IH]; intros e0 e H; cbn [fold_left]; [exact H|].
  apply IH, veq_threads_unpark_k, H.
Qed.

Lemma veq_sched_note_k e0 e nx pid th : veq e0 e -> veq e0 (sched_note e nx pid th).
Proof.
  intros H. unfold sched_note. destruct (t_op th) as [op|]; [|exact H].
  destruct (nth_error (e_objects e) (op_obj op)) as [o|]; [|exact H].
  cbv zeta. eapply veq_same_k; [reflexivity..|]. apply veq_upd_thread_k; [bt_tac|exact H].
Qed.

Lemma schedule_veq e : veq e (res_exec (fst (schedule e))).
Proof.
  destruct (schedule_cases e)
    as [(c & ->)|[(x & ->)|[(p1 & x & Hd & ->)|(curr & cur_th & p1 & p2 & next & Hp & ->)]]];
    cbn [fst res_exec]; try apply veq_refl.
  - apply veq_same; reflexivity.
  - assert (Hb : veq e (sched_base e p2 next)) by (apply veq_same; reflexivity).
    revert Hb. generalize (sched_base e p2 next). intros e1 Hb.
    unfold sched_post. destruct next as [nx|].
    + destruct (nth_error (e_threads e1) nx) as [th|]; cbn [fst res_exec]; [|exact Hb].
      unfold reactivate. apply veq_mapi_k; [bt_tac|]. apply veq_sched_note_k, Hb.
    + destruct (forallb is_terminated (e_threads e1)); cbn [fst res_exec]; exact Hb.
Qed.

Lemma schedule_veq_k e0 e : veq e0 e -> veq e0 (res_exec (fst (schedule e))).
Proof. apply veq_k, schedule_veq. Qed.

Lemma do_branch_veq_k e0 e me obj act blk :
  veq e0 e -> veq e0 (res_exec (do_branch e me obj act blk)).
Proof.
  intros H. unfold do_branch. apply schedule_veq_k. apply veq_upd_thread_k; [bt_tac|exact H].
Qed.

Lemma do_park_veq_k e0 e me : veq e0 e -> veq e0 (res_exec (do_park e me)).
Proof.
  intros H. unfold do_park. destruct (get_thread e me) as [t|]; [|exact H].
  destruct (t_token t); cbn [res_exec].
  - apply veq_upd_thread_k; [bt_tac|exact H].
  - apply schedule_veq_k. apply veq_upd_thread_k; [bt_tac|exact H].
Qed.

Lemma do_yield_veq_k e0 e me : veq e0 e -> veq e0 (res_exec (do_yield e me)).
Proof.
  intros H. unfold do_yield. apply schedule_veq_k. apply veq_upd_thread_k; [bt_tac|exact H].
Qed.

Lemma veq_upd_object_k e0 e i f : veq e0 e -> veq e0 (upd_object e i f).
Proof. apply veq_same_k; reflexivity. Qed.

Lemma veq_upd_hobj_k e0 e i f : veq e0 e -> veq e0 (upd_hobj e i f).
Proof. apply veq_same_k; reflexivity. Qed.

Lemma release_lock_veq_k e0 e me m : veq e0 e -> veq e0 (release_lock e me m).
Proof.
  intros H. unfold release_lock. destruct (get_mutex e m) as [s|]; [|exact H]. cbv zeta.
  destruct (e_active _).
  - apply veq_map_others_k; [bt_tac|]. apply veq_upd_object_k, veq_upd_object_k, H.
  - apply veq_upd_object_k, H.
Qed.

Lemma veq_set_caus_k e0 e me v : veq e0 e -> veq e0 (set_caus e me v).
Proof. intros H. apply veq_upd_thread_k; [bt_tac|exact H]. Qed.

Lemma post_acquire_veq e me m : veq e (fst (post_acquire e me m)).
Proof.
  unfold post_acquire. destruct (get_mutex e m) as [s|]; [|apply veq_refl].
  destruct (is_some (mx_lock s)); cbn [fst]; [apply veq_refl|].
  apply veq_map_others_k; [bt_tac|]. apply veq_set_caus_k, veq_upd_object_k, veq_refl.
Qed.

Lemma post_acquire_read_veq e me r : veq e (fst (post_acquire_read e me r)).
Proof.
  unfold post_acquire_read. destruct (get_rw e r) as [s|]; [|apply veq_refl].
  destruct (rw_lock s) as [[rs|x]|]; cbn [fst]; try apply veq_refl.
  all: apply veq_map_others_k; [bt_tac|]; apply veq_set_caus_k, veq_upd_object_k, veq_refl.
Qed.

Lemma post_acquire_write_veq e me r : veq e (fst (post_acquire_write e me r)).
Proof.
  unfold post_acquire_write. destruct (get_rw e r) as [s|]; [|apply veq_refl].
  destruct (rw_lock s) as [lk|]; cbn [fst]; try apply veq_refl.
  apply veq_map_others_k; [bt_tac|]; apply veq_set_caus_k, veq_upd_object_k, veq_refl.
Qed.

Lemma release_read_veq e me r : veq e (res_exec (release_read e me r)).
Proof.
  unfold release_read. destruct (get_rw e r) as [s|]; [|apply veq_refl]. cbv zeta.
  destruct (rw_lock s) as [[rs|x]|]; cbn [res_exec]; try apply veq_refl.
  destruct (set_remove me rs); cbn [res_exec].
  - apply veq_map_others_k; [bt_tac|]. apply veq_upd_object_k, veq_refl.
  - apply veq_upd_object_k, veq_refl.
Qed.

Lemma release_write_veq e me r : veq e (res_exec (release_write e me r)).
Proof.
  unfold release_write. destruct (get_rw e r) as [s|]; [|apply veq_refl]. cbn [res_exec].
  apply veq_map_others_k; [bt_tac|]. apply veq_upd_object_k, veq_refl.
Qed.

Lemma choose_store_veq e seed : veq e (fst (choose_store e seed)).
Proof.
  unfold choose_store.
  repeat match goal with
         | |- context [match ?x with _ => _ end] =>
             lazymatch x with
             | context [match _ with _ => _ end] => fail
             | _ => destruct x
             end
         end; cbn [fst]; first [apply veq_refl|apply veq_same; reflexivity].
Qed.

(* ================================================================== *)
(* 2. One micro-operation                                              *)
(* ================================================================== *)

Ltac vclose_step :=
  match goal with
  | |- veq ?e ?e => apply veq_refl
  | H : veq ?E ?x |- veq _ ?x => apply (veq_trans _ E x); [|exact H]
  | |- veq _ (log_op _ _ _) => apply veq_log_op_k
  | |- veq _ (log_poll _ _) => apply veq_log_poll_k
  | |- veq _ (release_lock _ _ _) => apply release_lock_veq_k
  | |- veq _ (threads_unpark _ _ _) => apply veq_threads_unpark_k
  | |- veq _ (fold_left _ _ _) => apply veq_fold_unpark_k
  | |- veq _ (map_others _ _ _ _) => apply veq_map_others_k; [bt_tac|]
  | |- veq _ (set_caus _ _ _) => apply veq_set_caus_k
  | |- veq _ (push_cont _ _ _) => apply veq_push_cont_k; [yk_tac|]
  | |- veq _ (push_guard _ _ _ _) => apply veq_upd_thread_k; [bt_tac|]
  | |- veq _ (drop_guard _ _ _ _) => apply veq_upd_thread_k; [bt_tac|]
  | |- veq _ (causality_inc _ _) => apply veq_upd_thread_k; [bt_tac|]
  | |- veq _ (upd_thread _ _ _) => apply veq_upd_thread_k; [bt_tac|]
  | |- veq _ (upd_object _ _ _) => apply veq_upd_object_k
  | |- veq _ (upd_hobj _ _ _) => apply veq_upd_hobj_k
  | |- veq _ (set_slot _ _ _ _) => apply veq_upd_hobj_k
  | |- veq _ (ex_set_log ?e (_ :: e_log ?e)) => apply veq_log1_k; [reflexivity|]
  | |- veq _ (ex_set_path ?e _) => apply (veq_same_k _ e); [reflexivity..|]
  | |- veq _ (ex_set_active ?e _) => apply (veq_same_k _ e); [reflexivity..|]
  | |- veq _ (ex_set_seqcst ?e _) => apply (veq_same_k _ e); [reflexivity..|]
  | |- veq _ (ex_set_spawned ?e _) => apply (veq_same_k _ e); [reflexivity..|]
  | |- veq _ (ex_set_joined ?e _) => apply (veq_same_k _ e); [reflexivity..|]
  | |- veq _ (ex_set_objects ?e _) => apply (veq_same_k _ e); [reflexivity..|]
  | |- veq _ (ex_set_h ?e _) => apply (veq_same_k _ e); [reflexivity..|]
  end.

Ltac vclose := cbn [res_exec lp_exec]; repeat vclose_step.

Ltac vstep :=
  match goal with
  | |- veq _ (res_exec (fst (schedule _))) => apply schedule_veq_k
  | |- veq _ (res_exec (do_branch _ _ _ _ _)) => apply do_branch_veq_k
  | |- veq _ (res_exec (do_park _ _)) => apply do_park_veq_k
  | |- veq _ (res_exec (do_yield _ _)) => apply do_yield_veq_k
  | |- context [post_acquire ?e ?me ?m] =>
      let H := fresh "Hfr" in
      pose proof (post_acquire_veq e me m) as H;
      destruct (post_acquire e me m); cbn [fst] in H
  | |- context [post_acquire_read ?e ?me ?m] =>
      let H := fresh "Hfr" in
      pose proof (post_acquire_read_veq e me m) as H;
      destruct (post_acquire_read e me m); cbn [fst] in H
  | |- context [post_acquire_write ?e ?me ?m] =>
      let H := fresh "Hfr" in
      pose proof (post_acquire_write_veq e me m) as H;
      destruct (post_acquire_write e me m); cbn [fst] in H
  | |- context [release_read ?e ?me ?m] =>
      let H := fresh "Hfr" in
      pose proof (release_read_veq e me m) as H;
      destruct (release_read e me m); cbn [res_exec] in H
  | |- context [release_write ?e ?me ?m] =>
      let H := fresh "Hfr" in
      pose proof (release_write_veq e me m) as H;
      destruct (release_write e me m); cbn [res_exec] in H
  | |- context [choose_store ?e ?s] =>
      let H := fresh "Hfr" in
      pose proof (choose_store_veq e s) as H;
      destruct (choose_store e s) as [? [?|?]]; cbn [fst] in H
  | |- context [match ?x with _ => _ end] =>
      lazymatch x with
      | context [match _ with _ => _ end] => fail
      | _ => destruct x eqn:?
      end
  end; cbv beta iota.

Lemma load_post_veq e me a o : veq e (lp_exec (load_post e me a o)).
Proof. unfold load_post. repeat vstep. all: vclose. Qed.

Ltac vstep' :=
  first [ match goal with
          | |- context [load_post ?e ?me ?a ?o] =>
              let H := fresh "Hfr" in
              pose proof (load_post_veq e me a o) as H;
              destruct (load_post e me a o) as [[? ?]|[? ?]]; cbn [lp_exec] in H; cbv beta iota
          end
        | vstep ].

Ltac tl_tac :=
  cbn [exec_micro]; unfold lift_path, mbind; cbv beta iota;
  repeat vstep'; vclose.

(* the micro-operations that do not touch the view *)
Definition view_neutral (m : micro) : Prop :=
  match m with
  | MSpawn _ | MSpawnW _ _ _ | MTlsWith _ | MLazyGet _ | MLazyGetY _ | MLazyFinishY _ _ | MLazyDrop => False
  | _ => True
  end.

Lemma in_rev_map_not_init (A : Type) (g : A -> logline) l :
  (forall a, is_init (g a) = false) -> forall x, In x (rev (map g l)) -> is_init x = false.
Proof.
  intros Hg x Hx. apply in_rev in Hx. apply in_map_iff in Hx. destruct Hx as (a & <- & _). apply Hg.
Qed.

Lemma exec_micro_veq e me m : view_neutral m -> veq e (res_exec (exec_micro e me m)).
Proof.
  intros Hm.
  destruct m; cbn [view_neutral] in Hm; try contradiction;
    try match goal with
        | |- veq _ (res_exec (exec_micro _ _ MDropLocals)) => idtac
        | |- _ => clear Hm; tl_tac
        end.
  (* MDropLocals *)
  cbn [exec_micro]. destruct (get_thread e me) as [th|]; cbn [res_exec]; [|apply veq_refl].
  cbv zeta. destruct (existsb (Nat.eqb 2) (t_tls th) && negb (existsb (Nat.eqb 0) (t_tls th)));
    cbn [res_exec]; [apply veq_refl|].
  apply veq_log_k; [|apply veq_refl].
  intros x Hx. apply in_rev in Hx. apply in_flat_map in Hx. destruct Hx as (k & _ & Hx).
  apply in_app_or in Hx. destruct Hx as [Hx|[<-|[]]]; [|reflexivity].
  destruct (Nat.eqb k 2); [destruct Hx as [<-|[]]; reflexivity|destruct Hx].
Qed.

(* ---- the view-changing steps ---- *)

(* the keys (below 8) whose values the shutdown destroys *)
Definition dkeys (lz : list (nat * (nat * vv))) : list nat :=
  filter (fun k => existsb (fun x => Nat.eqb (fst x) k) lz) (seq 0 8).

Inductive tstep (e e' : exec) : Prop :=
  | ts_same : veq e e' -> tstep e e'
  | ts_spawn b :
      tsig e' = tsig e ++ [(b, ([], ykeys (nth b (e_bodies e) [])))] -> inits e' = inits e ->
      e_lazy e' = e_lazy e -> e_bodies e' = e_bodies e -> tstep e e'
  | ts_tls i b l y k :
      nth_error (tsig e) i = Some (b, (l, y)) -> ~ In k l ->
      tsig e' = list_set (tsig e) i (b, (l ++ [k], y)) ->
      inits e' = LInitTls k b :: inits e -> e_lazy e' = e_lazy e -> e_bodies e' = e_bodies e ->
      tstep e e'
  | ts_lazy lz k x :
      e_lazy e = Some lz -> ~ In k (map fst lz) -> e_lazy e' = Some (lz ++ [(k, x)]) ->
      inits e' = LInitLazy k :: inits e -> tsig e' = tsig e -> e_bodies e' = e_bodies e ->
      tstep e e'
  | ts_drop lz :
      e_lazy e = Some lz -> e_lazy e' = None ->
      inits e' = rev (map LDropLazy (dkeys lz)) ++ inits e -> tsig e' = tsig e ->
      e_bodies e' = e_bodies e -> tstep e e'.

Lemma tstep_veq_r e e1 e' : tstep e e1 -> veq e1 e' -> tstep e e'.
Proof.
  intros H (V1 & V2 & V3 & V4).
  destruct H as [Hv|b H1 H2 H3 H4|i b l y k H1 H2 H3 H4 H5 H6|lz k x H1 H2 H3 H4 H5 H6|lz H1 H2 H3 H4 H5].
  - apply ts_same. eapply veq_trans; [exact Hv|]. repeat split; assumption.
  - apply ts_spawn with (b := b); congruence.
  - apply ts_tls with (i := i) (b := b) (l := l) (y := y) (k := k); try assumption; congruence.
  - apply ts_lazy with (lz := lz) (k := k) (x := x); try assumption; congruence.
  - apply ts_drop with (lz := lz); try assumption; congruence.
Qed.

Lemma tstep_veq_l e e1 e' : veq e e1 -> tstep e1 e' -> tstep e e'.
Proof.
  intros (V1 & V2 & V3 & V4) H.
  destruct H as [Hv|b H1 H2 H3 H4|i b l y k H1 H2 H3 H4 H5 H6|lz k x H1 H2 H3 H4 H5 H6|lz H1 H2 H3 H4 H5].
  - apply ts_same. eapply veq_trans; [|exact Hv]. repeat split; assumption.
  - apply ts_spawn with (b := b); congruence.
  - eapply ts_tls with (i := i) (b := b) (l := l) (y := y) (k := k); try assumption; congruence.
  - eapply ts_lazy with (lz := lz) (k := k) (x := x); try assumption; congruence.
  - apply ts_drop with (lz := lz); try assumption; congruence.
Qed.

Lemma existsb_eqb_false k l : existsb (Nat.eqb k) l = false -> ~ In k l.
Proof.
  intros H Hin. assert (Ht : existsb (Nat.eqb k) l = true).
  { apply existsb_exists. exists k. split; [exact Hin|apply Nat.eqb_refl]. }
  congruence.
Qed.

Lemma existsb_eqb_true k l : existsb (Nat.eqb k) l = true -> In k l.
Proof.
  intros H. apply existsb_exists in H. destruct H as (x & Hx & He).
  apply Nat.eqb_eq in He. subst x. exact Hx.
Qed.

Lemma find_key_none (B : Type) k (lz : list (nat * B)) :
  find (fun x => Nat.eqb (fst x) k) lz = None -> ~ In k (map fst lz).
Proof.
  intros H Hin. apply in_map_iff in Hin. destruct Hin as (x & Hx & Hin).
  pose proof (find_none _ _ H x Hin) as Hf. cbv beta in Hf. rewrite Hx, Nat.eqb_refl in Hf. discriminate.
Qed.

Lemma find_key_some (B : Type) k (lz : list (nat * B)) x :
  find (fun x => Nat.eqb (fst x) k) lz = Some x -> In k (map fst lz).
Proof.
  intros H. apply find_some in H. destruct H as [Hin Hk]. apply Nat.eqb_eq in Hk. subst k.
  apply in_map. exact Hin.
Qed.

(* the waker substitution of block_on does not touch the lazy-static micro-operations *)
Lemma ykeys_subst_waker n k c : forall u, ykeys (subst_waker n k u c) = ykeys c.
Proof.
  induction c as [|m c IH]; intros u; [reflexivity|].
  destruct m; cbn [subst_waker]; try (change (ykeys (?a :: ?b)) with (ykey a ++ ykeys b); rewrite IH; reflexivity).
  - destruct u; change (ykeys (?a :: ?b)) with (ykey a ++ ykeys b); rewrite IH; reflexivity.
  - destruct u; change (ykeys (?a :: ?b)) with (ykey a ++ ykeys b); rewrite IH; reflexivity.
Qed.

(* MSpawn *)
Lemma spawn_tstep e me b : tstep e (res_exec (exec_micro e me (MSpawn b))).
Proof.
  cbn [exec_micro]. cbv zeta.
  match goal with |- context [ex_set_objects e ?l] => set (e0 := ex_set_objects e l) end.
  assert (H0 : veq e e0) by (apply veq_same; reflexivity).
  destruct (negb (Nat.ltb (length (e_threads e0)) (e_max_threads e0))); cbn [res_exec].
  - apply ts_same, H0.
  - match goal with |- context [ex_set_threads e0 (e_threads e0 ++ [?t])] =>
      set (nt := t); set (e1 := ex_set_threads e0 (e_threads e0 ++ [nt])) end.
    eapply tstep_veq_r with (e1 := e1).
    + apply ts_spawn with (b := b); try reflexivity.
      unfold e1, tsig. cbn [ex_set_threads e_threads]. rewrite map_app. reflexivity.
    + vclose.
Qed.

(* MSpawnW: the spawn from inside a poll; same step *)
Lemma spawnw_tstep e me b n k : tstep e (res_exec (exec_micro e me (MSpawnW b n k))).
Proof.
  cbn [exec_micro]. cbv zeta.
  match goal with |- context [ex_set_objects e ?l] => set (e0 := ex_set_objects e l) end.
  assert (H0 : veq e e0) by (apply veq_same; reflexivity).
  destruct (negb (Nat.ltb (length (e_threads e0)) (e_max_threads e0))); cbn [res_exec].
  - apply ts_same, H0.
  - match goal with |- context [ex_set_threads e0 (e_threads e0 ++ [?t])] =>
      set (nt := t); set (e1 := ex_set_threads e0 (e_threads e0 ++ [nt])) end.
    eapply tstep_veq_r with (e1 := e1).
    + apply ts_spawn with (b := b); try reflexivity.
      unfold e1, tsig. cbn [ex_set_threads e_threads]. rewrite map_app. cbn [map].
      assert (Hnt : bt nt = (b, ([], ykeys (nth b (e_bodies e) [])))).
      { unfold nt, bt, th_set_dpor, th_set_caus, thread_new. cbn [t_body t_tls t_cont].
        rewrite ykeys_subst_waker. reflexivity. }
      rewrite Hnt. reflexivity.
    + vclose.
Qed.

(* MTlsWith *)
Lemma tls_with_tstep e me k : tstep e (res_exec (exec_micro e me (MTlsWith k))).
Proof.
  cbn [exec_micro]. destruct (get_thread e me) as [t|] eqn:Ht; cbn [res_exec]; [|apply ts_same, veq_refl].
  destruct (existsb (Nat.eqb k) (t_tls t)) eqn:Hk; cbn [res_exec].
  - apply ts_same. vclose.
  - match goal with |- tstep _ (log_op ?E _ _) => eapply tstep_veq_r with (e1 := E); [|vclose] end.
    apply ts_tls with (i := me) (b := t_body t) (l := t_tls t) (y := ykeys (t_cont t)) (k := k).
    + unfold tsig. rewrite nth_error_map. unfold get_thread in Ht. rewrite Ht. reflexivity.
    + apply existsb_eqb_false, Hk.
    + unfold tsig, upd_thread. cbn [ex_set_threads ex_set_log e_threads].
      unfold list_upd. unfold get_thread in Ht. rewrite Ht. rewrite map_list_set. reflexivity.
    + reflexivity.
    + reflexivity.
    + reflexivity.
Qed.

Lemma filter_all_true (A : Type) (f : A -> bool) l : (forall x, In x l -> f x = true) -> filter f l = l.
Proof.
  induction l as [|h t IH]; intros H; cbn [filter]; [reflexivity|].
  rewrite (H h (or_introl eq_refl)). f_equal. apply IH. intros x Hx. apply H. right. exact Hx.
Qed.

(* MLazyDrop *)
Lemma lazy_drop_tstep e me : tstep e (res_exec (exec_micro e me MLazyDrop)).
Proof.
  cbn [exec_micro]. destruct (e_lazy e) as [lz|] eqn:Hl; cbn [res_exec]; [|apply ts_same, veq_refl].
  apply ts_drop with (lz := lz); try reflexivity; [exact Hl|].
  unfold inits. cbn [ex_set_lazy ex_set_log e_log]. rewrite filter_app. f_equal.
  apply filter_all_true. intros x Hx. apply in_rev in Hx. apply in_map_iff in Hx.
  destruct Hx as (a & <- & _). reflexivity.
Qed.

(* MLazyGet: the tail after the registry lookup (the read of the cell) *)
Definition lazy_tail (e : exec) (me ci k : nat) : mres :=
  let e := causality_inc e me in
  match get_cell e ci with
  | None => MFail e (PanicModel 25)
  | Some s =>
      if ce_writing s then MFail e PanicCellWriting
      else match cell_track_read s (caus_of e me) with
           | inr p => MFail e p
           | inl s1 =>
               match cell_track_read s1 (caus_of e me) with
               | inr p => MFail e p
               | inl s2 => MOk (log_op (upd_object e ci (fun _ => OCell s2)) me (RVal (N.of_nat (41 + k))))
               end
           end
  end.

Lemma lazy_tail_veq e me ci k : veq e (res_exec (lazy_tail e me ci k)).
Proof. unfold lazy_tail. cbv zeta. repeat vstep. all: vclose. Qed.

(* the registry lookup / initialisation *)
Definition lazy_lookup (e : exec) (me k : nat) (lz : list (nat * (nat * vv))) : (exec * nat) + panic :=
  match find (fun x => Nat.eqb (fst x) k) lz with
  | Some (_, (ci, sy)) => inl (set_caus e me (sync_load (caus_of e me) sy Acquire), ci)
  | None =>
      let e := ex_set_log e (LInitLazy k :: e_log e) in
      let ci := length (e_objects e) in
      let e := ex_set_objects e (e_objects e ++ [OCell (cell_new (caus_of e me))]) in
      let e := causality_inc e me in
      match get_cell e ci with
      | None => inr (PanicModel 25)
      | Some s =>
          match cell_track_write s (caus_of e me) with
          | inr p => inr p
          | inl s1 =>
              match cell_track_write s1 (caus_of e me) with
              | inr p => inr p
              | inl s2 =>
                  let e := upd_object e ci (fun _ => OCell s2) in
                  let sy := sync_store vv_new (caus_of e me) (rel_of e me) AcqRel in
                  let e := ex_set_lazy e (Some (lz ++ [(k, (ci, sy))])) in
                  inl (set_caus e me (sync_load (caus_of e me) sy Acquire), ci)
              end
          end
      end
  end.

Lemma exec_micro_lazy_get e me k :
  exec_micro e me (MLazyGet k) =
  match e_lazy e with
  | None => MFail e PanicLazyShutdown
  | Some lz =>
      match lazy_lookup e me k lz with
      | inr p => MFail e p
      | inl (e1, ci) => lazy_tail e1 me ci k
      end
  end.
Proof. reflexivity. Qed.

Lemma lazy_lookup_tstep e me k lz e1 ci :
  e_lazy e = Some lz -> lazy_lookup e me k lz = inl (e1, ci) ->
  (exists sy, find (fun x => Nat.eqb (fst x) k) lz = Some (k, (ci, sy)) /\
              e1 = set_caus e me (sync_load (caus_of e me) sy Acquire)) \/
  (find (fun x => Nat.eqb (fst x) k) lz = None /\
   exists sy, e_lazy e1 = Some (lz ++ [(k, (ci, sy))]) /\
              inits e1 = LInitLazy k :: inits e /\ tsig e1 = tsig e /\ e_bodies e1 = e_bodies e).
Proof.
  intros Hl H. unfold lazy_lookup in H.
  destruct (find (fun x => Nat.eqb (fst x) k) lz) as [[k' [ci' sy]]|] eqn:Hf.
  - left. injection H as <- <-. exists sy. split; [|reflexivity].
    apply find_some in Hf. destruct Hf as [_ Hk]. cbn [fst] in Hk. apply Nat.eqb_eq in Hk. subst k'.
    reflexivity.
  - right. split; [reflexivity|]. cbv zeta in H.
    repeat match type of H with
           | match ?x with _ => _ end = _ => destruct x eqn:?; try discriminate H
           end.
    injection H as <- <-. eexists. split; [reflexivity|]. split; [|split].
    + unfold inits. reflexivity.
    + unfold tsig. cbn [set_caus upd_thread ex_set_threads ex_set_lazy upd_object ex_set_objects
                          causality_inc ex_set_log e_threads].
      rewrite !map_bt_list_upd by bt_tac. reflexivity.
    + reflexivity.
Qed.

Lemma lazy_get_tstep e me k : tstep e (res_exec (exec_micro e me (MLazyGet k))).
Proof.
  rewrite exec_micro_lazy_get. destruct (e_lazy e) as [lz|] eqn:Hl; cbn [res_exec]; [|apply ts_same, veq_refl].
  destruct (lazy_lookup e me k lz) as [[e1 ci]|p] eqn:Hlk; cbn [res_exec]; [|apply ts_same, veq_refl].
  eapply tstep_veq_r; [|apply lazy_tail_veq].
  destruct (lazy_lookup_tstep e me k lz e1 ci Hl Hlk) as [(sy & _ & ->)|(Hf & sy & H1 & H2 & H3 & H4)].
  - apply ts_same. vclose.
  - eapply ts_lazy; try eassumption. apply find_key_none, Hf.
Qed.

(* every micro-operation but the two of a yielding initialiser *)
Theorem exec_micro_tstep e me m : ykey m = [] -> tstep e (res_exec (exec_micro e me m)).
Proof.
  intros Hy.
  destruct m; try discriminate Hy; try (apply ts_same, exec_micro_veq; exact I);
    first [ apply spawn_tstep | apply spawnw_tstep | apply tls_with_tstep
          | apply lazy_get_tstep | apply lazy_drop_tstep ].
Qed.

(* ---- MLazyGetY / MLazyFinishY: the steps of Scheduler::run that execute them ----
   The micro-operation is taken off the continuation (which changes the view)
   and executed; the four outcomes, as changes of the view of thread i:
     ys_skip   MLazyGetY k finds the registry shut (panic) or k registered
               (continues with MLazyGet k)
     ys_init   MLazyGetY k runs the initialiser: LInitLazy k is logged and
               MLazyFinishY k _ is pushed behind the yield
     ys_reg    MLazyFinishY k _ registers k (nobody else did meanwhile)
     ys_lose   MLazyFinishY k _ finds k registered by another thread, or the
               registry shut: the value built by this thread is dropped *)
Inductive ystep (e e' : exec) : Prop :=
  | ys_skip i b l k y :
      nth_error (tsig e) i = Some (b, (l, (false, k) :: y)) ->
      tsig e' = list_set (tsig e) i (b, (l, y)) -> inits e' = inits e ->
      e_lazy e' = e_lazy e -> e_bodies e' = e_bodies e -> ystep e e'
  | ys_init i b l k y :
      nth_error (tsig e) i = Some (b, (l, (false, k) :: y)) ->
      tsig e' = list_set (tsig e) i (b, (l, (true, k) :: y)) -> inits e' = LInitLazy k :: inits e ->
      e_lazy e' = e_lazy e -> e_bodies e' = e_bodies e -> ystep e e'
  | ys_reg i b l k y lz x :
      nth_error (tsig e) i = Some (b, (l, (true, k) :: y)) ->
      e_lazy e = Some lz -> ~ In k (map fst lz) -> e_lazy e' = Some (lz ++ [(k, x)]) ->
      tsig e' = list_set (tsig e) i (b, (l, y)) -> inits e' = inits e ->
      e_bodies e' = e_bodies e -> ystep e e'
  | ys_lose i b l k y :
      nth_error (tsig e) i = Some (b, (l, (true, k) :: y)) ->
      match e_lazy e with Some lz => In k (map fst lz) | None => True end ->
      tsig e' = list_set (tsig e) i (b, (l, y)) -> inits e' = LDropLazy k :: inits e ->
      e_lazy e' = e_lazy e -> e_bodies e' = e_bodies e -> ystep e e'.

Lemma ystep_veq_r e e1 e' : ystep e e1 -> veq e1 e' -> ystep e e'.
Proof.
  intros H (V1 & V2 & V3 & V4).
  destruct H as [i b l k y H1 H2 H3 H4 H5|i b l k y H1 H2 H3 H4 H5
                |i b l k y lz x H1 H2 H3 H4 H5 H6 H7|i b l k y H1 H2 H3 H4 H5 H6].
  - apply ys_skip with (i := i) (b := b) (l := l) (k := k) (y := y); congruence.
  - apply ys_init with (i := i) (b := b) (l := l) (k := k) (y := y); congruence.
  - apply ys_reg with (i := i) (b := b) (l := l) (k := k) (y := y) (lz := lz) (x := x);
      try assumption; congruence.
  - apply ys_lose with (i := i) (b := b) (l := l) (k := k) (y := y); try assumption; congruence.
Qed.

(* the view after the pop, and after a push *)
Lemma tsig_pop e me t rest :
  nth_error (e_threads e) me = Some t ->
  tsig (upd_thread e me (fun t => th_set_cont t rest)) =
  list_set (tsig e) me (t_body t, (t_tls t, ykeys rest)).
Proof.
  intros Ht. unfold tsig, upd_thread, list_upd. cbn [ex_set_threads e_threads].
  rewrite Ht, map_list_set. reflexivity.
Qed.

Lemma tsig_push_cont e me ms b l y :
  nth_error (tsig e) me = Some (b, (l, y)) ->
  tsig (push_cont e me ms) = list_set (tsig e) me (b, (l, ykeys ms ++ y)).
Proof.
  intros H. unfold tsig in *. rewrite nth_error_map in H.
  destruct (nth_error (e_threads e) me) as [t|] eqn:Ht; [|discriminate H].
  cbn [option_map] in H. unfold bt in H. injection H as H1 H2 H3.
  unfold push_cont, upd_thread, list_upd. cbn [ex_set_threads e_threads].
  rewrite Ht, map_list_set. unfold bt at 2, th_set_cont. cbn [t_body t_tls t_cont].
  rewrite ykeys_app, H1, H2, H3. reflexivity.
Qed.

Lemma list_set_list_set (A : Type) (l : list A) i x y : list_set (list_set l i x) i y = list_set l i y.
Proof.
  revert i; induction l as [|h t IH]; intros [|i]; cbn [list_set]; try reflexivity.
  rewrite IH. reflexivity.
Qed.

Lemma nth_error_tsig_lt e me x : nth_error (tsig e) me = Some x -> me < length (tsig e).
Proof. intros H. apply nth_error_Some. rewrite H. discriminate. Qed.

(* the initialiser of MLazyGetY cannot fail: the cell is new *)
Lemma getY_init_ok e me k lz :
  e_lazy e = Some lz -> find (fun x => Nat.eqb (fst x) k) lz = None ->
  exists e1 ci, exec_micro e me (MLazyGetY k) = MOk (push_cont e1 me [MYield; MLazyFinishY k ci]) /\
                veq (ex_set_log e (LInitLazy k :: e_log e)) e1.
Proof.
  intros Hl Hf. cbn [exec_micro]. rewrite Hl, Hf. cbv zeta.
  set (e0 := ex_set_log e (LInitLazy k :: e_log e)).
  set (c0 := caus_of e0 me).
  set (e1 := causality_inc (ex_set_objects e0 (e_objects e0 ++ [OCell (cell_new c0)])) me).
  assert (Hg : get_cell e1 (length (e_objects e0)) = Some (cell_new c0)).
  { unfold get_cell, e1, causality_inc, upd_thread. cbn [ex_set_threads ex_set_objects e_objects].
    rewrite nth_error_app2 by apply Nat.le_refl. rewrite Nat.sub_diag. reflexivity. }
  rewrite Hg.
  assert (Hc : vle c0 (caus_of e1 me)).
  { pose proof (mono_causality_inc_k _ _ me
                  (mono_refl (ex_set_objects e0 (e_objects e0 ++ [OCell (cell_new c0)])))) as Hm.
    destruct Hm as (_ & Hcm & _). exact (Hcm me). }
  unfold cell_track_write at 1. unfold cell_new at 1 2. cbn [ce_write ce_read ce_reading ce_writing].
  rewrite (proj2 (vv_ahead_none (caus_of e1 me) c0) Hc).
  unfold cell_track_write, cell_new. cbn [ce_write ce_read ce_reading ce_writing].
  rewrite (proj2 (vv_ahead_none (caus_of e1 me) (vv_join c0 (caus_of e1 me)))
             (vle_join_lub _ _ _ Hc (vle_refl _))).
  rewrite (proj2 (vv_ahead_none (caus_of e1 me) c0) Hc).
  eexists. eexists. split; [reflexivity|].
  unfold e1. vclose.
Qed.

(* MLazyGetY k, from the state in which it heads thread me's continuation *)
Lemma getY_ystep e me t k rest :
  nth_error (e_threads e) me = Some t -> t_cont t = MLazyGetY k :: rest ->
  ystep e (res_exec (exec_micro (upd_thread e me (fun t => th_set_cont t rest)) me (MLazyGetY k))).
Proof.
  intros Ht Hc.
  set (ep := upd_thread e me (fun t => th_set_cont t rest)).
  assert (Hn : nth_error (tsig e) me = Some (t_body t, (t_tls t, (false, k) :: ykeys rest))).
  { unfold tsig. rewrite nth_error_map, Ht. cbn [option_map]. unfold bt. rewrite Hc. reflexivity. }
  assert (Hp : tsig ep = list_set (tsig e) me (t_body t, (t_tls t, ykeys rest)))
    by (apply tsig_pop; exact Ht).
  assert (Hskip : ystep e ep).
  { apply ys_skip with (i := me) (b := t_body t) (l := t_tls t) (k := k) (y := ykeys rest);
      [exact Hn|exact Hp|reflexivity..]. }
  destruct (e_lazy ep) as [lz|] eqn:Hl.
  - destruct (find (fun x => Nat.eqb (fst x) k) lz) as [x|] eqn:Hf.
    + cbn [exec_micro]. rewrite Hl, Hf. cbn [res_exec].
      eapply ystep_veq_r; [exact Hskip|]. vclose.
    + destruct (getY_init_ok ep me k lz Hl Hf) as (e1 & ci & -> & Hv). cbn [res_exec].
      destruct Hv as (V1 & V2 & V3 & V4).
      assert (Hn1 : nth_error (tsig e1) me = Some (t_body t, (t_tls t, ykeys rest))).
      { rewrite V1. change (tsig (ex_set_log ep (LInitLazy k :: e_log ep))) with (tsig ep).
        rewrite Hp. apply nth_error_list_set_same. eapply nth_error_tsig_lt. exact Hn. }
      apply ys_init with (i := me) (b := t_body t) (l := t_tls t) (k := k) (y := ykeys rest).
      * exact Hn.
      * rewrite (tsig_push_cont e1 me _ _ _ _ Hn1). rewrite V1.
        change (tsig (ex_set_log ep (LInitLazy k :: e_log ep))) with (tsig ep).
        rewrite Hp, list_set_list_set. reflexivity.
      * change (inits (push_cont e1 me [MYield; MLazyFinishY k ci])) with (inits e1). rewrite V2. reflexivity.
      * change (e_lazy (push_cont e1 me [MYield; MLazyFinishY k ci])) with (e_lazy e1). rewrite V3. reflexivity.
      * change (e_bodies (push_cont e1 me [MYield; MLazyFinishY k ci])) with (e_bodies e1). rewrite V4. reflexivity.
  - cbn [exec_micro]. rewrite Hl. cbn [res_exec]. exact Hskip.
Qed.

(* MLazyFinishY k ci, likewise *)
Lemma finY_ystep e me t k ci rest :
  nth_error (e_threads e) me = Some t -> t_cont t = MLazyFinishY k ci :: rest ->
  ystep e (res_exec (exec_micro (upd_thread e me (fun t => th_set_cont t rest)) me (MLazyFinishY k ci))).
Proof.
  intros Ht Hc.
  set (ep := upd_thread e me (fun t => th_set_cont t rest)).
  assert (Hn : nth_error (tsig e) me = Some (t_body t, (t_tls t, (true, k) :: ykeys rest))).
  { unfold tsig. rewrite nth_error_map, Ht. cbn [option_map]. unfold bt. rewrite Hc. reflexivity. }
  assert (Hp : tsig ep = list_set (tsig e) me (t_body t, (t_tls t, ykeys rest)))
    by (apply tsig_pop; exact Ht).
  cbn [exec_micro]. destruct (e_lazy ep) as [lz|] eqn:Hl.
  - destruct (find (fun x => Nat.eqb (fst x) k) lz) as [x|] eqn:Hf; cbn [res_exec].
    + match goal with |- ystep _ (push_cont ?E _ _) => eapply ystep_veq_r with (e1 := E); [|vclose] end.
      apply ys_lose with (i := me) (b := t_body t) (l := t_tls t) (k := k) (y := ykeys rest);
        [exact Hn| |exact Hp|reflexivity..].
      change (e_lazy e) with (e_lazy ep). rewrite Hl. eapply find_key_some. exact Hf.
    + match goal with |- ystep _ (push_cont ?E _ _) => eapply ystep_veq_r with (e1 := E); [|vclose] end.
      eapply ys_reg with (i := me) (b := t_body t) (l := t_tls t) (k := k) (y := ykeys rest) (lz := lz);
        [exact Hn|exact Hl|apply find_key_none; exact Hf|reflexivity|exact Hp|reflexivity..].
  - cbn [res_exec].
    apply ys_lose with (i := me) (b := t_body t) (l := t_tls t) (k := k) (y := ykeys rest);
      [exact Hn| |exact Hp|reflexivity..].
    change (e_lazy e) with (e_lazy ep). rewrite Hl. exact I.
Qed.

(* ================================================================== *)
(* 3. The invariant                                                    *)
(* ================================================================== *)

Definition is_tls (k b : nat) (x : logline) : bool :=
  match x with LInitTls k' b' => Nat.eqb k' k && Nat.eqb b' b | _ => false end.
Definition is_lazy (k : nat) (x : logline) : bool :=
  match x with LInitLazy k' => Nat.eqb k' k | _ => false end.
Definition is_ldrop (k : nat) (x : logline) : bool :=
  match x with LDropLazy k' => Nat.eqb k' k | _ => false end.

(* number of LInitTls k b (resp. LInitLazy k, LDropLazy k) entries of a log *)
Definition cnt_tls (k b : nat) (l : list logline) : nat := length (filter (is_tls k b) l).
Definition cnt_lazy (k : nat) (l : list logline) : nat := length (filter (is_lazy k) l).
Definition cnt_ldrop (k : nat) (l : list logline) : nat := length (filter (is_ldrop k) l).

(* thread entry (body, (keys, _)) counts for (k, b) *)
Definition hit (k b : nat) (x : tview) : bool :=
  Nat.eqb (fst x) b && existsb (Nat.eqb k) (fst (snd x)).

(* the lazy-static micro-operations held by all continuations; pendf k: the
   number of initialisers of k in flight (MLazyFinishY k _ in a continuation) *)
Definition ysel (x : tview) : list (bool * nat) := snd (snd x).
Definition yall (ts : list tview) : list (bool * nat) := flat_map ysel ts.
Definition is_pf (k : nat) (x : bool * nat) : bool := fst x && Nat.eqb (snd x) k.
Definition pendf (k : nat) (ts : list tview) : nat := length (filter (is_pf k) (yall ts)).

(* 1 if k is registered *)
Definition reg (k : nat) (lz : list (nat * (nat * vv))) : nat :=
  if existsb (Nat.eqb k) (map fst lz) then 1 else 0.

(* k is the key of a yielding lazy static of the program *)
Definition bmention (k : nat) (bodies : list (list micro)) : Prop :=
  exists c x, In c bodies /\ In x (ykeys c) /\ snd x = k.

(* the balance: initialisers run = registered + values dropped + in flight.
   After the shutdown the registered values of the keys below 8 have been
   dropped too (MLazyDrop logs those keys only). *)
Definition lazy_inv (lzo : option (list (nat * (nat * vv)))) (l : list logline) (ts : list tview) : Prop :=
  match lzo with
  | Some lz => NoDup (map fst lz) /\
               forall k, cnt_lazy k l = reg k lz + cnt_ldrop k l + pendf k ts
  | None => forall k, cnt_ldrop k l + pendf k ts <= cnt_lazy k l /\
                      cnt_lazy k l <= cnt_ldrop k l + pendf k ts + 1 /\
                      (k < 8 -> cnt_lazy k l = cnt_ldrop k l + pendf k ts)
  end.

(* the keys without yielding initialiser: nothing is dropped before the
   shutdown; at most one initialisation ever *)
Definition lazy_inv1 (lzo : option (list (nat * (nat * vv)))) (l : list logline)
           (bodies : list (list micro)) : Prop :=
  forall k, ~ bmention k bodies ->
    match lzo with Some _ => cnt_ldrop k l = 0 | None => cnt_lazy k l <= 1 end.

Definition tl_inv (e : exec) : Prop :=
  Forall (fun x => NoDup (fst (snd x))) (tsig e) /\
  (forall k b, cnt_tls k b (inits e) = length (filter (hit k b) (tsig e))) /\
  lazy_inv (e_lazy e) (inits e) (tsig e) /\
  lazy_inv1 (e_lazy e) (inits e) (e_bodies e) /\
  (forall c x, In c (e_bodies e) -> In x (ykeys c) -> fst x = false) /\
  (forall x, In x (yall (tsig e)) -> bmention (snd x) (e_bodies e)).

Lemma filter_filter_imp (A : Type) (f g : A -> bool) l :
  (forall x, f x = true -> g x = true) -> filter f (filter g l) = filter f l.
Proof.
  intros H. induction l as [|h t IH]; cbn [filter]; [reflexivity|].
  destruct (g h) eqn:Hg; cbn [filter].
  - rewrite IH. reflexivity.
  - destruct (f h) eqn:Hf; [rewrite (H h Hf) in Hg; discriminate|exact IH].
Qed.

Lemma cnt_tls_inits k b e : cnt_tls k b (inits e) = cnt_tls k b (e_log e).
Proof.
  unfold cnt_tls, inits. rewrite filter_filter_imp; [reflexivity|].
  intros [] H; cbn in *; congruence.
Qed.

Lemma cnt_lazy_inits k e : cnt_lazy k (inits e) = cnt_lazy k (e_log e).
Proof.
  unfold cnt_lazy, inits. rewrite filter_filter_imp; [reflexivity|].
  intros [] H; cbn in *; congruence.
Qed.

Lemma cnt_ldrop_inits k e : cnt_ldrop k (inits e) = cnt_ldrop k (e_log e).
Proof.
  unfold cnt_ldrop, inits. rewrite filter_filter_imp; [reflexivity|].
  intros [] H; cbn in *; congruence.
Qed.

Lemma veq_inv e e' : veq e e' -> tl_inv e -> tl_inv e'.
Proof. intros (V1 & V2 & V3 & V4). unfold tl_inv. rewrite V1, V2, V3, V4. auto. Qed.

Lemma filter_length_list_set (A : Type) (f : A -> bool) l i x y :
  nth_error l i = Some x ->
  length (filter f (list_set l i y)) + (if f x then 1 else 0) =
  length (filter f l) + (if f y then 1 else 0).
Proof.
  revert i; induction l as [|h t IH]; intros [|i] H; cbn [nth_error list_set filter] in *; try discriminate.
  - injection H as ->. destruct (f x), (f y); cbn [length]; lia.
  - specialize (IH i H). destruct (f h); cbn [length]; lia.
Qed.

Lemma Forall_list_set (A : Type) (P : A -> Prop) l i y :
  Forall P l -> P y -> Forall P (list_set l i y).
Proof.
  intros Hl Hy. revert i; induction Hl as [|h t Hh Ht IH]; intros [|i]; cbn [list_set]; auto.
Qed.

Lemma NoDup_snoc (A : Type) (l : list A) x : NoDup l -> ~ In x l -> NoDup (l ++ [x]).
Proof.
  intros Hl Hx. apply NoDup_rev in Hl. rewrite <- (rev_involutive (l ++ [x])).
  apply NoDup_rev. rewrite rev_app_distr. cbn [rev app]. constructor; [|exact Hl].
  rewrite <- in_rev. exact Hx.
Qed.

Lemma existsb_snoc k l x : existsb (Nat.eqb k) (l ++ [x]) = existsb (Nat.eqb k) l || Nat.eqb k x.
Proof. rewrite existsb_app. cbn [existsb]. rewrite orb_false_r. reflexivity. Qed.

(* ---- the continuations' keys under a change of one thread's view ---- *)
Lemma yall_list_set ts : forall i x x', nth_error ts i = Some x ->
  exists pre post, yall ts = pre ++ ysel x ++ post /\ yall (list_set ts i x') = pre ++ ysel x' ++ post.
Proof.
  induction ts as [|h t IH]; intros [|i] x x' H; cbn [nth_error] in H; try discriminate H.
  - injection H as ->. exists [], (yall t). split; reflexivity.
  - destruct (IH i x x' H) as (pre & post & E1 & E2). exists (ysel h ++ pre), post.
    unfold yall in *. cbn [list_set flat_map]. rewrite E1, E2, <- !app_assoc. split; reflexivity.
Qed.

Lemma pendf_list_set ts i x x' k : nth_error ts i = Some x ->
  pendf k (list_set ts i x') + length (filter (is_pf k) (ysel x)) =
  pendf k ts + length (filter (is_pf k) (ysel x')).
Proof.
  intros H. destruct (yall_list_set ts i x x' H) as (pre & post & E1 & E2).
  unfold pendf. rewrite E1, E2, !filter_app, !app_length. lia.
Qed.

Lemma yall_list_set_in ts i x x' z : nth_error ts i = Some x ->
  In z (yall (list_set ts i x')) -> In z (yall ts) \/ In z (ysel x').
Proof.
  intros H Hz. destruct (yall_list_set ts i x x' H) as (pre & post & E1 & E2).
  rewrite E2 in Hz. rewrite E1. apply in_app_or in Hz. destruct Hz as [Hz|Hz].
  - left. apply in_or_app. left. exact Hz.
  - apply in_app_or in Hz. destruct Hz as [Hz|Hz]; [right; exact Hz|].
    left. apply in_or_app. right. apply in_or_app. right. exact Hz.
Qed.

Lemma yall_nth_in ts i x z : nth_error ts i = Some x -> In z (ysel x) -> In z (yall ts).
Proof.
  intros H Hz. unfold yall. apply in_flat_map. exists x. split; [eapply nth_error_In; exact H|exact Hz].
Qed.

Lemma yall_list_set_same ts i x x' : nth_error ts i = Some x -> ysel x' = ysel x ->
  yall (list_set ts i x') = yall ts.
Proof.
  intros H Hs. destruct (yall_list_set ts i x x' H) as (pre & post & E1 & E2).
  rewrite E1, E2, Hs. reflexivity.
Qed.

Lemma pendf_zero k ts : (forall x, In x (yall ts) -> snd x <> k) -> pendf k ts = 0.
Proof.
  intros H. unfold pendf. induction (yall ts) as [|h t IH]; [reflexivity|]. cbn [filter].
  assert (Hh : is_pf k h = false).
  { unfold is_pf. destruct (Nat.eqb_spec (snd h) k) as [He|He]; [|apply andb_false_r].
    destruct (H h (or_introl eq_refl) He). }
  rewrite Hh. apply IH. intros x Hx. apply H. right. exact Hx.
Qed.

Lemma filter_pf_nofin k l : (forall x, In x l -> fst x = false) -> filter (is_pf k) l = [].
Proof.
  induction l as [|h t IH]; intros H; cbn [filter]; [reflexivity|].
  unfold is_pf at 1. rewrite (H h (or_introl eq_refl)). cbn [andb]. apply IH.
  intros x Hx. apply H. right. exact Hx.
Qed.

Lemma lazy_inv_pendf lzo l ts ts' :
  (forall k, pendf k ts' = pendf k ts) -> lazy_inv lzo l ts -> lazy_inv lzo l ts'.
Proof.
  intros Hp. unfold lazy_inv. destruct lzo as [lz|].
  - intros [Hnd Hc]. split; [exact Hnd|]. intros k. rewrite Hp. apply Hc.
  - intros Hc k. rewrite Hp. apply Hc.
Qed.

(* ---- counting log entries ---- *)
Lemma cnt_lazy_cons_init k k' l :
  cnt_lazy k' (LInitLazy k :: l) = (if Nat.eqb k k' then 1 else 0) + cnt_lazy k' l.
Proof. unfold cnt_lazy. cbn [filter is_lazy]. destruct (Nat.eqb k k'); reflexivity. Qed.

Lemma cnt_ldrop_cons_drop k k' l :
  cnt_ldrop k' (LDropLazy k :: l) = (if Nat.eqb k k' then 1 else 0) + cnt_ldrop k' l.
Proof. unfold cnt_ldrop. cbn [filter is_ldrop]. destruct (Nat.eqb k k'); reflexivity. Qed.

Lemma reg_snoc k k' lz x : ~ In k (map fst lz) ->
  reg k' (lz ++ [(k, x)]) = reg k' lz + (if Nat.eqb k k' then 1 else 0).
Proof.
  intros Hk. unfold reg. rewrite map_app. cbn [map fst]. rewrite existsb_snoc.
  destruct (existsb (Nat.eqb k') (map fst lz)) eqn:Hex; cbn [orb].
  - destruct (Nat.eqb_spec k k') as [->|Hne]; [|reflexivity].
    apply existsb_eqb_true in Hex. contradiction.
  - rewrite (Nat.eqb_sym k' k). destruct (Nat.eqb k k'); reflexivity.
Qed.

Lemma reg_in k lz : In k (map fst lz) -> reg k lz = 1.
Proof.
  intros H. unfold reg. destruct (existsb (Nat.eqb k) (map fst lz)) eqn:Hex; [reflexivity|].
  apply existsb_eqb_false in Hex. contradiction.
Qed.

Lemma existsb_fst_map (B : Type) k (lz : list (nat * B)) :
  existsb (fun x => Nat.eqb (fst x) k) lz = existsb (Nat.eqb k) (map fst lz).
Proof.
  induction lz as [|h t IH]; [reflexivity|]. cbn [existsb map]. rewrite IH, (Nat.eqb_sym k (fst h)). reflexivity.
Qed.

Lemma count_seq_filter (P : nat -> bool) k : forall n a,
  length (filter (fun j => Nat.eqb j k) (filter P (seq a n))) =
  if Nat.leb a k && Nat.ltb k (a + n) && P k then 1 else 0.
Proof.
  induction n as [|n IH]; intros a; cbn [seq filter].
  - destruct (Nat.leb_spec a k), (Nat.ltb_spec k (a + 0)); cbn [andb length]; try reflexivity. lia.
  - destruct (P a) eqn:Hp; cbn [filter].
    + destruct (Nat.eqb_spec a k) as [->|Hne]; cbn [length]; rewrite IH.
      * rewrite Hp. destruct (Nat.leb_spec (S k) k), (Nat.leb_spec k k), (Nat.ltb_spec k (k + S n));
          cbn [andb]; try reflexivity; lia.
      * destruct (Nat.leb_spec (S a) k), (Nat.leb_spec a k), (Nat.ltb_spec k (S a + n)),
          (Nat.ltb_spec k (a + S n)); cbn [andb]; try reflexivity; lia.
    + rewrite IH. destruct (Nat.eqb_spec a k) as [->|Hne].
      * rewrite Hp, !andb_false_r. reflexivity.
      * destruct (Nat.leb_spec (S a) k), (Nat.leb_spec a k), (Nat.ltb_spec k (S a + n)),
          (Nat.ltb_spec k (a + S n)); cbn [andb]; try reflexivity; lia.
Qed.

Lemma cnt_dkeys k lz :
  length (filter (fun j => Nat.eqb j k) (dkeys lz)) = if Nat.ltb k 8 then reg k lz else 0.
Proof.
  unfold dkeys. rewrite count_seq_filter. cbn [Nat.leb andb plus]. unfold reg.
  rewrite existsb_fst_map. destruct (Nat.ltb k 8); reflexivity.
Qed.

Lemma cnt_lazy_drops k ks l : cnt_lazy k (rev (map LDropLazy ks) ++ l) = cnt_lazy k l.
Proof.
  unfold cnt_lazy. rewrite filter_app_none; [reflexivity|].
  intros x Hx. apply in_rev in Hx. apply in_map_iff in Hx. destruct Hx as (a & <- & _). reflexivity.
Qed.

Lemma filter_rev_length (A : Type) (f : A -> bool) l : length (filter f (rev l)) = length (filter f l).
Proof.
  induction l as [|h t IH]; [reflexivity|]. cbn [rev filter]. rewrite filter_app, app_length, IH.
  cbn [filter]. destruct (f h); cbn [length]; lia.
Qed.

Lemma cnt_ldrop_drops k ks l :
  cnt_ldrop k (rev (map LDropLazy ks) ++ l) = length (filter (fun j => Nat.eqb j k) ks) + cnt_ldrop k l.
Proof.
  unfold cnt_ldrop. rewrite filter_app, app_length, filter_rev_length. f_equal.
  induction ks as [|h t IH]; [reflexivity|]. cbn [map filter is_ldrop].
  destruct (Nat.eqb h k); cbn [length]; rewrite IH; reflexivity.
Qed.

(* ---- preservation ---- *)
Lemma tstep_inv e e' : tstep e e' -> tl_inv e -> tl_inv e'.
Proof.
  intros H (I1 & I2 & I3 & I4 & I5 & I6).
  destruct H as [Hv|b H1 H2 H3 H4|i b l y k H1 H2 H3 H4 H5 H6|lz k x H1 H2 H3 H4 H5 H6|lz H1 H2 H3 H4 H5].
  - apply (veq_inv e e' Hv). exact (conj I1 (conj I2 (conj I3 (conj I4 (conj I5 I6))))).
  - (* spawn *)
    assert (Hnf : forall z, In z (ykeys (nth b (e_bodies e) [])) -> fst z = false /\ bmention (snd z) (e_bodies e)).
    { intros z Hz. destruct (nth_in_or_default b (e_bodies e) []) as [Hin|Hd].
      - split; [eapply I5; eassumption|]. exists (nth b (e_bodies e) []), z. auto.
      - rewrite Hd in Hz. destruct Hz. }
    assert (Hya : yall (tsig e ++ [(b, ([], ykeys (nth b (e_bodies e) [])))]) =
                  yall (tsig e) ++ ykeys (nth b (e_bodies e) [])).
    { unfold yall. rewrite flat_map_app. cbn [flat_map ysel snd]. rewrite app_nil_r. reflexivity. }
    unfold tl_inv. rewrite H1, H2, H3, H4. split; [|split; [|split; [|split; [exact I4|split; [exact I5|]]]]].
    + apply Forall_app. split; [exact I1|]. constructor; [constructor|constructor].
    + intros k b'. rewrite filter_app, app_length, I2. cbn [filter].
      assert (Hh : hit k b' (b, ([], ykeys (nth b (e_bodies e) []))) = false)
        by (unfold hit; cbn [fst snd existsb]; apply andb_false_r).
      rewrite Hh. cbn [length]. lia.
    + eapply lazy_inv_pendf; [|exact I3]. intros k. unfold pendf. rewrite Hya, filter_app, app_length.
      rewrite (filter_pf_nofin k (ykeys (nth b (e_bodies e) []))); [cbn [length]; lia|].
      intros z Hz. apply (Hnf z Hz).
    + intros z Hz. rewrite Hya in Hz. apply in_app_or in Hz. destruct Hz as [Hz|Hz]; [apply I6, Hz|apply (Hnf z Hz)].
  - (* first use of a thread-local *)
    assert (Hya : yall (list_set (tsig e) i (b, (l ++ [k], y))) = yall (tsig e))
      by (eapply yall_list_set_same; [exact H1|reflexivity]).
    unfold tl_inv. rewrite H3, H4, H5, H6. split; [|split; [|split; [|split; [|split; [exact I5|]]]]].
    + apply Forall_list_set; [exact I1|]. cbn [fst snd]. apply NoDup_snoc; [|exact H2].
      rewrite Forall_forall in I1. exact (I1 _ (nth_error_In _ _ H1)).
    + intros k' b'. pose proof (filter_length_list_set _ (hit k' b') _ i (b, (l, y)) (b, (l ++ [k], y)) H1) as Hc.
      specialize (I2 k' b'). unfold cnt_tls in *. cbn [filter is_tls].
      assert (Hx : hit k' b' (b, (l, y)) = Nat.eqb b b' && existsb (Nat.eqb k') l) by reflexivity.
      assert (Hy : hit k' b' (b, (l ++ [k], y)) = Nat.eqb b b' && (existsb (Nat.eqb k') l || Nat.eqb k' k))
        by (unfold hit; cbn [fst snd]; rewrite existsb_snoc; reflexivity).
      rewrite Hx, Hy in Hc. clear Hx Hy.
      destruct (Nat.eqb_spec b b') as [->|Hb]; cbn [andb] in Hc.
      * rewrite andb_true_r.
        destruct (existsb (Nat.eqb k') l) eqn:Hex; cbn [orb] in Hc.
        -- destruct (Nat.eqb_spec k k') as [->|Hk].
           ++ apply existsb_eqb_true in Hex. contradiction.
           ++ lia.
        -- rewrite (Nat.eqb_sym k k'). destruct (Nat.eqb k' k); cbn [length]; lia.
      * rewrite andb_false_r. lia.
    + assert (I3' : lazy_inv (e_lazy e) (inits e) (list_set (tsig e) i (b, (l ++ [k], y)))).
      { eapply lazy_inv_pendf; [|exact I3]. intros k'. unfold pendf. rewrite Hya. reflexivity. }
      unfold lazy_inv in *. destruct (e_lazy e) as [lz|]; exact I3'.
    + unfold lazy_inv1 in *. intros k' Hk'. specialize (I4 k' Hk'). destruct (e_lazy e) as [lz|]; exact I4.
    + rewrite Hya. exact I6.
  - (* MLazyGet initialises and registers k *)
    unfold tl_inv. rewrite H3, H4, H5, H6. split; [exact I1|]. split; [|split; [|split; [|split; [exact I5|exact I6]]]].
    + intros k' b'. unfold cnt_tls in *. cbn [filter is_tls]. apply I2.
    + rewrite H1 in I3. destruct I3 as [Hnd Hc]. cbn [lazy_inv]. split.
      * rewrite map_app. cbn [map fst]. apply NoDup_snoc; assumption.
      * intros k'. rewrite cnt_lazy_cons_init, (reg_snoc k k' lz x H2), Hc.
        change (cnt_ldrop k' (LInitLazy k :: inits e)) with (cnt_ldrop k' (inits e)). lia.
    + rewrite H1 in I4. exact I4.
  - (* shutdown *)
    unfold tl_inv. rewrite H2, H3, H4, H5. split; [exact I1|]. split; [|split; [|split; [|split; [exact I5|exact I6]]]].
    + intros k b. unfold cnt_tls. rewrite filter_app_none; [apply I2|].
      intros x Hx. apply in_rev in Hx. apply in_map_iff in Hx. destruct Hx as (a & <- & _). reflexivity.
    + rewrite H1 in I3. destruct I3 as [_ Hc]. cbn [lazy_inv]. intros k.
      rewrite cnt_lazy_drops, cnt_ldrop_drops, cnt_dkeys, Hc.
      assert (Hr : reg k lz <= 1) by (unfold reg; destruct (existsb _ _); lia).
      destruct (Nat.ltb_spec k 8); repeat split; lia.
    + rewrite H1 in I3, I4. destruct I3 as [_ Hc]. intros k Hk. rewrite cnt_lazy_drops, Hc, (I4 k Hk).
      rewrite (pendf_zero k (tsig e)).
      * unfold reg. destruct (existsb _ _); lia.
      * intros x Hx He. apply Hk. rewrite <- He. apply I6, Hx.
Qed.

Lemma hit_list_set (ts : list tview) i b l y y' k b' : nth_error ts i = Some (b, (l, y)) ->
  length (filter (hit k b') (list_set ts i (b, (l, y')))) = length (filter (hit k b') ts).
Proof.
  intros H. pose proof (filter_length_list_set tview (hit k b') ts i (b, (l, y)) (b, (l, y')) H) as Hc.
  assert (He : hit k b' (b, (l, y')) = hit k b' (b, (l, y))) by reflexivity.
  rewrite He in Hc. lia.
Qed.

Lemma ystep_inv e e' : ystep e e' -> tl_inv e -> tl_inv e'.
Proof.
  intros H (I1 & I2 & I3 & I4 & I5 & I6).
  assert (Hnd : forall i b l y, nth_error (tsig e) i = Some (b, (l, y)) -> NoDup l).
  { intros i b l y Hn. rewrite Forall_forall in I1. exact (I1 _ (nth_error_In _ _ Hn)). }
  destruct H as [i b l k y H1 H2 H3 H4 H5|i b l k y H1 H2 H3 H4 H5
                |i b l k y lz x H1 H2 H3 H4 H5 H6 H7|i b l k y H1 H2 H3 H4 H5 H6].
  - (* ys_skip *)
    assert (Hp : forall k', pendf k' (list_set (tsig e) i (b, (l, y))) = pendf k' (tsig e)).
    { intros k'. pose proof (pendf_list_set (tsig e) i _ (b, (l, y)) k' H1) as Hc.
      cbn [ysel snd filter is_pf fst andb] in Hc. lia. }
    unfold tl_inv. rewrite H2, H3, H4, H5. split; [|split; [|split; [|split; [exact I4|split; [exact I5|]]]]].
    + apply Forall_list_set; [exact I1|]. cbn [fst snd]. eapply Hnd; exact H1.
    + intros k' b'. rewrite (hit_list_set _ _ _ _ _ _ _ _ H1). apply I2.
    + eapply lazy_inv_pendf; [|exact I3]. exact Hp.
    + intros z Hz. destruct (yall_list_set_in _ _ _ _ z H1 Hz) as [Hz'|Hz']; [apply I6, Hz'|].
      apply I6. eapply yall_nth_in; [exact H1|]. right. exact Hz'.
  - (* ys_init *)
    assert (Hp : forall k', pendf k' (list_set (tsig e) i (b, (l, (true, k) :: y))) =
                            (if Nat.eqb k k' then 1 else 0) + pendf k' (tsig e)).
    { intros k'. pose proof (pendf_list_set (tsig e) i _ (b, (l, (true, k) :: y)) k' H1) as Hc.
      cbn [ysel snd filter is_pf fst andb] in Hc. destruct (Nat.eqb k k'); cbn [length] in Hc; lia. }
    unfold tl_inv. rewrite H2, H3, H4, H5. split; [|split; [|split; [|split; [|split; [exact I5|]]]]].
    + apply Forall_list_set; [exact I1|]. cbn [fst snd]. eapply Hnd; exact H1.
    + intros k' b'. rewrite (hit_list_set _ _ _ _ _ _ _ _ H1). unfold cnt_tls in *. cbn [filter is_tls]. apply I2.
    + unfold lazy_inv in *. destruct (e_lazy e) as [lz|].
      * destruct I3 as [Hn Hc]. split; [exact Hn|]. intros k'. rewrite cnt_lazy_cons_init, Hp, Hc.
        change (cnt_ldrop k' (LInitLazy k :: inits e)) with (cnt_ldrop k' (inits e)). lia.
      * intros k'. specialize (I3 k'). rewrite cnt_lazy_cons_init, Hp.
        change (cnt_ldrop k' (LInitLazy k :: inits e)) with (cnt_ldrop k' (inits e)). lia.
    + assert (Hm : bmention k (e_bodies e)).
      { apply (I6 (false, k)). eapply yall_nth_in; [exact H1|]. left. reflexivity. }
      unfold lazy_inv1 in *. intros k' Hk'. specialize (I4 k' Hk'). destruct (e_lazy e) as [lz|].
      * exact I4.
      * rewrite cnt_lazy_cons_init. destruct (Nat.eqb_spec k k') as [->|Hne]; [contradiction|exact I4].
    + intros z Hz. destruct (yall_list_set_in _ _ _ _ z H1 Hz) as [Hz'|Hz']; [apply I6, Hz'|].
      cbn [ysel snd] in Hz'. destruct Hz' as [<-|Hz'].
      * apply (I6 (false, k)). eapply yall_nth_in; [exact H1|]. left. reflexivity.
      * apply I6. eapply yall_nth_in; [exact H1|]. right. exact Hz'.
  - (* ys_reg *)
    assert (Hp : forall k', pendf k' (list_set (tsig e) i (b, (l, y))) + (if Nat.eqb k k' then 1 else 0) =
                            pendf k' (tsig e)).
    { intros k'. pose proof (pendf_list_set (tsig e) i _ (b, (l, y)) k' H1) as Hc.
      cbn [ysel snd filter is_pf fst andb] in Hc. destruct (Nat.eqb k k'); cbn [length] in Hc; lia. }
    unfold tl_inv. rewrite H4, H5, H6, H7. split; [|split; [|split; [|split; [|split; [exact I5|]]]]].
    + apply Forall_list_set; [exact I1|]. cbn [fst snd]. eapply Hnd; exact H1.
    + intros k' b'. rewrite (hit_list_set _ _ _ _ _ _ _ _ H1). apply I2.
    + rewrite H2 in I3. destruct I3 as [Hn Hc]. cbn [lazy_inv]. split.
      * rewrite map_app. cbn [map fst]. apply NoDup_snoc; assumption.
      * intros k'. rewrite (reg_snoc k k' lz x H3), Hc. specialize (Hp k'). lia.
    + rewrite H2 in I4. exact I4.
    + intros z Hz. destruct (yall_list_set_in _ _ _ _ z H1 Hz) as [Hz'|Hz']; [apply I6, Hz'|].
      apply I6. eapply yall_nth_in; [exact H1|]. right. exact Hz'.
  - (* ys_lose *)
    assert (Hp : forall k', pendf k' (list_set (tsig e) i (b, (l, y))) + (if Nat.eqb k k' then 1 else 0) =
                            pendf k' (tsig e)).
    { intros k'. pose proof (pendf_list_set (tsig e) i _ (b, (l, y)) k' H1) as Hc.
      cbn [ysel snd filter is_pf fst andb] in Hc. destruct (Nat.eqb k k'); cbn [length] in Hc; lia. }
    assert (Hm : bmention k (e_bodies e)).
    { apply (I6 (true, k)). eapply yall_nth_in; [exact H1|]. left. reflexivity. }
    unfold tl_inv. rewrite H3, H4, H5, H6. split; [|split; [|split; [|split; [|split; [exact I5|]]]]].
    + apply Forall_list_set; [exact I1|]. cbn [fst snd]. eapply Hnd; exact H1.
    + intros k' b'. rewrite (hit_list_set _ _ _ _ _ _ _ _ H1). unfold cnt_tls in *. cbn [filter is_tls]. apply I2.
    + unfold lazy_inv in *. destruct (e_lazy e) as [lz|].
      * destruct I3 as [Hn Hc]. split; [exact Hn|]. intros k'. rewrite cnt_ldrop_cons_drop.
        change (cnt_lazy k' (LDropLazy k :: inits e)) with (cnt_lazy k' (inits e)).
        rewrite Hc. specialize (Hp k'). lia.
      * intros k'. specialize (I3 k'). rewrite cnt_ldrop_cons_drop.
        change (cnt_lazy k' (LDropLazy k :: inits e)) with (cnt_lazy k' (inits e)).
        specialize (Hp k'). lia.
    + unfold lazy_inv1 in *. intros k' Hk'. specialize (I4 k' Hk'). destruct (e_lazy e) as [lz|].
      * rewrite cnt_ldrop_cons_drop. destruct (Nat.eqb_spec k k') as [->|Hne]; [contradiction|exact I4].
      * exact I4.
    + intros z Hz. destruct (yall_list_set_in _ _ _ _ z H1 Hz) as [Hz'|Hz']; [apply I6, Hz'|].
      apply I6. eapply yall_nth_in; [exact H1|]. right. exact Hz'.
Qed.

Theorem exec_micro_inv e me m :
  ykey m = [] -> tl_inv e -> tl_inv (res_exec (exec_micro e me m)).
Proof. intros Hy. apply tstep_inv, exec_micro_tstep, Hy. Qed.

(* taking a micro-operation other than MLazyGetY / MLazyFinishY off the continuation *)
Lemma pop_veq e me t m rest :
  nth_error (e_threads e) me = Some t -> t_cont t = m :: rest -> ykey m = [] ->
  veq e (upd_thread e me (fun t => th_set_cont t rest)).
Proof.
  intros Ht Hc Hy. unfold upd_thread, list_upd. rewrite Ht. apply veq_set_threads.
  rewrite map_list_set. apply list_set_same. rewrite nth_error_map, Ht. cbn [option_map].
  f_equal. unfold bt, th_set_cont. cbn [t_body t_tls t_cont]. rewrite Hc.
  change (ykeys (m :: rest)) with (ykey m ++ ykeys rest). rewrite Hy. reflexivity.
Qed.

Lemma ykey_cases m :
  ykey m = [] \/ (exists k, m = MLazyGetY k) \/ (exists k ci, m = MLazyFinishY k ci).
Proof. destruct m; try (left; reflexivity); right; [left|right]; eauto. Qed.

(* one step of Scheduler::run: the head of the active thread's continuation is
   taken off and executed *)
Theorem step_inv e me t m rest :
  nth_error (e_threads e) me = Some t -> t_cont t = m :: rest -> tl_inv e ->
  tl_inv (res_exec (exec_micro (upd_thread e me (fun t => th_set_cont t rest)) me m)).
Proof.
  intros Ht Hc Hi. destruct (ykey_cases m) as [Hy|[(k & ->)|(k & ci & ->)]].
  - apply exec_micro_inv; [exact Hy|]. eapply veq_inv; [eapply pop_veq; eassumption|exact Hi].
  - eapply ystep_inv; [eapply getY_ystep; eassumption|exact Hi].
  - eapply ystep_inv; [eapply finY_ystep; eassumption|exact Hi].
Qed.

Theorem steps_inv e e' : steps e e' -> tl_inv e -> tl_inv e'.
Proof.
  intros H. induction H as [e|e me t m rest e1 e2 Ha Ht Hc Hx Hs IH]; intros Hi; [exact Hi|].
  apply IH. pose proof (step_inv e me t m rest Ht Hc Hi) as Hm.
  rewrite Hx in Hm. exact Hm.
Qed.

Theorem run_inv : forall fuel e, tl_inv e -> tl_inv (fst (run fuel e)).
Proof.
  induction fuel as [|fuel IH]; intros e Hi; cbn [run]; [exact Hi|].
  destruct (e_active e) as [me|]; [|exact Hi].
  destruct (nth_error (e_threads e) me) as [t|] eqn:Ht; [|exact Hi].
  destruct (t_cont t) as [|m rest] eqn:Hc; [exact Hi|].
  pose proof (step_inv e me t m rest Ht Hc Hi) as Hm.
  destruct (exec_micro _ me m) as [e2|e2 pn]; cbn [res_exec fst] in *; [apply IH|]; exact Hm.
Qed.

(* ---- the expanded program: the only lazy-static micro-operation with a
   yielding initialiser is MLazyGetY 2 ---- *)
Lemma expand_ykeys b pc i x : In x (ykeys (expand b pc i)) -> x = (false, 2).
Proof.
  destruct i; cbn [expand]; try (intros []; fail);
    try (cbn [ykeys flat_map ykey app]; intros H; destruct H; fail).
  destruct (Nat.eqb_spec k 2) as [->|Hne]; cbn [ykeys flat_map ykey app]; intros H.
  - destruct H as [<-|[]]. reflexivity.
  - destruct H.
Qed.

Lemma expand_body_ykeys b x : forall l pc, In x (ykeys (expand_body_from b pc l)) -> x = (false, 2).
Proof.
  induction l as [|i l IH]; intros pc H; cbn [expand_body_from] in H; [destruct H|].
  change (ykeys (?a :: ?c)) with (ykey a ++ ykeys c) in H. cbn [ykey app] in H.
  rewrite ykeys_app in H. apply in_app_or in H. destruct H as [H|H]; [eapply expand_ykeys; exact H|eapply IH; exact H].
Qed.

Lemma exit_seq_ykeys b : ykeys (exit_seq b) = [].
Proof. destruct b; reflexivity. Qed.

Lemma expand_prog_ykeys p c x : In c (expand_prog p) -> In x (ykeys c) -> x = (false, 2).
Proof.
  intros Hc Hx. apply In_nth_error in Hc. destruct Hc as [b Hb].
  unfold expand_prog in Hb. rewrite nth_error_mapi in Hb.
  destruct (nth_error (p_bodies p) b) as [body|]; [|discriminate Hb].
  cbn [option_map] in Hb. injection Hb as <-.
  rewrite ykeys_app, exit_seq_ykeys, app_nil_r in Hx. eapply expand_body_ykeys. exact Hx.
Qed.

Lemma expand_prog_bmention p k : bmention k (expand_prog p) -> k = 2.
Proof.
  intros (c & x & Hc & Hx & <-). rewrite (expand_prog_ykeys p c x Hc Hx). reflexivity.
Qed.

Lemma init_exec_inv p pa : tl_inv (init_exec p pa).
Proof.
  assert (Hm : forall x, In x (ykeys (nth 0 (expand_prog p) [])) ->
                 x = (false, 2) /\ bmention (snd x) (expand_prog p)).
  { intros x Hx. destruct (nth_in_or_default 0 (expand_prog p) []) as [Hin|Hd].
    - split; [eapply expand_prog_ykeys; eassumption|]. exists (nth 0 (expand_prog p) []), x. auto.
    - rewrite Hd in Hx. destruct Hx. }
  unfold tl_inv, tsig, inits, init_exec. cbn [e_threads e_log e_lazy e_bodies map filter lazy_inv].
  split; [repeat constructor|]. split; [|split; [|split; [|split]]].
  - intros k b. unfold cnt_tls, hit, bt. cbn. rewrite andb_false_r. reflexivity.
  - split; [constructor|]. intros k. unfold pendf. rewrite filter_pf_nofin; [reflexivity|].
    intros x Hx. unfold yall in Hx. cbn [flat_map ysel bt snd thread_new t_cont] in Hx.
    rewrite app_nil_r in Hx. destruct (Hm x Hx) as [-> _]. reflexivity.
  - intros k Hk. reflexivity.
  - intros c x Hc Hx. rewrite (expand_prog_ykeys p c x Hc Hx). reflexivity.
  - intros x Hx. unfold yall in Hx. cbn [flat_map ysel bt snd thread_new t_cont] in Hx.
    rewrite app_nil_r in Hx. apply (Hm x Hx).
Qed.

Corollary run_init_inv fuel p pa : tl_inv (fst (run fuel (init_exec p pa))).
Proof. apply run_inv, init_exec_inv. Qed.

(* ================================================================== *)
(* 4. Thread-locals                                                    *)
(* ================================================================== *)

Lemma filter_map_length (A B : Type) (g : A -> B) (f : B -> bool) l :
  length (filter f (map g l)) = length (filter (fun x => f (g x)) l).
Proof.
  induction l as [|h t IH]; cbn [map filter]; [reflexivity|].
  destruct (f (g h)); cbn [length]; rewrite IH; reflexivity.
Qed.

Lemma filter_length_imp (A : Type) (f g : A -> bool) l :
  (forall x, f x = true -> g x = true) -> length (filter f l) <= length (filter g l).
Proof.
  intros H. induction l as [|h t IH]; cbn [filter]; [apply Nat.le_refl|].
  destruct (f h) eqn:Hf.
  - rewrite (H h Hf). cbn [length]. lia.
  - destruct (g h); cbn [length]; lia.
Qed.

Lemma filter_key_none (B : Type) (q : nat * B -> bool) b (l : list (nat * B)) :
  ~ In b (map fst l) -> filter (fun y => Nat.eqb (fst y) b && q y) l = [].
Proof.
  induction l as [|h t IH]; intros Hn; cbn [filter]; [reflexivity|].
  cbn [map] in Hn. destruct (Nat.eqb_spec (fst h) b) as [He|He]; [destruct Hn; left; exact He|].
  cbn [andb]. apply IH. intros Hin. apply Hn. right. exact Hin.
Qed.

Lemma filter_key_le1 (B : Type) (q : nat * B -> bool) b (l : list (nat * B)) :
  NoDup (map fst l) -> length (filter (fun y => Nat.eqb (fst y) b && q y) l) <= 1.
Proof.
  induction l as [|h t IH]; intros Hnd; cbn [filter]; [cbn; lia|].
  cbn [map] in Hnd. inversion Hnd as [|x xs Hx Hnd']; subst.
  destruct (Nat.eqb_spec (fst h) b) as [He|He]; cbn [andb]; [|auto].
  subst b. rewrite (filter_key_none _ q (fst h) t Hx). destruct (q h); cbn; lia.
Qed.

Lemma filter_key_exact (B : Type) (q : nat * B -> bool) (x : nat * B) (l : list (nat * B)) :
  NoDup (map fst l) -> In x l ->
  length (filter (fun y => Nat.eqb (fst y) (fst x) && q y) l) = if q x then 1 else 0.
Proof.
  induction l as [|h t IH]; intros Hnd Hin; [destruct Hin|]. cbn [filter].
  cbn [map] in Hnd. inversion Hnd as [|y ys Hy Hnd']; subst. destruct Hin as [->|Hin].
  - rewrite Nat.eqb_refl. cbn [andb]. rewrite (filter_key_none _ q (fst x) t Hy).
    destruct (q x); reflexivity.
  - destruct (Nat.eqb_spec (fst h) (fst x)) as [He|He]; cbn [andb]; [|auto].
    destruct Hy. rewrite He. apply in_map. exact Hin.
Qed.

Lemma map_fst_tsig e : map fst (tsig e) = map t_body (e_threads e).
Proof. unfold tsig. rewrite map_map. reflexivity. Qed.

(* B.1: along every run, every thread's list of initialised keys is duplicate
   free ... *)
Theorem run_tls_nodup fuel p pa t :
  In t (e_threads (fst (run fuel (init_exec p pa)))) -> NoDup (t_tls t).
Proof.
  intros Hin. destruct (run_init_inv fuel p pa) as (I1 & _).
  rewrite Forall_forall in I1. apply (I1 (bt t)). unfold tsig. apply in_map. exact Hin.
Qed.

(* ... and the number of LInitTls k b entries of the log is the number of
   threads running body b that have initialised key k *)
Theorem run_tls_count fuel p pa k b :
  cnt_tls k b (e_log (fst (run fuel (init_exec p pa)))) =
  length (filter (fun t => Nat.eqb (t_body t) b && existsb (Nat.eqb k) (t_tls t))
                 (e_threads (fst (run fuel (init_exec p pa))))).
Proof.
  destruct (run_init_inv fuel p pa) as (_ & I2 & _).
  rewrite <- cnt_tls_inits, I2. unfold tsig. rewrite filter_map_length. reflexivity.
Qed.

(* hence at most one entry per thread running body b *)
Theorem tls_init_le_threads fuel p pa k b :
  cnt_tls k b (e_log (fst (run fuel (init_exec p pa)))) <=
  length (filter (fun t => Nat.eqb (t_body t) b) (e_threads (fst (run fuel (init_exec p pa))))).
Proof.
  rewrite run_tls_count. apply filter_length_imp. intros t H. apply andb_prop in H. exact (proj1 H).
Qed.

(* the requested per-thread form, when distinct threads run distinct bodies *)
Theorem run_tls_count_thread fuel p pa k t :
  let e := fst (run fuel (init_exec p pa)) in
  NoDup (map t_body (e_threads e)) -> In t (e_threads e) ->
  cnt_tls k (t_body t) (e_log e) = if existsb (Nat.eqb k) (t_tls t) then 1 else 0.
Proof.
  cbv zeta. intros Hnd Hin. destruct (run_init_inv fuel p pa) as (_ & I2 & _).
  rewrite <- cnt_tls_inits, I2. rewrite <- map_fst_tsig in Hnd.
  assert (Hb : In (bt t) (tsig (fst (run fuel (init_exec p pa))))) by (unfold tsig; apply in_map; exact Hin).
  exact (filter_key_exact _ (fun y => existsb (Nat.eqb k) (fst (snd y))) (bt t) _ Hnd Hb).
Qed.

(* tls_init_once: at most one LInitTls k b in the log of a run in which no
   body is run by two threads *)
Theorem tls_init_once fuel p pa k b :
  let e := fst (run fuel (init_exec p pa)) in
  NoDup (map t_body (e_threads e)) -> cnt_tls k b (e_log e) <= 1.
Proof.
  cbv zeta. intros Hnd. destruct (run_init_inv fuel p pa) as (_ & I2 & _).
  rewrite <- cnt_tls_inits, I2. rewrite <- map_fst_tsig in Hnd.
  exact (filter_key_le1 _ (fun y => existsb (Nat.eqb k) (fst (snd y))) b _ Hnd).
Qed.

(* "occurs at most once", positionally *)
Lemma filter_le1_unique (A : Type) (f : A -> bool) l :
  length (filter f l) <= 1 ->
  forall i j x y, nth_error l i = Some x -> f x = true -> nth_error l j = Some y -> f y = true -> i = j.
Proof.
  induction l as [|h t IH]; intros Hle i j x y Hi Hx Hj Hy; [destruct i; discriminate|].
  cbn [filter] in Hle. destruct (f h) eqn:Hh.
  - cbn [length] in Hle. assert (Ht : filter f t = []) by (destruct (filter f t); [reflexivity|cbn in Hle; lia]).
    assert (Hno : forall n z, nth_error t n = Some z -> f z = false).
    { intros n z Hn. destruct (f z) eqn:Hz; [|reflexivity].
      assert (Hin : In z (filter f t)) by (apply filter_In; split; [eapply nth_error_In; exact Hn|exact Hz]).
      rewrite Ht in Hin. destruct Hin. }
    destruct i as [|i], j as [|j]; [reflexivity| | |]; cbn [nth_error] in Hi, Hj.
    + rewrite (Hno _ _ Hj) in Hy. discriminate.
    + rewrite (Hno _ _ Hi) in Hx. discriminate.
    + rewrite (Hno _ _ Hi) in Hx. discriminate.
  - destruct i as [|i], j as [|j]; cbn [nth_error] in Hi, Hj.
    + reflexivity.
    + injection Hi as ->. congruence.
    + injection Hj as ->. congruence.
    + f_equal. eapply IH; eassumption.
Qed.

Corollary tls_init_once_pos fuel p pa k b i j :
  let e := fst (run fuel (init_exec p pa)) in
  NoDup (map t_body (e_threads e)) ->
  nth_error (e_log e) i = Some (LInitTls k b) -> nth_error (e_log e) j = Some (LInitTls k b) -> i = j.
Proof.
  cbv zeta. intros Hnd Hi Hj. pose proof (tls_init_once fuel p pa k b Hnd) as Hle.
  eapply (filter_le1_unique _ (is_tls k b) _ Hle); try eassumption; cbn [is_tls]; rewrite !Nat.eqb_refl; reflexivity.
Qed.

(* the statement without the side condition is false: a body can be spawned
   twice (MSpawn never looks at e_spawned), both threads run the same code
   and each initialises its own instance; the log labels entries by body *)
Definition p_twice : prog :=
  mkProg (mkConfig 5 1000 None None None false) [] [[ISpawn 1; ISpawn 1]; [ITlsWith 0]].

Lemma tls_init_twice :
  exists fuel, cnt_tls 0 1 (e_log (fst (run fuel (init_exec p_twice (initial_path (p_cfg p_twice)))))) = 2 /\
               snd (run fuel (init_exec p_twice (initial_path (p_cfg p_twice)))) = IterDone.
Proof. exists 200. vm_compute. split; reflexivity. Qed.

(* ================================================================== *)
(* 5. Lazy statics                                                     *)
(* ================================================================== *)

(* B.2: the registry never holds a key twice: a lazy static is REGISTERED at
   most once per execution (all threads get the same instance), also when its
   initialiser ran more than once *)
Theorem lazy_nodup_inv e lz : tl_inv e -> e_lazy e = Some lz -> NoDup (map fst lz).
Proof. intros (_ & _ & I3 & _) Hl. rewrite Hl in I3. exact (proj1 I3). Qed.

Theorem run_lazy_nodup fuel p pa lz :
  e_lazy (fst (run fuel (init_exec p pa))) = Some lz -> NoDup (map fst lz).
Proof. apply lazy_nodup_inv, run_init_inv. Qed.

Corollary lazy_registered_once fuel p pa lz :
  e_lazy (fst (run fuel (init_exec p pa))) = Some lz -> NoDup (map fst lz).
Proof. apply run_lazy_nodup. Qed.

(* the expanded program is never changed *)
Lemma tstep_bodies e e' : tstep e e' -> e_bodies e' = e_bodies e.
Proof.
  intros H. destruct H as [(_ & _ & _ & Hv)|b _ _ _ H4|i b l y k _ _ _ _ _ H6|lz k x _ _ _ _ _ H6|lz _ _ _ _ H5];
    assumption.
Qed.

Lemma ystep_bodies e e' : ystep e e' -> e_bodies e' = e_bodies e.
Proof.
  intros H. destruct H as [i b l k y _ _ _ _ H5|i b l k y _ _ _ _ H5
                          |i b l k y lz x _ _ _ _ _ _ H7|i b l k y _ _ _ _ _ H6]; assumption.
Qed.

Lemma step_bodies e me t m rest :
  nth_error (e_threads e) me = Some t -> t_cont t = m :: rest ->
  e_bodies (res_exec (exec_micro (upd_thread e me (fun t => th_set_cont t rest)) me m)) = e_bodies e.
Proof.
  intros Ht Hc. destruct (ykey_cases m) as [Hy|[(k & ->)|(k & ci & ->)]].
  - rewrite (tstep_bodies _ _ (exec_micro_tstep _ me m Hy)). reflexivity.
  - apply ystep_bodies. eapply getY_ystep; eassumption.
  - apply ystep_bodies. eapply finY_ystep; eassumption.
Qed.

Lemma run_bodies : forall fuel e, e_bodies (fst (run fuel e)) = e_bodies e.
Proof.
  induction fuel as [|fuel IH]; intros e; cbn [run]; [reflexivity|].
  destruct (e_active e) as [me|]; [|reflexivity].
  destruct (nth_error (e_threads e) me) as [t|] eqn:Ht; [|reflexivity].
  destruct (t_cont t) as [|m rest] eqn:Hc; [reflexivity|].
  pose proof (step_bodies e me t m rest Ht Hc) as Hm.
  destruct (exec_micro _ me m) as [e2|e2 pn]; cbn [res_exec fst] in *; [rewrite IH|]; exact Hm.
Qed.

Lemma run_init_bodies fuel p pa : e_bodies (fst (run fuel (init_exec p pa))) = expand_prog p.
Proof. rewrite run_bodies. reflexivity. Qed.

(* ---- the balance, for every key ----
   while the registry is alive:
     #LInitLazy k = [k registered] + #LDropLazy k + #initialisers of k in flight
   i.e. every value built by an initialiser is the registered one, or has been
   dropped (its thread lost the race), or is still held by a thread between
   its MLazyGetY and its MLazyFinishY *)
Theorem lazy_balance e lz k : tl_inv e -> e_lazy e = Some lz ->
  cnt_lazy k (e_log e) = reg k lz + cnt_ldrop k (e_log e) + pendf k (tsig e).
Proof.
  intros (_ & _ & I3 & _) Hl. rewrite Hl in I3. rewrite <- cnt_lazy_inits, <- cnt_ldrop_inits.
  apply (proj2 I3).
Qed.

Theorem run_lazy_balance fuel p pa lz k :
  let e := fst (run fuel (init_exec p pa)) in
  e_lazy e = Some lz ->
  cnt_lazy k (e_log e) = reg k lz + cnt_ldrop k (e_log e) + pendf k (tsig e).
Proof. cbv zeta. apply lazy_balance, run_init_inv. Qed.

(* after the shutdown (which drops the registered values of the keys below 8)
   every value built is dropped or still in flight; a thread that finishes its
   initialiser after the shutdown drops its value while it unwinds *)
Theorem lazy_balance_shut e k : tl_inv e -> e_lazy e = None -> k < 8 ->
  cnt_lazy k (e_log e) = cnt_ldrop k (e_log e) + pendf k (tsig e).
Proof.
  intros (_ & _ & I3 & _) Hl Hk. rewrite Hl in I3. rewrite <- cnt_lazy_inits, <- cnt_ldrop_inits.
  apply (I3 k), Hk.
Qed.

Theorem run_lazy_balance_shut fuel p pa k :
  let e := fst (run fuel (init_exec p pa)) in
  e_lazy e = None -> k < 8 ->
  cnt_lazy k (e_log e) = cnt_ldrop k (e_log e) + pendf k (tsig e).
Proof. cbv zeta. apply lazy_balance_shut, run_init_inv. Qed.

Lemma pendf_no_conts e k : Forall (fun t => t_cont t = []) (e_threads e) -> pendf k (tsig e) = 0.
Proof.
  intros H. apply pendf_zero. intros x Hx. exfalso. unfold yall, tsig in Hx.
  apply in_flat_map in Hx. destruct Hx as (v & Hv & Hx). apply in_map_iff in Hv.
  destruct Hv as (t & <- & Ht). rewrite Forall_forall in H. unfold ysel, bt in Hx. cbn [snd] in Hx.
  rewrite (H t Ht) in Hx. destruct Hx.
Qed.

(* when all continuations are empty (all threads are done), initialisations
   and drops balance exactly: no value is leaked, none is dropped twice *)
Corollary run_lazy_all_dropped fuel p pa k :
  let e := fst (run fuel (init_exec p pa)) in
  e_lazy e = None -> k < 8 -> Forall (fun t => t_cont t = []) (e_threads e) ->
  cnt_lazy k (e_log e) = cnt_ldrop k (e_log e).
Proof.
  cbv zeta. intros Hl Hk Hc. rewrite (run_lazy_balance_shut fuel p pa k Hl Hk), (pendf_no_conts _ k Hc). lia.
Qed.

(* ---- the keys without yielding initialiser ---- *)
(* while the registry is alive the log has exactly one LInitLazy k per
   registered key; after the shutdown still at most one *)
Theorem lazy_count_plain e lz k : tl_inv e -> ~ bmention k (e_bodies e) -> e_lazy e = Some lz ->
  cnt_lazy k (e_log e) = if existsb (Nat.eqb k) (map fst lz) then 1 else 0.
Proof.
  intros (_ & _ & I3 & I4 & _ & I6) Hk Hl. rewrite Hl in I3, I4. rewrite <- cnt_lazy_inits.
  rewrite (proj2 I3 k), (I4 k Hk), (pendf_zero k (tsig e)); [unfold reg; lia|].
  intros x Hx He. apply Hk. rewrite <- He. apply I6, Hx.
Qed.

Lemma lazy_count_le1 e k : tl_inv e -> ~ bmention k (e_bodies e) -> cnt_lazy k (e_log e) <= 1.
Proof.
  intros Hi Hk. destruct (e_lazy e) as [lz|] eqn:Hl.
  - rewrite (lazy_count_plain e lz k Hi Hk Hl). destruct (existsb _ _); lia.
  - destruct Hi as (_ & _ & _ & I4 & _). rewrite Hl in I4. rewrite <- cnt_lazy_inits. apply I4, Hk.
Qed.

Lemma run_not_mentioned fuel p pa k :
  k <> 2 -> ~ bmention k (e_bodies (fst (run fuel (init_exec p pa)))).
Proof. intros Hk Hm. rewrite run_init_bodies in Hm. apply Hk. eapply expand_prog_bmention. exact Hm. Qed.

Theorem run_lazy_count fuel p pa lz k :
  k <> 2 ->
  e_lazy (fst (run fuel (init_exec p pa))) = Some lz ->
  cnt_lazy k (e_log (fst (run fuel (init_exec p pa)))) =
  if existsb (Nat.eqb k) (map fst lz) then 1 else 0.
Proof.
  intros Hk Hl. apply lazy_count_plain; [apply run_init_inv|apply run_not_mentioned, Hk|exact Hl].
Qed.

(* a lazy static whose initialiser has no scheduling point (in the programs of
   Check.expand: every key but 2) is initialised at most once per execution *)
Theorem lazy_init_once fuel p pa k :
  k <> 2 -> cnt_lazy k (e_log (fst (run fuel (init_exec p pa)))) <= 1.
Proof. intros Hk. apply lazy_count_le1; [apply run_init_inv|apply run_not_mentioned, Hk]. Qed.

Corollary lazy_init_once_pos fuel p pa k i j :
  let e := fst (run fuel (init_exec p pa)) in
  k <> 2 ->
  nth_error (e_log e) i = Some (LInitLazy k) -> nth_error (e_log e) j = Some (LInitLazy k) -> i = j.
Proof.
  cbv zeta. intros Hk Hi Hj. pose proof (lazy_init_once fuel p pa k Hk) as Hle.
  eapply (filter_le1_unique _ (is_lazy k) _ Hle); try eassumption; cbn [is_lazy]; apply Nat.eqb_refl.
Qed.

(* the statement without the side condition is false: the initialiser of lazy
   static 2 yields, loom runs it outside the execution lock, and a second
   thread that finds the static unregistered runs it too.  Both initialisations
   are logged; the loser's value is dropped (the first LDropLazy 2) before the
   shutdown drops the registered one (the last LDropLazy 2); both threads read
   the same instance.  This is the ONLY iteration of the exploration: the
   schedule in which main registers the static before thread 1 looks is never
   explored (Lazy::get is no branch point). *)
Definition p_lazy_y : prog :=
  mkProg (mkConfig 5 1000 None None None false) [] [[ISpawn 1; ILazyGet 2; IJoin 1]; [ILazyGet 2]].

Definition lazy_lines (l : list logline) : list logline :=
  filter (fun x => match x with
                   | LInitLazy _ | LDropLazy _ | LOp _ _ (RVal _) => true
                   | _ => false
                   end) l.

Lemma lazy_yielding_init_runs_twice :
  map (fun it => (lazy_lines (ir_log it), ir_result it)) (fst (fst (check 100 1000 p_lazy_y))) =
    [([LInitLazy 2; LInitLazy 2; LOp 0 1 (RVal 43); LDropLazy 2; LOp 1 0 (RVal 43); LDropLazy 2],
      IterDone)] /\
  snd (fst (check 100 1000 p_lazy_y)) = RunOk /\
  (let r := run 1000 (init_exec p_lazy_y (initial_path (p_cfg p_lazy_y))) in
   cnt_lazy 2 (e_log (fst r)) = 2 /\ cnt_ldrop 2 (e_log (fst r)) = 2 /\ snd r = IterDone /\
   e_lazy (fst r) = None /\ forallb (fun t => match t_cont t with [] => true | _ => false end)
                                    (e_threads (fst r)) = true).
Proof. vm_compute. repeat split; reflexivity. Qed.

(* the registry only grows, until it is shut down; then it stays shut down *)
Definition lazy_ext (e e' : exec) : Prop :=
  match e_lazy e with
  | None => e_lazy e' = None
  | Some lz => e_lazy e' = None \/ exists ext, e_lazy e' = Some (lz ++ ext)
  end.

Lemma lazy_ext_refl e : lazy_ext e e.
Proof.
  unfold lazy_ext. destruct (e_lazy e) as [lz|]; [|reflexivity].
  right. exists []. rewrite app_nil_r. reflexivity.
Qed.

Lemma lazy_ext_trans e1 e2 e3 : lazy_ext e1 e2 -> lazy_ext e2 e3 -> lazy_ext e1 e3.
Proof.
  unfold lazy_ext. destruct (e_lazy e1) as [lz|].
  - intros [H12|(x & H12)]; rewrite H12; [intros ->; left; reflexivity|].
    intros [H23|(y & H23)]; [left; exact H23|]. right. exists (x ++ y). rewrite app_assoc. exact H23.
  - intros ->. auto.
Qed.

Lemma lazy_ext_eq e e' : e_lazy e' = e_lazy e -> lazy_ext e e'.
Proof. intros H. unfold lazy_ext. rewrite H. exact (lazy_ext_refl e). Qed.

Lemma tstep_lazy_ext e e' : tstep e e' -> lazy_ext e e'.
Proof.
  intros H.
  destruct H as [(_ & _ & Hv & _)|b _ _ H3 _|i b l y k _ _ _ _ H5 _|lz k x H1 _ H3 _ _ _|lz H1 H2 _ _ _].
  - apply lazy_ext_eq, Hv.
  - apply lazy_ext_eq, H3.
  - apply lazy_ext_eq, H5.
  - unfold lazy_ext. rewrite H1. right. eauto.
  - unfold lazy_ext. rewrite H1. left. exact H2.
Qed.

(* MLazyGetY never changes the registry; MLazyFinishY extends it or leaves it *)
Lemma getY_lazy e me k : e_lazy (res_exec (exec_micro e me (MLazyGetY k))) = e_lazy e.
Proof.
  destruct (e_lazy e) as [lz|] eqn:Hl.
  - destruct (find (fun x => Nat.eqb (fst x) k) lz) as [x|] eqn:Hf.
    + cbn [exec_micro]. rewrite Hl, Hf. cbn [res_exec]. exact Hl.
    + destruct (getY_init_ok e me k lz Hl Hf) as (e1 & ci & -> & (_ & _ & V3 & _)). cbn [res_exec].
      change (e_lazy (push_cont e1 me [MYield; MLazyFinishY k ci])) with (e_lazy e1). rewrite V3. exact Hl.
  - cbn [exec_micro]. rewrite Hl. cbn [res_exec]. exact Hl.
Qed.

Lemma finY_lazy_ext e me k ci : lazy_ext e (res_exec (exec_micro e me (MLazyFinishY k ci))).
Proof.
  unfold lazy_ext. cbn [exec_micro]. destruct (e_lazy e) as [lz|] eqn:Hl.
  - destruct (find (fun x => Nat.eqb (fst x) k) lz) as [x|]; cbn [res_exec]; right.
    + exists []. rewrite app_nil_r. exact Hl.
    + eexists. reflexivity.
  - cbn [res_exec]. exact Hl.
Qed.

Theorem exec_micro_lazy_ext e me m : lazy_ext e (res_exec (exec_micro e me m)).
Proof.
  destruct (ykey_cases m) as [Hy|[(k & ->)|(k & ci & ->)]].
  - apply tstep_lazy_ext, exec_micro_tstep, Hy.
  - apply lazy_ext_eq, getY_lazy.
  - apply finY_lazy_ext.
Qed.

(* once None, None under every micro-step *)
Theorem lazy_none_stays e me m :
  e_lazy e = None -> e_lazy (res_exec (exec_micro e me m)) = None.
Proof. intros Hl. pose proof (exec_micro_lazy_ext e me m) as H. unfold lazy_ext in H. rewrite Hl in H. exact H. Qed.

Theorem steps_lazy_ext e e' : steps e e' -> lazy_ext e e'.
Proof.
  intros H. induction H as [e|e me t m rest e1 e2 Ha Ht Hc Hx Hs IH]; [apply lazy_ext_refl|].
  eapply lazy_ext_trans; [|exact IH].
  pose proof (exec_micro_lazy_ext (upd_thread e me (fun t => th_set_cont t rest)) me m) as Hm.
  rewrite Hx in Hm. exact Hm.
Qed.

Theorem steps_lazy_none e e' : steps e e' -> e_lazy e = None -> e_lazy e' = None.
Proof. intros Hs Hl. pose proof (steps_lazy_ext e e' Hs) as H. unfold lazy_ext in H. rewrite Hl in H. exact H. Qed.

(* every later access fails: on the state reached and on that state with the
   accessing thread's continuation popped (where Check.run executes it).  An
   access MLazyGet k or MLazyGetY k panics at once; a thread that was inside
   the yielding initialiser when the registry was shut panics in MLazyFinishY
   (the second look at the registry) and its value is dropped by the
   unwinding: LDropLazy k is logged *)
Theorem lazy_get_after_shutdown e e' b k :
  steps e e' -> e_lazy e = None ->
  (forall m, m = MLazyGet k \/ m = MLazyGetY k ->
     exec_micro e' b m = MFail e' PanicLazyShutdown /\
     forall rest, exec_micro (upd_thread e' b (fun t => th_set_cont t rest)) b m =
                  MFail (upd_thread e' b (fun t => th_set_cont t rest)) PanicLazyShutdown) /\
  (forall ci,
     exec_micro e' b (MLazyFinishY k ci) =
       MFail (ex_set_log e' (LDropLazy k :: e_log e')) PanicLazyShutdown /\
     forall rest, let e1 := upd_thread e' b (fun t => th_set_cont t rest) in
                  exec_micro e1 b (MLazyFinishY k ci) =
                    MFail (ex_set_log e1 (LDropLazy k :: e_log e1)) PanicLazyShutdown).
Proof.
  intros Hs Hl. pose proof (steps_lazy_none e e' Hs Hl) as Hn. split.
  - intros m [->| ->]; (split; [|intros rest]); cbn [exec_micro upd_thread ex_set_threads e_lazy];
      rewrite Hn; reflexivity.
  - intros ci. split; [|intros rest; cbv zeta]; cbn [exec_micro upd_thread ex_set_threads e_lazy];
      rewrite Hn; reflexivity.
Qed.

Theorem lazy_drop_then_get_fails e a e1 e2 b k :
  exec_micro e a MLazyDrop = MOk e1 -> steps e1 e2 ->
  exec_micro e2 b (MLazyGet k) = MFail e2 PanicLazyShutdown /\
  exec_micro e2 b (MLazyGetY k) = MFail e2 PanicLazyShutdown.
Proof.
  intros Hd Hs.
  assert (Hl : e_lazy e1 = None).
  { cbn [exec_micro] in Hd. destruct (e_lazy e) as [lz|] eqn:Hl; injection Hd as <-; [reflexivity|exact Hl]. }
  destruct (lazy_get_after_shutdown e1 e2 b k Hs Hl) as [Hg _].
  split; [apply (Hg (MLazyGet k))|apply (Hg (MLazyGetY k))]; auto.
Qed.

(* ---- initialisation happens-before every access ---- *)
Lemma find_nodup_key (B : Type) k (v : B) (lz : list (nat * B)) :
  NoDup (map fst lz) -> In (k, v) lz -> find (fun x => Nat.eqb (fst x) k) lz = Some (k, v).
Proof.
  induction lz as [|h t IH]; intros Hnd Hin; [destruct Hin|]. cbn [find].
  cbn [map] in Hnd. inversion Hnd as [|y ys Hy Hnd']; subst. destruct Hin as [->|Hin].
  - cbn [fst]. rewrite Nat.eqb_refl. reflexivity.
  - destruct (Nat.eqb_spec (fst h) k) as [He|He]; [|auto].
    destruct Hy. rewrite He. change k with (fst (k, v)). apply in_map. exact Hin.
Qed.

Lemma lazy_tail_mono e me ci k : mono e (res_exec (lazy_tail e me ci k)).
Proof. unfold lazy_tail. cbv zeta. repeat mstep. all: mclose. Qed.

Lemma lazy_tail_lazy e me ci k : e_lazy (res_exec (lazy_tail e me ci k)) = e_lazy e.
Proof. exact (proj1 (proj2 (proj2 (lazy_tail_veq e me ci k)))). Qed.

(* an access that finds k registered acquires the registered view *)
Theorem lazy_get_acquires e me k lz ci sy e' :
  e_lazy e = Some lz -> NoDup (map fst lz) -> In (k, (ci, sy)) lz ->
  me < length (e_threads e) ->
  exec_micro e me (MLazyGet k) = MOk e' -> vle sy (caus_of e' me).
Proof.
  intros Hl Hnd Hin Hme Hx. rewrite exec_micro_lazy_get, Hl in Hx. unfold lazy_lookup in Hx.
  rewrite (find_nodup_key _ k (ci, sy) lz Hnd Hin) in Hx.
  pose proof (lazy_tail_mono (set_caus e me (sync_load (caus_of e me) sy Acquire)) me ci k) as Hm.
  rewrite Hx in Hm. cbn [res_exec] in Hm. destruct Hm as (_ & Hc & _). specialize (Hc me).
  rewrite caus_of_set_caus_same in Hc by exact Hme.
  eapply vle_trans; [|exact Hc]. apply sync_load_acq. reflexivity.
Qed.

(* the initialising access registers a view that contains the initialiser's clock *)
Theorem lazy_init_publishes e me k lz e' :
  e_lazy e = Some lz -> ~ In k (map fst lz) -> exec_micro e me (MLazyGet k) = MOk e' ->
  exists ci sy, e_lazy e' = Some (lz ++ [(k, (ci, sy))]) /\ vle (caus_of e me) sy.
Proof.
  intros Hl Hk Hx. rewrite exec_micro_lazy_get, Hl in Hx.
  destruct (lazy_lookup e me k lz) as [[e1 ci]|p] eqn:Hlk; [|discriminate Hx].
  pose proof (lazy_tail_lazy e1 me ci k) as Hz. rewrite Hx in Hz. cbn [res_exec] in Hz.
  unfold lazy_lookup in Hlk.
  destruct (find (fun x => Nat.eqb (fst x) k) lz) as [[k' [ci' sy']]|] eqn:Hf.
  - exfalso. apply find_some in Hf. destruct Hf as [Hin Hk']. cbn [fst] in Hk'.
    apply Nat.eqb_eq in Hk'. subst k'. apply Hk. change k with (fst (k, (ci', sy'))). apply in_map. exact Hin.
  - cbv zeta in Hlk.
    repeat match type of Hlk with
           | match ?x with _ => _ end = _ => destruct x eqn:?; try discriminate Hlk
           end.
    injection Hlk as <- <-. eexists. eexists. split; [rewrite Hz; reflexivity|].
    eapply vle_trans; [|apply sync_store_rel; reflexivity].
    rewrite caus_of_upd_object.
    match goal with |- vle _ (caus_of ?E me) => assert (Hm : mono e E) end.
    { mclose. eapply mono_trans;
        [|exact (mono_append_objects (ex_set_log e (LInitLazy k :: e_log e)) _)].
      apply mono_same; reflexivity. }
    destruct Hm as (_ & Hc & _). apply Hc.
Qed.

(* the same for the yielding initialiser: the thread that wins the race
   registers a view that contains its clock at the registration (which is
   after its initialiser) *)
Theorem lazy_finish_publishes e me k ci lz e' :
  e_lazy e = Some lz -> ~ In k (map fst lz) -> exec_micro e me (MLazyFinishY k ci) = MOk e' ->
  exists sy, e_lazy e' = Some (lz ++ [(k, (ci, sy))]) /\ vle (caus_of e me) sy.
Proof.
  intros Hl Hk Hx. cbn [exec_micro] in Hx. rewrite Hl in Hx.
  destruct (find (fun x => Nat.eqb (fst x) k) lz) as [x|] eqn:Hf.
  - exfalso. apply Hk. eapply find_key_some. exact Hf.
  - injection Hx as <-. eexists. split; [reflexivity|]. apply sync_store_rel. reflexivity.
Qed.

(* the global statement: a initialises lazy static k; the execution continues
   for any number of steps; b's access to k (executed on the state reached, or
   on any state with the same registry, e.g. with b's continuation popped)
   acquires a's clock at the time of the initialisation *)
Theorem lazy_handover_global e a k lz e1 e2 e2' b e3 :
  tl_inv e -> e_lazy e = Some lz -> ~ In k (map fst lz) ->
  exec_micro e a (MLazyGet k) = MOk e1 -> steps e1 e2 ->
  e_lazy e2' = e_lazy e2 -> b < length (e_threads e2') ->
  exec_micro e2' b (MLazyGet k) = MOk e3 ->
  vle (caus_of e a) (caus_of e3 b).
Proof.
  intros Hi Hl Hk Hx Hs Hz Hb Hy.
  destruct (lazy_init_publishes e a k lz e1 Hl Hk Hx) as (ci & sy & Hl1 & Hpub).
  pose proof (exec_micro_inv e a (MLazyGet k) eq_refl Hi) as Hi1. rewrite Hx in Hi1. cbn [res_exec] in Hi1.
  pose proof (steps_inv e1 e2 Hs Hi1) as Hi2.
  pose proof (steps_lazy_ext e1 e2 Hs) as He. unfold lazy_ext in He. rewrite Hl1 in He.
  destruct He as [Hn|(ext & He)].
  - rewrite exec_micro_lazy_get, Hz, Hn in Hy. discriminate Hy.
  - eapply vle_trans; [exact Hpub|].
    eapply (lazy_get_acquires e2' b k _ ci sy e3); [rewrite Hz; exact He| | |exact Hb|exact Hy].
    + eapply lazy_nodup_inv; eassumption.
    + apply in_or_app. left. apply in_or_app. right. left. reflexivity.
Qed.

(* and for the yielding static: the winner a registers k (MLazyFinishY); every
   later successful read of k -- by the winner, by a loser of the race after it
   dropped its own value, by any other thread -- acquires a's clock at the
   registration.  [tl_inv e1]: the state after the registration satisfies the
   invariant (true along runs: steps_inv / run_inv) *)
Theorem lazyY_handover_global e a k ci lz e1 e2 e2' b e3 :
  e_lazy e = Some lz -> ~ In k (map fst lz) ->
  exec_micro e a (MLazyFinishY k ci) = MOk e1 -> tl_inv e1 -> steps e1 e2 ->
  e_lazy e2' = e_lazy e2 -> b < length (e_threads e2') ->
  exec_micro e2' b (MLazyGet k) = MOk e3 ->
  vle (caus_of e a) (caus_of e3 b).
Proof.
  intros Hl Hk Hx Hi1 Hs Hz Hb Hy.
  destruct (lazy_finish_publishes e a k ci lz e1 Hl Hk Hx) as (sy & Hl1 & Hpub).
  pose proof (steps_inv e1 e2 Hs Hi1) as Hi2.
  pose proof (steps_lazy_ext e1 e2 Hs) as He. unfold lazy_ext in He. rewrite Hl1 in He.
  destruct He as [Hn|(ext & He)].
  - rewrite exec_micro_lazy_get, Hz, Hn in Hy. discriminate Hy.
  - eapply vle_trans; [exact Hpub|].
    eapply (lazy_get_acquires e2' b k _ ci sy e3); [rewrite Hz; exact He| | |exact Hb|exact Hy].
    + eapply lazy_nodup_inv; eassumption.
    + apply in_or_app. left. apply in_or_app. right. left. reflexivity.
Qed.

(* the same for the runs of the model *)
Corollary run_lazy_handover p pa e a k lz e1 e2 b e3 :
  steps (init_exec p pa) e -> e_lazy e = Some lz -> ~ In k (map fst lz) ->
  exec_micro e a (MLazyGet k) = MOk e1 -> steps e1 e2 -> b < length (e_threads e2) ->
  exec_micro e2 b (MLazyGet k) = MOk e3 ->
  vle (caus_of e a) (caus_of e3 b).
Proof.
  intros H0 Hl Hk Hx Hs Hb Hy.
  eapply (lazy_handover_global e a k lz e1 e2 e2 b e3); eauto.
  eapply steps_inv; [exact H0|apply init_exec_inv].
Qed.

Print Assumptions exec_micro_tstep.
Print Assumptions exec_micro_inv.
Print Assumptions step_inv.
Print Assumptions run_inv.
Print Assumptions run_tls_nodup.
Print Assumptions run_tls_count.
Print Assumptions run_tls_count_thread.
Print Assumptions tls_init_le_threads.
Print Assumptions tls_init_once.
Print Assumptions tls_init_once_pos.
Print Assumptions tls_init_twice.
Print Assumptions run_lazy_nodup.
Print Assumptions lazy_registered_once.
Print Assumptions run_lazy_balance.
Print Assumptions run_lazy_balance_shut.
Print Assumptions run_lazy_all_dropped.
Print Assumptions run_lazy_count.
Print Assumptions lazy_init_once.
Print Assumptions lazy_init_once_pos.
Print Assumptions lazy_yielding_init_runs_twice.
Print Assumptions lazy_none_stays.
Print Assumptions steps_lazy_none.
Print Assumptions lazy_get_after_shutdown.
Print Assumptions lazy_drop_then_get_fails.
Print Assumptions lazy_get_acquires.
Print Assumptions lazy_init_publishes.
Print Assumptions lazy_finish_publishes.
Print Assumptions lazy_handover_global.
Print Assumptions lazyY_handover_global.

(* DEVIATIONS from the requested statements

   T1  tls_init_once without side condition ("for every k and b, LInitTls k b
       occurs at most once in the log of a run") is FALSE in the model:
       MSpawn b (and MSpawnW b n k, the spawn from inside a block_on poll,
       which is a second ts_spawn step) never looks at e_spawned, so a body
       can be spawned twice
       ([ISpawn 1; ISpawn 1]); the two threads are distinct threads, each
       initialises its own instance of the thread-local (as the real
       thread_local! does: this is NOT a double initialisation in loom), and
       the log labels the entries by body, not by thread id.  Counterexample:
       tls_init_twice (computed: two LInitTls 0 1 entries, the run ends
       normally).  What is true, and proved:
         run_tls_count         #LInitTls k b = #threads with body b that have
                               initialised k (always; the invariant tl_inv)
         tls_init_le_threads   <= #threads running body b
         run_tls_count_thread  the requested per-thread form (1 if k is in
                               t_tls t, 0 otherwise) and
         tls_init_once         <= 1, both under
                               NoDup (map t_body (e_threads e)) for the FINAL
                               state e of the run (threads are only appended
                               and never change body, so this is: no MSpawn 0
                               and no body spawned twice during the run).
       tls_init_once_pos / lazy_init_once_pos are the positional readings of
       "at most once".
   T2  All run theorems are about [fst (run fuel (init_exec p pa))] for every
       fuel, i.e. also for the state carried by a panic (exec_micro_tstep /
       exec_micro_inv / step_inv are proved for res_exec, MOk and MFail
       alike; for MLazyGetY this needs getY_init_ok: the panicking branches of
       the initialiser, whose state already carries LInitLazy k, are
       unreachable).
   T3  lazy_init_once / lazy_init_once_pos / run_lazy_count hold for the keys
       k <> 2 only: the initialiser of lazy static 2 contains a scheduling
       point, loom runs initialisers outside the execution lock
       (Lazy::get: "the first thread to get there wins"), so two threads that
       both find the static unregistered both run it.  Counterexample for
       k = 2: lazy_yielding_init_runs_twice (computed: the only iteration of
       [[ISpawn 1; ILazyGet 2; IJoin 1]; [ILazyGet 2]] logs LInitLazy 2 twice,
       then LDropLazy 2 for the loser, both threads read 43, and the shutdown
       logs the second LDropLazy 2).  What is true for EVERY key, and proved:
         run_lazy_nodup = lazy_registered_once
                               a static is registered at most once per
                               execution (all threads get the same instance)
         run_lazy_balance      while the registry is alive,
                               #LInitLazy k = [k registered] + #LDropLazy k
                                              + #initialisers of k in flight
                               (pendf: MLazyFinishY k _ in a continuation)
         run_lazy_balance_shut after the shutdown, for k < 8 (the keys that
                               MLazyDrop logs): #LInitLazy k = #LDropLazy k
                               + in flight
         run_lazy_all_dropped  with all continuations empty, exactly as many
                               drops as initialisations: no value is leaked
                               and none is dropped twice.
       The restriction k <> 2 comes from expand_prog_ykeys: in a program made
       by Check.expand the only MLazyGetY is MLazyGetY 2; the general forms
       (lazy_count_plain, lazy_count_le1) are stated with
       ~ bmention k (e_bodies e).
   T4  lazy_none_stays is stated for res_exec (both outcomes);
       lazy_get_after_shutdown is stated for SyncMono.steps, covers the
       popped state on which Check.run executes the access, and covers the
       three accesses MLazyGet k, MLazyGetY k (PanicLazyShutdown, state
       unchanged) and MLazyFinishY k ci (PanicLazyShutdown, LDropLazy k
       logged: the value built by the thread is dropped by the unwinding).
   T5  lazy_get_acquires has the hypotheses NoDup (map fst lz) (true along
       runs: run_lazy_nodup / lazy_nodup_inv; without it [find] may return an
       earlier entry for the same key with another view) and
       me < length (e_threads e) (set_caus is the identity out of range, as
       for every acquire lemma of SyncFacts).  Added: lazy_init_publishes (the
       registered view contains the initialiser's clock), the registry only
       grows until shutdown (lazy_ext), and lazy_handover_global:
       initialisation happens-before every later successful access;
       lazy_finish_publishes / lazyY_handover_global: the same for the
       registration by the winner of a yielding initialiser.
   T6  Fresh-per-iteration is C17_fresh_every_iteration (not redone);
       init_exec_inv is the base case of the invariant. *)
