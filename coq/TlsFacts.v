(* TlsFacts: thread_local! / lazy_static! bookkeeping over whole runs.

   Contents
     0. the TLS/lazy "view" of a state: tsig (body and initialised keys of
        every thread), inits (the LInitTls / LInitLazy entries of the log),
        e_lazy; veq (same view)
     1. framing lemmas in continuation style for every helper of Ops.v and
        for schedule
     2. tstep e e': the five ways in which a micro-operation can change the
        view (nothing, spawn, first use of a thread-local, initialisation of a
        lazy static, shutdown of the registry); exec_micro_tstep: every
        micro-operation (successful or panicking) makes one such step
        ([destruct m; tl_tac], MSpawn / MSpawnW / MTlsWith / MLazyGet /
        MLazyDrop / MDropLocals by hand)
     3. the invariant tl_inv and its preservation: tstep_inv, exec_micro_inv,
        steps_inv, run_inv, init_exec_inv
     4. thread-locals: run_tls_nodup, run_tls_count, tls_init_le_threads,
        tls_init_once, tls_init_twice (the counterexample to the statement
        without side condition)
     5. lazy statics: run_lazy_nodup, lazy_init_once, lazy_none_stays,
        steps_lazy_none, lazy_get_after_shutdown, lazy_get_acquires,
        lazy_init_publishes, lazy_registry_grows, lazy_handover_global

   DEVIATIONS from the requested statements: see the end of the file. *)
Require Import LV.Base LV.VV LV.VVFacts LV.Path LV.PathSpec LV.PathApi LV.Prog LV.Objects
               LV.Exec LV.Atomic LV.Ops LV.Check LV.SyncFacts LV.ExecFacts LV.SyncMono.
From Coq Require Import List Arith Lia Bool.
Import ListNotations.

(* ================================================================== *)
(* 0. The view                                                         *)
(* ================================================================== *)

Definition bt (t : thread) : nat * list nat := (t_body t, t_tls t).
Definition tsig (e : exec) : list (nat * list nat) := map bt (e_threads e).

Definition is_init (l : logline) : bool :=
  match l with LInitTls _ _ | LInitLazy _ => true | _ => false end.
Definition inits (e : exec) : list logline := filter is_init (e_log e).

Definition veq (e0 e : exec) : Prop :=
  tsig e = tsig e0 /\ inits e = inits e0 /\ e_lazy e = e_lazy e0.

Lemma veq_refl e : veq e e.
Proof. repeat split. Qed.

Lemma veq_trans e0 e1 e2 : veq e0 e1 -> veq e1 e2 -> veq e0 e2.
Proof. intros (A1 & A2 & A3) (B1 & B2 & B3). repeat split; congruence. Qed.

Lemma veq_k e0 e e' : veq e e' -> veq e0 e -> veq e0 e'.
Proof. intros H1 H0. eapply veq_trans; eassumption. Qed.

(* ================================================================== *)
(* 1. Framing                                                          *)
(* ================================================================== *)

Lemma veq_same e e' :
  e_threads e' = e_threads e -> e_log e' = e_log e -> e_lazy e' = e_lazy e -> veq e e'.
Proof. intros Ht Hl Hz. unfold veq, tsig, inits. rewrite Ht, Hl, Hz. auto. Qed.

Lemma veq_same_k e0 e e' :
  e_threads e' = e_threads e -> e_log e' = e_log e -> e_lazy e' = e_lazy e ->
  veq e0 e -> veq e0 e'.
Proof. intros Ht Hl Hz. apply veq_k, veq_same; assumption. Qed.

Lemma map_list_set (A B : Type) (g : A -> B) (l : list A) i x :
  map g (list_set l i x) = list_set (map g l) i (g x).
Proof.
  revert i; induction l as [|h t IH]; intros [|i]; cbn [list_set map]; try reflexivity.
  rewrite IH. reflexivity.
Qed.

Lemma list_set_same (A : Type) (l : list A) i x : nth_error l i = Some x -> list_set l i x = l.
Proof.
  revert i; induction l as [|h t IH]; intros [|i] H; cbn [list_set nth_error] in *; try discriminate.
  - injection H as ->. reflexivity.
  - rewrite IH by exact H. reflexivity.
Qed.

Lemma map_bt_list_upd l i f : (forall t, bt (f t) = bt t) -> map bt (list_upd l i f) = map bt l.
Proof.
  intros Hf. unfold list_upd. destruct (nth_error l i) as [x|] eqn:Hx; [|reflexivity].
  rewrite map_list_set, Hf. apply list_set_same. rewrite nth_error_map, Hx. reflexivity.
Qed.

Lemma map_bt_mapi_from g : (forall id t, bt (g id t) = bt t) ->
  forall l k, map bt (mapi_from k g l) = map bt l.
Proof.
  intros Hg. induction l as [|h t IH]; intros k; cbn [mapi_from map]; [reflexivity|].
  rewrite Hg, IH. reflexivity.
Qed.

Lemma veq_set_threads e ths : map bt ths = map bt (e_threads e) -> veq e (ex_set_threads e ths).
Proof. intros H. unfold veq, tsig, inits. cbn [ex_set_threads e_threads e_log e_lazy]. auto. Qed.

Lemma veq_upd_thread_k e0 e i f :
  (forall t, bt (f t) = bt t) -> veq e0 e -> veq e0 (upd_thread e i f).
Proof. intros Hf. apply veq_k. apply veq_set_threads. apply map_bt_list_upd, Hf. Qed.

Lemma veq_mapi_k e0 e g :
  (forall id t, bt (g id t) = bt t) -> veq e0 e ->
  veq e0 (ex_set_threads e (mapi g (e_threads e))).
Proof. intros Hg. apply veq_k. apply veq_set_threads. apply map_bt_mapi_from, Hg. Qed.

Lemma veq_map_others_k e0 e me p f :
  (forall t, bt (f t) = bt t) -> veq e0 e -> veq e0 (map_others e me p f).
Proof.
  intros Hf. unfold map_others. apply veq_mapi_k. intros id t.
  destruct (negb (Nat.eqb id me) && p t); [apply Hf|reflexivity].
Qed.

Lemma filter_app_none (A : Type) (f : A -> bool) l l' :
  (forall x, In x l -> f x = false) -> filter f (l ++ l') = filter f l'.
Proof.
  induction l as [|h t IH]; intros H; cbn [app filter]; [reflexivity|].
  rewrite (H h (or_introl eq_refl)). apply IH. intros x Hx. apply H. right. exact Hx.
Qed.

Lemma veq_log_k e0 e l :
  (forall x, In x l -> is_init x = false) -> veq e0 e -> veq e0 (ex_set_log e (l ++ e_log e)).
Proof.
  intros Hl. apply veq_k. unfold veq, tsig, inits. cbn [ex_set_log e_threads e_log e_lazy].
  rewrite filter_app_none by exact Hl. auto.
Qed.

Lemma veq_log1_k e0 e x :
  is_init x = false -> veq e0 e -> veq e0 (ex_set_log e (x :: e_log e)).
Proof.
  intros Hx. apply (veq_log_k e0 e [x]). intros y [<-|[]]. exact Hx.
Qed.

Lemma veq_log_op_k e0 e me r : veq e0 e -> veq e0 (log_op e me r).
Proof.
  intros H. unfold log_op. destruct (get_thread e me); [|exact H]. apply veq_log1_k; [reflexivity|exact H].
Qed.

Lemma veq_log_poll_k e0 e me : veq e0 e -> veq e0 (log_poll e me).
Proof.
  intros H. unfold log_poll. destruct (get_thread e me); [|exact H]. apply veq_log1_k; [reflexivity|exact H].
Qed.

Ltac bt_tac :=
  intros; unfold bt, thread_notified, thread_unpark, set_unparked, set_runnable, set_blocked;
  repeat match goal with
         | |- context [if ?c then _ else _] => destruct c
         | |- context [match ?x with _ => _ end] => destruct x
         end; reflexivity.

Lemma veq_threads_unpark_k e0 e me id : veq e0 e -> veq e0 (threads_unpark e me id).
Proof.
  intros H. unfold threads_unpark. destruct (Nat.eqb id me); (apply veq_upd_thread_k; [bt_tac|exact H]).
Qed.

Lemma veq_fold_unpark_k me l : forall e0 e,
  veq e0 e -> veq e0 (fold_left (fun e t => threads_unpark e me t) l e).
Proof.
  induction l as [|x l IH]; intros e0 e H; cbn [fold_left]; [exact H|].
  apply IH, veq_threads_unpark_k, H.
Qed.

Lemma veq_sched_note_k e0 e nx pid th : veq e0 e -> veq e0 (sched_note e nx pid th).
Proof.
  intros H. unfold sched_note. destruct (t_op th) as [op|]; [|exact H].
  destruct (nth_error (e_objects e) (op_obj op)) as [o|]; [|exact H].
  cbv zeta. eapply veq_same_k; [reflexivity..|]. apply veq_upd_thread_k; [bt_tac|exact H].
Qed.

Lemma schedule_veq e : veq e (res_exec (fst (schedule e))).
Proof.
  destruct (schedule_cases e)
    as [(c & ->)|[(x & ->)|[(p1 & x & Hd & ->)|(curr & cur_th & p1 & p2 & next & Hp & ->)]]];
    cbn [fst res_exec]; try apply veq_refl.
  - apply veq_same; reflexivity.
  - assert (Hb : veq e (sched_base e p2 next)) by (apply veq_same; reflexivity).
    revert Hb. generalize (sched_base e p2 next). intros e1 Hb.
    unfold sched_post. destruct next as [nx|].
    + destruct (nth_error (e_threads e1) nx) as [th|]; cbn [fst res_exec]; [|exact Hb].
      unfold reactivate. apply veq_mapi_k; [bt_tac|]. apply veq_sched_note_k, Hb.
    + destruct (forallb is_terminated (e_threads e1)); cbn [fst res_exec]; exact Hb.
Qed.

Lemma schedule_veq_k e0 e : veq e0 e -> veq e0 (res_exec (fst (schedule e))).
Proof. apply veq_k, schedule_veq. Qed.

Lemma do_branch_veq_k e0 e me obj act blk :
  veq e0 e -> veq e0 (res_exec (do_branch e me obj act blk)).
Proof.
  intros H. unfold do_branch. apply schedule_veq_k. apply veq_upd_thread_k; [bt_tac|exact H].
Qed.

Lemma do_park_veq_k e0 e me : veq e0 e -> veq e0 (res_exec (do_park e me)).
Proof.
  intros H. unfold do_park. destruct (get_thread e me) as [t|]; [|exact H].
  destruct (t_token t); cbn [res_exec].
  - apply veq_upd_thread_k; [bt_tac|exact H].
  - apply schedule_veq_k. apply veq_upd_thread_k; [bt_tac|exact H].
Qed.

Lemma do_yield_veq_k e0 e me : veq e0 e -> veq e0 (res_exec (do_yield e me)).
Proof.
  intros H. unfold do_yield. apply schedule_veq_k. apply veq_upd_thread_k; [bt_tac|exact H].
Qed.

Lemma veq_upd_object_k e0 e i f : veq e0 e -> veq e0 (upd_object e i f).
Proof. apply veq_same_k; reflexivity. Qed.

Lemma veq_upd_hobj_k e0 e i f : veq e0 e -> veq e0 (upd_hobj e i f).
Proof. apply veq_same_k; reflexivity. Qed.

Lemma release_lock_veq_k e0 e me m : veq e0 e -> veq e0 (release_lock e me m).
Proof.
  intros H. unfold release_lock. destruct (get_mutex e m) as [s|]; [|exact H]. cbv zeta.
  destruct (e_active _).
  - apply veq_map_others_k; [bt_tac|]. apply veq_upd_object_k, veq_upd_object_k, H.
  - apply veq_upd_object_k, H.
Qed.

Lemma veq_set_caus_k e0 e me v : veq e0 e -> veq e0 (set_caus e me v).
Proof. intros H. apply veq_upd_thread_k; [bt_tac|exact H]. Qed.

Lemma post_acquire_veq e me m : veq e (fst (post_acquire e me m)).
Proof.
  unfold post_acquire. destruct (get_mutex e m) as [s|]; [|apply veq_refl].
  destruct (is_some (mx_lock s)); cbn [fst]; [apply veq_refl|].
  apply veq_map_others_k; [bt_tac|]. apply veq_set_caus_k, veq_upd_object_k, veq_refl.
Qed.

Lemma post_acquire_read_veq e me r : veq e (fst (post_acquire_read e me r)).
Proof.
  unfold post_acquire_read. destruct (get_rw e r) as [s|]; [|apply veq_refl].
  destruct (rw_lock s) as [[rs|x]|]; cbn [fst]; try apply veq_refl.
  all: apply veq_map_others_k; [bt_tac|]; apply veq_set_caus_k, veq_upd_object_k, veq_refl.
Qed.

Lemma post_acquire_write_veq e me r : veq e (fst (post_acquire_write e me r)).
Proof.
  unfold post_acquire_write. destruct (get_rw e r) as [s|]; [|apply veq_refl].
  destruct (rw_lock s) as [lk|]; cbn [fst]; try apply veq_refl.
  apply veq_map_others_k; [bt_tac|]; apply veq_set_caus_k, veq_upd_object_k, veq_refl.
Qed.

Lemma release_read_veq e me r : veq e (res_exec (release_read e me r)).
Proof.
  unfold release_read. destruct (get_rw e r) as [s|]; [|apply veq_refl]. cbv zeta.
  destruct (rw_lock s) as [[rs|x]|]; cbn [res_exec]; try apply veq_refl.
  destruct (set_remove me rs); cbn [res_exec].
  - apply veq_map_others_k; [bt_tac|]. apply veq_upd_object_k, veq_refl.
  - apply veq_upd_object_k, veq_refl.
Qed.

Lemma release_write_veq e me r : veq e (res_exec (release_write e me r)).
Proof.
  unfold release_write. destruct (get_rw e r) as [s|]; [|apply veq_refl]. cbn [res_exec].
  apply veq_map_others_k; [bt_tac|]. apply veq_upd_object_k, veq_refl.
Qed.

Lemma choose_store_veq e seed : veq e (fst (choose_store e seed)).
Proof.
  unfold choose_store.
  repeat match goal with
         | |- context [match ?x with _ => _ end] =>
             lazymatch x with
             | context [match _ with _ => _ end] => fail
             | _ => destruct x
             end
         end; cbn [fst]; first [apply veq_refl|apply veq_same; reflexivity].
Qed.

(* ================================================================== *)
(* 2. One micro-operation                                              *)
(* ================================================================== *)

Ltac vclose_step :=
  match goal with
  | |- veq ?e ?e => apply veq_refl
  | H : veq ?E ?x |- veq _ ?x => apply (veq_trans _ E x); [|exact H]
  | |- veq _ (log_op _ _ _) => apply veq_log_op_k
  | |- veq _ (log_poll _ _) => apply veq_log_poll_k
  | |- veq _ (release_lock _ _ _) => apply release_lock_veq_k
  | |- veq _ (threads_unpark _ _ _) => apply veq_threads_unpark_k
  | |- veq _ (fold_left _ _ _) => apply veq_fold_unpark_k
  | |- veq _ (map_others _ _ _ _) => apply veq_map_others_k; [bt_tac|]
  | |- veq _ (set_caus _ _ _) => apply veq_set_caus_k
  | |- veq _ (push_cont _ _ _) => apply veq_upd_thread_k; [bt_tac|]
  | |- veq _ (push_guard _ _ _ _) => apply veq_upd_thread_k; [bt_tac|]
  | |- veq _ (drop_guard _ _ _ _) => apply veq_upd_thread_k; [bt_tac|]
  | |- veq _ (causality_inc _ _) => apply veq_upd_thread_k; [bt_tac|]
  | |- veq _ (upd_thread _ _ _) => apply veq_upd_thread_k; [bt_tac|]
  | |- veq _ (upd_object _ _ _) => apply veq_upd_object_k
  | |- veq _ (upd_hobj _ _ _) => apply veq_upd_hobj_k
  | |- veq _ (set_slot _ _ _ _) => apply veq_upd_hobj_k
  | |- veq _ (ex_set_log ?e (_ :: e_log ?e)) => apply veq_log1_k; [reflexivity|]
  | |- veq _ (ex_set_path ?e _) => apply (veq_same_k _ e); [reflexivity..|]
  | |- veq _ (ex_set_active ?e _) => apply (veq_same_k _ e); [reflexivity..|]
  | |- veq _ (ex_set_seqcst ?e _) => apply (veq_same_k _ e); [reflexivity..|]
  | |- veq _ (ex_set_spawned ?e _) => apply (veq_same_k _ e); [reflexivity..|]
  | |- veq _ (ex_set_joined ?e _) => apply (veq_same_k _ e); [reflexivity..|]
  | |- veq _ (ex_set_objects ?e _) => apply (veq_same_k _ e); [reflexivity..|]
  | |- veq _ (ex_set_h ?e _) => apply (veq_same_k _ e); [reflexivity..|]
  end.

Ltac vclose := cbn [res_exec lp_exec]; repeat vclose_step.

Ltac vstep :=
  match goal with
  | |- veq _ (res_exec (fst (schedule _))) => apply schedule_veq_k
  | |- veq _ (res_exec (do_branch _ _ _ _ _)) => apply do_branch_veq_k
  | |- veq _ (res_exec (do_park _ _)) => apply do_park_veq_k
  | |- veq _ (res_exec (do_yield _ _)) => apply do_yield_veq_k
  | |- context [post_acquire ?e ?me ?m] =>
      let H := fresh "Hfr" in
      pose proof (post_acquire_veq e me m) as H;
      destruct (post_acquire e me m); cbn [fst] in H
  | |- context [post_acquire_read ?e ?me ?m] =>
      let H := fresh "Hfr" in
      pose proof (post_acquire_read_veq e me m) as H;
      destruct (post_acquire_read e me m); cbn [fst] in H
  | |- context [post_acquire_write ?e ?me ?m] =>
      let H := fresh "Hfr" in
      pose proof (post_acquire_write_veq e me m) as H;
      destruct (post_acquire_write e me m); cbn [fst] in H
  | |- context [release_read ?e ?me ?m] =>
      let H := fresh "Hfr" in
      pose proof (release_read_veq e me m) as H;
      destruct (release_read e me m); cbn [res_exec] in H
  | |- context [release_write ?e ?me ?m] =>
      let H := fresh "Hfr" in
      pose proof (release_write_veq e me m) as H;
      destruct (release_write e me m); cbn [res_exec] in H
  | |- context [choose_store ?e ?s] =>
      let H := fresh "Hfr" in
      pose proof (choose_store_veq e s) as H;
      destruct (choose_store e s) as [? [?|?]]; cbn [fst] in H
  | |- context [match ?x with _ => _ end] =>
      lazymatch x with
      | context [match _ with _ => _ end] => fail
      | _ => destruct x eqn:?
      end
  end; cbv beta iota.

Lemma load_post_veq e me a o : veq e (lp_exec (load_post e me a o)).
Proof. unfold load_post. repeat vstep. all: vclose. Qed.

Ltac vstep' :=
  first [ match goal with
          | |- context [load_post ?e ?me ?a ?o] =>
              let H := fresh "Hfr" in
              pose proof (load_post_veq e me a o) as H;
              destruct (load_post e me a o) as [[? ?]|[? ?]]; cbn [lp_exec] in H; cbv beta iota
          end
        | vstep ].

Ltac tl_tac :=
  cbn [exec_micro]; unfold lift_path, mbind; cbv beta iota;
  repeat vstep'; vclose.

(* the micro-operations that do not touch the view *)
Definition view_neutral (m : micro) : Prop :=
  match m with
  | MSpawn _ | MSpawnW _ _ _ | MTlsWith _ | MLazyGet _ | MLazyDrop => False
  | _ => True
  end.

Lemma in_rev_map_not_init (A : Type) (g : A -> logline) l :
  (forall a, is_init (g a) = false) -> forall x, In x (rev (map g l)) -> is_init x = false.
Proof.
  intros Hg x Hx. apply in_rev in Hx. apply in_map_iff in Hx. destruct Hx as (a & <- & _). apply Hg.
Qed.

Lemma exec_micro_veq e me m : view_neutral m -> veq e (res_exec (exec_micro e me m)).
Proof.
  intros Hm.
  destruct m; cbn [view_neutral] in Hm; try contradiction;
    try match goal with
        | |- veq _ (res_exec (exec_micro _ _ MDropLocals)) => idtac
        | |- _ => clear Hm; tl_tac
        end.
  (* MDropLocals *)
  cbn [exec_micro]. destruct (get_thread e me) as [th|]; cbn [res_exec]; [|apply veq_refl].
  cbv zeta. destruct (existsb (Nat.eqb 2) (t_tls th) && negb (existsb (Nat.eqb 0) (t_tls th)));
    cbn [res_exec]; [apply veq_refl|].
  apply veq_log_k; [|apply veq_refl].
  intros x Hx. apply in_rev in Hx. apply in_flat_map in Hx. destruct Hx as (k & _ & Hx).
  apply in_app_or in Hx. destruct Hx as [Hx|[<-|[]]]; [|reflexivity].
  destruct (Nat.eqb k 2); [destruct Hx as [<-|[]]; reflexivity|destruct Hx].
Qed.

(* ---- the view-changing steps ---- *)
Inductive tstep (e e' : exec) : Prop :=
  | ts_same : veq e e' -> tstep e e'
  | ts_spawn b :
      tsig e' = tsig e ++ [(b, [])] -> inits e' = inits e -> e_lazy e' = e_lazy e -> tstep e e'
  | ts_tls i b l k :
      nth_error (tsig e) i = Some (b, l) -> ~ In k l ->
      tsig e' = list_set (tsig e) i (b, l ++ [k]) ->
      inits e' = LInitTls k b :: inits e -> e_lazy e' = e_lazy e -> tstep e e'
  | ts_lazy lz k x :
      e_lazy e = Some lz -> ~ In k (map fst lz) -> e_lazy e' = Some (lz ++ [(k, x)]) ->
      inits e' = LInitLazy k :: inits e -> tsig e' = tsig e -> tstep e e'
  | ts_drop :
      e_lazy e' = None -> inits e' = inits e -> tsig e' = tsig e -> tstep e e'.

Lemma tstep_veq_r e e1 e' : tstep e e1 -> veq e1 e' -> tstep e e'.
Proof.
  intros H (V1 & V2 & V3). destruct H as [Hv|b H1 H2 H3|i b l k H1 H2 H3 H4 H5|lz k x H1 H2 H3 H4 H5|H1 H2 H3].
  - apply ts_same. eapply veq_trans; [exact Hv|]. repeat split; assumption.
  - apply ts_spawn with (b := b); congruence.
  - apply ts_tls with (i := i) (b := b) (l := l) (k := k); try assumption; congruence.
  - apply ts_lazy with (lz := lz) (k := k) (x := x); try assumption; congruence.
  - apply ts_drop; congruence.
Qed.

Lemma tstep_veq_l e e1 e' : veq e e1 -> tstep e1 e' -> tstep e e'.
Proof.
  intros (V1 & V2 & V3) H.
  destruct H as [Hv|b H1 H2 H3|i b l k H1 H2 H3 H4 H5|lz k x H1 H2 H3 H4 H5|H1 H2 H3].
  - apply ts_same. eapply veq_trans; [|exact Hv]. repeat split; assumption.
  - apply ts_spawn with (b := b); congruence.
  - eapply ts_tls with (i := i) (b := b) (l := l) (k := k); try assumption; congruence.
  - eapply ts_lazy with (lz := lz) (k := k) (x := x); try assumption; congruence.
  - apply ts_drop; congruence.
Qed.

Lemma existsb_eqb_false k l : existsb (Nat.eqb k) l = false -> ~ In k l.
Proof.
  intros H Hin. assert (Ht : existsb (Nat.eqb k) l = true).
  { apply existsb_exists. exists k. split; [exact Hin|apply Nat.eqb_refl]. }
  congruence.
Qed.

Lemma existsb_eqb_true k l : existsb (Nat.eqb k) l = true -> In k l.
Proof.
  intros H. apply existsb_exists in H. destruct H as (x & Hx & He).
  apply Nat.eqb_eq in He. subst x. exact Hx.
Qed.

Lemma find_key_none (B : Type) k (lz : list (nat * B)) :
  find (fun x => Nat.eqb (fst x) k) lz = None -> ~ In k (map fst lz).
Proof.
  intros H Hin. apply in_map_iff in Hin. destruct Hin as (x & Hx & Hin).
  pose proof (find_none _ _ H x Hin) as Hf. cbv beta in Hf. rewrite Hx, Nat.eqb_refl in Hf. discriminate.
Qed.

(* MSpawn *)
Lemma spawn_tstep e me b : tstep e (res_exec (exec_micro e me (MSpawn b))).
Proof.
  cbn [exec_micro]. cbv zeta.
  match goal with |- context [ex_set_objects e ?l] => set (e0 := ex_set_objects e l) end.
  assert (H0 : veq e e0) by (apply veq_same; reflexivity).
  destruct (negb (Nat.ltb (length (e_threads e0)) (e_max_threads e0))); cbn [res_exec].
  - apply ts_same, H0.
  - match goal with |- context [ex_set_threads e0 (e_threads e0 ++ [?t])] =>
      set (nt := t); set (e1 := ex_set_threads e0 (e_threads e0 ++ [nt])) end.
    eapply tstep_veq_r with (e1 := e1).
    + apply ts_spawn with (b := b); try reflexivity.
      unfold e1, tsig. cbn [ex_set_threads e_threads]. rewrite map_app. reflexivity.
    + vclose.
Qed.

(* MSpawnW: the spawn from inside a poll; same step *)
Lemma spawnw_tstep e me b n k : tstep e (res_exec (exec_micro e me (MSpawnW b n k))).
Proof.
  cbn [exec_micro]. cbv zeta.
  match goal with |- context [ex_set_objects e ?l] => set (e0 := ex_set_objects e l) end.
  assert (H0 : veq e e0) by (apply veq_same; reflexivity).
  destruct (negb (Nat.ltb (length (e_threads e0)) (e_max_threads e0))); cbn [res_exec].
  - apply ts_same, H0.
  - match goal with |- context [ex_set_threads e0 (e_threads e0 ++ [?t])] =>
      set (nt := t); set (e1 := ex_set_threads e0 (e_threads e0 ++ [nt])) end.
    eapply tstep_veq_r with (e1 := e1).
    + apply ts_spawn with (b := b); try reflexivity.
      unfold e1, tsig. cbn [ex_set_threads e_threads]. rewrite map_app. reflexivity.
    + vclose.
Qed.

(* MTlsWith *)
Lemma tls_with_tstep e me k : tstep e (res_exec (exec_micro e me (MTlsWith k))).
Proof.
  cbn [exec_micro]. destruct (get_thread e me) as [t|] eqn:Ht; cbn [res_exec]; [|apply ts_same, veq_refl].
  destruct (existsb (Nat.eqb k) (t_tls t)) eqn:Hk; cbn [res_exec].
  - apply ts_same. vclose.
  - match goal with |- tstep _ (log_op ?E _ _) => eapply tstep_veq_r with (e1 := E); [|vclose] end.
    apply ts_tls with (i := me) (b := t_body t) (l := t_tls t) (k := k).
    + unfold tsig. rewrite nth_error_map. unfold get_thread in Ht. rewrite Ht. reflexivity.
    + apply existsb_eqb_false, Hk.
    + unfold tsig, upd_thread. cbn [ex_set_threads ex_set_log e_threads].
      unfold list_upd. unfold get_thread in Ht. rewrite Ht. rewrite map_list_set. reflexivity.
    + reflexivity.
    + reflexivity.
Qed.

(* MLazyDrop *)
Lemma lazy_drop_tstep e me : tstep e (res_exec (exec_micro e me MLazyDrop)).
Proof.
  cbn [exec_micro]. destruct (e_lazy e) as [lz|] eqn:Hl; cbn [res_exec]; [|apply ts_same, veq_refl].
  apply ts_drop; try reflexivity.
  unfold inits. cbn [ex_set_lazy ex_set_log e_log].
  apply filter_app_none. apply in_rev_map_not_init. reflexivity.
Qed.

(* MLazyGet: the tail after the registry lookup (the read of the cell) *)
Definition lazy_tail (e : exec) (me ci k : nat) : mres :=
  let e := causality_inc e me in
  match get_cell e ci with
  | None => MFail e (PanicModel 25)
  | Some s =>
      if ce_writing s then MFail e PanicCellWriting
      else match cell_track_read s (caus_of e me) with
           | inr p => MFail e p
           | inl s1 =>
               match cell_track_read s1 (caus_of e me) with
               | inr p => MFail e p
               | inl s2 => MOk (log_op (upd_object e ci (fun _ => OCell s2)) me (RVal (N.of_nat (41 + k))))
               end
           end
  end.

Lemma lazy_tail_veq e me ci k : veq e (res_exec (lazy_tail e me ci k)).
Proof. unfold lazy_tail. cbv zeta. repeat vstep. all: vclose. Qed.

(* the registry lookup / initialisation *)
Definition lazy_lookup (e : exec) (me k : nat) (lz : list (nat * (nat * vv))) : (exec * nat) + panic :=
  match find (fun x => Nat.eqb (fst x) k) lz with
  | Some (_, (ci, sy)) => inl (set_caus e me (sync_load (caus_of e me) sy Acquire), ci)
  | None =>
      let e := ex_set_log e (LInitLazy k :: e_log e) in
      let ci := length (e_objects e) in
      let e := ex_set_objects e (e_objects e ++ [OCell (cell_new (caus_of e me))]) in
      let e := causality_inc e me in
      match get_cell e ci with
      | None => inr (PanicModel 25)
      | Some s =>
          match cell_track_write s (caus_of e me) with
          | inr p => inr p
          | inl s1 =>
              match cell_track_write s1 (caus_of e me) with
              | inr p => inr p
              | inl s2 =>
                  let e := upd_object e ci (fun _ => OCell s2) in
                  let sy := sync_store vv_new (caus_of e me) (rel_of e me) AcqRel in
                  let e := ex_set_lazy e (Some (lz ++ [(k, (ci, sy))])) in
                  inl (set_caus e me (sync_load (caus_of e me) sy Acquire), ci)
              end
          end
      end
  end.

Lemma exec_micro_lazy_get e me k :
  exec_micro e me (MLazyGet k) =
  match e_lazy e with
  | None => MFail e PanicLazyShutdown
  | Some lz =>
      match lazy_lookup e me k lz with
      | inr p => MFail e p
      | inl (e1, ci) => lazy_tail e1 me ci k
      end
  end.
Proof. reflexivity. Qed.

Lemma lazy_lookup_tstep e me k lz e1 ci :
  e_lazy e = Some lz -> lazy_lookup e me k lz = inl (e1, ci) ->
  (exists sy, find (fun x => Nat.eqb (fst x) k) lz = Some (k, (ci, sy)) /\
              e1 = set_caus e me (sync_load (caus_of e me) sy Acquire)) \/
  (find (fun x => Nat.eqb (fst x) k) lz = None /\
   exists sy, e_lazy e1 = Some (lz ++ [(k, (ci, sy))]) /\
              inits e1 = LInitLazy k :: inits e /\ tsig e1 = tsig e).
Proof.
  intros Hl H. unfold lazy_lookup in H.
  destruct (find (fun x => Nat.eqb (fst x) k) lz) as [[k' [ci' sy]]|] eqn:Hf.
  - left. injection H as <- <-. exists sy. split; [|reflexivity].
    apply find_some in Hf. destruct Hf as [_ Hk]. cbn [fst] in Hk. apply Nat.eqb_eq in Hk. subst k'.
    reflexivity.
  - right. split; [reflexivity|]. cbv zeta in H.
    repeat match type of H with
           | match ?x with _ => _ end = _ => destruct x eqn:?; try discriminate H
           end.
    injection H as <- <-. eexists. split; [reflexivity|]. split.
    + unfold inits. reflexivity.
    + unfold tsig. cbn [set_caus upd_thread ex_set_threads ex_set_lazy upd_object ex_set_objects
                          causality_inc ex_set_log e_threads].
      rewrite !map_bt_list_upd by bt_tac. reflexivity.
Qed.

Lemma lazy_get_tstep e me k : tstep e (res_exec (exec_micro e me (MLazyGet k))).
Proof.
  rewrite exec_micro_lazy_get. destruct (e_lazy e) as [lz|] eqn:Hl; cbn [res_exec]; [|apply ts_same, veq_refl].
  destruct (lazy_lookup e me k lz) as [[e1 ci]|p] eqn:Hlk; cbn [res_exec]; [|apply ts_same, veq_refl].
  eapply tstep_veq_r; [|apply lazy_tail_veq].
  destruct (lazy_lookup_tstep e me k lz e1 ci Hl Hlk) as [(sy & _ & ->)|(Hf & sy & H1 & H2 & H3)].
  - apply ts_same. vclose.
  - eapply ts_lazy; try eassumption. apply find_key_none, Hf.
Qed.

Theorem exec_micro_tstep e me m : tstep e (res_exec (exec_micro e me m)).
Proof.
  destruct m; try (apply ts_same, exec_micro_veq; exact I);
    first [ apply spawn_tstep | apply spawnw_tstep | apply tls_with_tstep
          | apply lazy_get_tstep | apply lazy_drop_tstep ].
Qed.

(* ================================================================== *)
(* 3. The invariant                                                    *)
(* ================================================================== *)

Definition is_tls (k b : nat) (x : logline) : bool :=
  match x with LInitTls k' b' => Nat.eqb k' k && Nat.eqb b' b | _ => false end.
Definition is_lazy (k : nat) (x : logline) : bool :=
  match x with LInitLazy k' => Nat.eqb k' k | _ => false end.

(* number of LInitTls k b (resp. LInitLazy k) entries of a log *)
Definition cnt_tls (k b : nat) (l : list logline) : nat := length (filter (is_tls k b) l).
Definition cnt_lazy (k : nat) (l : list logline) : nat := length (filter (is_lazy k) l).

(* thread entry (body, keys) counts for (k, b) *)
Definition hit (k b : nat) (x : nat * list nat) : bool :=
  Nat.eqb (fst x) b && existsb (Nat.eqb k) (snd x).

Definition lazy_inv (lzo : option (list (nat * (nat * vv)))) (l : list logline) : Prop :=
  match lzo with
  | Some lz => NoDup (map fst lz) /\
               forall k, cnt_lazy k l = if existsb (Nat.eqb k) (map fst lz) then 1 else 0
  | None => forall k, cnt_lazy k l <= 1
  end.

Definition tl_inv (e : exec) : Prop :=
  Forall (fun x => NoDup (snd x)) (tsig e) /\
  (forall k b, cnt_tls k b (inits e) = length (filter (hit k b) (tsig e))) /\
  lazy_inv (e_lazy e) (inits e).

Lemma filter_filter_imp (A : Type) (f g : A -> bool) l :
  (forall x, f x = true -> g x = true) -> filter f (filter g l) = filter f l.
Proof.
  intros H. induction l as [|h t IH]; cbn [filter]; [reflexivity|].
  destruct (g h) eqn:Hg; cbn [filter].
  - rewrite IH. reflexivity.
  - destruct (f h) eqn:Hf; [rewrite (H h Hf) in Hg; discriminate|exact IH].
Qed.

Lemma cnt_tls_inits k b e : cnt_tls k b (inits e) = cnt_tls k b (e_log e).
Proof.
  unfold cnt_tls, inits. rewrite filter_filter_imp; [reflexivity|].
  intros [] H; cbn in *; congruence.
Qed.

Lemma cnt_lazy_inits k e : cnt_lazy k (inits e) = cnt_lazy k (e_log e).
Proof.
  unfold cnt_lazy, inits. rewrite filter_filter_imp; [reflexivity|].
  intros [] H; cbn in *; congruence.
Qed.

Lemma veq_inv e e' : veq e e' -> tl_inv e -> tl_inv e'.
Proof. intros (V1 & V2 & V3). unfold tl_inv. rewrite V1, V2, V3. auto. Qed.

Lemma filter_length_list_set (A : Type) (f : A -> bool) l i x y :
  nth_error l i = Some x ->
  length (filter f (list_set l i y)) + (if f x then 1 else 0) =
  length (filter f l) + (if f y then 1 else 0).
Proof.
  revert i; induction l as [|h t IH]; intros [|i] H; cbn [nth_error list_set filter] in *; try discriminate.
  - injection H as ->. destruct (f x), (f y); cbn [length]; lia.
  - specialize (IH i H). destruct (f h); cbn [length]; lia.
Qed.

Lemma Forall_list_set (A : Type) (P : A -> Prop) l i y :
  Forall P l -> P y -> Forall P (list_set l i y).
Proof.
  intros Hl Hy. revert i; induction Hl as [|h t Hh Ht IH]; intros [|i]; cbn [list_set]; auto.
Qed.

Lemma NoDup_snoc (A : Type) (l : list A) x : NoDup l -> ~ In x l -> NoDup (l ++ [x]).
Proof.
  intros Hl Hx. apply NoDup_rev in Hl. rewrite <- (rev_involutive (l ++ [x])).
  apply NoDup_rev. rewrite rev_app_distr. cbn [rev app]. constructor; [|exact Hl].
  rewrite <- in_rev. exact Hx.
Qed.

Lemma existsb_snoc k l x : existsb (Nat.eqb k) (l ++ [x]) = existsb (Nat.eqb k) l || Nat.eqb k x.
Proof. rewrite existsb_app. cbn [existsb]. rewrite orb_false_r. reflexivity. Qed.

Lemma tstep_inv e e' : tstep e e' -> tl_inv e -> tl_inv e'.
Proof.
  intros H (I1 & I2 & I3).
  destruct H as [Hv|b H1 H2 H3|i b l k H1 H2 H3 H4 H5|lz k x H1 H2 H3 H4 H5|H1 H2 H3].
  - apply (veq_inv e e' Hv). repeat split; assumption.
  - unfold tl_inv. rewrite H1, H2, H3. split; [|split; [|exact I3]].
    + apply Forall_app. split; [exact I1|]. constructor; [constructor|constructor].
    + intros k b'. rewrite filter_app, app_length, I2. cbn [filter hit fst snd existsb].
      unfold hit. cbn [fst snd existsb]. rewrite andb_false_r. cbn [length]. lia.
  - unfold tl_inv. rewrite H3, H4, H5. split; [|split; [|exact I3]].
    + apply Forall_list_set; [exact I1|]. cbn [snd]. apply NoDup_snoc; [|exact H2].
      rewrite Forall_forall in I1. exact (I1 _ (nth_error_In _ _ H1)).
    + intros k' b'. pose proof (filter_length_list_set _ (hit k' b') _ i (b, l) (b, l ++ [k]) H1) as Hc.
      specialize (I2 k' b'). unfold cnt_tls in *. cbn [filter is_tls].
      assert (Hx : hit k' b' (b, l) = Nat.eqb b b' && existsb (Nat.eqb k') l) by reflexivity.
      assert (Hy : hit k' b' (b, l ++ [k]) = Nat.eqb b b' && (existsb (Nat.eqb k') l || Nat.eqb k' k))
        by (unfold hit; cbn [fst snd]; rewrite existsb_snoc; reflexivity).
      rewrite Hx, Hy in Hc. clear Hx Hy.
      destruct (Nat.eqb_spec b b') as [->|Hb]; cbn [andb] in Hc.
      * rewrite andb_true_r.
        destruct (existsb (Nat.eqb k') l) eqn:Hex; cbn [orb] in Hc.
        -- destruct (Nat.eqb_spec k k') as [->|Hk].
           ++ apply existsb_eqb_true in Hex. contradiction.
           ++ lia.
        -- rewrite (Nat.eqb_sym k k'). destruct (Nat.eqb k' k); cbn [length]; lia.
      * rewrite andb_false_r. lia.
  - unfold tl_inv. rewrite H3, H4, H5. split; [exact I1|]. split.
    + intros k' b'. unfold cnt_tls in *. cbn [filter is_tls]. apply I2.
    + rewrite H1 in I3. destruct I3 as [Hnd Hc]. cbn [lazy_inv]. split.
      * rewrite map_app. cbn [map fst]. apply NoDup_snoc; assumption.
      * intros k'. specialize (Hc k'). unfold cnt_lazy in *. cbn [filter is_lazy].
        rewrite map_app. cbn [map fst]. rewrite existsb_snoc.
        destruct (existsb (Nat.eqb k') (map fst lz)) eqn:Hex; cbn [orb].
        -- destruct (Nat.eqb_spec k k') as [->|Hk]; [|exact Hc].
           apply existsb_eqb_true in Hex. contradiction.
        -- rewrite (Nat.eqb_sym k k'). destruct (Nat.eqb k' k); cbn [length]; lia.
  - unfold tl_inv. rewrite H1, H2, H3. split; [exact I1|]. split; [exact I2|].
    cbn [lazy_inv]. intros k. destruct (e_lazy e) as [lz|]; cbn [lazy_inv] in I3.
    + destruct I3 as [_ Hc]. rewrite Hc. destruct (existsb _ _); lia.
    + apply I3.
Qed.

Theorem exec_micro_inv e me m : tl_inv e -> tl_inv (res_exec (exec_micro e me m)).
Proof. apply tstep_inv, exec_micro_tstep. Qed.

Lemma pop_veq e me rest : veq e (upd_thread e me (fun t => th_set_cont t rest)).
Proof. apply veq_upd_thread_k; [bt_tac|apply veq_refl]. Qed.

Theorem steps_inv e e' : steps e e' -> tl_inv e -> tl_inv e'.
Proof.
  intros H. induction H as [e|e me t m rest e1 e2 Ha Ht Hc Hx Hs IH]; intros Hi; [exact Hi|].
  apply IH. pose proof (exec_micro_inv (upd_thread e me (fun t => th_set_cont t rest)) me m) as Hm.
  rewrite Hx in Hm. apply Hm. eapply veq_inv; [apply pop_veq|exact Hi].
Qed.

Theorem run_inv : forall fuel e, tl_inv e -> tl_inv (fst (run fuel e)).
Proof.
  induction fuel as [|fuel IH]; intros e Hi; cbn [run]; [exact Hi|].
  destruct (e_active e) as [me|]; [|exact Hi].
  destruct (nth_error (e_threads e) me) as [t|]; [|exact Hi].
  destruct (t_cont t) as [|m rest]; [exact Hi|].
  pose proof (exec_micro_inv (upd_thread e me (fun t => th_set_cont t rest)) me m
                (veq_inv _ _ (pop_veq e me rest) Hi)) as Hm.
  destruct (exec_micro _ me m) as [e2|e2 pn]; cbn [res_exec fst] in *; [apply IH|]; exact Hm.
Qed.

Lemma init_exec_inv p pa : tl_inv (init_exec p pa).
Proof.
  unfold tl_inv, tsig, inits, init_exec. cbn [e_threads e_log e_lazy map filter lazy_inv].
  split; [repeat constructor|]. split.
  - intros k b. unfold cnt_tls, hit, bt. cbn. rewrite andb_false_r. reflexivity.
  - split; [constructor|]. intros k. reflexivity.
Qed.

Corollary run_init_inv fuel p pa : tl_inv (fst (run fuel (init_exec p pa))).
Proof. apply run_inv, init_exec_inv. Qed.

(* ================================================================== *)
(* 4. Thread-locals                                                    *)
(* ================================================================== *)

Lemma filter_map_length (A B : Type) (g : A -> B) (f : B -> bool) l :
  length (filter f (map g l)) = length (filter (fun x => f (g x)) l).
Proof.
  induction l as [|h t IH]; cbn [map filter]; [reflexivity|].
  destruct (f (g h)); cbn [length]; rewrite IH; reflexivity.
Qed.

Lemma filter_length_imp (A : Type) (f g : A -> bool) l :
  (forall x, f x = true -> g x = true) -> length (filter f l) <= length (filter g l).
Proof.
  intros H. induction l as [|h t IH]; cbn [filter]; [apply Nat.le_refl|].
  destruct (f h) eqn:Hf.
  - rewrite (H h Hf). cbn [length]. lia.
  - destruct (g h); cbn [length]; lia.
Qed.

Lemma filter_key_none (B : Type) (q : nat * B -> bool) b (l : list (nat * B)) :
  ~ In b (map fst l) -> filter (fun y => Nat.eqb (fst y) b && q y) l = [].
Proof.
  induction l as [|h t IH]; intros Hn; cbn [filter]; [reflexivity|].
  cbn [map] in Hn. destruct (Nat.eqb_spec (fst h) b) as [He|He]; [destruct Hn; left; exact He|].
  cbn [andb]. apply IH. intros Hin. apply Hn. right. exact Hin.
Qed.

Lemma filter_key_le1 (B : Type) (q : nat * B -> bool) b (l : list (nat * B)) :
  NoDup (map fst l) -> length (filter (fun y => Nat.eqb (fst y) b && q y) l) <= 1.
Proof.
  induction l as [|h t IH]; intros Hnd; cbn [filter]; [cbn; lia|].
  cbn [map] in Hnd. inversion Hnd as [|x xs Hx Hnd']; subst.
  destruct (Nat.eqb_spec (fst h) b) as [He|He]; cbn [andb]; [|auto].
  subst b. rewrite (filter_key_none _ q (fst h) t Hx). destruct (q h); cbn; lia.
Qed.

Lemma filter_key_exact (B : Type) (q : nat * B -> bool) (x : nat * B) (l : list (nat * B)) :
  NoDup (map fst l) -> In x l ->
  length (filter (fun y => Nat.eqb (fst y) (fst x) && q y) l) = if q x then 1 else 0.
Proof.
  induction l as [|h t IH]; intros Hnd Hin; [destruct Hin|]. cbn [filter].
  cbn [map] in Hnd. inversion Hnd as [|y ys Hy Hnd']; subst. destruct Hin as [->|Hin].
  - rewrite Nat.eqb_refl. cbn [andb]. rewrite (filter_key_none _ q (fst x) t Hy).
    destruct (q x); reflexivity.
  - destruct (Nat.eqb_spec (fst h) (fst x)) as [He|He]; cbn [andb]; [|auto].
    destruct Hy. rewrite He. apply in_map. exact Hin.
Qed.

Lemma map_fst_tsig e : map fst (tsig e) = map t_body (e_threads e).
Proof. unfold tsig. rewrite map_map. reflexivity. Qed.

(* B.1: along every run, every thread's list of initialised keys is duplicate
   free ... *)
Theorem run_tls_nodup fuel p pa t :
  In t (e_threads (fst (run fuel (init_exec p pa)))) -> NoDup (t_tls t).
Proof.
  intros Hin. destruct (run_init_inv fuel p pa) as (I1 & _).
  rewrite Forall_forall in I1. apply (I1 (bt t)). unfold tsig. apply in_map. exact Hin.
Qed.

(* ... and the number of LInitTls k b entries of the log is the number of
   threads running body b that have initialised key k *)
Theorem run_tls_count fuel p pa k b :
  cnt_tls k b (e_log (fst (run fuel (init_exec p pa)))) =
  length (filter (fun t => Nat.eqb (t_body t) b && existsb (Nat.eqb k) (t_tls t))
                 (e_threads (fst (run fuel (init_exec p pa))))).
Proof.
  destruct (run_init_inv fuel p pa) as (_ & I2 & _).
  rewrite <- cnt_tls_inits, I2. unfold tsig. rewrite filter_map_length. reflexivity.
Qed.

(* hence at most one entry per thread running body b *)
Theorem tls_init_le_threads fuel p pa k b :
  cnt_tls k b (e_log (fst (run fuel (init_exec p pa)))) <=
  length (filter (fun t => Nat.eqb (t_body t) b) (e_threads (fst (run fuel (init_exec p pa))))).
Proof.
  rewrite run_tls_count. apply filter_length_imp. intros t H. apply andb_prop in H. exact (proj1 H).
Qed.

(* the requested per-thread form, when distinct threads run distinct bodies *)
Theorem run_tls_count_thread fuel p pa k t :
  let e := fst (run fuel (init_exec p pa)) in
  NoDup (map t_body (e_threads e)) -> In t (e_threads e) ->
  cnt_tls k (t_body t) (e_log e) = if existsb (Nat.eqb k) (t_tls t) then 1 else 0.
Proof.
  cbv zeta. intros Hnd Hin. destruct (run_init_inv fuel p pa) as (_ & I2 & _).
  rewrite <- cnt_tls_inits, I2. rewrite <- map_fst_tsig in Hnd.
  assert (Hb : In (bt t) (tsig (fst (run fuel (init_exec p pa))))) by (unfold tsig; apply in_map; exact Hin).
  exact (filter_key_exact _ (fun y => existsb (Nat.eqb k) (snd y)) (bt t) _ Hnd Hb).
Qed.

(* tls_init_once: at most one LInitTls k b in the log of a run in which no
   body is run by two threads *)
Theorem tls_init_once fuel p pa k b :
  let e := fst (run fuel (init_exec p pa)) in
  NoDup (map t_body (e_threads e)) -> cnt_tls k b (e_log e) <= 1.
Proof.
  cbv zeta. intros Hnd. destruct (run_init_inv fuel p pa) as (_ & I2 & _).
  rewrite <- cnt_tls_inits, I2. rewrite <- map_fst_tsig in Hnd.
  exact (filter_key_le1 _ (fun y => existsb (Nat.eqb k) (snd y)) b _ Hnd).
Qed.

(* "occurs at most once", positionally *)
Lemma filter_le1_unique (A : Type) (f : A -> bool) l :
  length (filter f l) <= 1 ->
  forall i j x y, nth_error l i = Some x -> f x = true -> nth_error l j = Some y -> f y = true -> i = j.
Proof.
  induction l as [|h t IH]; intros Hle i j x y Hi Hx Hj Hy; [destruct i; discriminate|].
  cbn [filter] in Hle. destruct (f h) eqn:Hh.
  - cbn [length] in Hle. assert (Ht : filter f t = []) by (destruct (filter f t); [reflexivity|cbn in Hle; lia]).
    assert (Hno : forall n z, nth_error t n = Some z -> f z = false).
    { intros n z Hn. destruct (f z) eqn:Hz; [|reflexivity].
      assert (Hin : In z (filter f t)) by (apply filter_In; split; [eapply nth_error_In; exact Hn|exact Hz]).
      rewrite Ht in Hin. destruct Hin. }
    destruct i as [|i], j as [|j]; [reflexivity| | |]; cbn [nth_error] in Hi, Hj.
    + rewrite (Hno _ _ Hj) in Hy. discriminate.
    + rewrite (Hno _ _ Hi) in Hx. discriminate.
    + rewrite (Hno _ _ Hi) in Hx. discriminate.
  - destruct i as [|i], j as [|j]; cbn [nth_error] in Hi, Hj.
    + reflexivity.
    + injection Hi as ->. congruence.
    + injection Hj as ->. congruence.
    + f_equal. eapply IH; eassumption.
Qed.

Corollary tls_init_once_pos fuel p pa k b i j :
  let e := fst (run fuel (init_exec p pa)) in
  NoDup (map t_body (e_threads e)) ->
  nth_error (e_log e) i = Some (LInitTls k b) -> nth_error (e_log e) j = Some (LInitTls k b) -> i = j.
Proof.
  cbv zeta. intros Hnd Hi Hj. pose proof (tls_init_once fuel p pa k b Hnd) as Hle.
  eapply (filter_le1_unique _ (is_tls k b) _ Hle); try eassumption; cbn [is_tls]; rewrite !Nat.eqb_refl; reflexivity.
Qed.

(* the statement without the side condition is false: a body can be spawned
   twice (MSpawn never looks at e_spawned), both threads run the same code
   and each initialises its own instance; the log labels entries by body *)
Definition p_twice : prog :=
  mkProg (mkConfig 5 1000 None None None false) [] [[ISpawn 1; ISpawn 1]; [ITlsWith 0]].

Lemma tls_init_twice :
  exists fuel, cnt_tls 0 1 (e_log (fst (run fuel (init_exec p_twice (initial_path (p_cfg p_twice)))))) = 2 /\
               snd (run fuel (init_exec p_twice (initial_path (p_cfg p_twice)))) = IterDone.
Proof. exists 200. vm_compute. split; reflexivity. Qed.

(* ================================================================== *)
(* 5. Lazy statics                                                     *)
(* ================================================================== *)

(* B.2: the registry never holds a key twice *)
Theorem lazy_nodup_inv e lz : tl_inv e -> e_lazy e = Some lz -> NoDup (map fst lz).
Proof. intros (_ & _ & I3) Hl. rewrite Hl in I3. exact (proj1 I3). Qed.

Theorem run_lazy_nodup fuel p pa lz :
  e_lazy (fst (run fuel (init_exec p pa))) = Some lz -> NoDup (map fst lz).
Proof. apply lazy_nodup_inv, run_init_inv. Qed.

(* while the registry is alive the log has exactly one LInitLazy k per
   registered key; after the shutdown still at most one *)
Theorem run_lazy_count fuel p pa lz k :
  e_lazy (fst (run fuel (init_exec p pa))) = Some lz ->
  cnt_lazy k (e_log (fst (run fuel (init_exec p pa)))) =
  if existsb (Nat.eqb k) (map fst lz) then 1 else 0.
Proof.
  intros Hl. destruct (run_init_inv fuel p pa) as (_ & _ & I3). rewrite Hl in I3.
  rewrite <- cnt_lazy_inits. apply (proj2 I3).
Qed.

Lemma lazy_count_le1 e k : tl_inv e -> cnt_lazy k (e_log e) <= 1.
Proof.
  intros (_ & _ & I3). rewrite <- cnt_lazy_inits. destruct (e_lazy e) as [lz|]; cbn [lazy_inv] in I3.
  - destruct I3 as [_ Hc]. rewrite Hc. destruct (existsb _ _); lia.
  - apply I3.
Qed.

Theorem lazy_init_once fuel p pa k :
  cnt_lazy k (e_log (fst (run fuel (init_exec p pa)))) <= 1.
Proof. apply lazy_count_le1, run_init_inv. Qed.

Corollary lazy_init_once_pos fuel p pa k i j :
  let e := fst (run fuel (init_exec p pa)) in
  nth_error (e_log e) i = Some (LInitLazy k) -> nth_error (e_log e) j = Some (LInitLazy k) -> i = j.
Proof.
  cbv zeta. intros Hi Hj. pose proof (lazy_init_once fuel p pa k) as Hle.
  eapply (filter_le1_unique _ (is_lazy k) _ Hle); try eassumption; cbn [is_lazy]; apply Nat.eqb_refl.
Qed.

(* the registry only grows, until it is shut down; then it stays shut down *)
Definition lazy_ext (e e' : exec) : Prop :=
  match e_lazy e with
  | None => e_lazy e' = None
  | Some lz => e_lazy e' = None \/ exists ext, e_lazy e' = Some (lz ++ ext)
  end.

Lemma lazy_ext_refl e : lazy_ext e e.
Proof.
  unfold lazy_ext. destruct (e_lazy e) as [lz|]; [|reflexivity].
  right. exists []. rewrite app_nil_r. reflexivity.
Qed.

Lemma lazy_ext_trans e1 e2 e3 : lazy_ext e1 e2 -> lazy_ext e2 e3 -> lazy_ext e1 e3.
Proof.
  unfold lazy_ext. destruct (e_lazy e1) as [lz|].
  - intros [H12|(x & H12)]; rewrite H12; [intros ->; left; reflexivity|].
    intros [H23|(y & H23)]; [left; exact H23|]. right. exists (x ++ y). rewrite app_assoc. exact H23.
  - intros ->. auto.
Qed.

Lemma tstep_lazy_ext e e' : tstep e e' -> lazy_ext e e'.
Proof.
  intros H. unfold lazy_ext.
  destruct H as [(_ & _ & Hv)|b _ _ H3|i b l k _ _ _ _ H5|lz k x H1 _ H3 _ _|H1 _ _].
  - rewrite Hv. apply lazy_ext_refl.
  - rewrite H3. apply lazy_ext_refl.
  - rewrite H5. apply lazy_ext_refl.
  - rewrite H1. right. eauto.
  - destruct (e_lazy e); auto.
Qed.

Theorem exec_micro_lazy_ext e me m : lazy_ext e (res_exec (exec_micro e me m)).
Proof. apply tstep_lazy_ext, exec_micro_tstep. Qed.

(* once None, None under every micro-step *)
Theorem lazy_none_stays e me m :
  e_lazy e = None -> e_lazy (res_exec (exec_micro e me m)) = None.
Proof. intros Hl. pose proof (exec_micro_lazy_ext e me m) as H. unfold lazy_ext in H. rewrite Hl in H. exact H. Qed.

Theorem steps_lazy_ext e e' : steps e e' -> lazy_ext e e'.
Proof.
  intros H. induction H as [e|e me t m rest e1 e2 Ha Ht Hc Hx Hs IH]; [apply lazy_ext_refl|].
  eapply lazy_ext_trans; [|exact IH].
  pose proof (exec_micro_lazy_ext (upd_thread e me (fun t => th_set_cont t rest)) me m) as Hm.
  rewrite Hx in Hm. exact Hm.
Qed.

Theorem steps_lazy_none e e' : steps e e' -> e_lazy e = None -> e_lazy e' = None.
Proof. intros Hs Hl. pose proof (steps_lazy_ext e e' Hs) as H. unfold lazy_ext in H. rewrite Hl in H. exact H. Qed.

(* every later access fails: on the state reached and on that state with the
   accessing thread's continuation popped (where Check.run executes it) *)
Theorem lazy_get_after_shutdown e e' b k :
  steps e e' -> e_lazy e = None ->
  exec_micro e' b (MLazyGet k) = MFail e' PanicLazyShutdown /\
  forall rest, exec_micro (upd_thread e' b (fun t => th_set_cont t rest)) b (MLazyGet k) =
               MFail (upd_thread e' b (fun t => th_set_cont t rest)) PanicLazyShutdown.
Proof.
  intros Hs Hl. pose proof (steps_lazy_none e e' Hs Hl) as Hn.
  split; [|intros rest]; rewrite exec_micro_lazy_get; cbn [upd_thread ex_set_threads e_lazy];
    rewrite Hn; reflexivity.
Qed.

Theorem lazy_drop_then_get_fails e a e1 e2 b k :
  exec_micro e a MLazyDrop = MOk e1 -> steps e1 e2 ->
  exec_micro e2 b (MLazyGet k) = MFail e2 PanicLazyShutdown.
Proof.
  intros Hd Hs. apply (lazy_get_after_shutdown e1 e2 b k Hs).
  cbn [exec_micro] in Hd. destruct (e_lazy e) as [lz|] eqn:Hl; injection Hd as <-; [reflexivity|exact Hl].
Qed.

(* ---- initialisation happens-before every access ---- *)
Lemma find_nodup_key (B : Type) k (v : B) (lz : list (nat * B)) :
  NoDup (map fst lz) -> In (k, v) lz -> find (fun x => Nat.eqb (fst x) k) lz = Some (k, v).
Proof.
  induction lz as [|h t IH]; intros Hnd Hin; [destruct Hin|]. cbn [find].
  cbn [map] in Hnd. inversion Hnd as [|y ys Hy Hnd']; subst. destruct Hin as [->|Hin].
  - cbn [fst]. rewrite Nat.eqb_refl. reflexivity.
  - destruct (Nat.eqb_spec (fst h) k) as [He|He]; [|auto].
    destruct Hy. rewrite He. change k with (fst (k, v)). apply in_map. exact Hin.
Qed.

Lemma lazy_tail_mono e me ci k : mono e (res_exec (lazy_tail e me ci k)).
Proof. unfold lazy_tail. cbv zeta. repeat mstep. all: mclose. Qed.

Lemma lazy_tail_lazy e me ci k : e_lazy (res_exec (lazy_tail e me ci k)) = e_lazy e.
Proof. exact (proj2 (proj2 (lazy_tail_veq e me ci k))). Qed.

(* an access that finds k registered acquires the registered view *)
Theorem lazy_get_acquires e me k lz ci sy e' :
  e_lazy e = Some lz -> NoDup (map fst lz) -> In (k, (ci, sy)) lz ->
  me < length (e_threads e) ->
  exec_micro e me (MLazyGet k) = MOk e' -> vle sy (caus_of e' me).
Proof.
  intros Hl Hnd Hin Hme Hx. rewrite exec_micro_lazy_get, Hl in Hx. unfold lazy_lookup in Hx.
  rewrite (find_nodup_key _ k (ci, sy) lz Hnd Hin) in Hx.
  pose proof (lazy_tail_mono (set_caus e me (sync_load (caus_of e me) sy Acquire)) me ci k) as Hm.
  rewrite Hx in Hm. cbn [res_exec] in Hm. destruct Hm as (_ & Hc & _). specialize (Hc me).
  rewrite caus_of_set_caus_same in Hc by exact Hme.
  eapply vle_trans; [|exact Hc]. apply sync_load_acq. reflexivity.
Qed.

(* the initialising access registers a view that contains the initialiser's clock *)
Theorem lazy_init_publishes e me k lz e' :
  e_lazy e = Some lz -> ~ In k (map fst lz) -> exec_micro e me (MLazyGet k) = MOk e' ->
  exists ci sy, e_lazy e' = Some (lz ++ [(k, (ci, sy))]) /\ vle (caus_of e me) sy.
Proof.
  intros Hl Hk Hx. rewrite exec_micro_lazy_get, Hl in Hx.
  destruct (lazy_lookup e me k lz) as [[e1 ci]|p] eqn:Hlk; [|discriminate Hx].
  pose proof (lazy_tail_lazy e1 me ci k) as Hz. rewrite Hx in Hz. cbn [res_exec] in Hz.
  unfold lazy_lookup in Hlk.
  destruct (find (fun x => Nat.eqb (fst x) k) lz) as [[k' [ci' sy']]|] eqn:Hf.
  - exfalso. apply find_some in Hf. destruct Hf as [Hin Hk']. cbn [fst] in Hk'.
    apply Nat.eqb_eq in Hk'. subst k'. apply Hk. change k with (fst (k, (ci', sy'))). apply in_map. exact Hin.
  - cbv zeta in Hlk.
    repeat match type of Hlk with
           | match ?x with _ => _ end = _ => destruct x eqn:?; try discriminate Hlk
           end.
    injection Hlk as <- <-. eexists. eexists. split; [rewrite Hz; reflexivity|].
    eapply vle_trans; [|apply sync_store_rel; reflexivity].
    rewrite caus_of_upd_object.
    match goal with |- vle _ (caus_of ?E me) => assert (Hm : mono e E) end.
    { mclose. eapply mono_trans;
        [|exact (mono_append_objects (ex_set_log e (LInitLazy k :: e_log e)) _)].
      apply mono_same; reflexivity. }
    destruct Hm as (_ & Hc & _). apply Hc.
Qed.

(* the global statement: a initialises lazy static k; the execution continues
   for any number of steps; b's access to k (executed on the state reached, or
   on any state with the same registry, e.g. with b's continuation popped)
   acquires a's clock at the time of the initialisation *)
Theorem lazy_handover_global e a k lz e1 e2 e2' b e3 :
  tl_inv e -> e_lazy e = Some lz -> ~ In k (map fst lz) ->
  exec_micro e a (MLazyGet k) = MOk e1 -> steps e1 e2 ->
  e_lazy e2' = e_lazy e2 -> b < length (e_threads e2') ->
  exec_micro e2' b (MLazyGet k) = MOk e3 ->
  vle (caus_of e a) (caus_of e3 b).
Proof.
  intros Hi Hl Hk Hx Hs Hz Hb Hy.
  destruct (lazy_init_publishes e a k lz e1 Hl Hk Hx) as (ci & sy & Hl1 & Hpub).
  pose proof (exec_micro_inv e a (MLazyGet k) Hi) as Hi1. rewrite Hx in Hi1. cbn [res_exec] in Hi1.
  pose proof (steps_inv e1 e2 Hs Hi1) as Hi2.
  pose proof (steps_lazy_ext e1 e2 Hs) as He. unfold lazy_ext in He. rewrite Hl1 in He.
  destruct He as [Hn|(ext & He)].
  - rewrite exec_micro_lazy_get, Hz, Hn in Hy. discriminate Hy.
  - eapply vle_trans; [exact Hpub|].
    eapply (lazy_get_acquires e2' b k _ ci sy e3); [rewrite Hz; exact He| | |exact Hb|exact Hy].
    + eapply lazy_nodup_inv; eassumption.
    + apply in_or_app. left. apply in_or_app. right. left. reflexivity.
Qed.

(* the same for the runs of the model *)
Corollary run_lazy_handover p pa e a k lz e1 e2 b e3 :
  steps (init_exec p pa) e -> e_lazy e = Some lz -> ~ In k (map fst lz) ->
  exec_micro e a (MLazyGet k) = MOk e1 -> steps e1 e2 -> b < length (e_threads e2) ->
  exec_micro e2 b (MLazyGet k) = MOk e3 ->
  vle (caus_of e a) (caus_of e3 b).
Proof.
  intros H0 Hl Hk Hx Hs Hb Hy.
  eapply (lazy_handover_global e a k lz e1 e2 e2 b e3); eauto.
  eapply steps_inv; [exact H0|apply init_exec_inv].
Qed.

Print Assumptions exec_micro_tstep.
Print Assumptions exec_micro_inv.
Print Assumptions run_inv.
Print Assumptions run_tls_nodup.
Print Assumptions run_tls_count.
Print Assumptions run_tls_count_thread.
Print Assumptions tls_init_le_threads.
Print Assumptions tls_init_once.
Print Assumptions tls_init_once_pos.
Print Assumptions tls_init_twice.
Print Assumptions run_lazy_nodup.
Print Assumptions run_lazy_count.
Print Assumptions lazy_init_once.
Print Assumptions lazy_init_once_pos.
Print Assumptions lazy_none_stays.
Print Assumptions steps_lazy_none.
Print Assumptions lazy_get_after_shutdown.
Print Assumptions lazy_drop_then_get_fails.
Print Assumptions lazy_get_acquires.
Print Assumptions lazy_init_publishes.
Print Assumptions lazy_handover_global.

(* DEVIATIONS from the requested statements

   T1  tls_init_once without side condition ("for every k and b, LInitTls k b
       occurs at most once in the log of a run") is FALSE in the model:
       MSpawn b (and MSpawnW b n k, the spawn from inside a block_on poll,
       which is a second ts_spawn step) never looks at e_spawned, so a body
       can be spawned twice
       ([ISpawn 1; ISpawn 1]); the two threads are distinct threads, each
       initialises its own instance of the thread-local (as the real
       thread_local! does: this is NOT a double initialisation in loom), and
       the log labels the entries by body, not by thread id.  Counterexample:
       tls_init_twice (computed: two LInitTls 0 1 entries, the run ends
       normally).  What is true, and proved:
         run_tls_count         #LInitTls k b = #threads with body b that have
                               initialised k (always; the invariant tl_inv)
         tls_init_le_threads   <= #threads running body b
         run_tls_count_thread  the requested per-thread form (1 if k is in
                               t_tls t, 0 otherwise) and
         tls_init_once         <= 1, both under
                               NoDup (map t_body (e_threads e)) for the FINAL
                               state e of the run (threads are only appended
                               and never change body, so this is: no MSpawn 0
                               and no body spawned twice during the run).
       tls_init_once_pos / lazy_init_once_pos are the positional readings of
       "at most once".
   T2  All run theorems are about [fst (run fuel (init_exec p pa))] for every
       fuel, i.e. also for the state carried by a panic (exec_micro_tstep /
       exec_micro_inv are proved for res_exec, MOk and MFail alike).
   T3  lazy_init_once needs no side condition.  run_lazy_count is the exact
       form while the registry is alive.
   T4  lazy_none_stays is stated for res_exec (both outcomes);
       lazy_get_after_shutdown is stated for SyncMono.steps and covers the
       popped state on which Check.run executes the access.
   T5  lazy_get_acquires has the hypotheses NoDup (map fst lz) (true along
       runs: run_lazy_nodup / lazy_nodup_inv; without it [find] may return an
       earlier entry for the same key with another view) and
       me < length (e_threads e) (set_caus is the identity out of range, as
       for every acquire lemma of SyncFacts).  Added: lazy_init_publishes (the
       registered view contains the initialiser's clock), the registry only
       grows until shutdown (lazy_ext), and lazy_handover_global:
       initialisation happens-before every later successful access.
   T6  Fresh-per-iteration is C17_fresh_every_iteration (not redone);
       init_exec_inv is the base case of the invariant. *)
