(* ClockFacts: well-formedness of the vector clocks over whole runs (supports
   "Data races are reported exactly").

   own e u      = vv_get (caus_of e u) u : what thread u knows about itself
                  (0 for a thread that does not exist: caus_of is vv_new)
   bndf w v     : every component u of the view v is at most w u
   clock_wf e   : every view of the state is bounded by [own e]:
                  the clock t_caus and the released clock t_rel of every
                  thread, the views of mutexes / rwlocks / notifies / arcs, the
                  sender view and every queued per-message view of a channel,
                  st_sync of every store of every atomic and the four tracking
                  clocks of the atomic (loaded / unsync_loaded / stored /
                  unsync_mut), the read and write clocks of every cell, the
                  seq-cst clock e_seqcst and the views of the lazy statics.
                  (+ every thread clock has at least MAX_THREADS components.)
                  "Nobody knows more about u than u itself"; components of
                  threads that do not exist yet are 0 (clock_wf_caus,
                  clock_wf_absent, clock_wf_rel, clock_wf_seqcst, clock_wf_object).

   Main theorems
     exec_micro_clock_wf : every micro-operation, also the state carried by
                           MFail (one tactic over all micro-ops; MRecvPost and
                           the atomic accesses by hand)
     init_clock_wf, run_clock_wf, iteration_clock_wf
     own_component_increases (C2), tracked_ops_from_inc
     cell_write_stamp / cell_read_stamp / store_stamp / load_stamp /
     store_first_seen_stamp (C3), no_future_knowledge, seen_only_if_acquired
     unsync_access_keeps_stamp (the counterexample to C2 for MUnsyncLoad /
     MWithMut)

   DEVIATIONS: see the end of the file. *)
Require Import LV.Base LV.VV LV.VVFacts LV.Path LV.PathSpec LV.PathApi LV.Prog LV.Objects
               LV.Exec LV.Atomic LV.Ops LV.Check LV.SyncFacts LV.ExecFacts LV.SyncMono.
From Coq Require Import List Arith Lia Bool.
Import ListNotations.

(* ================================================================== *)
(* 1. Bounded views                                                    *)
(* ================================================================== *)

Definition bndf (w : nat -> nat) (v : vv) : Prop := forall u, vv_get v u <= w u.

Lemma bndf_mono w w' v : (forall u, w u <= w' u) -> bndf w v -> bndf w' v.
Proof. intros Hw H u. specialize (H u). specialize (Hw u). lia. Qed.

Lemma bndf_new w : bndf w vv_new.
Proof. intros u. rewrite vv_new_get. lia. Qed.

Lemma bndf_join w a b : bndf w a -> bndf w b -> bndf w (vv_join a b).
Proof. intros Ha Hb u. rewrite vv_get_join. specialize (Ha u). specialize (Hb u). lia. Qed.

Lemma bndf_vle w a b : vle a b -> bndf w b -> bndf w a.
Proof. intros Hle Hb u. specialize (Hle u). specialize (Hb u). lia. Qed.

Lemma bndf_sync_load w c s o : bndf w c -> bndf w s -> bndf w (sync_load c s o).
Proof. intros Hc Hs. unfold sync_load. destruct (ord_acq o); [apply bndf_join; assumption|exact Hc]. Qed.

Lemma bndf_sync_store w s c r o : bndf w s -> bndf w c -> bndf w r -> bndf w (sync_store s c r o).
Proof.
  intros Hs Hc Hr. unfold sync_store. destruct (ord_rel o); repeat apply bndf_join; assumption.
Qed.

Lemma sync_load_length c s o : length c <= length (sync_load c s o).
Proof. unfold sync_load. destruct (ord_acq o); [rewrite vv_join_length; lia|lia]. Qed.

(* ---- lists ---- *)
Lemma Forall_list_set (A : Type) (P : A -> Prop) (l : list A) i x :
  Forall P l -> P x -> Forall P (list_set l i x).
Proof.
  revert i; induction l as [|h t IH]; intros i Hl Hx; [constructor|].
  inversion Hl as [|? ? Hh Ht]; subst. destruct i as [|i]; cbn [list_set]; constructor; auto.
Qed.

Lemma Forall_list_upd (A : Type) (P : A -> Prop) (l : list A) i f :
  Forall P l -> (forall x, P x -> P (f x)) -> Forall P (list_upd l i f).
Proof.
  intros Hl Hf. unfold list_upd. destruct (nth_error l i) as [x|] eqn:Hx; [|exact Hl].
  apply Forall_list_set; [exact Hl|]. apply Hf. rewrite Forall_forall in Hl.
  apply Hl. eapply nth_error_In; exact Hx.
Qed.

Lemma Forall_nth_default (A : Type) (P : A -> Prop) (l : list A) i d :
  Forall P l -> P d -> P (nth i l d).
Proof.
  intros Hl Hd. destruct (nth_in_or_default i l d) as [Hin | ->]; [|exact Hd].
  rewrite Forall_forall in Hl. apply Hl, Hin.
Qed.

(* ---- atomics ---- *)
Definition atomic_wf (w : nat -> nat) (s : atomic_state) : Prop :=
  Forall (fun x => bndf w (st_sync x)) (at_stores s) /\
  bndf w (at_loaded s) /\ bndf w (at_unsync_loaded s) /\
  bndf w (at_stored s) /\ bndf w (at_unsync_mut s).

Lemma atomic_wf_mono w w' s : (forall u, w u <= w' u) -> atomic_wf w s -> atomic_wf w' s.
Proof.
  intros Hw (H1 & H2 & H3 & H4 & H5). repeat split; eauto using bndf_mono.
  eapply Forall_impl; [|exact H1]. intros x. apply bndf_mono, Hw.
Qed.

Lemma get_store_wf w s i : atomic_wf w s -> bndf w (st_sync (get_store s i)).
Proof.
  intros (H1 & _). unfold get_store.
  apply (Forall_nth_default _ (fun x => bndf w (st_sync x))); [exact H1|]. apply bndf_new.
Qed.

Lemma track_load_wf w s c s1 :
  track_load s c = inl s1 -> atomic_wf w s -> bndf w c -> atomic_wf w s1.
Proof.
  unfold track_load. intros H (H1 & H2 & H3 & H4 & H5) Hc.
  destruct (at_mutating s); [discriminate H|]. destruct (vv_ahead c _); [discriminate H|].
  injection H as <-. repeat split; cbn; auto using bndf_join.
Qed.

Lemma track_unsync_load_wf w s c s1 :
  track_unsync_load s c = inl s1 -> atomic_wf w s -> bndf w c -> atomic_wf w s1.
Proof.
  unfold track_unsync_load. intros H (H1 & H2 & H3 & H4 & H5) Hc.
  destruct (at_mutating s); [discriminate H|]. destruct (vv_ahead c _); [discriminate H|].
  destruct (vv_ahead c _); [discriminate H|].
  injection H as <-. repeat split; cbn; auto using bndf_join.
Qed.

Lemma track_store_wf w s c s1 :
  track_store s c = inl s1 -> atomic_wf w s -> bndf w c -> atomic_wf w s1.
Proof.
  unfold track_store. intros H (H1 & H2 & H3 & H4 & H5) Hc.
  destruct (at_mutating s); [discriminate H|]. destruct (vv_ahead c _); [discriminate H|].
  destruct (vv_ahead c _); [discriminate H|].
  injection H as <-. repeat split; cbn; auto using bndf_join.
Qed.

Lemma track_unsync_mut_wf w s c s1 :
  track_unsync_mut s c = inl s1 -> atomic_wf w s -> bndf w c -> atomic_wf w s1.
Proof.
  unfold track_unsync_mut. intros H (H1 & H2 & H3 & H4 & H5) Hc.
  destruct (at_mutating s); [discriminate H|].
  repeat (destruct (vv_ahead c _); [discriminate H|]).
  injection H as <-. repeat split; cbn; auto using bndf_join.
Qed.

Lemma set_stores_wf w s st cnt :
  atomic_wf w s -> Forall (fun x => bndf w (st_sync x)) st -> atomic_wf w (at_set_stores s st cnt).
Proof. intros (H1 & H2 & H3 & H4 & H5) Hst. repeat split; assumption. Qed.

Lemma load_view_wf w s me c idx : atomic_wf w s -> atomic_wf w (load_view s me c idx).
Proof.
  intros Hs. unfold load_view. cbv zeta.
  assert (Ha : atomic_wf w (apply_load_coherence s c idx)).
  { destruct Hs as (H1 & H2 & H3 & H4 & H5).
    assert (Hst : Forall (fun x => bndf w (st_sync x)) (at_stores (apply_load_coherence s c idx))).
    { apply Forall_forall. intros x Hx.
      destruct (In_nth _ _ store_default Hx) as (j & Hj & Hnth).
      rewrite alc_keeps_length in Hj.
      pose proof (alc_keeps_sync s c idx j) as Hsy. unfold get_store in Hsy.
      rewrite Hnth in Hsy. rewrite Hsy.
      rewrite Forall_forall in H1. apply H1. apply nth_In. exact Hj. }
    unfold apply_load_coherence in *. cbv zeta in *.
    repeat split; assumption. }
  apply set_stores_wf; [exact Ha|].
  apply Forall_list_upd; [exact (proj1 Ha)|]. intros x Hx. exact Hx.
Qed.

Lemma atomic_store_from_wf w s me c r sync0 v o src :
  atomic_wf w s -> bndf w c -> bndf w r -> bndf w sync0 ->
  atomic_wf w (atomic_store_from s me c r sync0 v o src).
Proof.
  intros Hs Hc Hr H0. unfold atomic_store_from. cbv zeta. apply set_stores_wf; [exact Hs|].
  apply Forall_list_set; [exact (proj1 Hs)|]. cbn [st_sync]. apply bndf_sync_store; assumption.
Qed.

Lemma atomic_load_wf w s me c idx o s' c' v :
  atomic_load s me c idx o = inl (s', c', v) -> atomic_wf w s -> bndf w c ->
  atomic_wf w s' /\ bndf w c' /\ vle c c' /\ length c <= length c'.
Proof.
  rewrite atomic_load_eq. intros H Hs Hc.
  destruct (track_load s c) as [s1|pn] eqn:Ht; [|discriminate H].
  pose proof (track_load_wf _ _ _ _ Ht Hs Hc) as H1.
  pose proof (load_view_wf w s1 me c idx H1) as H3.
  injection H as <- <- _. split; [exact H3|].
  split; [apply bndf_sync_load; [exact Hc|apply get_store_wf, H3]|].
  split; [apply sync_load_keeps|apply sync_load_length].
Qed.

Lemma atomic_rmw_wf w s me c r idx so fo f s' c' prev ok :
  atomic_rmw s me c r idx so fo f = inl (s', c', prev, ok) ->
  atomic_wf w s -> bndf w c -> bndf w r ->
  atomic_wf w s' /\ bndf w c' /\ vle c c' /\ length c <= length c'.
Proof.
  rewrite atomic_rmw_eq. intros H Hs Hc Hr.
  destruct (track_load s c) as [s1|pn] eqn:Ht; [|discriminate H].
  pose proof (track_load_wf _ _ _ _ Ht Hs Hc) as H1.
  pose proof (load_view_wf w s1 me c idx H1) as H3. cbv zeta in H.
  destruct (f _) as [next|].
  - destruct (track_store _ c) as [s4|pn] eqn:Hts; [|discriminate H].
    pose proof (track_store_wf _ _ _ _ Hts H3 Hc) as H4.
    injection H as <- <- _ _.
    assert (Hc' : bndf w (sync_load c (st_sync (get_store s4 idx)) so))
      by (apply bndf_sync_load; [exact Hc|apply get_store_wf, H4]).
    split; [apply atomic_store_from_wf; [exact H4|exact Hc'|exact Hr|apply get_store_wf, H4]|].
    split; [exact Hc'|]. split; [apply sync_load_keeps|apply sync_load_length].
  - injection H as <- <- _ _. split; [exact H3|].
    split; [apply bndf_sync_load; [exact Hc|apply get_store_wf, H3]|].
    split; [apply sync_load_keeps|apply sync_load_length].
Qed.

Lemma fence_acq_atomic_wf w s me : atomic_wf w s ->
  forall c, bndf w c -> bndf w (fence_acq_atomic s me c).
Proof.
  intros Hs. unfold fence_acq_atomic. induction (stores_order (at_cnt s)) as [|i l IH]; intros c Hc;
    cbn [fold_left]; [exact Hc|].
  apply IH. destruct (is_read_by_current _ _); [|exact Hc].
  apply bndf_join; [exact Hc|apply get_store_wf, Hs].
Qed.

Lemma fence_acq_atomic_length s me : forall c, length c <= length (fence_acq_atomic s me c).
Proof.
  unfold fence_acq_atomic. induction (stores_order (at_cnt s)) as [|i l IH]; intros c;
    cbn [fold_left]; [lia|].
  eapply Nat.le_trans; [|apply IH]. destruct (is_read_by_current _ _); [|lia].
  rewrite vv_join_length. lia.
Qed.

(* ---- cells ---- *)
Definition cell_wf (w : nat -> nat) (s : cell_state) : Prop := bndf w (ce_read s) /\ bndf w (ce_write s).

Lemma cell_track_read_wf w s c s1 :
  cell_track_read s c = inl s1 -> cell_wf w s -> bndf w c -> cell_wf w s1.
Proof.
  unfold cell_track_read. intros H [H1 H2] Hc. destruct (vv_ahead c _); [discriminate H|].
  injection H as <-. split; cbn; auto using bndf_join.
Qed.

Lemma cell_track_write_wf w s c s1 :
  cell_track_write s c = inl s1 -> cell_wf w s -> bndf w c -> cell_wf w s1.
Proof.
  unfold cell_track_write. intros H [H1 H2] Hc. destruct (vv_ahead c _); [discriminate H|].
  destruct (vv_ahead c _); [discriminate H|].
  injection H as <-. split; cbn; auto using bndf_join.
Qed.

(* ================================================================== *)
(* 2. The invariant                                                    *)
(* ================================================================== *)

Definition own (e : exec) (u : nat) : nat := vv_get (caus_of e u) u.

Definition thread_wf (w : nat -> nat) (t : thread) : Prop :=
  bndf w (t_caus t) /\ bndf w (t_rel t) /\ MAX_THREADS <= length (t_caus t).

Definition obj_wf (w : nat -> nat) (o : object) : Prop :=
  match o with
  | OMutex s => bndf w (mx_sync s)
  | ORwLock s => bndf w (rw_sync s)
  | ONotify s => bndf w (nt_sync s)
  | OArc s => bndf w (arc_sync s)
  | OChannel s => bndf w (ch_sender_sync s) /\ Forall (bndf w) (ch_recv_sync s)
  | OAtomic s => atomic_wf w s
  | OCell s => cell_wf w s
  | OCondvar _ | OAlloc _ => True
  end.

Definition lazy_wf (w : nat -> nat) (l : option (list (nat * (nat * vv)))) : Prop :=
  match l with
  | None => True
  | Some lz => Forall (fun x => bndf w (snd (snd x))) lz
  end.

Definition CWw (w : nat -> nat) (e : exec) : Prop :=
  (forall i t, nth_error (e_threads e) i = Some t -> thread_wf w t) /\
  (forall i o, nth_error (e_objects e) i = Some o -> obj_wf w o) /\
  bndf w (e_seqcst e) /\ lazy_wf w (e_lazy e).

Definition clock_wf (e : exec) : Prop := CWw (own e) e.

Lemma obj_wf_mono w w' o : (forall u, w u <= w' u) -> obj_wf w o -> obj_wf w' o.
Proof.
  intros Hw. destruct o; cbn [obj_wf]; eauto using bndf_mono, atomic_wf_mono.
  - intros [H1 H2]. split; [eauto using bndf_mono|].
    eapply Forall_impl; [|exact H2]. intros v. apply bndf_mono, Hw.
  - intros [H1 H2]. split; eauto using bndf_mono.
Qed.

Lemma thread_wf_mono w w' t : (forall u, w u <= w' u) -> thread_wf w t -> thread_wf w' t.
Proof. intros Hw (H1 & H2 & H3). repeat split; eauto using bndf_mono. Qed.

Lemma CWw_mono w w' e : (forall u, w u <= w' u) -> CWw w e -> CWw w' e.
Proof.
  intros Hw (Ht & Ho & Hs & Hl). split; [|split; [|split]].
  - intros i t Hi. destruct (Ht i t Hi) as (H1 & H2 & H3). repeat split; eauto using bndf_mono.
  - intros i o Hi. eapply obj_wf_mono; [exact Hw|eauto].
  - eauto using bndf_mono.
  - unfold lazy_wf in *. destruct (e_lazy e) as [lz|]; [|exact I].
    eapply Forall_impl; [|exact Hl]. intros x. apply bndf_mono, Hw.
Qed.

(* ---- reading the invariant ---- *)
Lemma CWw_caus_of w e j : CWw w e -> bndf w (caus_of e j).
Proof.
  intros (Ht & _). unfold caus_of, get_thread. destruct (nth_error (e_threads e) j) as [t|] eqn:Hj;
    [exact (proj1 (Ht j t Hj))|apply bndf_new].
Qed.

Lemma CWw_rel_of w e j : CWw w e -> bndf w (rel_of e j).
Proof.
  intros (Ht & _). unfold rel_of, get_thread. destruct (nth_error (e_threads e) j) as [t|] eqn:Hj;
    [exact (proj1 (proj2 (Ht j t Hj)))|apply bndf_new].
Qed.

Lemma CWw_seqcst w e : CWw w e -> bndf w (e_seqcst e).
Proof. intros (_ & _ & H & _). exact H. Qed.

Lemma CWw_thread w e j t : CWw w e -> get_thread e j = Some t -> bndf w (t_caus t) /\ bndf w (t_rel t).
Proof. intros (Ht & _) Hj. destruct (Ht j t Hj) as (H1 & H2 & _). auto. Qed.

Lemma CWw_get_mutex w e m s : CWw w e -> get_mutex e m = Some s -> bndf w (mx_sync s).
Proof. intros (_ & Ho & _) Hg. apply get_mutex_nth in Hg. exact (Ho _ _ Hg). Qed.
Lemma CWw_get_rw w e m s : CWw w e -> get_rw e m = Some s -> bndf w (rw_sync s).
Proof. intros (_ & Ho & _) Hg. apply get_rw_nth in Hg. exact (Ho _ _ Hg). Qed.
Lemma CWw_get_notify w e m s : CWw w e -> get_notify e m = Some s -> bndf w (nt_sync s).
Proof. intros (_ & Ho & _) Hg. apply get_notify_nth in Hg. exact (Ho _ _ Hg). Qed.
Lemma CWw_get_arc w e m s : CWw w e -> get_arc e m = Some s -> bndf w (arc_sync s).
Proof. intros (_ & Ho & _) Hg. apply get_arc_nth in Hg. exact (Ho _ _ Hg). Qed.
Lemma CWw_get_chan w e m s : CWw w e -> get_chan e m = Some s ->
  bndf w (ch_sender_sync s) /\ Forall (bndf w) (ch_recv_sync s).
Proof. intros (_ & Ho & _) Hg. apply get_chan_nth in Hg. exact (Ho _ _ Hg). Qed.
Lemma CWw_get_atomic w e m s : CWw w e -> get_atomic e m = Some s -> atomic_wf w s.
Proof. intros (_ & Ho & _) Hg. apply get_atomic_nth in Hg. exact (Ho _ _ Hg). Qed.
Lemma CWw_get_cell w e m s : CWw w e -> get_cell e m = Some s -> cell_wf w s.
Proof. intros (_ & Ho & _) Hg. apply get_cell_nth in Hg. exact (Ho _ _ Hg). Qed.

Lemma fence_acq_wf w e me : CWw w e -> forall c, bndf w c -> bndf w (fence_acq (e_objects e) me c).
Proof.
  intros (_ & Ho & _). unfold fence_acq.
  assert (Hall : Forall (obj_wf w) (e_objects e)).
  { rewrite Forall_forall. intros o Hin. destruct (In_nth_error _ _ Hin) as (i & Hi). eauto. }
  clear Ho. induction Hall as [|o l Ho _ IH]; intros c Hc; cbn [fold_left]; [exact Hc|].
  apply IH. destruct o; try exact Hc. apply fence_acq_atomic_wf; [exact Ho|exact Hc].
Qed.

Lemma fence_acq_length objs me : forall c, length c <= length (fence_acq objs me c).
Proof.
  unfold fence_acq. induction objs as [|o l IH]; intros c; cbn [fold_left]; [lia|].
  eapply Nat.le_trans; [|apply IH]. destruct o; try lia. apply fence_acq_atomic_length.
Qed.

(* the requested reading of the invariant *)
Lemma clock_wf_caus e t u : clock_wf e -> vv_get (caus_of e t) u <= vv_get (caus_of e u) u.
Proof. intros H. exact (CWw_caus_of _ _ t H u). Qed.

Lemma own_absent e u : length (e_threads e) <= u -> own e u = 0.
Proof.
  intros Hu. unfold own, caus_of, get_thread.
  apply nth_error_None in Hu. rewrite Hu. apply vv_new_get.
Qed.

Lemma clock_wf_absent e t u :
  clock_wf e -> length (e_threads e) <= u -> vv_get (caus_of e t) u = 0.
Proof. intros H Hu. pose proof (clock_wf_caus e t u H) as Hle. fold (own e u) in Hle. rewrite own_absent in Hle by exact Hu. lia. Qed.

Lemma clock_wf_rel e t u : clock_wf e -> vv_get (rel_of e t) u <= vv_get (caus_of e u) u.
Proof. intros H. exact (CWw_rel_of _ _ t H u). Qed.

Lemma clock_wf_seqcst e u : clock_wf e -> vv_get (e_seqcst e) u <= vv_get (caus_of e u) u.
Proof. intros H. exact (CWw_seqcst _ _ H u). Qed.

Lemma clock_wf_object e i o : clock_wf e -> nth_error (e_objects e) i = Some o -> obj_wf (own e) o.
Proof. intros (_ & Ho & _) Hi. eauto. Qed.

(* ================================================================== *)
(* 3. The frame, continuation style                                    *)
(* ================================================================== *)

Definition ck (e e' : exec) : Prop := clock_wf e -> clock_wf e'.

Lemma ck_refl e : ck e e.
Proof. intros H. exact H. Qed.
Lemma ck_trans e1 e2 e3 : ck e1 e2 -> ck e2 e3 -> ck e1 e3.
Proof. unfold ck. auto. Qed.
Lemma ck_k e0 e e' : ck e e' -> ck e0 e -> ck e0 e'.
Proof. unfold ck. auto. Qed.

Lemma ck_same e e' :
  e_threads e' = e_threads e -> e_objects e' = e_objects e ->
  e_seqcst e' = e_seqcst e -> e_lazy e' = e_lazy e -> ck e e'.
Proof.
  intros Ht Ho Hs Hl. unfold ck, clock_wf, CWw, own, caus_of, get_thread.
  rewrite Ht, Ho, Hs, Hl. auto.
Qed.

Lemma ck_same_k e0 e e' :
  e_threads e' = e_threads e -> e_objects e' = e_objects e ->
  e_seqcst e' = e_seqcst e -> e_lazy e' = e_lazy e -> ck e0 e -> ck e0 e'.
Proof. intros H1 H2 H3 H4. apply ck_k, ck_same; assumption. Qed.

(* the general step: new views bounded by the new own, own does not decrease *)
Lemma clock_wf_step e e' :
  clock_wf e -> (forall u, own e u <= own e' u) ->
  (forall i t', nth_error (e_threads e') i = Some t' -> thread_wf (own e') t') ->
  (forall i o, nth_error (e_objects e') i = Some o ->
     obj_wf (own e') o \/ exists j, nth_error (e_objects e) j = Some o) ->
  (bndf (own e') (e_seqcst e') \/ e_seqcst e' = e_seqcst e) ->
  (lazy_wf (own e') (e_lazy e') \/ e_lazy e' = e_lazy e) ->
  clock_wf e'.
Proof.
  intros (Ht & Ho & Hs & Hl) Hown Ht' Ho' Hs' Hl'. split; [exact Ht'|]. split; [|split].
  - intros i o Hi. destruct (Ho' i o Hi) as [H|(j & Hj)]; [exact H|].
    eapply obj_wf_mono; [exact Hown|eauto].
  - destruct Hs' as [H| ->]; [exact H|eauto using bndf_mono].
  - destruct Hl' as [H| ->]; [exact H|].
    unfold lazy_wf in *. destruct (e_lazy e) as [lz|]; [|exact I].
    eapply Forall_impl; [|exact Hl]. intros x. apply bndf_mono, Hown.
Qed.

(* ---- threads: updates that do not change the own components ---- *)
Lemma ck_set_threads_k e0 e ths :
  (clock_wf e ->
     length ths = length (e_threads e) /\
     forall j t t', nth_error (e_threads e) j = Some t -> nth_error ths j = Some t' ->
       vle (t_caus t) (t_caus t') /\ length (t_caus t) <= length (t_caus t') /\
       bndf (own e) (t_caus t') /\ bndf (own e) (t_rel t')) ->
  ck e0 e -> ck e0 (ex_set_threads e ths).
Proof.
  intros Hf. apply ck_k. intros Hcw. destruct (Hf Hcw) as [Hlen Hj].
  assert (Hown : forall u, own (ex_set_threads e ths) u = own e u).
  { intros u. unfold own, caus_of, get_thread. cbn [ex_set_threads e_threads].
    destruct (nth_error (e_threads e) u) as [t|] eqn:Hu.
    - destruct (nth_error ths u) as [t'|] eqn:Hu'.
      + destruct (Hj u t t' Hu Hu') as (Hle & _ & Hb & _).
        specialize (Hle u). specialize (Hb u). unfold own, caus_of, get_thread in Hb.
        rewrite Hu in Hb. lia.
      + apply nth_error_None in Hu'. assert (u < length (e_threads e)) by (apply nth_error_Some; congruence). lia.
    - destruct (nth_error ths u) as [t'|] eqn:Hu'; [|reflexivity].
      apply nth_error_None in Hu. assert (u < length ths) by (apply nth_error_Some; congruence). lia. }
  apply (clock_wf_step e); try (right; reflexivity); [exact Hcw|intros u; rewrite Hown; lia| |].
  - intros i t' Hi. cbn [ex_set_threads e_threads] in Hi.
    destruct (nth_error (e_threads e) i) as [t|] eqn:Hi0.
    + destruct (Hj i t t' Hi0 Hi) as (_ & Hl & Hb1 & Hb2).
      destruct Hcw as (Ht & _). destruct (Ht i t Hi0) as (_ & _ & Hmax).
      apply (thread_wf_mono (own e)); [intros u; rewrite Hown; lia|]. repeat split; [exact Hb1|exact Hb2|lia].
    + apply nth_error_None in Hi0. assert (i < length ths) by (apply nth_error_Some; congruence). lia.
  - intros i o Hi. right. exists i. exact Hi.
Qed.

Definition tstep (e : exec) (t t' : thread) : Prop :=
  (t_caus t' = t_caus t \/
   exists c, t_caus t' = vv_join (t_caus t) c /\ forall w, CWw w e -> bndf w c) /\
  (t_rel t' = t_rel t \/ t_rel t' = t_caus t').

Lemma tstep_refl e t : tstep e t t.
Proof. split; left; reflexivity. Qed.

Lemma tstep_ok e j t t' :
  clock_wf e -> nth_error (e_threads e) j = Some t -> tstep e t t' ->
  vle (t_caus t) (t_caus t') /\ length (t_caus t) <= length (t_caus t') /\
  bndf (own e) (t_caus t') /\ bndf (own e) (t_rel t').
Proof.
  intros Hcw Hj [Hc Hr]. destruct (proj1 Hcw j t Hj) as (Hb1 & Hb2 & _).
  assert (Hc' : vle (t_caus t) (t_caus t') /\ length (t_caus t) <= length (t_caus t') /\
                bndf (own e) (t_caus t')).
  { destruct Hc as [->|(c & -> & Hbc)].
    - split; [apply vle_refl|]. split; [lia|exact Hb1].
    - split; [apply vle_join_l|]. split; [rewrite vv_join_length; lia|].
      apply bndf_join; [exact Hb1|apply Hbc, Hcw]. }
  destruct Hc' as (H1 & H2 & H3). repeat split; try assumption.
  destruct Hr as [->| ->]; assumption.
Qed.

Lemma ck_upd_thread_k e0 e i f :
  (forall t, tstep e t (f t)) -> ck e0 e -> ck e0 (upd_thread e i f).
Proof.
  intros Hf. apply ck_set_threads_k. intros Hcw. split; [apply list_upd_length|].
  intros j t t' Hj Hj'. destruct (Nat.eq_dec i j) as [->|Hne].
  - rewrite nth_error_list_upd_same, Hj in Hj'. cbn [option_map] in Hj'. injection Hj' as <-.
    eapply tstep_ok; [exact Hcw|exact Hj|apply Hf].
  - rewrite nth_error_list_upd_other in Hj' by exact Hne.
    assert (t' = t) by congruence. subst t'. eapply tstep_ok; [exact Hcw|exact Hj|apply tstep_refl].
Qed.

Lemma ck_mapi_k e0 e g :
  (forall id t, tstep e t (g id t)) -> ck e0 e -> ck e0 (ex_set_threads e (mapi g (e_threads e))).
Proof.
  intros Hg. apply ck_set_threads_k. intros Hcw. split; [apply mapi_from_length|].
  intros j t t' Hj Hj'. rewrite nth_error_mapi, Hj in Hj'. cbn [option_map] in Hj'. injection Hj' as <-.
  eapply tstep_ok; [exact Hcw|exact Hj|apply Hg].
Qed.

Lemma ck_map_others_k e0 e me p f :
  (forall t, tstep e t (f t)) -> ck e0 e -> ck e0 (map_others e me p f).
Proof.
  intros Hf. unfold map_others. apply ck_mapi_k. intros id t.
  destruct (negb (Nat.eqb id me) && p t); [apply Hf|apply tstep_refl].
Qed.

(* ---- threads: the clock of one thread is replaced ---- *)
Lemma set_caus_absent e me v : get_thread e me = None -> e_threads (set_caus e me v) = e_threads e.
Proof.
  intros H. unfold set_caus, upd_thread. cbn [ex_set_threads e_threads]. unfold list_upd.
  unfold get_thread in H. rewrite H. reflexivity.
Qed.

Lemma ck_set_caus_gen_k e0 e me v :
  (clock_wf e -> vle (caus_of e me) v /\ length (caus_of e me) <= length v /\
                 forall u, u <> me -> vv_get v u <= own e u) ->
  ck e0 e -> ck e0 (set_caus e me v).
Proof.
  intros Hf. apply ck_k. intros Hcw. destruct (Hf Hcw) as (Hle & Hlen & Hoth).
  destruct (get_thread e me) as [t|] eqn:Hme.
  2:{ revert Hcw. apply ck_same; try reflexivity. apply set_caus_absent, Hme. }
  assert (Hc : caus_of e me = t_caus t) by (unfold caus_of; rewrite Hme; reflexivity).
  rewrite Hc in *.
  assert (Hth : forall j, nth_error (e_threads (set_caus e me v)) j =
                          if Nat.eqb j me then Some (th_set_caus t v) else nth_error (e_threads e) j).
  { intros j. unfold set_caus. rewrite e_threads_upd_thread.
    destruct (Nat.eqb_spec j me) as [->|Hne].
    - rewrite nth_error_list_upd_same. unfold get_thread in Hme. rewrite Hme. reflexivity.
    - apply nth_error_list_upd_other. congruence. }
  assert (Hown_o : forall u, u <> me -> own (set_caus e me v) u = own e u).
  { intros u Hu. unfold own, caus_of, get_thread. rewrite Hth.
    destruct (Nat.eqb_spec u me); [contradiction|reflexivity]. }
  assert (Hown_me : own (set_caus e me v) me = vv_get v me).
  { unfold own, caus_of, get_thread. rewrite Hth, Nat.eqb_refl. reflexivity. }
  assert (Hown : forall u, own e u <= own (set_caus e me v) u).
  { intros u. destruct (Nat.eq_dec u me) as [->|Hu].
    - rewrite Hown_me. unfold own. rewrite Hc. apply Hle.
    - rewrite Hown_o by exact Hu. lia. }
  apply (clock_wf_step e); try (right; reflexivity); [exact Hcw|exact Hown| |].
  - intros j t' Hj. rewrite Hth in Hj. destruct (Nat.eqb_spec j me) as [->|Hne].
    + injection Hj as <-. destruct (proj1 Hcw me t Hme) as (_ & Hb2 & Hmax).
      split; [|split].
      * intros u. cbn [t_caus th_set_caus]. destruct (Nat.eq_dec u me) as [->|Hu].
        -- rewrite Hown_me. lia.
        -- rewrite Hown_o by exact Hu. apply Hoth, Hu.
      * cbn [t_rel th_set_caus]. eapply bndf_mono; [exact Hown|exact Hb2].
      * cbn [t_caus th_set_caus]. lia.
    + apply (thread_wf_mono (own e)); [exact Hown|exact (proj1 Hcw j t' Hj)].
  - intros i o Hi. right. exists i. exact Hi.
Qed.

(* a clock obtained from bounded views only *)
Lemma ck_set_caus_k e0 e me v :
  (forall w, CWw w e -> bndf w v) -> vle (caus_of e me) v -> length (caus_of e me) <= length v ->
  ck e0 e -> ck e0 (set_caus e me v).
Proof.
  intros Hb Hle Hlen. apply ck_set_caus_gen_k. intros Hcw. split; [exact Hle|]. split; [exact Hlen|].
  intros u _. apply (Hb _ Hcw).
Qed.

Lemma causality_inc_eq e me : causality_inc e me = set_caus e me (vv_inc (caus_of e me) me).
Proof.
  unfold causality_inc, set_caus, upd_thread, caus_of, get_thread, list_upd.
  destruct (nth_error (e_threads e) me) as [t|]; reflexivity.
Qed.

Lemma ck_causality_inc_k e0 e me : ck e0 e -> ck e0 (causality_inc e me).
Proof.
  rewrite causality_inc_eq. apply ck_set_caus_gen_k. intros Hcw.
  split; [apply vle_inc|]. split; [rewrite vv_inc_length; lia|].
  intros u Hu. rewrite vv_get_inc_other by congruence. apply (CWw_caus_of _ _ me Hcw).
Qed.

(* ---- a new thread ---- *)
Lemma vv_new_length : length vv_new = MAX_THREADS.
Proof. apply repeat_length. Qed.

Lemma ck_spawn_k e0 e nt pc :
  t_caus nt = vv_inc (vv_join vv_new pc) (length (e_threads e)) -> t_rel nt = vv_new ->
  (forall w, CWw w e -> bndf w pc) ->
  ck e0 e -> ck e0 (ex_set_threads e (e_threads e ++ [nt])).
Proof.
  intros Hc Hr Hpc. apply ck_k. intros Hcw. set (n := length (e_threads e)) in *.
  assert (Hth : forall j, nth_error (e_threads e ++ [nt]) j =
                  if Nat.ltb j n then nth_error (e_threads e) j
                  else if Nat.eqb j n then Some nt else None).
  { intros j. destruct (Nat.ltb_spec j n) as [Hlt|Hge].
    - apply nth_error_app1. exact Hlt.
    - rewrite nth_error_app2 by exact Hge. destruct (Nat.eqb_spec j n) as [->|Hne].
      + rewrite Nat.sub_diag. reflexivity.
      + fold n. destruct (j - n) as [|d] eqn:Hd; [lia|]. destruct d; reflexivity. }
  assert (Hown_lt : forall u, u <> n -> own (ex_set_threads e (e_threads e ++ [nt])) u = own e u).
  { intros u Hu. unfold own, caus_of, get_thread. cbn [ex_set_threads e_threads]. rewrite Hth.
    destruct (Nat.ltb_spec u n) as [Hlt|Hge]; [reflexivity|].
    destruct (Nat.eqb_spec u n); [contradiction|].
    assert (Hn : nth_error (e_threads e) u = None) by (apply nth_error_None; fold n; lia).
    rewrite Hn. reflexivity. }
  assert (Hown_n : own (ex_set_threads e (e_threads e ++ [nt])) n = vv_get (t_caus nt) n).
  { unfold own, caus_of, get_thread. cbn [ex_set_threads e_threads]. rewrite Hth.
    rewrite Nat.ltb_irrefl, Nat.eqb_refl. reflexivity. }
  assert (Hown : forall u, own e u <= own (ex_set_threads e (e_threads e ++ [nt])) u).
  { intros u. destruct (Nat.eq_dec u n) as [->|Hu].
    - rewrite (own_absent e n) by (fold n; lia). lia.
    - rewrite Hown_lt by exact Hu. lia. }
  apply (clock_wf_step e); try (right; reflexivity); [exact Hcw|exact Hown| |].
  - intros j t' Hj. cbn [ex_set_threads e_threads] in Hj. rewrite Hth in Hj.
    destruct (Nat.ltb_spec j n) as [Hlt|Hge].
    + apply (thread_wf_mono (own e)); [exact Hown|exact (proj1 Hcw j t' Hj)].
    + destruct (Nat.eqb_spec j n) as [->|Hne]; [|discriminate Hj]. injection Hj as <-.
      split; [|split].
      * intros u. destruct (Nat.eq_dec u n) as [->|Hu]; [rewrite Hown_n; lia|].
        rewrite Hown_lt by exact Hu. rewrite Hc, vv_get_inc_other by congruence.
        rewrite vv_get_join, vv_new_get. cbn [Nat.max]. apply (Hpc _ Hcw).
      * rewrite Hr. apply bndf_new.
      * rewrite Hc, vv_inc_length, vv_join_length, vv_new_length. lia.
  - intros i o Hi. right. exists i. exact Hi.
Qed.

(* ---- objects, seq-cst clock, lazy statics ---- *)
Lemma own_objects e e' : e_threads e' = e_threads e -> forall u, own e' u = own e u.
Proof. intros H u. unfold own, caus_of, get_thread. rewrite H. reflexivity. Qed.

Lemma ck_upd_object_f_k e0 e i f :
  (forall w o, CWw w e -> nth_error (e_objects e) i = Some o -> obj_wf w (f o)) ->
  ck e0 e -> ck e0 (upd_object e i f).
Proof.
  intros Hf. apply ck_k. intros Hcw.
  assert (Hown : forall u, own (upd_object e i f) u = own e u) by (apply own_objects; reflexivity).
  apply (clock_wf_step e); try (right; reflexivity); [exact Hcw|intros u; rewrite Hown; lia| |].
  - intros j t' Hj. apply (thread_wf_mono (own e)); [intros u; rewrite Hown; lia|].
    exact (proj1 Hcw j t' Hj).
  - intros j o Hj. rewrite e_objects_upd_object in Hj. destruct (Nat.eq_dec i j) as [->|Hne].
    + rewrite nth_error_list_upd_same in Hj. destruct (nth_error (e_objects e) j) as [o0|] eqn:Hn;
        cbn [option_map] in Hj; [|discriminate Hj]. injection Hj as <-. left.
      eapply obj_wf_mono; [|apply (Hf _ _ Hcw eq_refl)]. intros u. rewrite Hown. lia.
    + rewrite nth_error_list_upd_other in Hj by exact Hne. right. eauto.
Qed.

Lemma ck_upd_object_k e0 e i o' :
  (forall w, CWw w e -> obj_wf w o') -> ck e0 e -> ck e0 (upd_object e i (fun _ => o')).
Proof. intros Hf. apply ck_upd_object_f_k. intros w o Hw _. apply Hf, Hw. Qed.

Lemma ck_append_objects_k e0 e l :
  (forall w, CWw w e -> Forall (obj_wf w) l) ->
  ck e0 e -> ck e0 (ex_set_objects e (e_objects e ++ l)).
Proof.
  intros Hl. apply ck_k. intros Hcw.
  assert (Hown : forall u, own (ex_set_objects e (e_objects e ++ l)) u = own e u)
    by (apply own_objects; reflexivity).
  apply (clock_wf_step e); try (right; reflexivity); [exact Hcw|intros u; rewrite Hown; lia| |].
  - intros j t' Hj. apply (thread_wf_mono (own e)); [intros u; rewrite Hown; lia|].
    exact (proj1 Hcw j t' Hj).
  - intros j o Hj. change (nth_error (e_objects e ++ l) j = Some o) in Hj.
    destruct (Nat.lt_ge_cases j (length (e_objects e))) as [Hlt|Hge].
    + rewrite nth_error_app1 in Hj by exact Hlt. right. eauto.
    + rewrite nth_error_app2 in Hj by exact Hge. apply nth_error_In in Hj. left.
      pose proof (Hl _ Hcw) as Hall. rewrite Forall_forall in Hall.
      eapply obj_wf_mono; [|apply Hall, Hj]. intros u. rewrite Hown. lia.
Qed.

Lemma ck_set_seqcst_k e0 e v :
  (forall w, CWw w e -> bndf w v) -> ck e0 e -> ck e0 (ex_set_seqcst e v).
Proof.
  intros Hv. apply ck_k. intros Hcw.
  apply (clock_wf_step e); try (right; reflexivity); [exact Hcw|intros u; apply Nat.le_refl| | |].
  - intros j t' Hj. exact (proj1 Hcw j t' Hj).
  - intros j o Hj. right. eauto.
  - left. exact (Hv _ Hcw).
Qed.

Lemma ck_set_lazy_k e0 e l :
  (forall w, CWw w e -> lazy_wf w l) -> ck e0 e -> ck e0 (ex_set_lazy e l).
Proof.
  intros Hv. apply ck_k. intros Hcw.
  apply (clock_wf_step e); try (right; reflexivity); [exact Hcw|intros u; apply Nat.le_refl| | |].
  - intros j t' Hj. exact (proj1 Hcw j t' Hj).
  - intros j o Hj. right. eauto.
  - left. exact (Hv _ Hcw).
Qed.

(* ---- the helpers of Ops.v ---- *)
Lemma ck_set_path_k e0 e x : ck e0 e -> ck e0 (ex_set_path e x).
Proof. apply ck_same_k; reflexivity. Qed.
Lemma ck_set_active_k e0 e x : ck e0 e -> ck e0 (ex_set_active e x).
Proof. apply ck_same_k; reflexivity. Qed.
Lemma ck_set_spawned_k e0 e x : ck e0 e -> ck e0 (ex_set_spawned e x).
Proof. apply ck_same_k; reflexivity. Qed.
Lemma ck_set_joined_k e0 e x : ck e0 e -> ck e0 (ex_set_joined e x).
Proof. apply ck_same_k; reflexivity. Qed.
Lemma ck_set_log_k e0 e x : ck e0 e -> ck e0 (ex_set_log e x).
Proof. apply ck_same_k; reflexivity. Qed.
Lemma ck_set_h_k e0 e x : ck e0 e -> ck e0 (ex_set_h e x).
Proof. apply ck_same_k; reflexivity. Qed.
Lemma ck_upd_hobj_k e0 e i f : ck e0 e -> ck e0 (upd_hobj e i f).
Proof. apply ck_same_k; reflexivity. Qed.
Lemma ck_set_slot_k e0 e k i b : ck e0 e -> ck e0 (set_slot e k i b).
Proof. apply ck_same_k; reflexivity. Qed.
Lemma ck_log_op_k e0 e me r : ck e0 e -> ck e0 (log_op e me r).
Proof. unfold log_op. destruct (get_thread e me); [apply ck_same_k; reflexivity|auto]. Qed.
Lemma ck_log_poll_k e0 e me : ck e0 e -> ck e0 (log_poll e me).
Proof. unfold log_poll. destruct (get_thread e me); [apply ck_same_k; reflexivity|auto]. Qed.

Lemma tstep_keep e t t' : t_caus t' = t_caus t -> t_rel t' = t_rel t -> tstep e t t'.
Proof. intros H1 H2. split; left; assumption. Qed.

Lemma tstep_join e t t' c :
  t_caus t' = vv_join (t_caus t) c -> t_rel t' = t_rel t -> (forall w, CWw w e -> bndf w c) ->
  tstep e t t'.
Proof. intros H1 H2 H3. split; [right; exists c; auto|left; exact H2]. Qed.

Lemma t_rel_set_unparked t : t_rel (set_unparked t) = t_rel t.
Proof.
  unfold set_unparked. destruct (is_parked t); [reflexivity|]. destruct (is_terminated t); reflexivity.
Qed.
Lemma t_rel_thread_unpark t c : t_rel (thread_unpark t c) = t_rel t.
Proof. unfold thread_unpark. rewrite t_rel_set_unparked. reflexivity. Qed.

(* [bnd Hw]: a view built from views of the state is bounded *)
Ltac bnd Hw :=
  first
    [ apply bndf_new
    | exact (CWw_caus_of _ _ _ Hw)
    | exact (CWw_rel_of _ _ _ Hw)
    | exact (CWw_seqcst _ _ Hw)
    | assumption
    | match goal with
      | Hg : get_mutex _ ?m = Some ?s |- bndf _ (mx_sync ?s) => exact (CWw_get_mutex _ _ _ _ Hw Hg)
      | Hg : get_rw _ ?m = Some ?s |- bndf _ (rw_sync ?s) => exact (CWw_get_rw _ _ _ _ Hw Hg)
      | Hg : get_notify _ ?m = Some ?s |- bndf _ (nt_sync ?s) => exact (CWw_get_notify _ _ _ _ Hw Hg)
      | Hg : get_arc _ ?m = Some ?s |- bndf _ (arc_sync ?s) => exact (CWw_get_arc _ _ _ _ Hw Hg)
      | Hg : get_chan _ ?m = Some ?s |- bndf _ (ch_sender_sync ?s) =>
          exact (proj1 (CWw_get_chan _ _ _ _ Hw Hg))
      | Ht : get_thread _ ?j = Some ?t |- bndf _ (t_caus ?t) => exact (proj1 (CWw_thread _ _ _ _ Hw Ht))
      | Ht : get_thread _ ?j = Some ?t |- bndf _ (t_rel ?t) => exact (proj2 (CWw_thread _ _ _ _ Hw Ht))
      end
    | match goal with
      | |- bndf _ (sync_load _ _ _) => apply bndf_sync_load; bnd Hw
      | |- bndf _ (sync_store _ _ _ _) => apply bndf_sync_store; bnd Hw
      | |- bndf _ (vv_join _ _) => apply bndf_join; bnd Hw
      | |- bndf _ (fence_acq _ _ _) => apply (fence_acq_wf _ _ _ Hw); bnd Hw
      end ].

Ltac bnd_side :=
  let w := fresh "w" in
  let Hw := fresh "Hw" in
  intros w Hw; bnd Hw.

Ltac tstep_tac :=
  intros; cbv beta;
  repeat match goal with
         | |- context [match ?x with _ => _ end] => destruct x
         end;
  first [ apply tstep_refl
        | apply tstep_keep;
          [first [reflexivity|apply t_caus_set_unparked]|first [reflexivity|apply t_rel_set_unparked]]
        | eapply tstep_join;
          [first [reflexivity|apply t_caus_thread_unpark]
          |first [reflexivity|apply t_rel_thread_unpark]
          |bnd_side]
        | split; [left; reflexivity|right; reflexivity] ].

Lemma ck_push_cont_k e0 e me ms : ck e0 e -> ck e0 (push_cont e me ms).
Proof. apply ck_upd_thread_k. tstep_tac. Qed.
Lemma ck_push_guard_k e0 e me k m : ck e0 e -> ck e0 (push_guard e me k m).
Proof. apply ck_upd_thread_k. tstep_tac. Qed.
Lemma ck_drop_guard_k e0 e me k m : ck e0 e -> ck e0 (drop_guard e me k m).
Proof. apply ck_upd_thread_k. tstep_tac. Qed.

Lemma ck_threads_unpark_k e0 e me id : ck e0 e -> ck e0 (threads_unpark e me id).
Proof. unfold threads_unpark. destruct (Nat.eqb id me); apply ck_upd_thread_k; tstep_tac. Qed.

Lemma ck_fold_unpark_k me l : forall e0 e,
  ck e0 e -> ck e0 (fold_left (fun e t => threads_unpark e me t) l e).
Proof.
  induction l as [|x l IH]; intros e0 e H; cbn [fold_left]; [exact H|].
  apply IH, ck_threads_unpark_k, H.
Qed.

Lemma obj_wf_set_last_access w o act tid pid v : obj_wf w o -> obj_wf w (set_last_access o act tid pid v).
Proof. destruct o; cbn [set_last_access obj_wf]; try (intros H; exact H); destruct act; intros H; exact H. Qed.

Lemma ck_sched_note_k e0 e nx pid th : ck e0 e -> ck e0 (sched_note e nx pid th).
Proof.
  intros H. unfold sched_note. destruct (t_op th) as [op|]; [|exact H].
  destruct (nth_error (e_objects e) (op_obj op)) as [o|]; [|exact H]. cbv zeta.
  apply ck_upd_object_f_k.
  - intros w o' Hw Ho'. apply obj_wf_set_last_access. destruct Hw as (_ & Ho & _). exact (Ho _ _ Ho').
  - apply ck_upd_thread_k; [tstep_tac|exact H].
Qed.

Lemma schedule_ck e : ck e (res_exec (fst (schedule e))).
Proof.
  destruct (schedule_cases e)
    as [(c & ->)|[(x & ->)|[(p1 & x & Hd & ->)|(curr & cur_th & p1 & p2 & next & Hp & ->)]]];
    cbn [fst res_exec]; try apply ck_refl.
  - apply ck_set_path_k, ck_refl.
  - assert (Hb : ck e (sched_base e p2 next))
      by (unfold sched_base; apply ck_set_active_k, ck_set_path_k, ck_refl).
    revert Hb. generalize (sched_base e p2 next). intros e1 Hb.
    unfold sched_post. destruct next as [nx|].
    + destruct (nth_error (e_threads e1) nx) as [th|]; cbn [fst res_exec]; [|exact Hb].
      unfold reactivate. apply ck_mapi_k; [tstep_tac|]. apply ck_sched_note_k, Hb.
    + destruct (forallb is_terminated (e_threads e1)); cbn [fst res_exec]; exact Hb.
Qed.

Lemma schedule_ck_k e0 e : ck e0 e -> ck e0 (res_exec (fst (schedule e))).
Proof. apply ck_k, schedule_ck. Qed.

Lemma do_branch_ck_k e0 e me obj act blk :
  ck e0 e -> ck e0 (res_exec (do_branch e me obj act blk)).
Proof. intros H. unfold do_branch. apply schedule_ck_k. apply ck_upd_thread_k; [tstep_tac|exact H]. Qed.

Lemma do_park_ck_k e0 e me : ck e0 e -> ck e0 (res_exec (do_park e me)).
Proof.
  intros H. unfold do_park. destruct (get_thread e me) as [t|]; [|exact H].
  destruct (t_token t); cbn [res_exec].
  - apply ck_upd_thread_k; [tstep_tac|exact H].
  - apply schedule_ck_k. apply ck_upd_thread_k; [tstep_tac|exact H].
Qed.

Lemma do_yield_ck_k e0 e me : ck e0 e -> ck e0 (res_exec (do_yield e me)).
Proof. intros H. unfold do_yield. apply schedule_ck_k. apply ck_upd_thread_k; [tstep_tac|exact H]. Qed.

(* side conditions about the object written *)
Ltac obj_side :=
  let w := fresh "w" in
  let Hw := fresh "Hw" in
  intros w Hw; cbn [obj_wf mx_sync rw_sync nt_sync arc_sync ch_sender_sync ch_recv_sync nt_set arc_set];
  first [ exact I | bnd Hw ].

Lemma set_caus_upd_object e i f me v :
  set_caus (upd_object e i f) me v = upd_object (set_caus e me v) i f.
Proof. reflexivity. Qed.

(* write the clock first, the object second: the side condition of the clock
   can then look the old object up *)
Ltac commute_caus :=
  match goal with
  | |- ck _ (set_caus (upd_object ?e ?i ?f) ?me ?v) =>
      rewrite (set_caus_upd_object e i f me v)
  end.

Lemma release_lock_ck_k e0 e me m : ck e0 e -> ck e0 (release_lock e me m).
Proof.
  intros H. unfold release_lock. destruct (get_mutex e m) as [s|] eqn:Hg; [|exact H]. cbv zeta.
  match goal with |- ck _ (match e_active ?E with _ => _ end) =>
    assert (H1 : ck e0 E) by (apply ck_upd_object_k; [obj_side|exact H]) end.
  destruct (e_active _); [|exact H1].
  apply ck_map_others_k; [tstep_tac|]. apply ck_upd_object_k; [|exact H1].
  intros w Hw. cbn [obj_wf mx_sync]. apply bndf_sync_store; [|bnd Hw|bnd Hw].
  destruct Hw as (_ & Ho & _). apply get_mutex_nth in Hg.
  assert (Hx : nth_error (e_objects (upd_object e m (fun _ => OMutex (mkMutex (mx_seqcst s) None (mx_last s) (mx_sync s))))) m
               = Some (OMutex (mkMutex (mx_seqcst s) None (mx_last s) (mx_sync s)))).
  { rewrite e_objects_upd_object, nth_error_list_upd_same, Hg. reflexivity. }
  exact (Ho _ _ Hx).
Qed.

Lemma post_acquire_ck e me m : ck e (fst (post_acquire e me m)).
Proof.
  unfold post_acquire. destruct (get_mutex e m) as [s|] eqn:Hg; [|apply ck_refl].
  destruct (is_some (mx_lock s)); cbn [fst]; [apply ck_refl|].
  apply ck_map_others_k; [tstep_tac|]. commute_caus.
  apply ck_upd_object_k; [obj_side|].
  apply ck_set_caus_k; [bnd_side|apply sync_load_keeps|apply sync_load_length|apply ck_refl].
Qed.

Lemma post_acquire_read_ck e me r : ck e (fst (post_acquire_read e me r)).
Proof.
  unfold post_acquire_read. destruct (get_rw e r) as [s|] eqn:Hg; [|apply ck_refl].
  destruct (rw_lock s) as [[rs|w0]|]; cbn [fst]; try apply ck_refl.
  all: apply ck_map_others_k; [tstep_tac|]; commute_caus;
    (apply ck_upd_object_k; [obj_side|]);
    apply ck_set_caus_k; [bnd_side|apply sync_load_keeps|apply sync_load_length|apply ck_refl].
Qed.

Lemma post_acquire_write_ck e me r : ck e (fst (post_acquire_write e me r)).
Proof.
  unfold post_acquire_write. destruct (get_rw e r) as [s|] eqn:Hg; [|apply ck_refl].
  destruct (rw_lock s) as [lk0|]; cbn [fst]; try apply ck_refl.
  apply ck_map_others_k; [tstep_tac|]; commute_caus;
    (apply ck_upd_object_k; [obj_side|]);
    apply ck_set_caus_k; [bnd_side|apply sync_load_keeps|apply sync_load_length|apply ck_refl].
Qed.

Lemma release_read_ck e me r : ck e (res_exec (release_read e me r)).
Proof.
  unfold release_read. destruct (get_rw e r) as [s|] eqn:Hg; [|apply ck_refl]. cbv zeta.
  destruct (rw_lock s) as [[rs|w0]|]; cbn [res_exec]; try apply ck_refl.
  destruct (set_remove me rs); cbn [res_exec].
  - apply ck_map_others_k; [tstep_tac|]. apply ck_upd_object_k; [obj_side|apply ck_refl].
  - apply ck_upd_object_k; [obj_side|apply ck_refl].
Qed.

Lemma release_write_ck e me r : ck e (res_exec (release_write e me r)).
Proof.
  unfold release_write. destruct (get_rw e r) as [s|] eqn:Hg; [|apply ck_refl]. cbn [res_exec].
  apply ck_map_others_k; [tstep_tac|]. apply ck_upd_object_k; [obj_side|apply ck_refl].
Qed.

Lemma choose_store_same e seed :
  e_threads (fst (choose_store e seed)) = e_threads e /\
  e_objects (fst (choose_store e seed)) = e_objects e /\
  e_seqcst (fst (choose_store e seed)) = e_seqcst e /\
  e_lazy (fst (choose_store e seed)) = e_lazy e.
Proof.
  unfold choose_store.
  repeat match goal with
         | |- context [match ?x with _ => _ end] =>
             lazymatch x with
             | context [match _ with _ => _ end] => fail
             | _ => destruct x
             end
         end; cbn [fst]; auto.
Qed.

Lemma choose_store_ck e seed : ck e (fst (choose_store e seed)).
Proof. destruct (choose_store_same e seed) as (H1 & H2 & H3 & H4). apply ck_same; assumption. Qed.

Lemma CWw_same w e e' :
  e_threads e' = e_threads e -> e_objects e' = e_objects e ->
  e_seqcst e' = e_seqcst e -> e_lazy e' = e_lazy e -> CWw w e' -> CWw w e.
Proof. intros H1 H2 H3 H4. unfold CWw. rewrite H1, H2, H3, H4. auto. Qed.

(* ---- atomic accesses ---- *)
Lemma caus_of_thread e me t : get_thread e me = Some t -> caus_of e me = t_caus t.
Proof. intros H. unfold caus_of. rewrite H. reflexivity. Qed.

Lemma CWw_set_caus_me w e me t v :
  get_thread e me = Some t -> CWw w (set_caus e me v) -> bndf w v.
Proof.
  intros Ht (Hth & _). unfold get_thread in Ht.
  assert (Hi : nth_error (e_threads (set_caus e me v)) me = Some (th_set_caus t v)).
  { unfold set_caus. rewrite e_threads_upd_thread, nth_error_list_upd_same, Ht. reflexivity. }
  exact (proj1 (Hth _ _ Hi)).
Qed.

(* the load half shared by load / fetch_update / block_on *)
Lemma load_core_ck E E1 me a s t idx o s' c' v :
  get_atomic E a = Some s -> get_thread E me = Some t ->
  e_threads E1 = e_threads E -> e_objects E1 = e_objects E ->
  e_seqcst E1 = e_seqcst E -> e_lazy E1 = e_lazy E ->
  atomic_load s me (t_caus t) idx o = inl (s', c', v) ->
  ck E (set_caus (upd_object E1 a (fun _ => OAtomic s')) me c').
Proof.
  intros Hg Ht H1 H2 H3 H4 Hl.
  assert (Hx : forall w, CWw w E -> atomic_wf w s' /\ bndf w c' /\ vle (t_caus t) c' /\
                                   length (t_caus t) <= length c').
  { intros w Hw. eapply atomic_load_wf; [exact Hl|exact (CWw_get_atomic _ _ _ _ Hw Hg)|].
    exact (proj1 (CWw_thread _ _ _ _ Hw Ht)). }
  assert (Ht1 : get_thread E1 me = Some t) by (unfold get_thread; rewrite H1; exact Ht).
  assert (Hc : caus_of E1 me = t_caus t) by (apply caus_of_thread, Ht1).
  assert (Hmono : vle (t_caus t) c') by (eapply atomic_load_monotone; exact Hl).
  rewrite set_caus_upd_object. apply ck_upd_object_k.
  - intros w Hw. cbn [obj_wf].
    assert (Hs : atomic_wf w s).
    { destruct Hw as (_ & Hob & _). apply get_atomic_nth in Hg. rewrite <- H2 in Hg. exact (Hob _ _ Hg). }
    pose proof (CWw_set_caus_me _ _ _ _ _ Ht1 Hw) as Hb.
    exact (proj1 (atomic_load_wf _ _ _ _ _ _ _ _ _ Hl Hs (bndf_vle _ _ _ Hmono Hb))).
  - apply ck_set_caus_k.
    + intros w Hw. apply Hx. exact (CWw_same w E E1 H1 H2 H3 H4 Hw).
    + rewrite Hc. exact Hmono.
    + rewrite Hc. rewrite atomic_load_eq in Hl.
      destruct (track_load s (t_caus t)); [|discriminate Hl]. injection Hl as _ <- _.
      apply sync_load_length.
    + apply ck_same; assumption.
Qed.

Lemma rmw_core_ck E E1 me a s t idx so fo f s' c' prev ok :
  get_atomic E a = Some s -> get_thread E me = Some t ->
  e_threads E1 = e_threads E -> e_objects E1 = e_objects E ->
  e_seqcst E1 = e_seqcst E -> e_lazy E1 = e_lazy E ->
  atomic_rmw s me (t_caus t) (t_rel t) idx so fo f = inl (s', c', prev, ok) ->
  ck E (set_caus (upd_object E1 a (fun _ => OAtomic s')) me c').
Proof.
  intros Hg Ht H1 H2 H3 H4 Hl.
  assert (Ht1 : get_thread E1 me = Some t) by (unfold get_thread; rewrite H1; exact Ht).
  assert (Hc : caus_of E1 me = t_caus t) by (apply caus_of_thread, Ht1).
  assert (Hmono : vle (t_caus t) c') by (eapply atomic_rmw_monotone; exact Hl).
  rewrite set_caus_upd_object. apply ck_upd_object_k.
  - intros w Hw. cbn [obj_wf].
    assert (Hs : atomic_wf w s).
    { destruct Hw as (_ & Hob & _). apply get_atomic_nth in Hg. rewrite <- H2 in Hg. exact (Hob _ _ Hg). }
    pose proof (CWw_set_caus_me _ _ _ _ _ Ht1 Hw) as Hb.
    assert (Hr : bndf w (t_rel t)).
    { destruct Hw as (Hth & _). unfold get_thread in Ht1.
      assert (Hi : nth_error (e_threads (set_caus E1 me c')) me = Some (th_set_caus t c')).
      { unfold set_caus. rewrite e_threads_upd_thread, nth_error_list_upd_same, Ht1. reflexivity. }
      exact (proj1 (proj2 (Hth _ _ Hi))). }
    exact (proj1 (atomic_rmw_wf _ _ _ _ _ _ _ _ _ _ _ _ _ Hl Hs (bndf_vle _ _ _ Hmono Hb) Hr)).
  - assert (Hx : forall w, CWw w E -> bndf w c' /\ length (t_caus t) <= length c').
    { intros w Hw. destruct (CWw_thread _ _ _ _ Hw Ht) as [Hb1 Hb2].
      destruct (atomic_rmw_wf _ _ _ _ _ _ _ _ _ _ _ _ _ Hl (CWw_get_atomic _ _ _ _ Hw Hg) Hb1 Hb2)
        as (_ & Ha & _ & Hb). auto. }
    apply ck_set_caus_k.
    + intros w Hw. apply Hx. exact (CWw_same w E E1 H1 H2 H3 H4 Hw).
    + rewrite Hc. exact Hmono.
    + rewrite Hc. rewrite atomic_rmw_eq in Hl.
      destruct (track_load s (t_caus t)); [|discriminate Hl]. cbv zeta in Hl.
      destruct (f _); [destruct (track_store _ _); [|discriminate Hl]|];
        injection Hl as _ <- _ _; apply sync_load_length.
    + apply ck_same; assumption.
Qed.

(* ---- one micro-operation ---- *)
Lemma CWw_upd_object_inv w e i o' o :
  CWw w (upd_object e i (fun _ => o')) -> nth_error (e_objects e) i = Some o -> obj_wf w o'.
Proof.
  intros (_ & Hob & _) Hi. apply (Hob i).
  rewrite e_objects_upd_object, nth_error_list_upd_same, Hi. reflexivity.
Qed.

Lemma CWw_lazy_find w e lz f k ci sy :
  CWw w e -> e_lazy e = Some lz -> find f lz = Some (k, (ci, sy)) -> bndf w sy.
Proof.
  intros (_ & _ & _ & Hl) Hz Hf. rewrite Hz in Hl. cbn [lazy_wf] in Hl.
  apply find_some in Hf. destruct Hf as [Hin _]. rewrite Forall_forall in Hl. exact (Hl _ Hin).
Qed.

(* if the state is [upd_object e i (fun _ => o')], remember that o' is bounded *)
Ltac pre_obj Hw :=
  try match type of Hw with
      | CWw ?w (upd_object ?e ?i (fun _ => ?o')) =>
          let H := fresh "Hobj" in
          assert (H : obj_wf w o')
            by (first [ match goal with Hg : get_mutex e i = Some _ |- _ =>
                          exact (CWw_upd_object_inv _ _ _ _ _ Hw (get_mutex_nth _ _ _ Hg)) end
                      | match goal with Hg : get_rw e i = Some _ |- _ =>
                          exact (CWw_upd_object_inv _ _ _ _ _ Hw (get_rw_nth _ _ _ Hg)) end
                      | match goal with Hg : get_notify e i = Some _ |- _ =>
                          exact (CWw_upd_object_inv _ _ _ _ _ Hw (get_notify_nth _ _ _ Hg)) end
                      | match goal with Hg : get_arc e i = Some _ |- _ =>
                          exact (CWw_upd_object_inv _ _ _ _ _ Hw (get_arc_nth _ _ _ Hg)) end
                      | match goal with Hg : get_chan e i = Some _ |- _ =>
                          exact (CWw_upd_object_inv _ _ _ _ _ Hw (get_chan_nth _ _ _ Hg)) end ]);
          cbn [obj_wf mx_sync rw_sync nt_sync arc_sync ch_sender_sync ch_recv_sync nt_set arc_set] in H;
          try (destruct H as [? ?])
      end.

Ltac bnd2 Hw :=
  first
    [ bnd Hw
    | match goal with
      | Hl : e_lazy _ = Some ?lz, Hf : find _ ?lz = Some (_, (_, ?sy)) |- bndf _ ?sy =>
          exact (CWw_lazy_find _ _ _ _ _ _ _ Hw Hl Hf)
      end
    | match goal with
      | |- bndf _ (sync_load _ _ _) => apply bndf_sync_load; bnd2 Hw
      | |- bndf _ (sync_store _ _ _ _) => apply bndf_sync_store; bnd2 Hw
      | |- bndf _ (vv_join _ _) => apply bndf_join; bnd2 Hw
      end ].

Ltac bnd_side2 :=
  let w := fresh "w" in
  let Hw := fresh "Hw" in
  intros w Hw; pre_obj Hw; bnd2 Hw.

Ltac vle_side :=
  first [ apply sync_load_keeps | apply vle_join_l | apply fence_acq_keeps | apply vle_refl ].
Ltac len_side :=
  first [ apply sync_load_length | (rewrite vv_join_length; lia) | apply fence_acq_length | lia ].

(* atomic_wf / cell_wf of a state computed by the track functions *)
Ltac awf Hw :=
  match goal with
  | Hg : get_atomic _ ?a = Some ?s |- atomic_wf _ ?s => exact (CWw_get_atomic _ _ _ _ Hw Hg)
  | H : track_store ?s ?c = inl ?s1 |- atomic_wf _ ?s1 =>
      apply (track_store_wf _ _ _ _ H); [awf Hw|bnd Hw]
  | H : track_load ?s ?c = inl ?s1 |- atomic_wf _ ?s1 =>
      apply (track_load_wf _ _ _ _ H); [awf Hw|bnd Hw]
  | H : track_unsync_load ?s ?c = inl ?s1 |- atomic_wf _ ?s1 =>
      apply (track_unsync_load_wf _ _ _ _ H); [awf Hw|bnd Hw]
  | H : track_unsync_mut ?s ?c = inl ?s1 |- atomic_wf _ ?s1 =>
      apply (track_unsync_mut_wf _ _ _ _ H); [awf Hw|bnd Hw]
  | |- atomic_wf _ (atomic_store _ _ _ _ _ _ _) =>
      unfold atomic_store; apply atomic_store_from_wf; [awf Hw|bnd Hw|bnd Hw|bnd Hw]
  | |- atomic_wf ?w (at_set_stores ?s1 (list_upd (at_stores ?s1) _ _) _) =>
      let H := fresh "Hs1" in
      assert (H : atomic_wf w s1) by awf Hw;
      apply set_stores_wf;
      [exact H|apply Forall_list_upd; [exact (proj1 H)|let x := fresh in let Hx := fresh in intros x Hx; exact Hx]]
  end.

Ltac cwf Hw :=
  first
    [ match goal with
      | Hg : get_cell _ ?u = Some ?s |- cell_wf _ ?s => exact (CWw_get_cell _ _ _ _ Hw Hg)
      | H : cell_track_read ?s ?c = inl ?s1 |- cell_wf _ ?s1 =>
          apply (cell_track_read_wf _ _ _ _ H); [cwf Hw|bnd Hw]
      | H : cell_track_write ?s ?c = inl ?s1 |- cell_wf _ ?s1 =>
          apply (cell_track_write_wf _ _ _ _ H); [cwf Hw|bnd Hw]
      end ].

Ltac obj_side2 :=
  let w := fresh "w" in
  let Hw := fresh "Hw" in
  intros w Hw; cbn [obj_wf mx_sync rw_sync nt_sync arc_sync ch_sender_sync ch_recv_sync nt_set arc_set];
  first [ exact I | bnd Hw | awf Hw | cwf Hw
        | (* a send: the new view is appended to the queue *)
          match goal with
          | Hg : get_chan _ ?h = Some ?s |- _ /\ Forall _ (ch_recv_sync ?s ++ _) =>
              split; [bnd Hw|apply Forall_app; split;
                              [exact (proj2 (CWw_get_chan _ _ _ _ Hw Hg))|repeat constructor; bnd Hw]]
          end
        | (* a send to a disconnected channel: only the sender-side view moves *)
          match goal with
          | Hg : get_chan _ ?h = Some ?s |- _ /\ Forall _ (ch_recv_sync ?s) =>
              split; [bnd Hw|exact (proj2 (CWw_get_chan _ _ _ _ Hw Hg))]
          end ].

Ltac newobj_side :=
  let w := fresh "w" in
  let Hw := fresh "Hw" in
  intros w Hw; repeat constructor; cbn [obj_wf nt_sync arc_sync cell_wf cell_new ce_read ce_write];
  try bnd Hw.

Ltac lazy_side :=
  let w := fresh "w" in
  let Hw := fresh "Hw" in
  intros w Hw; cbn [lazy_wf];
  first [ exact I
        | apply Forall_app; split;
          [ match goal with Hl : e_lazy ?e0 = Some ?lz |- Forall _ ?lz =>
              let H := fresh in
              assert (H : lazy_wf w (e_lazy e0)) by exact (proj2 (proj2 (proj2 Hw)));
              rewrite Hl in H; exact H end
          | repeat constructor; cbn [snd]; bnd2 Hw ] ].

Ltac cclose_step :=
  match goal with
  | |- ck ?e ?e => apply ck_refl
  | H : ck ?E ?x |- ck _ ?x => apply (ck_trans _ E x); [|exact H]
  | |- ck _ (log_op _ _ _) => apply ck_log_op_k
  | |- ck _ (log_poll _ _) => apply ck_log_poll_k
  | |- ck _ (push_cont _ _ _) => apply ck_push_cont_k
  | |- ck _ (push_guard _ _ _ _) => apply ck_push_guard_k
  | |- ck _ (drop_guard _ _ _ _) => apply ck_drop_guard_k
  | |- ck _ (causality_inc _ _) => apply ck_causality_inc_k
  | |- ck _ (set_slot _ _ _ _) => apply ck_set_slot_k
  | |- ck _ (release_lock _ _ _) => apply release_lock_ck_k
  | |- ck _ (threads_unpark _ _ _) => apply ck_threads_unpark_k
  | |- ck _ (fold_left _ _ _) => apply ck_fold_unpark_k
  | |- ck _ (ex_set_path _ _) => apply ck_set_path_k
  | |- ck _ (ex_set_active _ _) => apply ck_set_active_k
  | |- ck _ (ex_set_spawned _ _) => apply ck_set_spawned_k
  | |- ck _ (ex_set_joined _ _) => apply ck_set_joined_k
  | |- ck _ (ex_set_log _ _) => apply ck_set_log_k
  | |- ck _ (ex_set_seqcst _ _) => apply ck_set_seqcst_k; [bnd_side2|]
  | |- ck _ (ex_set_lazy _ _) => apply ck_set_lazy_k; [lazy_side|]
  | |- ck _ (ex_set_objects ?e (e_objects ?e ++ _)) => apply ck_append_objects_k; [newobj_side|]
  | |- ck _ (ex_set_threads ?e (e_threads ?e ++ [_])) =>
      eapply ck_spawn_k; [reflexivity|reflexivity|bnd_side|]
  | |- ck _ (upd_object _ _ _) => apply ck_upd_object_k; [obj_side2|]
  | |- ck _ (upd_thread _ _ _) => apply ck_upd_thread_k; [tstep_tac|]
  | |- ck _ (upd_hobj _ _ _) => apply ck_upd_hobj_k
  | |- ck _ (set_caus _ _ _) => apply ck_set_caus_k; [bnd_side2|vle_side|len_side|]
  | |- ck _ (map_others _ _ _ _) => apply ck_map_others_k; [tstep_tac|]
  end.

(* (the two rewrites: the dead first write of a disconnected MSendPost) *)
Ltac cclose :=
  cbn [res_exec lp_exec];
  rewrite ?upd_object_map_others_upd_object_const, ?upd_object_upd_object_const;
  repeat cclose_step.

Ltac cstep :=
  match goal with
  | |- ck _ (res_exec (fst (schedule _))) => apply schedule_ck_k
  | |- ck _ (res_exec (do_branch _ _ _ _ _)) => apply do_branch_ck_k
  | |- ck _ (res_exec (do_park _ _)) => apply do_park_ck_k
  | |- ck _ (res_exec (do_yield _ _)) => apply do_yield_ck_k
  | |- context [post_acquire ?e ?me ?m] =>
      let H := fresh "Hfr" in
      pose proof (post_acquire_ck e me m) as H;
      destruct (post_acquire e me m); cbn [fst] in H
  | |- context [post_acquire_read ?e ?me ?m] =>
      let H := fresh "Hfr" in
      pose proof (post_acquire_read_ck e me m) as H;
      destruct (post_acquire_read e me m); cbn [fst] in H
  | |- context [post_acquire_write ?e ?me ?m] =>
      let H := fresh "Hfr" in
      pose proof (post_acquire_write_ck e me m) as H;
      destruct (post_acquire_write e me m); cbn [fst] in H
  | |- context [release_read ?e ?me ?m] =>
      let H := fresh "Hfr" in
      pose proof (release_read_ck e me m) as H;
      destruct (release_read e me m); cbn [res_exec] in H
  | |- context [release_write ?e ?me ?m] =>
      let H := fresh "Hfr" in
      pose proof (release_write_ck e me m) as H;
      destruct (release_write e me m); cbn [res_exec] in H
  | |- context [match ?x with _ => _ end] =>
      lazymatch x with
      | context [match _ with _ => _ end] => fail
      | _ => destruct x eqn:?
      end
  end; cbv beta iota.

Ltac ck_tac :=
  cbn [exec_micro]; unfold lift_path, mbind; cbv beta iota;
  repeat cstep; cclose.

Lemma load_post_ck e me a o : ck e (lp_exec (load_post e me a o)).
Proof.
  unfold load_post.
  assert (H0 : ck e (causality_inc e me)) by (apply ck_causality_inc_k, ck_refl).
  revert H0. generalize (causality_inc e me). intros E H0.
  destruct (get_atomic E a) as [s|] eqn:Hg; [|exact H0].
  destruct (get_thread E me) as [t|] eqn:Ht; [|exact H0].
  destruct (choose_store_same E (match_load_to_stores s me (t_caus t) (t_last_yield t) o))
    as (H1 & H2 & H3 & H4).
  destruct (choose_store E _) as [E1 [idx|pn]]; cbn [fst] in *.
  - destruct (atomic_load s me (t_caus t) idx o) as [[[s' c'] v]|pn] eqn:Hl; cbn [lp_exec].
    + eapply ck_trans; [exact H0|]. eapply load_core_ck; eassumption.
    + eapply ck_trans; [exact H0|apply ck_same; assumption].
  - cbn [lp_exec]. eapply ck_trans; [exact H0|apply ck_same; assumption].
Qed.

Lemma load_micro_ck e me a o aw : ck e (res_exec (exec_micro e me (MLoadPost a o aw))).
Proof.
  cbn [exec_micro].
  assert (H0 : ck e (causality_inc e me)) by (apply ck_causality_inc_k, ck_refl).
  revert H0. generalize (causality_inc e me). intros E H0.
  destruct (get_atomic E a) as [s|] eqn:Hg; [|exact H0].
  destruct (get_thread E me) as [t|] eqn:Ht; [|exact H0].
  destruct (choose_store_same E (match_load_to_stores s me (t_caus t) (t_last_yield t) o))
    as (H1 & H2 & H3 & H4).
  destruct (choose_store E _) as [E1 [idx|pn]]; cbn [fst] in *.
  - destruct (atomic_load s me (t_caus t) idx o) as [[[s' c'] v]|pn] eqn:Hl; cbn [res_exec].
    + assert (Hc : ck e (set_caus (upd_object E1 a (fun _ => OAtomic s')) me c'))
        by (eapply ck_trans; [exact H0|]; eapply load_core_ck; eassumption).
      destruct aw as [want|]; [destruct (N.eqb v want)|]; cbn [res_exec];
        repeat first [apply ck_push_cont_k|apply ck_log_op_k]; exact Hc.
    + eapply ck_trans; [exact H0|apply ck_same; assumption].
  - cbn [res_exec]. eapply ck_trans; [exact H0|apply ck_same; assumption].
Qed.

Lemma fu_load_micro_ck e me a f v so fo :
  ck e (res_exec (exec_micro e me (MFuLoadPost a f v so fo))).
Proof.
  cbn [exec_micro].
  assert (H0 : ck e (causality_inc e me)) by (apply ck_causality_inc_k, ck_refl).
  revert H0. generalize (causality_inc e me). intros E H0.
  destruct (get_atomic E a) as [s|] eqn:Hg; [|exact H0].
  destruct (get_thread E me) as [t|] eqn:Ht; [|exact H0].
  destruct (choose_store_same E (match_load_to_stores s me (t_caus t) (t_last_yield t) fo))
    as (H1 & H2 & H3 & H4).
  destruct (choose_store E _) as [E1 [idx|pn]]; cbn [fst] in *.
  - destruct (atomic_load s me (t_caus t) idx fo) as [[[s' c'] prev]|pn] eqn:Hl; cbn [res_exec].
    + apply ck_push_cont_k. eapply ck_trans; [exact H0|]. eapply load_core_ck; eassumption.
    + eapply ck_trans; [exact H0|apply ck_same; assumption].
  - cbn [res_exec]. eapply ck_trans; [exact H0|apply ck_same; assumption].
Qed.

Lemma rmw_micro_ck e me a k so fo : ck e (res_exec (exec_micro e me (MRmwPost a k so fo))).
Proof.
  cbn [exec_micro].
  assert (H0 : ck e (causality_inc e me)) by (apply ck_causality_inc_k, ck_refl).
  revert H0. generalize (causality_inc e me). intros E H0.
  destruct (get_atomic E a) as [s|] eqn:Hg; [|exact H0].
  destruct (get_thread E me) as [t|] eqn:Ht; [|exact H0].
  destruct (choose_store_same E (match_rmw_to_stores s)) as (H1 & H2 & H3 & H4).
  destruct (choose_store E _) as [E1 [idx|pn]]; cbn [fst] in *.
  - destruct (atomic_rmw s me (t_caus t) (t_rel t) idx so fo (rmw_fun k))
      as [[[[s' c'] prev] ok]|pn] eqn:Hl; cbn [res_exec].
    + assert (Hc : ck e (set_caus (upd_object E1 a (fun _ => OAtomic s')) me c'))
        by (eapply ck_trans; [exact H0|]; eapply rmw_core_ck; eassumption).
      destruct k; try destruct ok; cbn [res_exec];
        repeat first [apply ck_push_cont_k|apply ck_log_op_k]; exact Hc.
    + eapply ck_trans; [exact H0|apply ck_same; assumption].
  - cbn [res_exec]. eapply ck_trans; [exact H0|apply ck_same; assumption].
Qed.

Lemma fence_micro_ck e me o : ck e (res_exec (exec_micro e me (MFence o))).
Proof.
  cbn [exec_micro].
  assert (H0 : ck e (causality_inc e me)) by (apply ck_causality_inc_k, ck_refl).
  destruct o; cbn [res_exec ord_acq ord_rel is_seq_cst]; try exact H0; apply ck_log_op_k.
  - (* Release *) cclose.
  - (* Acquire *) cclose.
  - (* AcqRel *) cclose.
  - (* SeqCst *)
    match goal with
    | |- ck _ (ex_set_seqcst (set_caus ?E me ?c) _) =>
        assert (HE : ck e E) by cclose; revert HE; generalize E; intros E1 HE
    end.
    assert (H1 : ck e (set_caus E1 me (vv_join (caus_of E1 me) (e_seqcst E1)))).
    { apply ck_set_caus_k; [bnd_side|apply vle_join_l|rewrite vv_join_length; lia|exact HE]. }
    apply ck_set_seqcst_k; [|exact H1].
    intros w Hw. apply bndf_join; [exact (CWw_seqcst _ _ Hw)|].
    destruct (get_thread E1 me) as [t|] eqn:Ht.
    + exact (CWw_set_caus_me _ _ _ _ _ Ht Hw).
    + apply bndf_join; [|exact (CWw_seqcst _ _ Hw)].
      unfold caus_of. rewrite Ht. apply bndf_new.
Qed.

Lemma recv_micro_ck e me h lg : ck e (res_exec (exec_micro e me (MRecvPost h lg))).
Proof.
  cbn [exec_micro]. destruct (get_chan e h) as [s|] eqn:Hg; [|apply ck_refl].
  destruct (ch_cnt s) as [|cnt]; [apply ck_refl|].
  destruct (ch_recv_sync s) as [|sy rest] eqn:Hq; [apply ck_refl|]. cbv zeta.
  match goal with
  | |- context [set_caus (upd_object e h ?f) me ?v] =>
      assert (H1 : ck e (set_caus (upd_object e h f) me v))
  end.
  { rewrite set_caus_upd_object. apply ck_upd_object_k.
    - intros w Hw. cbn [obj_wf ch_sender_sync ch_recv_sync].
      destruct (CWw_get_chan _ _ _ _ Hw Hg) as [Ha Hb]. rewrite Hq in Hb.
      split; [exact Ha|]. inversion Hb; assumption.
    - apply ck_set_caus_k; [|apply sync_load_keeps|apply sync_load_length|apply ck_refl].
      intros w Hw. apply bndf_sync_load; [exact (CWw_caus_of _ _ _ Hw)|].
      destruct (CWw_get_chan _ _ _ _ Hw Hg) as [_ Hb]. rewrite Hq in Hb. inversion Hb; assumption. }
  match goal with
  | |- context [if Nat.eqb cnt 0 then map_others ?E me ?p set_blocked else ?E] =>
      assert (H2 : ck e (if Nat.eqb cnt 0 then map_others E me p set_blocked else E))
        by (destruct (Nat.eqb cnt 0); [apply ck_map_others_k; [tstep_tac|exact H1]|exact H1]);
      revert H2; generalize (if Nat.eqb cnt 0 then map_others E me p set_blocked else E)
  end.
  intros E2 H2. destruct (ho_q (get_h E2 h)) as [|v q]; cbn [res_exec]; [exact H2|].
  destruct lg; [apply ck_log_op_k|]; apply ck_upd_hobj_k; exact H2.
Qed.

(* a nested access to one cell: two bumps of the own component, the outer
   tracking with the first clock, the inner ones with the second *)
Lemma cell_nested_micro_ck e me u k : ck e (res_exec (exec_micro e me (MCellNested u k))).
Proof.
  cbn [exec_micro].
  assert (H1 : ck e (causality_inc e me)) by (apply ck_causality_inc_k, ck_refl).
  revert H1. generalize (causality_inc e me). intros E1 H1.
  destruct (get_cell E1 u) as [s|] eqn:Hg; [|exact H1].
  destruct (ce_writing s); [exact H1|].
  destruct (negb (Nat.eqb k 0) && negb (Nat.eqb k 3) && negb (Nat.eqb (ce_reading s) 0)); [exact H1|].
  assert (Hout : forall s1,
            (if Nat.eqb k 0 || Nat.eqb k 3 then cell_track_read s (caus_of E1 me)
             else cell_track_write s (caus_of E1 me)) = inl s1 ->
            forall w, cell_wf w s -> bndf w (caus_of E1 me) -> cell_wf w s1).
  { intros s1 Ho w Hs Hc. destruct (Nat.eqb k 0 || Nat.eqb k 3);
      eauto using cell_track_read_wf, cell_track_write_wf. }
  destruct (if Nat.eqb k 0 || Nat.eqb k 3 then cell_track_read s (caus_of E1 me)
            else cell_track_write s (caus_of E1 me)) as [s1|pn] eqn:Ho; [|exact H1].
  specialize (Hout s1 eq_refl).
  assert (H2 : ck e (causality_inc E1 me)) by (apply ck_causality_inc_k, H1).
  assert (Hle : vle (caus_of E1 me) (caus_of (causality_inc E1 me) me)).
  { destruct (mono_causality_inc_k E1 E1 me (mono_refl E1)) as (_ & Hc & _). apply Hc. }
  assert (Hg2 : get_cell (causality_inc E1 me) u = Some s) by exact Hg.
  revert H2 Hle Hg2. generalize (causality_inc E1 me). intros E2 H2 Hle Hg2.
  destruct (Nat.eqb k 0); [exact H2|]. destruct (negb (Nat.eqb k 3)); [exact H2|].
  destruct (cell_track_read s1 (caus_of E2 me)) as [s2|pn] eqn:R2; [|exact H2].
  destruct (cell_track_read s2 (caus_of E2 me)) as [s3|pn] eqn:R3; [|exact H2].
  destruct (cell_track_read s3 (caus_of E2 me)) as [s4|pn] eqn:R4; [|exact H2].
  cbn [res_exec]. apply ck_log_op_k, ck_upd_object_k; [|exact H2].
  intros w Hw. cbn [obj_wf].
  pose proof (CWw_get_cell _ _ _ _ Hw Hg2) as Hs.
  pose proof (CWw_caus_of _ _ me Hw) as Hc2.
  pose proof (bndf_vle _ _ _ Hle Hc2) as Hc1.
  eapply cell_track_read_wf; [exact R4| |exact Hc2].
  eapply cell_track_read_wf; [exact R3| |exact Hc2].
  eapply cell_track_read_wf; [exact R2| |exact Hc2].
  apply Hout; assumption.
Qed.

Ltac cstep' :=
  first [ match goal with
          | |- context [load_post ?e ?me ?a ?o] =>
              let H := fresh "Hfr" in
              pose proof (load_post_ck e me a o) as H;
              destruct (load_post e me a o) as [[? ?]|[? ?]]; cbn [lp_exec] in H; cbv beta iota
          end
        | cstep ].

Ltac ck_tac' :=
  cbn [exec_micro]; unfold lift_path, mbind; cbv beta iota;
  repeat cstep'; cclose.

(* every micro-operation keeps the invariant; also for the state carried by MFail *)
Lemma exec_micro_ck e me m : ck e (res_exec (exec_micro e me m)).
Proof.
  destruct m;
    try apply load_micro_ck; try apply fu_load_micro_ck; try apply rmw_micro_ck;
    try apply fence_micro_ck; try apply recv_micro_ck; try apply cell_nested_micro_ck;
    timeout 60 ck_tac'.
Qed.

Theorem exec_micro_clock_wf e me m :
  clock_wf e -> clock_wf (res_exec (exec_micro e me m)).
Proof. apply exec_micro_ck. Qed.

Corollary exec_micro_clock_wf_ok e me m e' :
  clock_wf e -> exec_micro e me m = MOk e' -> clock_wf e'.
Proof. intros H Hx. pose proof (exec_micro_clock_wf e me m H) as H'. rewrite Hx in H'. exact H'. Qed.

Theorem schedule_clock_wf e : clock_wf e -> clock_wf (res_exec (fst (schedule e))).
Proof. apply schedule_ck. Qed.

(* ================================================================== *)
(* 4. The initial state and whole runs                                 *)
(* ================================================================== *)

Lemma atomic_new_wf w v s : atomic_new 0 vv_new vv_new v = inl s -> atomic_wf w s.
Proof.
  unfold atomic_new. intros H.
  match type of H with match track_unsync_mut ?s0 _ with _ => _ end = _ =>
    assert (H0 : atomic_wf w s0) end.
  { repeat split; cbn; try apply bndf_new. repeat (constructor; [apply bndf_new|]). constructor. }
  destruct (track_unsync_mut _ vv_new) as [s1|pn] eqn:Ht; [|discriminate H].
  injection H as <-. unfold atomic_store. apply atomic_store_from_wf; try apply bndf_new.
  eapply track_unsync_mut_wf; [exact Ht|exact H0|apply bndf_new].
Qed.

Lemma create_object_wf w d o : create_object d vv_new vv_new = inl o -> obj_wf w o.
Proof.
  destruct d; unfold create_object; intros H.
  1: { destruct (atomic_new 0 vv_new vv_new init) as [s|pn] eqn:Ha; [|discriminate H].
       injection H as <-. unfold obj_wf. eapply atomic_new_wf; exact Ha. }
  all: injection H as <-; unfold obj_wf, cell_wf, cell_new;
    cbn [mx_sync rw_sync nt_sync arc_sync ch_sender_sync ch_recv_sync ce_read ce_write];
    repeat split; try apply bndf_new; try constructor.
Qed.

Lemma create_objects_wf w ds : forall os, create_objects ds vv_new vv_new = inl os -> Forall (obj_wf w) os.
Proof.
  induction ds as [|d ds IH]; intros os H; cbn [create_objects] in H.
  - injection H as <-. constructor.
  - destruct (create_object d vv_new vv_new) as [o|pn] eqn:Ho; [|discriminate H].
    destruct (create_objects ds vv_new vv_new) as [os'|pn]; [|discriminate H]. injection H as <-.
    constructor; [eapply create_object_wf; exact Ho|apply IH; reflexivity].
Qed.

Theorem init_clock_wf p pa : clock_wf (init_exec p pa).
Proof.
  unfold clock_wf. generalize (own (init_exec p pa)). intros w. split; [|split; [|split]].
  - intros i t Hi. unfold init_exec in Hi. cbn [e_threads] in Hi.
    destruct i as [|i]; cbn [nth_error] in Hi; [|destruct i; discriminate Hi]. injection Hi as <-.
    repeat split; try (unfold thread_new; cbn [t_caus t_rel]; apply bndf_new).
    unfold thread_new. cbn [t_caus]. rewrite vv_new_length. apply Nat.le_refl.
  - intros i o Hi. unfold init_exec in Hi. cbn [e_objects] in Hi.
    destruct (create_objects (p_decls p) vv_new vv_new) as [os|pn] eqn:Hc;
      [|destruct i; discriminate Hi].
    pose proof (create_objects_wf w _ _ Hc) as Hall. rewrite Forall_forall in Hall.
    apply Hall. eapply nth_error_In; exact Hi.
  - apply bndf_new.
  - constructor.
Qed.

Theorem run_clock_wf : forall fuel e, clock_wf e -> clock_wf (fst (run fuel e)).
Proof.
  induction fuel as [|fuel IH]; intros e Hi; cbn [run]; [exact Hi|].
  destruct (e_active e) as [me|]; [|exact Hi].
  destruct (nth_error (e_threads e) me) as [t|] eqn:Ht; [|exact Hi].
  destruct (t_cont t) as [|m rest] eqn:Hc; [exact Hi|].
  assert (Hp : clock_wf (upd_thread e me (fun t => th_set_cont t rest))).
  { revert Hi. apply ck_upd_thread_k; [tstep_tac|apply ck_refl]. }
  pose proof (exec_micro_clock_wf _ me m Hp) as H.
  destruct (exec_micro _ me m) as [e2|e2 pn]; cbn [res_exec fst] in *; [apply IH, H|exact H].
Qed.

Theorem iteration_clock_wf fuel p pa : clock_wf (fst (iteration fuel p pa)).
Proof. rewrite iteration_fst. apply run_clock_wf, init_clock_wf. Qed.

(* ================================================================== *)
(* 5. C2: the own component strictly increases at every tracked access *)
(* ================================================================== *)

(* the micro-operations that stamp an access: they start with rt::synchronize *)
Definition is_tracked (m : micro) : bool :=
  match m with
  | MLoadPost _ _ _ | MFuLoadPost _ _ _ _ _ | MStorePost _ _ _ | MRmwPost _ _ _ _
  | MCellRead _ | MCellWrite _ _ | MCellNested _ _ | MFence _ | MUnsyncLoad _ | MWithMut _ _ => true
  | _ => false
  end.

(* after the bump of the own component the rest of the operation only grows clocks *)
Lemma tracked_ops_from_inc e me m :
  is_tracked m = true -> mono (causality_inc e me) (res_exec (exec_micro e me m)).
Proof. intros Hm. destruct m; try discriminate Hm; mono_tac. Qed.

Lemma load_post_from_inc e me a o : mono (causality_inc e me) (lp_exec (load_post e me a o)).
Proof. unfold load_post. repeat mstep. all: mclose. Qed.

Lemma own_after_inc e me t :
  get_thread e me = Some t -> me < length (t_caus t) ->
  vv_get (caus_of (causality_inc e me) me) me = S (vv_get (caus_of e me) me).
Proof.
  intros Ht Hlt. rewrite causality_inc_eq. unfold caus_of at 1.
  unfold set_caus. rewrite get_thread_upd_thread_same, Ht. cbn [option_map t_caus th_set_caus].
  rewrite (caus_of_thread _ _ _ Ht). apply vv_get_inc_same. exact Hlt.
Qed.

Theorem own_component_increases e me m e' t :
  is_tracked m = true -> exec_micro e me m = MOk e' ->
  get_thread e me = Some t -> me < length (t_caus t) ->
  vv_get (caus_of e me) me < vv_get (caus_of e' me) me.
Proof.
  intros Hm Hx Ht Hlt. pose proof (tracked_ops_from_inc e me m Hm) as Hmono. rewrite Hx in Hmono.
  cbn [res_exec] in Hmono. destruct Hmono as (_ & Hc & _). specialize (Hc me me).
  rewrite (own_after_inc e me t Ht Hlt) in Hc. lia.
Qed.

(* in the states of the model every clock has MAX_THREADS components *)
Corollary own_component_increases_wf e me m e' :
  clock_wf e -> is_tracked m = true -> exec_micro e me m = MOk e' ->
  me < length (e_threads e) -> me < MAX_THREADS ->
  vv_get (caus_of e me) me < vv_get (caus_of e' me) me.
Proof.
  intros Hcw Hm Hx Hme Hmax. destruct (nth_error (e_threads e) me) as [t|] eqn:Ht;
    [|apply nth_error_None in Ht; lia].
  eapply own_component_increases; [exact Hm|exact Hx|exact Ht|].
  destruct (proj1 Hcw me t Ht) as (_ & _ & Hlen). lia.
Qed.

(* the polls of block_on load through load_post: the same *)
Theorem own_component_increases_load_post e me a o e' x t :
  load_post e me a o = inl (e', x) ->
  get_thread e me = Some t -> me < length (t_caus t) ->
  vv_get (caus_of e me) me < vv_get (caus_of e' me) me.
Proof.
  intros Hx Ht Hlt. pose proof (load_post_from_inc e me a o) as Hmono. rewrite Hx in Hmono.
  cbn [lp_exec] in Hmono. destruct Hmono as (_ & Hc & _). specialize (Hc me me).
  rewrite (own_after_inc e me t Ht Hlt) in Hc. lia.
Qed.

(* the unsynchronised accesses (unsync_load, with_mut) bump the clock as well since loom fix D23:
   they are covered by is_tracked / own_component_increases above *)

(* ================================================================== *)
(* 6. C3: the stamp of an access is the own component                  *)
(* ================================================================== *)

Lemma cell_track_write_result s c s1 :
  cell_track_write s c = inl s1 ->
  ce_write s1 = vv_join (ce_write s) c /\ ce_read s1 = ce_read s /\
  vle (ce_write s) c /\ vle (ce_read s) c.
Proof.
  unfold cell_track_write. intros H.
  destruct (vv_ahead c (ce_write s)) eqn:H1; [discriminate H|].
  destruct (vv_ahead c (ce_read s)) eqn:H2; [discriminate H|].
  injection H as <-. apply vv_ahead_none in H1. apply vv_ahead_none in H2. auto.
Qed.

Lemma cell_track_read_result s c s1 :
  cell_track_read s c = inl s1 ->
  ce_read s1 = vv_join (ce_read s) c /\ ce_write s1 = ce_write s /\ vle (ce_write s) c.
Proof.
  unfold cell_track_read. intros H.
  destruct (vv_ahead c (ce_write s)) eqn:H1; [discriminate H|].
  injection H as <-. apply vv_ahead_none in H1. auto.
Qed.

Lemma clock_wf_inc e me : clock_wf e -> clock_wf (causality_inc e me).
Proof. apply ck_causality_inc_k, ck_refl. Qed.

Lemma max_stamp a c : a <= c -> Nat.max (Nat.max a c) c = c.
Proof. lia. Qed.

(* a write to a cell by thread [me] is recorded in the cell's write clock with
   the stamp vv_get (caus_of e' me) me: me's own component at that moment,
   which is one more than before the access *)
Theorem cell_write_stamp e me u v e' :
  clock_wf e -> exec_micro e me (MCellWrite u v) = MOk e' ->
  exists s', get_cell e' u = Some s' /\
             vv_get (ce_write s') me = vv_get (caus_of e' me) me /\
             caus_of e' me = caus_of (causality_inc e me) me.
Proof.
  intros Hcw Hx. cbn [exec_micro] in Hx. pose proof (clock_wf_inc e me Hcw) as HE.
  revert Hx HE. generalize (causality_inc e me). intros E Hx HE.
  destruct (get_cell E u) as [s|] eqn:Hg; [|discriminate Hx].
  destruct (negb (Nat.eqb (ce_reading s) 0)); [discriminate Hx|].
  destruct (ce_writing s); [discriminate Hx|].
  destruct (cell_track_write s (caus_of E me)) as [s1|pn] eqn:H1; [|discriminate Hx].
  destruct (cell_track_write s1 (caus_of E me)) as [s2|pn] eqn:H2; [|discriminate Hx].
  injection Hx as <-. exists s2.
  assert (Hc : caus_of (log_op (upd_hobj (upd_object E u (fun _ => OCell s2)) u
                                  (fun ho => ho_set_cell ho v)) me RUnit) me = caus_of E me).
  { apply caus_of_threads_eq. rewrite e_threads_log_op. reflexivity. }
  split; [|split; [|exact Hc]].
  - unfold get_cell. rewrite e_objects_log_op.
    change (e_objects (upd_hobj (upd_object E u (fun _ => OCell s2)) u (fun ho => ho_set_cell ho v)))
      with (list_upd (e_objects E) u (fun _ => OCell s2)).
    rewrite nth_error_list_upd_same, (get_cell_nth _ _ _ Hg). reflexivity.
  - rewrite Hc. destruct (cell_track_write_result _ _ _ H1) as (Hw1 & _).
    destruct (cell_track_write_result _ _ _ H2) as (Hw2 & _).
    rewrite Hw2, Hw1, !vv_get_join. apply max_stamp.
    destruct (CWw_get_cell _ _ _ _ HE Hg) as [_ Hb]. exact (Hb me).
Qed.

Theorem cell_read_stamp e me u e' :
  clock_wf e -> exec_micro e me (MCellRead u) = MOk e' ->
  exists s', get_cell e' u = Some s' /\
             vv_get (ce_read s') me = vv_get (caus_of e' me) me /\
             caus_of e' me = caus_of (causality_inc e me) me.
Proof.
  intros Hcw Hx. cbn [exec_micro] in Hx. pose proof (clock_wf_inc e me Hcw) as HE.
  revert Hx HE. generalize (causality_inc e me). intros E Hx HE.
  destruct (get_cell E u) as [s|] eqn:Hg; [|discriminate Hx].
  destruct (ce_writing s); [discriminate Hx|].
  destruct (cell_track_read s (caus_of E me)) as [s1|pn] eqn:H1; [|discriminate Hx].
  destruct (cell_track_read s1 (caus_of E me)) as [s2|pn] eqn:H2; [|discriminate Hx].
  injection Hx as <-. exists s2.
  assert (Hc : caus_of (log_op (upd_object E u (fun _ => OCell s2)) me
                               (RVal (ho_cell (get_h E u)))) me = caus_of E me).
  { apply caus_of_threads_eq. rewrite e_threads_log_op. reflexivity. }
  split; [|split; [|exact Hc]].
  - unfold get_cell. rewrite e_objects_log_op, e_objects_upd_object.
    rewrite nth_error_list_upd_same, (get_cell_nth _ _ _ Hg). reflexivity.
  - rewrite Hc. destruct (cell_track_read_result _ _ _ H1) as (Hr1 & _).
    destruct (cell_track_read_result _ _ _ H2) as (Hr2 & _).
    rewrite Hr2, Hr1, !vv_get_join. apply max_stamp.
    destruct (CWw_get_cell _ _ _ _ HE Hg) as [Hb _]. exact (Hb me).
Qed.

Lemma track_store_result s c s1 :
  track_store s c = inl s1 -> at_stored s1 = vv_join (at_stored s) c /\ at_stores s1 = at_stores s.
Proof.
  unfold track_store. intros H. destruct (at_mutating s); [discriminate H|].
  destruct (vv_ahead c _); [discriminate H|]. destruct (vv_ahead c _); [discriminate H|].
  injection H as <-. auto.
Qed.

Lemma track_load_result s c s1 :
  track_load s c = inl s1 -> at_loaded s1 = vv_join (at_loaded s) c.
Proof.
  unfold track_load. intros H. destruct (at_mutating s); [discriminate H|].
  destruct (vv_ahead c _); [discriminate H|]. injection H as <-. reflexivity.
Qed.

(* an atomic store by thread [me]: the atomic's "stored" clock records it with
   me's own component at that moment *)
Theorem store_stamp e me a v o e' :
  clock_wf e -> exec_micro e me (MStorePost a v o) = MOk e' ->
  exists s', get_atomic e' a = Some s' /\
             vv_get (at_stored s') me = vv_get (caus_of e' me) me /\
             caus_of e' me = caus_of (causality_inc e me) me.
Proof.
  intros Hcw Hx. cbn [exec_micro] in Hx. pose proof (clock_wf_inc e me Hcw) as HE.
  revert Hx HE. generalize (causality_inc e me). intros E Hx HE.
  destruct (get_atomic E a) as [s|] eqn:Hg; [|discriminate Hx].
  destruct (get_thread E me) as [t|] eqn:Ht; [|discriminate Hx].
  destruct (track_store s (t_caus t)) as [s1|pn] eqn:H1; [|discriminate Hx].
  injection Hx as <-. eexists.
  assert (Hc : caus_of (log_op (upd_object E a (fun _ => OAtomic
                  (atomic_store s1 me (t_caus t) (t_rel t) vv_new v o))) me RUnit) me = caus_of E me).
  { apply caus_of_threads_eq. rewrite e_threads_log_op. reflexivity. }
  split; [|split; [|exact Hc]].
  - unfold get_atomic. rewrite e_objects_log_op, e_objects_upd_object.
    rewrite nth_error_list_upd_same, (get_atomic_nth _ _ _ Hg). reflexivity.
  - rewrite Hc, (caus_of_thread _ _ _ Ht).
    change (at_stored (atomic_store s1 me (t_caus t) (t_rel t) vv_new v o)) with (at_stored s1).
    destruct (track_store_result _ _ _ H1) as [-> _]. rewrite vv_get_join.
    destruct (CWw_get_atomic _ _ _ _ HE Hg) as (_ & _ & _ & Hb & _). specialize (Hb me).
    unfold own in Hb. rewrite (caus_of_thread _ _ _ Ht) in Hb. lia.
Qed.

(* the store itself carries the stamp as its first_seen entry for [me] *)
Theorem store_first_seen_stamp s me c r sync0 v o src :
  me < MAX_THREADS -> length (at_stores s) = MAX_ATOMIC_HISTORY ->
  nth_error (st_seen (get_store (atomic_store_from s me c r sync0 v o src) (aindex (at_cnt s)))) me
  = Some (Some (vv_get c me)).
Proof.
  intros Hme Hlen. unfold atomic_store_from, get_store. cbv zeta. cbn [at_set_stores at_stores].
  assert (Hidx : aindex (at_cnt s) < length (at_stores s)).
  { rewrite Hlen. unfold aindex. apply Nat.mod_upper_bound. discriminate. }
  rewrite list_set_nth_same by exact Hidx. cbn [st_seen]. unfold seen_touch, seen_new.
  assert (Hn : nth_error (repeat (@None nat) MAX_THREADS) me = Some None).
  { rewrite (nth_error_nth' _ None) by (rewrite repeat_length; exact Hme).
    f_equal. apply nth_repeat. }
  rewrite Hn. apply nth_error_list_set_same. rewrite repeat_length. exact Hme.
Qed.

(* an atomic load by thread [me]: recorded in the "loaded" clock with me's own
   component at that moment; acquiring the store's view does not change it *)
Theorem load_stamp e me a o e' :
  clock_wf e -> exec_micro e me (MLoadPost a o None) = MOk e' ->
  exists s', get_atomic e' a = Some s' /\
             vv_get (at_loaded s') me = vv_get (caus_of e' me) me /\
             vv_get (caus_of e' me) me = vv_get (caus_of (causality_inc e me) me) me.
Proof.
  intros Hcw Hx. cbn [exec_micro] in Hx. pose proof (clock_wf_inc e me Hcw) as HE.
  revert Hx HE. generalize (causality_inc e me). intros E Hx HE.
  destruct (get_atomic E a) as [s|] eqn:Hg; [|discriminate Hx].
  destruct (get_thread E me) as [t|] eqn:Ht; [|discriminate Hx].
  destruct (choose_store_same E (match_load_to_stores s me (t_caus t) (t_last_yield t) o))
    as (H1 & H2 & H3 & H4).
  destruct (choose_store E _) as [E1 [idx|pn]]; cbn [fst] in *; [|discriminate Hx].
  destruct (atomic_load s me (t_caus t) idx o) as [[[s' c'] x]|pn] eqn:Hl; [|discriminate Hx].
  injection Hx as <-. exists s'.
  assert (Ht1 : get_thread E1 me = Some t) by (unfold get_thread; rewrite H1; exact Ht).
  assert (Hc : caus_of (log_op (set_caus (upd_object E1 a (fun _ => OAtomic s')) me c') me (RVal x)) me = c').
  { rewrite (caus_of_threads_eq _ (set_caus (upd_object E1 a (fun _ => OAtomic s')) me c') me)
      by apply e_threads_log_op.
    unfold caus_of, set_caus. rewrite get_thread_upd_thread_same.
    change (get_thread (upd_object E1 a (fun _ => OAtomic s')) me) with (get_thread E1 me).
    rewrite Ht1. reflexivity. }
  assert (Hs : atomic_wf (own E) s) by exact (CWw_get_atomic _ _ _ _ HE Hg).
  assert (Hown : own E me = vv_get (t_caus t) me)
    by (unfold own; rewrite (caus_of_thread _ _ _ Ht); reflexivity).
  rewrite atomic_load_eq in Hl. destruct (track_load s (t_caus t)) as [s1|pn] eqn:Htl; [|discriminate Hl].
  injection Hl as <- <- _.
  assert (Hc' : vv_get (sync_load (t_caus t) (st_sync (get_store (load_view s1 me (t_caus t) idx) idx)) o) me
                = vv_get (t_caus t) me).
  { unfold sync_load. destruct (ord_acq o); [|reflexivity]. rewrite vv_get_join.
    rewrite load_view_keeps_sync.
    pose proof (get_store_wf _ _ idx (track_load_wf _ _ _ _ Htl Hs (proj1 (CWw_thread _ _ _ _ HE Ht))) me) as Hb.
    rewrite Hown in Hb. lia. }
  split; [|split].
  - unfold get_atomic. rewrite e_objects_log_op.
    change (e_objects (set_caus (upd_object E1 a (fun _ => OAtomic (load_view s1 me (t_caus t) idx))) me
              (sync_load (t_caus t) (st_sync (get_store (load_view s1 me (t_caus t) idx) idx)) o)))
      with (list_upd (e_objects E1) a (fun _ => OAtomic (load_view s1 me (t_caus t) idx))).
    rewrite nth_error_list_upd_same, H2, (get_atomic_nth _ _ _ Hg). reflexivity.
  - rewrite Hc, Hc'.
    change (at_loaded (load_view s1 me (t_caus t) idx)) with (at_loaded s1).
    rewrite (track_load_result _ _ _ Htl), vv_get_join.
    destruct Hs as (_ & Hb & _). specialize (Hb me). rewrite Hown in Hb. lia.
  - rewrite Hc, Hc', (caus_of_thread _ _ _ Ht). reflexivity.
Qed.

(* "hence": a thread b has seen an access of t stamped n (n <= b's component
   for t) only if that component was acquired from t: nobody's component for t
   exceeds t's own, and t's own component passes n only at t's own accesses *)
Theorem no_future_knowledge e b t :
  clock_wf e -> vv_get (caus_of e b) t <= vv_get (caus_of e t) t.
Proof. apply clock_wf_caus. Qed.

Theorem seen_only_if_acquired e b t n :
  clock_wf e -> n <= vv_get (caus_of e b) t -> n <= vv_get (caus_of e t) t.
Proof. intros H Hn. pose proof (clock_wf_caus e b t H). lia. Qed.

(* the check that makes a write to a cell race free: the writer's clock covers
   every stamp recorded in the cell *)
Theorem cell_write_allowed_iff s c :
  (exists s1, cell_track_write s c = inl s1) <-> vle (ce_write s) c /\ vle (ce_read s) c.
Proof.
  split.
  - intros [s1 H]. destruct (cell_track_write_result _ _ _ H) as (_ & _ & H1 & H2). auto.
  - intros [H1 H2]. unfold cell_track_write.
    apply vv_ahead_none in H1. apply vv_ahead_none in H2. rewrite H1, H2. eauto.
Qed.

Theorem cell_read_allowed_iff s c :
  (exists s1, cell_track_read s c = inl s1) <-> vle (ce_write s) c.
Proof.
  split.
  - intros [s1 H]. destruct (cell_track_read_result _ _ _ H) as (_ & _ & H1). exact H1.
  - intros H1. unfold cell_track_read. apply vv_ahead_none in H1. rewrite H1. eauto.
Qed.

(* spawn: the new thread starts from the parent's clock (as it was before the
   spawn is stamped) plus its own first tick; the parent's own component is
   bumped *)
Theorem spawn_clock e me b e' :
  exec_micro e me (MSpawn b) = MOk e' -> me < length (e_threads e) ->
  length (e_threads e') = S (length (e_threads e)) /\
  caus_of e' (length (e_threads e)) =
    vv_inc (vv_join vv_new (caus_of e me)) (length (e_threads e)) /\
  caus_of e' me = vv_inc (caus_of e me) me.
Proof.
  intros Hx Hme. cbn [exec_micro] in Hx.
  match type of Hx with (if ?c then _ else _) = _ => destruct c; [discriminate Hx|] end.
  injection Hx as <-.
  match goal with |- context [log_op ?X me RUnit] => set (E2 := X) end.
  assert (Hth : e_threads (log_op E2 me RUnit) = e_threads E2) by apply e_threads_log_op.
  unfold caus_of, get_thread. rewrite Hth. subst E2.
  unfold causality_inc, upd_thread.
  cbn [ex_set_spawned ex_set_threads ex_set_objects e_threads].
  split; [rewrite list_upd_length, app_length; cbn [length]; lia|]. split.
  - rewrite nth_error_list_upd_other by lia.
    rewrite nth_error_app2, Nat.sub_diag by apply Nat.le_refl. reflexivity.
  - rewrite nth_error_list_upd_same, nth_error_app1 by exact Hme.
    destruct (nth_error (e_threads e) me) as [t|] eqn:Ht; [reflexivity|].
    apply nth_error_None in Ht. lia.
Qed.

(* ================================================================== *)
(* 7. An example                                                       *)
(* ================================================================== *)

Definition cfgC : config := mkConfig 5 1000 None None None false.
Definition p_clk : prog := mkProg cfgC [DCell; DAtomic 0]
  [[ICellWrite 0; ISpawn 1; IStore 1 1 Release; IJoin 1]; [ILoad 1 Acquire; ICellRead 0]].
Definition e_clk : exec := fst (run 1000 (init_exec p_clk (initial_path cfgC))).

(* the child's clock starts from the parent's clock plus its own first tick *)
Example clocks_of_a_run :
  snd (run 1000 (init_exec p_clk (initial_path cfgC))) = IterDone /\
  map t_caus (e_threads e_clk) = [[3; 3; 0; 0; 0]; [1; 3; 0; 0; 0]].
Proof. vm_compute. split; reflexivity. Qed.

Example clocks_of_a_run_wf : clock_wf e_clk.
Proof. apply run_clock_wf, init_clock_wf. Qed.

Print Assumptions exec_micro_clock_wf.
Print Assumptions init_clock_wf.
Print Assumptions run_clock_wf.
Print Assumptions iteration_clock_wf.
Print Assumptions clock_wf_caus.
Print Assumptions clock_wf_absent.
Print Assumptions spawn_clock.
Print Assumptions own_component_increases.
Print Assumptions own_component_increases_wf.
Print Assumptions own_component_increases_load_post.
Print Assumptions cell_write_stamp.
Print Assumptions cell_read_stamp.
Print Assumptions store_stamp.
Print Assumptions store_first_seen_stamp.
Print Assumptions load_stamp.
Print Assumptions no_future_knowledge.
Print Assumptions cell_write_allowed_iff.

(* DEVIATIONS

   D1  clock_wf is stated with one bound for all views: [bndf (own e) v].  The
       requested two clauses are its corollaries clock_wf_caus (u arbitrary:
       for u beyond the thread table own e u = 0, hence clock_wf_absent) and
       clock_wf_rel / clock_wf_seqcst / clock_wf_object.  Besides the requested
       views it covers the four tracking clocks of every atomic, the read/write
       clocks of every cell and the views of the lazy statics: they are needed
       to make the invariant inductive (loads, fences and Lazy::get join them
       into thread clocks) and for C3.  t_dpor (the DPOR clock) is a different
       kind of clock and is not covered.  st_hb / st_mo of the stores are not
       covered either (they never flow into a thread clock).
   D2  The invariant also says that every thread clock has at least
       MAX_THREADS components: vv_inc on a thread id >= the length of the
       vector is the identity in the model (VV.vv_inc = list_upd), so C2 needs
       the vector to be long enough (D3).
   D3  own_component_increases has the hypothesis [me < length (t_caus t)]
       (own_component_increases_wf: [me < MAX_THREADS] in the states of the
       model).  The model allows configurations with max_threads >
       MAX_THREADS, in which a thread with id >= MAX_THREADS never ticks; loom
       itself refuses such a configuration.
   D4  (historical) before loom fix D23 MUnsyncLoad and MWithMut did not call
       causality_inc, so an unsync_load right after a release store carried the stamp the
       release had published and an acquirer's with_mut did not race with it: a genuine
       missed race, found when 'access right after a release' programs were added to F-race.
       is_tracked lists the operations for which C2 holds: MLoadPost,
       MFuLoadPost, MStorePost, MRmwPost, MCellRead, MCellWrite, MCellNested
       (which bumps twice), MFence; the
       polls of block_on go through load_post
       (own_component_increases_load_post).  MSpawn bumps the parent after the
       child has been created (spawn_clock).  MLazyGet bumps before each of its
       cell accesses (not listed in is_tracked: its first step is an acquire).
   D5  C3: loom records an access by JOINING the whole clock of the accessing
       thread into the cell / atomic clock (the cell_track_ and track_ functions); "the stamp
       for thread t" is the component t of that clock.  cell_write_stamp,
       cell_read_stamp, store_stamp, load_stamp show that right after the
       access this component equals t's own component (needs clock_wf: the old
       component was not larger); store_first_seen_stamp is the literal
       stamp FirstSeen keeps per store.  "b has seen the access only if it
       acquired t's component" is no_future_knowledge / seen_only_if_acquired
       together with C2 (t's own component passes n only at t's own accesses)
       and SyncMono (components only grow, and only by joins of views).
   D6  exec_micro_clock_wf is proved for the state carried by MFail as well;
       run_clock_wf covers all three results of run. *)
