(* rt/path.rs : the decision stack and its depth-first traversal.
   Definitions only; every function has the name and the branch structure of
   the Rust function it transcribes. *)
Require Import LV.Base.

Inductive tstat := Disabled | Skip | TYield | Pending | Active | Visited.

Definition tstat_eqb (a b : tstat) : bool :=
  match a, b with
  | Disabled, Disabled | Skip, Skip | TYield, TYield
  | Pending, Pending | Active, Active | Visited, Visited => true
  | _, _ => false
  end.

Definition is_active (t : tstat) := tstat_eqb t Active.
Definition is_pending (t : tstat) := tstat_eqb t Pending.
Definition is_disabled (t : tstat) := tstat_eqb t Disabled.
Definition is_enabled (t : tstat) := negb (is_disabled t).
(* Thread::explore *)
Definition explore_t (t : tstat) : tstat := match t with Skip => Pending | _ => t end.

Record schedule := mkSched {
  s_pre : nat;                 (* preemptions *)
  s_ia : option nat;           (* initial_active *)
  s_threads : list tstat;      (* [Thread; MAX_THREADS] *)
  s_prev : option nat;         (* previous Schedule entry (index in the stack) *)
  s_ex : bool                  (* exploring *)
}.

Record load := mkLoad {
  l_vals : list nat;           (* values[..len] *)
  l_pos : nat;
  l_ex : bool
}.

Record spurious := mkSpur { p_spur : bool; p_ex : bool }.

Inductive entry := ESched (s : schedule) | ELoad (l : load) | ESpur (p : spurious).

Record path := mkPath {
  bound : option nat;          (* preemption_bound *)
  pos : nat;
  branches : list entry;
  exploring : bool;
  skipping : bool;
  eos : bool;                  (* exploring_on_start *)
  cap : nat                    (* branches.capacity() = max_branches *)
}.

(* panics raised by path.rs *)
Inductive ppanic :=
  | PBranchLimit               (* assert_path_len! *)
  | PNondet                    (* "Reached unexpected exploration state..." *)
  | PNotCritical               (* explore_state: "not in critical state" *)
  | PNotExploring              (* critical: "not in exploring state" *)
  | PInternal (code : nat).    (* "[loom internal bug]" assertions / index errors *)

Inductive pres (A : Type) := POk (a : A) | PErr (e : ppanic).
Arguments POk {A} a.
Arguments PErr {A} e.

Definition path_new (max_branches : nat) (b : option nat) (ex : bool) : path :=
  mkPath b 0 [] ex false ex max_branches.

Definition set_pos (p : path) (n : nat) : path :=
  mkPath (bound p) n (branches p) (exploring p) (skipping p) (eos p) (cap p).
Definition set_branches (p : path) (b : list entry) : path :=
  mkPath (bound p) (pos p) b (exploring p) (skipping p) (eos p) (cap p).
Definition set_flags (p : path) (ex sk : bool) : path :=
  mkPath (bound p) (pos p) (branches p) ex sk (eos p) (cap p).

Definition explore_state (p : path) : pres path :=
  if skipping p then POk p
  else if exploring p then PErr PNotCritical
  else POk (set_flags p true (skipping p)).

Definition critical (p : path) : pres path :=
  if skipping p then POk p
  else if exploring p then POk (set_flags p false (skipping p))
  else PErr PNotExploring.

Definition skip_branch (p : path) : path := set_flags p false true.

Definition is_traversed (p : path) : bool := Nat.eqb (pos p) (length (branches p)).

(* assert_path_len!(branches) *)
Definition path_len_ok (p : path) : bool := Nat.ltb (length (branches p)) (cap p).

Definition push_load (p : path) (seed : list nat) : pres path :=
  if negb (path_len_ok p) then PErr PBranchLimit
  else if negb (forallb (fun v => Nat.ltb v MAX_ATOMIC_HISTORY) seed) then PErr (PInternal 1)
  else if Nat.ltb MAX_ATOMIC_HISTORY (length seed) then PErr (PInternal 2)
  else POk (set_branches p (branches p ++ [ELoad (mkLoad seed 0 (exploring p))])).

Definition branch_load (p : path) : pres (path * nat) :=
  if is_traversed p then PErr (PInternal 3)
  else match nth_error (branches p) (pos p) with
       | Some (ELoad l) =>
           match nth_error (l_vals l) (l_pos l) with
           | Some v => POk (set_pos p (S (pos p)), v)
           | None =>
               (* values[pos] of the fixed-size array: 0 beyond len, out of
                  bounds beyond the array *)
               if Nat.ltb (l_pos l) MAX_ATOMIC_HISTORY
               then POk (set_pos p (S (pos p)), 0) else PErr (PInternal 4)
           end
       | Some _ => PErr PNondet
       | None => PErr (PInternal 5)
       end.

Definition branch_spurious (p : path) : pres (path * bool) :=
  let r :=
    if is_traversed p then
      if negb (path_len_ok p) then PErr PBranchLimit
      else POk (set_branches p (branches p ++ [ESpur (mkSpur false (exploring p))]))
    else POk p in
  match r with
  | PErr e => PErr e
  | POk p =>
      match nth_error (branches p) (pos p) with
      | Some (ESpur s) => POk (set_pos p (S (pos p)), p_spur s)
      | Some _ => PErr PNondet
      | None => PErr (PInternal 5)
      end
  end.

Definition active_thread_index (s : schedule) : option nat :=
  find_index is_active (s_threads s).

(* Schedule::preemptions() *)
Definition preemptions (s : schedule) : nat :=
  if is_some (s_ia s) && negb (opt_nat_eqb (s_ia s) (active_thread_index s))
  then S (s_pre s) else s_pre s.

Definition is_sched (e : entry) : bool := match e with ESched _ => true | _ => false end.
Definition last_schedule (p : path) : option nat := find_last_index is_sched (branches p).

Definition get_sched (b : list entry) (i : nat) : option schedule :=
  match nth_error b i with Some (ESched s) => Some s | _ => None end.

(* toggle the first yielded thread to active *)
Fixpoint activate_first_yield (l : list tstat) : list tstat :=
  match l with
  | [] => []
  | TYield :: t => Active :: t
  | h :: t => h :: activate_first_yield t
  end.

Definition opt_le_bound (pre : nat) (b : option nat) : bool :=
  match b with None => true | Some b => Nat.leb pre b end.

Definition branch_thread (p : path) (seed : list tstat) : pres (path * option nat) :=
  let r :=
    if is_traversed p then
      if negb (path_len_ok p) then PErr PBranchLimit
      else if Nat.ltb MAX_THREADS (length seed) then PErr (PInternal 6)
      else if Nat.ltb 1 (length (filter is_active seed)) then PErr (PInternal 7)
      else
        let prev := last_schedule p in
        let threads0 := pad_to MAX_THREADS Disabled seed in
        let threads :=
          match find_index is_active threads0 with
          | Some _ => threads0
          | None => activate_first_yield threads0
          end in
        let active := find_index is_active threads in
        let prev_s := match prev with Some i => get_sched (branches p) i | None => None end in
        let ia :=
          match prev_s with
          | Some ps => if opt_nat_eqb active (active_thread_index ps) then active else None
          | None => active
          end in
        let pre := match prev_s with Some ps => preemptions ps | None => 0 end in
        if negb (opt_le_bound pre (bound p)) then PErr (PInternal 8)
        else POk (set_branches p (branches p ++ [ESched (mkSched pre ia threads prev (exploring p))]))
    else POk p in
  match r with
  | PErr e => PErr e
  | POk p =>
      match nth_error (branches p) (pos p) with
      | Some (ESched s) => POk (set_pos p (S (pos p)), active_thread_index s)
      | Some _ => PErr PNondet
      | None => PErr (PInternal 5)
      end
  end.

(* Schedule::backtrack *)
Definition sched_backtrack (s : schedule) (tid : nat) (b : option nat) : pres schedule :=
  if negb (s_ex s) then PErr (PInternal 9)
  else if negb (opt_le_bound (s_pre s) b) then PErr (PInternal 10)
  else if match b with Some b => Nat.eqb (s_pre s) b | None => false end then POk s
  else
    match nth_error (s_threads s) tid with
    | None => POk s
    | Some t =>
        let th := if is_enabled t then list_upd (s_threads s) tid explore_t
                  else map explore_t (s_threads s) in
        POk (mkSched (s_pre s) (s_ia s) th (s_prev s) (s_ex s))
    end.

(* the first loop of Path::backtrack: walk down from [point] to the nearest
   exploring Schedule entry; fuel = point + 1 iterations at most *)
Fixpoint find_backtrack_point (b : list entry) (point : nat) (fuel : nat) : pres (option nat) :=
  match fuel with
  | 0 => POk None
  | S fuel' =>
      match nth_error b point with
      | None => PErr (PInternal 11)          (* index out of bounds *)
      | Some e =>
          let hit := match e with ESched s => s_ex s | _ => false end in
          if hit then POk (Some point)
          else match point with
               | 0 => POk None
               | S point' => find_backtrack_point b point' fuel'
               end
      end
  end.

Definition upd_sched (b : list entry) (i : nat) (s : schedule) : list entry :=
  list_set b i (ESched s).

(* the second, "conservative" loop (only with a preemption bound) *)
Fixpoint conservative (b : list entry) (curr : nat) (tid : nat) (bd : option nat) (fuel : nat)
  : pres (list entry) :=
  match fuel with
  | 0 => POk b
  | S fuel' =>
      match get_sched b curr with
      | None => PErr (PInternal 12)
      | Some cs =>
          match s_prev cs with
          | Some prev =>
              match get_sched b prev with
              | None => PErr (PInternal 12)
              | Some ps =>
                  if negb (opt_nat_eqb (active_thread_index cs) (active_thread_index ps)) && s_ex cs
                  then match sched_backtrack cs tid bd with
                       | POk cs' => POk (upd_sched b curr cs')
                       | PErr e => PErr e
                       end
                  else conservative b prev tid bd fuel'
              end
          | None =>
              if s_ex cs
              then match sched_backtrack cs tid bd with
                   | POk cs' => POk (upd_sched b curr cs')
                   | PErr e => PErr e
                   end
              else POk b
          end
      end
  end.

Definition backtrack (p : path) (point : nat) (tid : nat) : pres path :=
  match find_backtrack_point (branches p) point (S point) with
  | PErr e => PErr e
  | POk None => POk p
  | POk (Some i) =>
      match get_sched (branches p) i with
      | None => PErr (PInternal 12)
      | Some s =>
          match sched_backtrack s tid (bound p) with
          | PErr e => PErr e
          | POk s' =>
              let b := upd_sched (branches p) i s' in
              match s_prev s', bound p with
              | Some curr, Some _ =>
                  match conservative b curr tid (bound p) (S (length b)) with
                  | POk b' => POk (set_branches p b')
                  | PErr e => PErr e
                  end
              | _, _ => POk (set_branches p b)
              end
          end
      end
  end.

(* one entry of Path::step: Some e' = "return true" with the entry advanced,
   None = pop it and continue *)
Fixpoint visit_active (l : list tstat) : list tstat :=
  match l with
  | [] => []
  | h :: t => if is_active h then Visited :: t else h :: visit_active t
  end.
Fixpoint activate_pending (l : list tstat) : option (list tstat) :=
  match l with
  | [] => None
  | h :: t => if is_pending h then Some (Active :: t)
              else option_map (cons h) (activate_pending t)
  end.

Definition advance_entry (e : entry) : option entry :=
  match e with
  | ESched s =>
      if negb (s_ex s) then None
      else match activate_pending (visit_active (s_threads s)) with
           | Some th => Some (ESched (mkSched (s_pre s) (s_ia s) th (s_prev s) (s_ex s)))
           | None => None
           end
  | ELoad l =>
      if negb (l_ex l) then None
      else if Nat.ltb (S (l_pos l)) (length (l_vals l))
           then Some (ELoad (mkLoad (l_vals l) (S (l_pos l)) (l_ex l))) else None
  | ESpur s =>
      if negb (p_ex s) then None
      else if p_spur s then None else Some (ESpur (mkSpur true (p_ex s)))
  end.

(* the loop of Path::step over the reversed stack *)
Fixpoint step_rev (rb : list entry) : option (list entry) :=
  match rb with
  | [] => None
  | e :: rest =>
      match advance_entry e with
      | Some e' => Some (e' :: rest)
      | None => step_rev rest
      end
  end.

(* Path::step: None = "return false" (exploration finished) *)
Definition step (p : path) : option path :=
  match step_rev (rev (branches p)) with
  | Some rb => Some (mkPath (bound p) 0 (rev rb) (eos p) false (eos p) (cap p))
  | None => None
  end.

(* what step leaves behind when it returns false: every entry popped *)
Definition step_exhausted (p : path) : path :=
  mkPath (bound p) 0 [] (eos p) false (eos p) (cap p).
