(* WakerFacts: future::block_on and future::AtomicWaker (property C20).

   "block_on returns the future's output in every explored execution in which
    the future is woken after (or while) returning Pending, re-polls only after
    a wake or the one modelled spurious return, and reports a deadlock if no
    wake can ever arrive; AtomicWaker::wake wakes the most recently registered
    waker or none if a registration is in flight that will itself observe the
    wake."

   The model (Ops.v): block_on = MBlockOn (Notify n with spurious wake-ups, Arc
   k around it), then rounds MBoPoll (LPoll line) / MBoLoad .. true (first poll
   of the round; Pending: clone the waker and MBoRegister) / MBoLoad .. false
   (second poll; Pending: [MNotifyWait1 n; MBoPoll ..]); AtomicWaker::register =
   try-acquire of the rt::Mutex w + MBoRegister; AtomicWaker::wake / take_waker =
   blocking acquire + MWakeTake w true / false.  [slot e w] := ho_waker (get_h e w)
   is the std Mutex<Option<Waker>> inside the AtomicWaker.

   Contents
     0. slot, popc (the popped state), cont_at
     1. the frame [fk me e e']: waker slots, length of e_h, continuations of the
        OTHER threads; framing lemmas in continuation style for every helper of
        Ops.v and for schedule; exec_micro_fk by ONE tactic for all micro-ops
        other than MBoRegister / MWakeTake (same structure as SyncMono / NotifyFacts)
     2. EXACT STEP LEMMAS
          exec_micro_register, exec_micro_wake_take    the two micro-ops as equations
          register_success_effect     slot := Some (n, k) (for a declared w), lock word
                                      Some me, continuation = [drop of the replaced
                                      waker] ++ MWakerRelease w :: second poll
          waker_release_effect        the lock word is None afterwards, slots unchanged
          register_contended_effect   e_h and e_objects unchanged, continuation =
                                      MBranch n; MNotifyPost n; drop of the clone;
                                      MYield; second poll      (register_contended_iff:
                                      exactly when the lock word is taken / no mutex)
          register_contended_next_wait_not_blocking   (NotifyFacts.wake_wait1_not_blocking)
          wake_take_effect, take_waker_effect (take_effect)   lock free before AND
                                      after, slot := None, no Notify touched by the
                                      take; Some (n, k): continuation = MBranch n
                                      AOpaque BNever :: MNotifyPost n :: drop of k ::
                                      MLog RUnit; None: continuation unchanged
          take_fails_while_locked
     3. ALL MICRO-OPS:  slot_step (slot_after): the slot changes only in a
        successful MBoRegister (to the caller's own (n, k)) and in MWakeTake (to
        None), for MOk and MFail results alike; others_cont_step; h_length_step.
        Traces: wsteps w e evs e' (any thread, any micro-op; evs = the slot
        events WReg t n k / WTake t old on w) and
          wake_wakes_latest            slot e' w = replay evs (slot e w)
          slot_is_latest_registration, slot_empty_after_take,
          slot_unchanged_without_event
          wake_notifies_latest         the waking thread's next micro-ops are the
                                       scheduling point + MNotifyPost n for the n of
                                       the LATEST registration not yet taken, or
                                       nothing
     4. RUNS (rsteps P: SyncMono.steps with a predicate on the executed micro-ops)
          wake_in_flight_or_delivered  run-level invariant: from the take on, the
                                       wake sits in the waking thread's continuation
                                       (nobody else can remove it) or the flag of n
                                       is set, as long as nobody consumes it
          delivered_wait1_not_blocking, delivered_wait2_succeeds
          registered_then_woken_not_lost   the composition, + NotifyFacts.no_lost_wakeup
     5. wake() RACING WITH register()
          register_cs_frozen           ExclFacts: the critical section is opaque
          contended_holder, taker_not_in_cs
          wake_during_registration_b (+ _not_lost), wake_during_registration_a
     6. block_on: exec_micro_block_on / _bo_poll / _bo_load / _bo_done,
          repoll_only_after_wake, block_on_returns_when_ready, wait2_needs_flag,
          poll_lines_step, poll_logs_one_line (LPoll lines come from polls only)
     7. witnesses (vm_compute): wake_after_registration_finishes,
          nobody_wakes_deadlock, wake_never_lost_exhaustive,
          wake_blocked_during_registration_reachable,
          contended_registration_reachable, two_tasks_one_waker_deadlock,
          register_success_needs_declared

   DEVIATIONS / FINDINGS

   W1  register_success_effect: "slot := Some (n, k)" needs [w < length (e_h e)]
       (w is a declared object).  On a state whose harness table is shorter than
       its object table the lock is taken and nothing is stored
       (register_success_needs_declared); such a state is not reachable
       (CountFacts.run_h_length: length (e_h e) = length (p_decls p), and no
       micro-operation creates a mutex).  slot_step carries the test inside
       slot_after and is unconditional; wake_wakes_latest and the run theorems
       have the hypothesis for the start state only (h_length_step).
   W2  4.(a) AS REQUESTED CANNOT HAPPEN, in the model and in loom: "the waker's
       blocking acquire comes first, so the registration's try-acquire fails".
       AtomicWaker::take_waker is acquire_lock (a scheduling point BEFORE it),
       take, release_lock, with no scheduling point in between; MWakeTake is one
       micro-operation and leaves the lock word as it found it: free
       (take_effect).  The only holder that can be observed is a thread INSIDE a
       registration (contended_holder: ExclFacts.mutex_lock_owner), and a
       registration holds the lock across a scheduling point only while it drops
       the waker it replaced (MBranch k' ARefDec).  Hence a contended
       registration needs TWO tasks registering in one AtomicWaker
       (contended_registration_reachable), and then the task does notify itself
       and its next wait does not block (register_contended_effect,
       register_contended_next_wait_not_blocking).  What "the registration in
       flight observes the wake" means when the wake comes first is proved as
       wake_during_registration_a: the registration succeeds, stores its waker
       AFTER the take (this wake will not notify it), and ACQUIRES THE WAKING
       THREAD'S CLOCK through the lock word (SyncMono.mutex_handover_mono):
       everything done before wake() happens-before the second poll of the
       round, which therefore cannot miss a value stored before the wake
       (coherence: AtomicCoherence.coherence_write_read).  Checked exhaustively
       on the canonical program for SeqCst / Release / Relaxed stores
       (wake_never_lost_exhaustive: 205 schedules, no deadlock).
   W3  NO LOST WAKE-UP WAS FOUND.  Two behaviours that look like one and are
       inherent to AtomicWaker (real loom behaves the same):
       - two tasks on one AtomicWaker: the second registration DROPS the first
         task's waker; a later wake notifies the second task only and the first
         one blocks for ever (two_tasks_one_waker_deadlock).
         That is wake_wakes_latest ("the most recently registered").
       - a waker clone that is still registered when block_on returns is never
         dropped: "Arc leaked" (LeakFacts F2; 13 of the 205 schedules of p_wake).
   W4  3. is stated at two levels: registered_then_woken_not_lost over runs
       (rsteps; the conclusion is the invariant "in flight or delivered" plus
       what "delivered" gives), and its last conjunct is
       NotifyFacts.no_lost_wakeup over steps_without_wait2 for the moment the
       pending MNotifyPost n runs.  No liveness is claimed: whether the waking
       thread is scheduled again is the scheduler's business (DeadlockFacts).
   W5  5. is the local statement asked for (continuation shape + the three ways
       through Notify::wait), plus poll_lines_step / poll_logs_one_line: an
       LPoll line is written by MBoPoll / MBsPoll and by nothing else.  The
       global reading ("between two LPoll lines of one block_on the task went
       through Notify::wait") is not proved as a trace theorem.
   W6  "reports a deadlock if no wake can ever arrive" is served by the witness
       nobody_wakes_deadlock and by DeadlockFacts (blocked_forever_is_reported);
       NotifyFacts.unnotified_waiter_blocked_until_post says that the task stays
       Blocked until some MNotifyPost n. *)
Require Import LV.Base LV.VV LV.VVFacts LV.Path LV.PathSpec LV.PathApi LV.Prog LV.Objects
               LV.Exec LV.Atomic LV.Ops LV.Check LV.SyncFacts LV.ExecFacts LV.SyncMono
               LV.NotifyFacts LV.ExclFacts.
From Coq Require Import List Arith Lia Bool.
Import ListNotations.

(* ================================================================== *)
(* 0. The waker slot, the popped state, small facts                    *)
(* ================================================================== *)

(* the content of the AtomicWaker w: (Notify, Arc) of the registered waker *)
Definition slot (e : exec) (w : nat) : option (nat * nat) := ho_waker (get_h e w).

Definition wslots (e : exec) : list (option (nat * nat)) := map ho_waker (e_h e).

Lemma slot_wslots e w : slot e w = nth w (wslots e) None.
Proof.
  unfold slot, wslots, get_h. change (@None (nat * nat)) with (ho_waker hobj_default).
  symmetry. apply map_nth.
Qed.

(* the state on which Check.run executes the head of a continuation *)
Definition popc (e : exec) (me : nat) (rest : list micro) : exec :=
  upd_thread e me (fun t => th_set_cont t rest).

Definition cont_at (e : exec) (a : nat) : list micro :=
  match nth_error (e_threads e) a with Some t => t_cont t | None => [] end.

Lemma nth_list_upd_hit (A : Type) (l : list A) i f d :
  i < length l -> nth i (list_upd l i f) d = f (nth i l d).
Proof.
  intros Hi. apply nth_error_nth. rewrite nth_error_list_upd_same.
  rewrite (nth_error_nth' l d Hi). reflexivity.
Qed.

Lemma nth_list_upd_miss (A : Type) (l : list A) i k f d :
  k <> i -> nth k (list_upd l i f) d = nth k l d.
Proof.
  intros Hne. destruct (nth_list_upd_same_or A l i f d k) as [H|[H _]]; [exact H|destruct (Hne H)].
Qed.

Lemma slot_upd_hobj_same e w f :
  w < length (e_h e) -> slot (upd_hobj e w f) w = ho_waker (f (get_h e w)).
Proof.
  intros Hw. unfold slot, get_h, upd_hobj. cbn [e_h ex_set_h].
  rewrite nth_list_upd_hit by exact Hw. reflexivity.
Qed.

Lemma slot_upd_hobj_other e w w' f : w' <> w -> slot (upd_hobj e w f) w' = slot e w'.
Proof.
  intros Hne. unfold slot, get_h, upd_hobj. cbn [e_h ex_set_h].
  rewrite nth_list_upd_miss by exact Hne. reflexivity.
Qed.

Lemma slot_upd_hobj_out e w f : length (e_h e) <= w -> upd_hobj e w f = e.
Proof.
  intros Hw. unfold upd_hobj, list_upd. apply nth_error_None in Hw. rewrite Hw. destruct e; reflexivity.
Qed.

Lemma slot_out e w : length (e_h e) <= w -> slot e w = None.
Proof. intros Hw. unfold slot, get_h. rewrite nth_overflow by exact Hw. reflexivity. Qed.

Lemma slot_h_eq e e' w : e_h e' = e_h e -> slot e' w = slot e w.
Proof. intros H. unfold slot, get_h. rewrite H. reflexivity. Qed.

(* ================================================================== *)
(* 1. The frame: what every micro-operation other than the two slot    *)
(*    operations keeps -- the waker slots, and the continuations of    *)
(*    the OTHER threads                                                 *)
(* ================================================================== *)

Definition ock (me : nat) (ths ths' : list thread) : Prop :=
  forall a t, a <> me -> nth_error ths a = Some t ->
    exists t', nth_error ths' a = Some t' /\ t_cont t' = t_cont t.

Definition fk (me : nat) (e e' : exec) : Prop :=
  wslots e' = wslots e /\ length (e_h e') = length (e_h e) /\ ock me (e_threads e) (e_threads e').

Lemma ock_refl me ths : ock me ths ths.
Proof. intros a t _ H. eauto. Qed.

Lemma ock_trans me a b c : ock me a b -> ock me b c -> ock me a c.
Proof.
  intros H1 H2 i t Hne Hi. destruct (H1 i t Hne Hi) as (t1 & Ht1 & Hc1).
  destruct (H2 i t1 Hne Ht1) as (t2 & Ht2 & Hc2). exists t2. split; [exact Ht2|congruence].
Qed.

Lemma fk_refl me e : fk me e e.
Proof. split; [reflexivity|]. split; [reflexivity|apply ock_refl]. Qed.

Lemma fk_trans me e1 e2 e3 : fk me e1 e2 -> fk me e2 e3 -> fk me e1 e3.
Proof.
  intros (A1 & B1 & C1) (A2 & B2 & C2). split; [congruence|]. split; [congruence|].
  eapply ock_trans; eassumption.
Qed.

Lemma fk_k me e0 e e' : fk me e e' -> fk me e0 e -> fk me e0 e'.
Proof. intros H1 H0. eapply fk_trans; eassumption. Qed.

Lemma fk_same me e e' : e_h e' = e_h e -> e_threads e' = e_threads e -> fk me e e'.
Proof.
  intros Hh Ht. unfold fk, wslots. rewrite Hh, Ht. split; [reflexivity|]. split; [reflexivity|apply ock_refl].
Qed.

Lemma fk_same_k me e0 e e' :
  e_h e' = e_h e -> e_threads e' = e_threads e -> fk me e0 e -> fk me e0 e'.
Proof. intros Hh Ht. apply fk_k, fk_same; assumption. Qed.

Lemma fk_set_threads me e ths' : ock me (e_threads e) ths' -> fk me e (ex_set_threads e ths').
Proof. intros H. split; [reflexivity|]. split; [reflexivity|exact H]. Qed.

Lemma ock_upd_me me ths f : ock me ths (list_upd ths me f).
Proof.
  intros a t Hne Ha. exists t. split; [|reflexivity].
  rewrite nth_error_list_upd_other by (intros H; apply Hne; symmetry; exact H). exact Ha.
Qed.

Lemma ock_upd_cont me ths i f : (forall t, t_cont (f t) = t_cont t) -> ock me ths (list_upd ths i f).
Proof.
  intros Hf a t _ Ha. destruct (Nat.eq_dec i a) as [->|Hne].
  - rewrite nth_error_list_upd_same, Ha. cbn [option_map]. eauto.
  - rewrite nth_error_list_upd_other by exact Hne. eauto.
Qed.

Lemma ock_mapi me ths g : (forall id t, t_cont (g id t) = t_cont t) -> ock me ths (mapi g ths).
Proof.
  intros Hg a t _ Ha. rewrite nth_error_mapi, Ha. cbn [option_map]. eauto.
Qed.

Lemma ock_app me ths l : ock me ths (ths ++ l).
Proof.
  intros a t _ Ha. exists t. split; [|reflexivity].
  rewrite nth_error_app1; [exact Ha|]. apply nth_error_Some. congruence.
Qed.

Lemma fk_upd_thread_me_k me e0 e f : fk me e0 e -> fk me e0 (upd_thread e me f).
Proof. apply fk_k. apply fk_set_threads, ock_upd_me. Qed.

Lemma fk_upd_thread_cont_k me e0 e i f :
  (forall t, t_cont (f t) = t_cont t) -> fk me e0 e -> fk me e0 (upd_thread e i f).
Proof. intros Hf. apply fk_k. apply fk_set_threads, ock_upd_cont, Hf. Qed.

Lemma fk_mapi_k me e0 e g :
  (forall id t, t_cont (g id t) = t_cont t) -> fk me e0 e ->
  fk me e0 (ex_set_threads e (mapi g (e_threads e))).
Proof. intros Hg. apply fk_k. apply fk_set_threads, ock_mapi, Hg. Qed.

Ltac tcont :=
  intros;
  unfold thread_unpark, thread_notified, set_unparked, set_runnable, set_blocked, set_yield;
  repeat match goal with
         | |- context [if ?x then _ else _] => destruct x
         | |- context [match ?x with _ => _ end] => destruct x
         end; reflexivity.

Lemma fk_map_others_k me e0 e me' p f :
  (forall t, t_cont (f t) = t_cont t) -> fk me e0 e -> fk me e0 (map_others e me' p f).
Proof.
  intros Hf. unfold map_others. apply fk_mapi_k. intros id t.
  destruct (negb (Nat.eqb id me') && p t); [apply Hf|reflexivity].
Qed.

Lemma fk_append_threads_k me e0 e l : fk me e0 e -> fk me e0 (ex_set_threads e (e_threads e ++ l)).
Proof. apply fk_k. apply fk_set_threads, ock_app. Qed.

Lemma fk_upd_hobj_k me e0 e i f :
  (forall h, ho_waker (f h) = ho_waker h) -> fk me e0 e -> fk me e0 (upd_hobj e i f).
Proof.
  intros Hf. apply fk_k. split; [|split; [apply list_upd_length|apply ock_refl]].
  unfold wslots, upd_hobj. cbn [e_h ex_set_h].
  apply map_list_upd_id. exact Hf.
Qed.

Lemma fk_log_op_k me e0 e me' r : fk me e0 e -> fk me e0 (log_op e me' r).
Proof. apply fk_same_k; unfold log_op; destruct (get_thread e me'); reflexivity. Qed.

Lemma fk_log_poll_k me e0 e me' : fk me e0 e -> fk me e0 (log_poll e me').
Proof. apply fk_same_k; unfold log_poll; destruct (get_thread e me'); reflexivity. Qed.

Lemma fk_threads_unpark_k me e0 e me' id : fk me e0 e -> fk me e0 (threads_unpark e me' id).
Proof.
  intros H. unfold threads_unpark. destruct (Nat.eqb id me'); (apply fk_upd_thread_cont_k; [tcont|exact H]).
Qed.

Lemma fk_fold_unpark_k me me' l : forall e0 e,
  fk me e0 e -> fk me e0 (fold_left (fun e t => threads_unpark e me' t) l e).
Proof.
  induction l as [|x l IH]; intros e0 e H; cbn [fold_left]; [exact H|].
  apply IH, fk_threads_unpark_k, H.
Qed.

Lemma fk_sched_note_k me e0 e nx pid th : fk me e0 e -> fk me e0 (sched_note e nx pid th).
Proof.
  intros H. unfold sched_note. destruct (t_op th) as [op|]; [|exact H].
  destruct (nth_error (e_objects e) (op_obj op)) as [o|]; [|exact H].
  cbv zeta.
  match goal with |- fk _ _ (upd_object ?E _ _) => apply (fk_same_k _ _ E); [reflexivity|reflexivity|] end.
  apply fk_upd_thread_cont_k; [tcont|exact H].
Qed.

Lemma schedule_fk_k me e0 e : fk me e0 e -> fk me e0 (res_exec (fst (schedule e))).
Proof.
  intros H.
  destruct (schedule_cases e)
    as [(c & ->)|[(x & ->)|[(p1 & x & Hd & ->)|(curr & cur_th & p1 & p2 & next & Hp & ->)]]];
    cbn [fst res_exec]; try exact H.
  assert (Hb : fk me e0 (sched_base e p2 next)) by (eapply fk_same_k; [reflexivity|reflexivity|exact H]).
  { revert Hb. generalize (sched_base e p2 next). intros e1 Hb.
    unfold sched_post. destruct next as [nx|].
    + destruct (nth_error (e_threads e1) nx) as [th|]; cbn [fst res_exec]; [|exact Hb].
      unfold reactivate. apply fk_mapi_k; [tcont|]. apply fk_sched_note_k, Hb.
    + destruct (forallb is_terminated (e_threads e1)); cbn [fst res_exec]; exact Hb. }
Qed.

Lemma do_branch_fk_k me e0 e obj act blk :
  fk me e0 e -> fk me e0 (res_exec (do_branch e me obj act blk)).
Proof. intros H. unfold do_branch. apply schedule_fk_k, fk_upd_thread_me_k, H. Qed.

Lemma do_park_fk_k me e0 e : fk me e0 e -> fk me e0 (res_exec (do_park e me)).
Proof.
  intros H. unfold do_park. destruct (get_thread e me) as [t|]; [|exact H].
  destruct (t_token t); cbn [res_exec].
  - apply fk_upd_thread_me_k, H.
  - apply schedule_fk_k, fk_upd_thread_me_k, H.
Qed.

Lemma do_yield_fk_k me e0 e : fk me e0 e -> fk me e0 (res_exec (do_yield e me)).
Proof. intros H. unfold do_yield. apply schedule_fk_k, fk_upd_thread_me_k, H. Qed.

Lemma fk_upd_object_k me e0 e i f : fk me e0 e -> fk me e0 (upd_object e i f).
Proof. apply fk_same_k; reflexivity. Qed.

Lemma release_lock_fk_k me e0 e me' m : fk me e0 e -> fk me e0 (release_lock e me' m).
Proof.
  intros H. unfold release_lock. destruct (get_mutex e m) as [s|]; [|exact H]. cbv zeta.
  destruct (e_active _).
  - apply fk_map_others_k; [tcont|]. repeat apply fk_upd_object_k. exact H.
  - apply fk_upd_object_k, H.
Qed.

Lemma post_acquire_fk me e m : fk me e (fst (post_acquire e me m)).
Proof.
  unfold post_acquire. destruct (get_mutex e m) as [s|]; [|apply fk_refl].
  destruct (is_some (mx_lock s)); cbn [fst]; [apply fk_refl|].
  apply fk_map_others_k; [tcont|]. unfold set_caus. apply fk_upd_thread_me_k.
  apply fk_upd_object_k, fk_refl.
Qed.

Lemma post_acquire_read_fk me e r : fk me e (fst (post_acquire_read e me r)).
Proof.
  unfold post_acquire_read. destruct (get_rw e r) as [s|]; [|apply fk_refl].
  destruct (rw_lock s) as [[rs|x]|]; cbn [fst]; try apply fk_refl.
  all: apply fk_map_others_k; [tcont|]; unfold set_caus; apply fk_upd_thread_me_k;
    apply fk_upd_object_k, fk_refl.
Qed.

Lemma post_acquire_write_fk me e r : fk me e (fst (post_acquire_write e me r)).
Proof.
  unfold post_acquire_write. destruct (get_rw e r) as [s|]; [|apply fk_refl].
  destruct (rw_lock s) as [lk|]; cbn [fst]; try apply fk_refl.
  apply fk_map_others_k; [tcont|]; unfold set_caus; apply fk_upd_thread_me_k;
    apply fk_upd_object_k, fk_refl.
Qed.

Lemma release_read_fk me e me' r : fk me e (res_exec (release_read e me' r)).
Proof.
  unfold release_read. destruct (get_rw e r) as [s|]; [|apply fk_refl]. cbv zeta.
  destruct (rw_lock s) as [[rs|x]|]; cbn [res_exec]; try apply fk_refl.
  destruct (set_remove me' rs); cbn [res_exec].
  - apply fk_map_others_k; [tcont|]. apply fk_upd_object_k, fk_refl.
  - apply fk_upd_object_k, fk_refl.
Qed.

Lemma release_write_fk me e me' r : fk me e (res_exec (release_write e me' r)).
Proof.
  unfold release_write. destruct (get_rw e r) as [s|]; [|apply fk_refl]. cbn [res_exec].
  apply fk_map_others_k; [tcont|]. apply fk_upd_object_k, fk_refl.
Qed.

Lemma choose_store_fk me e seed : fk me e (fst (choose_store e seed)).
Proof.
  unfold choose_store.
  repeat match goal with
         | |- context [match ?x with _ => _ end] =>
             lazymatch x with
             | context [match _ with _ => _ end] => fail
             | _ => destruct x
             end
         end; cbn [fst]; apply fk_same; reflexivity.
Qed.

(* ---- one tactic for all micro-operations ---- *)
Ltac fclose_step :=
  match goal with
  | |- fk _ ?e ?e => apply fk_refl
  | H : fk ?me ?E ?x |- fk ?me _ ?x => apply (fk_trans me _ E x); [|exact H]
  | |- fk _ _ (log_op _ _ _) => apply fk_log_op_k
  | |- fk _ _ (log_poll _ _) => apply fk_log_poll_k
  | |- fk _ _ (release_lock _ _ _) => apply release_lock_fk_k
  | |- fk _ _ (threads_unpark _ _ _) => apply fk_threads_unpark_k
  | |- fk _ _ (fold_left _ _ _) => apply fk_fold_unpark_k
  | |- fk _ _ (ex_set_objects ?e _) => apply (fk_same_k _ _ e); [reflexivity|reflexivity|]
  | |- fk _ _ (ex_set_threads ?e (e_threads ?e ++ _)) => apply fk_append_threads_k
  | |- fk _ _ (upd_object _ _ _) => apply fk_upd_object_k
  | |- fk ?me _ (push_cont _ ?me _) => unfold push_cont at 1; apply fk_upd_thread_me_k
  | |- fk ?me _ (push_guard _ ?me _ _) => unfold push_guard at 1; apply fk_upd_thread_me_k
  | |- fk ?me _ (drop_guard _ ?me _ _) => unfold drop_guard at 1; apply fk_upd_thread_me_k
  | |- fk ?me _ (causality_inc _ ?me) => unfold causality_inc at 1; apply fk_upd_thread_me_k
  | |- fk ?me _ (set_caus _ ?me _) => unfold set_caus at 1; apply fk_upd_thread_me_k
  | |- fk ?me _ (upd_thread _ ?me _) => apply fk_upd_thread_me_k
  | |- fk _ _ (map_others _ _ _ _) => apply fk_map_others_k; [tcont|]
  | |- fk _ _ (set_slot _ _ _ _) => unfold set_slot at 1; apply fk_upd_hobj_k; [intros ?; reflexivity|]
  | |- fk _ _ (upd_hobj _ _ _) => apply fk_upd_hobj_k; [intros ?; reflexivity|]
  | |- fk _ _ (ex_set_path ?e _) => apply (fk_same_k _ _ e); [reflexivity|reflexivity|]
  | |- fk _ _ (ex_set_active ?e _) => apply (fk_same_k _ _ e); [reflexivity|reflexivity|]
  | |- fk _ _ (ex_set_seqcst ?e _) => apply (fk_same_k _ _ e); [reflexivity|reflexivity|]
  | |- fk _ _ (ex_set_spawned ?e _) => apply (fk_same_k _ _ e); [reflexivity|reflexivity|]
  | |- fk _ _ (ex_set_joined ?e _) => apply (fk_same_k _ _ e); [reflexivity|reflexivity|]
  | |- fk _ _ (ex_set_log ?e _) => apply (fk_same_k _ _ e); [reflexivity|reflexivity|]
  | |- fk _ _ (ex_set_lazy ?e _) => apply (fk_same_k _ _ e); [reflexivity|reflexivity|]
  end.

Ltac fclose := cbn [res_exec lp_exec]; repeat fclose_step.

Ltac fstep :=
  match goal with
  | |- fk _ _ (res_exec (fst (schedule _))) => apply schedule_fk_k
  | |- fk _ _ (res_exec (do_branch _ _ _ _ _)) => apply do_branch_fk_k
  | |- fk _ _ (res_exec (do_park _ _)) => apply do_park_fk_k
  | |- fk _ _ (res_exec (do_yield _ _)) => apply do_yield_fk_k
  | |- fk ?me0 _ ?G =>
      match G with
      | context [post_acquire ?e ?me ?m] =>
          let H := fresh "Hfr" in
          pose proof (post_acquire_fk me e m) as H;
          destruct (post_acquire e me m); cbn [fst] in H
      | context [post_acquire_read ?e ?me ?m] =>
          let H := fresh "Hfr" in
          pose proof (post_acquire_read_fk me e m) as H;
          destruct (post_acquire_read e me m); cbn [fst] in H
      | context [post_acquire_write ?e ?me ?m] =>
          let H := fresh "Hfr" in
          pose proof (post_acquire_write_fk me e m) as H;
          destruct (post_acquire_write e me m); cbn [fst] in H
      | context [release_read ?e ?me ?m] =>
          let H := fresh "Hfr" in
          pose proof (release_read_fk me0 e me m) as H;
          destruct (release_read e me m); cbn [res_exec] in H
      | context [release_write ?e ?me ?m] =>
          let H := fresh "Hfr" in
          pose proof (release_write_fk me0 e me m) as H;
          destruct (release_write e me m); cbn [res_exec] in H
      | context [choose_store ?e ?s] =>
          let H := fresh "Hfr" in
          pose proof (choose_store_fk me0 e s) as H;
          destruct (choose_store e s) as [? [?|?]]; cbn [fst] in H
      end
  | |- context [match ?x with _ => _ end] =>
      lazymatch x with
      | context [match _ with _ => _ end] => fail
      | _ => destruct x eqn:?
      end
  end; cbv beta iota.

Lemma load_post_fk me e a o : fk me e (lp_exec (load_post e me a o)).
Proof. unfold load_post. repeat fstep. all: fclose. Qed.

Ltac fstep' :=
  first [ match goal with
          | |- fk ?me0 _ ?G =>
              match G with
              | context [load_post ?e ?me ?a ?o] =>
                  let H := fresh "Hfr" in
                  pose proof (load_post_fk me e a o) as H;
                  destruct (load_post e me a o) as [[? ?]|[? ?]]; cbn [lp_exec] in H; cbv beta iota
              end
          end
        | fstep ].

Ltac fk_tac :=
  cbn [exec_micro]; unfold lift_path, mbind; cbv beta iota;
  repeat fstep'; fclose.

Definition slot_op (m : micro) : bool :=
  match m with MBoRegister _ _ _ _ _ | MWakeTake _ _ => true | _ => false end.

Lemma exec_micro_fk e me m : slot_op m = false -> fk me e (res_exec (exec_micro e me m)).
Proof.
  intros Hs. destruct m; try discriminate Hs; clear Hs.
  all: fk_tac.
Qed.

(* ================================================================== *)
(* 2. The exact step lemmas                                            *)
(* ================================================================== *)

Definition conts (e : exec) : list (list micro) := map t_cont (e_threads e).

Lemma cont_at_conts e a : cont_at e a = nth a (conts e) [].
Proof.
  unfold cont_at, conts. destruct (nth_error (e_threads e) a) as [t|] eqn:Ha.
  - symmetry. apply nth_error_nth. rewrite nth_error_map, Ha. reflexivity.
  - apply nth_error_None in Ha. rewrite nth_overflow; [reflexivity|]. rewrite map_length. exact Ha.
Qed.

Lemma cont_at_conts_eq e e' a : conts e' = conts e -> cont_at e' a = cont_at e a.
Proof. intros H. rewrite !cont_at_conts, H. reflexivity. Qed.

Lemma conts_map_others e me p f :
  (forall t, t_cont (f t) = t_cont t) -> conts (map_others e me p f) = conts e.
Proof.
  intros Hf. unfold conts, map_others. cbn [e_threads ex_set_threads]. apply map_mapi_id.
  intros i x. destruct (negb (Nat.eqb i me) && p x); [apply Hf|reflexivity].
Qed.

Lemma conts_upd_thread_keep e i f :
  (forall t, t_cont (f t) = t_cont t) -> conts (upd_thread e i f) = conts e.
Proof. intros Hf. unfold conts, upd_thread. cbn [e_threads ex_set_threads]. apply map_list_upd_id, Hf. Qed.

Lemma conts_post_acquire e me m : conts (fst (post_acquire e me m)) = conts e.
Proof.
  unfold post_acquire. destruct (get_mutex e m) as [s|]; [|reflexivity].
  destruct (is_some (mx_lock s)); cbn [fst]; [reflexivity|].
  rewrite conts_map_others by tcont. unfold set_caus. rewrite conts_upd_thread_keep by (intros t; reflexivity).
  reflexivity.
Qed.

Lemma conts_release_lock e me m : conts (release_lock e me m) = conts e.
Proof.
  unfold release_lock. destruct (get_mutex e m) as [s|]; [|reflexivity]. cbv zeta.
  destruct (e_active _); [|reflexivity]. rewrite conts_map_others by tcont. reflexivity.
Qed.

Lemma conts_log_op e me r : conts (log_op e me r) = conts e.
Proof. unfold log_op. destruct (get_thread e me); reflexivity. Qed.

Lemma cont_at_push_cont_same e me ms :
  me < length (e_threads e) -> cont_at (push_cont e me ms) me = ms ++ cont_at e me.
Proof.
  intros Hme. unfold cont_at, push_cont, upd_thread. cbn [e_threads ex_set_threads].
  rewrite nth_error_list_upd_same.
  destruct (nth_error (e_threads e) me) as [t|] eqn:Ht; [reflexivity|].
  apply nth_error_None in Ht. lia.
Qed.

Lemma cont_at_push_cont_other e me ms a : a <> me -> cont_at (push_cont e me ms) a = cont_at e a.
Proof.
  intros Hne. unfold cont_at, push_cont, upd_thread. cbn [e_threads ex_set_threads].
  rewrite nth_error_list_upd_other by (intros H; apply Hne; symmetry; exact H). reflexivity.
Qed.

Lemma cont_at_popc_same e me rest :
  me < length (e_threads e) -> cont_at (popc e me rest) me = rest.
Proof.
  intros Hme. unfold cont_at, popc, upd_thread. cbn [e_threads ex_set_threads].
  rewrite nth_error_list_upd_same.
  destruct (nth_error (e_threads e) me) as [t|] eqn:Ht; [reflexivity|].
  apply nth_error_None in Ht. lia.
Qed.

Lemma cont_at_popc_other e me rest a : a <> me -> cont_at (popc e me rest) a = cont_at e a.
Proof.
  intros Hne. unfold cont_at, popc, upd_thread. cbn [e_threads ex_set_threads].
  rewrite nth_error_list_upd_other by (intros H; apply Hne; symmetry; exact H). reflexivity.
Qed.

(* ---- post_acquire / release_lock on the lock word ---- *)
Lemma post_acquire_h e me m : e_h (fst (post_acquire e me m)) = e_h e.
Proof.
  unfold post_acquire. destruct (get_mutex e m) as [s|]; [|reflexivity].
  destruct (is_some (mx_lock s)); reflexivity.
Qed.

Lemma post_acquire_threads_length e me m :
  length (e_threads (fst (post_acquire e me m))) = length (e_threads e).
Proof.
  pose proof (f_equal (@length _) (conts_post_acquire e me m)) as H. unfold conts in H.
  rewrite !map_length in H. exact H.
Qed.

Lemma post_acquire_ok_iff e me m :
  snd (post_acquire e me m) = true <-> exists s, get_mutex e m = Some s /\ mx_lock s = None.
Proof.
  unfold post_acquire. destruct (get_mutex e m) as [s|].
  - destruct (mx_lock s) as [t|] eqn:Hl; cbn [is_some snd]; split.
    + discriminate.
    + intros (s' & Hs' & Hn). injection Hs' as <-. congruence.
    + intros _. eauto.
    + reflexivity.
  - cbn [snd]. split; [discriminate|]. intros (s & Hs & _). discriminate Hs.
Qed.

Lemma post_acquire_ok_lock e me m e1 :
  post_acquire e me m = (e1, true) ->
  exists s s1, get_mutex e m = Some s /\ mx_lock s = None /\
               get_mutex e1 m = Some s1 /\ mx_lock s1 = Some me /\ mx_sync s1 = mx_sync s.
Proof.
  intros Hpa. unfold post_acquire in Hpa. destruct (get_mutex e m) as [s|] eqn:Hg; [|discriminate Hpa].
  destruct (mx_lock s) as [t|] eqn:Hl; cbn [is_some] in Hpa; [discriminate Hpa|].
  injection Hpa as <-. exists s. eexists. split; [reflexivity|]. split; [exact Hl|].
  split.
  { rewrite (get_mutex_objects_eq _ _ m (e_objects_map_others _ _ _ _)).
    rewrite (get_mutex_objects_eq _ _ m (e_objects_set_caus _ _ _)).
    eapply get_mutex_upd_const. apply get_mutex_nth. exact Hg. }
  split; reflexivity.
Qed.

Lemma post_acquire_held e me m s t :
  get_mutex e m = Some s -> mx_lock s = Some t -> post_acquire e me m = (e, false).
Proof. intros Hg Hl. unfold post_acquire. rewrite Hg, Hl. reflexivity. Qed.

Lemma post_acquire_fail_cases e me m :
  snd (post_acquire e me m) = false ->
  get_mutex e m = None \/ exists s t, get_mutex e m = Some s /\ mx_lock s = Some t.
Proof.
  unfold post_acquire. destruct (get_mutex e m) as [s|]; [|left; reflexivity].
  destruct (mx_lock s) as [t|] eqn:Hl; cbn [is_some snd]; [|discriminate]. intros _. right. eauto.
Qed.

Lemma release_lock_unlocks e me m s :
  get_mutex e m = Some s ->
  exists s', get_mutex (release_lock e me m) m = Some s' /\ mx_lock s' = None.
Proof.
  intros Hg. pose proof (get_mutex_nth e m s Hg) as Hn.
  unfold release_lock. rewrite Hg. cbv zeta. rewrite e_active_upd_object.
  destruct (e_active e).
  - eexists. split.
    + rewrite (get_mutex_objects_eq _ _ m (e_objects_map_others _ _ _ _)).
      eapply get_mutex_upd_const. rewrite nth_error_objects_upd_same, Hn. reflexivity.
    + reflexivity.
  - eexists. split; [eapply get_mutex_upd_const; exact Hn|]. reflexivity.
Qed.

Lemma release_lock_h e me m : e_h (release_lock e me m) = e_h e.
Proof.
  unfold release_lock. destruct (get_mutex e m) as [s|]; [|reflexivity]. cbv zeta.
  destruct (e_active _); reflexivity.
Qed.

(* a Notify is not touched by operations on the lock word of a mutex *)
Lemma get_notify_upd_mutex e m s o n :
  get_mutex e m = Some s -> get_notify (upd_object e m (fun _ => OMutex o)) n = get_notify e n.
Proof.
  intros Hg. apply get_mutex_nth in Hg. unfold get_notify.
  destruct (Nat.eq_dec m n) as [<-|Hne].
  - rewrite nth_error_objects_upd_same, Hg. reflexivity.
  - rewrite nth_error_objects_upd_other by exact Hne. reflexivity.
Qed.

Lemma get_notify_post_acquire e me m n :
  get_notify (fst (post_acquire e me m)) n = get_notify e n.
Proof.
  unfold post_acquire. destruct (get_mutex e m) as [s|] eqn:Hg; [|reflexivity].
  destruct (is_some (mx_lock s)); cbn [fst]; [reflexivity|].
  rewrite (get_notify_objects_eq _ _ n (e_objects_map_others _ _ _ _)).
  rewrite (get_notify_objects_eq _ _ n (e_objects_set_caus _ _ _)).
  eapply get_notify_upd_mutex. exact Hg.
Qed.

Lemma get_notify_release_lock e me m n :
  get_notify (release_lock e me m) n = get_notify e n.
Proof.
  unfold release_lock. destruct (get_mutex e m) as [s|] eqn:Hg; [|reflexivity]. cbv zeta.
  rewrite e_active_upd_object. destruct (e_active e).
  - rewrite (get_notify_objects_eq _ _ n (e_objects_map_others _ _ _ _)).
    erewrite get_notify_upd_mutex.
    + eapply get_notify_upd_mutex. exact Hg.
    + eapply get_mutex_upd_const. apply get_mutex_nth. exact Hg.
  - eapply get_notify_upd_mutex. exact Hg.
Qed.

(* ---- the continuations pushed by the AtomicWaker operations ---- *)
Definition again (a : nat) (v : N) (w n k : nat) : list micro :=
  [MBranch a ALoad BNever; MBoLoad a v w n k false].
(* dropping a waker: the reference count of its Arc<Notify> goes down *)
Definition drop_waker (k : nat) : list micro := [MBranch k ARefDec BNever; MArcDecRaw k].
(* waker.wake(): notify, then the waker is consumed *)
Definition wake_waker (n k : nat) : list micro :=
  [MBranch n AOpaque BNever; MNotifyPost n] ++ drop_waker k.

Definition reg_cont (old : option (nat * nat)) (a : nat) (v : N) (w n k : nat) : list micro :=
  match old with Some (_, k') => drop_waker k' | None => [] end ++ MWakerRelease w :: again a v w n k.
Definition contended_cont (a : nat) (v : N) (w n k : nat) : list micro :=
  wake_waker n k ++ MYield :: again a v w n k.

Lemma exec_micro_register e me a v w n k :
  exec_micro e me (MBoRegister a v w n k) =
  if snd (post_acquire e me w)
  then MOk (push_cont (upd_hobj (fst (post_acquire e me w)) w (fun h => ho_set_waker h (Some (n, k))))
                      me (reg_cont (slot e w) a v w n k))
  else MOk (push_cont e me (contended_cont a v w n k)).
Proof.
  cbn [exec_micro]. destruct (post_acquire e me w) as [e1 ok] eqn:Hpa. cbn [fst snd]. destruct ok.
  - assert (Hs : ho_waker (get_h e1 w) = slot e w).
    { unfold slot, get_h. pose proof (post_acquire_h e me w) as Hh. rewrite Hpa in Hh. cbn [fst] in Hh.
      rewrite Hh. reflexivity. }
    rewrite Hs. unfold reg_cont. destruct (slot e w) as [[n' k']|]; reflexivity.
  - apply post_acquire_fail_id in Hpa. subst e1. reflexivity.
Qed.

Lemma exec_micro_wake_take e me w wake :
  exec_micro e me (MWakeTake w wake) =
  if snd (post_acquire e me w)
  then
    let e2 := release_lock (upd_hobj (fst (post_acquire e me w)) w (fun h => ho_set_waker h None)) me w in
    match slot e w with
    | None => MOk (log_op e2 me (if wake then RUnit else RVal 0))
    | Some (n, k) =>
        MOk (push_cont e2 me (if wake then wake_waker n k ++ [MLog RUnit] else drop_waker k ++ [MLog (RVal 1)]))
    end
  else MFail e PanicExpectLock.
Proof.
  cbn [exec_micro]. destruct (post_acquire e me w) as [e1 ok] eqn:Hpa. cbn [fst snd]. destruct ok; cbn [negb].
  - assert (Hs : ho_waker (get_h e1 w) = slot e w).
    { unfold slot, get_h. pose proof (post_acquire_h e me w) as Hh. rewrite Hpa in Hh. cbn [fst] in Hh.
      rewrite Hh. reflexivity. }
    rewrite Hs. destruct (slot e w) as [[n k]|]; [destruct wake|]; reflexivity.
  - apply post_acquire_fail_id in Hpa. subst e1. reflexivity.
Qed.

(* ---- 1.a AtomicWaker::register, the try-acquire succeeds ---- *)
Theorem register_success_effect : forall e me a v w n k e1,
  post_acquire e me w = (e1, true) ->
  exists e2,
    exec_micro e me (MBoRegister a v w n k) = MOk e2 /\
    e2 = push_cont (upd_hobj e1 w (fun h => ho_set_waker h (Some (n, k)))) me (reg_cont (slot e w) a v w n k) /\
    (* the slot now holds the caller's waker *)
    (w < length (e_h e) -> slot e2 w = Some (n, k)) /\
    (forall w', w' <> w -> slot e2 w' = slot e w') /\
    (* the lock was free and is now held by the caller *)
    (exists s s2, get_mutex e w = Some s /\ mx_lock s = None /\
                  get_mutex e2 w = Some s2 /\ mx_lock s2 = Some me) /\
    (* the caller goes on with: drop of the replaced waker (if any), release, second poll;
       nobody else's continuation changes *)
    (me < length (e_threads e) -> cont_at e2 me = reg_cont (slot e w) a v w n k ++ cont_at e me) /\
    (forall b, b <> me -> cont_at e2 b = cont_at e b).
Proof.
  intros e me a v w n k e1 Hpa.
  pose proof (exec_micro_register e me a v w n k) as Hx. rewrite Hpa in Hx. cbn [fst snd] in Hx.
  eexists. split; [exact Hx|]. split; [reflexivity|].
  pose proof (post_acquire_h e me w) as Hh. rewrite Hpa in Hh. cbn [fst] in Hh.
  pose proof (conts_post_acquire e me w) as Hc. rewrite Hpa in Hc. cbn [fst] in Hc.
  split; [|split; [|split; [|split]]].
  - intros Hw. unfold push_cont. rewrite (slot_h_eq (upd_hobj e1 w (fun h => ho_set_waker h (Some (n, k)))) _ w) by reflexivity.
    rewrite slot_upd_hobj_same by (rewrite Hh; exact Hw). reflexivity.
  - intros w' Hne. unfold push_cont.
    rewrite (slot_h_eq (upd_hobj e1 w (fun h => ho_set_waker h (Some (n, k)))) _ w') by reflexivity.
    rewrite slot_upd_hobj_other by exact Hne. apply slot_h_eq, Hh.
  - destruct (post_acquire_ok_lock e me w e1 Hpa) as (s & s1 & Hg & Hl & Hg1 & Hl1 & _).
    exists s, s1. split; [exact Hg|]. split; [exact Hl|]. split; [|exact Hl1].
    rewrite (get_mutex_objects_eq _ e1 w); [exact Hg1|reflexivity].
  - intros Hme. rewrite cont_at_push_cont_same.
    + f_equal. rewrite <- (cont_at_conts_eq e e1 me Hc). reflexivity.
    + change (e_threads (upd_hobj e1 w (fun h => ho_set_waker h (Some (n, k))))) with (e_threads e1).
      pose proof (post_acquire_threads_length e me w) as Hl. rewrite Hpa in Hl. cbn [fst] in Hl. lia.
  - intros b Hne. rewrite cont_at_push_cont_other by exact Hne.
    rewrite <- (cont_at_conts_eq e e1 b Hc). reflexivity.
Qed.

(* "lock released afterwards": the MWakerRelease w of that continuation *)
Theorem waker_release_effect : forall e me w,
  exec_micro e me (MWakerRelease w) = MOk (release_lock e me w) /\
  (forall w', slot (release_lock e me w) w' = slot e w') /\
  (forall s, get_mutex e w = Some s ->
     exists s', get_mutex (release_lock e me w) w = Some s' /\ mx_lock s' = None) /\
  (forall b, cont_at (release_lock e me w) b = cont_at e b).
Proof.
  intros e me w. split; [reflexivity|]. split; [|split].
  - intros w'. apply slot_h_eq, release_lock_h.
  - intros s Hg. exact (release_lock_unlocks e me w s Hg).
  - intros b. apply cont_at_conts_eq, conts_release_lock.
Qed.

(* ---- 1.b AtomicWaker::register, the try-acquire fails ---- *)
Theorem register_contended_effect : forall e me a v w n k,
  snd (post_acquire e me w) = false ->
  exec_micro e me (MBoRegister a v w n k) = MOk (push_cont e me (contended_cont a v w n k)) /\
  (* the slot (every slot) and the lock word are unchanged *)
  e_h (push_cont e me (contended_cont a v w n k)) = e_h e /\
  e_objects (push_cont e me (contended_cont a v w n k)) = e_objects e /\
  (* the task wakes itself: MNotifyPost n comes before the second poll *)
  (me < length (e_threads e) ->
   cont_at (push_cont e me (contended_cont a v w n k)) me =
     MBranch n AOpaque BNever :: MNotifyPost n :: drop_waker k ++ MYield :: again a v w n k ++ cont_at e me) /\
  (forall b, b <> me -> cont_at (push_cont e me (contended_cont a v w n k)) b = cont_at e b).
Proof.
  intros e me a v w n k Hf.
  pose proof (exec_micro_register e me a v w n k) as Hx. rewrite Hf in Hx.
  split; [exact Hx|]. split; [reflexivity|]. split; [reflexivity|]. split.
  - intros Hme. rewrite cont_at_push_cont_same by exact Hme. reflexivity.
  - intros b Hne. apply cont_at_push_cont_other, Hne.
Qed.

(* the try-acquire fails exactly when the lock word is taken (or w is no mutex) *)
Lemma register_contended_iff e me w :
  snd (post_acquire e me w) = false <->
  (get_mutex e w = None \/ exists s t, get_mutex e w = Some s /\ mx_lock s = Some t).
Proof.
  split; [apply post_acquire_fail_cases|].
  intros [Hn|(s & t & Hg & Hl)].
  - unfold post_acquire. rewrite Hn. reflexivity.
  - rewrite (post_acquire_held e me w s t Hg Hl). reflexivity.
Qed.

(* after the self-wake the task's next Notify::wait does not block
   (NotifyFacts.wake_wait1_not_blocking with waker = waiter): it pushes the
   non-blocking branch + the consuming MNotifyWait2, or takes the one spurious
   return (MYield), or the path itself panics in branch_spurious *)
Corollary register_contended_next_wait_not_blocking : forall e me n e1 e2,
  track_ok e -> exec_micro e me (MNotifyPost n) = MOk e1 -> steps_without_wait2 n e1 e2 ->
  me < length (e_threads e2) ->
  exists s2, get_notify e2 n = Some s2 /\ nt_notified s2 = true /\
    ((exists e3, exec_micro e2 me (MNotifyWait1 n) = MOk e3 /\
        (cont_at e3 me = MBranch n AOpaque BNever :: MNotifyWait2 n :: cont_at e2 me \/
         cont_at e3 me = MYield :: cont_at e2 me)) \/
     (exists x, exec_micro e2 me (MNotifyWait1 n) = MFail e2 (PanicPath x))).
Proof.
  intros e me n e1 e2 Htr Hp Hs Hlt.
  destruct (wake_wait1_not_blocking e me n e1 e2 me Htr Hp Hs) as (s2 & Hg & Hn & Hcases).
  exists s2. split; [exact Hg|]. split; [exact Hn|].
  destruct Hcases as [[_ Hx]|[_ [(p & _ & Hx)|[(p & _ & Hx)|(x & _ & Hx)]]]].
  - left. eexists. split; [exact Hx|]. left. rewrite cont_at_push_cont_same by exact Hlt. reflexivity.
  - left. eexists. split; [exact Hx|]. left. rewrite cont_at_push_cont_same by exact Hlt. reflexivity.
  - left. eexists. split; [exact Hx|]. right. rewrite cont_at_push_cont_same by exact Hlt. reflexivity.
  - right. eauto.
Qed.

(* ---- 1.c / 1.d AtomicWaker::wake and AtomicWaker::take_waker ---- *)
Definition take_cont (wake : bool) (n k : nat) : list micro :=
  if wake then wake_waker n k ++ [MLog RUnit] else drop_waker k ++ [MLog (RVal 1)].

Lemma take_effect : forall e me w wake e',
  exec_micro e me (MWakeTake w wake) = MOk e' ->
  (* the blocking acquire found the lock free; it is free again afterwards:
     acquire, take and release are ONE micro-operation (no scheduling point) *)
  (exists s s', get_mutex e w = Some s /\ mx_lock s = None /\
                get_mutex e' w = Some s' /\ mx_lock s' = None) /\
  slot e' w = None /\
  (forall w', w' <> w -> slot e' w' = slot e w') /\
  (* the take itself touches no Notify *)
  (forall n, get_notify e' n = get_notify e n) /\
  (forall b, b <> me -> cont_at e' b = cont_at e b) /\
  match slot e w with
  | Some (n, k) => me < length (e_threads e) -> cont_at e' me = take_cont wake n k ++ cont_at e me
  | None => cont_at e' me = cont_at e me
  end.
Proof.
  intros e me w wake e' Hx. rewrite exec_micro_wake_take in Hx.
  destruct (post_acquire e me w) as [e1 ok] eqn:Hpa. cbn [fst snd] in Hx.
  destruct ok; [|discriminate Hx]. cbv zeta in Hx.
  pose proof (post_acquire_h e me w) as Hh. rewrite Hpa in Hh. cbn [fst] in Hh.
  pose proof (conts_post_acquire e me w) as Hc. rewrite Hpa in Hc. cbn [fst] in Hc.
  pose proof (post_acquire_threads_length e me w) as Hlen. rewrite Hpa in Hlen. cbn [fst] in Hlen.
  destruct (post_acquire_ok_lock e me w e1 Hpa) as (s & s1 & Hg & Hl & Hg1 & Hl1 & _).
  set (e2 := release_lock (upd_hobj e1 w (fun h => ho_set_waker h None)) me w) in *.
  assert (Hg1' : get_mutex (upd_hobj e1 w (fun h => ho_set_waker h None)) w = Some s1)
    by (rewrite (get_mutex_objects_eq _ e1 w); [exact Hg1|reflexivity]).
  destruct (release_lock_unlocks _ me w s1 Hg1') as (s2 & Hg2 & Hl2). fold e2 in Hg2.
  assert (Hh2 : e_h e2 = e_h (upd_hobj e1 w (fun h => ho_set_waker h None))) by apply release_lock_h.
  assert (Hslot : slot e2 w = None).
  { rewrite (slot_h_eq _ _ w Hh2).
    destruct (Nat.lt_ge_cases w (length (e_h e1))) as [Hlt|Hge].
    - rewrite slot_upd_hobj_same by exact Hlt. reflexivity.
    - rewrite slot_upd_hobj_out by exact Hge. apply slot_out, Hge. }
  assert (Hoth : forall w', w' <> w -> slot e2 w' = slot e w').
  { intros w' Hne. rewrite (slot_h_eq _ _ w' Hh2). rewrite slot_upd_hobj_other by exact Hne.
    apply slot_h_eq, Hh. }
  assert (Hnot : forall n, get_notify e2 n = get_notify e n).
  { intros n. unfold e2. rewrite get_notify_release_lock.
    rewrite (get_notify_objects_eq _ e1 n) by reflexivity.
    pose proof (get_notify_post_acquire e me w n) as H. rewrite Hpa in H. exact H. }
  assert (Hc2 : conts e2 = conts e).
  { unfold e2. rewrite conts_release_lock. exact Hc. }
  assert (Hlen2 : length (e_threads e2) = length (e_threads e)).
  { pose proof (f_equal (@length _) Hc2) as H. unfold conts in H. rewrite !map_length in H. exact H. }
  destruct (slot e w) as [[n k]|] eqn:Hs.
  - assert (He' : e' = push_cont e2 me (take_cont wake n k)) by (destruct wake; injection Hx as <-; reflexivity).
    subst e'. split; [exists s, s2; repeat split; assumption|].
    split; [rewrite (slot_h_eq e2 _ w) by reflexivity; exact Hslot|].
    split; [intros w' Hne; rewrite (slot_h_eq e2 _ w') by reflexivity; apply Hoth, Hne|].
    split; [intros n0; rewrite (get_notify_objects_eq _ e2 n0) by apply e_objects_push_cont; apply Hnot|].
    split.
    + intros b Hne. rewrite cont_at_push_cont_other by exact Hne. apply cont_at_conts_eq, Hc2.
    + intros Hme. rewrite cont_at_push_cont_same by (rewrite Hlen2; exact Hme).
      f_equal. apply cont_at_conts_eq, Hc2.
  - injection Hx as <-. split; [exists s, s2; repeat split; try assumption|].
    + rewrite (get_mutex_objects_eq _ e2 w) by apply e_objects_log_op. exact Hg2.
    + assert (Hhl : forall r, e_h (log_op e2 me r) = e_h e2)
        by (intros r; unfold log_op; destruct (get_thread e2 me); reflexivity).
      split; [rewrite (slot_h_eq e2 _ w) by apply Hhl; exact Hslot|].
      split; [intros w' Hne; rewrite (slot_h_eq e2 _ w') by apply Hhl; apply Hoth, Hne|].
      split; [intros n0; rewrite (get_notify_objects_eq _ e2 n0) by apply e_objects_log_op; apply Hnot|].
      split; [intros b _|]; (apply cont_at_conts_eq; rewrite conts_log_op; exact Hc2).
Qed.

(* AtomicWaker::wake: the stored waker (if any) is taken out and woken: the
   next micro-operations of the waking thread are the scheduling point of
   Notify::notify and MNotifyPost n, for the Notify n of the stored waker;
   with an empty slot nobody is notified *)
Theorem wake_take_effect : forall e me w e',
  exec_micro e me (MWakeTake w true) = MOk e' ->
  (exists s s', get_mutex e w = Some s /\ mx_lock s = None /\
                get_mutex e' w = Some s' /\ mx_lock s' = None) /\
  slot e' w = None /\
  (forall w', w' <> w -> slot e' w' = slot e w') /\
  (forall n, get_notify e' n = get_notify e n) /\
  (forall b, b <> me -> cont_at e' b = cont_at e b) /\
  match slot e w with
  | Some (n, k) =>
      me < length (e_threads e) ->
      cont_at e' me = MBranch n AOpaque BNever :: MNotifyPost n :: drop_waker k ++ MLog RUnit :: cont_at e me
  | None => cont_at e' me = cont_at e me
  end.
Proof. intros e me w e' Hx. exact (take_effect e me w true e' Hx). Qed.

(* AtomicWaker::take_waker: the same without the wake; the waker is dropped *)
Theorem take_waker_effect : forall e me w e',
  exec_micro e me (MWakeTake w false) = MOk e' ->
  (exists s s', get_mutex e w = Some s /\ mx_lock s = None /\
                get_mutex e' w = Some s' /\ mx_lock s' = None) /\
  slot e' w = None /\
  (forall w', w' <> w -> slot e' w' = slot e w') /\
  (forall n, get_notify e' n = get_notify e n) /\
  (forall b, b <> me -> cont_at e' b = cont_at e b) /\
  match slot e w with
  | Some (n, k) =>
      me < length (e_threads e) -> cont_at e' me = drop_waker k ++ MLog (RVal 1) :: cont_at e me
  | None => cont_at e' me = cont_at e me
  end.
Proof. intros e me w e' Hx. exact (take_effect e me w false e' Hx). Qed.

(* while the lock word of w is taken, no take can happen: the micro-operation
   fails (and the blocking branch before it keeps the thread from getting
   there: see wake_branch_blocks_while_locked) *)
Lemma take_fails_while_locked e me w wake :
  snd (post_acquire e me w) = false -> exec_micro e me (MWakeTake w wake) = MFail e PanicExpectLock.
Proof. intros H. rewrite exec_micro_wake_take, H. reflexivity. Qed.

(* register_success_effect needs [w < length (e_h e)] (w is a declared object):
   on a state whose harness table is shorter than its object table the lock is
   taken and nothing is stored.  Not a reachable state: e_h and the declared
   part of e_objects are built together by init_exec, and no micro-operation
   creates a mutex. *)
Definition cex_reg_state : exec :=
  ex_set_h (init_exec (mkProg (mkConfig 5 1000 None None None false) [DWaker] [[]])
                      (path_new 1000 None true)) [].

Lemma register_success_needs_declared :
  snd (post_acquire cex_reg_state 0 0) = true /\
  match exec_micro cex_reg_state 0 (MBoRegister 0 1 0 7 8) with
  | MOk e2 => slot e2 0 = None /\ option_map mx_lock (get_mutex e2 0) = Some (Some 0)
  | MFail _ _ => False
  end.
Proof. vm_compute. repeat split; reflexivity. Qed.

(* ================================================================== *)
(* 3. The slot under ALL micro-operations; wake_wakes_latest           *)
(* ================================================================== *)

(* the content of slot w after micro-operation m of thread me in state e *)
Definition slot_after (e : exec) (me : nat) (m : micro) (w : nat) : option (nat * nat) :=
  match m with
  | MBoRegister _ _ w' n k =>
      if Nat.eqb w' w && snd (post_acquire e me w') && Nat.ltb w (length (e_h e))
      then Some (n, k) else slot e w
  | MWakeTake w' _ => if Nat.eqb w' w && snd (post_acquire e me w') then None else slot e w
  | _ => slot e w
  end.

(* THE INVARIANT: the slot changes only in a successful registration (to the
   registering task's own waker) and in a take (to None).  All micro-ops,
   successful or panicking. *)
Theorem slot_step : forall e me m w,
  slot (res_exec (exec_micro e me m)) w = slot_after e me m w.
Proof.
  intros e me m w. destruct (slot_op m) eqn:Hop.
  - destruct m; try discriminate Hop; clear Hop; cbn [slot_after].
    + (* MBoRegister *)
      rewrite exec_micro_register. destruct (post_acquire e me w0) as [e1 ok] eqn:Hpa. cbn [fst snd].
      pose proof (post_acquire_h e me w0) as Hh. rewrite Hpa in Hh. cbn [fst] in Hh.
      destruct ok; cbn [res_exec]; [|rewrite andb_false_r; reflexivity].
      rewrite andb_true_r.
      rewrite (slot_h_eq (upd_hobj e1 w0 (fun h => ho_set_waker h (Some (n, k)))) _ w) by reflexivity.
      destruct (Nat.eqb_spec w0 w) as [->|Hne]; cbn [andb].
      * destruct (Nat.ltb_spec w (length (e_h e))) as [Hlt|Hge].
        -- rewrite slot_upd_hobj_same by (rewrite Hh; exact Hlt). reflexivity.
        -- rewrite slot_upd_hobj_out by (rewrite Hh; exact Hge). apply slot_h_eq, Hh.
      * rewrite slot_upd_hobj_other by (intros H; apply Hne; symmetry; exact H). apply slot_h_eq, Hh.
    + (* MWakeTake *)
      destruct (exec_micro e me (MWakeTake w0 wake)) as [e'|e' pn] eqn:Hx; cbn [res_exec].
      * destruct (take_effect e me w0 wake e' Hx) as ((s & s' & Hg & Hl & _) & Hs & Ho & _).
        assert (Hok : snd (post_acquire e me w0) = true) by (apply post_acquire_ok_iff; eauto).
        rewrite Hok, andb_true_r. destruct (Nat.eqb_spec w0 w) as [->|Hne]; [exact Hs|].
        apply Ho. intros H. apply Hne. symmetry. exact H.
      * rewrite exec_micro_wake_take in Hx. destruct (snd (post_acquire e me w0)) eqn:Hok.
        -- cbv zeta in Hx. destruct (slot e w0) as [[n k]|]; discriminate Hx.
        -- injection Hx as <- _. rewrite andb_false_r. reflexivity.
  - pose proof (exec_micro_fk e me m Hop) as (Hw & _).
    rewrite slot_wslots, Hw, <- slot_wslots. destruct m; try discriminate Hop; reflexivity.
Qed.

(* the declared objects: e_h never changes its length *)
Lemma h_length_step e me m : length (e_h (res_exec (exec_micro e me m))) = length (e_h e).
Proof. destruct (exec_micro_mono e me m) as (_ & _ & [Hl _] & _). exact Hl. Qed.

(* the continuations of the other threads: all micro-ops *)
Theorem others_cont_step : forall e me m a,
  a <> me -> a < length (e_threads e) -> cont_at (res_exec (exec_micro e me m)) a = cont_at e a.
Proof.
  intros e me m a Hne Ha. destruct (slot_op m) eqn:Hop.
  - destruct m; try discriminate Hop; clear Hop.
    + rewrite exec_micro_register. destruct (snd (post_acquire e me w)); cbn [res_exec];
        rewrite cont_at_push_cont_other by exact Hne; [|reflexivity].
      apply cont_at_conts_eq. apply (conts_post_acquire e me w).
    + rewrite exec_micro_wake_take. destruct (snd (post_acquire e me w)); [|reflexivity]. cbv zeta.
      assert (Hc : conts (release_lock (upd_hobj (fst (post_acquire e me w)) w (fun h => ho_set_waker h None)) me w)
                   = conts e).
      { rewrite conts_release_lock. apply (conts_post_acquire e me w). }
      destruct (slot e w) as [[n k]|]; cbn [res_exec].
      * rewrite cont_at_push_cont_other by exact Hne. apply cont_at_conts_eq, Hc.
      * apply cont_at_conts_eq. rewrite conts_log_op. exact Hc.
  - pose proof (exec_micro_fk e me m Hop) as (_ & _ & Ho).
    destruct (nth_error (e_threads e) a) as [t|] eqn:Ht; [|apply nth_error_None in Ht; lia].
    destruct (Ho a t Hne Ht) as (t' & Ht' & Hc). unfold cont_at. rewrite Ht, Ht'. exact Hc.
Qed.

(* ---- traces: which slot events happened ---- *)
Inductive wev :=
  | WReg (t n k : nat)                      (* thread t registered the waker (n, k) *)
  | WTake (t : nat) (old : option (nat * nat)). (* thread t took [old] out of the slot *)

Definition wev_of (e : exec) (me : nat) (m : micro) (w : nat) : list wev :=
  match m with
  | MBoRegister _ _ w' n k =>
      if Nat.eqb w' w && snd (post_acquire e me w') then [WReg me n k] else []
  | MWakeTake w' _ => if Nat.eqb w' w then [WTake me (slot e w)] else []
  | _ => []
  end.

Definition replay1 (s : option (nat * nat)) (ev : wev) : option (nat * nat) :=
  match ev with WReg _ n k => Some (n, k) | WTake _ _ => None end.
Definition replay (evs : list wev) (s : option (nat * nat)) : option (nat * nat) :=
  fold_left replay1 evs s.

(* the closure of: any thread executes any micro-operation (successfully); the
   runtime pops a continuation.  Larger than the runs of the model. *)
Inductive wsteps (w : nat) : exec -> list wev -> exec -> Prop :=
  | ws_refl e : wsteps w e [] e
  | ws_micro e me m e1 evs e2 :
      exec_micro e me m = MOk e1 -> wsteps w e1 evs e2 -> wsteps w e (wev_of e me m w ++ evs) e2
  | ws_pop e me rest evs e2 : wsteps w (popc e me rest) evs e2 -> wsteps w e evs e2.

Lemma slot_after_replay e me m w e1 :
  w < length (e_h e) -> exec_micro e me m = MOk e1 ->
  slot_after e me m w = replay (wev_of e me m w) (slot e w).
Proof.
  intros Hw Hx. destruct m; try reflexivity; cbn [slot_after wev_of].
  - apply Nat.ltb_lt in Hw. rewrite Hw, andb_true_r.
    destruct (Nat.eqb w0 w && snd (post_acquire e me w0)); reflexivity.
  - destruct (Nat.eqb w0 w) eqn:Hww; [|reflexivity]. cbn [andb replay fold_left replay1].
    destruct (take_effect e me w0 wake e1 Hx) as ((s & s' & Hg & Hl & _) & _).
    assert (Hok : snd (post_acquire e me w0) = true) by (apply post_acquire_ok_iff; eauto).
    rewrite Hok. reflexivity.
Qed.

(* 2. the slot holds the waker of the LATEST successful registration, unless a
   take came after it *)
Theorem wake_wakes_latest : forall w e evs e',
  wsteps w e evs e' -> w < length (e_h e) ->
  slot e' w = replay evs (slot e w) /\ length (e_h e') = length (e_h e).
Proof.
  intros w e evs e' H. induction H as [e|e me m e1 evs e2 Hx Hs IH|e me rest evs e2 Hs IH]; intros Hw.
  - split; reflexivity.
  - pose proof (h_length_step e me m) as Hl. rewrite Hx in Hl. cbn [res_exec] in Hl.
    destruct (IH ltac:(rewrite Hl; exact Hw)) as [IH1 IH2]. split; [|congruence].
    rewrite IH1. unfold replay. rewrite fold_left_app. f_equal.
    pose proof (slot_step e me m w) as Hst. rewrite Hx in Hst. cbn [res_exec] in Hst.
    rewrite Hst. apply (slot_after_replay e me m w e1 Hw Hx).
  - destruct (IH Hw) as [IH1 IH2]. split; [exact IH1|exact IH2].
Qed.

(* the last event decides *)
Lemma replay_last evs ev s : replay (evs ++ [ev]) s = replay1 None ev.
Proof. unfold replay. rewrite fold_left_app. cbn [fold_left]. destruct ev; reflexivity. Qed.

Corollary slot_is_latest_registration : forall w e evs t n k e',
  wsteps w e (evs ++ [WReg t n k]) e' -> w < length (e_h e) -> slot e' w = Some (n, k).
Proof.
  intros w e evs t n k e' H Hw. destruct (wake_wakes_latest w e _ e' H Hw) as [Hs _].
  rewrite Hs, replay_last. reflexivity.
Qed.

Corollary slot_empty_after_take : forall w e evs t old e',
  wsteps w e (evs ++ [WTake t old]) e' -> w < length (e_h e) -> slot e' w = None.
Proof.
  intros w e evs t old e' H Hw. destruct (wake_wakes_latest w e _ e' H Hw) as [Hs _].
  rewrite Hs, replay_last. reflexivity.
Qed.

Corollary slot_unchanged_without_event : forall w e e',
  wsteps w e [] e' -> w < length (e_h e) -> slot e' w = slot e w.
Proof. intros w e e' H Hw. destruct (wake_wakes_latest w e _ e' H Hw) as [Hs _]. exact Hs. Qed.

(* hence AtomicWaker::wake notifies the Notify of the most recently registered
   task, or nobody: the waking thread's next micro-operations are the
   scheduling point of Notify::notify and MNotifyPost n for that n, or its
   continuation is unchanged and no Notify is touched *)
Theorem wake_notifies_latest : forall w e evs e' a e'',
  wsteps w e evs e' -> w < length (e_h e) -> a < length (e_threads e') ->
  exec_micro e' a (MWakeTake w true) = MOk e'' ->
  slot e'' w = None /\ (forall n, get_notify e'' n = get_notify e' n) /\
  match replay evs (slot e w) with
  | Some (n, k) =>
      cont_at e'' a = MBranch n AOpaque BNever :: MNotifyPost n :: drop_waker k ++ MLog RUnit :: cont_at e' a
  | None => cont_at e'' a = cont_at e' a
  end.
Proof.
  intros w e evs e' a e'' Hs Hw Ha Hx. destruct (wake_wakes_latest w e evs e' Hs Hw) as [Hsl _].
  destruct (wake_take_effect e' a w e'' Hx) as (_ & H1 & _ & H2 & _ & H3).
  split; [exact H1|]. split; [exact H2|]. rewrite <- Hsl.
  destruct (slot e' w) as [[n k]|]; [apply H3, Ha|exact H3].
Qed.

(* the runs of the model are such sequences *)
Lemma steps_wsteps w e e' : steps e e' -> exists evs, wsteps w e evs e'.
Proof.
  intros H. induction H as [e|e me t m rest e1 e2 Ha Ht Hc Hx Hs (evs & IH)].
  - exists []. apply ws_refl.
  - eexists. eapply ws_pop, ws_micro; [exact Hx|exact IH].
Qed.

(* ================================================================== *)
(* 4. Runs: a registered waker that is woken is not lost               *)
(* ================================================================== *)

(* the steps of Scheduler::run (SyncMono.steps) whose micro-operations satisfy
   P (P sees the popped state, the thread and the micro-operation) *)
Inductive rsteps (P : exec -> nat -> micro -> Prop) : exec -> exec -> Prop :=
  | rs_refl e : rsteps P e e
  | rs_step e me t m rest e1 e2 :
      e_active e = Some me -> nth_error (e_threads e) me = Some t -> t_cont t = m :: rest ->
      P (popc e me rest) me m ->
      exec_micro (popc e me rest) me m = MOk e1 -> rsteps P e1 e2 -> rsteps P e e2.

Lemma rsteps_steps P e e' : rsteps P e e' -> steps e e'.
Proof.
  intros H. induction H as [e|e me t m rest e1 e2 Ha Ht Hc Hp Hx Hs IH]; [apply steps_refl|].
  eapply steps_step; eassumption.
Qed.

Lemma steps_rsteps e e' : steps e e' -> rsteps (fun _ _ _ => True) e e'.
Proof.
  intros H. induction H as [e|e me t m rest e1 e2 Ha Ht Hc Hx Hs IH]; [apply rs_refl|].
  eapply rs_step; eauto.
Qed.

Lemma rsteps_weaken (P Q : exec -> nat -> micro -> Prop) e e' :
  (forall e me m, P e me m -> Q e me m) -> rsteps P e e' -> rsteps Q e e'.
Proof.
  intros HPQ H. induction H as [e|e me t m rest e1 e2 Ha Ht Hc Hp Hx Hs IH]; [apply rs_refl|].
  eapply rs_step; eauto.
Qed.

Lemma rsteps_trans P e1 e2 e3 : rsteps P e1 e2 -> rsteps P e2 e3 -> rsteps P e1 e3.
Proof. intros H12 H23. induction H12; [exact H23|]. eapply rs_step; eauto. Qed.

(* micro-operations that are no slot event on w *)
Definition quiet (w : nat) : exec -> nat -> micro -> Prop := fun e me m => wev_of e me m w = [].

Lemma rsteps_quiet_wsteps w e e' : rsteps (quiet w) e e' -> wsteps w e [] e'.
Proof.
  intros H. induction H as [e|e me t m rest e1 e2 Ha Ht Hc Hp Hx Hs IH]; [apply ws_refl|].
  eapply ws_pop. unfold quiet in Hp.
  pose proof (ws_micro w _ me m e1 [] e2 Hx IH) as H'. rewrite Hp in H'. exact H'.
Qed.

Theorem quiet_steps_keep_slot : forall w e e',
  rsteps (quiet w) e e' -> w < length (e_h e) -> slot e' w = slot e w.
Proof. intros w e e' H Hw. apply slot_unchanged_without_event; [apply rsteps_quiet_wsteps, H|exact Hw]. Qed.

(* ---- the scheduler and the skip operations keep ALL continuations ---- *)
Lemma conts_sched_note e nx pid th : conts (sched_note e nx pid th) = conts e.
Proof.
  unfold sched_note. destruct (t_op th) as [op|]; [|reflexivity].
  destruct (nth_error (e_objects e) (op_obj op)) as [o|]; [|reflexivity]. cbv zeta.
  match goal with |- conts (upd_object ?E _ _) = _ => change (conts E = conts e) end.
  apply conts_upd_thread_keep. intros t. reflexivity.
Qed.

Lemma schedule_conts e : conts (res_exec (fst (schedule e))) = conts e.
Proof.
  destruct (schedule_cases e)
    as [(c & ->)|[(x & ->)|[(p1 & x & Hd & ->)|(curr & cur_th & p1 & p2 & next & Hp & ->)]]];
    cbn [fst res_exec]; try reflexivity.
  assert (Hb : conts (sched_base e p2 next) = conts e) by reflexivity.
  revert Hb. generalize (sched_base e p2 next). intros e1 Hb.
  unfold sched_post. destruct next as [nx|].
  - destruct (nth_error (e_threads e1) nx) as [th|]; cbn [fst res_exec]; [|exact Hb].
    unfold reactivate, conts. cbn [e_threads ex_set_threads].
    rewrite map_mapi_id by tcont. fold (conts (sched_note e1 nx (pos p1) th)).
    rewrite conts_sched_note. exact Hb.
  - destruct (forallb is_terminated (e_threads e1)); cbn [fst res_exec]; exact Hb.
Qed.

Lemma do_branch_conts e me obj act blk : conts (res_exec (do_branch e me obj act blk)) = conts e.
Proof.
  unfold do_branch. rewrite schedule_conts. apply conts_upd_thread_keep.
  intros t. destruct (block_now e obj blk); reflexivity.
Qed.

Lemma skip_conts e me m : is_skip m = true -> conts (res_exec (exec_micro e me m)) = conts e.
Proof.
  intros Hs. destruct m; try discriminate Hs; clear Hs; cbn [exec_micro].
  - apply do_branch_conts.
  - unfold do_park. destruct (get_thread e me) as [t|]; [|reflexivity].
    destruct (t_token t); cbn [res_exec].
    + apply conts_upd_thread_keep. intros t0. reflexivity.
    + rewrite schedule_conts. apply conts_upd_thread_keep. intros t0. reflexivity.
  - destruct (get_arc e k) as [s|]; [|reflexivity]. destruct (arc_cnt s) as [|cnt]; [reflexivity|].
    cbn [res_exec]. destruct (Nat.eqb cnt 0); [|reflexivity].
    unfold set_caus. rewrite conts_upd_thread_keep by (intros t; reflexivity). reflexivity.
Qed.

Lemma conts_length e e' : conts e' = conts e -> length (e_threads e') = length (e_threads e).
Proof. intros H. apply (f_equal (@length _)) in H. unfold conts in H. rewrite !map_length in H. exact H. Qed.

(* ---- the wake in flight ---- *)

(* thread a is about to notify n: the tail of AtomicWaker::wake *)
Definition wake_pending (e : exec) (a n : nat) : Prop :=
  exists c, cont_at e a = MBranch n AOpaque BNever :: MNotifyPost n :: c \/
            cont_at e a = MNotifyPost n :: c.
(* the notification has been posted and not consumed *)
Definition delivered (e : exec) (n : nat) : Prop :=
  exists s, get_notify e n = Some s /\ nt_notified s = true.

Definition no_wait2 (n : nat) : exec -> nat -> micro -> Prop := fun _ _ m => m <> MNotifyWait2 n.

Lemma track_ok_popc e me rest : track_ok e -> track_ok (popc e me rest).
Proof. intros H. eapply track_ok_same; [| |exact H]; reflexivity. Qed.

Lemma popc_threads_length e me rest : length (e_threads (popc e me rest)) = length (e_threads e).
Proof. unfold popc, upd_thread. cbn [e_threads ex_set_threads]. apply list_upd_length. Qed.

Lemma cont_at_nth e a t : nth_error (e_threads e) a = Some t -> cont_at e a = t_cont t.
Proof. intros H. unfold cont_at. rewrite H. reflexivity. Qed.

(* THE RUN-LEVEL INVARIANT: from the moment the waking thread has the tail of
   wake() in its continuation, and as long as nobody consumes a notification
   of n, either the wake is still in flight in THAT thread's continuation
   (nobody else can remove it) or the flag of n is set *)
Theorem wake_in_flight_or_delivered : forall a n e e',
  rsteps (no_wait2 n) e e' ->
  track_ok e -> a < length (e_threads e) -> wake_pending e a n \/ delivered e n ->
  track_ok e' /\ a < length (e_threads e') /\ (wake_pending e' a n \/ delivered e' n).
Proof.
  intros a n e e' H. induction H as [e|e me t m rest e1 e2 Hact Ht Hc Hp Hx Hs IH]; intros Htr Ha Hinv.
  - auto.
  - pose proof (track_ok_popc e me rest Htr) as Htrp.
    pose proof (exec_micro_track_ok _ _ _ _ Htrp Hx) as Htr1.
    pose proof (exec_micro_threads_length _ _ _ _ Hx) as Hlen. rewrite popc_threads_length in Hlen.
    apply IH; [exact Htr1|lia|].
    destruct Hinv as [Hpend|(s & Hg & Hn)].
    + destruct (Nat.eq_dec a me) as [->|Hne].
      * (* the waking thread itself moves: its head is the branch or the post *)
        destruct Hpend as (c & Hpd). rewrite (cont_at_nth e me t Ht), Hc in Hpd. destruct Hpd as [Hpd|Hpd].
        -- injection Hpd as -> ->. left. exists c. right.
           pose proof (skip_conts (popc e me (MNotifyPost n :: c)) me (MBranch n AOpaque BNever) eq_refl) as Hk.
           rewrite Hx in Hk. cbn [res_exec] in Hk.
           rewrite (cont_at_conts_eq _ _ me Hk). apply cont_at_popc_same, Ha.
        -- injection Hpd as -> ->. right.
           assert (Hg : exists s, get_notify (popc e me c) n = Some s).
           { rewrite exec_micro_notify_post in Hx. destruct (get_notify (popc e me c) n) as [s|]; [eauto|discriminate Hx]. }
           destruct Hg as (s & Hg).
           destruct (notify_post_publishes _ me n s e1 Hg Hx) as (s1 & Hg1 & _ & _ & Hn1).
           exists s1. auto.
      * left. destruct Hpend as (c & Hpd). exists c.
        pose proof (others_cont_step (popc e me rest) me m a Hne ltac:(rewrite popc_threads_length; exact Ha)) as Ho.
        rewrite Hx in Ho. cbn [res_exec] in Ho. rewrite Ho, cont_at_popc_other by exact Hne. exact Hpd.
    + right. assert (Hgp : get_notify (popc e me rest) n = Some s) by exact Hg.
      destruct (notified_persists _ me m e1 n s Htrp Hgp Hn Hx Hp) as (s' & Hg' & Hn' & _).
      exists s'. auto.
Qed.

(* with the flag set, Notify::wait never pushes the blocking branch ... *)
Theorem delivered_wait1_not_blocking : forall e n b e3,
  delivered e n -> b < length (e_threads e) -> exec_micro e b (MNotifyWait1 n) = MOk e3 ->
  cont_at e3 b = MBranch n AOpaque BNever :: MNotifyWait2 n :: cont_at e b \/
  cont_at e3 b = MYield :: cont_at e b.
Proof.
  intros e n b e3 (s & Hg & Hn) Hb Hx. rewrite (exec_micro_notify_wait1 e b n s Hg) in Hx.
  unfold wait1_cont in Hx. rewrite Hn in Hx.
  destruct (nt_spurious s && negb (nt_did_spur s)).
  - destruct (branch_spurious (e_path e)) as [[p [|]]|x]; [| |discriminate Hx]; injection Hx as <-.
    + right. rewrite cont_at_push_cont_same; [reflexivity|exact Hb].
    + left. rewrite cont_at_push_cont_same; [reflexivity|exact Hb].
  - injection Hx as <-. left. rewrite cont_at_push_cont_same; [reflexivity|exact Hb].
Qed.

(* ... and the consuming MNotifyWait2 n succeeds in every state reached without
   another consuming wait *)
Theorem delivered_wait2_succeeds : forall e n e4 b,
  track_ok e -> delivered e n -> steps_without_wait2 n e e4 ->
  exists e5, exec_micro e4 b (MNotifyWait2 n) = MOk e5.
Proof.
  intros e n e4 b Htr (s & Hg & Hn) Hs.
  destruct (sw2_notified_persists n e e4 s Htr Hs Hg Hn) as (s4 & Hg4 & Hn4 & _).
  rewrite exec_micro_notify_wait2, Hg4, Hn4. cbn [negb]. eauto.
Qed.

Lemma rsteps_nw2_sw2 n e e' : rsteps (no_wait2 n) e e' -> steps_without_wait2 n e e'.
Proof.
  intros H. induction H as [e|e me t m rest e1 e2 Ha Ht Hc Hp Hx Hs IH]; [apply ms_refl|].
  eapply ms_pop, ms_micro; eauto.
Qed.

(* 3. THE COMPOSED THEOREM.  A registration stored (n, k) in the AtomicWaker w
   (state e0); the run goes on with steps that are no slot event on w; then
   the active thread a executes the MWakeTake of AtomicWaker::wake (state e,
   result e1); the run goes on (nobody consumes a notification of n) to e2.
   Then: the take found (n, k) and emptied the slot; in e2 the wake is either
   still in flight in a's continuation or the flag of n is set; once it is
   set, Notify::wait on n does not block and its consuming half succeeds; and
   when a's MNotifyPost n runs, NotifyFacts.no_lost_wakeup applies. *)
Theorem registered_then_woken_not_lost : forall w n k e0 e a t rest e1 e2,
  track_ok e0 -> w < length (e_h e0) ->
  slot e0 w = Some (n, k) ->
  rsteps (quiet w) e0 e ->
  e_active e = Some a -> nth_error (e_threads e) a = Some t -> t_cont t = MWakeTake w true :: rest ->
  exec_micro (popc e a rest) a (MWakeTake w true) = MOk e1 ->
  rsteps (no_wait2 n) e1 e2 ->
  (* the take *)
  slot e1 w = None /\
  cont_at e1 a = MBranch n AOpaque BNever :: MNotifyPost n :: drop_waker k ++ MLog RUnit :: rest /\
  (* not lost *)
  (wake_pending e2 a n \/ delivered e2 n) /\
  (delivered e2 n ->
     (forall b e3, b < length (e_threads e2) -> exec_micro e2 b (MNotifyWait1 n) = MOk e3 ->
        cont_at e3 b = MBranch n AOpaque BNever :: MNotifyWait2 n :: cont_at e2 b \/
        cont_at e3 b = MYield :: cont_at e2 b) /\
     (forall e4 b, steps_without_wait2 n e2 e4 -> exists e5, exec_micro e4 b (MNotifyWait2 n) = MOk e5)) /\
  (* the wake itself, whenever it runs (NotifyFacts.no_lost_wakeup) *)
  (forall ep e3 e4 b e5 e6,
     track_ok ep -> exec_micro ep a (MNotifyPost n) = MOk e3 -> steps_without_wait2 n e3 e4 ->
     exec_micro e4 b (MNotifyWait1 n) = MOk e5 -> steps_without_wait2 n e5 e6 ->
     exists e7, exec_micro e6 b (MNotifyWait2 n) = MOk e7 /\
       (forall e' pn, exec_micro e6 b (MNotifyWait2 n) <> MFail e' pn) /\
       (b < length (e_threads e6) -> vle (caus_of ep a) (caus_of e7 b))).
Proof.
  intros w n k e0 e a t rest e1 e2 Htr0 Hw Hs0 Hq Hact Ht Hc Hx H12.
  pose proof (quiet_steps_keep_slot w e0 e Hq Hw) as Hse. rewrite Hs0 in Hse.
  pose proof (steps_track_ok _ _ (rsteps_steps _ _ _ Hq) Htr0) as Htr.
  assert (Ha : a < length (e_threads e)) by (apply nth_error_Some; congruence).
  assert (Hap : a < length (e_threads (popc e a rest))) by (rewrite popc_threads_length; exact Ha).
  destruct (wake_take_effect _ a w e1 Hx) as (_ & Hs1 & _ & _ & _ & Hcont).
  rewrite (slot_h_eq e (popc e a rest) w eq_refl), Hse in Hcont. specialize (Hcont Hap).
  rewrite cont_at_popc_same in Hcont by exact Ha.
  pose proof (exec_micro_track_ok _ _ _ _ (track_ok_popc e a rest Htr) Hx) as Htr1.
  pose proof (exec_micro_threads_length _ _ _ _ Hx) as Hlen1.
  assert (Hpend1 : wake_pending e1 a n) by (eexists; left; exact Hcont).
  destruct (wake_in_flight_or_delivered a n e1 e2 H12 Htr1 ltac:(lia) (or_introl Hpend1)) as (Htr2 & Ha2 & Hinv2).
  split; [exact Hs1|]. split; [exact Hcont|]. split; [exact Hinv2|]. split.
  - intros Hd. split.
    + intros b e3 Hb Hx3. exact (delivered_wait1_not_blocking e2 n b e3 Hd Hb Hx3).
    + intros e4 b Hs4. exact (delivered_wait2_succeeds e2 n e4 b Htr2 Hd Hs4).
  - intros ep e3 e4 b e5 e6 Htrp Hp H34 Hw1 H56.
    exact (no_lost_wakeup ep a n e3 e4 b e5 e6 Htrp Hp H34 Hw1 H56).
Qed.

(* ================================================================== *)
(* 5. wake() racing with register()                                    *)
(* ================================================================== *)

(* thread b is inside the critical section of AtomicWaker::register on w *)
Definition in_cs (e : exec) (b w : nat) : Prop :=
  b < length (e_threads e) /\ inwaker (cont_at e b) w.

Lemma in_cs_thread e b w :
  in_cs e b w -> exists th, get_thread e b = Some th /\ inside th w.
Proof.
  intros [Hb Hin]. unfold get_thread. destruct (nth_error (e_threads e) b) as [th|] eqn:Ht;
    [|apply nth_error_None in Ht; lia].
  exists th. split; [reflexivity|]. right. rewrite (cont_at_nth e b th Ht) in Hin. exact Hin.
Qed.

Lemma post_acquire_snd_objects e e' me me' w :
  e_objects e' = e_objects e -> snd (post_acquire e' me' w) = snd (post_acquire e me w).
Proof.
  intros Ho. unfold post_acquire. rewrite (get_mutex_objects_eq e' e w Ho).
  destruct (get_mutex e w) as [s|]; [|reflexivity]. destruct (is_some (mx_lock s)); reflexivity.
Qed.

(* ExclFacts: while b is inside, the lock word says so: every acquisition fails *)
Lemma cs_locked e b w :
  excl_inv e -> in_cs e b w ->
  (forall s, get_mutex e w = Some s -> mx_lock s = Some b) /\
  (forall me, snd (post_acquire e me w) = false).
Proof.
  intros Hinv Hcs. destruct (in_cs_thread e b w Hcs) as (th & Hth & Hin).
  assert (H1 : forall s, get_mutex e w = Some s -> mx_lock s = Some b).
  { intros s Hg. exact (mutex_inside_owner e w s b th Hinv Hg Hth Hin). }
  split; [exact H1|]. intros me. apply register_contended_iff.
  destruct (get_mutex e w) as [s|] eqn:Hg; [right|left; reflexivity].
  exists s, b. split; [reflexivity|apply H1; reflexivity].
Qed.

(* ... and nobody else is inside (ExclFacts.mutex_inside_unique) *)
Lemma cs_unique e b b' w s :
  excl_inv e -> get_mutex e w = Some s -> in_cs e b w -> in_cs e b' w -> b = b'.
Proof.
  intros Hinv Hg H1 H2. destruct (in_cs_thread e b w H1) as (th & Hth & Hin).
  destruct (in_cs_thread e b' w H2) as (th' & Hth' & Hin').
  exact (mutex_inside_unique e w s b b' th th' Hinv Hg Hth Hth' Hin Hin').
Qed.

(* who can make a try-acquire fail: a thread that is INSIDE w -- in the critical
   section of a registration (or, for an untyped program that locks a DWaker
   object as a mutex, the owner of that guard).  Never a waking thread: a thread
   whose next micro-operation is the take is not inside, and the take leaves
   the lock free (take_effect). *)
Lemma contended_holder e me w s :
  excl_inv e -> get_mutex e w = Some s -> snd (post_acquire e me w) = false ->
  exists t th, mx_lock s = Some t /\ get_thread e t = Some th /\ inside th w.
Proof.
  intros Hinv Hg Hf. destruct (post_acquire_fail_cases e me w Hf) as [Hn|(s' & t & Hg' & Hl)]; [congruence|].
  assert (s' = s) by congruence. subst s'.
  destruct (mutex_lock_owner e w s t Hinv Hg Hl) as (th & Hth & Hin). eauto.
Qed.

Lemma taker_not_in_cs w wake rest w' : ~ inwaker (MWakeTake w wake :: rest) w'.
Proof. intros H. exact H. Qed.

Lemma inwaker_cons m rest w :
  inwaker (m :: rest) w -> (is_skip m = true /\ inwaker rest w) \/ m = MWakerRelease w.
Proof.
  unfold inwaker. cbn [skipc]. destruct (is_skip m) eqn:Hs; [auto|].
  intros H. right. destruct m; try destruct H. reflexivity.
Qed.

Definition not_release (b w : nat) : exec -> nat -> micro -> Prop :=
  fun _ me m => ~ (me = b /\ m = MWakerRelease w).

(* THE CRITICAL SECTION IS OPAQUE: until b executes its MWakerRelease w the
   slot does not change, b stays inside, and the mutual-exclusion invariant
   keeps holding: takes fail, other registrations are contended *)
Theorem register_cs_frozen : forall b w e e',
  rsteps (not_release b w) e e' -> excl_inv e -> in_cs e b w ->
  excl_inv e' /\ in_cs e' b w /\ slot e' w = slot e w.
Proof.
  intros b w e e' H. induction H as [e|e me t m rest e1 e2 Hact Ht Hc Hp Hx Hs IH]; intros Hinv Hcs.
  - auto.
  - pose proof (run_step_excl_inv e me t m rest e1 Hinv Ht Hc Hx) as Hinv1.
    destruct (cs_locked e b w Hinv Hcs) as [_ Hlk].
    assert (Hlkp : forall me', snd (post_acquire (popc e me rest) me' w) = false).
    { intros me'. rewrite (post_acquire_snd_objects e (popc e me rest) me' me' w eq_refl). apply Hlk. }
    pose proof (slot_step (popc e me rest) me m w) as Hsl. rewrite Hx in Hsl. cbn [res_exec] in Hsl.
    pose proof (exec_micro_threads_length _ _ _ _ Hx) as Hlen. rewrite popc_threads_length in Hlen.
    destruct Hcs as [Hb Hin].
    assert (Hstep : in_cs e1 b w /\ slot e1 w = slot e w).
    { destruct (Nat.eq_dec me b) as [->|Hne].
      - rewrite (cont_at_nth e b t Ht), Hc in Hin.
        destruct (inwaker_cons m rest w Hin) as [[Hsk Hin']| ->].
        + pose proof (skip_conts (popc e b rest) b m Hsk) as Hk. rewrite Hx in Hk. cbn [res_exec] in Hk.
          split.
          * split; [lia|]. rewrite (cont_at_conts_eq _ _ b Hk), cont_at_popc_same by exact Hb. exact Hin'.
          * rewrite Hsl. destruct m; try discriminate Hsk; reflexivity.
        + exfalso. apply Hp. split; reflexivity.
      - split.
        + split; [lia|].
          pose proof (others_cont_step (popc e me rest) me m b ltac:(intros H; apply Hne; symmetry; exact H)
                        ltac:(rewrite popc_threads_length; exact Hb)) as Ho.
          rewrite Hx in Ho. cbn [res_exec] in Ho.
          rewrite Ho, cont_at_popc_other by (intros H; apply Hne; symmetry; exact H). exact Hin.
        + rewrite Hsl. destruct m; try reflexivity; cbn [slot_after].
          * destruct (Nat.eqb_spec w0 w) as [->|Hw]; cbn [andb]; [|reflexivity].
            rewrite Hlkp. reflexivity.
          * destruct (Nat.eqb_spec w0 w) as [->|Hw]; cbn [andb]; [|reflexivity].
            rewrite (take_fails_while_locked _ me w wake (Hlkp me)) in Hx. discriminate Hx. }
    destruct Hstep as [Hcs1 Hs1]. destruct (IH Hinv1 Hcs1) as (A & B & C).
    split; [exact A|]. split; [exact B|]. congruence.
Qed.

(* a successful registration enters the critical section *)
Lemma inwaker_reg_cont old a v w n k rest : inwaker (reg_cont old a v w n k ++ rest) w.
Proof. unfold reg_cont, inwaker. destruct old as [[n' k']|]; reflexivity. Qed.

(* the blocking branch of wake() / take_waker() while the lock word is taken *)
Lemma wake_branch_blocks_while_locked e a w s t :
  get_mutex e w = Some s -> mx_lock s = Some t ->
  exec_micro e a (MBranch w AOpaque BMutexLocked) =
  fst (schedule (upd_thread e a (fun t => set_blocked (th_set_op t (Some (mkOp w AOpaque)))))).
Proof.
  intros Hg Hl. cbn [exec_micro]. unfold do_branch, block_now.
  rewrite (get_mutex_nth e w s Hg), Hl. reflexivity.
Qed.

(* MWakerRelease makes the threads blocked on w runnable again *)
Lemma release_unblocks e me w s a ta :
  get_mutex e w = Some s -> e_active e <> None -> a <> me ->
  nth_error (e_threads e) a = Some ta -> pending_on w ta = true ->
  nth_error (e_threads (release_lock e me w)) a = Some (set_runnable ta).
Proof.
  intros Hg Hact Hne Ha Hp. unfold release_lock. rewrite Hg. cbv zeta. rewrite e_active_upd_object.
  destruct (e_active e) as [x|]; [|destruct (Hact eq_refl)].
  unfold map_others. cbn [e_threads ex_set_threads upd_object ex_set_objects].
  rewrite nth_error_mapi, Ha. cbn [option_map].
  apply Nat.eqb_neq in Hne. rewrite Hne, Hp. reflexivity.
Qed.

Lemma mutex_stays e e' w s :
  track_ok e -> mono e e' -> get_mutex e w = Some s -> exists s', get_mutex e' w = Some s'.
Proof.
  intros Htr Hm Hg. apply get_mutex_nth in Hg.
  destruct (omono_strict e e' Hm Htr w _ Hg) as (o' & Ho' & Hle).
  destruct o'; cbn [obj_le view_le] in Hle; try contradiction.
  exists s0. unfold get_mutex. rewrite Ho'. reflexivity.
Qed.

(* 4.(b) THE REGISTRATION HOLDS THE LOCK FIRST.  b's MBoRegister succeeds
   (state e, result e1); the run goes on, b not yet at its MWakerRelease w, to
   e2.  Then in e2 the slot holds b's fresh waker, b is still inside, every
   take fails, every other registration is contended (and self-wakes), the
   blocking branch of wake() blocks its thread; when b releases (e3) the slot
   still holds (n, k), the lock is free and the blocked wakers are runnable. *)
Theorem wake_during_registration_b : forall e b t a0 v w n k rest e1 e2,
  excl_inv e -> w < length (e_h e) ->
  e_active e = Some b -> nth_error (e_threads e) b = Some t -> t_cont t = MBoRegister a0 v w n k :: rest ->
  snd (post_acquire (popc e b rest) b w) = true ->
  exec_micro (popc e b rest) b (MBoRegister a0 v w n k) = MOk e1 ->
  rsteps (not_release b w) e1 e2 ->
  slot e2 w = Some (n, k) /\ in_cs e2 b w /\ excl_inv e2 /\
  (forall me wake, exec_micro e2 me (MWakeTake w wake) = MFail e2 PanicExpectLock) /\
  (forall me a' v' n' k',
     exec_micro e2 me (MBoRegister a' v' w n' k') = MOk (push_cont e2 me (contended_cont a' v' w n' k'))) /\
  (forall s2 a, get_mutex e2 w = Some s2 ->
     mx_lock s2 = Some b /\
     exec_micro e2 a (MBranch w AOpaque BMutexLocked) =
       fst (schedule (upd_thread e2 a (fun t => set_blocked (th_set_op t (Some (mkOp w AOpaque))))))) /\
  (* the release *)
  (forall t2 rest2 e3,
     e_active e2 = Some b -> nth_error (e_threads e2) b = Some t2 -> t_cont t2 = MWakerRelease w :: rest2 ->
     exec_micro (popc e2 b rest2) b (MWakerRelease w) = MOk e3 ->
     slot e3 w = Some (n, k) /\
     (forall s2, get_mutex e2 w = Some s2 -> exists s3, get_mutex e3 w = Some s3 /\ mx_lock s3 = None) /\
     (forall s2 a ta, get_mutex e2 w = Some s2 -> a <> b -> nth_error (e_threads e2) a = Some ta ->
        pending_on w ta = true -> nth_error (e_threads e3) a = Some (set_runnable ta))).
Proof.
  intros e b t a0 v w n k rest e1 e2 Hinv Hw Hact Ht Hc Hok Hx H12.
  assert (Hb : b < length (e_threads e)) by (apply nth_error_Some; congruence).
  destruct (post_acquire (popc e b rest) b w) as [ep ok] eqn:Hpa. cbn [snd] in Hok. subst ok.
  destruct (register_success_effect (popc e b rest) b a0 v w n k ep Hpa)
    as (e1' & Hx' & _ & Hs1 & _ & _ & Hcont & _).
  assert (e1' = e1) by congruence. subst e1'.
  specialize (Hs1 Hw). specialize (Hcont ltac:(rewrite popc_threads_length; exact Hb)).
  rewrite cont_at_popc_same in Hcont by exact Hb.
  pose proof (run_step_excl_inv e b t _ rest e1 Hinv Ht Hc Hx) as Hinv1.
  pose proof (exec_micro_threads_length _ _ _ _ Hx) as Hlen1. rewrite popc_threads_length in Hlen1.
  assert (Hcs1 : in_cs e1 b w).
  { split; [lia|]. rewrite Hcont. apply inwaker_reg_cont. }
  destruct (register_cs_frozen b w e1 e2 H12 Hinv1 Hcs1) as (Hinv2 & Hcs2 & Hs2).
  destruct (cs_locked e2 b w Hinv2 Hcs2) as [Hown Hlk].
  split; [congruence|]. split; [exact Hcs2|]. split; [exact Hinv2|].
  split; [intros me wake; apply take_fails_while_locked, Hlk|].
  split; [intros me a' v' n' k'; apply register_contended_effect, Hlk|].
  split.
  - intros s2 a Hg2. split; [apply Hown, Hg2|].
    eapply wake_branch_blocks_while_locked; [exact Hg2|apply Hown, Hg2].
  - intros t2 rest2 e3 Hact2 Ht2 Hc2 Hx3. cbn [exec_micro] in Hx3. injection Hx3 as <-.
    split; [|split].
    + rewrite (slot_h_eq (popc e2 b rest2) _ w) by apply release_lock_h.
      rewrite (slot_h_eq e2 _ w) by reflexivity. congruence.
    + intros s2 Hg2. apply (release_lock_unlocks _ b w s2). exact Hg2.
    + intros s2 a ta Hg2 Hne Ha Hp.
      apply (release_unblocks (popc e2 b rest2) b w s2 a ta); try assumption.
      * change (e_active (popc e2 b rest2)) with (e_active e2). rewrite Hact2. discriminate.
      * unfold popc, upd_thread. cbn [e_threads ex_set_threads].
        rewrite nth_error_list_upd_other by (intros H; apply Hne; symmetry; exact H). exact Ha.
Qed.

(* ... and then the wake that had to wait takes the freshly stored waker and
   is not lost (section 4) *)
Corollary wake_during_registration_b_not_lost : forall e b t a0 v w n k rest e1 e2 t2 rest2 e3 e4 a ta resta e5 e6,
  excl_inv e -> track_ok e -> w < length (e_h e) ->
  e_active e = Some b -> nth_error (e_threads e) b = Some t -> t_cont t = MBoRegister a0 v w n k :: rest ->
  snd (post_acquire (popc e b rest) b w) = true ->
  exec_micro (popc e b rest) b (MBoRegister a0 v w n k) = MOk e1 ->
  rsteps (not_release b w) e1 e2 ->
  e_active e2 = Some b -> nth_error (e_threads e2) b = Some t2 -> t_cont t2 = MWakerRelease w :: rest2 ->
  exec_micro (popc e2 b rest2) b (MWakerRelease w) = MOk e3 ->
  rsteps (quiet w) e3 e4 ->
  e_active e4 = Some a -> nth_error (e_threads e4) a = Some ta -> t_cont ta = MWakeTake w true :: resta ->
  exec_micro (popc e4 a resta) a (MWakeTake w true) = MOk e5 ->
  rsteps (no_wait2 n) e5 e6 ->
  slot e5 w = None /\
  cont_at e5 a = MBranch n AOpaque BNever :: MNotifyPost n :: drop_waker k ++ MLog RUnit :: resta /\
  (wake_pending e6 a n \/ delivered e6 n).
Proof.
  intros e b t a0 v w n k rest e1 e2 t2 rest2 e3 e4 a ta resta e5 e6
         Hinv Htr Hw Hact Ht Hc Hok Hx H12 Hact2 Ht2 Hc2 Hx3 H34 Hact4 Hta Hca Hx5 H56.
  destruct (wake_during_registration_b e b t a0 v w n k rest e1 e2 Hinv Hw Hact Ht Hc Hok Hx H12)
    as (_ & _ & _ & _ & _ & _ & Hrel).
  destruct (Hrel t2 rest2 e3 Hact2 Ht2 Hc2 Hx3) as (Hs3 & _).
  assert (H03 : steps e e3).
  { eapply steps_step; [exact Hact|exact Ht|exact Hc|exact Hx|].
    eapply steps_trans; [apply (rsteps_steps _ _ _ H12)|].
    eapply steps_step; [exact Hact2|exact Ht2|exact Hc2|exact Hx3|apply steps_refl]. }
  pose proof (steps_track_ok _ _ H03 Htr) as Htr3.
  assert (Hw3 : w < length (e_h e3)).
  { destruct (steps_mono _ _ H03) as (_ & _ & [Hl _] & _). rewrite Hl. exact Hw. }
  destruct (registered_then_woken_not_lost w n k e3 e4 a ta resta e5 e6 Htr3 Hw3 Hs3 H34 Hact4 Hta Hca Hx5 H56)
    as (A & B & C & _).
  auto.
Qed.

(* 4.(a) THE WAKE COMES FIRST.  Acquire, take and release of wake() are one
   micro-operation (take_effect: the lock is free before AND after), so the
   registration's try-acquire cannot fail because of a wake: it succeeds (if no
   other registration is inside), stores the waker AFTER the take -- this wake
   will not notify it -- and ACQUIRES THE WAKER'S CLOCK through the lock word:
   everything the waking thread did before wake() happens-before the second
   poll, which follows the registration in b's continuation.  That is how the
   registration in flight observes the wake.  (When the try-acquire does fail,
   the lock is held by another registration, and the task notifies itself:
   register_contended_effect.) *)
Lemma post_acquire_active e me m : e_active (fst (post_acquire e me m)) = e_active e.
Proof.
  unfold post_acquire. destruct (get_mutex e m) as [s|]; [|reflexivity].
  destruct (is_some (mx_lock s)); reflexivity.
Qed.

Theorem wake_during_registration_a : forall e a ta w resta e1 e2 b tb a0 v n k restb,
  track_ok e -> w < length (e_h e) ->
  e_active e = Some a -> nth_error (e_threads e) a = Some ta -> t_cont ta = MWakeTake w true :: resta ->
  exec_micro (popc e a resta) a (MWakeTake w true) = MOk e1 ->
  steps e1 e2 ->
  nth_error (e_threads e2) b = Some tb -> t_cont tb = MBoRegister a0 v w n k :: restb ->
  (forall s2, get_mutex e2 w = Some s2 -> mx_lock s2 = None) ->
  (* the wake left the lock free and took whatever was there *)
  slot e1 w = None /\
  (exists s1, get_mutex e1 w = Some s1 /\ mx_lock s1 = None) /\
  exists e3,
    exec_micro (popc e2 b restb) b (MBoRegister a0 v w n k) = MOk e3 /\
    slot e3 w = Some (n, k) /\
    cont_at e3 b = reg_cont (slot e2 w) a0 v w n k ++ restb /\
    vle (caus_of e a) (caus_of e3 b).
Proof.
  intros e a ta w resta e1 e2 b tb a0 v n k restb Htr Hw Hact Hta Hca Hx H12 Htb Hcb Hfree.
  set (ep := popc e a resta) in *.
  assert (Htrp : track_ok ep) by (apply track_ok_popc, Htr).
  destruct (wake_take_effect ep a w e1 Hx) as ((s & s1 & Hg & Hl & Hg1 & Hl1) & Hs1 & _).
  split; [exact Hs1|]. split; [eauto|].
  (* the state on which the take released the lock *)
  set (E := upd_hobj (fst (post_acquire ep a w)) w (fun h => ho_set_waker h None)).
  assert (Hok : snd (post_acquire ep a w) = true) by (apply post_acquire_ok_iff; eauto).
  assert (HmE : mono (release_lock E a w) e1).
  { rewrite exec_micro_wake_take, Hok in Hx. cbv zeta in Hx. fold E in Hx.
    destruct (slot ep w) as [[n' k']|]; injection Hx as <-.
    - apply mono_push_cont_k, mono_refl.
    - apply mono_log_op_k, mono_refl. }
  destruct (post_acquire ep a w) as [eq ok] eqn:Hpa. cbn [snd] in Hok. subst ok. cbn [fst] in E.
  destruct (post_acquire_ok_lock ep a w eq Hpa) as (s0 & sq & Hg0 & _ & Hgq & _ & _).
  assert (HgE : get_mutex E w = Some sq) by (rewrite (get_mutex_objects_eq E eq w); [exact Hgq|reflexivity]).
  assert (HactE : e_active E <> None).
  { change (e_active E) with (e_active eq).
    pose proof (post_acquire_active ep a w) as Ha. rewrite Hpa in Ha. cbn [fst] in Ha. rewrite Ha.
    change (e_active ep) with (e_active e). rewrite Hact. discriminate. }
  set (e2p := popc e2 b restb).
  assert (Hm2 : mono (release_lock E a w) e2p).
  { unfold e2p, popc. apply mono_pre. eapply mono_trans; [exact HmE|apply steps_mono, H12]. }
  pose proof (exec_micro_track_ok _ _ _ _ Htrp Hx) as Htr1.
  destruct (mutex_stays e1 e2 w s1 Htr1 (steps_mono _ _ H12) Hg1) as (s2 & Hg2).
  assert (Hg2p : get_mutex e2p w = Some s2) by exact Hg2.
  assert (Hb : b < length (e_threads e2)) by (apply nth_error_Some; congruence).
  assert (Hbp : b < length (e_threads e2p)) by (unfold e2p; rewrite popc_threads_length; exact Hb).
  destruct (mutex_handover_mono E a w sq e2p b s2 HgE HactE Hm2 Hg2p (Hfree s2 Hg2) Hbp) as [Hok2 Hvle].
  destruct (post_acquire e2p b w) as [e2q ok2] eqn:Hpa2. cbn [fst snd] in Hok2, Hvle. subst ok2.
  destruct (register_success_effect e2p b a0 v w n k e2q Hpa2) as (e3 & Hx3 & He3 & Hs3 & _ & _ & Hc3 & _).
  exists e3. split; [exact Hx3|].
  assert (Hw2 : w < length (e_h e2p)).
  { change (e_h e2p) with (e_h e2).
    destruct (steps_mono _ _ H12) as (_ & _ & [Hl2 _] & _). rewrite Hl2.
    pose proof (h_length_step ep a (MWakeTake w true)) as Hlh. rewrite Hx in Hlh. cbn [res_exec] in Hlh.
    rewrite Hlh. exact Hw. }
  split; [apply Hs3, Hw2|]. split.
  - rewrite (Hc3 Hbp). unfold e2p. rewrite cont_at_popc_same by exact Hb.
    rewrite (slot_h_eq e2 (popc e2 b restb) w eq_refl). reflexivity.
  - assert (H3 : caus_of e3 b = caus_of e2q b)
      by (subst e3; rewrite caus_of_push_cont, caus_of_upd_hobj; reflexivity).
    rewrite H3. eapply vle_trans; [|exact Hvle].
    (* caus_of e a <= caus_of E a *)
    unfold E. rewrite caus_of_upd_hobj.
    pose proof (post_acquire_mono ep a w) as (_ & Hcm & _). rewrite Hpa in Hcm. cbn [fst] in Hcm.
    eapply vle_trans; [|apply (Hcm a)].
    unfold ep, popc. rewrite caus_of_upd_thread_keep by (intros t0; reflexivity). apply vle_refl.
Qed.

(* ================================================================== *)
(* 6. block_on: the poll loop                                          *)
(* ================================================================== *)

Definition register_seq (a : nat) (v : N) (w n k : nat) : list micro :=
  [MBranch k ARefInc BNever; MArcIncRaw k; MBranch w AOpaqueTry BNever; MBoRegister a v w n k].

(* block_on creates its Notify (spurious wake-ups allowed, flag clear) and the
   Arc around it, then polls *)
Lemma exec_micro_block_on e me a v w :
  exec_micro e me (MBlockOn a v w) =
  MOk (push_cont
         (ex_set_objects e (e_objects e ++
            [ONotify (mkNotify true false false false None vv_new);
             OArc (mkArc 1 vv_new (repeat None MAX_THREADS) None (repeat None MAX_THREADS))]))
         me [MBoPoll a v w (length (e_objects e)) (S (length (e_objects e)))]).
Proof. reflexivity. Qed.

(* a poll: one LPoll line, then the load of the future's atomic *)
Lemma exec_micro_bo_poll e me a v w n k :
  exec_micro e me (MBoPoll a v w n k) =
  MOk (push_cont (log_poll e me) me [MBranch a ALoad BNever; MBoLoad a v w n k true]).
Proof. reflexivity. Qed.

Lemma exec_micro_bo_load e me a v w n k first :
  exec_micro e me (MBoLoad a v w n k first) =
  match load_post e me a Acquire with
  | inr (e1, p) => MFail e1 p
  | inl (e1, x) =>
      MOk (push_cont e1 me
             (if N.eqb x v then [MBoDone n k]
              else if first then register_seq a v w n k
              else [MNotifyWait1 n; MBoPoll a v w n k]))
  end.
Proof.
  cbn [exec_micro]. destruct (load_post e me a Acquire) as [[e1 x]|[e1 p]]; [|reflexivity].
  destruct (N.eqb x v); [reflexivity|]. destruct first; reflexivity.
Qed.

(* Ready: block_on returns (its result line is logged after the handle of the
   Arc<Notify> is dropped) *)
Lemma exec_micro_bo_done e me n k :
  exec_micro e me (MBoDone n k) = MOk (push_cont e me (drop_waker k ++ [MLog RUnit])).
Proof. reflexivity. Qed.

Lemma conts_load_post e me a o : conts (lp_exec (load_post e me a o)) = conts e.
Proof.
  unfold load_post.
  destruct (get_atomic (causality_inc e me) a) as [s|]; [|cbn [lp_exec]; apply conts_upd_thread_keep; intros t; reflexivity].
  destruct (get_thread (causality_inc e me) me) as [t|]; [|cbn [lp_exec]; apply conts_upd_thread_keep; intros t; reflexivity].
  destruct (choose_store_frame (causality_inc e me) (match_load_to_stores s me (t_caus t) (t_last_yield t) o)) as (Hct & _ & _).
  destruct (choose_store (causality_inc e me) (match_load_to_stores s me (t_caus t) (t_last_yield t) o)) as [e1 [idx|p]];
    cbn [fst] in Hct.
  - destruct (atomic_load s me (t_caus t) idx o) as [[[s' c'] x]|p]; cbn [lp_exec].
    + unfold set_caus. rewrite conts_upd_thread_keep by (intros t0; reflexivity).
      unfold conts. cbn [e_threads upd_object ex_set_objects]. rewrite Hct.
      apply conts_upd_thread_keep. intros t0. reflexivity.
    + unfold conts. rewrite Hct. apply conts_upd_thread_keep. intros t0. reflexivity.
  - cbn [lp_exec]. unfold conts. rewrite Hct. apply conts_upd_thread_keep. intros t0. reflexivity.
Qed.

(* MNotifyWait2 passes only with the flag set *)
Lemma wait2_needs_flag e b n e' :
  exec_micro e b (MNotifyWait2 n) = MOk e' -> delivered e n.
Proof.
  rewrite exec_micro_notify_wait2. destruct (get_notify e n) as [s|] eqn:Hg; [|discriminate].
  destruct (nt_notified s) eqn:Hn; cbn [negb]; [|discriminate]. intros _. exists s. auto.
Qed.

(* 5. BETWEEN TWO POLLS.  The second load of a round returns Pending (x <> v):
   the continuation up to the next poll is exactly [MNotifyWait1 n; MBoPoll ..]
   (the first load of a round never leads to a poll directly: it registers).
   And Notify::wait lets the task through to that MBoPoll in three ways only:
   (i)   the flag is set (a wake: its own after a contended registration, or
         a foreign one): non-blocking branch, then the consuming half;
   (ii)  the one modelled spurious return: did_spur was clear and is set now
         (NotifyFacts.spurious_at_most_once: never again for this Notify);
   (iii) the flag is clear: the blocking branch; the thread is Blocked until
         some thread executes MNotifyPost n
         (NotifyFacts.unnotified_waiter_blocked_until_post), and the consuming
         half passes only with the flag set (wait2_needs_flag). *)
Theorem repoll_only_after_wake : forall e b a v w n k e1 x,
  load_post e b a Acquire = inl (e1, x) -> N.eqb x v = false -> b < length (e_threads e) ->
  exec_micro e b (MBoLoad a v w n k false) = MOk (push_cont e1 b [MNotifyWait1 n; MBoPoll a v w n k]) /\
  cont_at (push_cont e1 b [MNotifyWait1 n; MBoPoll a v w n k]) b =
    MNotifyWait1 n :: MBoPoll a v w n k :: cont_at e b /\
  exec_micro e b (MBoLoad a v w n k true) = MOk (push_cont e1 b (register_seq a v w n k)) /\
  forall e2 s e3,
    get_notify e2 n = Some s -> b < length (e_threads e2) ->
    exec_micro e2 b (MNotifyWait1 n) = MOk e3 ->
    (nt_notified s = true /\
     cont_at e3 b = MBranch n AOpaque BNever :: MNotifyWait2 n :: cont_at e2 b) \/
    (nt_spurious s = true /\ nt_did_spur s = false /\ cont_at e3 b = MYield :: cont_at e2 b /\
     exists s3, get_notify e3 n = Some s3 /\ nt_did_spur s3 = true /\ nt_notified s3 = nt_notified s) \/
    (nt_notified s = false /\
     cont_at e3 b = MBranch n AOpaque BAlways :: MNotifyWait2 n :: cont_at e2 b).
Proof.
  intros e b a v w n k e1 x Hlp Hx Hb.
  pose proof (conts_load_post e b a Acquire) as Hc. rewrite Hlp in Hc. cbn [lp_exec] in Hc.
  split; [rewrite exec_micro_bo_load, Hlp, Hx; reflexivity|]. split.
  { rewrite cont_at_push_cont_same by (rewrite (conts_length _ _ Hc); exact Hb).
    rewrite (cont_at_conts_eq _ _ b Hc). reflexivity. }
  split; [rewrite exec_micro_bo_load, Hlp, Hx; reflexivity|].
  intros e2 s e3 Hg Hb2 Hw1. rewrite (exec_micro_notify_wait1 e2 b n s Hg) in Hw1. unfold wait1_cont in Hw1.
  assert (Hpush : forall (e0 : exec) ms, e_threads e0 = e_threads e2 -> cont_at (push_cont e0 b ms) b = ms ++ cont_at e2 b).
  { intros e0 ms He0. rewrite cont_at_push_cont_same by (rewrite He0; exact Hb2).
    unfold cont_at. rewrite He0. reflexivity. }
  assert (Hplain : forall (e0 : exec), e_threads e0 = e_threads e2 ->
            MOk (push_cont e0 b [MBranch n AOpaque (if nt_notified s then BNever else BAlways); MNotifyWait2 n]) = MOk e3 ->
            (nt_notified s = true /\ cont_at e3 b = MBranch n AOpaque BNever :: MNotifyWait2 n :: cont_at e2 b) \/
            (nt_notified s = false /\ cont_at e3 b = MBranch n AOpaque BAlways :: MNotifyWait2 n :: cont_at e2 b)).
  { intros e0 He0 H. injection H as <-. rewrite (Hpush e0 _ He0).
    destruct (nt_notified s); [left|right]; split; reflexivity. }
  destruct (nt_spurious s) eqn:Hsp, (nt_did_spur s) eqn:Hds; cbn [andb negb] in Hw1.
  - destruct (Hplain e2 eq_refl Hw1) as [H|H]; [left; exact H|right; right; exact H].
  - destruct (branch_spurious (e_path e2)) as [[p [|]]|y]; [| |discriminate Hw1].
    + injection Hw1 as <-. right. left. split; [reflexivity|]. split; [reflexivity|]. split.
      * apply (Hpush (upd_object (ex_set_path e2 p) n _) [MYield]). reflexivity.
      * eexists. split.
        { unfold push_cont. rewrite (get_notify_objects_eq _ _ n (e_objects_upd_thread _ _ _)).
          eapply get_notify_upd_const. apply get_notify_nth. exact Hg. }
        split; reflexivity.
    + destruct (Hplain (ex_set_path e2 p) eq_refl Hw1) as [H|H]; [left; exact H|right; right; exact H].
  - destruct (Hplain e2 eq_refl Hw1) as [H|H]; [left; exact H|right; right; exact H].
  - destruct (Hplain e2 eq_refl Hw1) as [H|H]; [left; exact H|right; right; exact H].
Qed.

(* the Ready case: block_on returns *)
Theorem block_on_returns_when_ready : forall e b a v w n k first e1 x,
  load_post e b a Acquire = inl (e1, x) -> N.eqb x v = true -> b < length (e_threads e) ->
  exec_micro e b (MBoLoad a v w n k first) = MOk (push_cont e1 b [MBoDone n k]) /\
  cont_at (push_cont e1 b [MBoDone n k]) b = MBoDone n k :: cont_at e b /\
  forall e2, exec_micro e2 b (MBoDone n k) = MOk (push_cont e2 b (drop_waker k ++ [MLog RUnit])).
Proof.
  intros e b a v w n k first e1 x Hlp Hx Hb.
  pose proof (conts_load_post e b a Acquire) as Hc. rewrite Hlp in Hc. cbn [lp_exec] in Hc.
  split; [rewrite exec_micro_bo_load, Hlp, Hx; reflexivity|]. split.
  - rewrite cont_at_push_cont_same by (rewrite (conts_length _ _ Hc); exact Hb).
    rewrite (cont_at_conts_eq _ _ b Hc). reflexivity.
  - intros e2. reflexivity.
Qed.

(* ---- LPoll lines are written by the polls of block_on only ---- *)
Definition is_poll (l : logline) : bool := match l with LPoll _ _ => true | _ => false end.
Definition polls (e : exec) : list logline := filter is_poll (e_log e).

Definition pk (e e' : exec) : Prop := polls e' = polls e.

Lemma pk_refl e : pk e e.
Proof. reflexivity. Qed.
Lemma pk_trans e1 e2 e3 : pk e1 e2 -> pk e2 e3 -> pk e1 e3.
Proof. unfold pk. congruence. Qed.
Lemma pk_k e0 e e' : pk e e' -> pk e0 e -> pk e0 e'.
Proof. intros H1 H0. eapply pk_trans; eassumption. Qed.
Lemma pk_same_k e0 e e' : e_log e' = e_log e -> pk e0 e -> pk e0 e'.
Proof. intros Hl. apply pk_k. unfold pk, polls. rewrite Hl. reflexivity. Qed.

Lemma pk_log_k e0 e l :
  forallb (fun x => negb (is_poll x)) l = true -> pk e0 e -> pk e0 (ex_set_log e (l ++ e_log e)).
Proof.
  intros Hl. apply pk_k. unfold pk, polls. cbn [e_log ex_set_log]. rewrite filter_app.
  replace (filter is_poll l) with (@nil logline); [reflexivity|].
  induction l as [|x l IH]; [reflexivity|]. cbn [forallb] in Hl. apply andb_prop in Hl. destruct Hl as [Hx Hl].
  cbn [filter]. destruct (is_poll x); [discriminate Hx|]. apply IH, Hl.
Qed.

Lemma pk_log1_k e0 e x : is_poll x = false -> pk e0 e -> pk e0 (ex_set_log e (x :: e_log e)).
Proof. intros Hx. apply (pk_log_k e0 e [x]). cbn [forallb]. rewrite Hx. reflexivity. Qed.

Lemma pk_log_op_k e0 e me r : pk e0 e -> pk e0 (log_op e me r).
Proof.
  intros H. unfold log_op. destruct (get_thread e me); [|exact H]. apply pk_log1_k; [reflexivity|exact H].
Qed.

Lemma e_log_threads_unpark e me id : e_log (threads_unpark e me id) = e_log e.
Proof. unfold threads_unpark. destruct (Nat.eqb id me); reflexivity. Qed.

Lemma e_log_fold_unpark me l : forall e, e_log (fold_left (fun e t => threads_unpark e me t) l e) = e_log e.
Proof.
  induction l as [|x l IH]; intros e; cbn [fold_left]; [reflexivity|]. rewrite IH. apply e_log_threads_unpark.
Qed.

Lemma e_log_sched_note e nx pid th : e_log (sched_note e nx pid th) = e_log e.
Proof.
  unfold sched_note. destruct (t_op th) as [op|]; [|reflexivity].
  destruct (nth_error (e_objects e) (op_obj op)); reflexivity.
Qed.

Lemma e_log_schedule e : e_log (res_exec (fst (schedule e))) = e_log e.
Proof.
  destruct (schedule_cases e)
    as [(c & ->)|[(x & ->)|[(p1 & x & Hd & ->)|(curr & cur_th & p1 & p2 & next & Hp & ->)]]];
    cbn [fst res_exec]; try reflexivity.
  assert (Hb : e_log (sched_base e p2 next) = e_log e) by reflexivity.
  revert Hb. generalize (sched_base e p2 next). intros e1 Hb.
  unfold sched_post. destruct next as [nx|].
  - destruct (nth_error (e_threads e1) nx) as [th|]; cbn [fst res_exec]; [|exact Hb].
    cbn [e_log ex_set_threads]. rewrite e_log_sched_note. exact Hb.
  - destruct (forallb is_terminated (e_threads e1)); cbn [fst res_exec]; exact Hb.
Qed.

Lemma e_log_do_branch e me obj act blk : e_log (res_exec (do_branch e me obj act blk)) = e_log e.
Proof. unfold do_branch. rewrite e_log_schedule. reflexivity. Qed.
Lemma e_log_do_park e me : e_log (res_exec (do_park e me)) = e_log e.
Proof.
  unfold do_park. destruct (get_thread e me) as [t|]; [|reflexivity].
  destruct (t_token t); cbn [res_exec]; [reflexivity|]. rewrite e_log_schedule. reflexivity.
Qed.
Lemma e_log_do_yield e me : e_log (res_exec (do_yield e me)) = e_log e.
Proof. unfold do_yield. rewrite e_log_schedule. reflexivity. Qed.
Lemma e_log_release_lock e me m : e_log (release_lock e me m) = e_log e.
Proof.
  unfold release_lock. destruct (get_mutex e m) as [s|]; [|reflexivity]. cbv zeta.
  destruct (e_active _); reflexivity.
Qed.
Lemma e_log_post_acquire e me m : e_log (fst (post_acquire e me m)) = e_log e.
Proof.
  unfold post_acquire. destruct (get_mutex e m) as [s|]; [|reflexivity].
  destruct (is_some (mx_lock s)); reflexivity.
Qed.
Lemma e_log_post_acquire_read e me r : e_log (fst (post_acquire_read e me r)) = e_log e.
Proof.
  unfold post_acquire_read. destruct (get_rw e r) as [s|]; [|reflexivity].
  destruct (rw_lock s) as [[rs|x]|]; reflexivity.
Qed.
Lemma e_log_post_acquire_write e me r : e_log (fst (post_acquire_write e me r)) = e_log e.
Proof.
  unfold post_acquire_write. destruct (get_rw e r) as [s|]; [|reflexivity].
  destruct (rw_lock s) as [lk|]; reflexivity.
Qed.
Lemma e_log_release_read e me r : e_log (res_exec (release_read e me r)) = e_log e.
Proof.
  unfold release_read. destruct (get_rw e r) as [s|]; [|reflexivity]. cbv zeta.
  destruct (rw_lock s) as [[rs|x]|]; cbn [res_exec]; try reflexivity.
  destruct (set_remove me rs); reflexivity.
Qed.
Lemma e_log_release_write e me r : e_log (res_exec (release_write e me r)) = e_log e.
Proof. unfold release_write. destruct (get_rw e r) as [s|]; reflexivity. Qed.
Lemma e_log_choose_store e seed : e_log (fst (choose_store e seed)) = e_log e.
Proof.
  unfold choose_store.
  repeat match goal with
         | |- context [match ?x with _ => _ end] =>
             lazymatch x with
             | context [match _ with _ => _ end] => fail
             | _ => destruct x
             end
         end; reflexivity.
Qed.

Ltac pclose_step :=
  match goal with
  | |- pk ?e ?e => apply pk_refl
  | H : pk ?E ?x |- pk _ ?x => apply (pk_trans _ E x); [|exact H]
  | |- pk _ (log_op _ _ _) => apply pk_log_op_k
  | |- pk _ (ex_set_log ?e (_ :: e_log ?e)) => apply pk_log1_k; [reflexivity|]
  | |- pk _ (release_lock ?e _ _) => apply (pk_same_k _ e); [apply e_log_release_lock|]
  | |- pk _ (threads_unpark ?e _ _) => apply (pk_same_k _ e); [apply e_log_threads_unpark|]
  | |- pk _ (fold_left _ _ ?e) => apply (pk_same_k _ e); [apply e_log_fold_unpark|]
  | |- pk _ (ex_set_objects ?e _) => apply (pk_same_k _ e); [reflexivity|]
  | |- pk _ (ex_set_threads ?e _) => apply (pk_same_k _ e); [reflexivity|]
  | |- pk _ (upd_object ?e _ _) => apply (pk_same_k _ e); [reflexivity|]
  | |- pk _ (push_cont ?e _ _) => apply (pk_same_k _ e); [reflexivity|]
  | |- pk _ (push_guard ?e _ _ _) => apply (pk_same_k _ e); [reflexivity|]
  | |- pk _ (drop_guard ?e _ _ _) => apply (pk_same_k _ e); [reflexivity|]
  | |- pk _ (causality_inc ?e _) => apply (pk_same_k _ e); [reflexivity|]
  | |- pk _ (set_caus ?e _ _) => apply (pk_same_k _ e); [reflexivity|]
  | |- pk _ (upd_thread ?e _ _) => apply (pk_same_k _ e); [reflexivity|]
  | |- pk _ (map_others ?e _ _ _) => apply (pk_same_k _ e); [reflexivity|]
  | |- pk _ (set_slot ?e _ _ _) => apply (pk_same_k _ e); [reflexivity|]
  | |- pk _ (upd_hobj ?e _ _) => apply (pk_same_k _ e); [reflexivity|]
  | |- pk _ (ex_set_path ?e _) => apply (pk_same_k _ e); [reflexivity|]
  | |- pk _ (ex_set_active ?e _) => apply (pk_same_k _ e); [reflexivity|]
  | |- pk _ (ex_set_seqcst ?e _) => apply (pk_same_k _ e); [reflexivity|]
  | |- pk _ (ex_set_spawned ?e _) => apply (pk_same_k _ e); [reflexivity|]
  | |- pk _ (ex_set_joined ?e _) => apply (pk_same_k _ e); [reflexivity|]
  | |- pk _ (ex_set_lazy ?e _) => apply (pk_same_k _ e); [reflexivity|]
  end.

Ltac pclose := cbn [res_exec lp_exec]; repeat pclose_step.

Ltac pframe L :=
  let H := fresh "Hfr" in pose proof L as H.

Ltac pstep :=
  match goal with
  | |- pk _ (res_exec (fst (schedule ?e))) => apply (pk_same_k _ e); [apply e_log_schedule|]
  | |- pk _ (res_exec (do_branch ?e _ _ _ _)) => apply (pk_same_k _ e); [apply e_log_do_branch|]
  | |- pk _ (res_exec (do_park ?e _)) => apply (pk_same_k _ e); [apply e_log_do_park|]
  | |- pk _ (res_exec (do_yield ?e _)) => apply (pk_same_k _ e); [apply e_log_do_yield|]
  | |- pk _ ?G =>
      match G with
      | context [post_acquire ?e ?me ?m] =>
          let H := fresh "Hfr" in
          assert (H : pk e (fst (post_acquire e me m)))
            by (unfold pk, polls; rewrite e_log_post_acquire; reflexivity);
          destruct (post_acquire e me m); cbn [fst] in H
      | context [post_acquire_read ?e ?me ?m] =>
          let H := fresh "Hfr" in
          assert (H : pk e (fst (post_acquire_read e me m)))
            by (unfold pk, polls; rewrite e_log_post_acquire_read; reflexivity);
          destruct (post_acquire_read e me m); cbn [fst] in H
      | context [post_acquire_write ?e ?me ?m] =>
          let H := fresh "Hfr" in
          assert (H : pk e (fst (post_acquire_write e me m)))
            by (unfold pk, polls; rewrite e_log_post_acquire_write; reflexivity);
          destruct (post_acquire_write e me m); cbn [fst] in H
      | context [release_read ?e ?me ?m] =>
          let H := fresh "Hfr" in
          assert (H : pk e (res_exec (release_read e me m)))
            by (unfold pk, polls; rewrite e_log_release_read; reflexivity);
          destruct (release_read e me m); cbn [res_exec] in H
      | context [release_write ?e ?me ?m] =>
          let H := fresh "Hfr" in
          assert (H : pk e (res_exec (release_write e me m)))
            by (unfold pk, polls; rewrite e_log_release_write; reflexivity);
          destruct (release_write e me m); cbn [res_exec] in H
      | context [choose_store ?e ?s] =>
          let H := fresh "Hfr" in
          assert (H : pk e (fst (choose_store e s)))
            by (unfold pk, polls; rewrite e_log_choose_store; reflexivity);
          destruct (choose_store e s) as [? [?|?]]; cbn [fst] in H
      end
  | |- context [match ?x with _ => _ end] =>
      lazymatch x with
      | context [match _ with _ => _ end] => fail
      | _ => destruct x eqn:?
      end
  end; cbv beta iota.

Lemma load_post_pk e me a o : pk e (lp_exec (load_post e me a o)).
Proof. unfold load_post. repeat pstep. all: pclose. Qed.

Ltac pstep' :=
  first [ match goal with
          | |- pk _ ?G =>
              match G with
              | context [load_post ?e ?me ?a ?o] =>
                  let H := fresh "Hfr" in
                  pose proof (load_post_pk e me a o) as H;
                  destruct (load_post e me a o) as [[? ?]|[? ?]]; cbn [lp_exec] in H; cbv beta iota
              end
          end
        | pstep ].

Ltac pk_tac :=
  cbn [exec_micro]; unfold lift_path, mbind; cbv beta iota;
  repeat pstep'; pclose.

Definition poll_op (m : micro) : bool :=
  match m with MBoPoll _ _ _ _ _ | MBsPoll _ _ _ _ _ _ _ => true | _ => false end.

Lemma forallb_rev_map_nopoll (A : Type) (f : A -> logline) (l : list A) :
  (forall x, is_poll (f x) = false) -> forallb (fun x => negb (is_poll x)) (rev (map f l)) = true.
Proof.
  intros Hf. apply forallb_forall. intros x Hx. apply in_rev, in_map_iff in Hx.
  destruct Hx as (y & <- & _). rewrite Hf. reflexivity.
Qed.

(* every micro-operation other than a poll of block_on leaves the LPoll lines
   of the log alone; a poll adds exactly one, for the polling thread's current
   instruction *)
Theorem poll_lines_step : forall e me m,
  poll_op m = false -> polls (res_exec (exec_micro e me m)) = polls e.
Proof.
  intros e me m Hp. change (pk e (res_exec (exec_micro e me m))).
  destruct m; try discriminate Hp; clear Hp;
    try match goal with
        | |- pk _ (res_exec (exec_micro _ _ MLazyDrop)) => idtac
        | |- pk _ (res_exec (exec_micro _ _ MDropLocals)) => idtac
        | |- _ => pk_tac
        end.
  - (* MLazyDrop *)
    cbn [exec_micro]. destruct (e_lazy e) as [lz|]; cbn [res_exec]; [|apply pk_refl].
    apply (pk_same_k _ (ex_set_log e (rev (map LDropLazy (filter (fun k => existsb (fun x => Nat.eqb (fst x) k) lz) (seq 0 8))) ++ e_log e)));
      [reflexivity|].
    apply pk_log_k; [|apply pk_refl]. apply forallb_rev_map_nopoll. intros x. reflexivity.
  - (* MDropLocals *)
    cbn [exec_micro]. destruct (get_thread e me) as [t|]; cbn [res_exec]; [|apply pk_refl].
    destruct (existsb (Nat.eqb 2) (t_tls t) && negb (existsb (Nat.eqb 0) (t_tls t))); cbn [res_exec]; [apply pk_refl|].
    apply pk_log_k; [|apply pk_refl].
    apply forallb_forall. intros x Hx. apply in_rev, in_flat_map in Hx. destruct Hx as (k & _ & Hk).
    apply in_app_or in Hk. destruct Hk as [Hk|[<-|[]]]; [|reflexivity].
    destruct (Nat.eqb k 2); [destruct Hk as [<-|[]]; reflexivity|destruct Hk].
Qed.

Theorem poll_logs_one_line : forall e me a v w n k t,
  get_thread e me = Some t ->
  polls (res_exec (exec_micro e me (MBoPoll a v w n k))) = LPoll (t_body t) (t_pc t) :: polls e.
Proof.
  intros e me a v w n k t Ht. cbn [exec_micro res_exec]. unfold polls, push_cont, log_poll. rewrite Ht. reflexivity.
Qed.

(* ================================================================== *)
(* 7. Witnesses (vm_compute)                                           *)
(* ================================================================== *)

Definition cfgW : config := mkConfig 5 1000 None None None false.

(* one block_on, one waking thread *)
Definition p_wake (o : ord) : prog := mkProg cfgW [DAtomic 0; DWaker]
  [[ISpawn 1; IBlockOn 0 1 1; IJoin 1]; [IStore 0 1 o; IWake 1]].

Definition stw (k : nat) : exec := fst (run k (init_exec (p_wake SeqCst) (initial_path cfgW))).
Definition flag_of (e : exec) (n : nat) : option bool :=
  match get_notify e n with Some s => Some (nt_notified s) | None => None end.

(* first iteration: main polls (Pending), registers (3, 4), polls again
   (Pending), blocks in Notify::wait; thread 1 stores, wakes: the take finds
   (3, 4), the post sets the flag and makes main runnable; main consumes the
   notification and polls again (second LPoll line): Ready; block_on returns;
   the run finishes without leak *)
Example wake_after_registration_finishes :
  snd (iteration 1000 (p_wake SeqCst) (initial_path cfgW)) = IterDone /\
  rev (e_log (fst (iteration 1000 (p_wake SeqCst) (initial_path cfgW)))) =
    [LOp 0 0 RUnit; LPoll 0 1; LOp 1 0 RUnit; LOp 1 1 RUnit; LPoll 0 1; LOp 0 1 RUnit; LOp 0 2 RUnit] /\
  (* the registration *)
  hd MSkip (cont_at (stw 10) 0) = MBoRegister 0 1 1 3 4 /\ slot (stw 10) 1 = None /\
  slot (stw 11) 1 = Some (3, 4) /\ hd MSkip (cont_at (stw 11) 0) = MWakerRelease 1 /\
  (* main blocks in Notify::wait with the flag clear *)
  firstn 2 (cont_at (stw 15) 0) = [MBranch 3 AOpaque BAlways; MNotifyWait2 3] /\
  map t_state (e_threads (stw 16)) = [Blocked; Runnable] /\
  (* the wake, after the registration *)
  hd MSkip (cont_at (stw 21) 1) = MWakeTake 1 true /\ slot (stw 21) 1 = Some (3, 4) /\
  slot (stw 22) 1 = None /\
  firstn 2 (cont_at (stw 22) 1) = [MBranch 3 AOpaque BNever; MNotifyPost 3] /\
  flag_of (stw 23) 3 = Some false /\ flag_of (stw 24) 3 = Some true /\
  map t_state (e_threads (stw 24)) = [Runnable; Runnable] /\
  (* main consumes the notification, polls again, Ready *)
  hd MSkip (cont_at (stw 34) 0) = MNotifyWait2 3 /\ flag_of (stw 35) 3 = Some false /\
  hd MSkip (cont_at (stw 35) 0) = MBoPoll 0 1 1 3 4 /\ hd MSkip (cont_at (stw 38) 0) = MBoDone 3 4.
Proof. vm_compute. repeat split; reflexivity. Qed.

(* nobody wakes: the task blocks in Notify::wait for ever; the model reports
   the deadlock (after the single poll) *)
Definition p_nowake : prog := mkProg cfgW [DAtomic 0; DWaker] [[IBlockOn 0 1 1]].

Example nobody_wakes_deadlock :
  snd (fst (check 100 1000 p_nowake)) = RunPanic (PanicDeadlock [Blocked]) /\
  map (fun r => (ir_result r, ir_log r)) (fst (fst (check 100 1000 p_nowake))) =
    [(IterPanic (PanicDeadlock [Blocked]), [LPoll 0 0])].
Proof. vm_compute. split; reflexivity. Qed.

(* the exploration of the model, continued past panicking iterations *)
Fixpoint explore_all (ifuel fuel : nat) (p : prog) (pa : path) (acc : list (path * iter_end))
  : list (path * iter_end) :=
  match ifuel with
  | 0 => rev acc
  | S i =>
      let '(e, r) := iteration fuel p pa in
      match step (e_path e) with
      | Some pa' => explore_all i fuel p pa' ((pa, r) :: acc)
      | None => rev ((pa, r) :: acc)
      end
  end.

Definition iter_kind (r : iter_end) : nat :=
  match r with
  | IterDone => 0 | IterPanic (PanicLeak _ _) => 1 | IterPanic (PanicDeadlock _) => 2
  | IterPanic _ => 3 | IterFuel => 4
  end.
Definition kinds (p : prog) : nat * list nat :=
  let l := explore_all 5000 3000 p (initial_path cfgW) [] in
  (length l, map (fun k => length (filter (fun r => Nat.eqb (iter_kind (snd r)) k) l)) [0; 1; 2; 3; 4]).

(* NO LOST WAKE-UP on this program, whatever the ordering of the store: all
   205 schedules explored (the exploration is exhausted: 205 < 5000), block_on
   returns in every one of them; 13 of them end with the leak report of
   LeakFacts F2 (the wake came before the registration, the task saw the value
   at its second poll, the clone stays registered); no deadlock *)
Example wake_never_lost_exhaustive :
  kinds (p_wake SeqCst) = (205, [192; 13; 0; 0; 0]) /\
  kinds (p_wake Release) = (205, [192; 13; 0; 0; 0]) /\
  kinds (p_wake Relaxed) = (205, [192; 13; 0; 0; 0]).
Proof. vm_compute. repeat split; reflexivity. Qed.

(* a monitor: does some executed step satisfy f (f sees the popped state)? *)
Fixpoint run_obs (f : exec -> nat -> micro -> bool) (fuel : nat) (e : exec) : bool :=
  match fuel with
  | 0 => false
  | S fuel' =>
      match e_active e with
      | None => false
      | Some me =>
          match nth_error (e_threads e) me with
          | None => false
          | Some t =>
              match t_cont t with
              | [] => false
              | m :: rest =>
                  let e1 := popc e me rest in
                  f e1 me m ||
                  match exec_micro e1 me m with
                  | MOk e2 => run_obs f fuel' e2
                  | MFail _ _ => false
                  end
              end
          end
      end
  end.

Definition blocked_wake (w : nat) (e : exec) (me : nat) (m : micro) : bool :=
  match m with
  | MBranch w' AOpaque BMutexLocked => Nat.eqb w' w && block_now e w' BMutexLocked
  | _ => false
  end.
Definition contended_reg (w : nat) (e : exec) (me : nat) (m : micro) : bool :=
  match m with
  | MBoRegister _ _ w' _ _ => Nat.eqb w' w && negb (snd (post_acquire e me w'))
  | _ => false
  end.

(* 4.(b) is reachable: in iteration 21 of the model's own exploration of
   p_wake the task re-registers after its spurious return (the replaced waker
   is dropped inside the critical section: a scheduling point), thread 1
   stores and its wake() blocks on the lock word; main's second poll of that
   round is Ready, block_on returns; thread 1's wake then takes the waker that
   was registered meanwhile; the iteration finishes without leak *)
Definition recsW : list iter_record := fst (fst (check 300 2000 (p_wake SeqCst))).
Definition rec20 : iter_record :=
  nth 20 recsW (mkIter (initial_path cfgW) (initial_path cfgW) [] IterFuel).

Example wake_blocked_during_registration_reachable :
  length recsW = 25 /\
  run_obs (blocked_wake 1) 2000 (init_exec (p_wake SeqCst) (ir_begin rec20)) = true /\
  ir_result rec20 = IterDone /\
  ir_log rec20 = [LOp 0 0 RUnit; LPoll 0 1; LPoll 0 1; LOp 1 0 RUnit; LOp 0 1 RUnit; LOp 1 1 RUnit;
                  LOp 0 2 RUnit].
Proof. vm_compute. repeat split; reflexivity. Qed.

(* 1.b / 4.(a), the contended registration, is reachable only with TWO tasks on
   one AtomicWaker (the lock is held across a scheduling point only while a
   registration drops the waker it replaced).  main and thread 1 both block_on
   through AtomicWaker 1 (nobody ever stores: the run ends in a deadlock, which
   does not matter here).  On the 5th path of the exploration: main registers
   (3, 4); thread 1 replaces it by (5, 6); main (spurious return) replaces that
   by (3, 4) and is descheduled INSIDE the critical section (step 39, at the
   drop of (5, 6)); thread 1 (spurious return) polls, its try-acquire fails
   (step 46), it notifies its own Notify 5 (steps 47, 48) and yields; later its
   Notify::wait finds the flag set and does not block (step 61: BNever) *)
Definition p_two : prog := mkProg cfgW [DAtomic 0; DWaker]
  [[ISpawn 1; IBlockOn 0 1 1; IJoin 1]; [IBlockOn 0 1 1]].
Definition pa_two : path :=
  fst (nth 4 (explore_all 10 2000 p_two (initial_path cfgW) []) (initial_path cfgW, IterDone)).
Definition st2 (k : nat) : exec := fst (run k (init_exec p_two pa_two)).

Example contended_registration_reachable :
  run_obs (contended_reg 1) 2000 (init_exec p_two pa_two) = true /\
  (* main is inside the critical section, holding the lock word *)
  e_active (st2 39) = Some 0 /\ slot (st2 39) 1 = Some (3, 4) /\
  firstn 3 (cont_at (st2 46) 0) = [MArcDecRaw 6; MWakerRelease 1; MBranch 0 ALoad BNever] /\
  option_map mx_lock (get_mutex (st2 46) 1) = Some (Some 0) /\
  (* thread 1's registration is contended: it wakes itself; the slot is unchanged *)
  hd MSkip (cont_at (st2 46) 1) = MBoRegister 0 1 1 5 6 /\
  firstn 5 (cont_at (st2 47) 1) =
    [MBranch 5 AOpaque BNever; MNotifyPost 5; MBranch 6 ARefDec BNever; MArcDecRaw 6; MYield] /\
  slot (st2 47) 1 = Some (3, 4) /\
  flag_of (st2 48) 5 = Some false /\ flag_of (st2 49) 5 = Some true /\
  (* its next wait does not block and it polls again *)
  hd MSkip (cont_at (st2 60) 1) = MNotifyWait1 5 /\
  firstn 3 (cont_at (st2 61) 1) = [MBranch 5 AOpaque BNever; MNotifyWait2 5; MBoPoll 0 1 1 5 6] /\
  hd MSkip (cont_at (st2 63) 1) = MBoPoll 0 1 1 5 6.
Proof. vm_compute. repeat split; reflexivity. Qed.

(* W3: two tasks on ONE AtomicWaker.  main registers (4, 5) and blocks; thread 1
   registers (6, 7), which DROPS main's waker; thread 2 stores and wakes twice:
   the first wake notifies 6, the second finds the slot empty; thread 1
   returns, main blocks for ever.  "The most recently registered waker" is
   meant literally (tokio's AtomicWaker is a single-task cell). *)
Definition p_shared : prog := mkProg cfgW [DAtomic 0; DWaker]
  [[ISpawn 1; ISpawn 2; IBlockOn 0 1 1; IJoin 1; IJoin 2]; [IBlockOn 0 1 1];
   [IStore 0 1 SeqCst; IWake 1; IWake 1]].
Definition st3 (k : nat) : exec := fst (run k (init_exec p_shared (initial_path cfgW))).

Example two_tasks_one_waker_deadlock :
  snd (fst (check 100 2000 p_shared)) = RunPanic (PanicDeadlock [Blocked; Terminated; Terminated]) /\
  slot (st3 26) 1 = Some (4, 5) /\ hd MSkip (cont_at (st3 26) 1) = MBoRegister 0 1 1 6 7 /\
  slot (st3 27) 1 = Some (6, 7) /\ firstn 2 (cont_at (st3 27) 1) = [MBranch 5 ARefDec BNever; MArcDecRaw 5] /\
  hd MSkip (cont_at (st3 39) 2) = MWakeTake 1 true /\
  firstn 2 (cont_at (st3 40) 2) = [MBranch 6 AOpaque BNever; MNotifyPost 6] /\
  hd MSkip (cont_at (st3 47) 2) = MWakeTake 1 true /\ slot (st3 47) 1 = None /\
  hd MSkip (cont_at (st3 48) 2) = MReleaseAll /\
  hd MSkip (cont_at (st3 59) 1) = MBoDone 6 7 /\
  hd MSkip (cont_at (st3 70) 0) = MNotifyWait2 4 /\ flag_of (st3 70) 4 = Some false.
Proof. vm_compute. repeat split; reflexivity. Qed.

Print Assumptions exec_micro_fk.
Print Assumptions register_success_effect.
Print Assumptions waker_release_effect.
Print Assumptions register_contended_effect.
Print Assumptions register_contended_iff.
Print Assumptions register_contended_next_wait_not_blocking.
Print Assumptions take_effect.
Print Assumptions wake_take_effect.
Print Assumptions take_waker_effect.
Print Assumptions take_fails_while_locked.
Print Assumptions register_success_needs_declared.
Print Assumptions slot_step.
Print Assumptions others_cont_step.
Print Assumptions wake_wakes_latest.
Print Assumptions slot_is_latest_registration.
Print Assumptions slot_empty_after_take.
Print Assumptions slot_unchanged_without_event.
Print Assumptions wake_notifies_latest.
Print Assumptions steps_wsteps.
Print Assumptions quiet_steps_keep_slot.
Print Assumptions wake_in_flight_or_delivered.
Print Assumptions delivered_wait1_not_blocking.
Print Assumptions delivered_wait2_succeeds.
Print Assumptions registered_then_woken_not_lost.
Print Assumptions register_cs_frozen.
Print Assumptions contended_holder.
Print Assumptions wake_during_registration_b.
Print Assumptions wake_during_registration_b_not_lost.
Print Assumptions wake_during_registration_a.
Print Assumptions repoll_only_after_wake.
Print Assumptions block_on_returns_when_ready.
Print Assumptions wait2_needs_flag.
Print Assumptions poll_lines_step.
Print Assumptions poll_logs_one_line.
Print Assumptions wake_after_registration_finishes.
Print Assumptions nobody_wakes_deadlock.
Print Assumptions wake_never_lost_exhaustive.
Print Assumptions wake_blocked_during_registration_reachable.
Print Assumptions contended_registration_reachable.
Print Assumptions two_tasks_one_waker_deadlock.
