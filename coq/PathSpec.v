(* Specification vocabulary for the properties about the decision stack
   (C13, C14, C15, C19): what an iteration may do to the path, the exploration
   loop over an arbitrary well-behaved iteration, decision sequences.
   Definitions only; the theorems are in PathFacts.v / Props. *)
Require Import LV.Base LV.Path.

(* ---- what one iteration may do to the stack ---- *)

(* backtrack marks: Skip -> Pending *)
Definition ext_t (t t' : tstat) : Prop := t' = t \/ (t = Skip /\ t' = Pending).

Inductive ext : entry -> entry -> Prop :=
  | ext_same e : ext e e
  | ext_sched s th' :
      s_ex s = true ->
      Forall2 ext_t (s_threads s) th' ->
      ext (ESched s) (ESched (mkSched (s_pre s) (s_ia s) th' (s_prev s) (s_ex s))).

Definition wf_entry (e : entry) : Prop :=
  match e with
  | ESched s => length (s_threads s) = MAX_THREADS
  | ELoad l => length (l_vals l) <= MAX_ATOMIC_HISTORY
  | ESpur _ => True
  end.

Definition wf_path (p : path) : Prop :=
  Forall wf_entry (branches p) /\ length (branches p) <= cap p.

(* [p'] is what the path may look like after running code that only uses the
   Path API on [p]: old entries kept in place (possibly with backtrack marks),
   new entries appended, configuration untouched *)
Definition extends (p p' : path) : Prop :=
  bound p' = bound p /\ cap p' = cap p /\ eos p' = eos p /\
  exists old new,
    branches p' = old ++ new /\ Forall2 ext (branches p) old.

(* an abstract iteration: any function on paths that behaves like that *)
Definition iter_ok (it : path -> path) : Prop :=
  forall p, wf_path p -> extends p (it p) /\ wf_path (it p).

(* ---- the exploration loop of Builder::check over an abstract iteration ---- *)
(* the list of end-of-iteration paths, at most [n] of them *)
Fixpoint explore (it : path -> path) (n : nat) (p : path) : list path :=
  match n with
  | 0 => []
  | S n' =>
      let e := it p in
      e :: match step e with
           | Some p' => explore it n' p'
           | None => []
           end
  end.

(* true iff the loop stops by itself (step returns false) within n iterations *)
Fixpoint finishes (it : path -> path) (n : nat) (p : path) : bool :=
  match n with
  | 0 => false
  | S n' =>
      match step (it p) with
      | Some p' => finishes it n' p'
      | None => true
      end
  end.

(* ---- decisions ---- *)
Inductive choice := CThread (t : option nat) | CLoad (pos : nat) | CSpur (b : bool).

Definition choice_of (e : entry) : choice :=
  match e with
  | ESched s => CThread (active_thread_index s)
  | ELoad l => CLoad (l_pos l)
  | ESpur s => CSpur (p_spur s)
  end.

Definition choices (p : path) : list choice := map choice_of (branches p).

Definition choice_eqb (a b : choice) : bool :=
  match a, b with
  | CThread x, CThread y => opt_nat_eqb x y
  | CLoad x, CLoad y => Nat.eqb x y
  | CSpur x, CSpur y => Bool.eqb x y
  | _, _ => false
  end.

(* two decision sequences part ways: they agree on the first q decisions and
   make different decisions at position q (both have a q-th decision) *)
Definition diverge_at (a b : list choice) (q : nat) : Prop :=
  firstn q a = firstn q b /\
  exists x y, nth_error a q = Some x /\ nth_error b q = Some y /\ x <> y.

(* ---- weights for the termination measure ---- *)
Definition is_skip (t : tstat) := tstat_eqb t Skip.

Definition weight (e : entry) : nat :=
  match e with
  | ESched s =>
      if s_ex s then length (filter (fun t => is_pending t || is_skip t) (s_threads s)) else 0
  | ELoad l => if l_ex l then length (l_vals l) - S (l_pos l) else 0
  | ESpur s => if p_ex s && negb (p_spur s) then 1 else 0
  end.

Definition BASE : nat := 8.   (* every weight is < BASE: MAX_THREADS, MAX_ATOMIC_HISTORY <= 7 *)

(* mixed-radix value of the stack, most significant digit = first entry;
   [rb] is the reversed stack, its head is the last entry *)
Fixpoint mu_rev (c : nat) (rb : list entry) : nat :=
  match rb with
  | [] => 0
  | e :: rest => weight e * BASE ^ (c - S (length rest)) + mu_rev c rest
  end.
Definition mu (p : path) : nat := mu_rev (cap p) (rev (branches p)).

(* ---- preemptions (C15) ---- *)
Definition sched_bound_ok (b : option nat) (e : entry) : Prop :=
  match e, b with
  | ESched s, Some bd => preemptions s <= bd
  | _, _ => True
  end.

(* ---- non-exploring entries (C19) ---- *)
Definition entry_exploring (e : entry) : bool :=
  match e with ESched s => s_ex s | ELoad l => l_ex l | ESpur s => p_ex s end.
