(* The micro-operations: transcription of rt/{mutex,rwlock,condvar,notify,mpsc,
   arc,alloc,cell,atomic}.rs entry points, rt/mod.rs (branch, park, yield_now,
   thread_done, spawn) and of the thin wrappers in sync/*.rs, thread.rs.
   Definitions only. *)
Require Import LV.Base LV.VV LV.Path LV.Prog LV.Objects LV.Exec LV.Atomic.

Definition get_thread (e : exec) (i : nat) : option thread := nth_error (e_threads e) i.

Definition caus_of (e : exec) (me : nat) : vv :=
  match get_thread e me with Some t => t_caus t | None => vv_new end.
Definition rel_of (e : exec) (me : nat) : vv :=
  match get_thread e me with Some t => t_rel t | None => vv_new end.
Definition dpor_of (e : exec) (me : nat) : vv :=
  match get_thread e me with Some t => t_dpor t | None => vv_new end.
Definition set_caus (e : exec) (me : nat) (v : vv) : exec :=
  upd_thread e me (fun t => th_set_caus t v).

(* rt::synchronize: bump the active thread's own component *)
Definition causality_inc (e : exec) (me : nat) : exec :=
  upd_thread e me (fun t => th_set_caus t (vv_inc (t_caus t) me)).

Definition push_cont (e : exec) (me : nat) (ms : list micro) : exec :=
  upd_thread e me (fun t => th_set_cont t (ms ++ t_cont t)).

Definition log_op (e : exec) (me : nat) (r : result) : exec :=
  match get_thread e me with
  | Some t => ex_set_log e (LOp (t_body t) (t_pc t) r :: e_log e)
  | None => e
  end.

Definition hobj_default : hobj := mkHobj 0%N [] false [] false false None.
Definition get_h (e : exec) (i : nat) : hobj := nth i (e_h e) hobj_default.

Definition ho_set_cell (h : hobj) (v : N) := mkHobj v (ho_q h) (ho_rx h) (ho_slots h) (ho_track h) (ho_waiting h) (ho_waker h).
Definition ho_set_q (h : hobj) (q : list N) := mkHobj (ho_cell h) q (ho_rx h) (ho_slots h) (ho_track h) (ho_waiting h) (ho_waker h).
Definition ho_set_rx (h : hobj) (b : bool) := mkHobj (ho_cell h) (ho_q h) b (ho_slots h) (ho_track h) (ho_waiting h) (ho_waker h).
Definition ho_set_slots (h : hobj) (s : list bool) := mkHobj (ho_cell h) (ho_q h) (ho_rx h) s (ho_track h) (ho_waiting h) (ho_waker h).
Definition ho_set_track (h : hobj) (b : bool) := mkHobj (ho_cell h) (ho_q h) (ho_rx h) (ho_slots h) b (ho_waiting h) (ho_waker h).
Definition ho_set_waiting (h : hobj) (b : bool) := mkHobj (ho_cell h) (ho_q h) (ho_rx h) (ho_slots h) (ho_track h) b (ho_waker h).
Definition ho_set_waker (h : hobj) (w : option (nat * nat)) := mkHobj (ho_cell h) (ho_q h) (ho_rx h) (ho_slots h) (ho_track h) (ho_waiting h) w.

(* threads other than [me] whose pending operation is on object [obj] *)
Definition pending_on (obj : nat) (t : thread) : bool :=
  match t_op t with Some op => Nat.eqb (op_obj op) obj | None => false end.
Definition pending_on_act (obj : nat) (a : action) (t : thread) : bool :=
  match t_op t with Some op => Nat.eqb (op_obj op) obj && action_eqb (op_act op) a | None => false end.

Definition map_others (e : exec) (me : nat) (p : thread -> bool) (f : thread -> thread) : exec :=
  ex_set_threads e (mapi (fun id t => if negb (Nat.eqb id me) && p t then f t else t) (e_threads e)).

(* Set::unpark(id) *)
Definition threads_unpark (e : exec) (me : nat) (id : nat) : exec :=
  if Nat.eqb id me then upd_thread e me set_unparked
  else let c := caus_of e me in upd_thread e id (fun t => thread_unpark t c).

(* ---- branch: set the operation, maybe block, schedule ---- *)
Definition block_now (e : exec) (obj : nat) (blk : blockcond) : bool :=
  match blk, nth_error (e_objects e) obj with
  | BNever, _ => false
  | BAlways, _ => true
  | BMutexLocked, Some (OMutex s) => is_some (mx_lock s)
  | BRwWrite, Some (ORwLock s) => match rw_lock s with Some (RLWrite _) => true | _ => false end
  | BRwAny, Some (ORwLock s) => is_some (rw_lock s)
  | BChanEmpty, Some (OChannel s) => Nat.eqb (ch_cnt s) 0
  | _, _ => false
  end.

Definition do_branch (e : exec) (me : nat) (obj : nat) (act : action) (blk : blockcond) : mres :=
  let blocked := block_now e obj blk in
  let e := upd_thread e me (fun t =>
             let t := th_set_op t (Some (mkOp obj act)) in
             if blocked then set_blocked t else t) in
  fst (schedule e).

(* rt::park *)
Definition do_park (e : exec) (me : nat) : mres :=
  match get_thread e me with
  | None => MFail e (PanicModel 10)
  | Some t =>
      if t_token t then MOk (upd_thread e me (fun t => th_set_token t false))
      else fst (schedule (upd_thread e me (fun t => th_set_op (set_blocked t) None)))
  end.

(* rt::yield_now *)
Definition do_yield (e : exec) (me : nat) : mres :=
  fst (schedule (upd_thread e me (fun t => th_set_op (set_yield me t) None))).

(* ---- mutex ---- *)
Definition get_mutex (e : exec) (m : nat) : option mutex_state :=
  match nth_error (e_objects e) m with Some (OMutex s) => Some s | _ => None end.

(* Mutex::post_acquire *)
Definition post_acquire (e : exec) (me m : nat) : exec * bool :=
  match get_mutex e m with
  | None => (e, false)
  | Some s =>
      if is_some (mx_lock s) then (e, false)
      else
        let e := upd_object e m (fun _ => OMutex (mkMutex (mx_seqcst s) (Some me) (mx_last s) (mx_sync s))) in
        let e := set_caus e me (sync_load (caus_of e me) (mx_sync s) Acquire) in
        (map_others e me (fun t => pending_on m t && negb (pending_on_act m AOpaqueTry t)) set_blocked, true)
  end.

(* Mutex::release_lock *)
Definition release_lock (e : exec) (me m : nat) : exec :=
  match get_mutex e m with
  | None => e
  | Some s =>
      let e := upd_object e m (fun _ => OMutex (mkMutex (mx_seqcst s) None (mx_last s) (mx_sync s))) in
      match e_active e with
      | None => e
      | Some _ =>
          let sy := sync_store (mx_sync s) (caus_of e me) (rel_of e me) Release in
          (* the release is a DPOR access made at the releasing thread's most recent branch point *)
          let acc := Some (mkAccess (pos (e_path e) - 1) (dpor_of e me)) in
          let e := upd_object e m (fun _ => OMutex (mkMutex (mx_seqcst s) None acc sy)) in
          map_others e me (pending_on m) set_runnable
      end
  end.

(* ---- rwlock ---- *)
Definition get_rw (e : exec) (r : nat) : option rwlock_state :=
  match nth_error (e_objects e) r with Some (ORwLock s) => Some s | _ => None end.

Fixpoint set_insert (x : nat) (l : list nat) : list nat :=
  match l with
  | [] => [x]
  | h :: t => if Nat.eqb h x then l else h :: set_insert x t
  end.
Definition set_remove (x : nat) (l : list nat) : list nat := filter (fun y => negb (Nat.eqb y x)) l.

Definition post_acquire_read (e : exec) (me r : nat) : exec * bool :=
  match get_rw e r with
  | None => (e, false)
  | Some s =>
      match rw_lock s with
      | Some (RLWrite _) => (e, false)
      | lk =>
          let readers := match lk with Some (RLRead rs) => set_insert me rs | _ => [me] end in
          let e := upd_object e r (fun _ => ORwLock (mkRw (Some (RLRead readers)) (rw_last s) (rw_sync s))) in
          let e := set_caus e me (sync_load (caus_of e me) (rw_sync s) Acquire) in
          (map_others e me (pending_on_act r AWrite) set_blocked, true)
      end
  end.

Definition post_acquire_write (e : exec) (me r : nat) : exec * bool :=
  match get_rw e r with
  | None => (e, false)
  | Some s =>
      match rw_lock s with
      | Some _ => (e, false)
      | None =>
          let e := upd_object e r (fun _ => ORwLock (mkRw (Some (RLWrite me)) (rw_last s) (rw_sync s))) in
          let e := set_caus e me (sync_load (caus_of e me) (rw_sync s) Acquire) in
          (map_others e me (fun t => pending_on r t && negb (pending_on_act r ATryRead t)
                                             && negb (pending_on_act r ATryWrite t)) set_blocked, true)
      end
  end.

Definition release_read (e : exec) (me r : nat) : mres :=
  match get_rw e r with
  | None => MFail e (PanicModel 11)
  | Some s =>
      let sy := sync_store (rw_sync s) (caus_of e me) (rel_of e me) Release in
      let acc := Some (mkAccess (pos (e_path e) - 1) (dpor_of e me)) in
      match rw_lock s with
      | Some (RLRead rs) =>
          let rs' := set_remove me rs in
          match rs' with
          | [] =>
              let e := upd_object e r (fun _ => ORwLock (mkRw None acc sy)) in
              MOk (map_others e me (pending_on r) set_runnable)
          | _ => MOk (upd_object e r (fun _ => ORwLock (mkRw (Some (RLRead rs')) acc sy)))
          end
      | _ => MFail e PanicRwInvalid
      end
  end.

Definition release_write (e : exec) (me r : nat) : mres :=
  match get_rw e r with
  | None => MFail e (PanicModel 11)
  | Some s =>
      let sy := sync_store (rw_sync s) (caus_of e me) (rel_of e me) Release in
      let acc := Some (mkAccess (pos (e_path e) - 1) (dpor_of e me)) in
      let e := upd_object e r (fun _ => ORwLock (mkRw None acc sy)) in
      MOk (map_others e me (pending_on r) set_runnable)
  end.

(* ---- guards held by a thread (the harness's Vec<Guard>) ---- *)
Fixpoint remove_last_guard (g : list (gkind * nat)) (k : gkind) (m : nat) : option (list (gkind * nat)) :=
  match g with
  | [] => None
  | (k', m') :: t =>
      match remove_last_guard t k m with
      | Some t' => Some ((k', m') :: t')
      | None => if gkind_eqb k k' && Nat.eqb m m' then Some t else None
      end
  end.

Definition holds_guard (e : exec) (me : nat) (k : gkind) (m : nat) : bool :=
  match get_thread e me with
  | Some t => existsb (fun g => gkind_eqb (fst g) k && Nat.eqb (snd g) m) (t_guards t)
  | None => false
  end.
Definition push_guard (e : exec) (me : nat) (k : gkind) (m : nat) : exec :=
  upd_thread e me (fun t => th_set_guards t (t_guards t ++ [(k, m)])).
Definition drop_guard (e : exec) (me : nat) (k : gkind) (m : nat) : exec :=
  upd_thread e me (fun t =>
    match remove_last_guard (t_guards t) k m with
    | Some g => th_set_guards t g
    | None => t
    end).

(* ---- notify ---- *)
Definition get_notify (e : exec) (n : nat) : option notify_state :=
  match nth_error (e_objects e) n with Some (ONotify s) => Some s | _ => None end.
Definition nt_set (s : notify_state) (did notified : bool) (sy : vv) : notify_state :=
  mkNotify (nt_spurious s) did (nt_seqcst s) notified (nt_last s) sy.

(* ---- channel ---- *)
Definition get_chan (e : exec) (h : nat) : option chan_state :=
  match nth_error (e_objects e) h with Some (OChannel s) => Some s | _ => None end.

(* ---- arc ---- *)
Definition get_arc (e : exec) (k : nat) : option arc_state :=
  match nth_error (e_objects e) k with Some (OArc s) => Some s | _ => None end.
Definition arc_set (s : arc_state) (cnt : nat) (sy : vv) : arc_state :=
  mkArc cnt sy (arc_last_inc s) (arc_last_dec s) (arc_last_inspect s).

Definition get_atomic (e : exec) (a : nat) : option atomic_state :=
  match nth_error (e_objects e) a with Some (OAtomic s) => Some s | _ => None end.
Definition get_cell (e : exec) (u : nat) : option cell_state :=
  match nth_error (e_objects e) u with Some (OCell s) => Some s | _ => None end.

Definition slot_present (e : exec) (k i : nat) : bool := nth i (ho_slots (get_h e k)) false.
Definition set_slot (e : exec) (k i : nat) (b : bool) : exec :=
  upd_hobj e k (fun h => ho_set_slots h (list_set (ho_slots h) i b)).

Definition body_tid (e : exec) (b : nat) : option nat :=
  match b with
  | 0 => Some 0
  | _ => match nth b (e_spawned e) None with Some (tid, _) => Some tid | None => None end
  end.

Definition rmw_fun (k : rmwkind) : N -> option N :=
  match k with
  | KOp f v => fun x => Some (apply_rmw f x v)
  | KCas ex nw => fun x => if N.eqb x ex then Some nw else None
  | KFu f v prev => fun x => if N.eqb x prev then Some (apply_rmw f prev v) else None
  end.

(* the load/rmw prologue shared by Atomic::load and Atomic::rmw:
   push a Load entry if the path is traversed, then take the branch *)
Definition choose_store (e : exec) (seed : option (list nat)) : exec * (nat + panic) :=
  let r :=
    if is_traversed (e_path e) then
      match seed with
      | None => inr PanicMoEq
      | Some sd => match push_load (e_path e) sd with
                   | POk p => inl p
                   | PErr x => inr (PanicPath x)
                   end
      end
    else inl (e_path e) in
  match r with
  | inr p => (e, inr p)
  | inl p =>
      match branch_load p with
      | POk (p', idx) => (ex_set_path e p', inl idx)
      | PErr x => (e, inr (PanicPath x))
      end
  end.

(* Atomic::load after its branch point, shared by the plain load and by the
   polls of block_on: returns the new state and the value read *)
Definition load_post (e : exec) (me a : nat) (o : ord) : (exec * N) + (exec * panic) :=
  let e := causality_inc e me in
  match get_atomic e a, get_thread e me with
  | Some s, Some t =>
      let seed := match_load_to_stores s me (t_caus t) (t_last_yield t) o in
      match choose_store e seed with
      | (e, inr p) => inr (e, p)
      | (e, inl idx) =>
          match atomic_load s me (t_caus t) idx o with
          | inr p => inr (e, p)
          | inl (s', caus', v) =>
              inl (set_caus (upd_object e a (fun _ => OAtomic s')) me caus', v)
          end
      end
  | _, _ => inr (e, PanicModel 16)
  end.

(* the std::sync::RwLock inside sync::RwLock: its guards are the (multi)set of
   guard entries of all threads; rt::RwLock keeps readers as a set, so the two
   can disagree after a recursive read, and the wrapper's try_read / try_write
   `expect("loom::RwLock state corrupt")` then fails *)
Definition any_guard (e : exec) (k : gkind) (r : nat) : bool :=
  existsb (fun t => existsb (fun g => gkind_eqb (fst g) k && Nat.eqb (snd g) r) (t_guards t)) (e_threads e).

(* the body of a thread that was handed a waker (Notify n, Arc k) when it was
   spawned: its first wake() uses it, otherwise it is dropped with the closure *)
Fixpoint subst_waker (n k : nat) (used : bool) (c : list micro) : list micro :=
  match c with
  | [] => []
  | MWakeMine :: t => if used then MWakeMine :: subst_waker n k used t
                      else MWakeMineW n k :: subst_waker n k true t
  | MDropMyWaker :: t => (if used then MDropMyWaker else MDropWakerW n k) :: subst_waker n k true t
  | m :: t => m :: subst_waker n k used t
  end.

Definition log_poll (e : exec) (me : nat) : exec :=
  match get_thread e me with
  | Some t => ex_set_log e (LPoll (t_body t) (t_pc t) :: e_log e)
  | None => e
  end.

Definition exec_micro (e : exec) (me : nat) (m : micro) : mres :=
  match m with
  | MBegin pc => MOk (upd_thread e me (fun t => th_set_pc t pc))
  | MLog r => MOk (log_op e me r)

  | MSpawn b =>
      (* thread::spawn: Notify::new(true,false); rt::spawn -> new_thread *)
      let nidx := length (e_objects e) in
      let e := ex_set_objects e (e_objects e ++ [ONotify (mkNotify false false true false None vv_new)]) in
      if negb (Nat.ltb (length (e_threads e)) (e_max_threads e)) then MFail e PanicMaxThreads
      else
        let tid := length (e_threads e) in
        let pc := caus_of e me in
        let pd := match get_thread e me with Some t => t_dpor t | None => vv_new end in
        let body := nth b (e_bodies e) [] in
        let nt := thread_new b body in
        let nt := th_set_dpor (th_set_caus nt (vv_inc (vv_join (t_caus nt) pc) tid)) (vv_join (t_dpor nt) pd) in
        let e := ex_set_threads e (e_threads e ++ [nt]) in
        let e := causality_inc e me in
        let e := ex_set_spawned e (list_set (e_spawned e) b (Some (tid, nidx))) in
        MOk (log_op e me RUnit)

  | MBranch obj act blk => do_branch e me obj act blk

  | MJoin b =>
      match nth b (e_spawned e) None, nth b (e_joined e) true with
      | Some (_, nidx), false =>
          let e := ex_set_joined e (list_set (e_joined e) b true) in
          MOk (push_cont e me [MNotifyWait1 nidx; MLog RUnit])
      | _, _ => MFail e (PanicModel 12)
      end

  | MNotifyWait1 n =>
      match get_notify e n with
      | None => MFail e (PanicModel 13)
      | Some s =>
          let might := nt_spurious s && negb (nt_did_spur s) in
          let r := if might then
                     match branch_spurious (e_path e) with
                     | POk (p, sp) => inl (ex_set_path e p, sp)
                     | PErr x => inr (PanicPath x)
                     end
                   else inl (e, false) in
          match r with
          | inr p => MFail e p
          | inl (e, spur) =>
              let e := if spur
                       then upd_object e n (fun _ => ONotify (nt_set s true (nt_notified s) (nt_sync s)))
                       else e in
              if spur then MOk (push_cont e me [MYield])
              else MOk (push_cont e me
                          [MBranch n AOpaque (if nt_notified s then BNever else BAlways);
                           MNotifyWait2 n])
          end
      end

  | MNotifyWait2 n =>
      match get_notify e n with
      | None => MFail e (PanicModel 13)
      | Some s =>
          if negb (nt_notified s) then MFail e PanicNotified
          else
            let e := set_caus e me (sync_load (caus_of e me) (nt_sync s) Acquire) in
            MOk (upd_object e n (fun _ => ONotify (nt_set s (nt_did_spur s) false (nt_sync s))))
      end

  | MNotifyPost n =>
      match get_notify e n with
      | None => MFail e (PanicModel 13)
      | Some s =>
          let sy := sync_store (nt_sync s) (caus_of e me) (rel_of e me) Release in
          let e := upd_object e n (fun _ => ONotify (nt_set s (nt_did_spur s) true sy)) in
          let c := caus_of e me in
          MOk (map_others e me (pending_on n) (fun t => thread_notified t c))
      end

  | MExitNotify =>
      match get_thread e me with
      | None => MFail e (PanicModel 14)
      | Some t =>
          match nth (t_body t) (e_spawned e) None with
          | Some (_, nidx) => MOk (push_cont e me [MBranch nidx AOpaque BNever; MNotifyPost nidx])
          | None => MFail e (PanicModel 15)
          end
      end

  | MLoadPost a o aw =>
      let e := causality_inc e me in
      match get_atomic e a, get_thread e me with
      | Some s, Some t =>
          let seed := match_load_to_stores s me (t_caus t) (t_last_yield t) o in
          match choose_store e seed with
          | (e, inr p) => MFail e p
          | (e, inl idx) =>
              match atomic_load s me (t_caus t) idx o with
              | inr p => MFail e p
              | inl (s', caus', v) =>
                  let e := upd_object e a (fun _ => OAtomic s') in
                  let e := set_caus e me caus' in
                  let e := log_op e me (RVal v) in
                  match aw with
                  | None => MOk e
                  | Some want =>
                      if N.eqb v want then MOk e
                      else MOk (push_cont e me [MYield; MBranch a ALoad BNever; MLoadPost a o aw])
                  end
              end
          end
      | _, _ => MFail e (PanicModel 16)
      end

  | MFuLoadPost a f v so fo =>
      let e := causality_inc e me in
      match get_atomic e a, get_thread e me with
      | Some s, Some t =>
          let seed := match_load_to_stores s me (t_caus t) (t_last_yield t) fo in
          match choose_store e seed with
          | (e, inr p) => MFail e p
          | (e, inl idx) =>
              match atomic_load s me (t_caus t) idx fo with
              | inr p => MFail e p
              | inl (s', caus', prev) =>
                  let e := upd_object e a (fun _ => OAtomic s') in
                  let e := set_caus e me caus' in
                  MOk (push_cont e me [MBranch a ARmw BNever; MRmwPost a (KFu f v prev) so fo])
              end
          end
      | _, _ => MFail e (PanicModel 16)
      end

  | MStorePost a v o =>
      let e := causality_inc e me in
      match get_atomic e a, get_thread e me with
      | Some s, Some t =>
          match track_store s (t_caus t) with
          | inr p => MFail e p
          | inl s1 =>
              let s2 := atomic_store s1 me (t_caus t) (t_rel t) vv_new v o in
              MOk (log_op (upd_object e a (fun _ => OAtomic s2)) me RUnit)
          end
      | _, _ => MFail e (PanicModel 16)
      end

  | MRmwPost a k so fo =>
      let e := causality_inc e me in
      match get_atomic e a, get_thread e me with
      | Some s, Some t =>
          match choose_store e (match_rmw_to_stores s) with
          | (e, inr p) => MFail e p
          | (e, inl idx) =>
              match atomic_rmw s me (t_caus t) (t_rel t) idx so fo (rmw_fun k) with
              | inr p => MFail e p
              | inl (s', caus', prev, ok) =>
                  let e := upd_object e a (fun _ => OAtomic s') in
                  let e := set_caus e me caus' in
                  match k with
                  | KOp _ _ => MOk (log_op e me (RVal prev))
                  | KCas _ _ => MOk (log_op e me (if ok then ROk prev else RErr prev))
                  | KFu f v _ =>
                      if ok then MOk (log_op e me (ROk prev))
                      else MOk (push_cont e me [MBranch a ARmw BNever; MRmwPost a (KFu f v prev) so fo])
                  end
              end
          end
      | _, _ => MFail e (PanicModel 16)
      end

  | MFence o =>
      match o with
      | Relaxed => MFail (causality_inc e me) PanicRelaxedFence
      | _ =>
          let e := causality_inc e me in
          let e := if ord_acq o then set_caus e me (fence_acq (e_objects e) me (caus_of e me)) else e in
          let e := if ord_rel o then upd_thread e me (fun t => th_set_rel t (t_caus t)) else e in
          let e := if is_seq_cst o then
                     let c := vv_join (caus_of e me) (e_seqcst e) in
                     let e := set_caus e me c in
                     ex_set_seqcst e (vv_join (e_seqcst e) c)
                   else e in
          MOk (log_op e me RUnit)
      end

  | MLockPost mx mode =>
      let '(e, ok) := post_acquire e me mx in
      match mode with
      | LMLock => if ok then MOk (log_op (push_guard e me GMutex mx) me RUnit) else MFail e PanicExpectLock
      | LMReacquire => if ok then MOk (log_op e me RUnit) else MFail e PanicExpectLock
      | LMTry => MOk (log_op (if ok then push_guard e me GMutex mx else e) me (RBool ok))
      end

  | MUnlock mx =>
      if holds_guard e me GMutex mx
      then MOk (log_op (release_lock (drop_guard e me GMutex mx) me mx) me RUnit)
      else MOk (log_op e me RX)

  | MReadPost r try =>
      let '(e, ok) := post_acquire_read e me r in
      if ok && any_guard e GWrite r then MFail e PanicRwCorrupt
      else if try then MOk (log_op (if ok then push_guard e me GRead r else e) me (RBool ok))
      else if ok then MOk (log_op (push_guard e me GRead r) me RUnit) else MFail e PanicExpectRead

  | MWritePost r try =>
      let '(e, ok) := post_acquire_write e me r in
      if ok && (any_guard e GRead r || any_guard e GWrite r) then MFail e PanicRwCorrupt
      else if try then MOk (log_op (if ok then push_guard e me GWrite r else e) me (RBool ok))
      else if ok then MOk (log_op (push_guard e me GWrite r) me RUnit) else MFail e PanicExpectWrite

  | MUnread r =>
      if holds_guard e me GRead r
      then mbind (release_read (drop_guard e me GRead r) me r) (fun e => MOk (log_op e me RUnit))
      else MOk (log_op e me RX)

  | MUnwrite r =>
      if holds_guard e me GWrite r
      then mbind (release_write (drop_guard e me GWrite r) me r) (fun e => MOk (log_op e me RUnit))
      else MOk (log_op e me RX)

  | MWait c mx =>
      if holds_guard e me GMutex mx
      then MOk (push_cont e me [MBranch c AOpaque BNever; MCvWait c mx; MPark;
                                MBranch mx AOpaque BMutexLocked; MLockPost mx LMReacquire])
      else MOk (log_op e me RX)

  | MCvWait c mx =>
      match nth_error (e_objects e) c with
      | Some (OCondvar s) =>
          let e := upd_object e c (fun _ => OCondvar (mkCv (cv_last s) (cv_waiters s ++ [me]))) in
          MOk (release_lock e me mx)
      | _ => MFail e (PanicModel 17)
      end

  | MPark => do_park e me

  | MCvNotify c all =>
      match nth_error (e_objects e) c with
      | Some (OCondvar s) =>
          if all then
            let e := upd_object e c (fun _ => OCondvar (mkCv (cv_last s) [])) in
            MOk (log_op (fold_left (fun e t => threads_unpark e me t) (cv_waiters s) e) me RUnit)
          else
            match cv_waiters s with
            | [] => MOk (log_op e me RUnit)
            | w :: rest =>
                let e := upd_object e c (fun _ => OCondvar (mkCv (cv_last s) rest)) in
                MOk (log_op (threads_unpark e me w) me RUnit)
            end
      | _ => MFail e (PanicModel 17)
      end

  | MUnpark b =>
      match body_tid e b with
      | Some tid => MOk (log_op (threads_unpark e me tid) me RUnit)
      | None => MFail e (PanicModel 18)
      end

  | MSendPost h v =>
      match get_chan e h with
      | None => MFail e (PanicModel 19)
      | Some s =>
          let cnt := S (ch_cnt s) in
          let ss := sync_store (ch_sender_sync s) (caus_of e me) (rel_of e me) Release in
          let e := upd_object e h (fun _ => OChannel (mkChan cnt (ch_last_send s) (ch_last_recv s) ss (ch_recv_sync s ++ [ss]) (ch_last_try_recv s))) in
          let e := if Nat.eqb cnt 1 then map_others e me (pending_on h) set_runnable else e in
          let rx := ho_rx (get_h e h) in
          (* the std send: with the receiver gone the message comes back to the sender and the
             wrapper undoes the bookkeeping (Channel::undo_send): count and per-message view *)
          let e := if rx then upd_hobj e h (fun ho => ho_set_q ho (ho_q ho ++ [v]))
                   else upd_object e h (fun _ => OChannel (mkChan (ch_cnt s) (ch_last_send s) (ch_last_recv s) ss
                                                                  (ch_recv_sync s) (ch_last_try_recv s))) in
          MOk (log_op e me (if rx then RUnit else RDisc))
      end

  | MRecv h =>
      if ho_rx (get_h e h)
      then MOk (push_cont e me [MBranch h ARecv BChanEmpty; MRecvPost h true])
      else MOk (log_op e me RX)

  | MRecvPost h lg =>
      match get_chan e h with
      | None => MFail e (PanicModel 19)
      | Some s =>
          match ch_cnt s, ch_recv_sync s with
          | S cnt, sy :: rest =>
              let e := upd_object e h (fun _ => OChannel (mkChan cnt (ch_last_send s) (ch_last_recv s) (ch_sender_sync s) rest (ch_last_try_recv s))) in
              let e := set_caus e me (sync_load (caus_of e me) sy Acquire) in
              let e := if Nat.eqb cnt 0 then map_others e me (pending_on_act h ARecv) set_blocked else e in
              match ho_q (get_h e h) with
              | v :: q =>
                  let e := upd_hobj e h (fun ho => ho_set_q ho q) in
                  MOk (if lg then log_op e me (RVal v) else e)
              | [] => MFail e (PanicModel 20)
              end
          | _, _ => MFail e PanicExpectMsg
          end
      end

  | MTryRecv h =>
      (* Receiver::try_recv: branch (never disabled), then look at the queue *)
      if negb (ho_rx (get_h e h)) then MOk (log_op e me RX)
      else MOk (push_cont e me [MBranch h ATryRecv BNever; MTryRecvPost h])

  | MTryRecvPost h =>
      match get_chan e h with
      | None => MFail e (PanicModel 19)
      | Some s =>
          if Nat.eqb (ch_cnt s) 0 then MOk (log_op e me REmpty)
          else MOk (push_cont e me [MRecvPost h true])
      end

  | MDropRx h =>
      (* Receiver::drop: `while !is_empty { recv }` ; the queue itself dies with it *)
      if negb (ho_rx (get_h e h)) then MOk (log_op e me RX)
      else match get_chan e h with
           | None => MFail e (PanicModel 19)
           | Some s =>
               if Nat.eqb (ch_cnt s) 0
               then MOk (log_op (upd_hobj e h (fun ho => ho_set_q (ho_set_rx ho false) [])) me RUnit)
               else MOk (push_cont e me [MBranch h ARecv BChanEmpty; MRecvPost h false; MDropRx h])
           end

  | MCellRead u =>
      let e := causality_inc e me in
      match get_cell e u with
      | None => MFail e (PanicModel 21)
      | Some s =>
          if ce_writing s then MFail e PanicCellWriting
          else match cell_track_read s (caus_of e me) with
               | inr p => MFail e p
               | inl s1 =>
                   (* the Reading guard drops at once: track_read again *)
                   match cell_track_read s1 (caus_of e me) with
                   | inr p => MFail e p
                   | inl s2 => MOk (log_op (upd_object e u (fun _ => OCell s2)) me (RVal (ho_cell (get_h e u))))
                   end
               end
      end

  | MCellNested u k =>
      (* outer access: rt::synchronize (causality_inc), the is_reading / is_writing assertions (they hold:
         the operation starts with no access in progress), tracking; inner access: causality_inc, then its
         assertions, which fail unless both accesses are reads *)
      let e := causality_inc e me in
      match get_cell e u with
      | None => MFail e (PanicModel 21)
      | Some s =>
          if ce_writing s then MFail e PanicCellWriting
          else if negb (Nat.eqb k 0) && negb (Nat.eqb k 3) && negb (Nat.eqb (ce_reading s) 0) then MFail e PanicCellReading
          else
            let outer := if Nat.eqb k 0 || Nat.eqb k 3 then cell_track_read s (caus_of e me)
                         else cell_track_write s (caus_of e me) in
            match outer with
            | inr p => MFail e p
            | inl s1 =>
                let e := causality_inc e me in
                if Nat.eqb k 0 then MFail e PanicCellReading
                else if negb (Nat.eqb k 3) then MFail e PanicCellWriting
                else
                  (* read in read: inner start, inner guard drop, outer guard drop *)
                  match cell_track_read s1 (caus_of e me) with
                  | inr p => MFail e p
                  | inl s2 =>
                      match cell_track_read s2 (caus_of e me) with
                      | inr p => MFail e p
                      | inl s3 =>
                          match cell_track_read s3 (caus_of e me) with
                          | inr p => MFail e p
                          | inl s4 => MOk (log_op (upd_object e u (fun _ => OCell s4)) me (RVal (ho_cell (get_h e u))))
                          end
                      end
                  end
            end
      end

  | MCellWrite u v =>
      let e := causality_inc e me in
      match get_cell e u with
      | None => MFail e (PanicModel 21)
      | Some s =>
          if negb (Nat.eqb (ce_reading s) 0) then MFail e PanicCellReading
          else if ce_writing s then MFail e PanicCellWriting
          else match cell_track_write s (caus_of e me) with
               | inr p => MFail e p
               | inl s1 =>
                   match cell_track_write s1 (caus_of e me) with
                   | inr p => MFail e p
                   | inl s2 =>
                       let e := upd_object e u (fun _ => OCell s2) in
                       MOk (log_op (upd_hobj e u (fun ho => ho_set_cell ho v)) me RUnit)
                   end
               end
      end

  | MYield => do_yield e me

  | MUnsyncLoad a =>
      let e := causality_inc e me in
      match get_atomic e a with
      | None => MFail e (PanicModel 16)
      | Some s =>
          match track_unsync_load s (caus_of e me) with
          | inr p => MFail e p
          | inl s1 =>
              let v := st_value (get_store s1 (aindex (at_cnt s1 - 1))) in
              MOk (log_op (upd_object e a (fun _ => OAtomic s1)) me (RVal v))
          end
      end

  | MWithMut a v =>
      let e := causality_inc e me in
      match get_atomic e a with
      | None => MFail e (PanicModel 16)
      | Some s =>
          match track_unsync_mut s (caus_of e me) with
          | inr p => MFail e p
          | inl s1 =>
              let idx := aindex (at_cnt s1 - 1) in
              let old := st_value (get_store s1 idx) in
              let s2 := at_set_stores s1 (list_upd (at_stores s1) idx (fun x => st_set_value x v)) (at_cnt s1) in
              match track_unsync_mut s2 (caus_of e me) with
              | inr p => MFail e p
              | inl s3 => MOk (log_op (upd_object e a (fun _ => OAtomic s3)) me (RVal old))
              end
          end
      end

  | MArcClone k i j =>
      if slot_present e k i
      then MOk (push_cont e me [MBranch k ARefInc BNever; MArcIncPost k j])
      else MOk (log_op e me RX)

  | MArcIncPost k j =>
      match get_arc e k with
      | None => MFail e (PanicModel 22)
      | Some s =>
          let e := upd_object e k (fun _ => OArc (arc_set s (S (arc_cnt s)) (arc_sync s))) in
          MOk (log_op (set_slot e k j true) me RUnit)
      end

  | MArcDrop k i =>
      if slot_present e k i
      then MOk (push_cont (set_slot e k i false) me [MBranch k ARefDec BNever; MArcDecPost k false])
      else MOk (log_op e me RX)

  | MArcDecPost k unwrap =>
      match get_arc e k with
      | None => MFail e (PanicModel 22)
      | Some s =>
          match arc_cnt s with
          | 0 => MFail e PanicArcReleased
          | S cnt =>
              let sy := sync_store (arc_sync s) (caus_of e me) (rel_of e me) Release in
              let e := upd_object e k (fun _ => OArc (arc_set s cnt sy)) in
              let e := if Nat.eqb cnt 0 then set_caus e me (sync_load (caus_of e me) sy Acquire) else e in
              let e := if Nat.eqb cnt 0 then ex_set_log e (LDrop k :: e_log e) else e in
              (* the harness reports which drop destroyed the value *)
              MOk (log_op e me (if unwrap then RBool true else if Nat.eqb cnt 0 then RVal 1 else RUnit))
          end
      end

  | MArcCount k i =>
      if slot_present e k i
      then MOk (push_cont e me [MBranch k AInspect BNever; MArcCountPost k])
      else MOk (log_op e me RX)

  | MArcCountPost k =>
      match get_arc e k with
      | None => MFail e (PanicModel 22)
      | Some s =>
          if Nat.eqb (arc_cnt s) 0 then MFail e PanicArcReleased
          else
            let e := set_caus e me (sync_load (caus_of e me) (arc_sync s) SeqCst) in
            MOk (log_op e me (RVal (N.of_nat (arc_cnt s))))
      end

  | MArcGetMut k i unwrap =>
      if slot_present e k i
      then MOk (push_cont e me [MBranch k AInspect BNever; MArcGetMutPost k i unwrap])
      else MOk (log_op e me RX)

  | MArcGetMutPost k i unwrap =>
      match get_arc e k with
      | None => MFail e (PanicModel 22)
      | Some s =>
          if Nat.eqb (arc_cnt s) 0 then MFail e PanicArcReleased2
          else
            let e := set_caus e me (sync_load (caus_of e me) (arc_sync s) Acquire) in
            let only := Nat.eqb (arc_cnt s) 1 in
            if unwrap then
              if only
              then MOk (push_cont (set_slot e k i false) me [MBranch k ARefDec BNever; MArcDecPost k true])
              else MOk (log_op e me (RBool false))
            else MOk (log_op e me (RBool only))
      end

  | MTrackDrop k =>
      if ho_track (get_h e k)
      then
        let e := upd_hobj e k (fun ho => ho_set_track ho false) in
        MOk (log_op (upd_object e k (fun _ => OAlloc true)) me RUnit)
      else MOk (log_op e me RX)

  | MPanic => MFail (log_op e me RUnit) PanicUser

  | MExplore =>
      lift_path e (explore_state (e_path e)) (fun p => MOk (log_op (ex_set_path e p) me RUnit))
  | MStop =>
      lift_path e (critical (e_path e)) (fun p => MOk (log_op (ex_set_path e p) me RUnit))
  | MSkip => MOk (log_op (ex_set_path e (skip_branch (e_path e))) me RUnit)

  | MNWaitBegin n =>
      if ho_waiting (get_h e n) then MFail e PanicNotifyWaiter
      else MOk (upd_hobj e n (fun ho => ho_set_waiting ho true))
  | MNWaitEnd n => MOk (log_op (upd_hobj e n (fun ho => ho_set_waiting ho false)) me RUnit)

  | MReleaseAll =>
      match get_thread e me with
      | None => MFail e (PanicModel 23)
      | Some t =>
          match rev (t_guards t) with
          | [] => MOk e
          | (GMutex, mx) :: _ => MOk (push_cont (release_lock (drop_guard e me GMutex mx) me mx) me [MReleaseAll])
          | (GRead, r) :: _ => mbind (release_read (drop_guard e me GRead r) me r) (fun e => MOk (push_cont e me [MReleaseAll]))
          | (GWrite, r) :: _ => mbind (release_write (drop_guard e me GWrite r) me r) (fun e => MOk (push_cont e me [MReleaseAll]))
          end
      end

  | MBlockOn a v w =>
      (* future::block_on: Arc::new(rt::Notify::new(false, true)) -- the Notify first, then the Arc *)
      let n := length (e_objects e) in
      let k := S n in
      let e := ex_set_objects e (e_objects e ++
                 [ONotify (mkNotify true false false false None vv_new);
                  OArc (mkArc 1 vv_new (repeat None MAX_THREADS) None (repeat None MAX_THREADS))]) in
      MOk (push_cont e me [MBoPoll a v w n k])

  | MBoPoll a v w n k =>
      MOk (push_cont (log_poll e me) me [MBranch a ALoad BNever; MBoLoad a v w n k true])

  | MBoLoad a v w n k first =>
      match load_post e me a Acquire with
      | inr (e, p) => MFail e p
      | inl (e, x) =>
          if N.eqb x v then MOk (push_cont e me [MBoDone n k])
          else if first then
            (* AtomicWaker::register_by_ref(cx.waker()): clone the waker, then register *)
            MOk (push_cont e me [MBranch k ARefInc BNever; MArcIncRaw k;
                                 MBranch w AOpaqueTry BNever; MBoRegister a v w n k])
          else
            (* Pending: wait for a wake-up (or the one spurious return), then poll again *)
            MOk (push_cont e me [MNotifyWait1 n; MBoPoll a v w n k])
      end

  | MBoRegister a v w n k =>
      let '(e, ok) := post_acquire e me w in
      let again := [MBranch a ALoad BNever; MBoLoad a v w n k false] in
      if ok then
        let old := ho_waker (get_h e w) in
        let e := upd_hobj e w (fun h => ho_set_waker h (Some (n, k))) in
        match old with
        | Some (_, k') =>
            (* the previously stored waker is dropped while the lock is held *)
            MOk (push_cont e me ([MBranch k' ARefDec BNever; MArcDecRaw k'; MWakerRelease w] ++ again))
        | None => MOk (push_cont e me (MWakerRelease w :: again))
        end
      else
        (* contention: wake ourselves (consumes the clone) and yield *)
        MOk (push_cont e me ([MBranch n AOpaque BNever; MNotifyPost n;
                              MBranch k ARefDec BNever; MArcDecRaw k; MYield] ++ again))

  | MBoDone n k =>
      (* the future is ready: block_on returns, its Arc<Notify> handle is dropped *)
      MOk (push_cont e me [MBranch k ARefDec BNever; MArcDecRaw k; MLog RUnit])

  | MArcIncRaw k =>
      match get_arc e k with
      | None => MFail e (PanicModel 22)
      | Some s => MOk (upd_object e k (fun _ => OArc (arc_set s (S (arc_cnt s)) (arc_sync s))))
      end

  | MArcDecRaw k =>
      match get_arc e k with
      | None => MFail e (PanicModel 22)
      | Some s =>
          match arc_cnt s with
          | 0 => MFail e PanicArcReleased
          | S cnt =>
              let sy := sync_store (arc_sync s) (caus_of e me) (rel_of e me) Release in
              let e := upd_object e k (fun _ => OArc (arc_set s cnt sy)) in
              MOk (if Nat.eqb cnt 0 then set_caus e me (sync_load (caus_of e me) sy Acquire) else e)
          end
      end

  | MWakerRelease w => MOk (release_lock e me w)

  | MWakeTake w wake =>
      (* AtomicWaker::take_waker after its (blocking) branch point, then wake or drop the waker *)
      let '(e, ok) := post_acquire e me w in
      if negb ok then MFail e PanicExpectLock
      else
        let old := ho_waker (get_h e w) in
        let e := upd_hobj e w (fun h => ho_set_waker h None) in
        let e := release_lock e me w in
        match old with
        | None => MOk (log_op e me (if wake then RUnit else RVal 0))
        | Some (n, k) =>
            if wake
            then MOk (push_cont e me [MBranch n AOpaque BNever; MNotifyPost n;
                                      MBranch k ARefDec BNever; MArcDecRaw k; MLog RUnit])
            else MOk (push_cont e me [MBranch k ARefDec BNever; MArcDecRaw k; MLog (RVal 1)])
        end

  | MTlsWith k =>
      (* LocalKey::try_with: initialise on first use by this thread; no rt effect *)
      match get_thread e me with
      | None => MFail e (PanicModel 24)
      | Some t =>
          if existsb (Nat.eqb k) (t_tls t) then MOk (log_op e me RUnit)
          else
            let e := ex_set_log e (LInitTls k (t_body t) :: e_log e) in
            MOk (log_op (upd_thread e me (fun t => th_set_tls t (t_tls t ++ [k]))) me RUnit)
      end

  | MLazyGet k =>
      (* Lazy::get followed by a read of the cell inside the value *)
      match e_lazy e with
      | None => MFail e PanicLazyShutdown
      | Some lz =>
          let found := find (fun x => Nat.eqb (fst x) k) lz in
          let r :=
            match found with
            | Some (_, (ci, sy)) =>
                (* try_get: sync_load Acquire *)
                inl (set_caus e me (sync_load (caus_of e me) sy Acquire), ci)
            | None =>
                (* init(): a new cell, written by the initialiser; then registered with sync_store AcqRel *)
                let e := ex_set_log e (LInitLazy k :: e_log e) in
                let ci := length (e_objects e) in
                let e := ex_set_objects e (e_objects e ++ [OCell (cell_new (caus_of e me))]) in
                let e := causality_inc e me in
                match get_cell e ci with
                | None => inr (PanicModel 25)
                | Some s =>
                    match cell_track_write s (caus_of e me) with
                    | inr p => inr p
                    | inl s1 =>
                        match cell_track_write s1 (caus_of e me) with
                        | inr p => inr p
                        | inl s2 =>
                            let e := upd_object e ci (fun _ => OCell s2) in
                            let sy := sync_store vv_new (caus_of e me) (rel_of e me) AcqRel in
                            let e := ex_set_lazy e (Some (lz ++ [(k, (ci, sy))])) in
                            inl (set_caus e me (sync_load (caus_of e me) sy Acquire), ci)
                        end
                    end
                end
            end in
          match r with
          | inr p => MFail e p
          | inl (e, ci) =>
              let e := causality_inc e me in
              match get_cell e ci with
              | None => MFail e (PanicModel 25)
              | Some s =>
                  if ce_writing s then MFail e PanicCellWriting
                  else match cell_track_read s (caus_of e me) with
                       | inr p => MFail e p
                       | inl s1 =>
                           match cell_track_read s1 (caus_of e me) with
                           | inr p => MFail e p
                           | inl s2 => MOk (log_op (upd_object e ci (fun _ => OCell s2)) me (RVal (N.of_nat (41 + k))))
                           end
                       end
              end
          end
      end

  | MLazyGetY k =>
      (* Lazy::get of a static whose initialiser contains a scheduling point (yield_now): try_get; if the
         static is not registered, run the initialiser -- outside the execution lock, so other threads may
         run it too -- and look again afterwards: the first thread to get there wins *)
      match e_lazy e with
      | None => MFail e PanicLazyShutdown
      | Some lz =>
          match find (fun x => Nat.eqb (fst x) k) lz with
          | Some _ => MOk (push_cont e me [MLazyGet k])
          | None =>
              let e := ex_set_log e (LInitLazy k :: e_log e) in
              let ci := length (e_objects e) in
              let e := ex_set_objects e (e_objects e ++ [OCell (cell_new (caus_of e me))]) in
              let e := causality_inc e me in
              match get_cell e ci with
              | None => MFail e (PanicModel 25)
              | Some s =>
                  match cell_track_write s (caus_of e me) with
                  | inr p => MFail e p
                  | inl s1 =>
                      match cell_track_write s1 (caus_of e me) with
                      | inr p => MFail e p
                      | inl s2 =>
                          MOk (push_cont (upd_object e ci (fun _ => OCell s2)) me [MYield; MLazyFinishY k ci])
                      end
                  end
              end
          end
      end

  | MLazyFinishY k ci =>
      match e_lazy e with
      | None => MFail (ex_set_log e (LDropLazy k :: e_log e)) PanicLazyShutdown   (* the value built by this thread is dropped by the unwinding *)
      | Some lz =>
          match find (fun x => Nat.eqb (fst x) k) lz with
          | Some _ =>
              (* another thread won: this thread's value is dropped, the winner's is returned *)
              MOk (push_cont (ex_set_log e (LDropLazy k :: e_log e)) me [MLazyGet k])
          | None =>
              let sy := sync_store vv_new (caus_of e me) (rel_of e me) AcqRel in
              MOk (push_cont (ex_set_lazy e (Some (lz ++ [(k, (ci, sy))]))) me [MLazyGet k])
          end
      end

  | MLazyDrop =>
      (* main thread: lazy_statics.drop(); the values are destroyed outside the execution *)
      match e_lazy e with
      | None => MOk e
      | Some lz =>
          let keys := filter (fun k => existsb (fun x => Nat.eqb (fst x) k) lz) (seq 0 8) in
          MOk (ex_set_lazy (ex_set_log e (rev (map LDropLazy keys) ++ e_log e)) None)
      end

  | MDropLocals =>
      (* thread_done: the thread's locals are destroyed (HashMap order: canonicalised by key) *)
      match get_thread e me with
      | None => MFail e (PanicModel 24)
      | Some t =>
          let keys := filter (fun k => existsb (Nat.eqb k) (t_tls t)) (seq 0 8) in
          (* all values are taken out of the map first (tombstones), then destroyed;
             the destructor of thread-local 2 uses thread-local 0 of this thread:
             AccessError if this thread had initialised it. (If it had not, the
             access would initialise it now and the value would outlive the thread:
             not modelled, such programs are rejected.) *)
          let has0 := existsb (Nat.eqb 0) (t_tls t) in
          if existsb (Nat.eqb 2) (t_tls t) && negb has0 then MFail e (PanicModel 31)
          else
            let lines := flat_map (fun k => (if Nat.eqb k 2 then [LTlsAccess k (t_body t) false] else [])
                                            ++ [LDropTls k (t_body t)]) keys in
            MOk (ex_set_log e (rev lines ++ e_log e))
      end

  | MBlockOnS a v b1 b2 =>
      (* future::block_on, as MBlockOn *)
      let n := length (e_objects e) in
      let k := S n in
      let e := ex_set_objects e (e_objects e ++
                 [ONotify (mkNotify true false false false None vv_new);
                  OArc (mkArc 1 vv_new (repeat None MAX_THREADS) None (repeat None MAX_THREADS))]) in
      MOk (push_cont e me [MBsPoll a v b1 b2 n k true])

  | MBsPoll a v b1 b2 n k first =>
      MOk (push_cont (log_poll e me) me [MBranch a ALoad BNever; MBsLoad a v b1 b2 n k first])

  | MBsLoad a v b1 b2 n k first =>
      match load_post e me a Acquire with
      | inr (e, p) => MFail e p
      | inl (e, x) =>
          if N.eqb x v then MOk (push_cont e me [MBoDone n k])
          else
            (* Pending. The first time, each waking thread is spawned with a clone of the waker *)
            let sp b := match b with
                        | 0 => []
                        | _ => [MBranch k ARefInc BNever; MArcIncRaw k; MSpawnW b n k]
                        end in
            MOk (push_cont e me ((if first then sp b1 ++ sp b2 else [])
                                 ++ [MNotifyWait1 n; MBsPoll a v b1 b2 n k false]))
      end

  | MSpawnW b n k =>
      (* thread::spawn from inside the poll; as MSpawn, no result line *)
      let nidx := length (e_objects e) in
      let e := ex_set_objects e (e_objects e ++ [ONotify (mkNotify false false true false None vv_new)]) in
      if negb (Nat.ltb (length (e_threads e)) (e_max_threads e)) then MFail e PanicMaxThreads
      else
        let tid := length (e_threads e) in
        let pc := caus_of e me in
        let pd := match get_thread e me with Some t => t_dpor t | None => vv_new end in
        let body := subst_waker n k false (nth b (e_bodies e) []) in
        let nt := thread_new b body in
        let nt := th_set_dpor (th_set_caus nt (vv_inc (vv_join (t_caus nt) pc) tid)) (vv_join (t_dpor nt) pd) in
        let e := ex_set_threads e (e_threads e ++ [nt]) in
        let e := causality_inc e me in
        MOk (ex_set_spawned e (list_set (e_spawned e) b (Some (tid, nidx))))

  | MWakeMine => MOk (log_op e me (RVal 0))

  | MWakeMineW n k =>
      MOk (push_cont e me [MBranch n AOpaque BNever; MNotifyPost n;
                           MBranch k ARefDec BNever; MArcDecRaw k; MLog (RVal 1)])

  | MDropMyWaker => MOk e

  | MDropWakerW n k => MOk (push_cont e me [MBranch k ARefDec BNever; MArcDecRaw k])

  | MTerminate =>
      fst (schedule (upd_thread e me (fun t => th_set_op (th_set_state t Terminated) None)))
  end.
