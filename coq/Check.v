(* Expansion of instructions into micro-operations (the model of the wrappers),
   one iteration (rt/scheduler.rs Scheduler::run), and Builder::check
   (model.rs). Definitions only. *)
Require Import LV.Base LV.VV LV.Path LV.Prog LV.Objects LV.Exec LV.Atomic LV.Ops.

Definition expand (body pc : nat) (i : instr) : list micro :=
  match i with
  | ISpawn b => [MSpawn b]
  | IJoin b => [MJoin b]
  | ILoad a o => [MBranch a ALoad BNever; MLoadPost a o None]
  | IStore a v o => [MBranch a AStore BNever; MStorePost a v o]
  | IRmw a f v o => [MBranch a ARmw BNever; MRmwPost a (KOp f v) o o]
  | ICas a ex nw so fo => [MBranch a ARmw BNever; MRmwPost a (KCas ex nw) so fo]
  | IFetchUpdate a f v so fo => [MBranch a ALoad BNever; MFuLoadPost a f v so fo]
  | IFence o => [MFence o]
  | ILock m => [MBranch m AOpaque BMutexLocked; MLockPost m LMLock]
  | ITryLock m => [MBranch m AOpaqueTry BNever; MLockPost m LMTry]
  | IUnlock m => [MUnlock m]
  | IRead r => [MBranch r ARead BRwWrite; MReadPost r false]
  | IWrite r => [MBranch r AWrite BRwAny; MWritePost r false]
  | ITryRead r => [MBranch r ATryRead BNever; MReadPost r true]
  | ITryWrite r => [MBranch r ATryWrite BNever; MWritePost r true]
  | IUnread r => [MUnread r]
  | IUnwrite r => [MUnwrite r]
  | IWait c m => [MWait c m]
  | INotifyOne c => [MBranch c AOpaque BNever; MCvNotify c false]
  | INotifyAll c => [MBranch c AOpaque BNever; MCvNotify c true]
  | INWait n => [MNWaitBegin n; MNotifyWait1 n; MNWaitEnd n]
  | INNotify n => [MBranch n AOpaque BNever; MNotifyPost n; MLog RUnit]
  | IPark => [MPark; MLog RUnit]
  | IUnpark b => [MUnpark b]
  | ISend h v => [MBranch h ASend BNever; MSendPost h v]
  | IRecv h => [MRecv h]
  | ITryRecv h => [MTryRecv h]
  | IDropRx h => [MDropRx h]
  | ICellRead u => [MCellRead u]
  | ICellWrite u => [MCellWrite u (N.of_nat (body * 100 + pc + 1))]
  | ICellNested u k => [MCellNested u k]
  | IYield => [MYield; MLog RUnit]
  | IAwait a v o => [MBranch a ALoad BNever; MLoadPost a o (Some v)]
  | IUnsyncLoad a => [MUnsyncLoad a]
  | IWithMut a v => [MWithMut a v]
  | IArcClone k i j => [MArcClone k i j]
  | IArcDrop k i => [MArcDrop k i]
  | IArcCount k i => [MArcCount k i]
  | IArcGetMut k i => [MArcGetMut k i false]
  | IArcTryUnwrap k i => [MArcGetMut k i true]
  | ITrackDrop k => [MTrackDrop k]
  | IBlockOn a v w => [MBlockOn a v w]
  | IWake w => [MBranch w AOpaque BMutexLocked; MWakeTake w true]
  | ITakeWaker w => [MBranch w AOpaque BMutexLocked; MWakeTake w false]
  | IBlockOnS a v b1 b2 => [MBlockOnS a v b1 b2]
  | IWakeMine => [MWakeMine]
  | ITlsWith k => [MTlsWith k]
  | ILazyGet k => if Nat.eqb k 2 then [MLazyGetY k] else [MLazyGet k]
  | IPanic => [MPanic]
  | IExplore => [MExplore]
  | IStopExploring => [MStop]
  | ISkipBranch => [MSkip]
  end.

Fixpoint expand_body_from (body pc : nat) (l : list instr) : list micro :=
  match l with
  | [] => []
  | i :: t => MBegin pc :: expand body pc i ++ expand_body_from body (S pc) t
  end.

(* what runs after the user closure: thread.rs spawn_internal / model.rs *)
Definition exit_seq (body : nat) : list micro :=
  match body with
  | 0 => [MReleaseAll; MDropMyWaker; MLazyDrop; MDropLocals; MTerminate]
  | _ => [MReleaseAll; MDropMyWaker; MExitNotify; MDropLocals; MTerminate]
  end.

Definition expand_prog (p : prog) : list (list micro) :=
  mapi (fun b l => expand_body_from b 0 l ++ exit_seq b) (p_bodies p).

(* objects created by the main thread before its first instruction *)
Definition create_object (d : decl) (caus released : vv) : object + panic :=
  match d with
  | DAtomic v => match atomic_new 0 caus released v with
                 | inl s => inl (OAtomic s) | inr p => inr p end
  | DMutex => inl (OMutex (mkMutex true None None vv_new))
  | DRwLock => inl (ORwLock (mkRw None None vv_new))
  | DCondvar => inl (OCondvar (mkCv None []))
  | DNotify => inl (ONotify (mkNotify true false false false None vv_new))
  | DChan => inl (OChannel (mkChan 0 None None vv_new [] None))
  | DCell => inl (OCell (cell_new caus))
  | DArc => inl (OArc (mkArc 1 vv_new (repeat None MAX_THREADS) None (repeat None MAX_THREADS)))
  | DTrack => inl (OAlloc false)
  | DWaker => inl (OMutex (mkMutex false None None vv_new))
  end.

Fixpoint create_objects (ds : list decl) (caus released : vv) : list object + panic :=
  match ds with
  | [] => inl []
  | d :: t =>
      match create_object d caus released, create_objects t caus released with
      | inl o, inl os => inl (o :: os)
      | inr p, _ => inr p
      | _, inr p => inr p
      end
  end.

(* Execution::new / Execution::step: everything but the path is fresh *)
Definition init_exec (p : prog) (pa : path) : exec :=
  let bodies := expand_prog p in
  let main := thread_new 0 (nth 0 bodies []) in
  let objs := match create_objects (p_decls p) vv_new vv_new with
              | inl os => os | inr _ => [] end in
  mkExec pa [main] (Some 0) vv_new objs (max_threads (p_cfg p))
         (map hobj_of_decl (p_decls p))
         (repeat None (length (p_bodies p)))
         (repeat false (length (p_bodies p)))
         [] bodies (Some []).

Inductive iter_end :=
  | IterDone                      (* all threads terminated *)
  | IterPanic (p : panic)
  | IterFuel.                     (* the model's fuel ran out: excluded by theorems *)

(* Scheduler::run: resume the active thread until the execution is complete *)
Fixpoint run (fuel : nat) (e : exec) : exec * iter_end :=
  match fuel with
  | 0 => (e, IterFuel)
  | S fuel' =>
      match e_active e with
      | None => (e, IterDone)
      | Some me =>
          match nth_error (e_threads e) me with
          | None => (e, IterPanic (PanicModel 30))
          | Some t =>
              match t_cont t with
              | [] => (e, IterPanic (PanicModel 31))
              | m :: rest =>
                  let e1 := upd_thread e me (fun t => th_set_cont t rest) in
                  match exec_micro e1 me m with
                  | MOk e2 => run fuel' e2
                  | MFail e2 p => (e2, IterPanic p)
                  end
              end
          end
      end
  end.

(* one iteration of the loop of Builder::check after the checkpoint block *)
Definition iteration (fuel : nat) (p : prog) (pa : path) : exec * iter_end :=
  let '(e, r) := run fuel (init_exec p pa) in
  match r with
  | IterDone => match check_for_leaks (e_objects e) with
                | Some pn => (e, IterPanic pn)
                | None => (e, IterDone)
                end
  | _ => (e, r)
  end.

Record iter_record := mkIter {
  ir_begin : path;
  ir_end : path;
  ir_log : list logline;      (* oldest first *)
  ir_result : iter_end
}.

Inductive run_end :=
  | RunOk                         (* returned normally *)
  | RunPanic (p : panic)
  | RunFuel.

Definition ci_of (c : config) : nat :=
  match checkpoint_interval c with Some n => n | None => 200 * 100 end.

(* Builder::check. [i] is the 1-based iteration counter; [checkpoint] is the
   content of the checkpoint file (the last stored path). *)
Fixpoint check_loop (ifuel fuel : nat) (p : prog) (i : nat) (pa : path) (ck : option path)
         (acc : list iter_record) : list iter_record * run_end * option path :=
  match ifuel with
  | 0 => (rev acc, RunFuel, ck)
  | S ifuel' =>
      let at_boundary := Nat.eqb (Nat.modulo i (ci_of (p_cfg p))) 0 in
      let ck := if at_boundary then Some pa else ck in
      let stop := at_boundary &&
                  match max_permutations (p_cfg p) with
                  | Some mp => Nat.leb mp i
                  | None => false
                  end in
      if stop then (rev acc, RunOk, ck)
      else
        let '(e, r) := iteration fuel p pa in
        let rec := mkIter pa (e_path e) (rev (e_log e)) r in
        match r with
        | IterPanic pn => (rev (rec :: acc), RunPanic pn, ck)
        | IterFuel => (rev (rec :: acc), RunFuel, ck)
        | IterDone =>
            match step (e_path e) with
            | Some pa' => check_loop ifuel' fuel p (S i) pa' ck (rec :: acc)
            | None => (rev (rec :: acc), RunOk, ck)
            end
        end
  end.

Definition initial_path (c : config) : path :=
  path_new (max_branches c) (preemption_bound c) (negb (explicit_explore c)).

Definition check (ifuel fuel : nat) (p : prog) : list iter_record * run_end * option path :=
  check_loop ifuel fuel p 1 (initial_path (p_cfg p)) None [].

(* resuming from a stored checkpoint: execution.path = load(file);
   set_max_branches only reserves capacity *)
Definition check_from (ifuel fuel : nat) (p : prog) (pa : path) : list iter_record * run_end * option path :=
  check_loop ifuel fuel p 1 pa (Some pa) [].
