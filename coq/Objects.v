(* State of the loom runtime: rt/thread.rs, rt/object.rs, rt/access.rs,
   rt/synchronize.rs and the per-object State structs. Definitions only. *)
Require Import LV.Base LV.VV LV.Path LV.Prog.

Inductive action :=
  | AOpaque | ALoad | AStore | ARmw | ARefInc | ARefDec | AInspect
  | ASend | ARecv | ARead | AWrite
  | AOpaqueTry | ATryRead | ATryWrite | ATryRecv.

Definition action_eqb (a b : action) : bool :=
  match a, b with
  | AOpaque, AOpaque | ALoad, ALoad | AStore, AStore | ARmw, ARmw
  | ARefInc, ARefInc | ARefDec, ARefDec | AInspect, AInspect
  | ASend, ASend | ARecv, ARecv | ARead, ARead | AWrite, AWrite
  | AOpaqueTry, AOpaqueTry | ATryRead, ATryRead | ATryWrite, ATryWrite | ATryRecv, ATryRecv => true
  | _, _ => false
  end.

Record operation := mkOp { op_obj : nat; op_act : action }.

Inductive tstate := Runnable | Blocked | Yielded | Terminated.

Record access := mkAccess { a_path_id : nat; a_vv : vv }.

(* ---- atomic ---- *)
Record astore := mkStore {
  st_value : N;
  st_hb : vv;                     (* happens_before *)
  st_mo : vv;                     (* modification_order *)
  st_sync : vv;                   (* sync.happens_before *)
  st_seen : list (option nat);    (* first_seen: None = u16::MAX *)
  st_seqcst : bool;
  st_id : nat;                    (* sequence number: State::cnt when the store was made *)
  st_rmw_src : option (nat * nat) (* store half of an RMW: slot and id of the store it read *)
}.

Definition seen_new : list (option nat) := repeat None MAX_THREADS.
Definition store_default : astore := mkStore 0%N vv_new vv_new vv_new seen_new false 0 None.

Record atomic_state := mkAtomic {
  at_loaded : vv; at_unsync_loaded : vv; at_stored : vv; at_unsync_mut : vv;
  at_mutating : bool;
  at_last_loads : list (option access);   (* last load of each thread *)
  at_last_nonload : option access;
  at_stores : list astore;        (* [Store; MAX_ATOMIC_HISTORY] *)
  at_cnt : nat
}.

Record mutex_state := mkMutex {
  mx_seqcst : bool; mx_lock : option nat; mx_last : option access; mx_sync : vv }.

Inductive rwlocked := RLRead (readers : list nat) | RLWrite (w : nat).
Record rwlock_state := mkRw { rw_lock : option rwlocked; rw_last : option access; rw_sync : vv }.

Record condvar_state := mkCv { cv_last : option access; cv_waiters : list nat }.

Record notify_state := mkNotify {
  nt_spurious : bool; nt_did_spur : bool; nt_seqcst : bool; nt_notified : bool;
  nt_last : option access; nt_sync : vv }.

Record chan_state := mkChan {
  ch_cnt : nat; ch_last_send : option access; ch_last_recv : option access;
  ch_sender_sync : vv; ch_recv_sync : list vv;
  ch_last_try_recv : option access }.

Record arc_state := mkArc {
  arc_cnt : nat; arc_sync : vv;
  arc_last_inc : list (option access);      (* last clone of each thread *)
  arc_last_dec : option access;
  arc_last_inspect : list (option access)   (* last inspection of each thread *) }.

Record cell_state := mkCell {
  ce_reading : nat; ce_writing : bool; ce_read : vv; ce_write : vv }.

Inductive object :=
  | OAlloc (dropped : bool)
  | OArc (s : arc_state)
  | OAtomic (s : atomic_state)
  | OMutex (s : mutex_state)
  | OCondvar (s : condvar_state)
  | ONotify (s : notify_state)
  | ORwLock (s : rwlock_state)
  | OChannel (s : chan_state)
  | OCell (s : cell_state).

(* ---- panics ---- *)
Inductive causality_kind :=
  | CLoadMut | CUnsyncLoadMut | CUnsyncLoadStore | CStoreMut | CStoreUnsyncLoad
  | CMutLoad | CMutUnsyncLoad | CMutStore | CMutMut
  | CCellReadWrite | CCellWriteWrite | CCellWriteRead.

Inductive leak_kind := LArc | LAlloc | LMsgs.

Inductive panic :=
  | PanicPath (e : ppanic)
  | PanicDeadlock (states : list tstate)
  | PanicCausality (k : causality_kind)
  | PanicLeak (k : leak_kind) (index : nat)
  | PanicUser
  | PanicExpectLock            (* "expected to be able to acquire lock" *)
  | PanicExpectRead            (* "... acquire read lock" *)
  | PanicExpectWrite           (* "... acquire write lock" *)
  | PanicNotified              (* "assertion failed: state.notified" *)
  | PanicExpectMsg             (* "expected to be able to read the message" *)
  | PanicArcReleased           (* "Arc is already released" *)
  | PanicArcReleased2          (* "Arc is released" (get_mut) *)
  | PanicMaxThreads            (* "assertion failed: self.threads.len() < self.max()" *)
  | PanicNotifyWaiter          (* "only a single thread may wait on `Notify`" *)
  | PanicRelaxedFence          (* "there is no such thing as a relaxed fence" *)
  | PanicMoEq                  (* assert_ne!(mo_i, mo_j) *)
  | PanicRwCorrupt             (* "loom::RwLock state corrupt" *)
  | PanicCellWriting           (* "currently writing to cell" *)
  | PanicCellReading           (* "currently reading from cell" *)
  | PanicMutating              (* "atomic cell is in `with_mut` call" *)
  | PanicRwInvalid             (* "invalid internal loom state" *)
  | PanicLazyShutdown          (* "attempted to access lazy_static during shutdown" *)
  | PanicModel (code : nat).   (* the model itself is stuck: never expected *)

(* ---- access helpers (rt/access.rs) ---- *)
Definition access_hb (a : access) (v : vv) : bool := vv_le (a_vv a) v.
Definition set_or_create (path_id : nat) (v : vv) : option access := Some (mkAccess path_id v).

Definition opt_list {A} (o : option A) : list A := match o with Some x => [x] | None => [] end.

Fixpoint flatten_opts {A} (l : list (option A)) : list A :=
  match l with
  | [] => []
  | Some x :: t => x :: flatten_opts t
  | None :: t => flatten_opts t
  end.

(* Store::last_dependent_accesses, dispatching on the object kind.
   None = "object is not branchable". *)
Definition last_dependent_accesses (o : object) (act : action) : option (list access) :=
  match o with
  | OArc s =>
      Some match act with
           | ARefInc => flatten_opts (arc_last_inspect s)
           | ARefDec => opt_list (arc_last_dec s) ++ flatten_opts (arc_last_inspect s)
           | _ => opt_list (arc_last_dec s) ++ flatten_opts (arc_last_inc s)
           end
  | OAtomic s =>
      Some (opt_list (at_last_nonload s) ++
            match act with ALoad => [] | _ => flatten_opts (at_last_loads s) end)
  | OMutex s => Some (opt_list (mx_last s))
  | OCondvar s => Some (opt_list (cv_last s))
  | ONotify s => Some (opt_list (nt_last s))
  | ORwLock s => Some (opt_list (rw_last s))
  | OChannel s =>
      Some match act with
           | ASend => opt_list (ch_last_send s) ++ opt_list (ch_last_try_recv s)
           | ATryRecv => opt_list (ch_last_recv s) ++ opt_list (ch_last_send s)
           | _ => opt_list (ch_last_recv s)
           end
  | _ => None
  end.

Definition set_last_access (o : object) (act : action) (tid : nat) (path_id : nat) (v : vv) : object :=
  let acc := set_or_create path_id v in
  match o with
  | OArc s =>
      match act with
      | ARefInc => OArc (mkArc (arc_cnt s) (arc_sync s) (list_set (arc_last_inc s) tid acc) (arc_last_dec s) (arc_last_inspect s))
      | ARefDec => OArc (mkArc (arc_cnt s) (arc_sync s) (arc_last_inc s) acc (arc_last_inspect s))
      | _ => OArc (mkArc (arc_cnt s) (arc_sync s) (arc_last_inc s) (arc_last_dec s) (list_set (arc_last_inspect s) tid acc))
      end
  | OAtomic s =>
      OAtomic (mkAtomic (at_loaded s) (at_unsync_loaded s) (at_stored s) (at_unsync_mut s)
                 (at_mutating s)
                 (match act with ALoad => list_set (at_last_loads s) tid acc | _ => at_last_loads s end)
                 (match act with ALoad => at_last_nonload s | _ => acc end)
                 (at_stores s) (at_cnt s))
  | OMutex s => OMutex (mkMutex (mx_seqcst s) (mx_lock s) acc (mx_sync s))
  | OCondvar s => OCondvar (mkCv acc (cv_waiters s))
  | ONotify s => ONotify (mkNotify (nt_spurious s) (nt_did_spur s) (nt_seqcst s) (nt_notified s) acc (nt_sync s))
  | ORwLock s => ORwLock (mkRw (rw_lock s) acc (rw_sync s))
  | OChannel s =>
      match act with
      | ASend => OChannel (mkChan (ch_cnt s) acc (ch_last_recv s) (ch_sender_sync s) (ch_recv_sync s) (ch_last_try_recv s))
      | ATryRecv => OChannel (mkChan (ch_cnt s) (ch_last_send s) acc (ch_sender_sync s) (ch_recv_sync s) acc)
      | _ => OChannel (mkChan (ch_cnt s) (ch_last_send s) acc (ch_sender_sync s) (ch_recv_sync s) (ch_last_try_recv s))
      end
  | o => o
  end.

(* Store::check_for_leaks: the first leaking entry in index order *)
Definition leak_of (o : object) : option leak_kind :=
  match o with
  | OAlloc dropped => if dropped then None else Some LAlloc
  | OArc s => if Nat.eqb (arc_cnt s) 0 then None else Some LArc
  | OChannel s => if Nat.eqb (ch_cnt s) 0 then None else Some LMsgs
  | _ => None
  end.

Fixpoint check_for_leaks_from (i : nat) (l : list object) : option panic :=
  match l with
  | [] => None
  | o :: t =>
      match leak_of o with
      | Some k => Some (PanicLeak k i)
      | None => check_for_leaks_from (S i) t
      end
  end.
Definition check_for_leaks (l : list object) : option panic := check_for_leaks_from 0 l.
