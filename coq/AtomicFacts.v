(* Property C12, second half: one thread operating on one atomic cell.

   "For every sequence of atomic operations by one thread, a load returns the
   latest store, also after the 7-slot ring wraps, and the modification-order
   assertion never fires."

   What is proved here (all closed under the global context):

   - [sstep]/[srun]: a single-thread driver that mirrors Ops.v: the thread
     increments its own clock component ([vv_inc caus me]) before every
     operation; a load calls [match_load_to_stores] (last_yield = None) and
     [atomic_load]; a store calls [track_store] and [atomic_store] (sync0 =
     vv_new, as Ops.v does); an rmw calls [match_rmw_to_stores] and
     [atomic_rmw].  [released] is the constant [vv_new] (no release fences).
     The driver is STRICT: it returns None when the candidate list is not a
     singleton, when the assertion `mo_i != mo_j` fires (the match functions
     return None) and when a track_* check panics.

   - [Inv me s caus] and [single_thread_invariant]: the invariant holds for
     [atomic_new] and is preserved by every [sstep].  Content: 7 slots,
     cnt >= 1, not mutating, the unsync clocks are below the thread's clock,
     dead slots are [store_default], every slot's st_mo component [me] (its
     "key") is <= the thread's clock component, every live slot is marked seen
     by [me] with a version <= the thread's clock component, the newest slot
     [aindex (cnt - 1)] has the strictly largest key and its st_mo dominates
     every live st_mo, live keys are pairwise different, live st_mo are
     ordered (vle) like their keys, and the store of an RMW immediately follows
     the store it read ([inv_rmw]: the source slot is live and no other live key
     lies between the key of the source slot and the key of the RMW's slot).
     Corollary [single_thread_mo_total]: two
     different live slots are strictly ordered by vv_lt one way or the other,
     and never vv_eqb.

   - [single_thread_load_candidates], [single_thread_rmw_candidates]: under
     Inv the candidate list is exactly [aindex (at_cnt s - 1)]: never None (the
     assertion does not fire), exactly one candidate, the newest slot.

   - [single_thread_reads_latest]: for every list of operations run from
     [atomic_new me caus0 vv_new init], [srun] succeeds (never None) and the
     list of values read is exactly [ref_run init ops], the reference
     interpreter over a single N cell.  Since the list of operations is
     arbitrary this covers any number of stores, i.e. the ring wrapping any
     number of times: [sstep_store_cnt] shows that every store advances the
     ring (cnt + 1, the written and then newest slot is [aindex cnt], which
     wraps modulo 7), [sstep_load_cnt] that a load does not;
     [ring_wrap_example] additionally runs a concrete 20-store sequence (cnt
     ends at 21) by computation.

   - [last_yield_irrelevant_without_yield]: with last_yield = None the "seen
     before yield" clause is false.

   - RMW atomicity ([atomic_store_from], [rmw_atomicity]): a pass changes
     nothing when the modification order already dominates every st_mo of the
     ring ([rmw_atomicity_pass_id], [rmw_atomicity_id]); in a single-thread run
     it does ([store_mo_dominates]), so State::store_from writes the same
     st_mo as before whatever the source ([atomic_store_from_eq]) and
     [atomic_store_from_inv] preserves the invariant when [src] is None or names
     the newest slot (what State::rmw passes: it reads the newest store);
     [atomic_store_inv] is the instance src = None.

   - the RMW-atomicity closure at the end of apply_load_coherence
     ([close_rmw_atomicity]): under the invariant neither rule of [close_step]
     fires ([close_step_id], [close_rmw_atomicity_id]), so a single-thread load
     only replaces the newest slot's st_mo ([alc_stores_newest]).

   Not stated: the suggested "ordered according to store AGE" formulation of
   the invariant (slot of the k-th most recent store).  The invariant orders
   the live slots by their key (the thread's clock component at store time)
   instead, which is what the matching functions depend on; that the newest
   slot is the maximum is part of Inv.  The suggested "other components are
   those of caus0" is not needed and not stated. *)
Require Import LV.Base LV.VV LV.VVFacts LV.Path LV.Prog LV.Objects LV.Atomic.
From Coq Require Import Lia.

Set Implicit Arguments.

(* ------------------------------------------------------------------ *)
(* list utilities                                                      *)

Lemma list_set_nth_error_same : forall (A : Type) (l : list A) n x,
  n < length l -> nth_error (list_set l n x) n = Some x.
Proof.
  intros A. induction l as [|h t IHt]; intros n x Hlt.
  - simpl in Hlt. lia.
  - destruct n as [|n]; simpl.
    + reflexivity.
    + apply IHt. simpl in Hlt. lia.
Qed.

Lemma list_upd_length : forall (A : Type) (l : list A) n f,
  length (list_upd l n f) = length l.
Proof.
  intros A l n f. unfold list_upd. destruct (nth_error l n) as [x|].
  - apply list_set_length.
  - reflexivity.
Qed.

Lemma list_upd_nth : forall (A : Type) (l : list A) n f i d,
  n < length l ->
  nth i (list_upd l n f) d = if Nat.eqb i n then f (nth n l d) else nth i l d.
Proof.
  intros A l n f i d Hlt. unfold list_upd.
  rewrite (nth_error_nth' l d Hlt).
  destruct (Nat.eqb_spec i n) as [Heq|Hne].
  - subst i. apply list_set_nth_same. exact Hlt.
  - apply list_set_nth_other. lia.
Qed.

Lemma list_set_nth : forall (A : Type) (l : list A) n x i d,
  n < length l ->
  nth i (list_set l n x) d = if Nat.eqb i n then x else nth i l d.
Proof.
  intros A l n x i d Hlt.
  destruct (Nat.eqb_spec i n) as [Heq|Hne].
  - subst i. apply list_set_nth_same. exact Hlt.
  - apply list_set_nth_other. lia.
Qed.

(* mapi with a function that fixes every element of the list *)
Lemma mapi_from_id : forall (A : Type) (f : nat -> A -> A) (l : list A) k d,
  (forall i, i < length l -> f (k + i) (nth i l d) = nth i l d) ->
  mapi_from k f l = l.
Proof.
  intros A f. induction l as [|h t IHt]; intros k d Hfix.
  - reflexivity.
  - cbn [mapi_from]. f_equal.
    + specialize (Hfix 0). cbn [nth length] in Hfix. rewrite Nat.add_0_r in Hfix.
      apply Hfix. lia.
    + apply (IHt (S k) d). intros i Hi.
      specialize (Hfix (S i)). cbn [nth length] in Hfix.
      replace (S k + i) with (k + S i) by lia. apply Hfix. lia.
Qed.

Lemma mapi_id : forall (A : Type) (f : nat -> A -> A) (l : list A) d,
  (forall i, i < length l -> f i (nth i l d) = nth i l d) -> mapi f l = l.
Proof. intros A f l d Hfix. unfold mapi. apply (@mapi_from_id A f l 0 d). exact Hfix. Qed.

Lemma index_list_from_In : forall (A : Type) (l : list A) k i x d,
  In (i, x) (index_list_from k l) ->
  k <= i /\ i - k < length l /\ x = nth (i - k) l d.
Proof.
  intros A. induction l as [|h t IHt]; intros k i x d Hin.
  - simpl in Hin. contradiction.
  - simpl in Hin. destruct Hin as [Heq|Hin].
    + inversion Heq. subst. rewrite Nat.sub_diag. simpl. repeat split; lia.
    + apply (@IHt (S k) i x d) in Hin. destruct Hin as [Hle [Hlt Hx]].
      split; [lia|]. split; [simpl; lia|].
      replace (i - k) with (S (i - S k)) by lia. simpl. exact Hx.
Qed.

Lemma index_list_In : forall (A : Type) (l : list A) i x d,
  In (i, x) (index_list l) -> i < length l /\ x = nth i l d.
Proof.
  intros A l i x d Hin. unfold index_list in Hin.
  apply (@index_list_from_In A l 0 i x d) in Hin.
  rewrite Nat.sub_0_r in Hin. destruct Hin as [_ [Hlt Hx]]. split; assumption.
Qed.

(* ------------------------------------------------------------------ *)
(* generic facts about the clock folds                                 *)

Lemma fold_grow : forall (A : Type) (f : vv -> A -> vv),
  (forall mo a, vle mo (f mo a)) ->
  forall l mo, vle mo (fold_left f l mo).
Proof.
  intros A f Hf l. induction l as [|a l IH]; intros mo; simpl.
  - apply vle_refl.
  - eapply vle_trans; [apply Hf | apply IH].
Qed.

Lemma fold_keep : forall (A : Type) (f : vv -> A -> vv) (b : A -> nat) (k : nat),
  (forall mo a, b a <= vv_get mo k -> vv_get (f mo a) k = vv_get mo k) ->
  forall l mo, (forall a, In a l -> b a <= vv_get mo k) ->
  vv_get (fold_left f l mo) k = vv_get mo k.
Proof.
  intros A f b k Hf l. induction l as [|a l IH]; intros mo Hb; simpl.
  - reflexivity.
  - assert (Ha : vv_get (f mo a) k = vv_get mo k).
    { apply Hf. apply Hb. left. reflexivity. }
    rewrite IH.
    + exact Ha.
    + intros a' Ha'. rewrite Ha. apply Hb. right. exact Ha'.
Qed.

Lemma fold_in : forall (A : Type) (f : vv -> A -> vv) (g : A -> vv) (p : A -> bool),
  (forall mo a, vle mo (f mo a)) ->
  (forall mo a, p a = true -> vle (g a) (f mo a)) ->
  forall l mo a, In a l -> p a = true -> vle (g a) (fold_left f l mo).
Proof.
  intros A f g p Hgrow Hin l. induction l as [|h l IH]; intros mo a Ha Hp.
  - simpl in Ha. contradiction.
  - simpl. destruct Ha as [Heq|Ha].
    + subst h. eapply vle_trans; [apply Hin; exact Hp | apply fold_grow; exact Hgrow].
    + apply IH; assumption.
Qed.

(* ------------------------------------------------------------------ *)
(* FirstSeen                                                           *)

Lemma seen_by_current_from_hit : forall seen k m v caus,
  nth_error seen m = Some (Some v) -> v <= vv_get caus (k + m) ->
  seen_by_current_from k seen caus = true.
Proof.
  induction seen as [|s rest IH]; intros k m v caus Hnth Hle.
  - destruct m; simpl in Hnth; discriminate.
  - destruct m as [|m]; simpl in Hnth.
    + inversion Hnth. subst s. simpl. rewrite Nat.add_0_r in Hle.
      apply Nat.leb_le in Hle. rewrite Hle. reflexivity.
    + simpl.
      assert (Hrest : seen_by_current_from (S k) rest caus = true).
      { apply (@IH (S k) m v caus Hnth). replace (S k + m) with (k + S m) by lia. exact Hle. }
      destruct s as [w|]; [destruct (Nat.leb w (vv_get caus k))|]; try reflexivity; exact Hrest.
Qed.

Lemma is_seen_by_current_hit : forall seen me v caus,
  nth_error seen me = Some (Some v) -> v <= vv_get caus me ->
  is_seen_by_current seen caus = true.
Proof.
  intros seen me v caus Hnth Hle. unfold is_seen_by_current.
  apply (@seen_by_current_from_hit seen 0 me v caus Hnth). simpl. exact Hle.
Qed.

Lemma seen_touch_same : forall seen me v w,
  nth_error seen me = Some (Some v) -> seen_touch seen me w = seen.
Proof. intros seen me v w Hnth. unfold seen_touch. rewrite Hnth. reflexivity. Qed.

Lemma seen_touch_new : forall me w,
  me < MAX_THREADS -> nth_error (seen_touch seen_new me w) me = Some (Some w).
Proof.
  intros me w Hme. unfold seen_touch.
  assert (Hnone : nth_error seen_new me = Some None).
  { unfold seen_new. rewrite (nth_error_nth' _ None).
    - rewrite nth_repeat. reflexivity.
    - rewrite repeat_length. exact Hme. }
  rewrite Hnone. apply list_set_nth_error_same.
  unfold seen_new. rewrite repeat_length. exact Hme.
Qed.

Theorem last_yield_irrelevant_without_yield : forall seen me,
  is_seen_before_yield seen me None = false.
Proof. reflexivity. Qed.

(* ------------------------------------------------------------------ *)
(* the ring                                                            *)

Definition newest (s : atomic_state) : nat := aindex (at_cnt s - 1).
Definition live (s : atomic_state) (i : nat) : Prop :=
  i < MAX_ATOMIC_HISTORY /\ i < at_cnt s.
Definition key (me : nat) (s : atomic_state) (i : nat) : nat :=
  vv_get (st_mo (get_store s i)) me.
(* the value a load must return *)
Definition cur (s : atomic_state) : N := st_value (get_store s (newest s)).

Lemma aindex_lt : forall c, aindex c < MAX_ATOMIC_HISTORY.
Proof. intros c. unfold aindex. apply Nat.mod_upper_bound. unfold MAX_ATOMIC_HISTORY. lia. Qed.

Lemma aindex_le : forall c, aindex c <= c.
Proof. intros c. unfold aindex. apply Nat.mod_le. unfold MAX_ATOMIC_HISTORY. lia. Qed.

Lemma live_newest : forall s, 1 <= at_cnt s -> live s (newest s).
Proof.
  intros s Hcnt. unfold live, newest. split.
  - apply aindex_lt.
  - pose proof (aindex_le (at_cnt s - 1)) as Hle. lia.
Qed.

(* a slot that is live after a store and is not the written slot was live before *)
Lemma live_after_store : forall c i,
  i < MAX_ATOMIC_HISTORY -> i < S c -> i <> aindex c -> i < c.
Proof.
  intros c i H7 HS Hne.
  destruct (Nat.lt_ge_cases c MAX_ATOMIC_HISTORY) as [Hsmall|Hbig].
  - unfold aindex in Hne. rewrite Nat.mod_small in Hne by exact Hsmall. lia.
  - lia.
Qed.

(* a dead index is never the slot about to be written once it stays dead *)
Lemma dead_not_written : forall c i, S c <= i -> i <> aindex c.
Proof. intros c i HS. pose proof (aindex_le c) as Hle. lia. Qed.

(* ------------------------------------------------------------------ *)
(* the invariant                                                       *)

Record Inv (me : nat) (s : atomic_state) (caus : vv) : Prop := mkInv {
  inv_me : me < length caus;
  inv_meT : me < MAX_THREADS;
  inv_len : length (at_stores s) = MAX_ATOMIC_HISTORY;
  inv_cnt : 1 <= at_cnt s;
  inv_mut : at_mutating s = false;
  inv_um : vle (at_unsync_mut s) caus;
  inv_ul : vle (at_unsync_loaded s) caus;
  inv_dead : forall i, at_cnt s <= i -> get_store s i = store_default;
  inv_keyle : forall i, key me s i <= vv_get caus me;
  inv_seen : forall i, live s i ->
     exists v, nth_error (st_seen (get_store s i)) me = Some (Some v) /\ v <= vv_get caus me;
  inv_max : forall i, live s i -> i <> newest s ->
     key me s i < key me s (newest s) /\
     vle (st_mo (get_store s i)) (st_mo (get_store s (newest s)));
  inv_distinct : forall i j, live s i -> live s j -> i <> j -> key me s i <> key me s j;
  inv_order : forall i j, live s i -> live s j -> key me s i < key me s j ->
     vle (st_mo (get_store s i)) (st_mo (get_store s j));
  (* the store of an RMW immediately follows the store it read: the source slot is live
     and no other live slot has its key between the two (when the source slot has been
     overwritten since, it holds a newer store and the first alternative holds) *)
  inv_rmw : forall r slot sid, live s r ->
     st_rmw_src (get_store s r) = Some (slot, sid) -> slot <> r ->
     live s slot /\
     forall i, live s i -> i <> r -> i <> slot ->
       key me s i < key me s slot \/ key me s r < key me s i
}.

(* every slot, live or dead, has a key <= the newest key *)
Lemma key_le_newest : forall me s caus i,
  Inv me s caus -> key me s i <= key me s (newest s).
Proof.
  intros me s caus i HI.
  destruct (Nat.eq_dec i (newest s)) as [Heq|Hne]; [subst i; lia|].
  destruct (Nat.lt_ge_cases i (at_cnt s)) as [Hlt|Hge].
  - destruct (Nat.lt_ge_cases i MAX_ATOMIC_HISTORY) as [H7|H7].
    + destruct (inv_max HI (conj H7 Hlt) Hne) as [Hk _]. lia.
    + unfold key at 1, get_store. rewrite nth_overflow by (rewrite (inv_len HI); exact H7).
      simpl. rewrite vv_new_get. lia.
  - unfold key at 1. rewrite (inv_dead HI Hge). simpl. rewrite vv_new_get. lia.
Qed.

Lemma live_seen : forall me s caus c' i,
  Inv me s caus -> vv_get caus me <= vv_get c' me -> live s i ->
  is_seen_by_current (st_seen (get_store s i)) c' = true.
Proof.
  intros me s caus c' i HI Hle Hlive.
  destruct (inv_seen HI Hlive) as [v [Hnth Hv]].
  apply (@is_seen_by_current_hit _ me v c' Hnth). lia.
Qed.

Lemma live_mo_neq : forall me s caus i j,
  Inv me s caus -> live s i -> live s j -> i <> j ->
  vv_eqb (st_mo (get_store s i)) (st_mo (get_store s j)) = false.
Proof.
  intros me s caus i j HI Hi Hj Hne.
  destruct (vv_eqb (st_mo (get_store s i)) (st_mo (get_store s j))) eqn:Heq; [|reflexivity].
  exfalso. rewrite vv_eqb_spec in Heq. specialize (Heq me).
  apply (inv_distinct HI Hi Hj Hne). exact Heq.
Qed.

Lemma newest_not_lt : forall me s caus j,
  Inv me s caus -> live s j -> j <> newest s ->
  vv_lt (st_mo (get_store s (newest s))) (st_mo (get_store s j)) = false.
Proof.
  intros me s caus j HI Hj Hne.
  destruct (vv_lt (st_mo (get_store s (newest s))) (st_mo (get_store s j))) eqn:Hlt; [|reflexivity].
  exfalso. rewrite vv_lt_spec in Hlt. destruct Hlt as [Hle _]. specialize (Hle me).
  destruct (inv_max HI Hj Hne) as [Hk _]. unfold key in Hk. lia.
Qed.

Lemma other_lt_newest : forall me s caus i,
  Inv me s caus -> live s i -> i <> newest s ->
  vv_lt (st_mo (get_store s i)) (st_mo (get_store s (newest s))) = true.
Proof.
  intros me s caus i HI Hi Hne. rewrite vv_lt_spec.
  destruct (inv_max HI Hi Hne) as [Hk Hle]. split; [exact Hle|].
  exists me. exact Hk.
Qed.

Theorem single_thread_mo_total : forall me s caus i j,
  Inv me s caus -> live s i -> live s j -> i <> j ->
  vv_eqb (st_mo (get_store s i)) (st_mo (get_store s j)) = false /\
  (vv_lt (st_mo (get_store s i)) (st_mo (get_store s j)) = true \/
   vv_lt (st_mo (get_store s j)) (st_mo (get_store s i)) = true).
Proof.
  intros me s caus i j HI Hi Hj Hne. split.
  - apply (live_mo_neq HI Hi Hj Hne).
  - pose proof (inv_distinct HI Hi Hj Hne) as Hd.
    destruct (Nat.lt_ge_cases (key me s i) (key me s j)) as [Hlt|Hge].
    + left. rewrite vv_lt_spec. split; [apply (inv_order HI Hi Hj Hlt)|].
      exists me. exact Hlt.
    + right. assert (Hlt : key me s j < key me s i) by lia.
      rewrite vv_lt_spec. split; [apply (inv_order HI Hj Hi Hlt)|].
      exists me. exact Hlt.
Qed.

(* ------------------------------------------------------------------ *)
(* candidates of a load                                                *)

Lemma mlts_inner_newest : forall me s caus c' o js,
  Inv me s caus ->
  (forall j, In j js -> j < MAX_ATOMIC_HISTORY) ->
  mlts_inner s me c' None o (newest s) js = Some true.
Proof.
  intros me s caus c' o js HI. induction js as [|j js IH]; intros Hjs.
  - reflexivity.
  - assert (IH' : mlts_inner s me c' None o (newest s) js = Some true).
    { apply IH. intros j' Hj'. apply Hjs. right. exact Hj'. }
    simpl.
    destruct (Nat.eqb_spec (newest s) j) as [Heq|Hne]; simpl; [exact IH'|].
    destruct (Nat.leb_spec (at_cnt s) j) as [Hdead|Hlt]; [exact IH'|].
    assert (Hj : live s j). { split; [apply Hjs; left; reflexivity | exact Hlt]. }
    assert (Hn : live s (newest s)) by (apply live_newest; apply (inv_cnt HI)).
    rewrite (live_mo_neq HI Hn Hj Hne).
    rewrite (newest_not_lt HI Hj) by lia.
    exact IH'.
Qed.

Lemma mlts_inner_other : forall me s caus c' o i js,
  Inv me s caus -> vv_get caus me <= vv_get c' me ->
  live s i -> i <> newest s ->
  (forall j, In j js -> j < MAX_ATOMIC_HISTORY) ->
  mlts_inner s me c' None o i js = Some false \/
  (~ In (newest s) js /\ mlts_inner s me c' None o i js = Some true).
Proof.
  intros me s caus c' o i js HI Hc Hi Hne.
  assert (Hn : live s (newest s)) by (apply live_newest; apply (inv_cnt HI)).
  induction js as [|j js IH]; intros Hjs.
  - right. split; [intros H; exact H | reflexivity].
  - assert (IH' : mlts_inner s me c' None o i js = Some false \/
                  (~ In (newest s) js /\ mlts_inner s me c' None o i js = Some true)).
    { apply IH. intros j' Hj'. apply Hjs. right. exact Hj'. }
    simpl.
    destruct (Nat.eqb_spec i j) as [Heq|Hij]; simpl.
    { destruct IH' as [IH'|[Hnin IH']]; [left; exact IH'|].
      right. split; [|exact IH']. intros [Hx|Hx]; [lia|contradiction]. }
    destruct (Nat.leb_spec (at_cnt s) j) as [Hdead|Hlt].
    { destruct IH' as [IH'|[Hnin IH']]; [left; exact IH'|].
      right. split; [|exact IH']. intros [Hx|Hx]; [|contradiction].
      destruct Hn as [_ Hn]. lia. }
    assert (Hj : live s j). { split; [apply Hjs; left; reflexivity | exact Hlt]. }
    rewrite (live_mo_neq HI Hi Hj Hij).
    destruct (vv_lt (st_mo (get_store s i)) (st_mo (get_store s j))) eqn:Hlt'.
    + rewrite (live_seen c' HI Hc Hj). left. reflexivity.
    + destruct IH' as [IH'|[Hnin IH']]; [left; exact IH'|].
      right. split; [|exact IH']. intros [Hx|Hx]; [|contradiction].
      subst j. rewrite (other_lt_newest HI Hi Hne) in Hlt'. discriminate.
Qed.

Lemma in_seq7 : forall j, In j (seq 0 MAX_ATOMIC_HISTORY) <-> j < MAX_ATOMIC_HISTORY.
Proof. intros j. rewrite in_seq. lia. Qed.

Lemma mlts_outer_filter : forall me s caus c' o is_,
  Inv me s caus -> vv_get caus me <= vv_get c' me ->
  (forall i, In i is_ -> i < MAX_ATOMIC_HISTORY) ->
  mlts_outer s me c' None o is_ = Some (filter (Nat.eqb (newest s)) is_).
Proof.
  intros me s caus c' o is_ HI Hc.
  assert (Hn : live s (newest s)) by (apply live_newest; apply (inv_cnt HI)).
  induction is_ as [|i rest IH]; intros His.
  - reflexivity.
  - assert (IH' : mlts_outer s me c' None o rest = Some (filter (Nat.eqb (newest s)) rest)).
    { apply IH. intros i' Hi'. apply His. right. exact Hi'. }
    cbn [mlts_outer mrts_outer filter].
    destruct (Nat.leb_spec (at_cnt s) i) as [Hdead|Hlt].
    { destruct (Nat.eqb_spec (newest s) i) as [Heq|Hne]; [|exact IH'].
      destruct Hn as [_ Hn]. lia. }
    destruct (Nat.eqb_spec (newest s) i) as [Heq|Hne].
    + subst i. rewrite (@mlts_inner_newest me s caus c' o (seq 0 MAX_ATOMIC_HISTORY) HI)
        by (intros j Hj; apply in_seq7; exact Hj).
      rewrite IH'. reflexivity.
    + assert (Hi : live s i). { split; [apply His; left; reflexivity | exact Hlt]. }
      assert (Hne' : i <> newest s) by lia.
      destruct (@mlts_inner_other me s caus c' o i (seq 0 MAX_ATOMIC_HISTORY) HI Hc Hi Hne') as [Hr|[Hnin _]].
      * intros j Hj. apply in_seq7. exact Hj.
      * rewrite Hr. rewrite IH'. reflexivity.
      * exfalso. apply Hnin. apply in_seq7. destruct Hn as [Hn _]. exact Hn.
Qed.

Lemma filter_eqb_seq7 : forall n, n < MAX_ATOMIC_HISTORY ->
  filter (Nat.eqb n) (seq 0 MAX_ATOMIC_HISTORY) = [n].
Proof.
  intros n Hn. unfold MAX_ATOMIC_HISTORY in *.
  destruct n as [|[|[|[|[|[|[|n]]]]]]]; try reflexivity. lia.
Qed.

Lemma load_candidates_gen : forall me s caus c' o,
  Inv me s caus -> vv_get caus me <= vv_get c' me ->
  match_load_to_stores s me c' None o = Some [newest s].
Proof.
  intros me s caus c' o HI Hc. unfold match_load_to_stores.
  rewrite (@mlts_outer_filter me s caus c' o (seq 0 MAX_ATOMIC_HISTORY) HI Hc)
    by (intros i Hi; apply in_seq7; exact Hi).
  rewrite filter_eqb_seq7 by apply aindex_lt. reflexivity.
Qed.

Theorem single_thread_load_candidates : forall me s caus,
  Inv me s caus ->
  forall o, match_load_to_stores s me (vv_inc caus me) None o = Some [aindex (at_cnt s - 1)].
Proof.
  intros me s caus HI o. apply (@load_candidates_gen me s caus (vv_inc caus me) o HI). apply vle_inc.
Qed.

(* ------------------------------------------------------------------ *)
(* candidates of an rmw                                                *)

Lemma mrts_inner_newest : forall me s caus js,
  Inv me s caus ->
  (forall j, In j js -> j < MAX_ATOMIC_HISTORY) ->
  mrts_inner s (newest s) js = Some true.
Proof.
  intros me s caus js HI. induction js as [|j js IH]; intros Hjs.
  - reflexivity.
  - assert (IH' : mrts_inner s (newest s) js = Some true).
    { apply IH. intros j' Hj'. apply Hjs. right. exact Hj'. }
    simpl.
    destruct (Nat.eqb_spec (newest s) j) as [Heq|Hne]; simpl; [exact IH'|].
    destruct (Nat.leb_spec (at_cnt s) j) as [Hdead|Hlt]; [exact IH'|].
    assert (Hj : live s j). { split; [apply Hjs; left; reflexivity | exact Hlt]. }
    assert (Hn : live s (newest s)) by (apply live_newest; apply (inv_cnt HI)).
    rewrite (live_mo_neq HI Hn Hj Hne).
    rewrite (newest_not_lt HI Hj) by lia.
    exact IH'.
Qed.

Lemma mrts_inner_other : forall me s caus i js,
  Inv me s caus -> live s i -> i <> newest s ->
  (forall j, In j js -> j < MAX_ATOMIC_HISTORY) ->
  mrts_inner s i js = Some false \/
  (~ In (newest s) js /\ mrts_inner s i js = Some true).
Proof.
  intros me s caus i js HI Hi Hne.
  assert (Hn : live s (newest s)) by (apply live_newest; apply (inv_cnt HI)).
  induction js as [|j js IH]; intros Hjs.
  - right. split; [intros H; exact H | reflexivity].
  - assert (IH' : mrts_inner s i js = Some false \/
                  (~ In (newest s) js /\ mrts_inner s i js = Some true)).
    { apply IH. intros j' Hj'. apply Hjs. right. exact Hj'. }
    simpl.
    destruct (Nat.eqb_spec i j) as [Heq|Hij]; simpl.
    { destruct IH' as [IH'|[Hnin IH']]; [left; exact IH'|].
      right. split; [|exact IH']. intros [Hx|Hx]; [lia|contradiction]. }
    destruct (Nat.leb_spec (at_cnt s) j) as [Hdead|Hlt].
    { destruct IH' as [IH'|[Hnin IH']]; [left; exact IH'|].
      right. split; [|exact IH']. intros [Hx|Hx]; [|contradiction].
      destruct Hn as [_ Hn]. lia. }
    assert (Hj : live s j). { split; [apply Hjs; left; reflexivity | exact Hlt]. }
    rewrite (live_mo_neq HI Hi Hj Hij).
    destruct (vv_lt (st_mo (get_store s i)) (st_mo (get_store s j))) eqn:Hlt'.
    + left. reflexivity.
    + destruct IH' as [IH'|[Hnin IH']]; [left; exact IH'|].
      right. split; [|exact IH']. intros [Hx|Hx]; [|contradiction].
      subst j. rewrite (other_lt_newest HI Hi Hne) in Hlt'. discriminate.
Qed.

Lemma mrts_outer_filter : forall me s caus is_,
  Inv me s caus ->
  (forall i, In i is_ -> i < MAX_ATOMIC_HISTORY) ->
  mrts_outer s is_ = Some (filter (Nat.eqb (newest s)) is_).
Proof.
  intros me s caus is_ HI.
  assert (Hn : live s (newest s)) by (apply live_newest; apply (inv_cnt HI)).
  induction is_ as [|i rest IH]; intros His.
  - reflexivity.
  - assert (IH' : mrts_outer s rest = Some (filter (Nat.eqb (newest s)) rest)).
    { apply IH. intros i' Hi'. apply His. right. exact Hi'. }
    cbn [mlts_outer mrts_outer filter].
    destruct (Nat.leb_spec (at_cnt s) i) as [Hdead|Hlt].
    { destruct (Nat.eqb_spec (newest s) i) as [Heq|Hne]; [|exact IH'].
      destruct Hn as [_ Hn]. lia. }
    destruct (Nat.eqb_spec (newest s) i) as [Heq|Hne].
    + subst i. rewrite (@mrts_inner_newest me s caus (seq 0 MAX_ATOMIC_HISTORY) HI)
        by (intros j Hj; apply in_seq7; exact Hj).
      rewrite IH'. reflexivity.
    + assert (Hi : live s i). { split; [apply His; left; reflexivity | exact Hlt]. }
      assert (Hne' : i <> newest s) by lia.
      destruct (@mrts_inner_other me s caus i (seq 0 MAX_ATOMIC_HISTORY) HI Hi Hne') as [Hr|[Hnin _]].
      * intros j Hj. apply in_seq7. exact Hj.
      * rewrite Hr. rewrite IH'. reflexivity.
      * exfalso. apply Hnin. apply in_seq7. destruct Hn as [Hn _]. exact Hn.
Qed.

Theorem single_thread_rmw_candidates : forall me s caus,
  Inv me s caus -> match_rmw_to_stores s = Some [aindex (at_cnt s - 1)].
Proof.
  intros me s caus HI. unfold match_rmw_to_stores.
  rewrite (@mrts_outer_filter me s caus (seq 0 MAX_ATOMIC_HISTORY) HI)
    by (intros i Hi; apply in_seq7; exact Hi).
  rewrite filter_eqb_seq7 by apply aindex_lt. reflexivity.
Qed.

(* ------------------------------------------------------------------ *)
(* state changes that leave the stores alone                           *)

Lemma Inv_frame : forall me s s' caus,
  Inv me s caus ->
  at_mutating s' = at_mutating s -> at_unsync_mut s' = at_unsync_mut s ->
  at_unsync_loaded s' = at_unsync_loaded s ->
  at_stores s' = at_stores s -> at_cnt s' = at_cnt s ->
  Inv me s' caus.
Proof.
  intros me s s' caus HI Hm Hum Hul Hst Hc.
  destruct s as [lo ul sd um mu ll ln st cn].
  destruct s' as [lo' ul' sd' um' mu' ll' ln' st' cn'].
  simpl in Hm, Hum, Hul, Hst, Hc. subst mu' um' ul' st' cn'.
  destruct HI as [H1 H2 H3 H4 H5 H6 H7 H8 H9 H10 H11 H12 H13 H14].
  constructor; assumption.
Qed.

Definition tl_state (s : atomic_state) (caus : vv) : atomic_state :=
  mkAtomic (vv_join (at_loaded s) caus) (at_unsync_loaded s) (at_stored s)
           (at_unsync_mut s) (at_mutating s) (at_last_loads s) (at_last_nonload s)
           (at_stores s) (at_cnt s).
Definition ts_state (s : atomic_state) (caus : vv) : atomic_state :=
  mkAtomic (at_loaded s) (at_unsync_loaded s) (vv_join (at_stored s) caus)
           (at_unsync_mut s) (at_mutating s) (at_last_loads s) (at_last_nonload s)
           (at_stores s) (at_cnt s).

Lemma track_load_ok : forall me s caus c',
  Inv me s caus -> vle caus c' -> track_load s c' = inl (tl_state s c').
Proof.
  intros me s caus c' HI Hc. unfold track_load, tl_state.
  pose proof (inv_mut HI) as Hm. destruct (at_mutating s); [discriminate|].
  assert (Ha : vv_ahead c' (at_unsync_mut s) = None).
  { apply vv_ahead_none. eapply vle_trans; [apply (inv_um HI) | exact Hc]. }
  rewrite Ha. reflexivity.
Qed.

Lemma track_store_ok : forall me s caus c',
  Inv me s caus -> vle caus c' -> track_store s c' = inl (ts_state s c').
Proof.
  intros me s caus c' HI Hc. unfold track_store, ts_state.
  pose proof (inv_mut HI) as Hm. destruct (at_mutating s); [discriminate|].
  assert (Ha : vv_ahead c' (at_unsync_mut s) = None).
  { apply vv_ahead_none. eapply vle_trans; [apply (inv_um HI) | exact Hc]. }
  assert (Hb : vv_ahead c' (at_unsync_loaded s) = None).
  { apply vv_ahead_none. eapply vle_trans; [apply (inv_ul HI) | exact Hc]. }
  rewrite Ha, Hb. reflexivity.
Qed.

Lemma Inv_tl : forall me s caus c', Inv me s caus -> Inv me (tl_state s c') caus.
Proof. intros me s caus c' HI. apply (@Inv_frame me s (tl_state s c') caus HI); reflexivity. Qed.

Lemma Inv_ts : forall me s caus c', Inv me s caus -> Inv me (ts_state s c') caus.
Proof. intros me s caus c' HI. apply (@Inv_frame me s (ts_state s c') caus HI); reflexivity. Qed.

(* the invariant only gets weaker when the thread's clock grows *)
Lemma Inv_mono : forall me s caus c',
  Inv me s caus -> vle caus c' -> me < length c' -> Inv me s c'.
Proof.
  intros me s caus c' HI Hc Hlen.
  pose proof (Hc me) as Hme.
  destruct HI as [H1 H2 H3 H4 H5 H6 H7 H8 H9 H10 H11 H12 H13 H14].
  constructor; try assumption.
  - eapply vle_trans; [exact H6 | exact Hc].
  - eapply vle_trans; [exact H7 | exact Hc].
  - intros i. specialize (H9 i). lia.
  - intros i Hi. destruct (H10 i Hi) as [v [Hnth Hv]]. exists v. split; [exact Hnth | lia].
Qed.

(* ------------------------------------------------------------------ *)
(* State::store preserves the invariant                                *)

Lemma get_store_set : forall s idx x c i,
  idx < length (at_stores s) ->
  get_store (at_set_stores s (list_set (at_stores s) idx x) c) i =
  if Nat.eqb i idx then x else get_store s i.
Proof.
  intros s idx x c i Hlt. unfold get_store. simpl. apply list_set_nth. exact Hlt.
Qed.

Definition store_mo (s : atomic_state) (c' : vv) : vv :=
  fold_left
    (fun mo x => if is_seen_by_current (st_seen x) c' then vv_join mo (st_mo x) else mo)
    (at_stores s) c'.

Lemma store_mo_key : forall me s caus c',
  Inv me s caus -> vv_get caus me <= vv_get c' me ->
  vv_get (store_mo s c') me = vv_get c' me.
Proof.
  intros me s caus c' HI Hc. unfold store_mo.
  apply (@fold_keep astore _ (fun x => vv_get (st_mo x) me) me).
  - intros mo a Hb. destruct (is_seen_by_current (st_seen a) c'); [|reflexivity].
    rewrite vv_get_join. lia.
  - intros a Ha. apply (In_nth _ _ store_default) in Ha. destruct Ha as [i [_ Hi]].
    pose proof (inv_keyle HI i) as Hk. unfold key, get_store in Hk. rewrite Hi in Hk. lia.
Qed.

Lemma store_mo_ge : forall me s caus c' i,
  Inv me s caus -> vv_get caus me <= vv_get c' me -> live s i ->
  vle (st_mo (get_store s i)) (store_mo s c').
Proof.
  intros me s caus c' i HI Hc Hi. unfold store_mo.
  apply (@fold_in astore _ st_mo (fun x => is_seen_by_current (st_seen x) c')).
  - intros mo a. destruct (is_seen_by_current (st_seen a) c'); [apply vle_join_l | apply vle_refl].
  - intros mo a Hp. rewrite Hp. apply vle_join_r.
  - unfold get_store. apply nth_In. rewrite (inv_len HI). destruct Hi as [Hi _]. exact Hi.
  - apply (live_seen c' HI Hc Hi).
Qed.

(* ---- the RMW-atomicity passes ---- *)
(* a pass leaves [mo] alone when it already dominates every st_mo of the ring *)
Lemma fold_left_fix : forall (A B : Type) (f : B -> A -> B) (b : B) (l : list A),
  (forall a, In a l -> f b a = b) -> fold_left f l b = b.
Proof.
  intros A B f b l. induction l as [|a l IH]; intros Hfix.
  - reflexivity.
  - cbn [fold_left]. rewrite (Hfix a) by (left; reflexivity).
    apply IH. intros a' Ha'. apply Hfix. right. exact Ha'.
Qed.

Lemma rmw_atomicity_pass_id : forall stores src mo,
  (forall x, In x stores -> vv_le (st_mo x) mo = true) ->
  rmw_atomicity_pass stores src mo = (mo, false).
Proof.
  intros stores src mo Hdom. unfold rmw_atomicity_pass.
  apply fold_left_fix. intros a Ha. cbv beta iota.
  destruct (st_rmw_src a) as [[slot sid]|]; [|reflexivity].
  destruct (src_eqb (Some (slot, sid)) src); [reflexivity|].
  cbv zeta.
  destruct (negb (Nat.eqb (st_id (nth slot stores store_default)) sid)); [reflexivity|].
  rewrite (Hdom a Ha). cbn [negb]. rewrite Bool.andb_false_r. reflexivity.
Qed.

Lemma rmw_atomicity_id : forall fuel stores src mo,
  (forall x, In x stores -> vv_le (st_mo x) mo = true) ->
  rmw_atomicity fuel stores src mo = mo.
Proof.
  intros fuel stores src mo Hdom. destruct fuel as [|f]; [reflexivity|].
  cbn [rmw_atomicity]. rewrite (@rmw_atomicity_pass_id stores src mo Hdom). reflexivity.
Qed.

(* in a single-thread run the new store's modification order before the passes
   already dominates every st_mo of the ring (live slots: store_mo_ge; dead
   slots are store_default with st_mo = vv_new) *)
Lemma store_mo_dominates : forall me s caus c' x,
  Inv me s caus -> vv_get caus me <= vv_get c' me ->
  In x (at_stores s) -> vv_le (st_mo x) (store_mo s c') = true.
Proof.
  intros me s caus c' x HI Hc Hin. apply vv_le_spec.
  apply (In_nth _ _ store_default) in Hin. destruct Hin as [i [Hi Hx]].
  rewrite (inv_len HI) in Hi.
  destruct (Nat.lt_ge_cases i (at_cnt s)) as [Hlt|Hge].
  - subst x. apply (@store_mo_ge me s caus c' i HI Hc). split; assumption.
  - pose proof (inv_dead HI Hge) as Hd. unfold get_store in Hd.
    subst x. rewrite Hd. simpl. apply vle_new.
Qed.

(* so the passes change nothing: the state after State::store_from *)
Lemma atomic_store_from_eq : forall me s caus c' rel sync0 v o src,
  Inv me s caus -> vv_get caus me <= vv_get c' me ->
  atomic_store_from s me c' rel sync0 v o src =
  at_set_stores s
    (list_set (at_stores s) (aindex (at_cnt s))
       (mkStore v c' (store_mo s c') (sync_store sync0 c' rel o)
                (seen_touch seen_new me (vv_get c' me)) (is_seq_cst o) (at_cnt s) src))
    (S (at_cnt s)).
Proof.
  intros me s caus c' rel sync0 v o src HI Hc.
  unfold atomic_store_from. cbv zeta. fold (store_mo s c').
  rewrite rmw_atomicity_id; [reflexivity|].
  intros x Hx. apply (@store_mo_dominates me s caus c' x HI Hc Hx).
Qed.

(* [src] is None (State::store) or names the newest slot (State::rmw, which reads it) *)
Lemma atomic_store_from_inv : forall me s caus c' rel sync0 v o src,
  Inv me s caus -> vle caus c' -> vv_get caus me < vv_get c' me -> me < length c' ->
  (forall slot sid, src = Some (slot, sid) -> slot = newest s) ->
  Inv me (atomic_store_from s me c' rel sync0 v o src) c' /\
  cur (atomic_store_from s me c' rel sync0 v o src) = v.
Proof.
  intros me s caus c' rel sync0 v o src HI Hc Hlt Hlen Hsrc.
  assert (Hc' : vv_get caus me <= vv_get c' me) by lia.
  pose proof (aindex_lt (at_cnt s)) as Hidx.
  assert (Hidx' : aindex (at_cnt s) < length (at_stores s)) by (rewrite (inv_len HI); exact Hidx).
  rewrite (@atomic_store_from_eq me s caus c' rel sync0 v o src HI Hc').
  set (x := mkStore v c' (store_mo s c') (sync_store sync0 c' rel o)
                    (seen_touch seen_new me (vv_get c' me)) (is_seq_cst o) (at_cnt s) src).
  set (s' := at_set_stores s (list_set (at_stores s) (aindex (at_cnt s)) x) (S (at_cnt s))).
  assert (Hcnt : at_cnt s' = S (at_cnt s)) by reflexivity.
  assert (Hnew : newest s' = aindex (at_cnt s)).
  { unfold newest. rewrite Hcnt. simpl. rewrite Nat.sub_0_r. reflexivity. }
  assert (Hget : forall i, get_store s' i = if Nat.eqb i (aindex (at_cnt s)) then x else get_store s i).
  { intros i. apply (get_store_set s x (S (at_cnt s)) i Hidx'). }
  assert (Hgetn : get_store s' (aindex (at_cnt s)) = x).
  { rewrite Hget. rewrite Nat.eqb_refl. reflexivity. }
  assert (Hgeto : forall i, i <> aindex (at_cnt s) -> get_store s' i = get_store s i).
  { intros i Hi. rewrite Hget. destruct (Nat.eqb_spec i (aindex (at_cnt s))); [contradiction|reflexivity]. }
  assert (Hkeyn : key me s' (aindex (at_cnt s)) = vv_get c' me).
  { unfold key. rewrite Hgetn. simpl. apply (store_mo_key c' HI Hc'). }
  assert (Hkeyo : forall i, i <> aindex (at_cnt s) -> key me s' i = key me s i).
  { intros i Hi. unfold key. rewrite (Hgeto i Hi). reflexivity. }
  assert (Hlive : forall i, live s' i -> i <> aindex (at_cnt s) -> live s i).
  { intros i [H7 HS] Hi. rewrite Hcnt in HS. split; [exact H7|].
    apply (live_after_store H7 HS Hi). }
  split.
  2:{ unfold cur. rewrite Hnew. rewrite Hgetn. reflexivity. }
  constructor.
  - exact Hlen.
  - apply (inv_meT HI).
  - change (length (list_set (at_stores s) (aindex (at_cnt s)) x) = MAX_ATOMIC_HISTORY).
    rewrite list_set_length. apply (inv_len HI).
  - rewrite Hcnt. lia.
  - apply (inv_mut HI).
  - eapply vle_trans; [apply (inv_um HI) | exact Hc].
  - eapply vle_trans; [apply (inv_ul HI) | exact Hc].
  - intros i Hi. rewrite Hcnt in Hi. rewrite Hgeto by (apply dead_not_written; exact Hi).
    apply (inv_dead HI). lia.
  - intros i. destruct (Nat.eq_dec i (aindex (at_cnt s))) as [Heq|Hne].
    + subst i. rewrite Hkeyn. lia.
    + rewrite (Hkeyo i Hne). pose proof (inv_keyle HI i) as Hki. lia.
  - intros i Hi. destruct (Nat.eq_dec i (aindex (at_cnt s))) as [Heq|Hne].
    + subst i. rewrite Hgetn. exists (vv_get c' me). split; [|lia].
      simpl. apply seen_touch_new. apply (inv_meT HI).
    + rewrite (Hgeto i Hne). destruct (inv_seen HI (Hlive i Hi Hne)) as [w [Hnth Hw]].
      exists w. split; [exact Hnth | lia].
  - intros i Hi Hne. rewrite Hnew in Hne. rewrite Hnew.
    rewrite Hkeyn, (Hkeyo i Hne), Hgetn, (Hgeto i Hne). split.
    + pose proof (inv_keyle HI i) as Hki. lia.
    + simpl. apply (store_mo_ge c' HI Hc' (Hlive i Hi Hne)).
  - intros i j Hi Hj Hij.
    destruct (Nat.eq_dec i (aindex (at_cnt s))) as [Hie|Hie];
    destruct (Nat.eq_dec j (aindex (at_cnt s))) as [Hje|Hje].
    + lia.
    + subst i. rewrite Hkeyn, (Hkeyo j Hje). pose proof (inv_keyle HI j) as Hkj. lia.
    + subst j. rewrite Hkeyn, (Hkeyo i Hie). pose proof (inv_keyle HI i) as Hki. lia.
    + rewrite (Hkeyo i Hie), (Hkeyo j Hje).
      apply (inv_distinct HI (Hlive i Hi Hie) (Hlive j Hj Hje) Hij).
  - intros i j Hi Hj Hk.
    destruct (Nat.eq_dec j (aindex (at_cnt s))) as [Hje|Hje].
    + subst j. destruct (Nat.eq_dec i (aindex (at_cnt s))) as [Hie|Hie]; [subst i; lia|].
      rewrite Hgetn, (Hgeto i Hie). simpl. apply (store_mo_ge c' HI Hc' (Hlive i Hi Hie)).
    + destruct (Nat.eq_dec i (aindex (at_cnt s))) as [Hie|Hie].
      * subst i. rewrite Hkeyn, (Hkeyo j Hje) in Hk. pose proof (inv_keyle HI j) as Hkj. lia.
      * rewrite (Hkeyo i Hie), (Hkeyo j Hje) in Hk. rewrite (Hgeto i Hie), (Hgeto j Hje).
        apply (inv_order HI (Hlive i Hi Hie) (Hlive j Hj Hje) Hk).
  - intros r slot sid Hr Hsrc_r Hsr.
    assert (Hup : forall i, live s i -> live s' i).
    { intros i [H7 Hi]. split; [exact H7 | rewrite Hcnt; lia]. }
    assert (Hidxlive : live s' (aindex (at_cnt s))).
    { split; [exact Hidx | rewrite Hcnt; pose proof (aindex_le (at_cnt s)) as Hle; lia]. }
    assert (Hold : forall i, i <> aindex (at_cnt s) ->
                     key me s' i < key me s' (aindex (at_cnt s))).
    { intros i Hi. rewrite Hkeyn, (Hkeyo i Hi). pose proof (inv_keyle HI i) as Hki. lia. }
    destruct (Nat.eq_dec r (aindex (at_cnt s))) as [Hre|Hre].
    + (* the new store: its source is the slot that was newest *)
      subst r. rewrite Hgetn in Hsrc_r. change (st_rmw_src x) with src in Hsrc_r.
      pose proof (Hsrc slot sid Hsrc_r) as Hslot. subst slot.
      assert (Hn : live s (newest s)) by (apply live_newest; apply (inv_cnt HI)).
      split; [apply Hup; exact Hn|].
      intros i Hi Hir His. left.
      rewrite (Hkeyo i Hir), (Hkeyo (newest s) Hsr).
      destruct (inv_max HI (Hlive i Hi Hir) His) as [Hk _]. exact Hk.
    + rewrite (Hgeto r Hre) in Hsrc_r. pose proof (Hlive r Hr Hre) as Hr0.
      destruct (Nat.eq_dec slot (aindex (at_cnt s))) as [Hse|Hse].
      * (* the source slot is overwritten: it now holds the largest key *)
        subst slot. split; [exact Hidxlive|]. intros i Hi Hir His. left. apply Hold. exact His.
      * destruct (inv_rmw HI Hr0 Hsrc_r Hsr) as [Hsl Hbet]. split; [apply Hup; exact Hsl|].
        intros i Hi Hir His.
        destruct (Nat.eq_dec i (aindex (at_cnt s))) as [Hie|Hie].
        -- subst i. right. apply Hold. exact Hre.
        -- rewrite (Hkeyo i Hie), (Hkeyo slot Hse), (Hkeyo r Hre).
           apply Hbet; [apply (Hlive i Hi Hie) | exact Hir | exact His].
Qed.

Lemma atomic_store_inv : forall me s caus c' rel sync0 v o,
  Inv me s caus -> vle caus c' -> vv_get caus me < vv_get c' me -> me < length c' ->
  Inv me (atomic_store s me c' rel sync0 v o) c' /\
  cur (atomic_store s me c' rel sync0 v o) = v.
Proof.
  intros me s caus c' rel sync0 v o HI Hc Hlt Hlen. unfold atomic_store.
  apply (atomic_store_from_inv rel sync0 v o HI Hc Hlt Hlen).
  intros slot sid Hsrc. discriminate.
Qed.

(* ------------------------------------------------------------------ *)
(* the load part shared by State::load and State::rmw                  *)

Definition loadpart (s1 : atomic_state) (me : nat) (caus : vv) (index : nat) : atomic_state :=
  let s2 := apply_load_coherence s1 caus index in
  at_set_stores s2
    (list_upd (at_stores s2) index
       (fun x => st_set_seen x (seen_touch (st_seen x) me (vv_get caus me))))
    (at_cnt s2).

Lemma atomic_load_unfold : forall s me caus index o,
  atomic_load s me caus index o =
  match track_load s caus with
  | inr p => inr p
  | inl s1 =>
      let s3 := loadpart s1 me caus index in
      let x := get_store s3 index in
      inl (s3, sync_load caus (st_sync x) o, st_value x)
  end.
Proof. reflexivity. Qed.

Lemma atomic_rmw_unfold : forall s me caus released index so fo f,
  atomic_rmw s me caus released index so fo f =
  match track_load s caus with
  | inr p => inr p
  | inl s1 =>
      let s3 := loadpart s1 me caus index in
      let prev := st_value (get_store s3 index) in
      match f prev with
      | Some next =>
          match track_store s3 caus with
          | inr p => inr p
          | inl s4 =>
              let sync := st_sync (get_store s4 index) in
              let caus' := sync_load caus sync so in
              let s5 := atomic_store_from s4 me caus' released sync next so
                          (Some (index, st_id (get_store s4 index))) in
              inl (s5, caus', prev, true)
          end
      | None =>
          inl (s3, sync_load caus (st_sync (get_store s3 index)) fo, prev, false)
      end
  end.
Proof. reflexivity. Qed.

(* the modification order computed by apply_load_coherence *)
Definition alc_mo (s : atomic_state) (caus : vv) (index : nat) : vv :=
  fold_left
    (fun mo (ix : nat * astore) =>
       let '(i, x) := ix in
       if Nat.eqb index i then mo
       else
         let mo := if is_seen_by_current (st_seen x) caus then vv_join mo (st_mo x) else mo in
         if vv_lt (st_hb x) caus then vv_join mo (st_mo x) else mo)
    (index_list (at_stores s)) (st_mo (get_store s index)).

Lemma alc_mo_ge : forall s caus index,
  vle (st_mo (get_store s index)) (alc_mo s caus index).
Proof.
  intros s caus index. unfold alc_mo. apply fold_grow.
  intros mo [i x]. destruct (Nat.eqb index i); [apply vle_refl|].
  destruct (is_seen_by_current (st_seen x) caus); destruct (vv_lt (st_hb x) caus);
    intros k; rewrite ?vv_get_join; lia.
Qed.

Lemma alc_mo_key : forall me s caus c' ,
  Inv me s caus ->
  vv_get (alc_mo s c' (newest s)) me = key me s (newest s).
Proof.
  intros me s caus c' HI. unfold alc_mo, key.
  apply (@fold_keep (nat * astore) _ (fun ix => vv_get (st_mo (snd ix)) me) me).
  - intros mo [i x] Hb. simpl in Hb. destruct (Nat.eqb (newest s) i); [reflexivity|].
    destruct (is_seen_by_current (st_seen x) c'); destruct (vv_lt (st_hb x) c');
      rewrite ?vv_get_join; lia.
  - intros [i x] Hin. simpl. apply (@index_list_In astore _ i x store_default) in Hin.
    destruct Hin as [_ Hx]. subst x.
    apply (key_le_newest i HI).
Qed.

(* no slot of the ring, live or unused, is ordered after the newest store: live slots
   have a strictly smaller key ([newest_not_lt]); unused slots are [store_default],
   whose st_mo is the zero clock *)
Lemma newest_not_lt_any : forall me s caus j,
  Inv me s caus -> j <> newest s ->
  vv_lt (st_mo (get_store s (newest s))) (st_mo (get_store s j)) = false.
Proof.
  intros me s caus j HI Hne.
  destruct (Nat.lt_ge_cases j (at_cnt s)) as [Hlt|Hge].
  - destruct (Nat.lt_ge_cases j MAX_ATOMIC_HISTORY) as [H7|H7].
    + apply (newest_not_lt HI (conj H7 Hlt) Hne).
    + unfold get_store at 2. rewrite nth_overflow by (rewrite (inv_len HI); exact H7).
      destruct (vv_lt (st_mo (get_store s (newest s))) (st_mo store_default)) eqn:Hvl; [|reflexivity].
      exfalso. rewrite vv_lt_spec in Hvl. destruct Hvl as [_ [k Hk]].
      change (st_mo store_default) with vv_new in Hk. rewrite vv_new_get in Hk. lia.
  - rewrite (inv_dead HI Hge).
    destruct (vv_lt (st_mo (get_store s (newest s))) (st_mo store_default)) eqn:Hvl; [|reflexivity].
    exfalso. rewrite vv_lt_spec in Hvl. destruct Hvl as [_ [k Hk]].
    change (st_mo store_default) with vv_new in Hk. rewrite vv_new_get in Hk. lia.
Qed.

(* [s'] is [s] with the st_mo of the newest slot enlarged, its me-component kept *)
Record bumped (me : nat) (s s' : atomic_state) : Prop := mkBumped {
  bu_cnt : at_cnt s' = at_cnt s;
  bu_len : length (at_stores s') = length (at_stores s);
  bu_mut : at_mutating s' = at_mutating s;
  bu_um : at_unsync_mut s' = at_unsync_mut s;
  bu_ul : at_unsync_loaded s' = at_unsync_loaded s;
  bu_other : forall i, i <> newest s -> get_store s' i = get_store s i;
  bu_value : st_value (get_store s' (newest s)) = st_value (get_store s (newest s));
  bu_seen : st_seen (get_store s' (newest s)) = st_seen (get_store s (newest s));
  bu_mo : vle (st_mo (get_store s (newest s))) (st_mo (get_store s' (newest s)));
  bu_key : key me s' (newest s) = key me s (newest s);
  bu_src : st_rmw_src (get_store s' (newest s)) = st_rmw_src (get_store s (newest s))
}.

Lemma bumped_inv : forall me s s' caus,
  Inv me s caus -> bumped me s s' -> Inv me s' caus /\ cur s' = cur s.
Proof.
  intros me s s' caus HI HB.
  assert (Hn : live s (newest s)) by (apply live_newest; apply (inv_cnt HI)).
  assert (Hnew : newest s' = newest s) by (unfold newest; rewrite (bu_cnt HB); reflexivity).
  assert (Hlive : forall i, live s' i <-> live s i).
  { intros i. unfold live. rewrite (bu_cnt HB). tauto. }
  assert (Hkey : forall i, key me s' i = key me s i).
  { intros i. destruct (Nat.eq_dec i (newest s)) as [Heq|Hne].
    - subst i. apply (bu_key HB).
    - unfold key. rewrite (bu_other HB Hne). reflexivity. }
  split.
  2:{ unfold cur. rewrite Hnew. apply (bu_value HB). }
  constructor.
  - apply (inv_me HI).
  - apply (inv_meT HI).
  - rewrite (bu_len HB). apply (inv_len HI).
  - rewrite (bu_cnt HB). apply (inv_cnt HI).
  - rewrite (bu_mut HB). apply (inv_mut HI).
  - rewrite (bu_um HB). apply (inv_um HI).
  - rewrite (bu_ul HB). apply (inv_ul HI).
  - intros i Hi. rewrite (bu_cnt HB) in Hi.
    assert (Hne : i <> newest s) by (destruct Hn as [_ Hn]; lia).
    rewrite (bu_other HB Hne). apply (inv_dead HI Hi).
  - intros i. rewrite Hkey. apply (inv_keyle HI).
  - intros i Hi. apply Hlive in Hi. destruct (Nat.eq_dec i (newest s)) as [Heq|Hne].
    + subst i. rewrite (bu_seen HB). apply (inv_seen HI Hi).
    + rewrite (bu_other HB Hne). apply (inv_seen HI Hi).
  - intros i Hi Hne. apply Hlive in Hi. rewrite Hnew in Hne. rewrite Hnew, !Hkey.
    destruct (inv_max HI Hi Hne) as [Hk Hle]. split; [exact Hk|].
    rewrite (bu_other HB Hne). eapply vle_trans; [exact Hle | apply (bu_mo HB)].
  - intros i j Hi Hj Hij. apply Hlive in Hi. apply Hlive in Hj. rewrite !Hkey.
    apply (inv_distinct HI Hi Hj Hij).
  - intros i j Hi Hj Hk. apply Hlive in Hi. apply Hlive in Hj. rewrite !Hkey in Hk.
    pose proof (key_le_newest j HI) as Hjn.
    assert (Hine : i <> newest s) by (intros Heq; subst i; lia).
    rewrite (bu_other HB Hine).
    destruct (Nat.eq_dec j (newest s)) as [Heq|Hne].
    + subst j. destruct (inv_max HI Hi Hine) as [_ Hle].
      eapply vle_trans; [exact Hle | apply (bu_mo HB)].
    + rewrite (bu_other HB Hne). apply (inv_order HI Hi Hj Hk).
  - intros r slot sid Hr Hsrc Hsr. apply Hlive in Hr.
    assert (Hsrc0 : st_rmw_src (get_store s r) = Some (slot, sid)).
    { destruct (Nat.eq_dec r (newest s)) as [Heq|Hne].
      - subst r. rewrite <- (bu_src HB). exact Hsrc.
      - rewrite <- (bu_other HB Hne). exact Hsrc. }
    destruct (inv_rmw HI Hr Hsrc0 Hsr) as [Hsl Hbet].
    split; [apply Hlive; exact Hsl|].
    intros i Hi Hir His. apply Hlive in Hi. rewrite !Hkey. apply (Hbet i Hi Hir His).
Qed.

(* ---- the RMW-atomicity closure at the end of apply_load_coherence ---- *)
(* under the invariant neither rule of [close_step] fires: the live slots are totally
   ordered by their key and no live key lies between an RMW's source and the RMW *)
Lemma close_step_id : forall me s caus r i,
  Inv me s caus -> live s r -> live s i ->
  close_step (at_stores s, false) (r, i) = (at_stores s, false).
Proof.
  intros me s caus r i HI Hr Hi. unfold close_step. cbv beta iota zeta.
  fold (get_store s r). fold (get_store s i).
  destruct (st_rmw_src (get_store s r)) as [[slot sid]|] eqn:Hsrc; [|reflexivity].
  fold (get_store s slot).
  destruct (negb (Nat.eqb slot r) && Nat.eqb (st_id (get_store s slot)) sid) eqn:Hc;
    [|reflexivity].
  destruct (Nat.eqb i r || Nat.eqb i slot) eqn:Hex; [reflexivity|].
  apply Bool.andb_true_iff in Hc. destruct Hc as [Hsr _].
  apply Bool.negb_true_iff in Hsr. apply Nat.eqb_neq in Hsr.
  apply Bool.orb_false_iff in Hex. destruct Hex as [Hir His].
  apply Nat.eqb_neq in Hir. apply Nat.eqb_neq in His.
  destruct (inv_rmw HI Hr Hsrc Hsr) as [Hsl Hbet].
  specialize (Hbet i Hi Hir His).
  assert (HA : vv_le (st_mo (get_store s slot)) (st_mo (get_store s i)) &&
               negb (vv_le (st_mo (get_store s r)) (st_mo (get_store s i))) = false).
  { destruct (vv_le (st_mo (get_store s slot)) (st_mo (get_store s i))) eqn:E1; [|reflexivity].
    cbn [andb]. apply Bool.negb_false_iff. apply vv_le_spec.
    apply vv_le_spec in E1. specialize (E1 me).
    pose proof (inv_distinct HI Hi Hsl His) as Hd.
    apply (inv_order HI Hr Hi). unfold key in *. lia. }
  assert (HB : vv_le (st_mo (get_store s i)) (st_mo (get_store s r)) &&
               negb (vv_le (st_mo (get_store s i)) (st_mo (get_store s slot))) = false).
  { destruct (vv_le (st_mo (get_store s i)) (st_mo (get_store s r))) eqn:E2; [|reflexivity].
    cbn [andb]. apply Bool.negb_false_iff. apply vv_le_spec.
    apply vv_le_spec in E2. specialize (E2 me).
    pose proof (inv_distinct HI Hi Hr Hir) as Hd.
    apply (inv_order HI Hi Hsl). unfold key in *. lia. }
  rewrite HA, HB. reflexivity.
Qed.

Lemma close_rmw_atomicity_id : forall me s caus fuel,
  Inv me s caus ->
  close_rmw_atomicity fuel (Nat.min (at_cnt s) MAX_ATOMIC_HISTORY) (at_stores s) = at_stores s.
Proof.
  intros me s caus fuel HI. destruct fuel as [|f]; [reflexivity|].
  cbn [close_rmw_atomicity].
  rewrite fold_left_fix; [reflexivity|].
  intros [r i] Hin. apply in_prod_iff in Hin. destruct Hin as [Hr Hi].
  apply in_seq in Hr. apply in_seq in Hi.
  apply (close_step_id HI); split; lia.
Qed.

(* the ring with the newest slot's st_mo replaced by [alc_mo] *)
Lemma bump_newest_bumped : forall me s caus c',
  Inv me s caus ->
  bumped me s
    (at_set_stores s
       (list_upd (at_stores s) (newest s) (fun x => st_set_mo x (alc_mo s c' (newest s))))
       (at_cnt s)).
Proof.
  intros me s caus c' HI.
  assert (Hn : live s (newest s)) by (apply live_newest; apply (inv_cnt HI)).
  assert (Hlen : newest s < length (at_stores s)).
  { rewrite (inv_len HI). destruct Hn as [Hn _]. exact Hn. }
  set (M := alc_mo s c' (newest s)).
  set (s1 := at_set_stores s (list_upd (at_stores s) (newest s) (fun x => st_set_mo x M))
                           (at_cnt s)).
  assert (Hget : forall i, get_store s1 i =
                   if Nat.eqb i (newest s) then st_set_mo (get_store s (newest s)) M
                   else get_store s i).
  { intros i. unfold get_store at 1.
    change (at_stores s1) with (list_upd (at_stores s) (newest s) (fun x => st_set_mo x M)).
    rewrite (list_upd_nth (at_stores s) _ i store_default Hlen). reflexivity. }
  assert (Hgetn : get_store s1 (newest s) = st_set_mo (get_store s (newest s)) M).
  { rewrite Hget, Nat.eqb_refl. reflexivity. }
  constructor.
  - reflexivity.
  - change (at_stores s1) with (list_upd (at_stores s) (newest s) (fun x => st_set_mo x M)).
    apply list_upd_length.
  - reflexivity.
  - reflexivity.
  - reflexivity.
  - intros i Hi. rewrite Hget. destruct (Nat.eqb_spec i (newest s)); [contradiction|reflexivity].
  - rewrite Hgetn. reflexivity.
  - rewrite Hgetn. reflexivity.
  - rewrite Hgetn. cbn [st_mo st_set_mo]. apply alc_mo_ge.
  - unfold key at 1. rewrite Hgetn. cbn [st_mo st_set_mo]. apply (alc_mo_key c' HI).
  - rewrite Hgetn. reflexivity.
Qed.

(* a single-thread load reads the newest store, so the propagation step of
   apply_load_coherence (stores ordered after the loaded one follow its new st_mo)
   finds nothing to move, and the RMW-atomicity closure that follows finds the
   invariant again ([bump_newest_bumped], [bumped_inv]) and changes nothing: the ring
   after apply_load_coherence is the ring with the newest slot's st_mo replaced by
   [alc_mo] *)
Lemma alc_stores_newest : forall me s caus c',
  Inv me s caus ->
  at_stores (apply_load_coherence s c' (newest s)) =
  list_upd (at_stores s) (newest s) (fun x => st_set_mo x (alc_mo s c' (newest s))).
Proof.
  intros me s caus c' HI.
  assert (Hn : live s (newest s)) by (apply live_newest; apply (inv_cnt HI)).
  assert (Hlen : newest s < length (at_stores s)).
  { rewrite (inv_len HI). destruct Hn as [Hn _]. exact Hn. }
  destruct (bumped_inv HI (bump_newest_bumped c' HI)) as [HI1 _].
  set (M := alc_mo s c' (newest s)) in *.
  set (before := st_mo (get_store s (newest s))).
  set (st1 := list_upd (at_stores s) (newest s) (fun x => st_set_mo x M)) in *.
  set (F := fun (i : nat) (x : astore) =>
              if negb (Nat.eqb (newest s) i) && vv_lt before (st_mo x)
              then st_set_mo x (vv_join (st_mo x) M) else x).
  assert (Hst : at_stores (apply_load_coherence s c' (newest s)) =
                close_rmw_atomicity (4 * MAX_ATOMIC_HISTORY)
                  (Nat.min (at_cnt s) MAX_ATOMIC_HISTORY)
                  (if vv_eqb M before then st1 else mapi F st1)) by reflexivity.
  assert (Hid : (if vv_eqb M before then st1 else mapi F st1) = st1).
  { destruct (vv_eqb M before); [reflexivity|].
    apply (@mapi_id astore F st1 store_default). intros i Hi.
    unfold F. destruct (Nat.eqb_spec (newest s) i) as [Heq|Hne]; [reflexivity|].
    cbn [negb andb].
    assert (Hx : nth i st1 store_default = get_store s i).
    { unfold st1. rewrite (list_upd_nth (at_stores s) _ i store_default Hlen).
      destruct (Nat.eqb_spec i (newest s)) as [Heq|_]; [congruence | reflexivity]. }
    rewrite Hx. unfold before.
    rewrite (@newest_not_lt_any me s caus i HI) by congruence. reflexivity. }
  rewrite Hst, Hid.
  exact (close_rmw_atomicity_id (4 * MAX_ATOMIC_HISTORY) HI1).
Qed.

Lemma loadpart_bumped : forall me s caus c',
  Inv me s caus -> bumped me s (loadpart s me c' (newest s)).
Proof.
  intros me s caus c' HI.
  assert (Hn : live s (newest s)) by (apply live_newest; apply (inv_cnt HI)).
  assert (Hlen : newest s < length (at_stores s)).
  { rewrite (inv_len HI). destruct Hn as [Hn _]. exact Hn. }
  set (M := alc_mo s c' (newest s)).
  set (st2 := list_upd (at_stores s) (newest s) (fun x => st_set_mo x M)).
  assert (Hlen2 : newest s < length st2).
  { unfold st2. rewrite list_upd_length. exact Hlen. }
  set (touch := fun x => st_set_seen x (seen_touch (st_seen x) me (vv_get c' me))).
  assert (Hst : at_stores (loadpart s me c' (newest s)) = list_upd st2 (newest s) touch).
  { unfold st2, M. rewrite <- (alc_stores_newest c' HI). reflexivity. }
  assert (Hget : forall i, get_store (loadpart s me c' (newest s)) i =
                   if Nat.eqb i (newest s)
                   then touch (st_set_mo (get_store s (newest s)) M)
                   else get_store s i).
  { intros i. unfold get_store at 1. rewrite Hst.
    rewrite (list_upd_nth st2 touch i store_default Hlen2).
    unfold st2. rewrite !(list_upd_nth (at_stores s) _ _ store_default Hlen).
    rewrite Nat.eqb_refl. destruct (Nat.eqb i (newest s)); reflexivity. }
  assert (Htouch : touch (st_set_mo (get_store s (newest s)) M) =
                   st_set_mo (get_store s (newest s)) M).
  { unfold touch. destruct (inv_seen HI Hn) as [v [Hnth _]].
    simpl. rewrite (@seen_touch_same _ _ _ _ Hnth). reflexivity. }
  assert (Hgetn : get_store (loadpart s me c' (newest s)) (newest s) =
                  st_set_mo (get_store s (newest s)) M).
  { rewrite Hget, Nat.eqb_refl. exact Htouch. }
  constructor.
  - reflexivity.
  - rewrite Hst. rewrite list_upd_length. unfold st2. apply list_upd_length.
  - reflexivity.
  - reflexivity.
  - reflexivity.
  - intros i Hi. rewrite Hget. destruct (Nat.eqb_spec i (newest s)); [contradiction|reflexivity].
  - rewrite Hgetn. reflexivity.
  - rewrite Hgetn. reflexivity.
  - rewrite Hgetn. simpl. apply alc_mo_ge.
  - unfold key at 1. rewrite Hgetn. simpl. apply (alc_mo_key c' HI).
  - rewrite Hgetn. reflexivity.
Qed.


Lemma loadpart_inv : forall me s caus c' c'',
  Inv me s caus ->
  Inv me (loadpart (tl_state s c') me c'' (newest s)) caus /\
  cur (loadpart (tl_state s c') me c'' (newest s)) = cur s /\
  at_cnt (loadpart (tl_state s c') me c'' (newest s)) = at_cnt s.
Proof.
  intros me s caus c' c'' HI.
  pose proof (Inv_tl c' HI) as HI1.
  pose proof (loadpart_bumped c'' HI1) as HB.
  change (newest (tl_state s c')) with (newest s) in HB.
  destruct (bumped_inv HI1 HB) as [HI2 Hcur].
  split; [exact HI2|]. split; [exact Hcur|]. reflexivity.
Qed.

(* ------------------------------------------------------------------ *)
(* the single-thread driver                                            *)

Inductive sop :=
  | SLoad (o : ord)
  | SStore (v : N) (o : ord)
  | SRmw (f : N -> option N) (so fo : ord).

(* One operation of thread [me]; the state is the atomic cell and the thread's
   clock. As in Ops.v the thread first increments its own component. The third
   component of the result is the value read (None for a store). The driver
   fails (None) when the candidate list is not a singleton, when the
   modification-order assertion fires and when a causality check panics. *)
Definition sstep (me : nat) (st : atomic_state * vv) (op : sop)
  : option (atomic_state * vv * option N) :=
  let s := fst st in
  let caus := vv_inc (snd st) me in
  match op with
  | SLoad o =>
      match match_load_to_stores s me caus None o with
      | Some [idx] =>
          match atomic_load s me caus idx o with
          | inl (s', caus', v) => Some (s', caus', Some v)
          | inr _ => None
          end
      | _ => None
      end
  | SStore v o =>
      match track_store s caus with
      | inl s1 => Some (atomic_store s1 me caus vv_new vv_new v o, caus, None)
      | inr _ => None
      end
  | SRmw f so fo =>
      match match_rmw_to_stores s with
      | Some [idx] =>
          match atomic_rmw s me caus vv_new idx so fo f with
          | inl (s', caus', prev, _) => Some (s', caus', Some prev)
          | inr _ => None
          end
      | _ => None
      end
  end.

Fixpoint srun (me : nat) (st : atomic_state * vv) (ops : list sop)
  : option (atomic_state * vv * list (option N)) :=
  match ops with
  | [] => Some (st, [])
  | op :: ops' =>
      match sstep me st op with
      | None => None
      | Some (s', c', r) =>
          match srun me (s', c') ops' with
          | None => None
          | Some (st'', rs) => Some (st'', r :: rs)
          end
      end
  end.

(* the reference: one memory cell *)
Definition ref_step (curv : N) (op : sop) : option N * N :=
  match op with
  | SLoad _ => (Some curv, curv)
  | SStore v _ => (None, v)
  | SRmw f _ _ => (Some curv, match f curv with Some next => next | None => curv end)
  end.

Fixpoint ref_run (curv : N) (ops : list sop) : list (option N) :=
  match ops with
  | [] => []
  | op :: ops' => fst (ref_step curv op) :: ref_run (snd (ref_step curv op)) ops'
  end.

Lemma sync_load_ge : forall c sy o, vle c (sync_load c sy o).
Proof.
  intros c sy o. unfold sync_load. destruct (ord_acq o); [apply vle_join_l | apply vle_refl].
Qed.

Lemma sync_load_len : forall me c sy o, me < length c -> me < length (sync_load c sy o).
Proof.
  intros me c sy o Hlen. unfold sync_load. destruct (ord_acq o); [|exact Hlen].
  rewrite vv_join_length. lia.
Qed.

Lemma sstep_ok : forall me s caus op,
  Inv me s caus ->
  exists s' c',
    sstep me (s, caus) op = Some (s', c', fst (ref_step (cur s) op)) /\
    Inv me s' c' /\
    cur s' = snd (ref_step (cur s) op).
Proof.
  intros me s caus op HI.
  set (c1 := vv_inc caus me).
  assert (Hc1 : vle caus c1) by apply vle_inc.
  assert (Hlen1 : me < length c1) by (unfold c1; rewrite vv_inc_length; apply (inv_me HI)).
  assert (Hlt1 : vv_get caus me < vv_get c1 me).
  { unfold c1. rewrite vv_get_inc_same by apply (inv_me HI). lia. }
  destruct op as [o|v o|f so fo].
  - (* load *)
    unfold sstep. cbn [fst snd]. fold c1.
    unfold c1 at 1. rewrite (single_thread_load_candidates HI o). fold (newest s). fold c1.
    rewrite atomic_load_unfold. rewrite (track_load_ok HI Hc1). cbv zeta.
    destruct (loadpart_inv c1 c1 HI) as [HI3 [Hcur Hcnt]].
    set (s3 := loadpart (tl_state s c1) me c1 (newest s)) in *.
    assert (Hval : st_value (get_store s3 (newest s)) = cur s).
    { rewrite <- Hcur. unfold cur, newest. rewrite Hcnt. reflexivity. }
    rewrite Hval.
    exists s3, (sync_load c1 (st_sync (get_store s3 (newest s))) o).
    split; [reflexivity|]. split; [|exact Hcur].
    apply (Inv_mono HI3).
    + eapply vle_trans; [exact Hc1 | apply sync_load_ge].
    + apply sync_load_len. exact Hlen1.
  - (* store *)
    unfold sstep. cbn [fst snd]. fold c1.
    rewrite (track_store_ok HI Hc1).
    destruct (@atomic_store_inv me (ts_state s c1) caus c1 vv_new vv_new v o
                (Inv_ts c1 HI) Hc1 Hlt1 Hlen1) as [HI' Hcur'].
    exists (atomic_store (ts_state s c1) me c1 vv_new vv_new v o), c1.
    split; [reflexivity|]. split; [exact HI' | exact Hcur'].
  - (* rmw *)
    unfold sstep. cbn [fst snd]. fold c1.
    rewrite (single_thread_rmw_candidates HI). fold (newest s).
    rewrite atomic_rmw_unfold. rewrite (track_load_ok HI Hc1). cbv zeta.
    destruct (loadpart_inv c1 c1 HI) as [HI3 [Hcur Hcnt]].
    set (s3 := loadpart (tl_state s c1) me c1 (newest s)) in *.
    assert (Hval : st_value (get_store s3 (newest s)) = cur s).
    { rewrite <- Hcur. unfold cur, newest. rewrite Hcnt. reflexivity. }
    rewrite Hval. cbn [ref_step fst snd].
    destruct (f (cur s)) as [next|] eqn:Hf.
    + rewrite (track_store_ok HI3 Hc1).
      set (sy := st_sync (get_store (ts_state s3 c1) (newest s))).
      set (c2 := sync_load c1 sy so).
      assert (Hc2 : vle caus c2).
      { eapply vle_trans; [exact Hc1 | apply sync_load_ge]. }
      assert (Hlen2 : me < length c2) by (apply sync_load_len; exact Hlen1).
      assert (Hlt2 : vv_get caus me < vv_get c2 me).
      { pose proof (sync_load_ge c1 sy so me) as Hge. fold c2 in Hge. lia. }
      set (src := Some (newest s, st_id (get_store (ts_state s3 c1) (newest s)))).
      assert (Hsrc : forall slot sid, src = Some (slot, sid) -> slot = newest (ts_state s3 c1)).
      { intros slot sid Heq. unfold src in Heq. injection Heq as Hslot _.
        unfold newest. change (at_cnt (ts_state s3 c1)) with (at_cnt s3). rewrite Hcnt.
        symmetry. exact Hslot. }
      destruct (@atomic_store_from_inv me (ts_state s3 c1) caus c2 vv_new sy next so src
                  (Inv_ts c1 HI3) Hc2 Hlt2 Hlen2 Hsrc) as [HI' Hcur'].
      exists (atomic_store_from (ts_state s3 c1) me c2 vv_new sy next so src), c2.
      split; [reflexivity|]. split; [exact HI' | exact Hcur'].
    + exists s3, (sync_load c1 (st_sync (get_store s3 (newest s))) fo).
      split; [reflexivity|]. split; [|exact Hcur].
      apply (Inv_mono HI3).
      * eapply vle_trans; [exact Hc1 | apply sync_load_ge].
      * apply sync_load_len. exact Hlen1.
Qed.

(* the ring really advances: a store moves to the next slot (cnt + 1, so the
   written slot is [aindex cnt] and wraps modulo 7), a load does not *)
Lemma sstep_store_cnt : forall me s caus v o s' c' r,
  Inv me s caus -> sstep me (s, caus) (SStore v o) = Some (s', c', r) ->
  at_cnt s' = S (at_cnt s) /\ newest s' = aindex (at_cnt s).
Proof.
  intros me s caus v o s' c' r HI Hstep.
  unfold sstep in Hstep. cbn [fst snd] in Hstep.
  rewrite (track_store_ok HI (vle_inc caus me)) in Hstep.
  inversion Hstep as [[Hs Hc Hr]]. split; [reflexivity|].
  unfold newest. simpl. rewrite Nat.sub_0_r. reflexivity.
Qed.

Lemma sstep_load_cnt : forall me s caus o s' c' r,
  Inv me s caus -> sstep me (s, caus) (SLoad o) = Some (s', c', r) ->
  at_cnt s' = at_cnt s.
Proof.
  intros me s caus o s' c' r HI Hstep.
  unfold sstep in Hstep. cbn [fst snd] in Hstep.
  rewrite (single_thread_load_candidates HI o) in Hstep.
  rewrite atomic_load_unfold in Hstep.
  rewrite (track_load_ok HI (vle_inc caus me)) in Hstep. cbv zeta in Hstep.
  inversion Hstep as [[Hs Hc Hr]]. reflexivity.
Qed.

(* ------------------------------------------------------------------ *)
(* the initial state                                                   *)

Lemma atomic_new_ok : forall me caus0 init,
  me < MAX_THREADS -> me < length caus0 ->
  exists s0, atomic_new me caus0 vv_new init = inl s0 /\ Inv me s0 caus0 /\ cur s0 = init.
Proof.
  intros me caus0 init HmeT Hlen.
  unfold atomic_new, track_unsync_mut. cbn [at_mutating at_loaded at_unsync_loaded at_stored at_unsync_mut].
  assert (Ha : vv_ahead caus0 vv_new = None) by (apply vv_ahead_none; apply vle_new).
  rewrite Ha.
  eexists. split; [reflexivity|].
  pose (s1 := mkAtomic vv_new vv_new vv_new (vv_join vv_new caus0) false
                      (repeat None MAX_THREADS) None
                      (repeat store_default MAX_ATOMIC_HISTORY) 0).
  pose (s0 := atomic_store s1 me caus0 vv_new vv_new init Release).
  change (Inv me s0 caus0 /\ cur s0 = init).
  assert (Hcnt : at_cnt s0 = 1) by reflexivity.
  assert (Hnew : newest s0 = 0) by reflexivity.
  set (x := mkStore init caus0 (store_mo s1 caus0) (sync_store vv_new caus0 vv_new Release)
                    (seen_touch seen_new me (vv_get caus0 me)) false 0 None).
  assert (Hget0 : get_store s0 0 = x) by reflexivity.
  assert (Hgeto : forall i, i <> 0 -> get_store s0 i = store_default).
  { intros i Hi. unfold get_store. cbn [s0 atomic_store atomic_store_from at_set_stores at_stores s1 at_cnt].
    change (aindex 0) with 0. rewrite list_set_nth_other by lia.
    destruct (Nat.lt_ge_cases i MAX_ATOMIC_HISTORY) as [H7|H7].
    - apply nth_repeat.
    - apply nth_overflow. rewrite repeat_length. exact H7. }
  assert (Hkey0 : key me s0 0 = vv_get caus0 me).
  { unfold key. rewrite Hget0. simpl st_mo. unfold store_mo.
    apply (@fold_keep astore _ (fun x => vv_get (st_mo x) me) me).
    - intros mo a Hb. destruct (is_seen_by_current (st_seen a) caus0); [|reflexivity].
      rewrite vv_get_join. lia.
    - intros a Hin. change (at_stores s1) with (repeat store_default MAX_ATOMIC_HISTORY) in Hin.
      apply repeat_spec in Hin. subst a. simpl.
      rewrite vv_new_get. lia. }
  assert (Hlive : forall i, live s0 i -> i = 0).
  { intros i [_ Hi]. rewrite Hcnt in Hi. lia. }
  split.
  2:{ unfold cur. rewrite Hnew, Hget0. reflexivity. }
  constructor.
  - exact Hlen.
  - exact HmeT.
  - change (length (list_set (repeat store_default MAX_ATOMIC_HISTORY) (aindex 0) x) = MAX_ATOMIC_HISTORY).
    rewrite list_set_length. apply repeat_length.
  - rewrite Hcnt. lia.
  - reflexivity.
  - change (vle (vv_join vv_new caus0) caus0). apply vle_join_lub; [apply vle_new | apply vle_refl].
  - change (vle vv_new caus0). apply vle_new.
  - intros i Hi. rewrite Hcnt in Hi. apply Hgeto. lia.
  - intros i. destruct (Nat.eq_dec i 0) as [Heq|Hne].
    + subst i. rewrite Hkey0. lia.
    + unfold key. rewrite (Hgeto i Hne). simpl. rewrite vv_new_get. lia.
  - intros i Hi. rewrite (Hlive i Hi). rewrite Hget0. exists (vv_get caus0 me). split; [|lia].
    simpl. apply seen_touch_new. exact HmeT.
  - intros i Hi Hne. rewrite Hnew in Hne. pose proof (Hlive i Hi) as Hi0. lia.
  - intros i j Hi Hj Hij. pose proof (Hlive i Hi) as Hi0. pose proof (Hlive j Hj) as Hj0. lia.
  - intros i j Hi Hj Hk. pose proof (Hlive i Hi) as Hi0. pose proof (Hlive j Hj) as Hj0. subst i j. lia.
  - intros r slot sid Hr Hsrc Hsr. rewrite (Hlive r Hr), Hget0 in Hsrc.
    change (st_rmw_src x) with (@None (nat * nat)) in Hsrc. discriminate.
Qed.

(* ------------------------------------------------------------------ *)
(* the theorems                                                        *)

Theorem single_thread_invariant :
  (forall me caus0 init,
     me < MAX_THREADS -> length caus0 = MAX_THREADS ->
     exists s0, atomic_new me caus0 vv_new init = inl s0 /\ Inv me s0 caus0) /\
  (forall me s caus op,
     Inv me s caus ->
     exists s' c' r, sstep me (s, caus) op = Some (s', c', r) /\ Inv me s' c').
Proof.
  split.
  - intros me caus0 init HmeT Hlen.
    destruct (@atomic_new_ok me caus0 init HmeT) as [s0 [Hnew [HI _]]]; [lia|].
    exists s0. split; assumption.
  - intros me s caus op HI.
    destruct (sstep_ok op HI) as [s' [c' [Hstep [HI' _]]]].
    exists s', c', (fst (ref_step (cur s) op)). split; assumption.
Qed.

Lemma srun_ok : forall me ops s caus,
  Inv me s caus ->
  exists sf cf, srun me (s, caus) ops = Some (sf, cf, ref_run (cur s) ops) /\ Inv me sf cf.
Proof.
  intros me ops. induction ops as [|op ops IH]; intros s caus HI.
  - exists s, caus. split; [reflexivity | exact HI].
  - destruct (sstep_ok op HI) as [s' [c' [Hstep [HI' Hcur']]]].
    destruct (IH s' c' HI') as [sf [cf [Hrun HIf]]].
    exists sf, cf. split; [|exact HIf].
    cbn [srun ref_run]. rewrite Hstep. rewrite Hrun. rewrite Hcur'. reflexivity.
Qed.

(* Every run from a fresh cell succeeds (no assertion failure, no panic, exactly
   one candidate at every load and rmw) and reads what the one-cell reference
   reads; the invariant holds at the end. *)
Theorem single_thread_reads_latest : forall me caus0 init ops,
  me < MAX_THREADS -> length caus0 = MAX_THREADS ->
  exists s0 sf cf,
    atomic_new me caus0 vv_new init = inl s0 /\
    srun me (s0, caus0) ops = Some (sf, cf, ref_run init ops) /\
    Inv me sf cf.
Proof.
  intros me caus0 init ops HmeT Hlen.
  destruct (@atomic_new_ok me caus0 init HmeT) as [s0 [Hnew [HI Hcur]]]; [lia|].
  destruct (srun_ok ops HI) as [sf [cf [Hrun HIf]]].
  exists s0, sf, cf. rewrite Hcur in Hrun.
  split; [exact Hnew | split; [exact Hrun | exact HIf]].
Qed.

(* the values read, as the task states it: map over the run *)
Corollary single_thread_reads_latest_map : forall me caus0 init ops s0,
  me < MAX_THREADS -> length caus0 = MAX_THREADS ->
  atomic_new me caus0 vv_new init = inl s0 ->
  option_map snd (srun me (s0, caus0) ops) = Some (ref_run init ops).
Proof.
  intros me caus0 init ops s0 HmeT Hlen Hnew.
  destruct (@single_thread_reads_latest me caus0 init ops HmeT Hlen) as [s0' [sf [cf [Hnew' [Hrun _]]]]].
  rewrite Hnew in Hnew'. inversion Hnew'. subst s0'. rewrite Hrun. reflexivity.
Qed.

(* a concrete wrap of the ring, by computation: 20 stores, a load after each *)
Fixpoint wrap_ops (n : nat) : list sop :=
  match n with
  | 0 => []
  | S n' => wrap_ops n' ++ [SStore (N.of_nat n) Relaxed; SLoad SeqCst]
  end.

Example ring_wrap_example :
  match atomic_new 0 vv_new vv_new 0%N with
  | inl s0 =>
      match srun 0 (s0, vv_new) (wrap_ops 20) with
      | Some (sf, _, rs) => at_cnt sf = 21 /\ rs = ref_run 0%N (wrap_ops 20)
      | None => False
      end
  | inr _ => False
  end.
Proof. vm_compute. split; reflexivity. Qed.

Print Assumptions single_thread_invariant.
Print Assumptions single_thread_load_candidates.
Print Assumptions single_thread_rmw_candidates.
Print Assumptions single_thread_mo_total.
Print Assumptions single_thread_reads_latest.
Print Assumptions single_thread_reads_latest_map.
Print Assumptions last_yield_irrelevant_without_yield.
Print Assumptions sstep_store_cnt.
Print Assumptions sstep_load_cnt.
Print Assumptions ring_wrap_example.
