(* SyncFacts: the LOCAL causality-transfer lemmas behind "everything done
   before a release happens-before everything after the next acquire", for
   every synchronisation primitive of the model (Atomic.v, Ops.v).  All lemmas
   are stated on the transcribed functions themselves (post_acquire,
   release_lock, ..., atomic_store / atomic_load / atomic_rmw, threads_unpark)
   or, where the code only exists inline, on [exec_micro e me (M...)].  No
   statement or proof mentions a record constructor (mkChan, mkStore, ...), so
   adding bookkeeping fields to the object records does not break the file.
   vle is the pointwise order of VVFacts.v.

   Contents
     1. Generic     sync_store_{keeps,released,rel,rlx,rel_get,mono},
                    sync_load_{keeps,acq,rlx,least}
     2. Framing     nth_error/list_set/list_upd/mapi, get_thread_*, caus_of_*,
                    e_objects_*, get_{mutex,rw,notify,chan,arc}_{nth,upd_const,objects_eq}
     3. Mutex       release_lock_publishes, release_lock_sync, release_lock_clocks,
                    post_acquire_{acquires,clock,fails_iff,fail_id,other_clocks},
                    mutex_handover
     4. RwLock      post_acquire_{read,write}_{acquires,fails_iff,fail_id,other_clocks},
                    release_{read,write}_{publishes,clocks}, release_read_ok_iff,
                    rw_write_handover, rw_read_handover
     5. Notify      notify_post_{publishes,unparks,other_clocks,monotone},
                    notify_wait2_{acquires,fails_iff,other_clocks}, notify_handover,
                    join_schedules_wait, exit_schedules_post
     6. Channel     send_post_{publishes,last_view,clocks} (publishes / last_view:
                    receiver alive), send_post_{keeps_rx,disconnected,
                    disconnected_sender_sync} (receiver gone: count and queued
                    views untouched),
                    recv_post_{acquires,empty_fails,other_clocks}, channel_handover
     7. Arc         arc_dec_post_{publishes,released_fails,other_clocks},
                    arc_drop_handover, arc_get_mut_post_acquires,
                    arc_count_post_acquires, arc_inc_post_no_transfer
     8. Park        threads_unpark_{transfers,self,monotone,objects},
                    exec_micro_unpark_transfers
     9. Spawn       spawn_transfers
    10. Atomics     atomic_store_from_{new_sync,new_value,new_hb,other,length} (any
                    RMW source [src]; atomic_store is the instance src = None),
                    atomic_store_{publishes,publishes_released,relaxed_sync,other,...},
                    alc_keeps_{sync,value}, load_view_keeps_*, atomic_load_{result,
                    acquires,relaxed,monotone}, atomic_rmw_release_sequence,
                    atomic_rmw_failure_loads, atomic_handover

   DEVIATIONS from the requested statements (nothing is weakened silently;
   every requested name exists).  No requested statement turned out false
   under the hypotheses that were requested for it; the differences are:

   D-a  release_read_publishes: the requested shape ended with
        [rw_lock s' = None] (as for the mutex).  That is FALSE for read locks:
        with rw_lock s = Some (RLRead [0;1]) and me = 0, release_read leaves
        rw_lock s' = Some (RLRead [1]).  Proved instead: there is rs with
        rw_lock s = Some (RLRead rs) and rw_lock s' = None if
        set_remove me rs = [], else Some (RLRead (set_remove me rs)).
        (release_read returns mres, so the lemma takes [release_read e me r =
        MOk e'] as hypothesis; release_read_ok_iff says it is MOk exactly when
        the lock is read-locked; otherwise MFail PanicRwInvalid.)
        release_write_publishes is existential in e' (release_write never
        fails on an rwlock object) and does end with rw_lock s' = None.
        Neither rwlock release has the [e_active e <> None] hypothesis of the
        mutex: only Mutex::release_lock skips the publication when no thread is
        active (then mx_lock becomes None but mx_sync is unchanged, which is
        why release_lock_publishes needs that hypothesis: with e_active e =
        None and caus_of e me = [1;0;0;0;0], mx_sync s = vv_new, the view stays
        vv_new).
   D-b  post_acquire_read_acquires: the lock field afterwards is
        [Some (RLRead rs)] with [In me rs] (readers are a set), not [Some me].
   D-c  mutex_handover additionally concludes [snd (post_acquire e2 b m) =
        true] (strengthening); its hypotheses are: get_mutex e m = Some s,
        e_active e <> None, get_mutex (release_lock e a m) m = Some s1,
        get_mutex e2 m = Some s2, vle (mx_sync s1) (mx_sync s2),
        mx_lock s2 = None, b < length (e_threads e2).
   D-d  Every acquire-side lemma about the acquiring thread's NEW clock carries
        [me < length (e_threads e)], as requested for post_acquire_acquires
        (notify_wait2_acquires, recv_post_acquires, arc_dec_post_publishes's
        count-reaches-0 clause, arc_get_mut_post_acquires,
        arc_count_post_acquires).  Without it the statements are false: for
        me >= length (e_threads e), set_caus is the identity and
        caus_of e' me = vv_new, which does not dominate e.g. a view [1;0;0;0;0].
        threads_unpark_transfers needs only id <> me and id < length
        (e_threads e); [me < length] is not needed (caus_of e me = vv_new then).
   D-e  recv_post_acquires takes [exec_micro ... = MOk e'] as hypothesis: with
        ch_cnt = S n and a non-empty ch_recv_sync the step can still be
        MFail _ (PanicModel 20) when the harness queue ho_q is empty (model
        stuck, never expected).  With ch_cnt = S n and ch_recv_sync = [] the
        step is MFail e PanicExpectMsg as for ch_cnt = 0.
   D-f  atomic_rmw_release_sequence is stated for a result
        [inl (s', caus', prev, true)] (the flag is true exactly in the Ok
        branch) and gives more than requested: also vle rel (st_sync new),
        vle caus caus', the acquire half, prev and the stored value.

   Things the lemmas make visible (true facts of the transcribed code):
   - a failed try_lock / try_read / try_write returns the state unchanged
     (post_acquire*_fail_id): no causality is acquired on failure;
   - Arc clone (MArcIncPost) transfers nothing; strong_count (MArcCountPost)
     and get_mut (MArcGetMutPost) acquire arc_sync;
   - a Relaxed store publishes exactly join(sync0, last release fence) and
     not the thread's clock (atomic_store_relaxed_sync); an RMW always carries
     the sync of the store it read from, whatever its ordering;
   - MNotifyPost joins the notifier's clock directly into every other thread
     whose pending operation is on the notify object (notify_post_unparks),
     in addition to publishing it in nt_sync. *)
Require Import LV.Base LV.VV LV.VVFacts LV.Path LV.Prog LV.Objects LV.Exec LV.Atomic LV.Ops.
From Coq Require Import List Arith Lia Bool.
Import ListNotations.

(* ================================================================== *)
(* 1. Generic: sync_store / sync_load                                  *)

Lemma sync_store_keeps : forall s c r o, vle s (sync_store s c r o).
Proof.
  intros s c r o. unfold sync_store. destruct (ord_rel o).
  - apply vle_trans with (vv_join s r); apply vle_join_l.
  - apply vle_join_l.
Qed.

Lemma sync_store_released : forall s c r o, vle r (sync_store s c r o).
Proof.
  intros s c r o. unfold sync_store. destruct (ord_rel o).
  - apply vle_trans with (vv_join s r); [apply vle_join_r | apply vle_join_l].
  - apply vle_join_r.
Qed.

Lemma sync_store_rel : forall s c r o, ord_rel o = true -> vle c (sync_store s c r o).
Proof.
  intros s c r o Hrel. unfold sync_store. rewrite Hrel. apply vle_join_r.
Qed.

Lemma sync_store_rlx : forall s c r o, ord_rel o = false ->
  forall i, vv_get (sync_store s c r o) i = Nat.max (vv_get s i) (vv_get r i).
Proof.
  intros s c r o Hrel i. unfold sync_store. rewrite Hrel. apply vv_get_join.
Qed.

(* the published view is exactly the join of its three inputs *)
Lemma sync_store_rel_get : forall s c r o, ord_rel o = true ->
  forall i, vv_get (sync_store s c r o) i =
            Nat.max (Nat.max (vv_get s i) (vv_get r i)) (vv_get c i).
Proof.
  intros s c r o Hrel i. unfold sync_store. rewrite Hrel. rewrite !vv_get_join. reflexivity.
Qed.

Lemma sync_store_mono : forall s s' c r o, vle s s' -> vle (sync_store s c r o) (sync_store s' c r o).
Proof.
  intros s s' c r o Hle. unfold sync_store. destruct (ord_rel o).
  - apply vv_join_mono; [apply vv_join_mono; [exact Hle | apply vle_refl] | apply vle_refl].
  - apply vv_join_mono; [exact Hle | apply vle_refl].
Qed.

Lemma sync_load_keeps : forall c s o, vle c (sync_load c s o).
Proof.
  intros c s o. unfold sync_load. destruct (ord_acq o).
  - apply vle_join_l.
  - apply vle_refl.
Qed.

Lemma sync_load_acq : forall c s o, ord_acq o = true -> vle s (sync_load c s o).
Proof.
  intros c s o Hacq. unfold sync_load. rewrite Hacq. apply vle_join_r.
Qed.

Lemma sync_load_rlx : forall c s o, ord_acq o = false -> sync_load c s o = c.
Proof.
  intros c s o Hacq. unfold sync_load. rewrite Hacq. reflexivity.
Qed.

Lemma sync_load_least : forall c s o x, vle c x -> vle s x -> vle (sync_load c s o) x.
Proof.
  intros c s o x Hc Hs. unfold sync_load. destruct (ord_acq o).
  - apply vle_join_lub; assumption.
  - exact Hc.
Qed.

(* ================================================================== *)
(* 2. Framing helpers                                                  *)

(* ---- lists ---- *)
Lemma nth_error_list_set_same : forall (A : Type) (l : list A) n x,
  n < length l -> nth_error (list_set l n x) n = Some x.
Proof.
  intros A. induction l as [|h t IHt]; intros n x Hlt.
  - simpl in Hlt. lia.
  - destruct n as [|n]; simpl.
    + reflexivity.
    + apply IHt. simpl in Hlt. lia.
Qed.

Lemma nth_error_list_set_other : forall (A : Type) (l : list A) n j x,
  n <> j -> nth_error (list_set l n x) j = nth_error l j.
Proof.
  intros A. induction l as [|h t IHt]; intros n j x Hne.
  - reflexivity.
  - destruct n as [|n]; destruct j as [|j]; simpl.
    + lia.
    + reflexivity.
    + reflexivity.
    + apply IHt. lia.
Qed.

Lemma nth_error_list_upd_same : forall (A : Type) (l : list A) n f,
  nth_error (list_upd l n f) n = option_map f (nth_error l n).
Proof.
  intros A l n f. unfold list_upd.
  destruct (nth_error l n) as [x|] eqn:Hn.
  - simpl. apply nth_error_list_set_same. apply nth_error_Some. rewrite Hn. discriminate.
  - simpl. exact Hn.
Qed.

Lemma nth_error_list_upd_other : forall (A : Type) (l : list A) n j f,
  n <> j -> nth_error (list_upd l n f) j = nth_error l j.
Proof.
  intros A l n j f Hne. unfold list_upd.
  destruct (nth_error l n) as [x|].
  - apply nth_error_list_set_other. exact Hne.
  - reflexivity.
Qed.

Lemma list_upd_length : forall (A : Type) (l : list A) n f,
  length (list_upd l n f) = length l.
Proof.
  intros A l n f. unfold list_upd. destruct (nth_error l n) as [x|].
  - apply list_set_length.
  - reflexivity.
Qed.

(* nth through list_upd for a projection that the update preserves *)
Lemma nth_list_upd_proj : forall (A B : Type) (g : A -> B) (l : list A) n f d,
  (forall x, g (f x) = g x) -> forall j, g (nth j (list_upd l n f) d) = g (nth j l d).
Proof.
  intros A B g l n f d Hg j. unfold list_upd.
  destruct (nth_error l n) as [x|] eqn:Hn.
  - destruct (Nat.eq_dec n j) as [Heq|Hne].
    + subst j. rewrite list_set_nth_same.
      * rewrite Hg. apply nth_error_nth with (d := d) in Hn. rewrite Hn. reflexivity.
      * apply nth_error_Some. rewrite Hn. discriminate.
    + rewrite list_set_nth_other by exact Hne. reflexivity.
  - reflexivity.
Qed.

Lemma nth_error_mapi_from : forall (A B : Type) (f : nat -> A -> B) (l : list A) k j,
  nth_error (mapi_from k f l) j = option_map (f (k + j)) (nth_error l j).
Proof.
  intros A B f. induction l as [|h t IHt]; intros k j.
  - destruct j; reflexivity.
  - destruct j as [|j]; simpl.
    + rewrite Nat.add_0_r. reflexivity.
    + rewrite IHt. replace (S k + j) with (k + S j) by lia. reflexivity.
Qed.

Lemma nth_error_mapi : forall (A B : Type) (f : nat -> A -> B) (l : list A) j,
  nth_error (mapi f l) j = option_map (f j) (nth_error l j).
Proof. intros A B f l j. unfold mapi. rewrite nth_error_mapi_from. reflexivity. Qed.

Lemma mapi_from_length : forall (A B : Type) (f : nat -> A -> B) (l : list A) k,
  length (mapi_from k f l) = length l.
Proof.
  intros A B f. induction l as [|h t IHt]; intros k.
  - reflexivity.
  - simpl. rewrite IHt. reflexivity.
Qed.

Lemma mapi_length : forall (A B : Type) (f : nat -> A -> B) (l : list A),
  length (mapi f l) = length l.
Proof. intros A B f l. unfold mapi. apply mapi_from_length. Qed.

(* nth through mapi for a projection that the (endo)map preserves *)
Lemma nth_mapi_from_proj : forall (A B : Type) (g : A -> B) (f : nat -> A -> A) (l : list A) d,
  (forall i x, g (f i x) = g x) ->
  forall k j, g (nth j (mapi_from k f l) d) = g (nth j l d).
Proof.
  intros A B g f l d Hg. induction l as [|h t IHt]; intros k j.
  - reflexivity.
  - destruct j as [|j]; cbn [mapi_from nth].
    + apply Hg.
    + apply IHt.
Qed.

Lemma nth_mapi_proj : forall (A B : Type) (g : A -> B) (f : nat -> A -> A) (l : list A) d,
  (forall i x, g (f i x) = g x) -> forall j, g (nth j (mapi f l) d) = g (nth j l d).
Proof. intros A B g f l d Hg j. unfold mapi. apply nth_mapi_from_proj. exact Hg. Qed.

(* ---- thread state setters keep t_caus ---- *)
Lemma t_caus_set_blocked : forall t, t_caus (set_blocked t) = t_caus t.
Proof. reflexivity. Qed.
Lemma t_caus_set_runnable : forall t, t_caus (set_runnable t) = t_caus t.
Proof. reflexivity. Qed.
Lemma t_caus_th_set_state : forall t s, t_caus (th_set_state t s) = t_caus t.
Proof. reflexivity. Qed.
Lemma t_caus_th_set_caus : forall t v, t_caus (th_set_caus t v) = v.
Proof. reflexivity. Qed.
Lemma t_caus_th_set_cont : forall t c, t_caus (th_set_cont t c) = t_caus t.
Proof. reflexivity. Qed.
Lemma t_caus_set_unparked : forall t, t_caus (set_unparked t) = t_caus t.
Proof.
  intros t. unfold set_unparked.
  destruct (is_parked t); [reflexivity|].
  destruct (is_terminated t); reflexivity.
Qed.
Lemma t_caus_thread_unpark : forall t c, t_caus (thread_unpark t c) = vv_join (t_caus t) c.
Proof. intros t c. unfold thread_unpark. rewrite t_caus_set_unparked. reflexivity. Qed.
Lemma t_caus_thread_notified : forall t c, t_caus (thread_notified t c) = vv_join (t_caus t) c.
Proof. reflexivity. Qed.

(* ---- projections of the exec setters ---- *)
Lemma e_threads_set_threads : forall e l, e_threads (ex_set_threads e l) = l.
Proof. reflexivity. Qed.
Lemma e_objects_set_threads : forall e l, e_objects (ex_set_threads e l) = e_objects e.
Proof. reflexivity. Qed.
Lemma e_objects_upd_thread : forall e i f, e_objects (upd_thread e i f) = e_objects e.
Proof. reflexivity. Qed.
Lemma e_objects_set_caus : forall e i v, e_objects (set_caus e i v) = e_objects e.
Proof. reflexivity. Qed.
Lemma e_objects_map_others : forall e me p f, e_objects (map_others e me p f) = e_objects e.
Proof. reflexivity. Qed.
Lemma e_objects_upd_hobj : forall e i f, e_objects (upd_hobj e i f) = e_objects e.
Proof. reflexivity. Qed.
Lemma e_objects_push_cont : forall e me ms, e_objects (push_cont e me ms) = e_objects e.
Proof. reflexivity. Qed.
Lemma e_objects_set_slot : forall e k i b, e_objects (set_slot e k i b) = e_objects e.
Proof. reflexivity. Qed.
Lemma e_objects_set_log : forall e l, e_objects (ex_set_log e l) = e_objects e.
Proof. reflexivity. Qed.
Lemma e_objects_log_op : forall e me r, e_objects (log_op e me r) = e_objects e.
Proof. intros e me r. unfold log_op. destruct (get_thread e me); reflexivity. Qed.
Lemma e_objects_upd_object : forall e i f,
  e_objects (upd_object e i f) = list_upd (e_objects e) i f.
Proof. reflexivity. Qed.

Lemma e_threads_upd_object : forall e i f, e_threads (upd_object e i f) = e_threads e.
Proof. reflexivity. Qed.
Lemma e_threads_upd_hobj : forall e i f, e_threads (upd_hobj e i f) = e_threads e.
Proof. reflexivity. Qed.
Lemma e_threads_set_slot : forall e k i b, e_threads (set_slot e k i b) = e_threads e.
Proof. reflexivity. Qed.
Lemma e_threads_set_log : forall e l, e_threads (ex_set_log e l) = e_threads e.
Proof. reflexivity. Qed.
Lemma e_threads_log_op : forall e me r, e_threads (log_op e me r) = e_threads e.
Proof. intros e me r. unfold log_op. destruct (get_thread e me); reflexivity. Qed.
Lemma e_threads_upd_thread : forall e i f,
  e_threads (upd_thread e i f) = list_upd (e_threads e) i f.
Proof. reflexivity. Qed.
Lemma e_active_upd_object : forall e i f, e_active (upd_object e i f) = e_active e.
Proof. reflexivity. Qed.

Lemma length_threads_upd_thread : forall e i f,
  length (e_threads (upd_thread e i f)) = length (e_threads e).
Proof. intros e i f. rewrite e_threads_upd_thread. apply list_upd_length. Qed.

(* ---- get_thread ---- *)
Lemma get_thread_upd_thread_same : forall e i f,
  get_thread (upd_thread e i f) i = option_map f (get_thread e i).
Proof. intros e i f. unfold get_thread. rewrite e_threads_upd_thread. apply nth_error_list_upd_same. Qed.

Lemma get_thread_upd_thread_other : forall e i j f,
  i <> j -> get_thread (upd_thread e i f) j = get_thread e j.
Proof.
  intros e i j f Hne. unfold get_thread. rewrite e_threads_upd_thread.
  apply nth_error_list_upd_other. exact Hne.
Qed.

Lemma get_thread_upd_object : forall e i f j, get_thread (upd_object e i f) j = get_thread e j.
Proof. reflexivity. Qed.

Lemma get_thread_map_others : forall e me p f j,
  get_thread (map_others e me p f) j =
  option_map (fun t => if negb (Nat.eqb j me) && p t then f t else t) (get_thread e j).
Proof.
  intros e me p f j. unfold get_thread, map_others. rewrite e_threads_set_threads.
  apply nth_error_mapi.
Qed.

Lemma get_thread_some_lt : forall e i t, get_thread e i = Some t -> i < length (e_threads e).
Proof.
  intros e i t Hg. unfold get_thread in Hg. apply nth_error_Some. rewrite Hg. discriminate.
Qed.

Lemma get_thread_lt_some : forall e i, i < length (e_threads e) -> exists t, get_thread e i = Some t.
Proof.
  intros e i Hlt. unfold get_thread. destruct (nth_error (e_threads e) i) as [t|] eqn:Hn.
  - exists t. reflexivity.
  - apply nth_error_None in Hn. lia.
Qed.

(* ---- caus_of / rel_of ---- *)
Lemma caus_of_threads_eq : forall e1 e2 j,
  e_threads e1 = e_threads e2 -> caus_of e1 j = caus_of e2 j.
Proof. intros e1 e2 j Heq. unfold caus_of, get_thread. rewrite Heq. reflexivity. Qed.

Lemma rel_of_threads_eq : forall e1 e2 j,
  e_threads e1 = e_threads e2 -> rel_of e1 j = rel_of e2 j.
Proof. intros e1 e2 j Heq. unfold rel_of, get_thread. rewrite Heq. reflexivity. Qed.

Lemma caus_of_upd_thread_same : forall e i f t,
  get_thread e i = Some t -> caus_of (upd_thread e i f) i = t_caus (f t).
Proof.
  intros e i f t Hg. unfold caus_of. rewrite get_thread_upd_thread_same. rewrite Hg. reflexivity.
Qed.

Lemma caus_of_upd_thread_other : forall e i j f,
  i <> j -> caus_of (upd_thread e i f) j = caus_of e j.
Proof.
  intros e i j f Hne. unfold caus_of. rewrite get_thread_upd_thread_other by exact Hne. reflexivity.
Qed.

(* an update that keeps t_caus keeps every clock *)
Lemma caus_of_upd_thread_keep : forall e i f j,
  (forall t, t_caus (f t) = t_caus t) -> caus_of (upd_thread e i f) j = caus_of e j.
Proof.
  intros e i f j Hk. destruct (Nat.eq_dec i j) as [Heq|Hne].
  - subst j. unfold caus_of. rewrite get_thread_upd_thread_same.
    destruct (get_thread e i) as [t|]; simpl; [apply Hk | reflexivity].
  - apply caus_of_upd_thread_other. exact Hne.
Qed.

Lemma caus_of_upd_object : forall e i f j, caus_of (upd_object e i f) j = caus_of e j.
Proof. reflexivity. Qed.
Lemma rel_of_upd_object : forall e i f j, rel_of (upd_object e i f) j = rel_of e j.
Proof. reflexivity. Qed.
Lemma caus_of_upd_hobj : forall e i f j, caus_of (upd_hobj e i f) j = caus_of e j.
Proof. reflexivity. Qed.
Lemma caus_of_set_slot : forall e k i b j, caus_of (set_slot e k i b) j = caus_of e j.
Proof. reflexivity. Qed.
Lemma caus_of_set_log : forall e l j, caus_of (ex_set_log e l) j = caus_of e j.
Proof. reflexivity. Qed.
Lemma caus_of_log_op : forall e me r j, caus_of (log_op e me r) j = caus_of e j.
Proof. intros e me r j. apply caus_of_threads_eq. apply e_threads_log_op. Qed.
Lemma caus_of_push_cont : forall e me ms j, caus_of (push_cont e me ms) j = caus_of e j.
Proof. intros e me ms j. unfold push_cont. apply caus_of_upd_thread_keep. reflexivity. Qed.

Lemma caus_of_set_caus_same : forall e i v,
  i < length (e_threads e) -> caus_of (set_caus e i v) i = v.
Proof.
  intros e i v Hlt. destruct (get_thread_lt_some e i Hlt) as [t Ht].
  unfold set_caus. rewrite (caus_of_upd_thread_same e i _ t Ht). reflexivity.
Qed.

Lemma caus_of_set_caus_other : forall e i j v,
  i <> j -> caus_of (set_caus e i v) j = caus_of e j.
Proof. intros e i j v Hne. unfold set_caus. apply caus_of_upd_thread_other. exact Hne. Qed.

Lemma caus_of_out_of_range : forall e i, length (e_threads e) <= i -> caus_of e i = vv_new.
Proof.
  intros e i Hle. unfold caus_of, get_thread.
  destruct (nth_error (e_threads e) i) as [t|] eqn:Hn; [|reflexivity].
  assert (i < length (e_threads e)) by (apply nth_error_Some; rewrite Hn; discriminate). lia.
Qed.

(* map_others with a function that keeps t_caus keeps every clock *)
Lemma caus_of_map_others_keep : forall e me p f j,
  (forall t, t_caus (f t) = t_caus t) -> caus_of (map_others e me p f) j = caus_of e j.
Proof.
  intros e me p f j Hk. unfold caus_of. rewrite get_thread_map_others.
  destruct (get_thread e j) as [t|]; simpl; [|reflexivity].
  destruct (negb (Nat.eqb j me) && p t); [apply Hk | reflexivity].
Qed.

(* map_others never touches [me] *)
Lemma caus_of_map_others_me : forall e me p f, caus_of (map_others e me p f) me = caus_of e me.
Proof.
  intros e me p f. unfold caus_of. rewrite get_thread_map_others.
  destruct (get_thread e me) as [t|]; simpl; [|reflexivity].
  rewrite Nat.eqb_refl. reflexivity.
Qed.

Lemma caus_of_map_others_hit : forall e me p f j t,
  j <> me -> get_thread e j = Some t -> p t = true ->
  caus_of (map_others e me p f) j = t_caus (f t).
Proof.
  intros e me p f j t Hne Hg Hp. unfold caus_of. rewrite get_thread_map_others. rewrite Hg. simpl.
  apply Nat.eqb_neq in Hne. rewrite Hne, Hp. reflexivity.
Qed.

Lemma caus_of_map_others_miss : forall e me p f j t,
  get_thread e j = Some t -> p t = false ->
  caus_of (map_others e me p f) j = t_caus t.
Proof.
  intros e me p f j t Hg Hp. unfold caus_of. rewrite get_thread_map_others. rewrite Hg. simpl.
  rewrite Hp. rewrite andb_false_r. reflexivity.
Qed.

Lemma length_threads_map_others : forall e me p f,
  length (e_threads (map_others e me p f)) = length (e_threads e).
Proof.
  intros e me p f. unfold map_others. rewrite e_threads_set_threads. unfold mapi.
  apply mapi_from_length.
Qed.

(* ---- objects ---- *)
Lemma nth_error_objects_upd_same : forall e i f,
  nth_error (e_objects (upd_object e i f)) i = option_map f (nth_error (e_objects e) i).
Proof. intros e i f. rewrite e_objects_upd_object. apply nth_error_list_upd_same. Qed.

Lemma nth_error_objects_upd_other : forall e i j f,
  i <> j -> nth_error (e_objects (upd_object e i f)) j = nth_error (e_objects e) j.
Proof. intros e i j f Hne. rewrite e_objects_upd_object. apply nth_error_list_upd_other. exact Hne. Qed.

Lemma get_mutex_nth : forall e m s,
  get_mutex e m = Some s -> nth_error (e_objects e) m = Some (OMutex s).
Proof.
  intros e m s Hg. unfold get_mutex in Hg.
  destruct (nth_error (e_objects e) m) as [o|]; [|discriminate].
  destruct o; try discriminate. inversion Hg. reflexivity.
Qed.

Lemma get_mutex_upd_object : forall e m f,
  get_mutex (upd_object e m f) m =
  match nth_error (e_objects e) m with
  | Some o => match f o with OMutex s => Some s | _ => None end
  | None => None
  end.
Proof.
  intros e m f. unfold get_mutex. rewrite nth_error_objects_upd_same.
  destruct (nth_error (e_objects e) m); reflexivity.
Qed.

Lemma get_mutex_upd_const : forall e m o s',
  nth_error (e_objects e) m = Some o ->
  get_mutex (upd_object e m (fun _ => OMutex s')) m = Some s'.
Proof. intros e m o s' Hn. rewrite get_mutex_upd_object. rewrite Hn. reflexivity. Qed.

Lemma get_mutex_objects_eq : forall e1 e2 m,
  e_objects e1 = e_objects e2 -> get_mutex e1 m = get_mutex e2 m.
Proof. intros e1 e2 m Heq. unfold get_mutex. rewrite Heq. reflexivity. Qed.

Lemma get_rw_nth : forall e r s,
  get_rw e r = Some s -> nth_error (e_objects e) r = Some (ORwLock s).
Proof.
  intros e r s Hg. unfold get_rw in Hg.
  destruct (nth_error (e_objects e) r) as [o|]; [|discriminate].
  destruct o; try discriminate. inversion Hg. reflexivity.
Qed.

Lemma get_rw_upd_const : forall e r o s',
  nth_error (e_objects e) r = Some o ->
  get_rw (upd_object e r (fun _ => ORwLock s')) r = Some s'.
Proof.
  intros e r o s' Hn. unfold get_rw. rewrite nth_error_objects_upd_same. rewrite Hn. reflexivity.
Qed.

Lemma get_rw_objects_eq : forall e1 e2 r,
  e_objects e1 = e_objects e2 -> get_rw e1 r = get_rw e2 r.
Proof. intros e1 e2 r Heq. unfold get_rw. rewrite Heq. reflexivity. Qed.

Lemma get_notify_nth : forall e n s,
  get_notify e n = Some s -> nth_error (e_objects e) n = Some (ONotify s).
Proof.
  intros e n s Hg. unfold get_notify in Hg.
  destruct (nth_error (e_objects e) n) as [o|]; [|discriminate].
  destruct o; try discriminate. inversion Hg. reflexivity.
Qed.

Lemma get_notify_upd_const : forall e n o s',
  nth_error (e_objects e) n = Some o ->
  get_notify (upd_object e n (fun _ => ONotify s')) n = Some s'.
Proof.
  intros e n o s' Hn. unfold get_notify. rewrite nth_error_objects_upd_same. rewrite Hn. reflexivity.
Qed.

Lemma get_notify_objects_eq : forall e1 e2 n,
  e_objects e1 = e_objects e2 -> get_notify e1 n = get_notify e2 n.
Proof. intros e1 e2 n Heq. unfold get_notify. rewrite Heq. reflexivity. Qed.

Lemma get_chan_nth : forall e h s,
  get_chan e h = Some s -> nth_error (e_objects e) h = Some (OChannel s).
Proof.
  intros e h s Hg. unfold get_chan in Hg.
  destruct (nth_error (e_objects e) h) as [o|]; [|discriminate].
  destruct o; try discriminate. inversion Hg. reflexivity.
Qed.

Lemma get_chan_upd_const : forall e h o s',
  nth_error (e_objects e) h = Some o ->
  get_chan (upd_object e h (fun _ => OChannel s')) h = Some s'.
Proof.
  intros e h o s' Hn. unfold get_chan. rewrite nth_error_objects_upd_same. rewrite Hn. reflexivity.
Qed.

Lemma get_chan_objects_eq : forall e1 e2 h,
  e_objects e1 = e_objects e2 -> get_chan e1 h = get_chan e2 h.
Proof. intros e1 e2 h Heq. unfold get_chan. rewrite Heq. reflexivity. Qed.

Lemma get_arc_nth : forall e k s,
  get_arc e k = Some s -> nth_error (e_objects e) k = Some (OArc s).
Proof.
  intros e k s Hg. unfold get_arc in Hg.
  destruct (nth_error (e_objects e) k) as [o|]; [|discriminate].
  destruct o; try discriminate. inversion Hg. reflexivity.
Qed.

Lemma get_arc_upd_const : forall e k o s',
  nth_error (e_objects e) k = Some o ->
  get_arc (upd_object e k (fun _ => OArc s')) k = Some s'.
Proof.
  intros e k o s' Hn. unfold get_arc. rewrite nth_error_objects_upd_same. rewrite Hn. reflexivity.
Qed.

Lemma get_arc_objects_eq : forall e1 e2 k,
  e_objects e1 = e_objects e2 -> get_arc e1 k = get_arc e2 k.
Proof. intros e1 e2 k Heq. unfold get_arc. rewrite Heq. reflexivity. Qed.

Lemma MOk_inj : forall a b, MOk a = MOk b -> a = b.
Proof. intros a b H. injection H as H. exact H. Qed.

Lemma is_some_false : forall (A : Type) (o : option A), is_some o = false <-> o = None.
Proof. intros A o. destruct o; simpl; split; intros H; try reflexivity; discriminate. Qed.

(* ================================================================== *)
(* 3. Mutex (C07 hand-over)                                            *)

Lemma release_lock_publishes : forall e me m s,
  get_mutex e m = Some s -> e_active e <> None ->
  exists s', get_mutex (release_lock e me m) m = Some s' /\
             vle (caus_of e me) (mx_sync s') /\
             vle (mx_sync s) (mx_sync s') /\
             mx_lock s' = None.
Proof.
  intros e me m s Hget Hact.
  pose proof (get_mutex_nth e m s Hget) as Hnth.
  unfold release_lock. rewrite Hget. cbv zeta.
  rewrite e_active_upd_object.
  destruct (e_active e) as [a|] eqn:Ha; [|exfalso; apply Hact; reflexivity].
  rewrite caus_of_upd_object, rel_of_upd_object.
  eexists. split.
  - rewrite (get_mutex_objects_eq _ _ m (e_objects_map_others _ _ _ _)).
    eapply get_mutex_upd_const.
    rewrite nth_error_objects_upd_same. rewrite Hnth. reflexivity.
  - simpl. split; [|split].
    + apply sync_store_rel. reflexivity.
    + apply sync_store_keeps.
    + reflexivity.
Qed.

(* the view published by release_lock, exactly *)
Lemma release_lock_sync : forall e me m s,
  get_mutex e m = Some s -> e_active e <> None ->
  exists s', get_mutex (release_lock e me m) m = Some s' /\
             mx_sync s' = sync_store (mx_sync s) (caus_of e me) (rel_of e me) Release.
Proof.
  intros e me m s Hget Hact.
  pose proof (get_mutex_nth e m s Hget) as Hnth.
  unfold release_lock. rewrite Hget. cbv zeta.
  rewrite e_active_upd_object.
  destruct (e_active e) as [a|] eqn:Ha; [|exfalso; apply Hact; reflexivity].
  rewrite caus_of_upd_object, rel_of_upd_object.
  eexists. split.
  - rewrite (get_mutex_objects_eq _ _ m (e_objects_map_others _ _ _ _)).
    eapply get_mutex_upd_const.
    rewrite nth_error_objects_upd_same. rewrite Hnth. reflexivity.
  - reflexivity.
Qed.

(* unlocking never changes any thread's clock *)
Lemma release_lock_clocks : forall e me m j, caus_of (release_lock e me m) j = caus_of e j.
Proof.
  intros e me m j. unfold release_lock.
  destruct (get_mutex e m) as [s|]; [|reflexivity]. cbv zeta.
  rewrite e_active_upd_object.
  destruct (e_active e) as [a|]; [|reflexivity].
  rewrite caus_of_map_others_keep by (intros t; reflexivity).
  reflexivity.
Qed.

Lemma post_acquire_acquires : forall e me m s e',
  get_mutex e m = Some s -> post_acquire e me m = (e', true) ->
  me < length (e_threads e) ->
  vle (mx_sync s) (caus_of e' me) /\
  vle (caus_of e me) (caus_of e' me) /\
  exists s', get_mutex e' m = Some s' /\ mx_lock s' = Some me /\ mx_sync s' = mx_sync s.
Proof.
  intros e me m s e' Hget Hpa Hlt.
  pose proof (get_mutex_nth e m s Hget) as Hnth.
  unfold post_acquire in Hpa. rewrite Hget in Hpa. cbv zeta in Hpa.
  destruct (is_some (mx_lock s)) eqn:Hlk; [discriminate|].
  inversion Hpa as [He']. clear Hpa.
  rewrite caus_of_map_others_me.
  rewrite caus_of_set_caus_same by exact Hlt.
  rewrite caus_of_upd_object.
  split; [|split].
  - apply sync_load_acq. reflexivity.
  - apply sync_load_keeps.
  - eexists. split.
    + rewrite (get_mutex_objects_eq _ _ m (e_objects_map_others _ _ _ _)).
      rewrite (get_mutex_objects_eq _ _ m (e_objects_set_caus _ _ _)).
      eapply get_mutex_upd_const. exact Hnth.
    + split; reflexivity.
Qed.

(* the acquirer's new clock, exactly *)
Lemma post_acquire_clock : forall e me m s e',
  get_mutex e m = Some s -> post_acquire e me m = (e', true) ->
  me < length (e_threads e) ->
  caus_of e' me = vv_join (caus_of e me) (mx_sync s).
Proof.
  intros e me m s e' Hget Hpa Hlt.
  unfold post_acquire in Hpa. rewrite Hget in Hpa. cbv zeta in Hpa.
  destruct (is_some (mx_lock s)) eqn:Hlk; [discriminate|].
  inversion Hpa as [He']. clear Hpa.
  rewrite caus_of_map_others_me.
  rewrite caus_of_set_caus_same by exact Hlt.
  rewrite caus_of_upd_object. reflexivity.
Qed.

Lemma post_acquire_fails_iff : forall e me m s,
  get_mutex e m = Some s ->
  (snd (post_acquire e me m) = false <-> mx_lock s <> None).
Proof.
  intros e me m s Hget. unfold post_acquire. rewrite Hget. cbv zeta.
  destruct (mx_lock s) as [o|]; simpl.
  - split; [intros _; discriminate | reflexivity].
  - split; [discriminate | intros H; exfalso; apply H; reflexivity].
Qed.

(* a failed (try_)lock changes nothing *)
Lemma post_acquire_fail_id : forall e me m e',
  post_acquire e me m = (e', false) -> e' = e.
Proof.
  intros e me m e' Hpa. unfold post_acquire in Hpa.
  destruct (get_mutex e m) as [s|]; [|inversion Hpa; reflexivity].
  cbv zeta in Hpa.
  destruct (is_some (mx_lock s)); [inversion Hpa; reflexivity | discriminate].
Qed.

Lemma post_acquire_other_clocks : forall e me m e' b,
  post_acquire e me m = (e', b) -> forall j, j <> me -> caus_of e' j = caus_of e j.
Proof.
  intros e me m e' b Hpa j Hne. unfold post_acquire in Hpa.
  destruct (get_mutex e m) as [s|]; [|inversion Hpa; reflexivity].
  cbv zeta in Hpa.
  destruct (is_some (mx_lock s)); [inversion Hpa; reflexivity|].
  inversion Hpa as [[He' Hb]]. clear Hpa.
  rewrite caus_of_map_others_keep by (intros t; reflexivity).
  rewrite caus_of_set_caus_other by (intros Heq; apply Hne; symmetry; exact Heq).
  apply caus_of_upd_object.
Qed.

Corollary mutex_handover : forall e a m s s1 e2 b s2,
  get_mutex e m = Some s -> e_active e <> None ->
  get_mutex (release_lock e a m) m = Some s1 ->
  get_mutex e2 m = Some s2 -> vle (mx_sync s1) (mx_sync s2) -> mx_lock s2 = None ->
  b < length (e_threads e2) ->
  snd (post_acquire e2 b m) = true /\
  vle (caus_of e a) (caus_of (fst (post_acquire e2 b m)) b).
Proof.
  intros e a m s s1 e2 b s2 Hget Hact Hget1 Hget2 Hle Hfree Hlt.
  destruct (release_lock_publishes e a m s Hget Hact) as [s' [Hs' [Hpub _]]].
  rewrite Hget1 in Hs'. inversion Hs' as [Heq]. subst s'. clear Hs'.
  destruct (post_acquire e2 b m) as [e3 ok] eqn:Hpa.
  assert (Hok : ok = true).
  { destruct ok; [reflexivity|]. exfalso.
    pose proof (post_acquire_fails_iff e2 b m s2 Hget2) as Hiff.
    rewrite Hpa in Hiff. simpl in Hiff. apply Hiff; [reflexivity | exact Hfree]. }
  subst ok. simpl. split; [reflexivity|].
  destruct (post_acquire_acquires e2 b m s2 e3 Hget2 Hpa Hlt) as [Hacq _].
  apply vle_trans with (mx_sync s1); [exact Hpub|].
  apply vle_trans with (mx_sync s2); [exact Hle | exact Hacq].
Qed.

(* ================================================================== *)
(* 4. RwLock                                                           *)

Lemma set_insert_In : forall x l, In x (set_insert x l).
Proof.
  intros x. induction l as [|h t IHt]; simpl.
  - left. reflexivity.
  - destruct (Nat.eqb h x) eqn:Heq.
    + apply Nat.eqb_eq in Heq. left. exact Heq.
    + right. exact IHt.
Qed.

Lemma set_insert_incl : forall x y l, In y l -> In y (set_insert x l).
Proof.
  intros x y. induction l as [|h t IHt]; simpl; intros Hin.
  - contradiction.
  - destruct (Nat.eqb h x).
    + exact Hin.
    + destruct Hin as [Hh|Ht]; [left; exact Hh | right; apply IHt; exact Ht].
Qed.

Lemma set_remove_not_In : forall x l, ~ In x (set_remove x l).
Proof.
  intros x l Hin. unfold set_remove in Hin. apply filter_In in Hin.
  destruct Hin as [_ Hf]. rewrite Nat.eqb_refl in Hf. discriminate.
Qed.

Lemma post_acquire_read_acquires : forall e me r s e',
  get_rw e r = Some s -> post_acquire_read e me r = (e', true) ->
  me < length (e_threads e) ->
  vle (rw_sync s) (caus_of e' me) /\
  vle (caus_of e me) (caus_of e' me) /\
  exists s' rs, get_rw e' r = Some s' /\ rw_lock s' = Some (RLRead rs) /\ In me rs /\
                rw_sync s' = rw_sync s.
Proof.
  intros e me r s e' Hget Hpa Hlt.
  pose proof (get_rw_nth e r s Hget) as Hnth.
  unfold post_acquire_read in Hpa. rewrite Hget in Hpa.
  destruct (rw_lock s) as [[rs|w]|] eqn:Hlk; cbv beta iota zeta in Hpa; try discriminate;
    inversion Hpa as [He']; clear Hpa;
    rewrite caus_of_map_others_me;
    rewrite caus_of_set_caus_same by exact Hlt;
    rewrite caus_of_upd_object;
    (split; [apply sync_load_acq; reflexivity |
     split; [apply sync_load_keeps |]]).
  - eexists. exists (set_insert me rs). split.
    + rewrite (get_rw_objects_eq _ _ r (e_objects_map_others _ _ _ _)).
      rewrite (get_rw_objects_eq _ _ r (e_objects_set_caus _ _ _)).
      eapply get_rw_upd_const. exact Hnth.
    + split; [reflexivity | split; [apply set_insert_In | reflexivity]].
  - eexists. exists [me]. split.
    + rewrite (get_rw_objects_eq _ _ r (e_objects_map_others _ _ _ _)).
      rewrite (get_rw_objects_eq _ _ r (e_objects_set_caus _ _ _)).
      eapply get_rw_upd_const. exact Hnth.
    + split; [reflexivity | split; [left; reflexivity | reflexivity]].
Qed.

Lemma post_acquire_read_fails_iff : forall e me r s,
  get_rw e r = Some s ->
  (snd (post_acquire_read e me r) = false <-> exists w, rw_lock s = Some (RLWrite w)).
Proof.
  intros e me r s Hget. unfold post_acquire_read. rewrite Hget.
  destruct (rw_lock s) as [[rs|w]|]; cbv beta iota zeta; simpl.
  - split; [discriminate | intros [w Hw]; discriminate].
  - split; [intros _; exists w; reflexivity | reflexivity].
  - split; [discriminate | intros [w Hw]; discriminate].
Qed.

Lemma post_acquire_read_fail_id : forall e me r e',
  post_acquire_read e me r = (e', false) -> e' = e.
Proof.
  intros e me r e' Hpa. unfold post_acquire_read in Hpa.
  destruct (get_rw e r) as [s|]; [|inversion Hpa; reflexivity].
  destruct (rw_lock s) as [[rs|w]|]; cbv beta iota zeta in Hpa;
    try discriminate; inversion Hpa; reflexivity.
Qed.

Lemma post_acquire_read_other_clocks : forall e me r e' b,
  post_acquire_read e me r = (e', b) -> forall j, j <> me -> caus_of e' j = caus_of e j.
Proof.
  intros e me r e' b Hpa j Hne. unfold post_acquire_read in Hpa.
  destruct (get_rw e r) as [s|]; [|inversion Hpa; reflexivity].
  destruct (rw_lock s) as [[rs|w]|]; cbv beta iota zeta in Hpa;
    inversion Hpa as [[He' Hb]]; clear Hpa; try reflexivity;
    rewrite caus_of_map_others_keep by (intros t; reflexivity);
    rewrite caus_of_set_caus_other by (intros Heq; apply Hne; symmetry; exact Heq);
    apply caus_of_upd_object.
Qed.

Lemma post_acquire_write_acquires : forall e me r s e',
  get_rw e r = Some s -> post_acquire_write e me r = (e', true) ->
  me < length (e_threads e) ->
  vle (rw_sync s) (caus_of e' me) /\
  vle (caus_of e me) (caus_of e' me) /\
  exists s', get_rw e' r = Some s' /\ rw_lock s' = Some (RLWrite me) /\ rw_sync s' = rw_sync s.
Proof.
  intros e me r s e' Hget Hpa Hlt.
  pose proof (get_rw_nth e r s Hget) as Hnth.
  unfold post_acquire_write in Hpa. rewrite Hget in Hpa.
  destruct (rw_lock s) as [lk|] eqn:Hlk; cbv beta iota zeta in Hpa; [discriminate|].
  inversion Hpa as [He']. clear Hpa.
  rewrite caus_of_map_others_me.
  rewrite caus_of_set_caus_same by exact Hlt.
  rewrite caus_of_upd_object.
  split; [apply sync_load_acq; reflexivity | split; [apply sync_load_keeps |]].
  eexists. split.
  - rewrite (get_rw_objects_eq _ _ r (e_objects_map_others _ _ _ _)).
    rewrite (get_rw_objects_eq _ _ r (e_objects_set_caus _ _ _)).
    eapply get_rw_upd_const. exact Hnth.
  - split; reflexivity.
Qed.

Lemma post_acquire_write_fails_iff : forall e me r s,
  get_rw e r = Some s ->
  (snd (post_acquire_write e me r) = false <-> rw_lock s <> None).
Proof.
  intros e me r s Hget. unfold post_acquire_write. rewrite Hget.
  destruct (rw_lock s) as [lk|]; cbv beta iota zeta; simpl.
  - split; [intros _; discriminate | reflexivity].
  - split; [discriminate | intros H; exfalso; apply H; reflexivity].
Qed.

Lemma post_acquire_write_fail_id : forall e me r e',
  post_acquire_write e me r = (e', false) -> e' = e.
Proof.
  intros e me r e' Hpa. unfold post_acquire_write in Hpa.
  destruct (get_rw e r) as [s|]; [|inversion Hpa; reflexivity].
  destruct (rw_lock s) as [lk|]; cbv beta iota zeta in Hpa;
    [inversion Hpa; reflexivity | discriminate].
Qed.

Lemma post_acquire_write_other_clocks : forall e me r e' b,
  post_acquire_write e me r = (e', b) -> forall j, j <> me -> caus_of e' j = caus_of e j.
Proof.
  intros e me r e' b Hpa j Hne. unfold post_acquire_write in Hpa.
  destruct (get_rw e r) as [s|]; [|inversion Hpa; reflexivity].
  destruct (rw_lock s) as [lk|]; cbv beta iota zeta in Hpa;
    inversion Hpa as [[He' Hb]]; clear Hpa; [reflexivity|].
  rewrite caus_of_map_others_keep by (intros t; reflexivity).
  rewrite caus_of_set_caus_other by (intros Heq; apply Hne; symmetry; exact Heq).
  apply caus_of_upd_object.
Qed.

(* release_read: the lock field afterwards is None exactly when [me] was the
   last reader, otherwise the remaining reader set *)
Lemma release_read_publishes : forall e me r s e',
  get_rw e r = Some s -> release_read e me r = MOk e' ->
  exists s', get_rw e' r = Some s' /\
             vle (caus_of e me) (rw_sync s') /\
             vle (rw_sync s) (rw_sync s') /\
             exists rs, rw_lock s = Some (RLRead rs) /\
                        rw_lock s' = match set_remove me rs with
                                     | [] => None
                                     | rs' => Some (RLRead rs')
                                     end.
Proof.
  intros e me r s e' Hget Hrel.
  pose proof (get_rw_nth e r s Hget) as Hnth.
  unfold release_read in Hrel. rewrite Hget in Hrel. cbv zeta in Hrel.
  destruct (rw_lock s) as [[rs|w]|] eqn:Hlk; try discriminate.
  destruct (set_remove me rs) as [|x rs'] eqn:Hrm; inversion Hrel as [He']; clear Hrel.
  - eexists. split.
    + rewrite (get_rw_objects_eq _ _ r (e_objects_map_others _ _ _ _)).
      eapply get_rw_upd_const. exact Hnth.
    + simpl. split; [apply sync_store_rel; reflexivity |
               split; [apply sync_store_keeps |]].
      exists rs. rewrite Hrm. split; reflexivity.
  - eexists. split.
    + eapply get_rw_upd_const. exact Hnth.
    + simpl. split; [apply sync_store_rel; reflexivity |
               split; [apply sync_store_keeps |]].
      exists rs. rewrite Hrm. split; reflexivity.
Qed.

Lemma release_read_ok_iff : forall e me r s,
  get_rw e r = Some s ->
  ((exists e', release_read e me r = MOk e') <-> exists rs, rw_lock s = Some (RLRead rs)).
Proof.
  intros e me r s Hget. unfold release_read. rewrite Hget. cbv zeta.
  destruct (rw_lock s) as [[rs|w]|].
  - split; [intros _; exists rs; reflexivity|]. intros _.
    destruct (set_remove me rs); eexists; reflexivity.
  - split; [intros [e' H]; discriminate | intros [rs H]; discriminate].
  - split; [intros [e' H]; discriminate | intros [rs H]; discriminate].
Qed.

Lemma release_read_clocks : forall e me r e' j,
  release_read e me r = MOk e' -> caus_of e' j = caus_of e j.
Proof.
  intros e me r e' j Hrel. unfold release_read in Hrel.
  destruct (get_rw e r) as [s|]; [|discriminate]. cbv zeta in Hrel.
  destruct (rw_lock s) as [[rs|w]|]; try discriminate.
  destruct (set_remove me rs) as [|x rs']; inversion Hrel as [He']; clear Hrel.
  - rewrite caus_of_map_others_keep by (intros t; reflexivity). reflexivity.
  - reflexivity.
Qed.

Lemma release_write_publishes : forall e me r s,
  get_rw e r = Some s ->
  exists e' s', release_write e me r = MOk e' /\
                get_rw e' r = Some s' /\
                vle (caus_of e me) (rw_sync s') /\
                vle (rw_sync s) (rw_sync s') /\
                rw_lock s' = None.
Proof.
  intros e me r s Hget.
  pose proof (get_rw_nth e r s Hget) as Hnth.
  unfold release_write. rewrite Hget. cbv zeta.
  eexists. eexists. split; [reflexivity|]. split.
  - rewrite (get_rw_objects_eq _ _ r (e_objects_map_others _ _ _ _)).
    eapply get_rw_upd_const. exact Hnth.
  - simpl. split; [apply sync_store_rel; reflexivity |
             split; [apply sync_store_keeps | reflexivity]].
Qed.

Lemma release_write_clocks : forall e me r e' j,
  release_write e me r = MOk e' -> caus_of e' j = caus_of e j.
Proof.
  intros e me r e' j Hrel. unfold release_write in Hrel.
  destruct (get_rw e r) as [s|]; [|discriminate]. cbv zeta in Hrel.
  inversion Hrel as [He']. clear Hrel.
  rewrite caus_of_map_others_keep by (intros t; reflexivity). reflexivity.
Qed.

(* writer -> next reader or writer *)
Corollary rw_write_handover : forall e a r s e1 s1 e2 b s2,
  get_rw e r = Some s -> release_write e a r = MOk e1 -> get_rw e1 r = Some s1 ->
  get_rw e2 r = Some s2 -> vle (rw_sync s1) (rw_sync s2) ->
  b < length (e_threads e2) ->
  (forall e3, post_acquire_write e2 b r = (e3, true) -> vle (caus_of e a) (caus_of e3 b)) /\
  (forall e3, post_acquire_read e2 b r = (e3, true) -> vle (caus_of e a) (caus_of e3 b)).
Proof.
  intros e a r s e1 s1 e2 b s2 Hget Hrel Hget1 Hget2 Hle Hlt.
  destruct (release_write_publishes e a r s Hget) as [e1' [s1' [Hrel' [Hg1' [Hpub _]]]]].
  rewrite Hrel in Hrel'. inversion Hrel' as [Heq]. subst e1'. clear Hrel'.
  rewrite Hget1 in Hg1'. inversion Hg1' as [Heq]. subst s1'. clear Hg1'.
  split; intros e3 Hpa.
  - destruct (post_acquire_write_acquires e2 b r s2 e3 Hget2 Hpa Hlt) as [Hacq _].
    apply vle_trans with (rw_sync s1); [exact Hpub|].
    apply vle_trans with (rw_sync s2); [exact Hle | exact Hacq].
  - destruct (post_acquire_read_acquires e2 b r s2 e3 Hget2 Hpa Hlt) as [Hacq _].
    apply vle_trans with (rw_sync s1); [exact Hpub|].
    apply vle_trans with (rw_sync s2); [exact Hle | exact Hacq].
Qed.

(* reader -> next writer *)
Corollary rw_read_handover : forall e a r s e1 s1 e2 b s2 e3,
  get_rw e r = Some s -> release_read e a r = MOk e1 -> get_rw e1 r = Some s1 ->
  get_rw e2 r = Some s2 -> vle (rw_sync s1) (rw_sync s2) ->
  b < length (e_threads e2) ->
  post_acquire_write e2 b r = (e3, true) ->
  vle (caus_of e a) (caus_of e3 b).
Proof.
  intros e a r s e1 s1 e2 b s2 e3 Hget Hrel Hget1 Hget2 Hle Hlt Hpa.
  destruct (release_read_publishes e a r s e1 Hget Hrel) as [s1' [Hg1' [Hpub _]]].
  rewrite Hget1 in Hg1'. inversion Hg1' as [Heq]. subst s1'. clear Hg1'.
  destruct (post_acquire_write_acquires e2 b r s2 e3 Hget2 Hpa Hlt) as [Hacq _].
  apply vle_trans with (rw_sync s1); [exact Hpub|].
  apply vle_trans with (rw_sync s2); [exact Hle | exact Hacq].
Qed.

(* ================================================================== *)
(* 5. Notify / join / thread exit (C08)                                *)

Lemma exec_micro_notify_post : forall e me n,
  exec_micro e me (MNotifyPost n) =
  match get_notify e n with
  | None => MFail e (PanicModel 13)
  | Some s =>
      let sy := sync_store (nt_sync s) (caus_of e me) (rel_of e me) Release in
      let e1 := upd_object e n (fun _ => ONotify (nt_set s (nt_did_spur s) true sy)) in
      MOk (map_others e1 me (pending_on n) (fun t => thread_notified t (caus_of e1 me)))
  end.
Proof. reflexivity. Qed.

Lemma exec_micro_notify_wait2 : forall e me n,
  exec_micro e me (MNotifyWait2 n) =
  match get_notify e n with
  | None => MFail e (PanicModel 13)
  | Some s =>
      if negb (nt_notified s) then MFail e PanicNotified
      else MOk (upd_object (set_caus e me (sync_load (caus_of e me) (nt_sync s) Acquire)) n
                  (fun _ => ONotify (nt_set s (nt_did_spur s) false (nt_sync s))))
  end.
Proof. reflexivity. Qed.

Lemma notify_post_publishes : forall e me n s e',
  get_notify e n = Some s -> exec_micro e me (MNotifyPost n) = MOk e' ->
  exists s', get_notify e' n = Some s' /\
             vle (caus_of e me) (nt_sync s') /\
             vle (nt_sync s) (nt_sync s') /\
             nt_notified s' = true.
Proof.
  intros e me n s e' Hget Hex.
  pose proof (get_notify_nth e n s Hget) as Hnth.
  rewrite exec_micro_notify_post in Hex. rewrite Hget in Hex. cbv zeta in Hex.
  inversion Hex as [He']. clear Hex.
  eexists. split.
  - rewrite (get_notify_objects_eq _ _ n (e_objects_map_others _ _ _ _)).
    eapply get_notify_upd_const. exact Hnth.
  - simpl. split; [apply sync_store_rel; reflexivity |
             split; [apply sync_store_keeps | reflexivity]].
Qed.

(* every OTHER thread pending on the notify is unparked with the notifier's clock *)
Lemma notify_post_unparks : forall e me n s e' j t,
  get_notify e n = Some s -> exec_micro e me (MNotifyPost n) = MOk e' ->
  j <> me -> get_thread e j = Some t -> pending_on n t = true ->
  vle (caus_of e me) (caus_of e' j) /\ vle (caus_of e j) (caus_of e' j) /\
  caus_of e' j = vv_join (caus_of e j) (caus_of e me).
Proof.
  intros e me n s e' j t Hget Hex Hne Hth Hpend.
  rewrite exec_micro_notify_post in Hex. rewrite Hget in Hex. cbv zeta in Hex.
  inversion Hex as [He']. clear Hex.
  rewrite (caus_of_map_others_hit _ me (pending_on n) _ j t Hne);
    [| rewrite get_thread_upd_object; exact Hth | exact Hpend].
  rewrite t_caus_thread_notified. rewrite caus_of_upd_object.
  assert (Hcj : caus_of e j = t_caus t) by (unfold caus_of; rewrite Hth; reflexivity).
  rewrite Hcj.
  split; [apply vle_join_r | split; [apply vle_join_l | reflexivity]].
Qed.

(* the notifier itself and the threads not pending on [n] keep their clocks *)
Lemma notify_post_other_clocks : forall e me n s e' j,
  get_notify e n = Some s -> exec_micro e me (MNotifyPost n) = MOk e' ->
  (j = me \/ forall t, get_thread e j = Some t -> pending_on n t = false) ->
  caus_of e' j = caus_of e j.
Proof.
  intros e me n s e' j Hget Hex Hcase.
  rewrite exec_micro_notify_post in Hex. rewrite Hget in Hex. cbv zeta in Hex.
  inversion Hex as [He']. clear Hex.
  destruct Hcase as [Heq|Hnp].
  - subst j. rewrite caus_of_map_others_me. apply caus_of_upd_object.
  - destruct (get_thread e j) as [t|] eqn:Hth.
    + rewrite (caus_of_map_others_miss _ me (pending_on n) _ j t);
        [| rewrite get_thread_upd_object; exact Hth | apply Hnp; reflexivity].
      unfold caus_of. rewrite Hth. reflexivity.
    + unfold caus_of at 1. rewrite get_thread_map_others. rewrite get_thread_upd_object.
      rewrite Hth. simpl. unfold caus_of. rewrite Hth. reflexivity.
Qed.

(* clocks never shrink in a notify *)
Lemma notify_post_monotone : forall e me n s e' j,
  get_notify e n = Some s -> exec_micro e me (MNotifyPost n) = MOk e' ->
  vle (caus_of e j) (caus_of e' j).
Proof.
  intros e me n s e' j Hget Hex.
  destruct (Nat.eq_dec j me) as [Heq|Hne].
  - rewrite (notify_post_other_clocks e me n s e' j Hget Hex (or_introl Heq)). apply vle_refl.
  - destruct (get_thread e j) as [t|] eqn:Hth.
    + destruct (pending_on n t) eqn:Hp.
      * destruct (notify_post_unparks e me n s e' j t Hget Hex Hne Hth Hp) as [_ [H _]]. exact H.
      * rewrite (notify_post_other_clocks e me n s e' j Hget Hex).
        -- apply vle_refl.
        -- right. intros t' Ht'. rewrite Hth in Ht'. inversion Ht'. subst t'. exact Hp.
    + rewrite (notify_post_other_clocks e me n s e' j Hget Hex).
      * apply vle_refl.
      * right. intros t' Ht'. rewrite Hth in Ht'. discriminate.
Qed.

Lemma notify_wait2_acquires : forall e me n s e',
  get_notify e n = Some s -> exec_micro e me (MNotifyWait2 n) = MOk e' ->
  me < length (e_threads e) ->
  nt_notified s = true /\
  vle (nt_sync s) (caus_of e' me) /\
  vle (caus_of e me) (caus_of e' me) /\
  exists s', get_notify e' n = Some s' /\ nt_notified s' = false /\ nt_sync s' = nt_sync s.
Proof.
  intros e me n s e' Hget Hex Hlt.
  pose proof (get_notify_nth e n s Hget) as Hnth.
  rewrite exec_micro_notify_wait2 in Hex. rewrite Hget in Hex.
  destruct (nt_notified s) eqn:Hnot; simpl in Hex; [|discriminate].
  inversion Hex as [He']. clear Hex.
  split; [reflexivity|].
  rewrite caus_of_upd_object.
  rewrite caus_of_set_caus_same by exact Hlt.
  split; [apply sync_load_acq; reflexivity | split; [apply sync_load_keeps |]].
  eexists. split.
  - eapply get_notify_upd_const. rewrite e_objects_set_caus. exact Hnth.
  - split; reflexivity.
Qed.

Lemma notify_wait2_fails_iff : forall e me n s,
  get_notify e n = Some s ->
  ((exists e', exec_micro e me (MNotifyWait2 n) = MFail e' PanicNotified) <->
   nt_notified s = false).
Proof.
  intros e me n s Hget. rewrite exec_micro_notify_wait2. rewrite Hget.
  destruct (nt_notified s); simpl.
  - split; [intros [e' H]; discriminate | discriminate].
  - split; [reflexivity | intros _; exists e; reflexivity].
Qed.

Lemma notify_wait2_other_clocks : forall e me n e' j,
  exec_micro e me (MNotifyWait2 n) = MOk e' -> j <> me -> caus_of e' j = caus_of e j.
Proof.
  intros e me n e' j Hex Hne. rewrite exec_micro_notify_wait2 in Hex.
  destruct (get_notify e n) as [s|]; [|discriminate].
  destruct (negb (nt_notified s)); [discriminate|].
  inversion Hex as [He']. clear Hex.
  rewrite caus_of_upd_object.
  apply caus_of_set_caus_other. intros Heq. apply Hne. symmetry. exact Heq.
Qed.

(* notify (thread exit) -> wait (join) *)
Corollary notify_handover : forall e a n s e1 s1 e2 b s2 e3,
  get_notify e n = Some s -> exec_micro e a (MNotifyPost n) = MOk e1 ->
  get_notify e1 n = Some s1 ->
  get_notify e2 n = Some s2 -> vle (nt_sync s1) (nt_sync s2) ->
  b < length (e_threads e2) ->
  exec_micro e2 b (MNotifyWait2 n) = MOk e3 ->
  vle (caus_of e a) (caus_of e3 b).
Proof.
  intros e a n s e1 s1 e2 b s2 e3 Hget Hpost Hget1 Hget2 Hle Hlt Hwait.
  destruct (notify_post_publishes e a n s e1 Hget Hpost) as [s1' [Hg1' [Hpub _]]].
  rewrite Hget1 in Hg1'. inversion Hg1' as [Heq]. subst s1'. clear Hg1'.
  destruct (notify_wait2_acquires e2 b n s2 e3 Hget2 Hwait Hlt) as [_ [Hacq _]].
  apply vle_trans with (nt_sync s1); [exact Hpub|].
  apply vle_trans with (nt_sync s2); [exact Hle | exact Hacq].
Qed.

(* the join / exit wrappers only schedule the two micro-steps above *)
Lemma join_schedules_wait : forall e me b e',
  exec_micro e me (MJoin b) = MOk e' ->
  exists tid nidx, nth b (e_spawned e) None = Some (tid, nidx) /\
    (forall j, caus_of e' j = caus_of e j) /\ e_objects e' = e_objects e.
Proof.
  intros e me b e' Hex. unfold exec_micro in Hex.
  destruct (nth b (e_spawned e) None) as [[tid nidx]|]; [|discriminate].
  destruct (nth b (e_joined e) true); [discriminate|].
  inversion Hex as [He']. clear Hex.
  exists tid, nidx. split; [reflexivity|]. split.
  - intros j. rewrite caus_of_push_cont. reflexivity.
  - reflexivity.
Qed.

Lemma exit_schedules_post : forall e me e',
  exec_micro e me MExitNotify = MOk e' ->
  (forall j, caus_of e' j = caus_of e j) /\ e_objects e' = e_objects e.
Proof.
  intros e me e' Hex. unfold exec_micro in Hex.
  destruct (get_thread e me) as [t|]; [|discriminate].
  destruct (nth (t_body t) (e_spawned e) None) as [[tid nidx]|]; [|discriminate].
  inversion Hex as [He']. clear Hex. split.
  - intros j. rewrite caus_of_push_cont. reflexivity.
  - reflexivity.
Qed.

(* ================================================================== *)
(* 6. Channel (C09)                                                    *)

(* MSendPost with the receiver gone writes the channel object twice (push, then
   Channel::undo_send): the first write is dead.  These equations bring the
   result back to the single-write shape the framing tactics of the later
   files (SyncMono, NotifyFacts, ClockFacts, LeakFacts, ...) know. *)
Lemma list_upd_upd_const : forall (A : Type) (l : list A) k (a b : A),
  list_upd (list_upd l k (fun _ => a)) k (fun _ => b) = list_upd l k (fun _ => b).
Proof.
  intros A l k a b. unfold list_upd at 1. rewrite nth_error_list_upd_same.
  unfold list_upd. destruct (nth_error l k) as [x|] eqn:Hn; cbn [option_map]; [|reflexivity].
  clear Hn x. revert k. induction l as [|y l IH]; intros k; [reflexivity|].
  destruct k as [|k]; cbn [list_set]; [reflexivity|]. rewrite IH. reflexivity.
Qed.

Lemma upd_object_upd_object_const : forall e i o1 o2,
  upd_object (upd_object e i (fun _ => o1)) i (fun _ => o2) = upd_object e i (fun _ => o2).
Proof.
  intros e i o1 o2. unfold upd_object. cbn [e_objects ex_set_objects].
  rewrite list_upd_upd_const. reflexivity.
Qed.

Lemma upd_object_map_others_upd_object_const : forall e i o1 o2 me p f,
  upd_object (map_others (upd_object e i (fun _ => o1)) me p f) i (fun _ => o2) =
  map_others (upd_object e i (fun _ => o2)) me p f.
Proof.
  intros e i o1 o2 me p f. unfold upd_object, map_others.
  cbn [e_objects e_threads ex_set_objects ex_set_threads].
  rewrite list_upd_upd_const. reflexivity.
Qed.

(* the harness flag "receiver alive" as MSendPost reads it (after the channel
   object and the wake-ups were written) is the flag of the state before *)
Lemma send_post_rx_frame : forall e h f me p g (c : bool),
  get_h (if c then map_others (upd_object e h f) me p g else upd_object e h f) h = get_h e h.
Proof. intros e h f me p g c. destruct c; reflexivity. Qed.

Lemma send_post_keeps_rx : forall e me h v e',
  exec_micro e me (MSendPost h v) = MOk e' -> ho_rx (get_h e' h) = ho_rx (get_h e h).
Proof.
  intros e me h v e' Hex. unfold exec_micro in Hex.
  destruct (get_chan e h) as [s|]; [|discriminate]. cbv zeta in Hex.
  rewrite send_post_rx_frame in Hex.
  apply MOk_inj in Hex. subst e'.
  assert (Hlog : forall e0 r, get_h (log_op e0 me r) h = get_h e0 h).
  { intros e0 r. unfold log_op. destruct (get_thread e0 me); reflexivity. }
  rewrite Hlog.
  destruct (ho_rx (get_h e h)) eqn:Hrx.
  - unfold get_h, upd_hobj. change (e_h (ex_set_h ?a ?l)) with l.
    rewrite (nth_list_upd_proj _ _ ho_rx) by (intros x; reflexivity).
    match goal with |- context [if ?c then map_others _ _ _ _ else _] => destruct c end;
      exact Hrx.
  - match goal with |- context [if ?c then map_others _ _ _ _ else _] => destruct c end;
      exact Hrx.
Qed.

(* receiver alive: the message is queued *)
Lemma send_post_publishes : forall e me h v s e',
  get_chan e h = Some s -> ho_rx (get_h e h) = true ->
  exec_micro e me (MSendPost h v) = MOk e' ->
  exists s', get_chan e' h = Some s' /\
             ch_cnt s' = S (ch_cnt s) /\
             ch_recv_sync s' = ch_recv_sync s ++ [ch_sender_sync s'] /\
             vle (caus_of e me) (ch_sender_sync s') /\
             vle (ch_sender_sync s) (ch_sender_sync s').
Proof.
  intros e me h v s e' Hget Hrx Hex.
  pose proof (get_chan_nth e h s Hget) as Hnth.
  unfold exec_micro in Hex. rewrite Hget in Hex. cbv zeta in Hex.
  rewrite send_post_rx_frame in Hex. rewrite Hrx in Hex. cbv iota in Hex.
  apply MOk_inj in Hex. subst e'.
  eexists. split.
  - rewrite (get_chan_objects_eq _ _ h (e_objects_log_op _ _ _)).
    rewrite (get_chan_objects_eq _ _ h (e_objects_upd_hobj _ _ _)).
    match goal with |- context [if ?c then map_others _ _ _ _ else _] => destruct c end;
      [rewrite (get_chan_objects_eq _ _ h (e_objects_map_others _ _ _ _))|];
      eapply get_chan_upd_const; exact Hnth.
  - cbn [ch_cnt ch_recv_sync ch_sender_sync]. split; [reflexivity | split; [reflexivity |
             split; [apply sync_store_rel; reflexivity | apply sync_store_keeps]]].
Qed.

(* receiver gone: the message comes back to the sender; the count and the queued
   per-message views are left alone, only the sender-side view advances *)
Lemma send_post_disconnected : forall e me h v s e',
  get_chan e h = Some s -> ho_rx (get_h e h) = false ->
  exec_micro e me (MSendPost h v) = MOk e' ->
  exists s', get_chan e' h = Some s' /\
             ch_cnt s' = ch_cnt s /\
             ch_recv_sync s' = ch_recv_sync s /\
             vle (ch_sender_sync s) (ch_sender_sync s').
Proof.
  intros e me h v s e' Hget Hrx Hex.
  pose proof (get_chan_nth e h s Hget) as Hnth.
  unfold exec_micro in Hex. rewrite Hget in Hex. cbv zeta in Hex.
  rewrite send_post_rx_frame in Hex. rewrite Hrx in Hex. cbv iota in Hex.
  apply MOk_inj in Hex. subst e'.
  eexists. split.
  - rewrite (get_chan_objects_eq _ _ h (e_objects_log_op _ _ _)).
    eapply get_chan_upd_const.
    match goal with |- context [if ?c then map_others _ _ _ _ else _] => destruct c end;
      [rewrite e_objects_map_others|];
      rewrite e_objects_upd_object; rewrite nth_error_list_upd_same; rewrite Hnth; reflexivity.
  - cbn [ch_cnt ch_recv_sync ch_sender_sync].
    split; [reflexivity | split; [reflexivity | apply sync_store_keeps]].
Qed.

(* a disconnected send still publishes the sender's clock in the sender-side view *)
Lemma send_post_disconnected_sender_sync : forall e me h v s e' s',
  get_chan e h = Some s -> ho_rx (get_h e h) = false ->
  exec_micro e me (MSendPost h v) = MOk e' -> get_chan e' h = Some s' ->
  vle (caus_of e me) (ch_sender_sync s').
Proof.
  intros e me h v s e' s' Hget Hrx Hex Hget'.
  pose proof (get_chan_nth e h s Hget) as Hnth.
  unfold exec_micro in Hex. rewrite Hget in Hex. cbv zeta in Hex.
  rewrite send_post_rx_frame in Hex. rewrite Hrx in Hex. cbv iota in Hex.
  apply MOk_inj in Hex. subst e'.
  rewrite (get_chan_objects_eq _ _ h (e_objects_log_op _ _ _)) in Hget'.
  assert (Hn : forall (c : bool) f p g,
             nth_error (e_objects (if c then map_others (upd_object e h f) me p g
                                   else upd_object e h f)) h = Some (f (OChannel s))).
  { intros c f p g. destruct c; [rewrite e_objects_map_others|];
      rewrite e_objects_upd_object; rewrite nth_error_list_upd_same; rewrite Hnth; reflexivity. }
  rewrite (get_chan_upd_const _ _ _ _ (Hn _ _ _ _)) in Hget'.
  inversion Hget' as [Hs']. cbn [ch_sender_sync].
  apply sync_store_rel. reflexivity.
Qed.

(* the view pushed for the new message dominates the sender's clock *)
Corollary send_post_last_view : forall e me h v s e' s',
  get_chan e h = Some s -> ho_rx (get_h e h) = true ->
  exec_micro e me (MSendPost h v) = MOk e' ->
  get_chan e' h = Some s' ->
  exists sy, ch_recv_sync s' = ch_recv_sync s ++ [sy] /\
             vle (caus_of e me) sy /\ vle (ch_sender_sync s) sy.
Proof.
  intros e me h v s e' s' Hget Hrx Hex Hget'.
  destruct (send_post_publishes e me h v s e' Hget Hrx Hex) as [s'' [Hg [_ [Hrs [Hc Hs]]]]].
  rewrite Hget' in Hg. inversion Hg as [Heq]. subst s''. clear Hg.
  exists (ch_sender_sync s'). split; [exact Hrs | split; [exact Hc | exact Hs]].
Qed.

Lemma send_post_clocks : forall e me h v e' j,
  exec_micro e me (MSendPost h v) = MOk e' -> caus_of e' j = caus_of e j.
Proof.
  intros e me h v e' j Hex. unfold exec_micro in Hex.
  destruct (get_chan e h) as [s|]; [|discriminate]. cbv zeta in Hex.
  apply MOk_inj in Hex. subst e'.
  rewrite caus_of_log_op.
  match goal with |- caus_of (if ?c then _ else _) _ = _ => destruct c end;
    [rewrite caus_of_upd_hobj|rewrite caus_of_upd_object];
    (match goal with |- context [if ?c then map_others _ _ _ _ else _] => destruct c end;
     [rewrite caus_of_map_others_keep by (intros t; reflexivity)|];
     apply caus_of_upd_object).
Qed.

Lemma recv_post_acquires : forall e me h lg s n sy rest e',
  get_chan e h = Some s -> ch_cnt s = S n -> ch_recv_sync s = sy :: rest ->
  exec_micro e me (MRecvPost h lg) = MOk e' ->
  me < length (e_threads e) ->
  vle sy (caus_of e' me) /\
  vle (caus_of e me) (caus_of e' me) /\
  exists s', get_chan e' h = Some s' /\ ch_cnt s' = n /\ ch_recv_sync s' = rest /\
             ch_sender_sync s' = ch_sender_sync s.
Proof.
  intros e me h lg s n sy rest e' Hget Hcnt Hrs Hex Hlt.
  pose proof (get_chan_nth e h s Hget) as Hnth.
  unfold exec_micro in Hex. rewrite Hget, Hcnt, Hrs in Hex. cbv zeta in Hex.
  match type of Hex with match ho_q ?x with _ => _ end = _ => destruct (ho_q x) as [|v q] end;
    [discriminate|].
  apply MOk_inj in Hex. subst e'.
  assert (Hc : forall e0, caus_of (if lg then log_op (upd_hobj e0 h (fun ho => ho_set_q ho q)) me (RVal v)
                                   else upd_hobj e0 h (fun ho => ho_set_q ho q)) me = caus_of e0 me).
  { intros e0. destruct lg; [rewrite caus_of_log_op|]; apply caus_of_upd_hobj. }
  assert (Ho : forall e0, e_objects (if lg then log_op (upd_hobj e0 h (fun ho => ho_set_q ho q)) me (RVal v)
                                     else upd_hobj e0 h (fun ho => ho_set_q ho q)) = e_objects e0).
  { intros e0. destruct lg; [rewrite e_objects_log_op|]; apply e_objects_upd_hobj. }
  rewrite Hc.
  assert (Hcm : forall e0, caus_of (if Nat.eqb n 0 then map_others e0 me (pending_on_act h ARecv) set_blocked else e0) me
                           = caus_of e0 me).
  { intros e0. destruct (Nat.eqb n 0); [apply caus_of_map_others_me | reflexivity]. }
  rewrite Hcm.
  rewrite caus_of_set_caus_same by exact Hlt.
  rewrite caus_of_upd_object.
  split; [apply sync_load_acq; reflexivity | split; [apply sync_load_keeps |]].
  eexists. split.
  - rewrite (get_chan_objects_eq _ _ h (Ho _)).
    assert (Hom : forall e0, e_objects (if Nat.eqb n 0 then map_others e0 me (pending_on_act h ARecv) set_blocked else e0)
                             = e_objects e0).
    { intros e0. destruct (Nat.eqb n 0); reflexivity. }
    rewrite (get_chan_objects_eq _ _ h (Hom _)).
    rewrite (get_chan_objects_eq _ _ h (e_objects_set_caus _ _ _)).
    eapply get_chan_upd_const. exact Hnth.
  - simpl. split; [reflexivity | split; reflexivity].
Qed.

Lemma recv_post_empty_fails : forall e me h lg s,
  get_chan e h = Some s -> ch_cnt s = 0 ->
  exec_micro e me (MRecvPost h lg) = MFail e PanicExpectMsg.
Proof.
  intros e me h lg s Hget Hcnt. unfold exec_micro. rewrite Hget, Hcnt. reflexivity.
Qed.

Lemma recv_post_other_clocks : forall e me h lg e' j,
  exec_micro e me (MRecvPost h lg) = MOk e' -> j <> me -> caus_of e' j = caus_of e j.
Proof.
  intros e me h lg e' j Hex Hne. unfold exec_micro in Hex.
  destruct (get_chan e h) as [s|]; [|discriminate].
  destruct (ch_cnt s) as [|n]; [discriminate|].
  destruct (ch_recv_sync s) as [|sy rest]; [discriminate|]. cbv zeta in Hex.
  match type of Hex with match ho_q ?x with _ => _ end = _ => destruct (ho_q x) as [|v q] end;
    [discriminate|].
  apply MOk_inj in Hex. subst e'.
  destruct lg; [rewrite caus_of_log_op|]; rewrite caus_of_upd_hobj;
    (destruct (Nat.eqb n 0);
     [rewrite caus_of_map_others_keep by (intros t; reflexivity)|];
     rewrite caus_of_set_caus_other by (intros Heq; apply Hne; symmetry; exact Heq);
     apply caus_of_upd_object).
Qed.

(* send -> the receive that consumes that very slot *)
Corollary channel_handover : forall e a h v s e1 e2 b lg s2 n sy rest e3,
  get_chan e h = Some s -> exec_micro e a (MSendPost h v) = MOk e1 ->
  get_chan e2 h = Some s2 -> ch_cnt s2 = S n -> ch_recv_sync s2 = sy :: rest ->
  vle (sync_store (ch_sender_sync s) (caus_of e a) (rel_of e a) Release) sy ->
  exec_micro e2 b (MRecvPost h lg) = MOk e3 -> b < length (e_threads e2) ->
  vle (caus_of e a) (caus_of e3 b).
Proof.
  intros e a h v s e1 e2 b lg s2 n sy rest e3 Hget Hsend Hget2 Hcnt Hrs Hle Hrecv Hlt.
  destruct (recv_post_acquires e2 b h lg s2 n sy rest e3 Hget2 Hcnt Hrs Hrecv Hlt) as [Hacq _].
  apply vle_trans with sy; [|exact Hacq].
  apply vle_trans with (sync_store (ch_sender_sync s) (caus_of e a) (rel_of e a) Release);
    [apply sync_store_rel; reflexivity | exact Hle].
Qed.

(* ================================================================== *)
(* 7. Arc (C11)                                                        *)

Lemma exec_micro_arc_dec_post : forall e me k unwrap,
  exec_micro e me (MArcDecPost k unwrap) =
  match get_arc e k with
  | None => MFail e (PanicModel 22)
  | Some s =>
      match arc_cnt s with
      | 0 => MFail e PanicArcReleased
      | S cnt =>
          let sy := sync_store (arc_sync s) (caus_of e me) (rel_of e me) Release in
          let e := upd_object e k (fun _ => OArc (arc_set s cnt sy)) in
          let e := if Nat.eqb cnt 0 then set_caus e me (sync_load (caus_of e me) sy Acquire) else e in
          let e := if Nat.eqb cnt 0 then ex_set_log e (LDrop k :: e_log e) else e in
          MOk (log_op e me (if unwrap then RBool true else if Nat.eqb cnt 0 then RVal 1 else RUnit))
      end
  end.
Proof. reflexivity. Qed.

Lemma arc_dec_post_publishes : forall e me k u s e',
  get_arc e k = Some s -> exec_micro e me (MArcDecPost k u) = MOk e' ->
  exists cnt s', arc_cnt s = S cnt /\ get_arc e' k = Some s' /\ arc_cnt s' = cnt /\
                 vle (caus_of e me) (arc_sync s') /\
                 vle (arc_sync s) (arc_sync s') /\
                 vle (caus_of e me) (caus_of e' me) /\
                 (cnt = 0 -> me < length (e_threads e) -> vle (arc_sync s') (caus_of e' me)) /\
                 (cnt <> 0 -> caus_of e' me = caus_of e me).
Proof.
  intros e me k u s e' Hget Hex.
  pose proof (get_arc_nth e k s Hget) as Hnth.
  rewrite exec_micro_arc_dec_post in Hex. rewrite Hget in Hex.
  destruct (arc_cnt s) as [|cnt] eqn:Hcnt; [discriminate|]. cbv zeta in Hex.
  inversion Hex as [He']. clear Hex.
  exists cnt. eexists. split; [reflexivity|].
  rewrite caus_of_log_op.
  destruct (Nat.eqb cnt 0) eqn:Hz.
  - apply Nat.eqb_eq in Hz. split.
    + rewrite (get_arc_objects_eq _ _ k (e_objects_log_op _ _ _)).
      rewrite (get_arc_objects_eq _ _ k (e_objects_set_log _ _)).
      rewrite (get_arc_objects_eq _ _ k (e_objects_set_caus _ _ _)).
      eapply get_arc_upd_const. exact Hnth.
    + simpl arc_cnt. simpl arc_sync. rewrite caus_of_set_log. rewrite caus_of_upd_object.
      split; [reflexivity|].
      split; [apply sync_store_rel; reflexivity|].
      split; [apply sync_store_keeps|].
      split.
      * destruct (Nat.lt_ge_cases me (length (e_threads e))) as [Hlt|Hge].
        -- rewrite caus_of_set_caus_same by exact Hlt. apply sync_load_keeps.
        -- rewrite (caus_of_out_of_range e me Hge). apply vle_new.
      * split.
        -- intros _ Hlt. rewrite caus_of_set_caus_same by exact Hlt.
           apply sync_load_acq. reflexivity.
        -- intros Hnz. exfalso. apply Hnz. exact Hz.
  - apply Nat.eqb_neq in Hz. split.
    + rewrite (get_arc_objects_eq _ _ k (e_objects_log_op _ _ _)).
      eapply get_arc_upd_const. exact Hnth.
    + simpl arc_cnt. simpl arc_sync. rewrite caus_of_upd_object.
      split; [reflexivity|].
      split; [apply sync_store_rel; reflexivity|].
      split; [apply sync_store_keeps|].
      split; [apply vle_refl|].
      split; [intros Hz'; exfalso; apply Hz; exact Hz' | intros _; reflexivity].
Qed.

Lemma arc_dec_post_released_fails : forall e me k u s,
  get_arc e k = Some s -> arc_cnt s = 0 ->
  exec_micro e me (MArcDecPost k u) = MFail e PanicArcReleased.
Proof.
  intros e me k u s Hget Hcnt. rewrite exec_micro_arc_dec_post. rewrite Hget, Hcnt. reflexivity.
Qed.

Lemma arc_dec_post_other_clocks : forall e me k u e' j,
  exec_micro e me (MArcDecPost k u) = MOk e' -> j <> me -> caus_of e' j = caus_of e j.
Proof.
  intros e me k u e' j Hex Hne. rewrite exec_micro_arc_dec_post in Hex.
  destruct (get_arc e k) as [s|]; [|discriminate].
  destruct (arc_cnt s) as [|cnt]; [discriminate|]. cbv zeta in Hex.
  inversion Hex as [He']. clear Hex.
  rewrite caus_of_log_op.
  destruct (Nat.eqb cnt 0).
  - rewrite caus_of_set_log.
    rewrite caus_of_set_caus_other by (intros Heq; apply Hne; symmetry; exact Heq).
    apply caus_of_upd_object.
  - apply caus_of_upd_object.
Qed.

(* an earlier decrement happens-before the final drop *)
Corollary arc_drop_handover : forall e a k u s e1 s1 e2 b u2 s2 e3,
  get_arc e k = Some s -> exec_micro e a (MArcDecPost k u) = MOk e1 ->
  get_arc e1 k = Some s1 ->
  get_arc e2 k = Some s2 -> vle (arc_sync s1) (arc_sync s2) -> arc_cnt s2 = 1 ->
  exec_micro e2 b (MArcDecPost k u2) = MOk e3 -> b < length (e_threads e2) ->
  vle (caus_of e a) (caus_of e3 b).
Proof.
  intros e a k u s e1 s1 e2 b u2 s2 e3 Hget Hdec Hget1 Hget2 Hle Hone Hdrop Hlt.
  destruct (arc_dec_post_publishes e a k u s e1 Hget Hdec)
    as [c1 [s1' [_ [Hg1 [_ [Hpub _]]]]]].
  rewrite Hget1 in Hg1. inversion Hg1 as [Heq]. subst s1'. clear Hg1.
  destruct (arc_dec_post_publishes e2 b k u2 s2 e3 Hget2 Hdrop)
    as [c2 [s3 [Hc2 [_ [_ [_ [Hkeep [_ [Hacq _]]]]]]]]].
  rewrite Hone in Hc2. inversion Hc2 as [Hc0]. symmetry in Hc0.
  apply vle_trans with (arc_sync s1); [exact Hpub|].
  apply vle_trans with (arc_sync s2); [exact Hle|].
  apply vle_trans with (arc_sync s3); [exact Hkeep|].
  apply Hacq; [exact Hc0 | exact Hlt].
Qed.

Lemma arc_get_mut_post_acquires : forall e me k i u s e',
  get_arc e k = Some s -> exec_micro e me (MArcGetMutPost k i u) = MOk e' ->
  me < length (e_threads e) ->
  arc_cnt s <> 0 /\ vle (arc_sync s) (caus_of e' me) /\ vle (caus_of e me) (caus_of e' me) /\
  get_arc e' k = Some s.
Proof.
  intros e me k i u s e' Hget Hex Hlt. unfold exec_micro in Hex. rewrite Hget in Hex.
  destruct (Nat.eqb (arc_cnt s) 0) eqn:Hz; [discriminate|]. cbv zeta in Hex.
  apply Nat.eqb_neq in Hz. split; [exact Hz|].
  assert (Hc : caus_of e' me = sync_load (caus_of e me) (arc_sync s) Acquire /\
               e_objects e' = e_objects e).
  { destruct u; [destruct (Nat.eqb (arc_cnt s) 1)|]; inversion Hex as [He']; clear Hex.
    - rewrite caus_of_push_cont, caus_of_set_slot.
      rewrite caus_of_set_caus_same by exact Hlt. split; reflexivity.
    - rewrite caus_of_log_op. rewrite e_objects_log_op.
      rewrite caus_of_set_caus_same by exact Hlt. split; reflexivity.
    - rewrite caus_of_log_op. rewrite e_objects_log_op.
      rewrite caus_of_set_caus_same by exact Hlt. split; reflexivity. }
  destruct Hc as [Hc Ho]. rewrite Hc.
  split; [apply sync_load_acq; reflexivity | split; [apply sync_load_keeps |]].
  rewrite (get_arc_objects_eq _ _ k Ho). exact Hget.
Qed.

Lemma arc_count_post_acquires : forall e me k s e',
  get_arc e k = Some s -> exec_micro e me (MArcCountPost k) = MOk e' ->
  me < length (e_threads e) ->
  arc_cnt s <> 0 /\ vle (arc_sync s) (caus_of e' me) /\ vle (caus_of e me) (caus_of e' me) /\
  get_arc e' k = Some s.
Proof.
  intros e me k s e' Hget Hex Hlt. unfold exec_micro in Hex. rewrite Hget in Hex.
  destruct (Nat.eqb (arc_cnt s) 0) eqn:Hz; [discriminate|]. cbv zeta in Hex.
  apply Nat.eqb_neq in Hz. split; [exact Hz|].
  inversion Hex as [He']. clear Hex.
  rewrite caus_of_log_op. rewrite caus_of_set_caus_same by exact Hlt.
  split; [apply sync_load_acq; reflexivity | split; [apply sync_load_keeps |]].
  rewrite (get_arc_objects_eq _ _ k (e_objects_log_op _ _ _)). exact Hget.
Qed.

(* a clone (RefInc) transfers nothing: arc_sync and all clocks are unchanged *)
Lemma arc_inc_post_no_transfer : forall e me k j0 s e',
  get_arc e k = Some s -> exec_micro e me (MArcIncPost k j0) = MOk e' ->
  (forall j, caus_of e' j = caus_of e j) /\
  exists s', get_arc e' k = Some s' /\ arc_sync s' = arc_sync s /\ arc_cnt s' = S (arc_cnt s).
Proof.
  intros e me k j0 s e' Hget Hex.
  pose proof (get_arc_nth e k s Hget) as Hnth.
  unfold exec_micro in Hex. rewrite Hget in Hex. cbv zeta in Hex.
  inversion Hex as [He']. clear Hex. split.
  - intros j. rewrite caus_of_log_op, caus_of_set_slot. apply caus_of_upd_object.
  - eexists. split.
    + rewrite (get_arc_objects_eq _ _ k (e_objects_log_op _ _ _)).
      rewrite (get_arc_objects_eq _ _ k (e_objects_set_slot _ _ _ _)).
      eapply get_arc_upd_const. exact Hnth.
    + split; reflexivity.
Qed.

(* ================================================================== *)
(* 8. Park / unpark (C08)                                              *)

Lemma threads_unpark_transfers : forall e me id,
  id <> me -> id < length (e_threads e) ->
  let e' := threads_unpark e me id in
  vle (caus_of e me) (caus_of e' id) /\
  vle (caus_of e id) (caus_of e' id) /\
  caus_of e' id = vv_join (caus_of e id) (caus_of e me) /\
  forall j, j <> id -> caus_of e' j = caus_of e j.
Proof.
  intros e me id Hne Hlt e'. subst e'. unfold threads_unpark.
  apply Nat.eqb_neq in Hne. rewrite Hne. cbv zeta.
  destruct (get_thread_lt_some e id Hlt) as [t Ht].
  rewrite (caus_of_upd_thread_same e id _ t Ht). rewrite t_caus_thread_unpark.
  assert (Hc : caus_of e id = t_caus t) by (unfold caus_of; rewrite Ht; reflexivity).
  rewrite Hc.
  split; [apply vle_join_r | split; [apply vle_join_l | split; [reflexivity|]]].
  intros j Hj. apply caus_of_upd_thread_other. intros Heq. apply Hj. symmetry. exact Heq.
Qed.

(* unparking oneself transfers nothing *)
Lemma threads_unpark_self : forall e me j, caus_of (threads_unpark e me me) j = caus_of e j.
Proof.
  intros e me j. unfold threads_unpark. rewrite Nat.eqb_refl.
  apply caus_of_upd_thread_keep. apply t_caus_set_unparked.
Qed.

Lemma threads_unpark_monotone : forall e me id j,
  vle (caus_of e j) (caus_of (threads_unpark e me id) j).
Proof.
  intros e me id j. destruct (Nat.eq_dec id me) as [Heq|Hne].
  - subst id. rewrite threads_unpark_self. apply vle_refl.
  - destruct (Nat.lt_ge_cases id (length (e_threads e))) as [Hlt|Hge].
    + destruct (threads_unpark_transfers e me id Hne Hlt) as [_ [Hk [_ Ho]]].
      destruct (Nat.eq_dec j id) as [Hj|Hj].
      * subst j. exact Hk.
      * rewrite (Ho j Hj). apply vle_refl.
    + unfold threads_unpark. apply Nat.eqb_neq in Hne. rewrite Hne. cbv zeta.
      unfold upd_thread, list_upd.
      assert (Hn : nth_error (e_threads e) id = None) by (apply nth_error_None; exact Hge).
      rewrite Hn. apply vle_refl.
Qed.

Lemma threads_unpark_objects : forall e me id, e_objects (threads_unpark e me id) = e_objects e.
Proof.
  intros e me id. unfold threads_unpark. destruct (Nat.eqb id me); reflexivity.
Qed.

Lemma exec_micro_unpark_transfers : forall e me b tid e',
  body_tid e b = Some tid -> exec_micro e me (MUnpark b) = MOk e' ->
  tid <> me -> tid < length (e_threads e) ->
  vle (caus_of e me) (caus_of e' tid) /\ vle (caus_of e tid) (caus_of e' tid).
Proof.
  intros e me b tid e' Hb Hex Hne Hlt. unfold exec_micro in Hex. rewrite Hb in Hex.
  inversion Hex as [He']. clear Hex.
  rewrite caus_of_log_op.
  destruct (threads_unpark_transfers e me tid Hne Hlt) as [H1 [H2 _]].
  split; assumption.
Qed.

(* ================================================================== *)
(* 9. Spawn                                                            *)

Definition spawn_objects (e : exec) (ns : notify_state) : exec :=
  ex_set_objects e (e_objects e ++ [ONotify ns]).

Definition spawn_thread (e : exec) (me b : nat) : thread :=
  th_set_dpor
    (th_set_caus (thread_new b (nth b (e_bodies e) []))
       (vv_inc (vv_join vv_new (caus_of e me)) (length (e_threads e))))
    (vv_join vv_new (match get_thread e me with Some t => t_dpor t | None => vv_new end)).

(* [ns] is the fresh join Notify; its fields are irrelevant here *)
Lemma exec_micro_spawn : forall e me b, exists ns,
  exec_micro e me (MSpawn b) =
  if negb (Nat.ltb (length (e_threads e)) (e_max_threads e))
  then MFail (spawn_objects e ns) PanicMaxThreads
  else MOk (log_op
              (ex_set_spawned
                 (causality_inc
                    (ex_set_threads (spawn_objects e ns) (e_threads e ++ [spawn_thread e me b])) me)
                 (list_set (e_spawned e) b (Some (length (e_threads e), length (e_objects e)))))
              me RUnit).
Proof. intros e me b. eexists. reflexivity. Qed.

Lemma t_caus_spawn_thread : forall e me b,
  t_caus (spawn_thread e me b) = vv_inc (vv_join vv_new (caus_of e me)) (length (e_threads e)).
Proof. reflexivity. Qed.

Lemma spawn_transfers : forall e me b e',
  exec_micro e me (MSpawn b) = MOk e' ->
  let tid := length (e_threads e) in
  vle (caus_of e me) (caus_of e' tid) /\
  length (e_threads e') = S tid /\
  (forall j, j < tid -> j <> me -> caus_of e' j = caus_of e j) /\
  vle (caus_of e me) (caus_of e' me).
Proof.
  intros e me b e' Hex tid. destruct (exec_micro_spawn e me b) as [ns Heq].
  rewrite Heq in Hex. clear Heq.
  destruct (negb (Nat.ltb (length (e_threads e)) (e_max_threads e))); [discriminate|].
  apply MOk_inj in Hex. subst e'.
  fold tid.
  pose proof (t_caus_spawn_thread e me b) as Hnt. fold tid in Hnt.
  set (nt := spawn_thread e me b) in *.
  set (e1 := ex_set_threads (spawn_objects e ns) (e_threads e ++ [nt])).
  assert (Hg1 : forall j, get_thread e1 j = nth_error (e_threads e ++ [nt]) j) by (intros j; reflexivity).
  assert (Hnew : get_thread e1 tid = Some nt).
  { rewrite Hg1. rewrite nth_error_app2 by (unfold tid; lia).
    unfold tid. rewrite Nat.sub_diag. reflexivity. }
  assert (Hold : forall j, j < tid -> get_thread e1 j = get_thread e j).
  { intros j Hj. rewrite Hg1. rewrite nth_error_app1 by exact Hj. reflexivity. }
  assert (Hsp : forall e0 l j, caus_of (ex_set_spawned e0 l) j = caus_of e0 j) by reflexivity.
  assert (Hspt : forall e0 l, e_threads (ex_set_spawned e0 l) = e_threads e0) by reflexivity.
  rewrite e_threads_log_op, Hspt.
  assert (Hdom : vle (caus_of e me) (t_caus nt)).
  { rewrite Hnt. eapply vle_trans; [apply vle_join_r | apply vle_inc]. }
  split; [|split; [|split]].
  - rewrite caus_of_log_op, Hsp.
    unfold causality_inc. destruct (Nat.eq_dec me tid) as [Heq|Hne].
    + rewrite (caus_of_out_of_range e me) by (unfold tid in Heq; lia). apply vle_new.
    + rewrite caus_of_upd_thread_other by exact Hne.
      unfold caus_of at 2. rewrite Hnew. exact Hdom.
  - unfold causality_inc. rewrite length_threads_upd_thread.
    change (e_threads e1) with (e_threads e ++ [nt]).
    rewrite app_length. simpl. unfold tid. lia.
  - intros j Hj Hne. rewrite caus_of_log_op, Hsp. unfold causality_inc.
    rewrite caus_of_upd_thread_other by (intros Heq; apply Hne; symmetry; exact Heq).
    unfold caus_of. rewrite (Hold j Hj). reflexivity.
  - rewrite caus_of_log_op, Hsp. unfold causality_inc.
    destruct (Nat.lt_ge_cases me (length (e_threads e))) as [Hlt|Hge].
    + destruct (get_thread_lt_some e me Hlt) as [t Ht].
      assert (Ht1 : get_thread e1 me = Some t) by (rewrite (Hold me Hlt); exact Ht).
      rewrite (caus_of_upd_thread_same e1 me _ t Ht1). simpl.
      unfold caus_of. rewrite Ht. apply vle_inc.
    + rewrite (caus_of_out_of_range e me Hge). apply vle_new.
Qed.

(* ================================================================== *)
(* 10. Atomics (C03 / C04 building blocks)                             *)

Lemma aindex_lt : forall c, aindex c < MAX_ATOMIC_HISTORY.
Proof.
  intros c. unfold aindex. apply Nat.mod_upper_bound. unfold MAX_ATOMIC_HISTORY. discriminate.
Qed.

Lemma at_stores_set_stores : forall s st c, at_stores (at_set_stores s st c) = st.
Proof. reflexivity. Qed.
Lemma at_cnt_set_stores : forall s st c, at_cnt (at_set_stores s st c) = c.
Proof. reflexivity. Qed.

(* the history after a store: slot aindex(cnt) is overwritten by a store whose
   value / happens_before / sync are as follows.  [atomic_store_from] is the
   general form (the store half of an RMW passes the slot and id of the store it
   read as [src]); whatever [src] is, only the modification order of the new
   store depends on it, and no lemma of this file looks at st_mo. *)
Lemma at_stores_atomic_store_from : forall s me caus rel sync0 v o src, exists x,
  at_stores (atomic_store_from s me caus rel sync0 v o src) =
    list_set (at_stores s) (aindex (at_cnt s)) x /\
  st_sync x = sync_store sync0 caus rel o /\
  st_value x = v /\
  st_hb x = caus.
Proof.
  intros s me caus rel sync0 v o src. unfold atomic_store_from. cbv zeta.
  eexists. split; [reflexivity | split; [reflexivity | split; reflexivity]].
Qed.

Lemma at_cnt_atomic_store_from : forall s me caus rel sync0 v o src,
  at_cnt (atomic_store_from s me caus rel sync0 v o src) = S (at_cnt s).
Proof. reflexivity. Qed.

Lemma atomic_store_from_length : forall s me caus rel sync0 v o src,
  length (at_stores (atomic_store_from s me caus rel sync0 v o src)) = length (at_stores s).
Proof.
  intros s me caus rel sync0 v o src.
  destruct (at_stores_atomic_store_from s me caus rel sync0 v o src) as [x [Hx _]].
  rewrite Hx. apply list_set_length.
Qed.

Lemma atomic_store_from_new_sync : forall s me caus rel sync0 v o src,
  length (at_stores s) = MAX_ATOMIC_HISTORY ->
  st_sync (get_store (atomic_store_from s me caus rel sync0 v o src) (aindex (at_cnt s))) =
  sync_store sync0 caus rel o.
Proof.
  intros s me caus rel sync0 v o src Hlen. unfold get_store.
  destruct (at_stores_atomic_store_from s me caus rel sync0 v o src) as [x [Hx [Hs [Hv Hh]]]].
  rewrite Hx. rewrite list_set_nth_same by (rewrite Hlen; apply aindex_lt). assumption.
Qed.

Lemma atomic_store_from_new_value : forall s me caus rel sync0 v o src,
  length (at_stores s) = MAX_ATOMIC_HISTORY ->
  st_value (get_store (atomic_store_from s me caus rel sync0 v o src) (aindex (at_cnt s))) = v.
Proof.
  intros s me caus rel sync0 v o src Hlen. unfold get_store.
  destruct (at_stores_atomic_store_from s me caus rel sync0 v o src) as [x [Hx [Hs [Hv Hh]]]].
  rewrite Hx. rewrite list_set_nth_same by (rewrite Hlen; apply aindex_lt). assumption.
Qed.

Lemma atomic_store_from_new_hb : forall s me caus rel sync0 v o src,
  length (at_stores s) = MAX_ATOMIC_HISTORY ->
  st_hb (get_store (atomic_store_from s me caus rel sync0 v o src) (aindex (at_cnt s))) = caus.
Proof.
  intros s me caus rel sync0 v o src Hlen. unfold get_store.
  destruct (at_stores_atomic_store_from s me caus rel sync0 v o src) as [x [Hx [Hs [Hv Hh]]]].
  rewrite Hx. rewrite list_set_nth_same by (rewrite Hlen; apply aindex_lt). assumption.
Qed.

Lemma atomic_store_from_other : forall s me caus rel sync0 v o src j,
  j <> aindex (at_cnt s) ->
  get_store (atomic_store_from s me caus rel sync0 v o src) j = get_store s j.
Proof.
  intros s me caus rel sync0 v o src j Hne. unfold get_store.
  destruct (at_stores_atomic_store_from s me caus rel sync0 v o src) as [x [Hx _]]. rewrite Hx.
  apply list_set_nth_other. intros Heq. apply Hne. symmetry. exact Heq.
Qed.

(* [atomic_store] is [atomic_store_from] without a source *)
Lemma atomic_store_eq : forall s me caus rel sync0 v o,
  atomic_store s me caus rel sync0 v o = atomic_store_from s me caus rel sync0 v o None.
Proof. reflexivity. Qed.

Lemma at_stores_atomic_store : forall s me caus rel sync0 v o, exists x,
  at_stores (atomic_store s me caus rel sync0 v o) =
    list_set (at_stores s) (aindex (at_cnt s)) x /\
  st_sync x = sync_store sync0 caus rel o /\
  st_value x = v /\
  st_hb x = caus.
Proof.
  intros s me caus rel sync0 v o. exact (at_stores_atomic_store_from s me caus rel sync0 v o None).
Qed.

Lemma at_cnt_atomic_store : forall s me caus rel sync0 v o,
  at_cnt (atomic_store s me caus rel sync0 v o) = S (at_cnt s).
Proof. reflexivity. Qed.

Lemma atomic_store_length : forall s me caus rel sync0 v o,
  length (at_stores (atomic_store s me caus rel sync0 v o)) = length (at_stores s).
Proof.
  intros s me caus rel sync0 v o. exact (atomic_store_from_length s me caus rel sync0 v o None).
Qed.

Lemma atomic_store_new_sync : forall s me caus rel sync0 v o,
  length (at_stores s) = MAX_ATOMIC_HISTORY ->
  st_sync (get_store (atomic_store s me caus rel sync0 v o) (aindex (at_cnt s))) =
  sync_store sync0 caus rel o.
Proof.
  intros s me caus rel sync0 v o. exact (atomic_store_from_new_sync s me caus rel sync0 v o None).
Qed.

Lemma atomic_store_new_value : forall s me caus rel sync0 v o,
  length (at_stores s) = MAX_ATOMIC_HISTORY ->
  st_value (get_store (atomic_store s me caus rel sync0 v o) (aindex (at_cnt s))) = v.
Proof.
  intros s me caus rel sync0 v o. exact (atomic_store_from_new_value s me caus rel sync0 v o None).
Qed.

Lemma atomic_store_new_hb : forall s me caus rel sync0 v o,
  length (at_stores s) = MAX_ATOMIC_HISTORY ->
  st_hb (get_store (atomic_store s me caus rel sync0 v o) (aindex (at_cnt s))) = caus.
Proof.
  intros s me caus rel sync0 v o. exact (atomic_store_from_new_hb s me caus rel sync0 v o None).
Qed.

Lemma atomic_store_other : forall s me caus rel sync0 v o j,
  j <> aindex (at_cnt s) ->
  get_store (atomic_store s me caus rel sync0 v o) j = get_store s j.
Proof.
  intros s me caus rel sync0 v o j. exact (atomic_store_from_other s me caus rel sync0 v o None j).
Qed.

Lemma atomic_store_publishes : forall s me caus rel sync0 v o,
  ord_rel o = true -> length (at_stores s) = MAX_ATOMIC_HISTORY ->
  let s' := atomic_store s me caus rel sync0 v o in
  vle caus (st_sync (get_store s' (aindex (at_cnt s)))) /\
  st_value (get_store s' (aindex (at_cnt s))) = v /\
  at_cnt s' = S (at_cnt s).
Proof.
  intros s me caus rel sync0 v o Hrel Hlen s'. subst s'.
  rewrite atomic_store_new_sync by exact Hlen.
  rewrite atomic_store_new_value by exact Hlen.
  split; [apply sync_store_rel; exact Hrel | split; reflexivity].
Qed.

(* whatever the ordering, the released view (last release fence) and the
   carried view [sync0] are published *)
Lemma atomic_store_publishes_released : forall s me caus rel sync0 v o,
  length (at_stores s) = MAX_ATOMIC_HISTORY ->
  let s' := atomic_store s me caus rel sync0 v o in
  vle rel (st_sync (get_store s' (aindex (at_cnt s)))) /\
  vle sync0 (st_sync (get_store s' (aindex (at_cnt s)))).
Proof.
  intros s me caus rel sync0 v o Hlen s'. subst s'.
  rewrite atomic_store_new_sync by exact Hlen.
  split; [apply sync_store_released | apply sync_store_keeps].
Qed.

(* a relaxed store publishes exactly join(sync0, released): not the thread's clock *)
Lemma atomic_store_relaxed_sync : forall s me caus rel sync0 v o,
  ord_rel o = false -> length (at_stores s) = MAX_ATOMIC_HISTORY ->
  forall i, vv_get (st_sync (get_store (atomic_store s me caus rel sync0 v o) (aindex (at_cnt s)))) i
            = Nat.max (vv_get sync0 i) (vv_get rel i).
Proof.
  intros s me caus rel sync0 v o Hrel Hlen i.
  rewrite atomic_store_new_sync by exact Hlen. apply sync_store_rlx. exact Hrel.
Qed.

(* ---- the track_* checks never touch the store history ---- *)
Lemma track_load_stores : forall s caus s1,
  track_load s caus = inl s1 -> at_stores s1 = at_stores s /\ at_cnt s1 = at_cnt s.
Proof.
  intros s caus s1 Ht. unfold track_load in Ht.
  destruct (at_mutating s); [discriminate|].
  destruct (vv_ahead caus (at_unsync_mut s)); [discriminate|].
  injection Ht as Ht. subst s1. split; reflexivity.
Qed.

Lemma track_store_stores : forall s caus s1,
  track_store s caus = inl s1 -> at_stores s1 = at_stores s /\ at_cnt s1 = at_cnt s.
Proof.
  intros s caus s1 Ht. unfold track_store in Ht.
  destruct (at_mutating s); [discriminate|].
  destruct (vv_ahead caus (at_unsync_mut s)); [discriminate|].
  destruct (vv_ahead caus (at_unsync_loaded s)); [discriminate|].
  injection Ht as Ht. subst s1. split; reflexivity.
Qed.

Lemma get_store_stores_eq : forall s1 s2 j,
  at_stores s1 = at_stores s2 -> get_store s1 j = get_store s2 j.
Proof. intros s1 s2 j Heq. unfold get_store. rewrite Heq. reflexivity. Qed.

(* ---- apply_load_coherence changes st_mo only ---- *)
(* both the update of the loaded store and the propagation to the stores ordered after
   it go through [st_set_mo]: any projection that [st_set_mo] preserves is kept *)
(* [l'] has the length of [l] and the same [g]-projection in every slot *)
Definition keeps_proj {B : Type} (g : astore -> B) (l l' : list astore) : Prop :=
  length l' = length l /\
  forall j, g (nth j l' store_default) = g (nth j l store_default).

Lemma keeps_proj_refl : forall (B : Type) (g : astore -> B) l, keeps_proj g l l.
Proof. intros B g l. split; [reflexivity | intros j; reflexivity]. Qed.

Lemma keeps_proj_trans : forall {B : Type} {g : astore -> B} {l1 l2 l3},
  keeps_proj g l1 l2 -> keeps_proj g l2 l3 -> keeps_proj g l1 l3.
Proof.
  intros B g l1 l2 l3 [Hl12 Hg12] [Hl23 Hg23]. split.
  - rewrite Hl23. exact Hl12.
  - intros j. rewrite Hg23. apply Hg12.
Qed.

Section MoOnly.
  Variable B : Type.
  Variable g : astore -> B.
  Hypothesis Hg : forall x m, g (st_set_mo x m) = g x.

  Lemma raise_mo_keeps : forall stores a v, keeps_proj g stores (raise_mo stores a v).
  Proof.
    intros stores a v. unfold raise_mo. cbv zeta.
    destruct (vv_eqb (vv_join (st_mo (nth a stores store_default)) v)
                     (st_mo (nth a stores store_default))); [apply keeps_proj_refl|].
    split.
    - apply mapi_length.
    - intros j. apply (nth_mapi_proj _ _ g). intros i x.
      destruct (Nat.eqb a i); [apply Hg|].
      destruct (vv_lt (st_mo (nth a stores store_default)) (st_mo x)); [apply Hg | reflexivity].
  Qed.

  Lemma close_step_keeps : forall acc ri, keeps_proj g (fst acc) (fst (close_step acc ri)).
  Proof.
    intros [stores changed] [r i]. unfold close_step. cbv zeta. cbn [fst].
    destruct (st_rmw_src (nth r stores store_default)) as [[slot sid]|];
      [|apply keeps_proj_refl].
    destruct (negb (Nat.eqb slot r) && Nat.eqb (st_id (nth slot stores store_default)) sid);
      [|apply keeps_proj_refl].
    destruct (Nat.eqb i r || Nat.eqb i slot); [apply keeps_proj_refl|].
    destruct (vv_le (st_mo (nth slot stores store_default)) (st_mo (nth i stores store_default)) &&
              negb (vv_le (st_mo (nth r stores store_default)) (st_mo (nth i stores store_default))));
      [apply raise_mo_keeps|].
    destruct (vv_le (st_mo (nth i stores store_default)) (st_mo (nth r stores store_default)) &&
              negb (vv_le (st_mo (nth i stores store_default)) (st_mo (nth slot stores store_default))));
      [apply raise_mo_keeps | apply keeps_proj_refl].
  Qed.

  Lemma close_fold_keeps : forall ris acc,
    keeps_proj g (fst acc) (fst (fold_left close_step ris acc)).
  Proof.
    induction ris as [|ri ris IH]; intros acc.
    - apply keeps_proj_refl.
    - cbn [fold_left].
      apply (keeps_proj_trans (close_step_keeps acc ri)). apply IH.
  Qed.

  Lemma close_rmw_atomicity_keeps : forall fuel live stores,
    keeps_proj g stores (close_rmw_atomicity fuel live stores).
  Proof.
    induction fuel as [|f IH]; intros live stores.
    - apply keeps_proj_refl.
    - cbn [close_rmw_atomicity].
      pose proof (close_fold_keeps (list_prod (seq 0 live) (seq 0 live)) (stores, false)) as Hfold.
      destruct (fold_left close_step (list_prod (seq 0 live) (seq 0 live)) (stores, false))
        as [stores' changed].
      cbn [fst] in Hfold. destruct changed; [|exact Hfold].
      apply (keeps_proj_trans Hfold). apply IH.
  Qed.

  (* the part of apply_load_coherence before the RMW-atomicity closure *)
  Lemma alc_keeps_all : forall s caus idx,
    keeps_proj g (at_stores s) (at_stores (apply_load_coherence s caus idx)).
  Proof.
    intros s caus idx. unfold apply_load_coherence. cbv zeta.
    rewrite at_stores_set_stores.
    eapply keeps_proj_trans; [|apply close_rmw_atomicity_keeps].
    assert (Hupd : forall m, keeps_proj g (at_stores s)
                     (list_upd (at_stores s) idx (fun x => st_set_mo x m))).
    { intros m. split; [apply list_upd_length|].
      intros j. apply (nth_list_upd_proj _ _ g). intros x. apply Hg. }
    match goal with |- context [if ?c then _ else _] => destruct c end; [apply Hupd|].
    eapply keeps_proj_trans; [apply Hupd|].
    split; [apply mapi_length|].
    intros j. apply (nth_mapi_proj _ _ g). intros i x.
    match goal with |- context [if ?c then _ else _] => destruct c end;
      [apply Hg | reflexivity].
  Qed.
End MoOnly.

Lemma alc_keeps_proj : forall (B : Type) (g : astore -> B),
  (forall x m, g (st_set_mo x m) = g x) ->
  forall s caus idx j,
  g (get_store (apply_load_coherence s caus idx) j) = g (get_store s j).
Proof.
  intros B g Hg s caus idx j. unfold get_store.
  destruct (alc_keeps_all _ g Hg s caus idx) as [_ Hnth]. apply Hnth.
Qed.

Lemma alc_keeps_sync : forall s caus idx j,
  st_sync (get_store (apply_load_coherence s caus idx) j) = st_sync (get_store s j).
Proof. apply (alc_keeps_proj _ st_sync). intros x m. reflexivity. Qed.

Lemma alc_keeps_value : forall s caus idx j,
  st_value (get_store (apply_load_coherence s caus idx) j) = st_value (get_store s j).
Proof. apply (alc_keeps_proj _ st_value). intros x m. reflexivity. Qed.

Lemma alc_keeps_cnt : forall s caus idx, at_cnt (apply_load_coherence s caus idx) = at_cnt s.
Proof. reflexivity. Qed.

Lemma alc_keeps_length : forall s caus idx,
  length (at_stores (apply_load_coherence s caus idx)) = length (at_stores s).
Proof.
  intros s caus idx.
  destruct (alc_keeps_all _ st_sync (fun x m => eq_refl) s caus idx) as [Hlen _]. exact Hlen.
Qed.

(* ---- the state after the load part of load / rmw ---- *)
Definition load_view (s1 : atomic_state) (me : nat) (caus : vv) (index : nat) : atomic_state :=
  let s2 := apply_load_coherence s1 caus index in
  at_set_stores s2
    (list_upd (at_stores s2) index
       (fun x => st_set_seen x (seen_touch (st_seen x) me (vv_get caus me))))
    (at_cnt s2).

Lemma load_view_keeps_sync : forall s1 me caus idx j,
  st_sync (get_store (load_view s1 me caus idx) j) = st_sync (get_store s1 j).
Proof.
  intros s1 me caus idx j. unfold load_view. cbv zeta.
  unfold get_store at 1. rewrite at_stores_set_stores.
  rewrite (nth_list_upd_proj _ _ st_sync) by (intros x; reflexivity).
  apply alc_keeps_sync.
Qed.

Lemma load_view_keeps_value : forall s1 me caus idx j,
  st_value (get_store (load_view s1 me caus idx) j) = st_value (get_store s1 j).
Proof.
  intros s1 me caus idx j. unfold load_view. cbv zeta.
  unfold get_store at 1. rewrite at_stores_set_stores.
  rewrite (nth_list_upd_proj _ _ st_value) by (intros x; reflexivity).
  apply alc_keeps_value.
Qed.

Lemma load_view_keeps_cnt : forall s1 me caus idx, at_cnt (load_view s1 me caus idx) = at_cnt s1.
Proof. reflexivity. Qed.

Lemma load_view_keeps_length : forall s1 me caus idx,
  length (at_stores (load_view s1 me caus idx)) = length (at_stores s1).
Proof.
  intros s1 me caus idx. unfold load_view. cbv zeta. rewrite at_stores_set_stores.
  rewrite list_upd_length. apply alc_keeps_length.
Qed.

Lemma atomic_load_eq : forall s me caus idx o,
  atomic_load s me caus idx o =
  match track_load s caus with
  | inr p => inr p
  | inl s1 =>
      inl (load_view s1 me caus idx,
           sync_load caus (st_sync (get_store (load_view s1 me caus idx) idx)) o,
           st_value (get_store (load_view s1 me caus idx) idx))
  end.
Proof. reflexivity. Qed.

Lemma atomic_rmw_eq : forall s me caus rel idx so fo f,
  atomic_rmw s me caus rel idx so fo f =
  match track_load s caus with
  | inr p => inr p
  | inl s1 =>
      let s3 := load_view s1 me caus idx in
      let prev := st_value (get_store s3 idx) in
      match f prev with
      | Some next =>
          match track_store s3 caus with
          | inr p => inr p
          | inl s4 =>
              let sync := st_sync (get_store s4 idx) in
              let caus' := sync_load caus sync so in
              inl (atomic_store_from s4 me caus' rel sync next so
                     (Some (idx, st_id (get_store s4 idx))), caus', prev, true)
          end
      | None => inl (s3, sync_load caus (st_sync (get_store s3 idx)) fo, prev, false)
      end
  end.
Proof. reflexivity. Qed.

Lemma atomic_load_result : forall s me caus idx o s' caus' v,
  atomic_load s me caus idx o = inl (s', caus', v) ->
  caus' = sync_load caus (st_sync (get_store s idx)) o /\
  v = st_value (get_store s idx) /\
  (forall j, st_sync (get_store s' j) = st_sync (get_store s j)) /\
  (forall j, st_value (get_store s' j) = st_value (get_store s j)) /\
  at_cnt s' = at_cnt s.
Proof.
  intros s me caus idx o s' caus' v Hld. rewrite atomic_load_eq in Hld.
  destruct (track_load s caus) as [s1|p] eqn:Ht; [|discriminate].
  destruct (track_load_stores s caus s1 Ht) as [Hst Hcnt].
  injection Hld as Hs Hc Hv. subst s' caus' v.
  rewrite load_view_keeps_sync, load_view_keeps_value.
  rewrite (get_store_stores_eq s1 s idx Hst).
  split; [reflexivity | split; [reflexivity | split; [|split]]].
  - intros j. rewrite load_view_keeps_sync. rewrite (get_store_stores_eq s1 s j Hst). reflexivity.
  - intros j. rewrite load_view_keeps_value. rewrite (get_store_stores_eq s1 s j Hst). reflexivity.
  - rewrite load_view_keeps_cnt. exact Hcnt.
Qed.

Lemma atomic_load_acquires : forall s me caus idx o s' caus' v,
  atomic_load s me caus idx o = inl (s', caus', v) -> ord_acq o = true ->
  vle (st_sync (get_store s idx)) caus' /\ vle caus caus' /\ v = st_value (get_store s idx).
Proof.
  intros s me caus idx o s' caus' v Hld Hacq.
  destruct (atomic_load_result s me caus idx o s' caus' v Hld) as [Hc [Hv _]]. subst caus'.
  split; [apply sync_load_acq; exact Hacq | split; [apply sync_load_keeps | exact Hv]].
Qed.

Lemma atomic_load_relaxed : forall s me caus idx o s' caus' v,
  atomic_load s me caus idx o = inl (s', caus', v) -> ord_acq o = false ->
  caus' = caus /\ v = st_value (get_store s idx).
Proof.
  intros s me caus idx o s' caus' v Hld Hacq.
  destruct (atomic_load_result s me caus idx o s' caus' v Hld) as [Hc [Hv _]]. subst caus'.
  split; [apply sync_load_rlx; exact Hacq | exact Hv].
Qed.

(* whatever the ordering, a load never shrinks the clock *)
Lemma atomic_load_monotone : forall s me caus idx o s' caus' v,
  atomic_load s me caus idx o = inl (s', caus', v) -> vle caus caus'.
Proof.
  intros s me caus idx o s' caus' v Hld.
  destruct (atomic_load_result s me caus idx o s' caus' v Hld) as [Hc _]. subst caus'.
  apply sync_load_keeps.
Qed.

Lemma atomic_rmw_release_sequence : forall s me caus rel idx so fo f s' caus' prev,
  atomic_rmw s me caus rel idx so fo f = inl (s', caus', prev, true) ->
  length (at_stores s) = MAX_ATOMIC_HISTORY ->
  let new := get_store s' (aindex (at_cnt s)) in
  vle (st_sync (get_store s idx)) (st_sync new) /\
  vle rel (st_sync new) /\
  (ord_rel so = true -> vle caus' (st_sync new)) /\
  vle caus caus' /\
  (ord_acq so = true -> vle (st_sync (get_store s idx)) caus') /\
  (ord_acq so = false -> caus' = caus) /\
  prev = st_value (get_store s idx) /\
  f prev = Some (st_value new) /\
  at_cnt s' = S (at_cnt s).
Proof.
  intros s me caus rel idx so fo f s' caus' prev Hrmw Hlen new.
  rewrite atomic_rmw_eq in Hrmw.
  destruct (track_load s caus) as [s1|p] eqn:Ht; [|discriminate].
  destruct (track_load_stores s caus s1 Ht) as [Hst1 Hcnt1].
  cbv zeta in Hrmw.
  destruct (f (st_value (get_store (load_view s1 me caus idx) idx))) as [next|] eqn:Hf;
    [|discriminate].
  destruct (track_store (load_view s1 me caus idx) caus) as [s4|p] eqn:Hts; [|discriminate].
  destruct (track_store_stores _ caus s4 Hts) as [Hst4 Hcnt4].
  injection Hrmw as Hs Hc Hp.
  assert (Hsync4 : st_sync (get_store s4 idx) = st_sync (get_store s idx)).
  { rewrite (get_store_stores_eq s4 _ idx Hst4). rewrite load_view_keeps_sync.
    rewrite (get_store_stores_eq s1 s idx Hst1). reflexivity. }
  assert (Hprev : st_value (get_store (load_view s1 me caus idx) idx) = st_value (get_store s idx)).
  { rewrite load_view_keeps_value. rewrite (get_store_stores_eq s1 s idx Hst1). reflexivity. }
  assert (Hc4 : at_cnt s4 = at_cnt s).
  { rewrite Hcnt4. rewrite load_view_keeps_cnt. exact Hcnt1. }
  assert (Hl4 : length (at_stores s4) = MAX_ATOMIC_HISTORY).
  { rewrite Hst4. rewrite load_view_keeps_length. rewrite Hst1. exact Hlen. }
  rewrite Hsync4 in Hs, Hc. rewrite Hprev in Hp, Hf.
  subst new. subst s'. rewrite <- Hc4.
  rewrite atomic_store_from_new_sync by exact Hl4.
  rewrite atomic_store_from_new_value by exact Hl4.
  rewrite at_cnt_atomic_store_from.
  subst caus' prev.
  split; [apply sync_store_keeps|].
  split; [apply sync_store_released|].
  split; [intros Hrel; apply sync_store_rel; exact Hrel|].
  split; [apply sync_load_keeps|].
  split; [intros Hacq; apply sync_load_acq; exact Hacq|].
  split; [intros Hacq; apply sync_load_rlx; exact Hacq|].
  split; [reflexivity|].
  split; [exact Hf | reflexivity].
Qed.

(* failed compare-exchange: a pure load with the failure ordering *)
Lemma atomic_rmw_failure_loads : forall s me caus rel idx so fo f s' caus' prev,
  atomic_rmw s me caus rel idx so fo f = inl (s', caus', prev, false) ->
  caus' = sync_load caus (st_sync (get_store s idx)) fo /\
  prev = st_value (get_store s idx) /\ f prev = None /\
  (forall j, st_sync (get_store s' j) = st_sync (get_store s j)) /\
  at_cnt s' = at_cnt s.
Proof.
  intros s me caus rel idx so fo f s' caus' prev Hrmw.
  rewrite atomic_rmw_eq in Hrmw.
  destruct (track_load s caus) as [s1|p] eqn:Ht; [|discriminate].
  destruct (track_load_stores s caus s1 Ht) as [Hst1 Hcnt1].
  cbv zeta in Hrmw.
  destruct (f (st_value (get_store (load_view s1 me caus idx) idx))) as [next|] eqn:Hf.
  - destruct (track_store (load_view s1 me caus idx) caus); discriminate.
  - injection Hrmw as Hs Hc Hp. subst s' caus' prev.
    rewrite load_view_keeps_sync. rewrite load_view_keeps_value in *.
    rewrite (get_store_stores_eq s1 s idx Hst1) in *.
    split; [reflexivity | split; [reflexivity | split; [exact Hf | split]]].
    + intros j. rewrite load_view_keeps_sync. rewrite (get_store_stores_eq s1 s j Hst1). reflexivity.
    + rewrite load_view_keeps_cnt. exact Hcnt1.
Qed.

(* release store -> acquire load of that store (C03), on the functions *)
Corollary atomic_handover : forall s me caus rel sync0 v o s2 me2 caus2 o2 s3 caus3 v3,
  ord_rel o = true -> length (at_stores s) = MAX_ATOMIC_HISTORY ->
  let idx := aindex (at_cnt s) in
  vle (st_sync (get_store (atomic_store s me caus rel sync0 v o) idx)) (st_sync (get_store s2 idx)) ->
  atomic_load s2 me2 caus2 idx o2 = inl (s3, caus3, v3) -> ord_acq o2 = true ->
  vle caus caus3.
Proof.
  intros s me caus rel sync0 v o s2 me2 caus2 o2 s3 caus3 v3 Hrel Hlen idx Hle Hld Hacq.
  destruct (atomic_store_publishes s me caus rel sync0 v o Hrel Hlen) as [Hpub _].
  destruct (atomic_load_acquires s2 me2 caus2 idx o2 s3 caus3 v3 Hld Hacq) as [Hacq' _].
  apply vle_trans with (st_sync (get_store (atomic_store s me caus rel sync0 v o) idx));
    [exact Hpub|].
  apply vle_trans with (st_sync (get_store s2 idx)); [exact Hle | exact Hacq'].
Qed.

(* ================================================================== *)
Print Assumptions mutex_handover.
Print Assumptions post_acquire_fails_iff.
Print Assumptions atomic_load_acquires.
Print Assumptions sync_store_rel.
Print Assumptions release_lock_publishes.
Print Assumptions rw_write_handover.
Print Assumptions release_read_publishes.
Print Assumptions notify_handover.
Print Assumptions notify_post_unparks.
Print Assumptions channel_handover.
Print Assumptions send_post_publishes.
Print Assumptions arc_drop_handover.
Print Assumptions threads_unpark_transfers.
Print Assumptions spawn_transfers.
Print Assumptions atomic_store_publishes.
Print Assumptions atomic_rmw_release_sequence.
