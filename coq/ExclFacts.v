(* ExclFacts: MUTUAL EXCLUSION AS A GLOBAL INVARIANT of the model, for every
   program and every schedule (path).

   Contents
     1. the abstraction: per thread (t_guards, t_cont), per object the lock word
        (absT, absO); the phases of a continuation (released, inwaker, needg,
        wfc, all defined on skipc c = the continuation without its leading
        scheduling points / park / raw Arc decrements); the invariant
        [excl_inv e] := INV (absT e) (absO e) /\ Forall clean (e_bodies e)
     2-3. continuations, lists, guards (remove_last_guard_spec ...)
     4. INV_step: the one abstract transition lemma (mstep / rstep say what a
        step of thread [me] may do to a lock word)
     5. the abstraction of the helpers of Ops.v (post_acquire_abs,
        release_lock_abs, post_acquire_read/write_abs, release_read/write_abs)
     6. nz: "neutral" micro-operations.  exec_micro_nz is proved for every
        micro-op that does not touch a lock by ONE tactic ([destruct m; nz_tac],
        same structure as SyncMono.exec_micro_mono)
     7. Section Step: one lemma per lock micro-op (MLockPost, MUnlock, MReadPost,
        MWritePost, MUnread, MUnwrite, MWait, MCvWait, MBoRegister,
        MWakerRelease, MWakeTake, MReleaseAll) and step_excl_inv
     8. init_excl_inv, run_step_excl_inv, steps_excl_inv, schedule_excl_inv,
        run_excl_inv
     9. the invariant read back on the state and the requested corollaries
     10. witnesses by vm_compute

   THE INVARIANT, read back on the state (section 9 proves each line from
   excl_inv e):
     inside th m := (In (GMutex, m) (t_guards th) /\ ~ released (t_cont th) m)
                    \/ inwaker (t_cont th) m
     released c m <-> exists pre r, c = pre ++ MLockPost m LMReacquire :: r /\
                       forallb is_skip pre = true              (released_spec)
       i.e. the thread is inside Condvar::wait on m, has given m up (MCvWait
       ran) and its pending re-acquisition has not run yet;
     inwaker c m: the same with MWakerRelease m: the thread is in the critical
       section of AtomicWaker::register on the waker lock m (DWaker objects are
       OMutex objects and that lock is taken WITHOUT a guard entry).
     Mutex m with state s:
       mutex_lock_owner    mx_lock s = Some t -> thread t exists and is inside m
       mutex_inside_owner  thread t inside m  -> mx_lock s = Some t
       (hence mutex_inside_unique: at most one thread is inside m)
       mutex_guard_once    gcount GMutex m (t_guards th) <= 1, UNCONDITIONALLY:
         a recursive lock() blocks the thread on itself (deadlock), a recursive
         try_lock fails; a second guard entry is never pushed
       wait_keeps_guard    released (t_cont th) m -> In (GMutex, m) (t_guards th)
     RwLock r with state s:
       rwlock_write_owner        rw_lock s = Some (RLWrite t) -> t has a (GWrite, r) guard
       rwlock_write_guard_owner  t has a (GWrite, r) guard -> rw_lock s = Some (RLWrite t)
       rwlock_reader_has_guard   every registered reader has a (GRead, r) guard
       rwlock_write_guard_once   at most one (GWrite, r) entry per thread
       wexcl (rwlock_writer_excludes_inv, rwlock_writer_no_own_read): a
         (GWrite, r) guard excludes every other (GRead, r) / (GWrite, r) guard
         of every thread.
     Thread-local: wfc (t_cont th) (the continuation is a prefix of a wait /
       register sequence followed by a continuation without MLockPost _
       LMReacquire, MCvWait, MWakerRelease); a thread in the register section
       of m owns no guard of m.

   MAIN THEOREMS
     init_excl_inv      : excl_inv (init_exec p pa)
     run_step_excl_inv  : excl_inv e -> nth_error (e_threads e) me = Some t ->
                          t_cont t = m :: rest ->
                          exec_micro (upd_thread e me (fun t => th_set_cont t rest)) me m = MOk e' ->
                          excl_inv e'
     steps_excl_inv     : steps e e' -> excl_inv e -> excl_inv e'
     schedule_excl_inv  : excl_inv e -> excl_inv (res_exec (fst (schedule e)))
     run_excl_inv       : not_panic (snd (run fuel (init_exec p pa))) ->
                          excl_inv (fst (run fuel (init_exec p pa)))
     mutex_exclusion (+ _inv): two distinct threads that both own a guard of
                          mutex m: one of them is [released] (blocked inside
                          Condvar::wait, has not re-acquired)
     lock_acquire_only_when_free: MLockPost changes t_guards only if mx_lock = None
     lock_no_second_owner: while another thread is inside m, the only MLockPost
                          that returns MOk is a failing try_lock (e' = log_op e me (RBool false))
     rwlock_writer_excludes (+ _inv): a write guard never coexists with another
                          thread's read or write guard of the same RwLock
     lock_held_reachable, two_guards_reachable, two_guards_released,
     recursive_read_state, recursive_read_corrupt: witnesses

   DEVIATIONS from the requested statements
   D1  Preservation is proved for ONE STEP OF Scheduler::run (the micro-op is
       the head of the active thread's continuation, executed on the popped
       state), not for [exec_micro e me m] with arbitrary e, me, m: that is
       false (exec_micro_alone_breaks: MWakerRelease 0 executed by a thread
       that is not in the register section frees a mutex that another thread
       holds).  The invariant needs the shape of continuations, so it cannot
       be stated on guards and lock words alone.
   D2  Only MOk.  The state carried by MFail need not satisfy the invariant:
       when the re-acquisition in Condvar::wait fails (PanicExpectLock) the
       popped state has a guard owner that is neither released nor the lock
       owner; MCvWait on an object that is no Condvar (PanicModel 17, the
       program language is untyped) likewise.  Hence run_excl_inv has the
       hypothesis not_panic r (r = IterDone \/ r = IterFuel), as
       SyncMono.run_steps.  Every state BEFORE a panicking step is covered:
       it is fst (run k _) for a smaller k, whose result is IterFuel.
   D3  "is inside a Condvar wait" is [released (t_cont th) m] (next significant
       micro-op), not mere membership of MLockPost m LMReacquire in t_cont:
       membership is not inductive (nothing would forbid MUnlock while the
       re-acquisition is buried deeper).  released_spec gives the list form.
   D4  mx_lock s = Some t does NOT imply that t has a (GMutex, m) guard: the
       AtomicWaker lock is an OMutex acquired without guard (MBoRegister ..
       MWakerRelease, and MWakeTake which acquires and releases in one
       micro-op).  The invariant has the extra disjunct [inwaker].  It holds
       for untyped programs too (block_on on a DMutex, lock on a DWaker).
   D5  lock_acquire_only_when_free is stated on t_guards of the acting thread
       before/after the micro-op.
   D6  RwLock: "registered reader -> read guard" holds, the converse does not:
       a thread that read-locks r twice and drops one guard keeps a read guard
       but is no longer registered (rt::RwLock keeps a HashSet of thread ids;
       the model's set_insert/set_remove are faithful).  On the model as it was
       when this file was started rwlock_writer_excludes was therefore FALSE
       (program p_rr below: rt lets the writer in while main still owns a read
       guard).  Real loom panics there with "loom::RwLock state corrupt"
       (std::sync::RwLock::try_write inside sync::RwLock; checked with the
       harness on p_rr).  The model now has that backstop (any_guard in
       MReadPost / MWritePost, PanicRwCorrupt), and with it the requested
       statement holds unconditionally: rwlock_writer_excludes.  The stale
       guard itself is still reachable (recursive_read_state). *)
Require Import LV.Base LV.VV LV.Path LV.Prog LV.Objects LV.Exec LV.Atomic LV.Ops LV.Check
               LV.SyncFacts LV.ExecFacts LV.SyncMono.
From Coq Require Import List Arith Lia Bool.
Import ListNotations.

(* ================================================================== *)
(* 1. The abstraction: guards + continuation per thread, lock word per object *)
(* ================================================================== *)

Definition gst : Type := (list (gkind * nat) * list micro)%type.

Inductive lockst :=
  | LkM (l : option nat)
  | LkR (l : option rwlocked).

Definition tproj (t : thread) : gst := (t_guards t, t_cont t).
Definition oproj (o : object) : option lockst :=
  match o with
  | OMutex s => Some (LkM (mx_lock s))
  | ORwLock s => Some (LkR (rw_lock s))
  | _ => None
  end.

Definition absT (e : exec) : list gst := map tproj (e_threads e).
Definition absO (e : exec) : list (option lockst) := map oproj (e_objects e).

(* ---- the phases of a continuation ---- *)

(* micro-operations that only ever appear in a continuation because a wrapper
   pushed them at run time: never in an expanded program body *)
Definition is_dyn (x : micro) : bool :=
  match x with
  | MLockPost _ LMReacquire | MCvWait _ _ | MWakerRelease _ => true
  | _ => false
  end.

Definition clean (c : list micro) : Prop := forallb (fun x => negb (is_dyn x)) c = true.

(* micro-operations that sit between the characteristic operations of the
   Condvar::wait / AtomicWaker::register sequences: scheduling points, park,
   and the raw reference-count decrement of the replaced waker *)
Definition is_skip (x : micro) : bool :=
  match x with
  | MBranch _ _ _ | MPark | MArcDecRaw _ => true
  | _ => false
  end.

Fixpoint skipc (c : list micro) : list micro :=
  match c with
  | [] => []
  | x :: r => if is_skip x then skipc r else c
  end.

(* the thread has given the mutex up inside Condvar::wait and has not yet
   re-acquired it: the next significant micro-op is the pending re-acquisition *)
Definition released_hd (l : list micro) (m : nat) : Prop :=
  match l with
  | MLockPost m' LMReacquire :: _ => m' = m
  | _ => False
  end.
Definition released (c : list micro) (m : nat) : Prop := released_hd (skipc c) m.

(* the thread is inside the critical section of AtomicWaker::register *)
Definition inwaker_hd (l : list micro) (m : nat) : Prop :=
  match l with
  | MWakerRelease m' :: _ => m' = m
  | _ => False
  end.
Definition inwaker (c : list micro) (m : nat) : Prop := inwaker_hd (skipc c) m.

(* the thread is inside Condvar::wait on m (before or after giving m up) *)
Definition needg_hd (l : list micro) (m : nat) : Prop :=
  match l with
  | MLockPost m' LMReacquire :: _ => m' = m
  | MCvWait _ m' :: _ => m' = m
  | _ => False
  end.
Definition needg (c : list micro) (m : nat) : Prop := needg_hd (skipc c) m.

Definition wfc_hd (l : list micro) : Prop :=
  match l with
  | [] => True
  | MCvWait _ m :: r =>
      exists r', r = MPark :: MBranch m AOpaque BMutexLocked :: MLockPost m LMReacquire :: r' /\ clean r'
  | _ :: r => clean r
  end.
Definition wfc (c : list micro) : Prop := wfc_hd (skipc c).

Definition hasg (k : gkind) (m : nat) (gc : gst) : Prop := In (k, m) (fst gc).

(* thread "is inside" mutex m *)
Definition act (gc : gst) (m : nat) : Prop :=
  (hasg GMutex m gc /\ ~ released (snd gc) m) \/ inwaker (snd gc) m.

Lemma gk_dec : forall x y : gkind * nat, {x = y} + {x <> y}.
Proof. decide equality; [apply Nat.eq_dec|decide equality]. Defined.

Definition gcount (k : gkind) (m : nat) (g : list (gkind * nat)) : nat := count_occ gk_dec g (k, m).

Definition thr_ok (gc : gst) : Prop :=
  wfc (snd gc) /\
  (forall m, needg (snd gc) m -> hasg GMutex m gc) /\
  (forall m, inwaker (snd gc) m -> ~ hasg GMutex m gc) /\
  (forall m, gcount GMutex m (fst gc) <= 1) /\
  (forall r, gcount GWrite r (fst gc) <= 1).

Definition mtx_ok (T : list gst) (m : nat) (l : option nat) : Prop :=
  (forall t, l = Some t -> exists gc, nth_error T t = Some gc /\ act gc m) /\
  (forall t gc, nth_error T t = Some gc -> act gc m -> l = Some t).

Definition rw_ok (T : list gst) (r : nat) (l : option rwlocked) : Prop :=
  (forall t, l = Some (RLWrite t) -> exists gc, nth_error T t = Some gc /\ hasg GWrite r gc) /\
  (forall t gc, nth_error T t = Some gc -> hasg GWrite r gc -> l = Some (RLWrite t)) /\
  (forall rs t, l = Some (RLRead rs) -> In t rs ->
     exists gc, nth_error T t = Some gc /\ hasg GRead r gc).

Definition obj_ok (T : list gst) (i : nat) (x : lockst) : Prop :=
  match x with
  | LkM l => mtx_ok T i l
  | LkR l => rw_ok T i l
  end.

(* a write guard of rwlock r excludes every other read or write guard of r,
   whoever owns it (this part rests on the std::sync::RwLock inside
   sync::RwLock: any_guard in MReadPost / MWritePost) *)
Definition wexcl (T : list gst) : Prop :=
  forall a b ga gb r k,
    nth_error T a = Some ga -> nth_error T b = Some gb ->
    In (GWrite, r) (fst ga) -> In (k, r) (fst gb) -> k <> GMutex ->
    a = b /\ k = GWrite.

Definition INV (T : list gst) (O : list (option lockst)) : Prop :=
  (forall t gc, nth_error T t = Some gc -> thr_ok gc) /\
  (forall i x, nth_error O i = Some (Some x) -> obj_ok T i x) /\
  wexcl T.

Definition excl_inv (e : exec) : Prop :=
  INV (absT e) (absO e) /\ Forall clean (e_bodies e).

(* ================================================================== *)
(* 2. Continuations                                                    *)
(* ================================================================== *)

Lemma clean_app a b : clean a -> clean b -> clean (a ++ b).
Proof. unfold clean. intros Ha Hb. rewrite forallb_app, Ha, Hb. reflexivity. Qed.

Lemma clean_cons x r : clean (x :: r) <-> is_dyn x = false /\ clean r.
Proof.
  unfold clean. cbn [forallb]. rewrite andb_true_iff, negb_true_iff. tauto.
Qed.

Lemma clean_skipc c : clean c -> clean (skipc c).
Proof.
  induction c as [|x r IH]; intros H; [exact H|]. cbn [skipc].
  destruct (is_skip x); [|exact H]. apply IH. apply clean_cons in H. tauto.
Qed.

(* a clean continuation is in no phase *)
Lemma clean_hd l : clean l ->
  wfc_hd l /\ (forall m, ~ released_hd l m) /\ (forall m, ~ inwaker_hd l m) /\ (forall m, ~ needg_hd l m).
Proof.
  destruct l as [|x r]; intros H.
  - cbn. tauto.
  - apply clean_cons in H. destruct H as [Hx Hr].
    destruct x; try destruct mode; try discriminate Hx; cbn; tauto.
Qed.

Lemma clean_phase c : clean c ->
  wfc c /\ (forall m, ~ released c m) /\ (forall m, ~ inwaker c m) /\ (forall m, ~ needg c m).
Proof. intros H. apply clean_hd, clean_skipc, H. Qed.

Lemma skipc_skip x r : is_skip x = true -> skipc (x :: r) = skipc r.
Proof. intros H. cbn [skipc]. rewrite H. reflexivity. Qed.

Lemma skipc_noskip x r : is_skip x = false -> skipc (x :: r) = x :: r.
Proof. intros H. cbn [skipc]. rewrite H. reflexivity. Qed.

(* a continuation whose head is an ordinary micro-op *)
Definition plain (c : list micro) : Prop :=
  forall m, ~ released c m /\ ~ inwaker c m /\ ~ needg c m.

Lemma plain_head x r : is_skip x = false -> is_dyn x = false -> plain (x :: r).
Proof.
  intros Hs Hd m. unfold released, inwaker, needg. rewrite (skipc_noskip _ _ Hs).
  destruct x; try destruct mode; try discriminate Hd; cbn; tauto.
Qed.

Lemma wfc_head_clean x r : is_skip x = false -> is_dyn x = false -> wfc (x :: r) -> clean r.
Proof.
  intros Hs Hd. unfold wfc. rewrite (skipc_noskip _ _ Hs).
  destruct x; try destruct mode; try discriminate Hd; cbn; tauto.
Qed.

Lemma clean_plain c : clean c -> plain c.
Proof. intros H m. destruct (clean_phase c H) as (_ & H1 & H2 & H3). auto. Qed.

Lemma act_plain g c m : plain c -> (act (g, c) m <-> In (GMutex, m) g).
Proof.
  intros Hp. destruct (Hp m) as (H1 & H2 & _). unfold act, hasg. cbn [fst snd]. tauto.
Qed.

(* ================================================================== *)
(* 3. Lists                                                            *)
(* ================================================================== *)

Lemma list_set_length' {A : Type} (l : list A) n x : length (list_set l n x) = length l.
Proof. revert n; induction l as [|h t IH]; intros [|n]; cbn [list_set length]; auto. Qed.

Lemma map_list_set {A B : Type} (f : A -> B) (l : list A) n x :
  map f (list_set l n x) = list_set (map f l) n (f x).
Proof.
  revert n; induction l as [|h t IH]; intros [|n]; cbn [list_set map]; try reflexivity.
  rewrite IH. reflexivity.
Qed.

Lemma map_list_upd {A B : Type} (f : A -> B) (g : A -> A) (g' : B -> B) (l : list A) n :
  (forall x, f (g x) = g' (f x)) ->
  map f (list_upd l n g) = list_upd (map f l) n g'.
Proof.
  intros H. unfold list_upd. rewrite nth_error_map.
  destruct (nth_error l n) as [x|]; cbn [option_map]; [|reflexivity].
  rewrite map_list_set, H. reflexivity.
Qed.

Lemma list_ext {A : Type} (l l' : list A) :
  (forall i, nth_error l i = nth_error l' i) -> l = l'.
Proof.
  revert l'; induction l as [|h t IH]; intros [|h' t'] H.
  - reflexivity.
  - specialize (H 0). discriminate H.
  - specialize (H 0). discriminate H.
  - pose proof (H 0) as H0. cbn in H0. injection H0 as ->.
    f_equal. apply IH. intros i. apply (H (S i)).
Qed.

Lemma list_upd_id {A : Type} (l : list A) n f :
  (forall x, nth_error l n = Some x -> f x = x) -> list_upd l n f = l.
Proof.
  intros H. apply list_ext. intros i. destruct (Nat.eq_dec n i) as [<-|Hne].
  - rewrite nth_error_list_upd_same. destruct (nth_error l n) as [x|] eqn:Hx; [|reflexivity].
    cbn [option_map]. rewrite (H x eq_refl). reflexivity.
  - apply nth_error_list_upd_other, Hne.
Qed.

Lemma map_list_upd_id {A B : Type} (f : A -> B) (g : A -> A) (l : list A) n :
  (forall x, f (g x) = f x) -> map f (list_upd l n g) = map f l.
Proof.
  intros H. rewrite (map_list_upd f g (fun y => y) l n H). apply list_upd_id. reflexivity.
Qed.

Lemma list_upd_twice {A : Type} (l : list A) n f g :
  list_upd (list_upd l n f) n g = list_upd l n (fun x => g (f x)).
Proof.
  apply list_ext. intros i. destruct (Nat.eq_dec n i) as [<-|Hne].
  - rewrite !nth_error_list_upd_same. destruct (nth_error l n); reflexivity.
  - rewrite !nth_error_list_upd_other by exact Hne. reflexivity.
Qed.

Lemma list_upd_ext {A : Type} (l : list A) n f g :
  (forall x, f x = g x) -> list_upd l n f = list_upd l n g.
Proof. intros H. unfold list_upd. destruct (nth_error l n); [rewrite H|]; reflexivity. Qed.

Lemma list_upd_const {A : Type} (l : list A) n f x :
  nth_error l n = Some x -> list_upd l n f = list_upd l n (fun _ => f x).
Proof. intros H. unfold list_upd. rewrite H. reflexivity. Qed.

Lemma map_mapi_id {A B : Type} (f : A -> B) (g : nat -> A -> A) (l : list A) :
  (forall i x, f (g i x) = f x) -> map f (mapi g l) = map f l.
Proof.
  intros H. unfold mapi. generalize 0.
  induction l as [|h t IH]; intros k; cbn [mapi_from map]; [reflexivity|].
  rewrite H, IH. reflexivity.
Qed.

(* ---- guards ---- *)
Lemma gkind_eqb_eq a b : gkind_eqb a b = true <-> a = b.
Proof. destruct a, b; cbn; split; congruence. Qed.

Lemma guard_eqb_eq k m k' m' : gkind_eqb k k' && Nat.eqb m m' = true <-> (k, m) = (k', m').
Proof.
  rewrite andb_true_iff, gkind_eqb_eq, Nat.eqb_eq. split; [intros [-> ->]; reflexivity|].
  intros H; injection H as -> ->. auto.
Qed.

Lemma remove_last_guard_spec g k m :
  match remove_last_guard g k m with
  | Some g' => exists g1 g2, g = g1 ++ (k, m) :: g2 /\ g' = g1 ++ g2
  | None => ~ In (k, m) g
  end.
Proof.
  induction g as [|[k' m'] t IH]; cbn [remove_last_guard]; [intros []|].
  destruct (remove_last_guard t k m) as [t'|].
  - destruct IH as (g1 & g2 & -> & ->). exists ((k', m') :: g1), g2. split; reflexivity.
  - destruct (gkind_eqb k k' && Nat.eqb m m') eqn:Hq.
    + apply guard_eqb_eq in Hq. injection Hq as <- <-. exists [], t. split; reflexivity.
    + intros [H|H]; [|exact (IH H)]. symmetry in H. apply guard_eqb_eq in H. congruence.
Qed.

Lemma holds_guard_In e me k m t :
  get_thread e me = Some t -> (holds_guard e me k m = true <-> In (k, m) (t_guards t)).
Proof.
  intros Ht. unfold holds_guard. rewrite Ht. rewrite existsb_exists. split.
  - intros ([k' m'] & Hin & Hq). cbn [fst snd] in Hq. rewrite andb_true_iff, gkind_eqb_eq, Nat.eqb_eq in Hq.
    destruct Hq as [-> ->]. exact Hin.
  - intros Hin. exists (k, m). split; [exact Hin|]. cbn [fst snd].
    rewrite andb_true_iff, gkind_eqb_eq, Nat.eqb_eq. auto.
Qed.

Lemma gcount_In k m g : In (k, m) g <-> gcount k m g > 0.
Proof. apply count_occ_In. Qed.

Lemma gcount_zero k m g : ~ In (k, m) g <-> gcount k m g = 0.
Proof. unfold gcount. rewrite (count_occ_In gk_dec). lia. Qed.

Lemma gcount_app k m a b : gcount k m (a ++ b) = gcount k m a + gcount k m b.
Proof. apply count_occ_app. Qed.

Lemma gcount_single k m k' m' :
  gcount k m [(k', m')] = if gk_dec (k', m') (k, m) then 1 else 0.
Proof. unfold gcount. cbn [count_occ]. destruct (gk_dec _ _); reflexivity. Qed.

Lemma gcount_mid k m a x b : gcount k m (a ++ x :: b) = gcount k m (a ++ b) + gcount k m [x].
Proof. rewrite !gcount_app. change (x :: b) with ([x] ++ b). rewrite gcount_app. lia. Qed.

(* ================================================================== *)
(* 4. The abstract transition lemma                                    *)
(* ================================================================== *)

Definition readers (l : option rwlocked) : list nat :=
  match l with Some (RLRead rs) => rs | _ => [] end.
Definition iswrite (l : option rwlocked) : Prop :=
  match l with Some (RLWrite _) => True | _ => False end.

(* what one step of thread [me] (whose abstract state goes from gc to gc') may
   do to the lock word of mutex i *)
Definition mstep (me i : nat) (gc gc' : gst) (l l' : option nat) : Prop :=
  (l' = l /\ (act gc i <-> act gc' i)) \/
  (l = None /\ l' = Some me /\ act gc' i) \/
  (act gc i /\ l' = None /\ ~ act gc' i).

(* ... and to the lock word of rwlock i *)
Definition rstep (me i : nat) (gc gc' : gst) (l l' : option rwlocked) : Prop :=
  (l' = l /\ (hasg GWrite i gc <-> hasg GWrite i gc') /\ (hasg GRead i gc -> hasg GRead i gc')) \/
  (l = None /\ l' = Some (RLWrite me) /\ hasg GWrite i gc') \/
  (hasg GWrite i gc /\ l' = None /\ ~ hasg GWrite i gc') \/
  (~ iswrite l /\ ~ iswrite l' /\ (hasg GWrite i gc <-> hasg GWrite i gc') /\
   forall t, In t (readers l') -> (t = me /\ hasg GRead i gc') \/ (t <> me /\ In t (readers l))).

Definition ostep (me i : nat) (gc gc' : gst) (x x' : lockst) : Prop :=
  match x, x' with
  | LkM l, LkM l' => mstep me i gc gc' l l'
  | LkR l, LkR l' => rstep me i gc gc' l l'
  | _, _ => False
  end.

Definition fresh (gc : gst) : Prop := fst gc = [] /\ clean (snd gc).

Lemma fresh_ok gc : fresh gc -> thr_ok gc /\ (forall k m, ~ hasg k m gc) /\ (forall m, ~ act gc m).
Proof.
  destruct gc as [g c]. intros [Hg Hc]. cbn [fst snd] in *. subst g.
  destruct (clean_phase c Hc) as (H1 & H2 & H3 & H4).
  split; [|split].
  - unfold thr_ok, hasg. cbn [fst snd].
    repeat split; auto; try (intros m H; first [exact (H4 m H)|exact (H3 m H)]).
  - intros k m H. exact H.
  - intros m [[H _]|H]; [exact H|exact (H3 m H)].
Qed.

Lemma nth_T'_inv (T : list gst) me gc gc' nw t g :
  nth_error T me = Some gc ->
  nth_error (list_upd T me (fun _ => gc') ++ nw) t = Some g ->
  (t = me /\ g = gc') \/ (t <> me /\ nth_error T t = Some g) \/ In g nw.
Proof.
  intros Hme H. destruct (Nat.lt_ge_cases t (length T)) as [Hlt|Hge].
  - rewrite nth_error_app1 in H by (rewrite list_upd_length; exact Hlt).
    destruct (Nat.eq_dec me t) as [<-|Hne].
    + rewrite nth_error_list_upd_same, Hme in H. cbn in H. left. split; congruence.
    + rewrite nth_error_list_upd_other in H by exact Hne. right; left. split; [congruence|exact H].
  - rewrite nth_error_app2 in H by (rewrite list_upd_length; exact Hge).
    right; right. eapply nth_error_In, H.
Qed.

Lemma nth_T'_me (T : list gst) me gc gc' nw :
  nth_error T me = Some gc -> nth_error (list_upd T me (fun _ => gc') ++ nw) me = Some gc'.
Proof.
  intros Hme. assert (Hlt : me < length T) by (apply nth_error_Some; congruence).
  rewrite nth_error_app1 by (rewrite list_upd_length; exact Hlt).
  rewrite nth_error_list_upd_same, Hme. reflexivity.
Qed.

Lemma nth_T'_other (T : list gst) me gc' nw t g :
  t <> me -> nth_error T t = Some g -> nth_error (list_upd T me (fun _ => gc') ++ nw) t = Some g.
Proof.
  intros Hne H. assert (Hlt : t < length T) by (apply nth_error_Some; congruence).
  rewrite nth_error_app1 by (rewrite list_upd_length; exact Hlt).
  rewrite nth_error_list_upd_other by congruence. exact H.
Qed.

Lemma mtx_step T me gc gc' nw i l l' :
  nth_error T me = Some gc -> Forall fresh nw ->
  mtx_ok T i l -> mstep me i gc gc' l l' ->
  mtx_ok (list_upd T me (fun _ => gc') ++ nw) i l'.
Proof.
  intros Hme Hnw [HA HB] Hs.
  assert (Hfr : forall g, In g nw -> ~ act g i).
  { intros g Hg. rewrite Forall_forall in Hnw. apply (fresh_ok g (Hnw g Hg)). }
  destruct Hs as [(-> & Hiff)|[(-> & -> & Ha')|(Ha & -> & Hna')]]; split.
  - intros t Ht. destruct (HA t Ht) as (g & Hg & Hact).
    destruct (Nat.eq_dec t me) as [->|Hne].
    + exists gc'. split; [eapply nth_T'_me; exact Hme|]. apply Hiff. congruence.
    + exists g. split; [apply nth_T'_other; assumption|exact Hact].
  - intros t g Hg Hact.
    destruct (nth_T'_inv _ _ _ _ _ _ _ Hme Hg) as [(-> & ->)|[(Hne & Hg0)|Hin]].
    + apply (HB me gc Hme). apply Hiff, Hact.
    + exact (HB t g Hg0 Hact).
    + destruct (Hfr g Hin Hact).
  - intros t Ht. injection Ht as <-. exists gc'. split; [eapply nth_T'_me; exact Hme|exact Ha'].
  - intros t g Hg Hact.
    destruct (nth_T'_inv _ _ _ _ _ _ _ Hme Hg) as [(-> & ->)|[(Hne & Hg0)|Hin]].
    + reflexivity.
    + discriminate (HB t g Hg0 Hact).
    + destruct (Hfr g Hin Hact).
  - intros t Ht. discriminate Ht.
  - intros t g Hg Hact. exfalso.
    destruct (nth_T'_inv _ _ _ _ _ _ _ Hme Hg) as [(-> & ->)|[(Hne & Hg0)|Hin]].
    + exact (Hna' Hact).
    + pose proof (HB t g Hg0 Hact) as H1. pose proof (HB me gc Hme Ha) as H2. congruence.
    + exact (Hfr g Hin Hact).
Qed.

Lemma rw_step T me gc gc' nw i l l' :
  nth_error T me = Some gc -> Forall fresh nw ->
  rw_ok T i l -> rstep me i gc gc' l l' ->
  rw_ok (list_upd T me (fun _ => gc') ++ nw) i l'.
Proof.
  intros Hme Hnw (HA & HB & HC) Hs.
  assert (Hfr : forall g k, In g nw -> ~ hasg k i g).
  { intros g k Hg. rewrite Forall_forall in Hnw. apply (fresh_ok g (Hnw g Hg)). }
  destruct Hs as [(-> & Hiff & Hrd)|[(-> & -> & Hw')|[(Hw & -> & Hnw')|(Hnl & Hnl' & Hiff & Hrs)]]];
    split; [|split| |split| |split| |split].
  - intros t Ht. destruct (HA t Ht) as (g & Hg & Hh).
    destruct (Nat.eq_dec t me) as [->|Hne].
    + exists gc'. split; [eapply nth_T'_me; exact Hme|]. apply Hiff. congruence.
    + exists g. split; [apply nth_T'_other; assumption|exact Hh].
  - intros t g Hg Hh.
    destruct (nth_T'_inv _ _ _ _ _ _ _ Hme Hg) as [(-> & ->)|[(Hne & Hg0)|Hin]].
    + apply (HB me gc Hme). apply Hiff, Hh.
    + exact (HB t g Hg0 Hh).
    + destruct (Hfr g _ Hin Hh).
  - intros rs t Hl Hin. destruct (HC rs t Hl Hin) as (g & Hg & Hh).
    destruct (Nat.eq_dec t me) as [->|Hne].
    + exists gc'. split; [eapply nth_T'_me; exact Hme|]. apply Hrd. congruence.
    + exists g. split; [apply nth_T'_other; assumption|exact Hh].
  - intros t Ht. injection Ht as <-. exists gc'. split; [eapply nth_T'_me; exact Hme|exact Hw'].
  - intros t g Hg Hh.
    destruct (nth_T'_inv _ _ _ _ _ _ _ Hme Hg) as [(-> & ->)|[(Hne & Hg0)|Hin]].
    + reflexivity.
    + discriminate (HB t g Hg0 Hh).
    + destruct (Hfr g _ Hin Hh).
  - intros rs t Hl. discriminate Hl.
  - intros t Ht. discriminate Ht.
  - intros t g Hg Hh. exfalso.
    destruct (nth_T'_inv _ _ _ _ _ _ _ Hme Hg) as [(-> & ->)|[(Hne & Hg0)|Hin]].
    + exact (Hnw' Hh).
    + pose proof (HB t g Hg0 Hh) as H1. pose proof (HB me gc Hme Hw) as H2. congruence.
    + exact (Hfr g _ Hin Hh).
  - intros rs t Hl. discriminate Hl.
  - intros t Ht. rewrite Ht in Hnl'. destruct Hnl'. exact I.
  - intros t g Hg Hh. exfalso.
    destruct (nth_T'_inv _ _ _ _ _ _ _ Hme Hg) as [(-> & ->)|[(Hne & Hg0)|Hin]].
    + apply Hiff in Hh. rewrite (HB me gc Hme Hh) in Hnl. apply Hnl. exact I.
    + rewrite (HB t g Hg0 Hh) in Hnl. apply Hnl. exact I.
    + exact (Hfr g _ Hin Hh).
  - intros rs t Hl Hin. rewrite Hl in Hrs. cbn [readers] in Hrs.
    destruct (Hrs t Hin) as [(-> & Hh)|(Hne & Hin0)].
    + exists gc'. split; [eapply nth_T'_me; exact Hme|exact Hh].
    + destruct l as [[rs0|w]|]; cbn [readers] in Hin0; try destruct Hin0.
      destruct (HC rs0 t eq_refl Hin0) as (g & Hg & Hh).
      exists g. split; [apply nth_T'_other; assumption|exact Hh].
Qed.

(* the non-mutex guards of the stepping thread: kept or dropped, or one new
   guard (k, r) that is compatible with every guard of every thread *)
Definition newg_ok (T : list gst) (gc gc' : gst) : Prop :=
  forall k r, k <> GMutex -> In (k, r) (fst gc') ->
    In (k, r) (fst gc) \/
    ((forall t gt, nth_error T t = Some gt ->
        ~ In (GWrite, r) (fst gt) /\ (k = GWrite -> ~ In (GRead, r) (fst gt))) /\
     (forall k', k' <> GMutex -> In (k', r) (fst gc') -> k' = k)).

Lemma wexcl_step T me gc gc' nw :
  nth_error T me = Some gc -> Forall fresh nw -> wexcl T -> newg_ok T gc gc' ->
  wexcl (list_upd T me (fun _ => gc') ++ nw).
Proof.
  intros Hme Hnw HW Hng a b ga gb r k Ha Hb Hia Hib Hk.
  assert (Hfr : forall g k i, In g nw -> ~ In (k, i) (fst g)).
  { intros g k0 i Hg. rewrite Forall_forall in Hnw. apply (fresh_ok g (Hnw g Hg)). }
  assert (HkW : GWrite <> GMutex) by discriminate.
  destruct (nth_T'_inv _ _ _ _ _ _ _ Hme Ha) as [(-> & ->)|[(Hna & Ha0)|Hin]];
    [| |destruct (Hfr _ _ _ Hin Hia)];
  (destruct (nth_T'_inv _ _ _ _ _ _ _ Hme Hb) as [(-> & ->)|[(Hnb & Hb0)|Hin]];
    [| |destruct (Hfr _ _ _ Hin Hib)]).
  - split; [reflexivity|].
    destruct (Hng GWrite r HkW Hia) as [Hoa|[Hna Hua]].
    + destruct (Hng k r Hk Hib) as [Hob|[Hnb Hub]].
      * apply (HW me me gc gc r k Hme Hme Hoa Hob Hk).
      * destruct (Hnb me gc Hme) as [Hn _]. destruct (Hn Hoa).
    + apply Hua; assumption.
  - exfalso. destruct (Hng GWrite r HkW Hia) as [Hoa|[Hna Hua]].
    + destruct (HW me b gc gb r k Hme Hb0 Hoa Hib Hk) as [-> _]. apply Hnb. reflexivity.
    + destruct (Hna b gb Hb0) as [H1 H2]. destruct k; [destruct (Hk eq_refl)|exact (H2 eq_refl Hib)|exact (H1 Hib)].
  - exfalso. destruct (Hng k r Hk Hib) as [Hob|[Hnb Hub]].
    + destruct (HW a me ga gc r k Ha0 Hme Hia Hob Hk) as [-> _]. apply Hna. reflexivity.
    + destruct (Hnb a ga Ha0) as [H1 _]. exact (H1 Hia).
  - exact (HW a b ga gb r k Ha0 Hb0 Hia Hib Hk).
Qed.

Lemma INV_step T O me gc gc' nw O' :
  INV T O -> nth_error T me = Some gc -> thr_ok gc' -> Forall fresh nw ->
  newg_ok T gc gc' ->
  (forall i x', nth_error O' i = Some (Some x') ->
     exists x, nth_error O i = Some (Some x) /\ ostep me i gc gc' x x') ->
  INV (list_upd T me (fun _ => gc') ++ nw) O'.
Proof.
  intros (HT & HO & HW) Hme Hok Hnw Hng HO'. split; [|split].
  - intros t g Hg.
    destruct (nth_T'_inv _ _ _ _ _ _ _ Hme Hg) as [(-> & ->)|[(Hne & Hg0)|Hin]].
    + exact Hok.
    + exact (HT t g Hg0).
    + rewrite Forall_forall in Hnw. apply (fresh_ok g (Hnw g Hin)).
  - intros i x' Hi. destruct (HO' i x' Hi) as (x & Hx & Hs).
    pose proof (HO i x Hx) as Hox.
    destruct x as [l|l], x' as [l'|l']; cbn [ostep] in Hs; try (exfalso; exact Hs); cbn [obj_ok] in *.
    + eapply mtx_step; eassumption.
    + eapply rw_step; eassumption.
  - eapply wexcl_step; eassumption.
Qed.

Lemma newg_ok_sub T gc gc' :
  (forall k r, k <> GMutex -> In (k, r) (fst gc') -> In (k, r) (fst gc)) -> newg_ok T gc gc'.
Proof. intros H k r Hk Hin. left. apply H; assumption. Qed.

(* ================================================================== *)
(* 5. The abstraction of the helpers of Ops.v                          *)
(* ================================================================== *)

Definition pushc (ms : list micro) (gc : gst) : gst := (fst gc, ms ++ snd gc).
Definition addg (k : gkind) (m : nat) (gc : gst) : gst := (fst gc ++ [(k, m)], snd gc).
Definition delg (k : gkind) (m : nat) (gc : gst) : gst :=
  (match remove_last_guard (fst gc) k m with Some g => g | None => fst gc end, snd gc).
Definition demote (x : option lockst) : option lockst :=
  match x with Some (LkM _) => Some (LkM None) | y => y end.

Lemma absT_upd_thread e i f g :
  (forall t, tproj (f t) = g (tproj t)) -> absT (upd_thread e i f) = list_upd (absT e) i g.
Proof. intros H. unfold absT, upd_thread. cbn [e_threads ex_set_threads]. apply map_list_upd, H. Qed.

Lemma absT_upd_thread_id e i f :
  (forall t, tproj (f t) = tproj t) -> absT (upd_thread e i f) = absT e.
Proof. intros H. unfold absT, upd_thread. cbn [e_threads ex_set_threads]. apply map_list_upd_id, H. Qed.

Lemma absT_map_others e me p f :
  (forall t, tproj (f t) = tproj t) -> absT (map_others e me p f) = absT e.
Proof.
  intros H. unfold absT, map_others. cbn [e_threads ex_set_threads]. apply map_mapi_id.
  intros i x. destruct (negb (Nat.eqb i me) && p x); [apply H|reflexivity].
Qed.

Lemma absT_push_cont e me ms : absT (push_cont e me ms) = list_upd (absT e) me (pushc ms).
Proof. apply absT_upd_thread. reflexivity. Qed.
Lemma absT_push_guard e me k m : absT (push_guard e me k m) = list_upd (absT e) me (addg k m).
Proof. apply absT_upd_thread. reflexivity. Qed.
Lemma absT_drop_guard e me k m : absT (drop_guard e me k m) = list_upd (absT e) me (delg k m).
Proof.
  apply absT_upd_thread. intros t. unfold delg, tproj. cbn [fst snd].
  destruct (remove_last_guard (t_guards t) k m); reflexivity.
Qed.
Lemma absT_log_op e me r : absT (log_op e me r) = absT e.
Proof. unfold log_op. destruct (get_thread e me); reflexivity. Qed.
Lemma absO_log_op e me r : absO (log_op e me r) = absO e.
Proof. unfold log_op. destruct (get_thread e me); reflexivity. Qed.
Lemma bodies_log_op e me r : e_bodies (log_op e me r) = e_bodies e.
Proof. unfold log_op. destruct (get_thread e me); reflexivity. Qed.

Lemma absO_upd_const e i o :
  absO (upd_object e i (fun _ => o)) = list_upd (absO e) i (fun _ => oproj o).
Proof. unfold absO, upd_object. cbn [e_objects ex_set_objects]. apply map_list_upd. reflexivity. Qed.

Lemma absO_upd_same e i o o0 :
  nth_error (e_objects e) i = Some o0 -> oproj o = oproj o0 ->
  absO (upd_object e i (fun _ => o)) = absO e.
Proof.
  intros Hi Ho. rewrite absO_upd_const. apply list_upd_id. intros x Hx.
  unfold absO in Hx. rewrite nth_error_map, Hi in Hx. cbn in Hx. congruence.
Qed.

Lemma absO_nth e i : nth_error (absO e) i = option_map oproj (nth_error (e_objects e) i).
Proof. apply nth_error_map. Qed.

Lemma absT_nth e i : nth_error (absT e) i = option_map tproj (nth_error (e_threads e) i).
Proof. apply nth_error_map. Qed.

(* ---- mutex ---- *)
Lemma release_lock_abs e me m :
  absT (release_lock e me m) = absT e /\
  e_bodies (release_lock e me m) = e_bodies e /\
  absO (release_lock e me m) = list_upd (absO e) m demote.
Proof.
  unfold release_lock. destruct (get_mutex e m) as [s|] eqn:Hg.
  - apply get_mutex_nth in Hg. cbv zeta.
    assert (Hd : list_upd (absO e) m demote = list_upd (absO e) m (fun _ => Some (LkM None))).
    { apply list_upd_const with (x := Some (LkM (mx_lock s))). rewrite absO_nth, Hg. reflexivity. }
    rewrite Hd. cbn [e_active upd_object ex_set_objects].
    destruct (e_active e).
    + repeat split.
      * rewrite absT_map_others by reflexivity. reflexivity.
      * unfold absO, map_others. cbn [e_objects ex_set_threads upd_object ex_set_objects].
        rewrite list_upd_twice. rewrite (map_list_upd oproj _ (fun _ => Some (LkM None))) by reflexivity.
        reflexivity.
    + repeat split. apply absO_upd_const.
  - repeat split. symmetry. apply list_upd_id. intros x Hx. rewrite absO_nth in Hx.
    unfold get_mutex in Hg. destruct (nth_error (e_objects e) m) as [o|]; [|discriminate Hx].
    cbn in Hx. injection Hx as <-. destruct o; try reflexivity. discriminate Hg.
Qed.

Lemma post_acquire_abs e me m e' ok :
  post_acquire e me m = (e', ok) ->
  absT e' = absT e /\ e_bodies e' = e_bodies e /\
  (ok = true -> nth_error (absO e) m = Some (Some (LkM None)) /\
                absO e' = list_upd (absO e) m (fun _ => Some (LkM (Some me)))) /\
  (ok = false -> e' = e).
Proof.
  unfold post_acquire. destruct (get_mutex e m) as [s|] eqn:Hg.
  - apply get_mutex_nth in Hg. destruct (mx_lock s) as [o|] eqn:Hl; cbn [is_some].
    + intros H; injection H as <- <-. repeat split; intros; congruence.
    + intros H; injection H as <- <-. split; [|split; [|split]].
      * rewrite absT_map_others by reflexivity. unfold set_caus.
        rewrite absT_upd_thread_id by reflexivity. reflexivity.
      * reflexivity.
      * intros _. split; [rewrite absO_nth, Hg; cbn; rewrite Hl; reflexivity|].
        apply (absO_upd_const e m).
      * intros H0; discriminate H0.
  - intros H; injection H as <- <-. repeat split; intros; congruence.
Qed.

(* ---- rwlock ---- *)
Lemma post_acquire_read_abs e me r e' ok :
  post_acquire_read e me r = (e', ok) ->
  absT e' = absT e /\ e_bodies e' = e_bodies e /\
  (ok = true -> exists l l', nth_error (absO e) r = Some (Some (LkR l)) /\
                  absO e' = list_upd (absO e) r (fun _ => Some (LkR l')) /\
                  ~ iswrite l /\ ~ iswrite l' /\
                  forall t, In t (readers l') -> t = me \/ In t (readers l)) /\
  (ok = false -> e' = e).
Proof.
  unfold post_acquire_read. destruct (get_rw e r) as [s|] eqn:Hg.
  - apply get_rw_nth in Hg.
    assert (Hn : nth_error (absO e) r = Some (Some (LkR (rw_lock s)))) by (rewrite absO_nth, Hg; reflexivity).
    destruct (rw_lock s) as [[rs|w]|] eqn:Hl.
    + intros H; injection H as <- <-. split; [|split; [|split]].
      * rewrite absT_map_others by reflexivity. unfold set_caus.
        rewrite absT_upd_thread_id by reflexivity. reflexivity.
      * reflexivity.
      * intros _. exists (Some (RLRead rs)), (Some (RLRead (set_insert me rs))).
        split; [exact Hn|]. split; [apply (absO_upd_const e r)|]. cbn [iswrite readers].
        split; [tauto|]. split; [tauto|].
        intros t. clear. induction rs as [|h tl IH]; cbn [set_insert In]; [intros [->|[]]; auto|].
        destruct (Nat.eqb h me); cbn [In]; tauto.
      * intros H0; discriminate H0.
    + intros H; injection H as <- <-. repeat split; intros; congruence.
    + intros H; injection H as <- <-. split; [|split; [|split]].
      * rewrite absT_map_others by reflexivity. unfold set_caus.
        rewrite absT_upd_thread_id by reflexivity. reflexivity.
      * reflexivity.
      * intros _. exists None, (Some (RLRead [me])).
        split; [exact Hn|]. split; [apply (absO_upd_const e r)|]. cbn [iswrite readers In]. intuition congruence.
      * intros H0; discriminate H0.
  - intros H; injection H as <- <-. repeat split; intros; congruence.
Qed.

Lemma post_acquire_write_abs e me r e' ok :
  post_acquire_write e me r = (e', ok) ->
  absT e' = absT e /\ e_bodies e' = e_bodies e /\
  (ok = true -> nth_error (absO e) r = Some (Some (LkR None)) /\
                absO e' = list_upd (absO e) r (fun _ => Some (LkR (Some (RLWrite me))))) /\
  (ok = false -> e' = e).
Proof.
  unfold post_acquire_write. destruct (get_rw e r) as [s|] eqn:Hg.
  - apply get_rw_nth in Hg.
    assert (Hn : nth_error (absO e) r = Some (Some (LkR (rw_lock s)))) by (rewrite absO_nth, Hg; reflexivity).
    destruct (rw_lock s) as [lk|] eqn:Hl.
    + intros H; injection H as <- <-. repeat split; intros; congruence.
    + intros H; injection H as <- <-. split; [|split; [|split]].
      * rewrite absT_map_others by reflexivity. unfold set_caus.
        rewrite absT_upd_thread_id by reflexivity. reflexivity.
      * reflexivity.
      * intros _. split; [exact Hn|]. apply (absO_upd_const e r).
      * intros H0; discriminate H0.
  - intros H; injection H as <- <-. repeat split; intros; congruence.
Qed.

Lemma release_read_abs e me r e' :
  release_read e me r = MOk e' ->
  absT e' = absT e /\ e_bodies e' = e_bodies e /\
  exists rs l', nth_error (absO e) r = Some (Some (LkR (Some (RLRead rs)))) /\
                absO e' = list_upd (absO e) r (fun _ => Some (LkR l')) /\
                ~ iswrite l' /\ forall t, In t (readers l') -> t <> me /\ In t rs.
Proof.
  unfold release_read. destruct (get_rw e r) as [s|] eqn:Hg; [|discriminate].
  apply get_rw_nth in Hg. cbv zeta.
  assert (Hn : nth_error (absO e) r = Some (Some (LkR (rw_lock s)))) by (rewrite absO_nth, Hg; reflexivity).
  destruct (rw_lock s) as [[rs|w]|] eqn:Hl; try discriminate.
  assert (Hrm : forall t, In t (set_remove me rs) -> t <> me /\ In t rs).
  { intros t Ht. unfold set_remove in Ht. apply filter_In in Ht. destruct Ht as [Hin Hq].
    apply negb_true_iff, Nat.eqb_neq in Hq. auto. }
  destruct (set_remove me rs) as [|h tl] eqn:Hrs; intros H; injection H as <-.
  - split; [|split].
    + rewrite absT_map_others by reflexivity. reflexivity.
    + reflexivity.
    + exists rs, None. split; [exact Hn|]. split; [|split; [cbn; tauto|intros t []]].
      apply (absO_upd_const e r).
  - split; [reflexivity|split; [reflexivity|]].
    exists rs, (Some (RLRead (h :: tl))). split; [exact Hn|].
    split; [apply (absO_upd_const e r)|]. split; [cbn; tauto|]. exact Hrm.
Qed.

Lemma release_write_abs e me r e' :
  release_write e me r = MOk e' ->
  absT e' = absT e /\ e_bodies e' = e_bodies e /\
  exists l, nth_error (absO e) r = Some (Some (LkR l)) /\
            absO e' = list_upd (absO e) r (fun _ => Some (LkR None)).
Proof.
  unfold release_write. destruct (get_rw e r) as [s|] eqn:Hg; [|discriminate].
  apply get_rw_nth in Hg. cbv zeta. intros H; injection H as <-.
  split; [|split].
  - rewrite absT_map_others by reflexivity. reflexivity.
  - reflexivity.
  - exists (rw_lock s). split; [rewrite absO_nth, Hg; reflexivity|].
    apply (absO_upd_const e r).
Qed.

(* ================================================================== *)
(* 6. Neutral micro-operations: everything that does not touch a lock  *)
(* ================================================================== *)

Definition okO (O O' : list (option lockst)) : Prop :=
  forall i x, nth_error O' i = Some (Some x) -> nth_error O i = Some (Some x).

Definition fromb (B : list (list micro)) (gc : gst) : Prop :=
  fst gc = [] /\ (Forall clean B -> clean (snd gc)).

(* [e] is [e0] up to: [pre] pushed on the continuation of [me], the new
   threads [nw] (started on program bodies, without guards), and objects that
   are not locks *)
Definition nz (e0 : exec) (me : nat) (pre : list micro) (nw : list gst) (e : exec) : Prop :=
  absT e = list_upd (absT e0) me (pushc pre) ++ nw /\
  Forall (fromb (e_bodies e0)) nw /\
  okO (absO e0) (absO e) /\
  e_bodies e = e_bodies e0.

Definition fr (e e1 : exec) : Prop :=
  absT e1 = absT e /\ okO (absO e) (absO e1) /\ e_bodies e1 = e_bodies e.

Lemma okO_refl O : okO O O.
Proof. intros i x H. exact H. Qed.

Lemma okO_trans O1 O2 O3 : okO O1 O2 -> okO O2 O3 -> okO O1 O3.
Proof. intros H12 H23 i x H. apply H12, H23, H. Qed.

Lemma pushc_nil gc : pushc [] gc = gc.
Proof. destruct gc; reflexivity. Qed.

Lemma nz_refl e me : nz e me [] [] e.
Proof.
  split; [|split; [constructor|split; [apply okO_refl|reflexivity]]].
  rewrite app_nil_r. symmetry. apply list_upd_id. intros x _. apply pushc_nil.
Qed.

Lemma nz_fr_k e0 me pre nw e e1 : fr e e1 -> nz e0 me pre nw e -> nz e0 me pre nw e1.
Proof.
  intros (HT & HO & HB) (H1 & H2 & H3 & H4). split; [congruence|]. split; [exact H2|].
  split; [eapply okO_trans; eassumption|congruence].
Qed.

Lemma fr_same e e1 :
  e_threads e1 = e_threads e -> e_objects e1 = e_objects e -> e_bodies e1 = e_bodies e -> fr e e1.
Proof.
  intros HT HO HB. unfold fr, absT, absO. rewrite HT, HO. split; [reflexivity|].
  split; [apply okO_refl|exact HB].
Qed.

Lemma nz_same_k e0 me pre nw e e1 :
  e_threads e1 = e_threads e -> e_objects e1 = e_objects e -> e_bodies e1 = e_bodies e ->
  nz e0 me pre nw e -> nz e0 me pre nw e1.
Proof. intros HT HO HB. apply nz_fr_k, fr_same; assumption. Qed.

Lemma nz_log_op_k e0 me pre nw e me' r : nz e0 me pre nw e -> nz e0 me pre nw (log_op e me' r).
Proof. apply nz_same_k; unfold log_op; destruct (get_thread e me'); reflexivity. Qed.

Lemma nz_log_poll_k e0 me pre nw e me' : nz e0 me pre nw e -> nz e0 me pre nw (log_poll e me').
Proof. apply nz_same_k; unfold log_poll; destruct (get_thread e me'); reflexivity. Qed.

Lemma nz_upd_thread_k e0 me pre nw e i f :
  (forall t, tproj (f t) = tproj t) -> nz e0 me pre nw e -> nz e0 me pre nw (upd_thread e i f).
Proof.
  intros Hf. apply nz_fr_k. split; [apply absT_upd_thread_id, Hf|]. split; [apply okO_refl|reflexivity].
Qed.

Lemma nz_map_others_k e0 me pre nw e me' p f :
  (forall t, tproj (f t) = tproj t) -> nz e0 me pre nw e -> nz e0 me pre nw (map_others e me' p f).
Proof.
  intros Hf. apply nz_fr_k. split; [apply absT_map_others, Hf|]. split; [apply okO_refl|reflexivity].
Qed.

Lemma nz_push_cont_k e0 me pre e ms :
  nz e0 me pre [] e -> nz e0 me (ms ++ pre) [] (push_cont e me ms).
Proof.
  intros (H1 & H2 & H3 & H4). split; [|split; [exact H2|split; [exact H3|exact H4]]].
  rewrite absT_push_cont, H1, !app_nil_r, list_upd_twice. apply list_upd_ext.
  intros [g c]. unfold pushc. cbn [fst snd]. rewrite app_assoc. reflexivity.
Qed.

Lemma nz_push_cont_k' e0 me pre pre' e ms :
  pre' = ms ++ pre -> nz e0 me pre [] e -> nz e0 me pre' [] (push_cont e me ms).
Proof. intros ->. apply nz_push_cont_k. Qed.

Lemma tproj_unparked t : tproj (set_unparked t) = tproj t.
Proof. unfold set_unparked. destruct (is_parked t); [reflexivity|]. destruct (is_terminated t); reflexivity. Qed.

Lemma nz_threads_unpark_k e0 me pre nw e me' id :
  nz e0 me pre nw e -> nz e0 me pre nw (threads_unpark e me' id).
Proof.
  unfold threads_unpark. destruct (Nat.eqb id me'); apply nz_upd_thread_k.
  - apply tproj_unparked.
  - intros t. unfold thread_unpark. rewrite tproj_unparked. reflexivity.
Qed.

Lemma nz_fold_unpark_k e0 me pre nw me' l : forall e,
  nz e0 me pre nw e -> nz e0 me pre nw (fold_left (fun e t => threads_unpark e me' t) l e).
Proof.
  induction l as [|h t IH]; intros e H; cbn [fold_left]; [exact H|].
  apply IH, nz_threads_unpark_k, H.
Qed.

Lemma okO_upd O i f :
  (forall x, f x = None \/ f x = x) -> okO O (list_upd O i f).
Proof.
  intros Hf j x H. destruct (Nat.eq_dec i j) as [<-|Hne].
  - rewrite nth_error_list_upd_same in H. destruct (nth_error O i) as [y|]; [|discriminate H].
    cbn in H. destruct (Hf y) as [Hy|Hy]; rewrite Hy in H; congruence.
  - rewrite nth_error_list_upd_other in H by exact Hne. exact H.
Qed.

Lemma nz_upd_object_k e0 me pre nw e i f :
  (forall o, oproj (f o) = None \/ oproj (f o) = oproj o) ->
  nz e0 me pre nw e -> nz e0 me pre nw (upd_object e i f).
Proof.
  intros Hf. apply nz_fr_k. split; [reflexivity|]. split; [|reflexivity].
  intros j x H. unfold absO, upd_object in H. cbn [e_objects ex_set_objects] in H.
  rewrite nth_error_map in H. rewrite absO_nth.
  destruct (Nat.eq_dec i j) as [<-|Hne].
  - rewrite nth_error_list_upd_same in H. destruct (nth_error (e_objects e) i) as [o|]; [|discriminate H].
    cbn in *. destruct (Hf o) as [Ho|Ho]; rewrite Ho in H; congruence.
  - rewrite nth_error_list_upd_other in H by exact Hne. exact H.
Qed.

Lemma nz_append_objects_k e0 me pre nw e l :
  Forall (fun o => oproj o = None) l ->
  nz e0 me pre nw e -> nz e0 me pre nw (ex_set_objects e (e_objects e ++ l)).
Proof.
  intros Hl. apply nz_fr_k. split; [reflexivity|]. split; [|reflexivity].
  intros j x H. unfold absO in *. cbn [e_objects ex_set_objects] in H. rewrite map_app in H.
  destruct (Nat.lt_ge_cases j (length (map oproj (e_objects e)))) as [Hlt|Hge].
  - rewrite nth_error_app1 in H by exact Hlt. exact H.
  - rewrite nth_error_app2 in H by exact Hge. apply nth_error_In in H.
    apply in_map_iff in H. destruct H as (o & Ho & Hin). rewrite Forall_forall in Hl.
    rewrite (Hl o Hin) in Ho. discriminate Ho.
Qed.

Lemma nz_append_thread_k e0 me pre nw e t :
  fromb (e_bodies e) (tproj t) ->
  nz e0 me pre nw e -> nz e0 me pre (nw ++ [tproj t]) (ex_set_threads e (e_threads e ++ [t])).
Proof.
  intros Hf (H1 & H2 & H3 & H4). split; [|split; [|split; [exact H3|exact H4]]].
  - unfold absT in *. cbn [e_threads ex_set_threads]. rewrite map_app, H1, <- app_assoc. reflexivity.
  - apply Forall_app. split; [exact H2|]. constructor; [|constructor]. rewrite <- H4. exact Hf.
Qed.

Lemma oproj_set_last_access o act tid pid v : oproj (set_last_access o act tid pid v) = oproj o.
Proof. destruct o; try reflexivity; destruct act; reflexivity. Qed.

Lemma nz_sched_note_k e0 me pre nw e nx pid th :
  nz e0 me pre nw e -> nz e0 me pre nw (sched_note e nx pid th).
Proof.
  intros H. unfold sched_note. destruct (t_op th) as [op|]; [|exact H].
  destruct (nth_error (e_objects e) (op_obj op)) as [o|]; [|exact H]. cbv zeta.
  apply nz_upd_object_k; [intros o'; right; apply oproj_set_last_access|].
  apply nz_upd_thread_k; [reflexivity|exact H].
Qed.

Lemma nz_schedule_k e0 me pre nw e :
  nz e0 me pre nw e -> nz e0 me pre nw (res_exec (fst (schedule e))).
Proof.
  intros H.
  destruct (schedule_cases e)
    as [(c & ->)|[(x & ->)|[(p1 & x & Hd & ->)|(curr & cur_th & p1 & p2 & next & Hp & ->)]]];
    cbn [fst res_exec]; try exact H.
  assert (Hb : nz e0 me pre nw (sched_base e p2 next)) by (revert H; apply nz_same_k; reflexivity).
  { revert Hb. generalize (sched_base e p2 next). intros e1 Hb.
    unfold sched_post. destruct next as [nx|].
    + destruct (nth_error (e_threads e1) nx) as [th|]; cbn [fst res_exec]; [|exact Hb].
      pose proof (nz_sched_note_k _ _ _ _ _ nx (pos p1) th Hb) as Hn. revert Hn.
      generalize (sched_note e1 nx (pos p1) th). intros e2. apply nz_fr_k.
      split; [|split; [apply okO_refl|reflexivity]].
      unfold absT, reactivate. cbn [e_threads ex_set_threads]. apply map_mapi_id.
      intros i t. destruct (is_yield t && negb (Nat.eqb i nx)); reflexivity.
    + destruct (forallb is_terminated (e_threads e1)); cbn [fst res_exec]; exact Hb. }
Qed.

Lemma nz_do_branch_k e0 me pre nw e me' obj act blk :
  nz e0 me pre nw e -> nz e0 me pre nw (res_exec (do_branch e me' obj act blk)).
Proof.
  intros H. unfold do_branch. apply nz_schedule_k, nz_upd_thread_k; [|exact H].
  intros t. destruct (block_now e obj blk); reflexivity.
Qed.

Lemma nz_do_park_k e0 me pre nw e me' :
  nz e0 me pre nw e -> nz e0 me pre nw (res_exec (do_park e me')).
Proof.
  intros H. unfold do_park. destruct (get_thread e me') as [t|]; [|exact H].
  destruct (t_token t); cbn [res_exec].
  - apply nz_upd_thread_k; [reflexivity|exact H].
  - apply nz_schedule_k, nz_upd_thread_k; [reflexivity|exact H].
Qed.

Lemma nz_do_yield_k e0 me pre nw e me' :
  nz e0 me pre nw e -> nz e0 me pre nw (res_exec (do_yield e me')).
Proof.
  intros H. unfold do_yield. apply nz_schedule_k, nz_upd_thread_k; [reflexivity|exact H].
Qed.

Lemma choose_store_fr e seed : fr e (fst (choose_store e seed)).
Proof.
  unfold choose_store.
  repeat match goal with
         | |- context [match ?x with _ => _ end] =>
             lazymatch x with
             | context [match _ with _ => _ end] => fail
             | _ => destruct x
             end
         end; cbn [fst]; apply fr_same; reflexivity.
Qed.

Definition special (m : micro) : bool :=
  match m with
  | MLockPost _ _ | MUnlock _ | MReadPost _ _ | MWritePost _ _ | MUnread _ | MUnwrite _
  | MWait _ _ | MCvWait _ _ | MBoRegister _ _ _ _ _ | MWakerRelease _ | MWakeTake _ _
  | MReleaseAll => true
  | _ => false
  end.

Definition nzres (e0 : exec) (me : nat) (m : micro) (e : exec) : Prop :=
  exists pre nw, nz e0 me pre nw e /\ clean pre /\ (is_skip m = true -> pre = []).

Lemma nth_clean (B : list (list micro)) b : Forall clean B -> clean (nth b B []).
Proof.
  intros H. rewrite Forall_forall in H.
  destruct (nth_in_or_default b B []) as [Hin|Hd]; [apply H, Hin|rewrite Hd; reflexivity].
Qed.

Lemma subst_waker_clean n k c : forall u, clean c -> clean (subst_waker n k u c).
Proof.
  induction c as [|y t IH]; intros u H; [reflexivity|].
  apply clean_cons in H. destruct H as [Hy Ht].
  destruct y; cbn [subst_waker]; try (apply clean_cons; split; [exact Hy|apply IH, Ht]).
  - destruct u; apply clean_cons; (split; [reflexivity|apply IH, Ht]).
  - destruct u; apply clean_cons; (split; [reflexivity|apply IH, Ht]).
Qed.

Lemma fromb_new e b c d :
  fromb (e_bodies e) (tproj (th_set_dpor (th_set_caus (thread_new b (nth b (e_bodies e) [])) c) d)).
Proof. split; [reflexivity|]. apply nth_clean. Qed.

Lemma fromb_new_w e b n k c d :
  fromb (e_bodies e)
    (tproj (th_set_dpor (th_set_caus (thread_new b (subst_waker n k false (nth b (e_bodies e) []))) c) d)).
Proof. split; [reflexivity|]. intros H. apply subst_waker_clean, nth_clean, H. Qed.

Ltac zclose_step :=
  match goal with
  | |- nz ?e _ _ _ ?e => apply nz_refl
  | H : fr ?E ?x |- nz _ _ _ _ ?x => apply (nz_fr_k _ _ _ _ E x H)
  | |- nz _ _ _ _ (res_exec (fst (schedule _))) => apply nz_schedule_k
  | |- nz _ _ _ _ (res_exec (do_branch _ _ _ _ _)) => apply nz_do_branch_k
  | |- nz _ _ _ _ (res_exec (do_park _ _)) => apply nz_do_park_k
  | |- nz _ _ _ _ (res_exec (do_yield _ _)) => apply nz_do_yield_k
  | |- nz _ _ _ _ (log_op _ _ _) => apply nz_log_op_k
  | |- nz _ _ _ _ (log_poll _ _) => apply nz_log_poll_k
  | |- nz _ _ _ _ (push_cont _ _ _) => eapply nz_push_cont_k
  | |- nz _ _ _ _ (causality_inc _ _) => unfold causality_inc; apply nz_upd_thread_k; [intros ?; reflexivity|]
  | |- nz _ _ _ _ (set_caus _ _ _) => unfold set_caus; apply nz_upd_thread_k; [intros ?; reflexivity|]
  | |- nz _ _ _ _ (set_slot ?E _ _ _) => apply (nz_same_k _ _ _ _ E); [reflexivity|reflexivity|reflexivity|]
  | |- nz _ _ _ _ (threads_unpark _ _ _) => apply nz_threads_unpark_k
  | |- nz _ _ _ _ (fold_left _ _ _) => apply nz_fold_unpark_k
  | |- nz _ _ _ _ (ex_set_path ?E _) => apply (nz_same_k _ _ _ _ E); [reflexivity|reflexivity|reflexivity|]
  | |- nz _ _ _ _ (ex_set_active ?E _) => apply (nz_same_k _ _ _ _ E); [reflexivity|reflexivity|reflexivity|]
  | |- nz _ _ _ _ (ex_set_seqcst ?E _) => apply (nz_same_k _ _ _ _ E); [reflexivity|reflexivity|reflexivity|]
  | |- nz _ _ _ _ (ex_set_spawned ?E _) => apply (nz_same_k _ _ _ _ E); [reflexivity|reflexivity|reflexivity|]
  | |- nz _ _ _ _ (ex_set_joined ?E _) => apply (nz_same_k _ _ _ _ E); [reflexivity|reflexivity|reflexivity|]
  | |- nz _ _ _ _ (ex_set_log ?E _) => apply (nz_same_k _ _ _ _ E); [reflexivity|reflexivity|reflexivity|]
  | |- nz _ _ _ _ (ex_set_lazy ?E _) => apply (nz_same_k _ _ _ _ E); [reflexivity|reflexivity|reflexivity|]
  | |- nz _ _ _ _ (upd_hobj ?E _ _) => apply (nz_same_k _ _ _ _ E); [reflexivity|reflexivity|reflexivity|]
  | |- nz _ _ _ _ (ex_set_objects ?e (e_objects ?e ++ _)) =>
      apply nz_append_objects_k; [repeat constructor|]
  | |- nz _ _ _ _ (ex_set_threads ?e (e_threads ?e ++ [_])) =>
      eapply nz_append_thread_k; [first [apply fromb_new|apply fromb_new_w]|]
  | |- nz _ _ _ _ (upd_object _ _ _) => apply nz_upd_object_k; [intros ?; left; reflexivity|]
  | |- nz _ _ _ _ (upd_thread _ _ _) => apply nz_upd_thread_k; [intros ?; reflexivity|]
  | |- nz _ _ _ _ (map_others _ _ _ _) => apply nz_map_others_k; [intros ?; reflexivity|]
  end.

Ltac zclose :=
  cbn [res_exec]; unfold nzres; eexists; eexists; split;
  [repeat zclose_step
  |split; [reflexivity|first [intros _; reflexivity|let H := fresh in intros H; discriminate H]]].

Ltac zstep :=
  match goal with
  | |- context [choose_store ?e ?s] =>
      let H := fresh "Hfr" in
      pose proof (choose_store_fr e s) as H;
      destruct (choose_store e s) as [? [?|?]]; cbn [fst] in H
  | |- context [match ?x with _ => _ end] =>
      lazymatch x with
      | context [match _ with _ => _ end] => fail
      | _ => destruct x eqn:?
      end
  end; cbv beta iota.

Ltac nz_tac :=
  cbn [exec_micro]; unfold lift_path, mbind, load_post; cbv beta iota;
  repeat zstep; zclose.

Lemma exec_micro_nz e me m :
  special m = false -> nzres e me m (res_exec (exec_micro e me m)).
Proof.
  intros Hs. destruct m; try discriminate Hs; clear Hs.
  all: nz_tac.
Qed.

(* ================================================================== *)
(* 7. One step of Scheduler::run preserves the invariant               *)
(* ================================================================== *)

Lemma thr_ok_clean g c :
  clean c -> (forall i, gcount GMutex i g <= 1) -> (forall i, gcount GWrite i g <= 1) -> thr_ok (g, c).
Proof.
  intros Hc H1 H2. destruct (clean_phase c Hc) as (Hw & _ & Hi & Hn).
  unfold thr_ok. cbn [fst snd]. repeat split; auto.
  - intros m H. destruct (Hn m H).
  - intros m H. destruct (Hi m H).
Qed.

Lemma HO_upd (O : list (option lockst)) j F me gc gc' :
  (forall i x, i <> j -> nth_error O i = Some (Some x) -> ostep me i gc gc' x x) ->
  (forall x x', nth_error O j = Some x -> F x = Some x' ->
     exists x0, x = Some x0 /\ ostep me j gc gc' x0 x') ->
  forall i x', nth_error (list_upd O j F) i = Some (Some x') ->
    exists x, nth_error O i = Some (Some x) /\ ostep me i gc gc' x x'.
Proof.
  intros Hfr Hj i x' H. destruct (Nat.eq_dec j i) as [<-|Hne].
  - rewrite nth_error_list_upd_same in H. destruct (nth_error O j) as [x|] eqn:Hx; [|discriminate H].
    cbn in H. injection H as H. destruct (Hj x x' eq_refl H) as (x0 & -> & Hs). eauto.
  - rewrite nth_error_list_upd_other in H by exact Hne. exists x'. split; [exact H|].
    apply Hfr; [congruence|exact H].
Qed.

Lemma remove_last_guard_facts g k0 m g' :
  remove_last_guard g k0 m = Some g' ->
  (forall k i, In (k, i) g' -> In (k, i) g) /\
  (forall k i, (k, i) <> (k0, m) -> In (k, i) g -> In (k, i) g') /\
  (forall k i, gcount k i g' <= gcount k i g) /\
  gcount k0 m g = S (gcount k0 m g').
Proof.
  intros H. pose proof (remove_last_guard_spec g k0 m) as Hs. rewrite H in Hs.
  destruct Hs as (g1 & g2 & -> & ->). repeat split.
  - intros k i Hin. apply in_app_iff in Hin. apply in_app_iff. cbn [In]. tauto.
  - intros k i Hne Hin. apply in_app_iff in Hin. apply in_app_iff. cbn [In] in Hin.
    destruct Hin as [Hin|[Hin|Hin]]; [tauto|congruence|tauto].
  - intros k i. rewrite gcount_mid. lia.
  - rewrite gcount_mid, gcount_single. destruct (gk_dec (k0, m) (k0, m)); [lia|congruence].
Qed.

Lemma In_remove_last_guard g k m : In (k, m) g -> exists g', remove_last_guard g k m = Some g'.
Proof.
  intros Hin. pose proof (remove_last_guard_spec g k m) as Hs.
  destruct (remove_last_guard g k m) as [g'|]; [eauto|]. destruct (Hs Hin).
Qed.

Lemma any_guard_false e k r :
  any_guard e k r = false ->
  forall t gt, nth_error (absT e) t = Some gt -> ~ In (k, r) (fst gt).
Proof.
  intros H t gt Ht Hin. rewrite absT_nth in Ht.
  destruct (nth_error (e_threads e) t) as [th|] eqn:Hth; [|discriminate Ht]. injection Ht as <-.
  unfold any_guard in H.
  assert (Hex : existsb (fun t0 => existsb (fun g0 => gkind_eqb (fst g0) k && Nat.eqb (snd g0) r) (t_guards t0))
                        (e_threads e) = true).
  { apply existsb_exists. exists th. split; [eapply nth_error_In, Hth|].
    apply existsb_exists. exists (k, r). split; [exact Hin|]. cbn [fst snd].
    apply andb_true_iff. split; [apply gkind_eqb_eq; reflexivity|apply Nat.eqb_refl]. }
  congruence.
Qed.

Section Step.
  Variables (e : exec) (me : nat) (g : list (gkind * nat)) (x : micro) (rest : list micro).
  Variables (e1 : exec) (t1 : thread).
  Hypothesis Hinv : excl_inv e.
  Hypothesis Hme : nth_error (absT e) me = Some (g, x :: rest).
  Hypothesis HT1 : absT e1 = list_upd (absT e) me (fun _ => (g, rest)).
  Hypothesis HO1 : absO e1 = absO e.
  Hypothesis HB1 : e_bodies e1 = e_bodies e.
  Hypothesis Ht1 : get_thread e1 me = Some t1.
  Hypothesis Hg1 : t_guards t1 = g.

  Let c := x :: rest.

  Lemma Hthr : thr_ok (g, c).
  Proof. destruct Hinv as [[HT _] _]. exact (HT me _ Hme). Qed.

  Lemma Hme1 : nth_error (absT e1) me = Some (g, rest).
  Proof. rewrite HT1, nth_error_list_upd_same, Hme. reflexivity. Qed.

  Lemma guards_T1 t gt :
    nth_error (absT e) t = Some gt ->
    exists gt1, nth_error (absT e1) t = Some gt1 /\ fst gt1 = fst gt.
  Proof.
    intros H. rewrite HT1. destruct (Nat.eq_dec me t) as [<-|Hne].
    - rewrite nth_error_list_upd_same, Hme. rewrite Hme in H. injection H as <-.
      eexists. split; reflexivity.
    - rewrite nth_error_list_upd_other by exact Hne. eauto.
  Qed.

  Lemma Hholds k m : holds_guard e1 me k m = true <-> In (k, m) g.
  Proof. rewrite <- Hg1. apply holds_guard_In, Ht1. Qed.

  Lemma Hmtx m l : nth_error (absO e) m = Some (Some (LkM l)) -> mtx_ok (absT e) m l.
  Proof. destruct Hinv as [(_ & HO & _) _]. intros H. exact (HO m _ H). Qed.

  Lemma Hrw r l : nth_error (absO e) r = Some (Some (LkR l)) -> rw_ok (absT e) r l.
  Proof. destruct Hinv as [(_ & HO & _) _]. intros H. exact (HO r _ H). Qed.

  Lemma Hcnt : (forall i, gcount GMutex i g <= 1) /\ (forall i, gcount GWrite i g <= 1).
  Proof. destruct Hthr as (_ & _ & _ & H1 & H2). split; assumption. Qed.

  (* the general finishing lemma *)
  Lemma finish gc' nw e' :
    absT e' = list_upd (absT e1) me (fun _ => gc') ++ nw ->
    e_bodies e' = e_bodies e1 ->
    thr_ok gc' -> Forall fresh nw ->
    newg_ok (absT e) (g, c) gc' ->
    (forall i x', nth_error (absO e') i = Some (Some x') ->
       exists x0, nth_error (absO e) i = Some (Some x0) /\ ostep me i (g, c) gc' x0 x') ->
    excl_inv e'.
  Proof.
    intros HT' HB' Hok Hnw Hng HO'. destruct Hinv as [HI HBd]. split; [|rewrite HB', HB1; exact HBd].
    rewrite HT', HT1, list_upd_twice. eapply INV_step; eassumption.
  Qed.

  (* a step that leaves the locks alone *)
  Lemma step_nz pre nw e' :
    is_dyn x = false -> nz e1 me pre nw e' -> clean pre -> (is_skip x = true -> pre = []) ->
    excl_inv e'.
  Proof.
    intros Hd (HT' & Hnw & HO' & HB') Hpre Hsk.
    assert (Hc' : wfc (pre ++ rest) /\
                  (forall m, released (pre ++ rest) m <-> released c m) /\
                  (forall m, inwaker (pre ++ rest) m <-> inwaker c m) /\
                  (forall m, needg (pre ++ rest) m -> needg c m)).
    { destruct Hthr as (Hw & _). cbn [snd] in Hw.
      destruct (is_skip x) eqn:Hs.
      - rewrite (Hsk eq_refl). cbn [app]. unfold c, wfc, released, inwaker, needg in *.
        rewrite (skipc_skip _ _ Hs) in *. repeat split; auto.
      - pose proof (wfc_head_clean _ _ Hs Hd Hw) as Hr.
        pose proof (plain_head x rest Hs Hd) as Hp.
        destruct (clean_phase _ (clean_app _ _ Hpre Hr)) as (H1 & H2 & H3 & H4).
        split; [exact H1|]. split; [|split].
        + intros m. destruct (Hp m) as (Hq & _). split; [intros H; destruct (H2 m H)|intros H; destruct (Hq H)].
        + intros m. destruct (Hp m) as (_ & Hq & _). split; [intros H; destruct (H3 m H)|intros H; destruct (Hq H)].
        + intros m H. destruct (H4 m H). }
    destruct Hc' as (Hw' & Hrel & Hiw & Hng).
    apply (finish (g, pre ++ rest) nw).
    - rewrite HT'. f_equal. apply list_upd_const with (x := (g, rest)). exact Hme1.
    - exact HB'.
    - destruct Hthr as (_ & H2 & H3 & H4 & H5). unfold thr_ok, hasg in *. cbn [fst snd] in *.
      split; [exact Hw'|]. split; [|split; [|split; assumption]].
      + intros m H. apply H2, Hng, H.
      + intros m H. apply H3, Hiw, H.
    - rewrite Forall_forall in *. intros gc Hgc. destruct (Hnw gc Hgc) as [Hf Hs].
      split; [exact Hf|]. apply Hs. rewrite HB1. destruct Hinv as [_ HBd]. exact HBd.
    - apply newg_ok_sub. intros k r _ H. exact H.
    - intros i x' Hi. exists x'. rewrite HO1 in HO'. split; [apply HO', Hi|].
      assert (Ha : act (g, c) i <-> act (g, pre ++ rest) i).
      { unfold act, hasg. cbn [fst snd]. rewrite (Hrel i), (Hiw i). tauto. }
      destruct x' as [l|l]; cbn [ostep].
      + left. split; [reflexivity|exact Ha].
      + left. unfold hasg. cbn [fst]. tauto.
  Qed.

  Lemma step_mutex m gc' F e' :
    absT e' = list_upd (absT e1) me (fun _ => gc') -> e_bodies e' = e_bodies e1 ->
    absO e' = list_upd (absO e1) m F ->
    thr_ok gc' ->
    (forall k i, k <> GMutex -> (In (k, i) g <-> In (k, i) (fst gc'))) ->
    (forall i, i <> m -> (act (g, c) i <-> act gc' i)) ->
    (forall x0 x', nth_error (absO e) m = Some x0 -> F x0 = Some x' ->
       exists y, x0 = Some y /\ ostep me m (g, c) gc' y x') ->
    excl_inv e'.
  Proof.
    intros HT' HB' HO' Hok Hg Ha Hm. apply (finish gc' []); auto.
    - rewrite app_nil_r. exact HT'.
    - apply newg_ok_sub. intros k r Hk H. apply (Hg k r Hk), H.
    - rewrite HO', HO1. apply HO_upd; [|exact Hm].
      intros i y Hne _. destruct y as [l|l]; cbn [ostep]; left.
      + split; [reflexivity|apply Ha, Hne].
      + split; [reflexivity|]. unfold hasg. cbn [fst].
        pose proof (Hg GWrite i) as H1. pose proof (Hg GRead i) as H2.
        split; [apply H1; discriminate|apply H2; discriminate].
  Qed.

  Lemma step_rw r gc' F e' :
    absT e' = list_upd (absT e1) me (fun _ => gc') -> e_bodies e' = e_bodies e1 ->
    absO e' = list_upd (absO e1) r F ->
    thr_ok gc' -> newg_ok (absT e) (g, c) gc' ->
    (forall i, act (g, c) i <-> act gc' i) ->
    (forall k i, i <> r -> (In (k, i) g <-> In (k, i) (fst gc'))) ->
    (forall x0 x', nth_error (absO e) r = Some x0 -> F x0 = Some x' ->
       exists y, x0 = Some y /\ ostep me r (g, c) gc' y x') ->
    excl_inv e'.
  Proof.
    intros HT' HB' HO' Hok Hng Ha Hg Hm. apply (finish gc' []); auto.
    - rewrite app_nil_r. exact HT'.
    - rewrite HO', HO1. apply HO_upd; [|exact Hm].
      intros i y Hne _. destruct y as [l|l]; cbn [ostep]; left.
      + split; [reflexivity|apply Ha].
      + split; [reflexivity|]. unfold hasg. cbn [fst].
        pose proof (Hg GWrite i Hne) as H1. pose proof (Hg GRead i Hne) as H2. tauto.
  Qed.

  Lemma demote_ostep m gc' :
    act (g, c) m -> ~ act gc' m ->
    (forall k, k <> GMutex -> (In (k, m) g <-> In (k, m) (fst gc'))) ->
    forall x0 x', demote x0 = Some x' -> exists y, x0 = Some y /\ ostep me m (g, c) gc' y x'.
  Proof.
    intros Ha Hna Hg x0 x' H. destruct x0 as [[l|l]|]; cbn [demote] in H; [| |discriminate H];
      injection H as <-; eexists; (split; [reflexivity|]); cbn [ostep].
    - right; right. auto.
    - left. split; [reflexivity|]. unfold hasg. cbn [fst].
      pose proof (Hg GWrite) as H1. pose proof (Hg GRead) as H2.
      split; [apply H1; discriminate|apply H2; discriminate].
  Qed.

  (* dropping the guard (k0, m) when the continuation stays ordinary *)
  Lemma drop_facts k0 m g' c' :
    plain c -> clean c' -> remove_last_guard g k0 m = Some g' ->
    thr_ok (g', c') /\
    (forall k i, (k, i) <> (k0, m) -> (In (k, i) g <-> In (k, i) g')) /\
    (forall i, (GMutex, i) <> (k0, m) -> (act (g, c) i <-> act (g', c') i)) /\
    (gcount k0 m g <= 1 -> ~ In (k0, m) g') /\
    In (k0, m) g.
  Proof.
    intros Hp Hc' Hr. destruct (remove_last_guard_facts _ _ _ _ Hr) as (F1 & F2 & F3 & F4).
    destruct Hcnt as [C1 C2].
    assert (Hio : forall k i, (k, i) <> (k0, m) -> (In (k, i) g <-> In (k, i) g')).
    { intros k i Hne. split; [apply F2, Hne|apply F1]. }
    split; [|split; [exact Hio|split; [|split]]].
    - apply thr_ok_clean; [exact Hc'| |]; intros i.
      + eapply Nat.le_trans; [apply F3|apply C1].
      + eapply Nat.le_trans; [apply F3|apply C2].
    - intros i Hne. rewrite (act_plain g c i Hp), (act_plain g' c' i (clean_plain _ Hc')). apply Hio, Hne.
    - intros Hle. apply gcount_zero. lia.
    - apply gcount_In. lia.
  Qed.

  (* ---- MUnlock / the mutex case of MReleaseAll ---- *)
  Lemma step_unlock_gen m c' e' :
    plain c -> clean c' -> In (GMutex, m) g ->
    absT e' = list_upd (absT e1) me (fun _ => (fst (delg GMutex m (g, rest)), c')) ->
    e_bodies e' = e_bodies e1 -> absO e' = list_upd (absO e1) m demote ->
    excl_inv e'.
  Proof.
    intros Hp Hc' Hin HT' HB' HO'.
    destruct (In_remove_last_guard _ _ _ Hin) as (g' & Hr).
    destruct (drop_facts GMutex m g' c' Hp Hc' Hr) as (D1 & D2 & D3 & D4 & _).
    destruct Hcnt as [C1 _].
    apply (step_mutex m (g', c') demote); auto.
    - rewrite HT'. unfold delg. cbn [fst snd]. rewrite Hr. reflexivity.
    - intros k i Hk. cbn [fst]. apply D2. congruence.
    - intros i Hne. apply D3. congruence.
    - intros x0 x' _. apply demote_ostep.
      + apply (act_plain g c m Hp), Hin.
      + rewrite (act_plain g' c' m (clean_plain _ Hc')). apply D4, C1.
      + intros k Hk. cbn [fst]. apply D2. congruence.
  Qed.

  Lemma Hwfc : wfc c.
  Proof. destruct Hthr as (Hw & _). exact Hw. Qed.

  Lemma Hrest_clean : is_skip x = false -> is_dyn x = false -> clean rest.
  Proof. intros Hs Hd. exact (wfc_head_clean x rest Hs Hd Hwfc). Qed.

  Lemma Hplain : is_skip x = false -> is_dyn x = false -> plain c.
  Proof. intros Hs Hd. exact (plain_head x rest Hs Hd). Qed.

  Lemma absT_e1_const : absT e1 = list_upd (absT e1) me (fun _ => (g, rest)).
  Proof. symmetry. apply list_upd_id. intros y Hy. rewrite Hme1 in Hy. congruence. Qed.

  Lemma step_frame gc' e' :
    absT e' = list_upd (absT e1) me (fun _ => gc') -> e_bodies e' = e_bodies e1 ->
    absO e' = absO e1 -> thr_ok gc' ->
    (forall i, act (g, c) i <-> act gc' i) ->
    (forall k i, In (k, i) g <-> In (k, i) (fst gc')) ->
    excl_inv e'.
  Proof.
    intros HT' HB' HO' Hok Ha Hg. apply (finish gc' []); auto.
    - rewrite app_nil_r. exact HT'.
    - apply newg_ok_sub. intros k r _ H. apply (Hg k r), H.
    - rewrite HO', HO1. intros i y Hi. exists y. split; [exact Hi|].
      destruct y as [l|l]; cbn [ostep]; left.
      + split; [reflexivity|apply Ha].
      + split; [reflexivity|]. unfold hasg. cbn [fst].
        pose proof (Hg GWrite i). pose proof (Hg GRead i). tauto.
  Qed.

  Lemma step_pop_log r e' :
    is_skip x = false -> is_dyn x = false -> e' = log_op e1 me r -> excl_inv e'.
  Proof.
    intros Hs Hd ->. apply (step_nz [] []); [exact Hd| |reflexivity|reflexivity].
    apply nz_log_op_k, nz_refl.
  Qed.

  (* ---- MUnlock ---- *)
  Lemma step_MUnlock m e' : x = MUnlock m -> exec_micro e1 me x = MOk e' -> excl_inv e'.
  Proof.
    intros Hx H. assert (Hs : is_skip x = false) by (rewrite Hx; reflexivity).
    assert (Hd : is_dyn x = false) by (rewrite Hx; reflexivity).
    rewrite Hx in H. cbn [exec_micro] in H.
    destruct (holds_guard e1 me GMutex m) eqn:Hh; injection H as H.
    - apply Hholds in Hh.
      destruct (release_lock_abs (drop_guard e1 me GMutex m) me m) as (R1 & R2 & R3).
      apply (step_unlock_gen m rest); auto using Hplain, Hrest_clean.
      + rewrite <- H, absT_log_op, R1, absT_drop_guard. rewrite (list_upd_const _ _ _ _ Hme1). reflexivity.
      + rewrite <- H, bodies_log_op, R2. reflexivity.
      + rewrite <- H, absO_log_op, R3. reflexivity.
    - eapply step_pop_log; eauto.
  Qed.

  (* ---- MLockPost ---- *)
  Lemma step_lock_ok m e' :
    plain c -> clean rest -> nth_error (absO e) m = Some (Some (LkM None)) ->
    absT e' = list_upd (absT e1) me (addg GMutex m) -> e_bodies e' = e_bodies e1 ->
    absO e' = list_upd (absO e1) m (fun _ => Some (LkM (Some me))) ->
    excl_inv e'.
  Proof.
    intros Hp Hcr Hn HT' HB' HO'.
    destruct (Hmtx m None Hn) as [_ HB]. destruct Hcnt as [C1 C2].
    assert (Hnin : ~ In (GMutex, m) g).
    { intros Hin. apply (act_plain g c m Hp) in Hin. discriminate (HB me _ Hme Hin). }
    assert (Hio : forall k i, (k, i) <> (GMutex, m) -> (In (k, i) g <-> In (k, i) (g ++ [(GMutex, m)]))).
    { intros k i Hne. rewrite in_app_iff. cbn [In]. intuition congruence. }
    apply (step_mutex m (g ++ [(GMutex, m)], rest) (fun _ => Some (LkM (Some me)))); auto.
    - rewrite HT'. rewrite (list_upd_const _ _ _ _ Hme1). reflexivity.
    - apply thr_ok_clean; [exact Hcr| |]; intros i; rewrite gcount_app, gcount_single.
      + destruct (gk_dec (GMutex, m) (GMutex, i)) as [Heq|Hne].
        * injection Heq as <-. apply gcount_zero in Hnin. lia.
        * pose proof (C1 i). lia.
      + destruct (gk_dec (GMutex, m) (GWrite, i)) as [Heq|Hne]; [discriminate Heq|].
        pose proof (C2 i). lia.
    - intros k i Hk. cbn [fst]. apply Hio. congruence.
    - intros i Hne. rewrite (act_plain g c i Hp), (act_plain _ rest i (clean_plain _ Hcr)).
      apply Hio. congruence.
    - intros x0 x' Hx0 Hx'. rewrite Hn in Hx0. injection Hx0 as <-. injection Hx' as <-.
      eexists. split; [reflexivity|]. cbn [ostep]. right; left. split; [reflexivity|]. split; [reflexivity|].
      apply (act_plain _ rest m (clean_plain _ Hcr)). apply in_app_iff. right. left. reflexivity.
  Qed.

  Lemma step_MLockPost m mode e' : x = MLockPost m mode -> exec_micro e1 me x = MOk e' -> excl_inv e'.
  Proof.
    intros Hx H. rewrite Hx in H. cbn [exec_micro] in H.
    destruct (post_acquire e1 me m) as [e2 ok] eqn:Hpa.
    destruct (post_acquire_abs _ _ _ _ _ Hpa) as (P1 & P2 & P3 & P4).
    destruct ok.
    - destruct (P3 eq_refl) as [Pn PO]. rewrite HO1 in Pn.
      destruct mode.
      + assert (Hs : is_skip x = false) by (rewrite Hx; reflexivity).
        assert (Hd : is_dyn x = false) by (rewrite Hx; reflexivity).
        injection H as H. apply (step_lock_ok m); auto using Hplain, Hrest_clean.
        * rewrite <- H, absT_log_op, absT_push_guard, P1. reflexivity.
        * rewrite <- H, bodies_log_op. exact P2.
        * rewrite <- H, absO_log_op. exact PO.
      + assert (Hs : is_skip x = false) by (rewrite Hx; reflexivity).
        assert (Hd : is_dyn x = false) by (rewrite Hx; reflexivity).
        injection H as H. apply (step_lock_ok m); auto using Hplain, Hrest_clean.
        * rewrite <- H, absT_log_op, absT_push_guard, P1. reflexivity.
        * rewrite <- H, bodies_log_op. exact P2.
        * rewrite <- H, absO_log_op. exact PO.
      + injection H as H.
        pose proof Hwfc as Hw. destruct Hthr as (_ & Hng & _ & C1 & C2). cbn [fst snd] in *.
        unfold c, wfc in Hw. rewrite Hx in Hw. cbn [skipc is_skip wfc_hd] in Hw.
        assert (Hin : In (GMutex, m) g).
        { apply Hng. unfold c, needg. rewrite Hx. cbn [skipc is_skip needg_hd]. reflexivity. }
        destruct (clean_phase rest Hw) as (_ & Hnr & Hni & _).
        apply (step_mutex m (g, rest) (fun _ => Some (LkM (Some me)))); auto.
        * rewrite <- H, absT_log_op, P1. apply absT_e1_const.
        * rewrite <- H, bodies_log_op. exact P2.
        * rewrite <- H, absO_log_op. exact PO.
        * apply thr_ok_clean; assumption.
        * reflexivity.
        * intros i Hne. unfold act, hasg, c. cbn [fst snd]. unfold released at 1, inwaker at 1.
          rewrite Hx. cbn [skipc is_skip released_hd inwaker_hd].
          pose proof (Hnr i). pose proof (Hni i). intuition congruence.
        * intros x0 x' Hx0 Hx'. rewrite Pn in Hx0. injection Hx0 as <-. injection Hx' as <-.
          eexists. split; [reflexivity|]. cbn [ostep]. right; left. split; [reflexivity|]. split; [reflexivity|].
          left. split; [exact Hin|apply Hnr].
    - rewrite (P4 eq_refl) in *. destruct mode; try discriminate H. injection H as H.
      eapply step_pop_log; [rewrite Hx; reflexivity|rewrite Hx; reflexivity|symmetry; exact H].
  Qed.

  (* pushing a guard of another kind than GMutex, ordinary continuations *)
  Lemma push_facts k r :
    k <> GMutex -> plain c -> clean rest -> (k = GWrite -> ~ In (GWrite, r) g) ->
    thr_ok (g ++ [(k, r)], rest) /\
    (forall i, act (g, c) i <-> act (g ++ [(k, r)], rest) i) /\
    (forall k' i, (k', i) <> (k, r) -> (In (k', i) g <-> In (k', i) (g ++ [(k, r)]))).
  Proof.
    intros Hk Hp Hcr Hw. destruct Hcnt as [C1 C2].
    assert (Hio : forall k' i, (k', i) <> (k, r) -> (In (k', i) g <-> In (k', i) (g ++ [(k, r)]))).
    { intros k' i Hne. rewrite in_app_iff. cbn [In]. intuition congruence. }
    split; [|split; [|exact Hio]].
    - apply thr_ok_clean; [exact Hcr| |]; intros i; rewrite gcount_app, gcount_single.
      + destruct (gk_dec (k, r) (GMutex, i)) as [Heq|Hne]; [congruence|]. pose proof (C1 i). lia.
      + destruct (gk_dec (k, r) (GWrite, i)) as [Heq|Hne].
        * injection Heq as -> <-. apply gcount_zero in Hw; [lia|reflexivity].
        * pose proof (C2 i). lia.
    - intros i. rewrite (act_plain g c i Hp), (act_plain _ rest i (clean_plain _ Hcr)).
      apply Hio. congruence.
  Qed.

  (* ---- MReadPost ---- *)
  Lemma step_MReadPost r try e' : x = MReadPost r try -> exec_micro e1 me x = MOk e' -> excl_inv e'.
  Proof.
    intros Hx H. assert (Hs : is_skip x = false) by (rewrite Hx; reflexivity).
    assert (Hd : is_dyn x = false) by (rewrite Hx; reflexivity).
    rewrite Hx in H. cbn [exec_micro] in H.
    destruct (post_acquire_read e1 me r) as [e2 ok] eqn:Hpa.
    destruct (post_acquire_read_abs _ _ _ _ _ Hpa) as (P1 & P2 & P3 & P4).
    destruct ok; cbn [andb] in H.
    - destruct (any_guard e2 GWrite r) eqn:Hag; [discriminate H|].
      destruct (P3 eq_refl) as (l & l' & Pn & PO & Pw & Pw' & Prs). rewrite HO1 in Pn.
      assert (H' : e' = log_op (push_guard e2 me GRead r) me (if try then RBool true else RUnit)).
      { destruct try; injection H as <-; reflexivity. }
      clear H. subst e'.
      assert (Hnw : forall t gt, nth_error (absT e) t = Some gt -> ~ In (GWrite, r) (fst gt)).
      { intros t gt Ht. destruct (guards_T1 t gt Ht) as (gt1 & Ht1' & <-).
        rewrite <- P1 in Ht1'. exact (any_guard_false _ _ _ Hag t gt1 Ht1'). }
      destruct (push_facts GRead r) as (F1 & F2 & F3); auto using Hplain, Hrest_clean; try discriminate.
      apply (step_rw r (g ++ [(GRead, r)], rest) (fun _ => Some (LkR l'))); auto.
      + rewrite absT_log_op, absT_push_guard, P1. rewrite (list_upd_const _ _ _ _ Hme1). reflexivity.
      + rewrite bodies_log_op. exact P2.
      + rewrite absO_log_op. exact PO.
      + intros k i Hk Hin. cbn [fst] in *. apply in_app_iff in Hin. destruct Hin as [Hin|[Heq|[]]]; [left; exact Hin|].
        injection Heq as <- <-. right. split.
        * intros t gt Ht. split; [exact (Hnw t gt Ht)|discriminate].
        * intros k' Hk' Hin'. apply in_app_iff in Hin'. destruct Hin' as [Hin'|[Heq|[]]]; [|congruence].
          destruct k'; [destruct (Hk' eq_refl)|reflexivity|destruct (Hnw me _ Hme Hin')].
      + intros k i Hne. cbn [fst]. apply F3. congruence.
      + intros x0 x' Hx0 Hx'. rewrite Pn in Hx0. injection Hx0 as <-. injection Hx' as <-.
        eexists. split; [reflexivity|]. cbn [ostep]. right; right; right.
        split; [exact Pw|]. split; [exact Pw'|]. unfold hasg. cbn [fst]. split; [apply F3; discriminate|].
        intros t Ht. destruct (Nat.eq_dec t me) as [->|Hne].
        * left. split; [reflexivity|]. apply in_app_iff. right. left. reflexivity.
        * right. split; [exact Hne|]. destruct (Prs t Ht); [contradiction|assumption].
    - rewrite (P4 eq_refl) in *. destruct try; try discriminate H. injection H as H.
      eapply step_pop_log; eauto.
  Qed.

  (* ---- MWritePost ---- *)
  Lemma step_MWritePost r try e' : x = MWritePost r try -> exec_micro e1 me x = MOk e' -> excl_inv e'.
  Proof.
    intros Hx H. assert (Hs : is_skip x = false) by (rewrite Hx; reflexivity).
    assert (Hd : is_dyn x = false) by (rewrite Hx; reflexivity).
    rewrite Hx in H. cbn [exec_micro] in H.
    destruct (post_acquire_write e1 me r) as [e2 ok] eqn:Hpa.
    destruct (post_acquire_write_abs _ _ _ _ _ Hpa) as (P1 & P2 & P3 & P4).
    destruct ok; cbn [andb] in H.
    - destruct (any_guard e2 GRead r) eqn:Hagr; [discriminate H|].
      destruct (any_guard e2 GWrite r) eqn:Hagw; [discriminate H|]. cbn [orb] in H.
      destruct (P3 eq_refl) as (Pn & PO). rewrite HO1 in Pn.
      assert (H' : e' = log_op (push_guard e2 me GWrite r) me (if try then RBool true else RUnit)).
      { destruct try; injection H as <-; reflexivity. }
      clear H. subst e'.
      assert (Hnw : forall k t gt, k <> GMutex -> nth_error (absT e) t = Some gt -> ~ In (k, r) (fst gt)).
      { intros k t gt Hk Ht. destruct (guards_T1 t gt Ht) as (gt1 & Ht1' & <-).
        rewrite <- P1 in Ht1'.
        destruct k; [destruct (Hk eq_refl)|exact (any_guard_false _ _ _ Hagr t gt1 Ht1')
                    |exact (any_guard_false _ _ _ Hagw t gt1 Ht1')]. }
      assert (Hnin : ~ In (GWrite, r) g) by (apply (Hnw GWrite me _ ltac:(discriminate) Hme)).
      destruct (push_facts GWrite r) as (F1 & F2 & F3); auto using Hplain, Hrest_clean; try discriminate.
      apply (step_rw r (g ++ [(GWrite, r)], rest) (fun _ => Some (LkR (Some (RLWrite me))))); auto.
      + rewrite absT_log_op, absT_push_guard, P1. rewrite (list_upd_const _ _ _ _ Hme1). reflexivity.
      + rewrite bodies_log_op. exact P2.
      + rewrite absO_log_op. exact PO.
      + intros k i Hk Hin. cbn [fst] in *. apply in_app_iff in Hin. destruct Hin as [Hin|[Heq|[]]]; [left; exact Hin|].
        injection Heq as <- <-. right. split.
        * intros t gt Ht. split; [|intros _]; apply (Hnw _ t gt); try discriminate; exact Ht.
        * intros k' Hk' Hin'. apply in_app_iff in Hin'. destruct Hin' as [Hin'|[Heq|[]]]; [|congruence].
          destruct (Hnw k' me _ Hk' Hme Hin').
      + intros k i Hne. cbn [fst]. apply F3. congruence.
      + intros x0 x' Hx0 Hx'. rewrite Pn in Hx0. injection Hx0 as <-. injection Hx' as <-.
        eexists. split; [reflexivity|]. cbn [ostep]. right; left.
        split; [reflexivity|]. split; [reflexivity|]. unfold hasg. cbn [fst].
        apply in_app_iff. right. left. reflexivity.
    - rewrite (P4 eq_refl) in *. destruct try; try discriminate H. injection H as H.
      eapply step_pop_log; eauto.
  Qed.

  (* ---- MUnread / the read case of MReleaseAll ---- *)
  Lemma step_unread_gen r c' e2 e' :
    plain c -> clean c' -> In (GRead, r) g ->
    release_read (drop_guard e1 me GRead r) me r = MOk e2 ->
    absT e' = list_upd (absT e2) me (fun _ => (fst (delg GRead r (g, rest)), c')) ->
    e_bodies e' = e_bodies e2 -> absO e' = absO e2 ->
    excl_inv e'.
  Proof.
    intros Hp Hc' Hin Hrr HT' HB' HO'.
    destruct (release_read_abs _ _ _ _ Hrr) as (R1 & R2 & rs & l' & Rn & RO & Rw & Rrs).
    change (absO (drop_guard e1 me GRead r)) with (absO e1) in *. rewrite HO1 in Rn.
    destruct (In_remove_last_guard _ _ _ Hin) as (g' & Hr).
    destruct (drop_facts GRead r g' c' Hp Hc' Hr) as (D1 & D2 & D3 & D4 & _).
    apply (step_rw r (g', c') (fun _ => Some (LkR l'))); auto.
    - rewrite HT', R1, absT_drop_guard, list_upd_twice. unfold delg. cbn [fst snd]. rewrite Hr. reflexivity.
    - rewrite HB', R2. reflexivity.
    - rewrite HO'. exact RO.
    - apply newg_ok_sub. intros k i _ Hi. cbn [fst] in *.
      destruct (remove_last_guard_facts _ _ _ _ Hr) as (F1 & _). apply F1, Hi.
    - intros i. apply D3. discriminate.
    - intros k i Hne. cbn [fst]. apply D2. congruence.
    - intros x0 x' Hx0 Hx'. rewrite Rn in Hx0. injection Hx0 as <-. injection Hx' as <-.
      eexists. split; [reflexivity|]. cbn [ostep]. right; right; right.
      split; [cbn; tauto|]. split; [exact Rw|]. unfold hasg. cbn [fst]. split; [apply D2; discriminate|].
      intros t Ht. right. cbn [readers]. apply Rrs, Ht.
  Qed.

  Lemma step_MUnread r e' : x = MUnread r -> exec_micro e1 me x = MOk e' -> excl_inv e'.
  Proof.
    intros Hx H. assert (Hs : is_skip x = false) by (rewrite Hx; reflexivity).
    assert (Hd : is_dyn x = false) by (rewrite Hx; reflexivity).
    rewrite Hx in H. cbn [exec_micro] in H.
    destruct (holds_guard e1 me GRead r) eqn:Hh.
    - apply Hholds in Hh. unfold mbind in H.
      destruct (release_read (drop_guard e1 me GRead r) me r) as [e2|e2 pn] eqn:Hrr; [|discriminate H].
      injection H as H. subst e'.
      apply (step_unread_gen r rest e2); auto using Hplain, Hrest_clean.
      + rewrite absT_log_op. destruct (release_read_abs _ _ _ _ Hrr) as (R1 & _).
        rewrite R1, absT_drop_guard, list_upd_twice. rewrite (list_upd_const _ _ _ _ Hme1). reflexivity.
      + apply bodies_log_op.
      + apply absO_log_op.
    - injection H as H. eapply step_pop_log; eauto.
  Qed.

  (* ---- MUnwrite / the write case of MReleaseAll ---- *)
  Lemma step_unwrite_gen r c' e2 e' :
    plain c -> clean c' -> In (GWrite, r) g ->
    release_write (drop_guard e1 me GWrite r) me r = MOk e2 ->
    absT e' = list_upd (absT e2) me (fun _ => (fst (delg GWrite r (g, rest)), c')) ->
    e_bodies e' = e_bodies e2 -> absO e' = absO e2 ->
    excl_inv e'.
  Proof.
    intros Hp Hc' Hin Hrr HT' HB' HO'.
    destruct (release_write_abs _ _ _ _ Hrr) as (R1 & R2 & l & Rn & RO).
    change (absO (drop_guard e1 me GWrite r)) with (absO e1) in *. rewrite HO1 in Rn.
    destruct (In_remove_last_guard _ _ _ Hin) as (g' & Hr).
    destruct (drop_facts GWrite r g' c' Hp Hc' Hr) as (D1 & D2 & D3 & D4 & _).
    destruct Hcnt as [_ C2].
    apply (step_rw r (g', c') (fun _ => Some (LkR None))); auto.
    - rewrite HT', R1, absT_drop_guard, list_upd_twice. unfold delg. cbn [fst snd]. rewrite Hr. reflexivity.
    - rewrite HB', R2. reflexivity.
    - rewrite HO'. exact RO.
    - apply newg_ok_sub. intros k i _ Hi. cbn [fst] in *.
      destruct (remove_last_guard_facts _ _ _ _ Hr) as (F1 & _). apply F1, Hi.
    - intros i. apply D3. discriminate.
    - intros k i Hne. cbn [fst]. apply D2. congruence.
    - intros x0 x' Hx0 Hx'. rewrite Rn in Hx0. injection Hx0 as <-. injection Hx' as <-.
      eexists. split; [reflexivity|]. cbn [ostep]. right; right; left.
      unfold hasg. cbn [fst]. split; [exact Hin|]. split; [reflexivity|]. apply D4, C2.
  Qed.

  Lemma step_MUnwrite r e' : x = MUnwrite r -> exec_micro e1 me x = MOk e' -> excl_inv e'.
  Proof.
    intros Hx H. assert (Hs : is_skip x = false) by (rewrite Hx; reflexivity).
    assert (Hd : is_dyn x = false) by (rewrite Hx; reflexivity).
    rewrite Hx in H. cbn [exec_micro] in H.
    destruct (holds_guard e1 me GWrite r) eqn:Hh.
    - apply Hholds in Hh. unfold mbind in H.
      destruct (release_write (drop_guard e1 me GWrite r) me r) as [e2|e2 pn] eqn:Hrr; [|discriminate H].
      injection H as H. subst e'.
      apply (step_unwrite_gen r rest e2); auto using Hplain, Hrest_clean.
      + rewrite absT_log_op. destruct (release_write_abs _ _ _ _ Hrr) as (R1 & _).
        rewrite R1, absT_drop_guard, list_upd_twice. rewrite (list_upd_const _ _ _ _ Hme1). reflexivity.
      + apply bodies_log_op.
      + apply absO_log_op.
    - injection H as H. eapply step_pop_log; eauto.
  Qed.

  (* ---- MWait: the Condvar::wait sequence is pushed ---- *)
  Lemma step_MWait cv m e' : x = MWait cv m -> exec_micro e1 me x = MOk e' -> excl_inv e'.
  Proof.
    intros Hx H. assert (Hs : is_skip x = false) by (rewrite Hx; reflexivity).
    assert (Hd : is_dyn x = false) by (rewrite Hx; reflexivity).
    rewrite Hx in H. cbn [exec_micro] in H.
    destruct (holds_guard e1 me GMutex m) eqn:Hh; injection H as H.
    - apply Hholds in Hh. pose proof (Hrest_clean Hs Hd) as Hcr. pose proof (Hplain Hs Hd) as Hp.
      destruct Hcnt as [C1 C2]. subst e'.
      match goal with |- excl_inv (push_cont _ _ ?ms) => set (ws := ms) end.
      apply (step_frame (g, ws ++ rest)).
      + rewrite absT_push_cont. rewrite (list_upd_const _ _ _ _ Hme1). reflexivity.
      + reflexivity.
      + reflexivity.
      + unfold thr_ok, hasg, wfc, needg, inwaker. cbn [fst snd ws app skipc is_skip wfc_hd needg_hd inwaker_hd].
        split; [eexists; split; [reflexivity|exact Hcr]|].
        split; [intros i <-; exact Hh|]. split; [intros i []|]. split; assumption.
      + intros i. rewrite (act_plain g c i Hp). unfold act, hasg, released, inwaker.
        cbn [fst snd ws app skipc is_skip released_hd inwaker_hd]. tauto.
      + reflexivity.
    - eapply step_pop_log; eauto.
  Qed.

  (* ---- MCvWait: the waiter gives the mutex up and keeps its guard ---- *)
  Lemma step_MCvWait cv m e' : x = MCvWait cv m -> exec_micro e1 me x = MOk e' -> excl_inv e'.
  Proof.
    intros Hx H. rewrite Hx in H. cbn [exec_micro] in H.
    destruct (nth_error (e_objects e1) cv) as [[]|] eqn:Hcv; try discriminate H. injection H as H.
    pose proof Hwfc as Hw. destruct Hthr as (_ & Hng & _ & C1 & C2). cbn [fst snd] in *.
    unfold c, wfc in Hw. rewrite Hx in Hw. cbn [skipc is_skip wfc_hd] in Hw.
    destruct Hw as (r' & Hrest & Hcr').
    assert (Hin : In (GMutex, m) g).
    { apply Hng. unfold c, needg. rewrite Hx. cbn [skipc is_skip needg_hd]. reflexivity. }
    match type of H with release_lock ?E _ _ = _ => set (e1' := E) in * end.
    destruct (release_lock_abs e1' me m) as (R1 & R2 & R3).
    assert (HO1' : absO e1' = absO e1).
    { unfold e1'. eapply absO_upd_same; [exact Hcv|reflexivity]. }
    assert (Hph : wfc rest /\ (forall i, released rest i <-> m = i) /\ (forall i, ~ inwaker rest i) /\
                  (forall i, needg rest i <-> m = i)).
    { rewrite Hrest. unfold wfc, released, inwaker, needg.
      cbn [skipc is_skip wfc_hd released_hd inwaker_hd needg_hd]. repeat split; auto. }
    destruct Hph as (W1 & W2 & W3 & W4).
    apply (step_mutex m (g, rest) demote).
    - rewrite <- H, R1. apply absT_e1_const.
    - rewrite <- H, R2. reflexivity.
    - rewrite <- H, R3, HO1'. reflexivity.
    - unfold thr_ok, hasg. cbn [fst snd]. split; [exact W1|].
      split; [intros i Hi; apply W4 in Hi; subst i; exact Hin|].
      split; [intros i Hi; destruct (W3 i Hi)|]. split; assumption.
    - reflexivity.
    - intros i Hne. unfold act, hasg, c. cbn [fst snd]. unfold released at 1, inwaker at 1.
      rewrite Hx. cbn [skipc is_skip released_hd inwaker_hd].
      pose proof (W2 i). pose proof (W3 i). intuition congruence.
    - intros x0 x' _. apply demote_ostep.
      + left. split; [exact Hin|]. unfold c, released. rewrite Hx. cbn. tauto.
      + intros [[_ Hn]|Hi]; [apply Hn, W2; reflexivity|exact (W3 m Hi)].
      + reflexivity.
  Qed.

  (* ---- MWakerRelease ---- *)
  Lemma step_MWakerRelease w e' : x = MWakerRelease w -> exec_micro e1 me x = MOk e' -> excl_inv e'.
  Proof.
    intros Hx H. rewrite Hx in H. cbn [exec_micro] in H. injection H as H.
    pose proof Hwfc as Hw. destruct Hthr as (_ & _ & Hnw & C1 & C2). cbn [fst snd] in *.
    unfold c, wfc in Hw. rewrite Hx in Hw. cbn [skipc is_skip wfc_hd] in Hw.
    assert (Hiw : inwaker c w) by (unfold c, inwaker; rewrite Hx; cbn; reflexivity).
    pose proof (Hnw w Hiw) as Hnin. unfold hasg in Hnin. cbn [fst] in Hnin.
    destruct (clean_phase rest Hw) as (_ & Hnr & Hni & _).
    destruct (release_lock_abs e1 me w) as (R1 & R2 & R3).
    apply (step_mutex w (g, rest) demote).
    - rewrite <- H, R1. apply absT_e1_const.
    - rewrite <- H, R2. reflexivity.
    - rewrite <- H, R3. reflexivity.
    - apply thr_ok_clean; assumption.
    - reflexivity.
    - intros i Hne. unfold act, hasg, c. cbn [fst snd]. unfold released at 1, inwaker at 1.
      rewrite Hx. cbn [skipc is_skip released_hd inwaker_hd].
      pose proof (Hnr i). pose proof (Hni i). intuition congruence.
    - intros x0 x' _. apply demote_ostep.
      + right. exact Hiw.
      + rewrite (act_plain g rest w (clean_plain _ Hw)). exact Hnin.
      + reflexivity.
  Qed.

  (* ---- MBoRegister: AtomicWaker::register takes the waker lock ---- *)
  Lemma step_waker_acq w ms e2 e' :
    plain c -> clean rest ->
    nth_error (absO e) w = Some (Some (LkM None)) ->
    wfc (ms ++ rest) -> (forall i, inwaker (ms ++ rest) i <-> w = i) ->
    (forall i, ~ released (ms ++ rest) i) -> (forall i, ~ needg (ms ++ rest) i) ->
    absT e2 = absT e1 -> e_bodies e2 = e_bodies e1 ->
    absO e2 = list_upd (absO e1) w (fun _ => Some (LkM (Some me))) ->
    e' = push_cont e2 me ms -> excl_inv e'.
  Proof.
    intros Hp Hcr Hn W1 W2 W3 W4 HT2 HB2 HO2 ->.
    destruct (Hmtx w None Hn) as [_ HB]. destruct Hcnt as [C1 C2].
    assert (Hnin : ~ In (GMutex, w) g).
    { intros Hin. apply (act_plain g c w Hp) in Hin. discriminate (HB me _ Hme Hin). }
    apply (step_mutex w (g, ms ++ rest) (fun _ => Some (LkM (Some me)))).
    - rewrite absT_push_cont, HT2. rewrite (list_upd_const _ _ _ _ Hme1). reflexivity.
    - exact HB2.
    - exact HO2.
    - unfold thr_ok, hasg. cbn [fst snd]. split; [exact W1|].
      split; [intros i Hi; destruct (W4 i Hi)|].
      split; [intros i Hi; apply W2 in Hi; subst i; exact Hnin|]. split; assumption.
    - reflexivity.
    - intros i Hne. rewrite (act_plain g c i Hp). unfold act, hasg. cbn [fst snd].
      pose proof (W2 i). pose proof (W3 i). intuition congruence.
    - intros x0 x' Hx0 Hx'. rewrite Hn in Hx0. injection Hx0 as <-. injection Hx' as <-.
      eexists. split; [reflexivity|]. cbn [ostep]. right; left. split; [reflexivity|]. split; [reflexivity|].
      right. apply W2. reflexivity.
  Qed.

  Lemma step_MBoRegister a v w n k e' :
    x = MBoRegister a v w n k -> exec_micro e1 me x = MOk e' -> excl_inv e'.
  Proof.
    intros Hx H. assert (Hs : is_skip x = false) by (rewrite Hx; reflexivity).
    assert (Hd : is_dyn x = false) by (rewrite Hx; reflexivity).
    pose proof (Hrest_clean Hs Hd) as Hcr. pose proof (Hplain Hs Hd) as Hp.
    rewrite Hx in H. cbn [exec_micro] in H.
    destruct (post_acquire e1 me w) as [e2 ok] eqn:Hpa.
    destruct (post_acquire_abs _ _ _ _ _ Hpa) as (P1 & P2 & P3 & P4).
    destruct ok.
    - destruct (P3 eq_refl) as [Pn PO]. rewrite HO1 in Pn.
      destruct (clean_phase rest Hcr) as (Q1 & Q2 & Q3 & Q4).
      destruct (ho_waker (get_h e2 w)) as [[n' k']|]; injection H as H; symmetry in H;
        (eapply (step_waker_acq w); [exact Hp|exact Hcr|exact Pn| | | | | | | |exact H]);
        try exact P1; try exact P2; try exact PO;
        unfold wfc, inwaker, released, needg;
        cbn [app skipc is_skip wfc_hd inwaker_hd released_hd needg_hd]; try tauto.
      all: apply clean_cons; split; [reflexivity|]; apply clean_cons; split; [reflexivity|]; exact Hcr.
    - rewrite (P4 eq_refl) in *. injection H as H.
      eapply (step_nz _ []);
        [exact Hd|rewrite <- H; eapply nz_push_cont_k'; [reflexivity|apply nz_refl]
        |reflexivity|intros Hk; rewrite Hs in Hk; discriminate Hk].
  Qed.

  (* ---- MWakeTake: the waker lock is taken and released in one micro-op ---- *)
  Lemma step_MWakeTake w wake e' : x = MWakeTake w wake -> exec_micro e1 me x = MOk e' -> excl_inv e'.
  Proof.
    intros Hx H. assert (Hs : is_skip x = false) by (rewrite Hx; reflexivity).
    assert (Hd : is_dyn x = false) by (rewrite Hx; reflexivity).
    rewrite Hx in H. cbn [exec_micro] in H.
    destruct (post_acquire e1 me w) as [e2 ok] eqn:Hpa.
    destruct (post_acquire_abs _ _ _ _ _ Hpa) as (P1 & P2 & P3 & P4).
    destruct ok; cbn [negb] in H; [|discriminate H].
    destruct (P3 eq_refl) as [Pn PO].
    match type of H with context [release_lock ?E me w] => set (e3 := E) in * end.
    destruct (release_lock_abs e3 me w) as (R1 & R2 & R3).
    assert (Hfr : fr e1 (release_lock e3 me w)).
    { split; [rewrite R1; exact P1|]. split; [|rewrite R2; exact P2].
      rewrite R3. change (absO e3) with (absO e2). rewrite PO, list_upd_twice.
      intros i y Hi. destruct (Nat.eq_dec w i) as [<-|Hne].
      - rewrite nth_error_list_upd_same, Pn in Hi. cbn in Hi. congruence.
      - rewrite nth_error_list_upd_other in Hi by exact Hne. exact Hi. }
    pose proof (nz_fr_k _ _ _ _ _ _ Hfr (nz_refl e1 me)) as Hnz.
    destruct (ho_waker (get_h e2 w)) as [[n k]|]; [destruct wake|]; injection H as H; rewrite <- H.
    - eapply (step_nz _ []);
        [exact Hd|eapply nz_push_cont_k'; [reflexivity|exact Hnz]
        |reflexivity|intros Hk; rewrite Hs in Hk; discriminate Hk].
    - eapply (step_nz _ []);
        [exact Hd|eapply nz_push_cont_k'; [reflexivity|exact Hnz]
        |reflexivity|intros Hk; rewrite Hs in Hk; discriminate Hk].
    - eapply (step_nz [] []); [exact Hd|apply nz_log_op_k; exact Hnz|reflexivity|reflexivity].
  Qed.

  (* ---- MReleaseAll: the guards still held at the end of the thread ---- *)
  Lemma step_MReleaseAll e' : x = MReleaseAll -> exec_micro e1 me x = MOk e' -> excl_inv e'.
  Proof.
    intros Hx H. assert (Hs : is_skip x = false) by (rewrite Hx; reflexivity).
    assert (Hd : is_dyn x = false) by (rewrite Hx; reflexivity).
    pose proof (Hrest_clean Hs Hd) as Hcr. pose proof (Hplain Hs Hd) as Hp.
    assert (Hc' : clean (MReleaseAll :: rest)) by (apply clean_cons; split; [reflexivity|exact Hcr]).
    rewrite Hx in H. cbn [exec_micro] in H. rewrite Ht1, Hg1 in H.
    destruct (rev g) as [|[k m] tl] eqn:Hrev.
    - injection H as <-. eapply (step_nz [] []); [exact Hd|apply nz_refl|reflexivity|reflexivity].
    - assert (Hin : In (k, m) g) by (apply in_rev; rewrite Hrev; left; reflexivity).
      destruct k.
      + injection H as H.
        destruct (release_lock_abs (drop_guard e1 me GMutex m) me m) as (R1 & R2 & R3).
        apply (step_unlock_gen m (MReleaseAll :: rest)); auto.
        * rewrite <- H, absT_push_cont, R1, absT_drop_guard, list_upd_twice.
          rewrite (list_upd_const _ _ _ _ Hme1). reflexivity.
        * rewrite <- H. exact R2.
        * rewrite <- H. exact R3.
      + unfold mbind in H.
        destruct (release_read (drop_guard e1 me GRead m) me m) as [e2|e2 pn] eqn:Hrr; [|discriminate H].
        injection H as H. subst e'.
        apply (step_unread_gen m (MReleaseAll :: rest) e2); auto.
        rewrite absT_push_cont. destruct (release_read_abs _ _ _ _ Hrr) as (R1 & _).
        rewrite R1, absT_drop_guard, !list_upd_twice. rewrite (list_upd_const _ _ _ _ Hme1). reflexivity.
      + unfold mbind in H.
        destruct (release_write (drop_guard e1 me GWrite m) me m) as [e2|e2 pn] eqn:Hrr; [|discriminate H].
        injection H as H. subst e'.
        apply (step_unwrite_gen m (MReleaseAll :: rest) e2); auto.
        rewrite absT_push_cont. destruct (release_write_abs _ _ _ _ Hrr) as (R1 & _).
        rewrite R1, absT_drop_guard, !list_upd_twice. rewrite (list_upd_const _ _ _ _ Hme1). reflexivity.
  Qed.

  (* ---- all micro-operations ---- *)
  Theorem step_excl_inv e' : exec_micro e1 me x = MOk e' -> excl_inv e'.
  Proof.
    intros H. destruct (special x) eqn:Hsp.
    - pose (y := x). assert (Hx : x = y) by reflexivity. clearbody y.
      rewrite Hx in Hsp. destruct y; try discriminate Hsp.
      + eapply step_MLockPost; eauto.
      + eapply step_MUnlock; eauto.
      + eapply step_MReadPost; eauto.
      + eapply step_MWritePost; eauto.
      + eapply step_MUnread; eauto.
      + eapply step_MUnwrite; eauto.
      + eapply step_MWait; eauto.
      + eapply step_MCvWait; eauto.
      + eapply step_MBoRegister; eauto.
      + eapply step_MWakerRelease; eauto.
      + eapply step_MWakeTake; eauto.
      + eapply step_MReleaseAll; eauto.
    - pose proof (exec_micro_nz e1 me x Hsp) as (pre & nw & Hnz & Hpre & Hsk).
      rewrite H in Hnz. cbn [res_exec] in Hnz.
      apply (step_nz pre nw); auto.
      pose (y := x). assert (Hx : x = y) by reflexivity. clearbody y. rewrite Hx in *.
      destruct y; try reflexivity; discriminate Hsp.
  Qed.
End Step.

(* ================================================================== *)
(* 8. The initial state, executions, Scheduler::run                    *)
(* ================================================================== *)

Lemma expand_clean b pc i : clean (expand b pc i).
Proof.
  destruct i; try reflexivity.
  (* ILazyGet k: [MLazyGetY k] for the yielding static, [MLazyGet k] otherwise; no lock micro-op *)
  cbn [expand]. match goal with |- context [Nat.eqb ?k 2] => destruct (Nat.eqb k 2) end; reflexivity.
Qed.

Lemma expand_body_clean b l : forall pc, clean (expand_body_from b pc l).
Proof.
  induction l as [|i t IH]; intros pc; cbn [expand_body_from]; [reflexivity|].
  apply clean_cons. split; [reflexivity|]. apply clean_app; [apply expand_clean|apply IH].
Qed.

Lemma expand_prog_clean_from bs : forall k,
  Forall clean (mapi_from k (fun b l => expand_body_from b 0 l ++ exit_seq b) bs).
Proof.
  induction bs as [|l t IH]; intros k; cbn [mapi_from].
  - constructor.
  - constructor; [|apply IH]. apply clean_app; [apply expand_body_clean|].
    destruct k; reflexivity.
Qed.

Lemma expand_prog_clean p : Forall clean (expand_prog p).
Proof. apply expand_prog_clean_from. Qed.

Definition unlocked (o : object) : Prop :=
  oproj o = None \/ oproj o = Some (LkM None) \/ oproj o = Some (LkR None).

Lemma create_objects_unlocked ds c r : forall os,
  create_objects ds c r = inl os -> Forall unlocked os.
Proof.
  induction ds as [|d t IH]; intros os H; cbn [create_objects] in H.
  - injection H as <-. constructor.
  - destruct (create_object d c r) as [o|pn] eqn:Ho; [|discriminate H].
    destruct (create_objects t c r) as [os'|pn]; [|discriminate H].
    injection H as <-. constructor; [|apply IH; reflexivity].
    unfold unlocked. destruct d; cbn [create_object] in Ho;
      try (injection Ho as <-; cbn; tauto).
Qed.

Theorem init_excl_inv p pa : excl_inv (init_exec p pa).
Proof.
  split; [|apply expand_prog_clean].
  assert (Hc : clean (nth 0 (expand_prog p) [])).
  { pose proof (expand_prog_clean p) as H. rewrite Forall_forall in H.
    destruct (nth_in_or_default 0 (expand_prog p) []) as [Hin| ->]; [apply H, Hin|reflexivity]. }
  assert (Hf : forall t gc, nth_error (absT (init_exec p pa)) t = Some gc -> fresh gc).
  { intros t gc H. unfold absT, init_exec in H. cbn [e_threads map] in H.
    destruct t as [|t]; [|destruct t; discriminate H]. injection H as <-. split; [reflexivity|exact Hc]. }
  split; [|split].
  - intros t gc H. apply (fresh_ok gc (Hf t gc H)).
  - intros i y Hi. rewrite absO_nth in Hi. unfold init_exec in Hi. cbn [e_objects] in Hi.
    assert (Hu : Forall unlocked (match create_objects (p_decls p) vv_new vv_new with inl os => os | inr _ => [] end)).
    { destruct (create_objects (p_decls p) vv_new vv_new) eqn:Hco; [|constructor].
      eapply create_objects_unlocked, Hco. }
    destruct (nth_error _ i) as [o|] eqn:Ho; [|discriminate Hi]. cbn in Hi.
    rewrite Forall_forall in Hu. pose proof (Hu o (nth_error_In _ _ Ho)) as [H0|[H0|H0]];
      rewrite H0 in Hi; try discriminate Hi; injection Hi as <-; cbn [obj_ok].
    + split; [intros t Ht; discriminate Ht|].
      intros t gc Hg Ha. destruct (fresh_ok gc (Hf t gc Hg)) as (_ & _ & Hn). destruct (Hn i Ha).
    + split; [intros t Ht; discriminate Ht|]. split; [|intros rs t Ht; discriminate Ht].
      intros t gc Hg Hh. destruct (fresh_ok gc (Hf t gc Hg)) as (_ & Hn & _). destruct (Hn _ _ Hh).
  - intros a b ga gb r k Ha _ Hia. destruct (fresh_ok ga (Hf a ga Ha)) as (_ & Hn & _).
    destruct (Hn _ _ Hia).
Qed.

(* one step of Scheduler::run: the active thread's next micro-operation *)
Theorem run_step_excl_inv e me t m rest e' :
  excl_inv e ->
  nth_error (e_threads e) me = Some t -> t_cont t = m :: rest ->
  exec_micro (upd_thread e me (fun t => th_set_cont t rest)) me m = MOk e' ->
  excl_inv e'.
Proof.
  intros Hinv Ht Hc Hx.
  apply (step_excl_inv e me (t_guards t) m rest (upd_thread e me (fun t => th_set_cont t rest))
           (th_set_cont t rest)); auto.
  - rewrite absT_nth, Ht. unfold tproj. cbn [option_map]. rewrite Hc. reflexivity.
  - rewrite (absT_upd_thread e me _ (fun gc => (fst gc, rest))) by reflexivity.
    apply list_upd_const with (x := (t_guards t, m :: rest)).
    rewrite absT_nth, Ht. unfold tproj. cbn [option_map]. rewrite Hc. reflexivity.
  - rewrite get_thread_upd_thread_same. unfold get_thread. rewrite Ht. reflexivity.
Qed.

Theorem steps_excl_inv e e' : steps e e' -> excl_inv e -> excl_inv e'.
Proof.
  intros H. induction H as [e|e me t m rest e1 e2 Ha Ht Hc Hx Hs IH]; intros Hinv; [exact Hinv|].
  apply IH. eapply run_step_excl_inv; eassumption.
Qed.

(* Execution::schedule itself (every scheduling point goes through it) *)
Theorem schedule_excl_inv e : excl_inv e -> excl_inv (res_exec (fst (schedule e))).
Proof.
  intros [HI HB]. pose proof (nz_schedule_k e 0 [] [] e (nz_refl e 0)) as (H1 & _ & H3 & H4).
  rewrite app_nil_r in H1. rewrite list_upd_id in H1 by (intros y _; apply pushc_nil).
  split; [|rewrite H4; exact HB]. rewrite H1. destruct HI as (HT & HO & HW).
  split; [exact HT|]. split; [|exact HW].
  intros i y Hi. apply HO, H3, Hi.
Qed.

Definition not_panic (r : iter_end) : Prop := r = IterDone \/ r = IterFuel.

Theorem run_excl_inv_from fuel e : excl_inv e -> not_panic (snd (run fuel e)) -> excl_inv (fst (run fuel e)).
Proof.
  intros Hinv Hr. destruct (run fuel e) as [e' r] eqn:Hrun. cbn [fst snd] in *.
  eapply steps_excl_inv; [eapply run_steps; eassumption|exact Hinv].
Qed.

Theorem run_excl_inv fuel p pa :
  not_panic (snd (run fuel (init_exec p pa))) -> excl_inv (fst (run fuel (init_exec p pa))).
Proof. apply run_excl_inv_from, init_excl_inv. Qed.

(* ================================================================== *)
(* 9. The invariant in terms of the state, and the corollaries         *)
(* ================================================================== *)

Lemma released_dec c m : {released c m} + {~ released c m}.
Proof.
  unfold released. destruct (skipc c) as [|y r]; [right; intros []|].
  destruct y; try (right; intros H; exact H). destruct mode; try (right; intros H; exact H).
  cbn [released_hd]. apply Nat.eq_dec.
Qed.

(* [released c m]: up to scheduling points and park, the next micro-operation
   of the continuation is the pending re-acquisition of m by Condvar::wait *)
Lemma released_spec c m :
  released c m <->
  exists pre r, c = pre ++ MLockPost m LMReacquire :: r /\ forallb is_skip pre = true.
Proof.
  unfold released. induction c as [|y t IH]; cbn [skipc].
  - split; [intros []|]. intros (pre & r & H & _). destruct pre; discriminate H.
  - destruct (is_skip y) eqn:Hs.
    + rewrite IH. split.
      * intros (pre & r & -> & Hp). exists (y :: pre), r. split; [reflexivity|]. cbn. rewrite Hs. exact Hp.
      * intros (pre & r & H & Hp). destruct pre as [|z pre].
        -- injection H as -> _. discriminate Hs.
        -- injection H as _ ->. exists pre, r. split; [reflexivity|]. cbn in Hp.
           apply andb_true_iff in Hp. tauto.
    + split.
      * intros H. exists [], t. split; [|reflexivity].
        destruct y; try destruct H. destruct mode; try destruct H. reflexivity.
      * intros (pre & r & H & Hp). destruct pre as [|z pre].
        -- injection H as -> _. reflexivity.
        -- injection H as <- _. cbn in Hp. rewrite Hs in Hp. discriminate Hp.
Qed.

Lemma get_mutex_absO e m s : get_mutex e m = Some s -> nth_error (absO e) m = Some (Some (LkM (mx_lock s))).
Proof. intros H. apply get_mutex_nth in H. rewrite absO_nth, H. reflexivity. Qed.

Lemma get_rw_absO e r s : get_rw e r = Some s -> nth_error (absO e) r = Some (Some (LkR (rw_lock s))).
Proof. intros H. apply get_rw_nth in H. rewrite absO_nth, H. reflexivity. Qed.

Lemma get_thread_absT e t th : get_thread e t = Some th -> nth_error (absT e) t = Some (t_guards th, t_cont th).
Proof. intros H. unfold get_thread in H. rewrite absT_nth, H. reflexivity. Qed.

Lemma absT_get_thread e t gc :
  nth_error (absT e) t = Some gc -> exists th, get_thread e t = Some th /\ gc = (t_guards th, t_cont th).
Proof.
  intros H. rewrite absT_nth in H. unfold get_thread. destruct (nth_error (e_threads e) t) as [th|]; [|discriminate H].
  injection H as <-. eauto.
Qed.

(* a thread is inside mutex m: it owns a guard of m and is not waiting on a
   Condvar with it, or it is in the critical section of AtomicWaker::register *)
Definition inside (th : thread) (m : nat) : Prop :=
  (In (GMutex, m) (t_guards th) /\ ~ released (t_cont th) m) \/ inwaker (t_cont th) m.

(* ---- the mutex part of the invariant ---- *)
Theorem mutex_lock_owner e m s t :
  excl_inv e -> get_mutex e m = Some s -> mx_lock s = Some t ->
  exists th, get_thread e t = Some th /\ inside th m.
Proof.
  intros [(_ & HO & _) _] Hg Hl. destruct (HO m _ (get_mutex_absO _ _ _ Hg)) as [HA _].
  destruct (HA t Hl) as (gc & Hgc & Ha). destruct (absT_get_thread _ _ _ Hgc) as (th & Hth & ->).
  exists th. split; [exact Hth|exact Ha].
Qed.

Theorem mutex_inside_owner e m s t th :
  excl_inv e -> get_mutex e m = Some s -> get_thread e t = Some th -> inside th m ->
  mx_lock s = Some t.
Proof.
  intros [(_ & HO & _) _] Hg Hth Hin. destruct (HO m _ (get_mutex_absO _ _ _ Hg)) as [_ HB].
  exact (HB t _ (get_thread_absT _ _ _ Hth) Hin).
Qed.

Theorem mutex_guard_once e t th m :
  excl_inv e -> get_thread e t = Some th -> gcount GMutex m (t_guards th) <= 1.
Proof.
  intros [[HT _] _] Hth. destruct (HT t _ (get_thread_absT _ _ _ Hth)) as (_ & _ & _ & H & _). apply H.
Qed.

Theorem wait_keeps_guard e t th m :
  excl_inv e -> get_thread e t = Some th -> released (t_cont th) m -> In (GMutex, m) (t_guards th).
Proof.
  intros [[HT _] _] Hth Hr. destruct (HT t _ (get_thread_absT _ _ _ Hth)) as (_ & H & _).
  apply (H m). unfold needg, released in *. cbn [snd].
  destruct (skipc (t_cont th)) as [|y r]; [destruct Hr|]. destruct y; try destruct Hr.
  destruct mode; try destruct Hr. reflexivity.
Qed.

(* MUTUAL EXCLUSION, as a state invariant *)
Theorem mutex_exclusion_inv e m s a b ta tb :
  excl_inv e -> get_mutex e m = Some s -> a <> b ->
  get_thread e a = Some ta -> get_thread e b = Some tb ->
  In (GMutex, m) (t_guards ta) -> In (GMutex, m) (t_guards tb) ->
  released (t_cont ta) m \/ released (t_cont tb) m.
Proof.
  intros Hinv Hg Hne Ha Hb Hia Hib.
  destruct (released_dec (t_cont ta) m) as [Hra|Hra]; [left; exact Hra|].
  destruct (released_dec (t_cont tb) m) as [Hrb|Hrb]; [right; exact Hrb|].
  exfalso. apply Hne.
  pose proof (mutex_inside_owner e m s a ta Hinv Hg Ha (or_introl (conj Hia Hra))) as H1.
  pose proof (mutex_inside_owner e m s b tb Hinv Hg Hb (or_introl (conj Hib Hrb))) as H2.
  congruence.
Qed.

(* at most one thread is inside a mutex *)
Theorem mutex_inside_unique e m s a b ta tb :
  excl_inv e -> get_mutex e m = Some s ->
  get_thread e a = Some ta -> get_thread e b = Some tb ->
  inside ta m -> inside tb m -> a = b.
Proof.
  intros Hinv Hg Ha Hb Hia Hib.
  pose proof (mutex_inside_owner e m s a ta Hinv Hg Ha Hia) as H1.
  pose proof (mutex_inside_owner e m s b tb Hinv Hg Hb Hib) as H2. congruence.
Qed.

(* ... in every reachable state of every program under every schedule (path) *)
Theorem mutex_exclusion fuel p pa e r m s a b ta tb :
  run fuel (init_exec p pa) = (e, r) -> not_panic r ->
  get_mutex e m = Some s -> a <> b ->
  get_thread e a = Some ta -> get_thread e b = Some tb ->
  In (GMutex, m) (t_guards ta) -> In (GMutex, m) (t_guards tb) ->
  released (t_cont ta) m \/ released (t_cont tb) m.
Proof.
  intros Hrun Hr. pose proof (run_excl_inv fuel p pa) as Hinv. rewrite Hrun in Hinv.
  apply mutex_exclusion_inv. exact (Hinv Hr).
Qed.

(* ---- MLockPost pushes a guard only when the mutex is free ---- *)
Theorem lock_acquire_only_when_free e me m mode e' th th' :
  exec_micro e me (MLockPost m mode) = MOk e' ->
  get_thread e me = Some th -> get_thread e' me = Some th' ->
  t_guards th' <> t_guards th ->
  exists s, get_mutex e m = Some s /\ mx_lock s = None.
Proof.
  intros H Hth Hth' Hne. cbn [exec_micro] in H.
  destruct (post_acquire e me m) as [e2 ok] eqn:Hpa. destruct ok.
  - unfold post_acquire in Hpa. destruct (get_mutex e m) as [s|]; [|discriminate Hpa].
    exists s. split; [reflexivity|]. destruct (mx_lock s); [discriminate Hpa|reflexivity].
  - exfalso. apply post_acquire_fail_id in Hpa. subst e2.
    destruct mode; try discriminate H. injection H as <-.
    apply Hne. unfold get_thread in *. rewrite e_threads_log_op in Hth'. congruence.
Qed.

(* together with the invariant: while another thread is inside m, the only
   MLockPost that does not panic is a failing try_lock, which changes nothing *)
Theorem lock_no_second_owner e me m mode e' s b tb :
  excl_inv e -> get_mutex e m = Some s -> get_thread e b = Some tb -> inside tb m -> b <> me ->
  exec_micro e me (MLockPost m mode) = MOk e' ->
  mode = LMTry /\ e' = log_op e me (RBool false).
Proof.
  intros Hinv Hg Hb Hin Hne H.
  pose proof (mutex_inside_owner e m s b tb Hinv Hg Hb Hin) as Hl.
  cbn [exec_micro] in H.
  assert (Hpa : post_acquire e me m = (e, false)).
  { unfold post_acquire. rewrite Hg, Hl. reflexivity. }
  rewrite Hpa in H. destruct mode; try discriminate H. injection H as <-. auto.
Qed.

(* ---- the rwlock part of the invariant ---- *)
Theorem rwlock_write_owner e r s t :
  excl_inv e -> get_rw e r = Some s -> rw_lock s = Some (RLWrite t) ->
  exists th, get_thread e t = Some th /\ In (GWrite, r) (t_guards th).
Proof.
  intros [(_ & HO & _) _] Hg Hl. destruct (HO r _ (get_rw_absO _ _ _ Hg)) as (HA & _).
  destruct (HA t Hl) as (gc & Hgc & Ha). destruct (absT_get_thread _ _ _ Hgc) as (th & Hth & ->).
  exists th. split; [exact Hth|exact Ha].
Qed.

Theorem rwlock_reader_has_guard e r s rs t :
  excl_inv e -> get_rw e r = Some s -> rw_lock s = Some (RLRead rs) -> In t rs ->
  exists th, get_thread e t = Some th /\ In (GRead, r) (t_guards th).
Proof.
  intros [(_ & HO & _) _] Hg Hl Hin. destruct (HO r _ (get_rw_absO _ _ _ Hg)) as (_ & _ & HC).
  destruct (HC rs t Hl Hin) as (gc & Hgc & Ha). destruct (absT_get_thread _ _ _ Hgc) as (th & Hth & ->).
  exists th. split; [exact Hth|exact Ha].
Qed.

Theorem rwlock_write_guard_owner e r s t th :
  excl_inv e -> get_rw e r = Some s -> get_thread e t = Some th -> In (GWrite, r) (t_guards th) ->
  rw_lock s = Some (RLWrite t).
Proof.
  intros [(_ & HO & _) _] Hg Hth Hin. destruct (HO r _ (get_rw_absO _ _ _ Hg)) as (_ & HB & _).
  exact (HB t _ (get_thread_absT _ _ _ Hth) Hin).
Qed.

Theorem rwlock_write_guard_once e t th r :
  excl_inv e -> get_thread e t = Some th -> gcount GWrite r (t_guards th) <= 1.
Proof.
  intros [[HT _] _] Hth. destruct (HT t _ (get_thread_absT _ _ _ Hth)) as (_ & _ & _ & _ & H). apply H.
Qed.

(* a write guard determines the lock word: no registered reader *)
Theorem rwlock_write_guard_lock_word e r s a ta :
  excl_inv e -> get_rw e r = Some s ->
  get_thread e a = Some ta -> In (GWrite, r) (t_guards ta) ->
  rw_lock s = Some (RLWrite a) /\ (forall rs, rw_lock s <> Some (RLRead rs)).
Proof.
  intros Hinv Hg Ha Hin.
  pose proof (rwlock_write_guard_owner e r s a ta Hinv Hg Ha Hin) as Hl.
  split; [exact Hl|]. intros rs Hrs. congruence.
Qed.

(* A WRITER EXCLUDES EVERYBODY ELSE, as a state invariant: a write guard of r
   never coexists with a read or write guard of r owned by another thread *)
Theorem rwlock_writer_excludes_inv e r a b ta tb :
  excl_inv e -> a <> b ->
  get_thread e a = Some ta -> get_thread e b = Some tb ->
  In (GWrite, r) (t_guards ta) ->
  ~ In (GRead, r) (t_guards tb) /\ ~ In (GWrite, r) (t_guards tb).
Proof.
  intros [(_ & _ & HW) _] Hne Ha Hb Hin.
  pose proof (get_thread_absT _ _ _ Ha) as Ha'. pose proof (get_thread_absT _ _ _ Hb) as Hb'.
  split; intros Hin'.
  - destruct (HW a b _ _ r GRead Ha' Hb' Hin Hin' ltac:(discriminate)) as [H _]. exact (Hne H).
  - destruct (HW a b _ _ r GWrite Ha' Hb' Hin Hin' ltac:(discriminate)) as [H _]. exact (Hne H).
Qed.

(* ... nor with a read guard of r owned by the same thread *)
Theorem rwlock_writer_no_own_read e r a ta :
  excl_inv e -> get_thread e a = Some ta -> In (GWrite, r) (t_guards ta) ->
  ~ In (GRead, r) (t_guards ta).
Proof.
  intros [(_ & _ & HW) _] Ha Hin Hin'. pose proof (get_thread_absT _ _ _ Ha) as Ha'.
  destruct (HW a a _ _ r GRead Ha' Ha' Hin Hin' ltac:(discriminate)) as [_ H]. discriminate H.
Qed.

Theorem rwlock_writer_excludes fuel p pa e res r a b ta tb :
  run fuel (init_exec p pa) = (e, res) -> not_panic res -> a <> b ->
  get_thread e a = Some ta -> get_thread e b = Some tb ->
  In (GWrite, r) (t_guards ta) ->
  ~ In (GRead, r) (t_guards tb) /\ ~ In (GWrite, r) (t_guards tb).
Proof.
  intros Hrun Hr. pose proof (run_excl_inv fuel p pa) as Hinv. rewrite Hrun in Hinv.
  apply rwlock_writer_excludes_inv. exact (Hinv Hr).
Qed.

(* ================================================================== *)
(* 10. Witnesses (vm_compute)                                          *)
(* ================================================================== *)

Definition xcfg : config := mkConfig 5 1000 None None None false.
Definition xstate (p : prog) (fuel : nat) : exec * iter_end :=
  run fuel (init_exec p (initial_path (p_cfg p))).
Definition guards_of (e : exec) (t : nat) : list (gkind * nat) :=
  match get_thread e t with Some th => t_guards th | None => [] end.
Definition cont_of (e : exec) (t : nat) : list micro :=
  match get_thread e t with Some th => t_cont th | None => [] end.

(* non-vacuity: main holds the mutex while thread 1 exists *)
Definition p_lock : prog :=
  mkProg xcfg [DMutex] [[ISpawn 1; ILock 0; IUnlock 0; IJoin 1]; [ILock 0; IUnlock 0]].

Example lock_held_reachable :
  let e := fst (xstate p_lock 5) in
  snd (xstate p_lock 5) = IterFuel /\
  length (e_threads e) = 2 /\
  option_map mx_lock (get_mutex e 0) = Some (Some 0) /\
  guards_of e 0 = [(GMutex, 0)] /\ guards_of e 1 = [].
Proof. vm_compute. repeat split; reflexivity. Qed.

(* non-vacuity of the Condvar clause: main waits on the condvar with mutex 0
   (it keeps its guard), thread 1 is inside the mutex: two guards of the same
   mutex, and the invariant's way out is that main has not re-acquired *)
Definition p_wait : prog :=
  mkProg xcfg [DMutex; DCondvar]
    [[ILock 0; ISpawn 1; IWait 1 0; IUnlock 0; IJoin 1]; [ILock 0; INotifyOne 1; IUnlock 0]].

Example two_guards_reachable :
  let e := fst (xstate p_wait 13) in
  snd (xstate p_wait 13) = IterFuel /\
  option_map mx_lock (get_mutex e 0) = Some (Some 1) /\
  guards_of e 0 = [(GMutex, 0)] /\ guards_of e 1 = [(GMutex, 0)] /\
  cont_of e 0 = MBranch 0 AOpaque BMutexLocked :: MLockPost 0 LMReacquire :: skipn 2 (cont_of e 0).
Proof. vm_compute. repeat split; reflexivity. Qed.

Example two_guards_released : released (cont_of (fst (xstate p_wait 13)) 0) 0.
Proof. vm_compute. reflexivity. Qed.

(* the recursive read lock: a thread that read-locks twice and drops one guard
   is no longer a registered reader (rt::RwLock keeps a SET of thread ids), the
   lock word becomes free and rt lets a writer in although the first thread
   still owns a read guard.  The std::sync::RwLock inside sync::RwLock catches
   it: "loom::RwLock state corrupt" (observed on the real code with this very
   program); in the model MWritePost fails with PanicRwCorrupt, which is what
   makes rwlock_writer_excludes hold without side condition.
     main: spawn 1; read r; read r; drop one read guard; join 1 ...
     t1:   write r
   schedule: the default one (main runs until it blocks in join, then t1). *)
Definition p_rr : prog :=
  mkProg xcfg [DRwLock]
    [[ISpawn 1; IRead 0; IRead 0; IUnread 0; IJoin 1; IUnread 0]; [IWrite 0; IUnwrite 0]].

Example recursive_read_state :
  let e := fst (xstate p_rr 16) in
  snd (xstate p_rr 16) = IterFuel /\
  option_map rw_lock (get_rw e 0) = Some None /\
  guards_of e 0 = [(GRead, 0)] /\ guards_of e 1 = [] /\
  hd MSkip (cont_of e 1) = MWritePost 0 false.
Proof. vm_compute. repeat split; reflexivity. Qed.

Example recursive_read_corrupt :
  snd (xstate p_rr 17) = IterPanic PanicRwCorrupt /\ snd (xstate p_rr 1000) = IterPanic PanicRwCorrupt.
Proof. vm_compute. split; reflexivity. Qed.

(* exec_micro alone, on a state that does not come from Scheduler::run, does
   not preserve the invariant: the hypotheses of run_step_excl_inv (the
   micro-operation is the head of the active thread's continuation) matter.
   MWakerRelease executed by a thread that is not inside AtomicWaker::register
   frees a mutex that another thread holds. *)
Example exec_micro_alone_breaks :
  let e := fst (xstate p_lock 5) in
  match exec_micro e 1 (MWakerRelease 0) with
  | MOk e' => option_map mx_lock (get_mutex e' 0) = Some None /\ guards_of e' 0 = [(GMutex, 0)] /\
              cont_of e' 0 = cont_of e 0
  | MFail _ _ => False
  end.
Proof. vm_compute. repeat split; reflexivity. Qed.

Print Assumptions init_excl_inv.
Print Assumptions run_step_excl_inv.
Print Assumptions steps_excl_inv.
Print Assumptions schedule_excl_inv.
Print Assumptions run_excl_inv.
Print Assumptions mutex_lock_owner.
Print Assumptions mutex_inside_owner.
Print Assumptions mutex_exclusion_inv.
Print Assumptions mutex_exclusion.
Print Assumptions lock_acquire_only_when_free.
Print Assumptions lock_no_second_owner.
Print Assumptions rwlock_writer_excludes_inv.
Print Assumptions rwlock_writer_excludes.
Print Assumptions rwlock_reader_has_guard.
Print Assumptions lock_held_reachable.
Print Assumptions two_guards_reachable.
Print Assumptions rwlock_write_guard_lock_word.
Print Assumptions rwlock_writer_no_own_read.
Print Assumptions recursive_read_state.
Print Assumptions recursive_read_corrupt.
Print Assumptions exec_micro_alone_breaks.
