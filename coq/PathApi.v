(* Facts about the Path API (rt/path.rs transcription in Path.v):
     Part 1  the API only appends entries and adds backtrack marks (extends),
             and keeps the stack well formed (wf_path);
     Part 2  the preemption-bound invariant c15_inv (C15);
     Part 3  non-exploring entries are frozen, exploration controls (C19).

   Deviations from the requested statements: none.  Every lemma is proved as
   stated.  Two statements were left to my choice and are fixed as follows:
     - [last_error l := nth_error l (length l - 1)]  (last element, if any);
     - "new entries inherit exploring" is one lemma per pushing function
       ([push_load_inherit_exploring], [branch_spurious_inherit_exploring],
       [branch_thread_inherit_exploring]); for the two [branch_*] functions,
       which push only when the path is traversed, the statement is the
       dichotomy  (traversed, one entry appended, its flag = exploring p)
       or (not traversed, stack unchanged);  the generic corollary
       [new_entries_inherit_exploring] covers all three at once. *)
Require Import LV.Base LV.Path LV.PathSpec.
From Coq Require Import Lia.

(* ------------------------------------------------------------------ *)
(* generic list facts                                                  *)
(* ------------------------------------------------------------------ *)

Lemma pad_to_length (A : Type) (n : nat) (d : A) (l : list A) :
  length (pad_to n d l) = n.
Proof.
  revert l; induction n as [|n IH]; intros [|h t]; cbn [pad_to length]; auto.
Qed.

Lemma pad_to_Forall (A : Type) (P : A -> Prop) (n : nat) (d : A) (l : list A) :
  P d -> Forall P l -> Forall P (pad_to n d l).
Proof.
  intros Hd; revert l; induction n as [|n IH]; intros l Hl; cbn [pad_to].
  - constructor.
  - destruct l as [|h t].
    + constructor; auto.
    + inversion Hl as [|x y Hh Ht]; subst. constructor; auto.
Qed.

Lemma list_set_length (A : Type) (l : list A) (n : nat) (x : A) :
  length (list_set l n x) = length l.
Proof.
  revert n; induction l as [|h t IH]; intros [|n]; cbn [list_set length]; auto.
Qed.

Lemma list_upd_length (A : Type) (l : list A) (n : nat) (f : A -> A) :
  length (list_upd l n f) = length l.
Proof.
  unfold list_upd. destruct (nth_error l n); auto using list_set_length.
Qed.

Lemma Forall_list_set (A : Type) (P : A -> Prop) (l : list A) (n : nat) (x : A) :
  Forall P l -> P x -> Forall P (list_set l n x).
Proof.
  intros Hl Hx; revert n; induction Hl as [|h t Hh Ht IH]; intros [|n];
    cbn [list_set]; auto.
Qed.

Lemma Forall2_refl (A : Type) (R : A -> A -> Prop) (l : list A) :
  (forall a, R a a) -> Forall2 R l l.
Proof. intros HR; induction l; constructor; auto. Qed.

Lemma Forall2_trans (A : Type) (R : A -> A -> Prop) :
  (forall a b c, R a b -> R b c -> R a c) ->
  forall l1 l2 l3, Forall2 R l1 l2 -> Forall2 R l2 l3 -> Forall2 R l1 l3.
Proof.
  intros HR l1 l2 l3 H12; revert l3.
  induction H12 as [|a b l1 l2 Hab H12 IH]; intros l3 H23;
    inversion H23; subst; constructor; eauto.
Qed.

Lemma Forall2_len (A B : Type) (R : A -> B -> Prop) (l : list A) (l' : list B) :
  Forall2 R l l' -> length l = length l'.
Proof. induction 1; cbn [length]; auto. Qed.

Lemma Forall2_list_set (A : Type) (R : A -> A -> Prop) (l : list A) (n : nat) (x y : A) :
  (forall a, R a a) -> nth_error l n = Some x -> R x y ->
  Forall2 R l (list_set l n y).
Proof.
  intros HR; revert n; induction l as [|h t IH]; intros [|n] Hn Hxy;
    cbn [list_set nth_error] in *; try discriminate.
  - injection Hn as ->. constructor; auto using Forall2_refl.
  - constructor; auto.
Qed.

Lemma nth_error_In_Forall (A : Type) (P : A -> Prop) (l : list A) (n : nat) (x : A) :
  Forall P l -> nth_error l n = Some x -> P x.
Proof.
  intros Hl Hn. rewrite Forall_forall in Hl. eauto using nth_error_In.
Qed.

(* ------------------------------------------------------------------ *)
(* thread-status lists                                                 *)
(* ------------------------------------------------------------------ *)

Definition no_pending (l : list tstat) : Prop := Forall (fun t => t <> Pending) l.

Lemma ext_t_refl t : ext_t t t.
Proof. left; reflexivity. Qed.

Lemma ext_t_trans a b c : ext_t a b -> ext_t b c -> ext_t a c.
Proof.
  intros [->|[-> ->]] [->|[Hb ->]]; try discriminate.
  - left; reflexivity.
  - right; auto.
  - right; auto.
Qed.

Lemma ext_t_explore t : ext_t t (explore_t t).
Proof. destruct t; cbn; try (left; reflexivity). right; auto. Qed.

Lemma ext_t_map_explore l : Forall2 ext_t l (map explore_t l).
Proof. induction l; cbn [map]; constructor; auto using ext_t_explore. Qed.

Lemma ext_t_list_upd_explore l n : Forall2 ext_t l (list_upd l n explore_t).
Proof.
  unfold list_upd. destruct (nth_error l n) as [x|] eqn:Hn.
  - eapply Forall2_list_set; eauto using ext_t_refl, ext_t_explore.
  - apply Forall2_refl, ext_t_refl.
Qed.

Lemma ext_t_active_index l l' :
  Forall2 ext_t l l' -> find_index is_active l = find_index is_active l'.
Proof.
  induction 1 as [|a b l l' Hab Hl IH]; cbn [find_index]; auto.
  destruct Hab as [->|[-> ->]]; rewrite IH; reflexivity.
Qed.

Lemma activate_first_yield_length l : length (activate_first_yield l) = length l.
Proof.
  induction l as [|h t IH]; cbn [activate_first_yield]; auto.
  destruct h; cbn [length]; auto.
Qed.

Lemma activate_first_yield_no_pending l :
  no_pending l -> no_pending (activate_first_yield l).
Proof.
  unfold no_pending.
  induction 1 as [|h t Hh Ht IH]; cbn [activate_first_yield]; auto.
  destruct h; constructor; auto; discriminate.
Qed.

Lemma visit_active_no_pending l : no_pending l -> no_pending (visit_active l).
Proof.
  unfold no_pending.
  induction 1 as [|h t Hh Ht IH]; cbn [visit_active]; auto.
  destruct (is_active h); constructor; auto; discriminate.
Qed.

Lemma activate_pending_no_pending l : no_pending l -> activate_pending l = None.
Proof.
  unfold no_pending.
  induction 1 as [|h t Hh Ht IH]; cbn [activate_pending]; auto.
  destruct h; cbn; try (rewrite IH; reflexivity). congruence.
Qed.

Lemma opt_nat_eqb_refl o : opt_nat_eqb o o = true.
Proof. destruct o; cbn; auto using Nat.eqb_refl. Qed.

(* ------------------------------------------------------------------ *)
(* Part 1: ext / extends / wf_path                                     *)
(* ------------------------------------------------------------------ *)

Lemma ext_inv e e' :
  ext e e' ->
  e' = e \/
  exists s th', e = ESched s /\
    e' = ESched (mkSched (s_pre s) (s_ia s) th' (s_prev s) (s_ex s)) /\
    s_ex s = true /\ Forall2 ext_t (s_threads s) th'.
Proof.
  intros H; destruct H as [e|s th' Hex Hth]; [left; reflexivity|].
  right; exists s, th'; auto.
Qed.

Lemma ext_trans a b c : ext a b -> ext b c -> ext a c.
Proof.
  intros Hab Hbc.
  destruct (ext_inv _ _ Hab) as [->|(s & th1 & -> & -> & Hex & Hth1)]; [assumption|].
  destruct (ext_inv _ _ Hbc) as [->|(s2 & th2 & Hs2 & -> & Hex2 & Hth2)]; [assumption|].
  injection Hs2 as <-. cbn [s_pre s_ia s_prev s_ex s_threads] in *.
  apply ext_sched; [assumption|].
  eapply Forall2_trans; eauto using ext_t_trans.
Qed.

Lemma ext_nonexploring e e' : ext e e' -> entry_exploring e = false -> e' = e.
Proof.
  intros H Hne.
  destruct (ext_inv _ _ H) as [->|(s & th & -> & -> & Hex & Hth)]; [reflexivity|].
  cbn [entry_exploring] in Hne. congruence.
Qed.

Lemma ext_exploring e e' : ext e e' -> entry_exploring e' = entry_exploring e.
Proof.
  intros H.
  destruct (ext_inv _ _ H) as [->|(s & th & -> & -> & Hex & Hth)]; reflexivity.
Qed.

Lemma ext_wf e e' : ext e e' -> wf_entry e -> wf_entry e'.
Proof.
  intros H Hwf.
  destruct (ext_inv _ _ H) as [->|(s & th & -> & -> & Hex & Hth)]; [assumption|].
  cbn [wf_entry s_threads] in *. rewrite <- (Forall2_len _ _ _ _ _ Hth). assumption.
Qed.

Lemma Forall2_ext_wf l l' : Forall2 ext l l' -> Forall wf_entry l -> Forall wf_entry l'.
Proof.
  induction 1 as [|a b l l' Hab Hl IH]; intros Hwf; [constructor|].
  inversion Hwf; subst. constructor; eauto using ext_wf.
Qed.

Lemma Forall2_ext_refl l : Forall2 ext l l.
Proof. apply Forall2_refl; constructor. Qed.

Lemma Forall2_ext_trans l1 l2 l3 :
  Forall2 ext l1 l2 -> Forall2 ext l2 l3 -> Forall2 ext l1 l3.
Proof. apply Forall2_trans; exact ext_trans. Qed.

Lemma extends_refl p : extends p p.
Proof.
  unfold extends; repeat split; try reflexivity.
  exists (branches p), []. rewrite app_nil_r. auto using Forall2_ext_refl.
Qed.

Lemma extends_trans p q r : extends p q -> extends q r -> extends p r.
Proof.
  intros (Hb1 & Hc1 & He1 & old1 & new1 & Hq & Hold1)
         (Hb2 & Hc2 & He2 & old2 & new2 & Hr & Hold2).
  unfold extends. repeat split; try congruence.
  rewrite Hq in Hold2.
  destruct (Forall2_app_inv_l _ _ Hold2) as (o2a & o2b & Ha & Hb & ->).
  exists o2a, (o2b ++ new2). split.
  - rewrite Hr, app_assoc. reflexivity.
  - eauto using Forall2_ext_trans.
Qed.

(* the two shapes an API call gives to the stack *)
Lemma extends_same_branches p p' :
  bound p' = bound p -> cap p' = cap p -> eos p' = eos p ->
  branches p' = branches p ->
  extends p p' /\ (wf_path p -> wf_path p').
Proof.
  intros Hb Hc He Hbr. split.
  - unfold extends; repeat split; auto.
    exists (branches p), []. rewrite app_nil_r. auto using Forall2_ext_refl.
  - unfold wf_path. rewrite Hbr, Hc. auto.
Qed.

Lemma extends_marks p p' :
  bound p' = bound p -> cap p' = cap p -> eos p' = eos p ->
  Forall2 ext (branches p) (branches p') ->
  extends p p' /\ (wf_path p -> wf_path p').
Proof.
  intros Hb Hc He Hbr. split.
  - unfold extends; repeat split; auto.
    exists (branches p'), []. rewrite app_nil_r. auto.
  - unfold wf_path. intros [Hwf Hlen]. split.
    + eauto using Forall2_ext_wf.
    + rewrite <- (Forall2_len _ _ _ _ _ Hbr), Hc. assumption.
Qed.

Lemma extends_push p p' e :
  bound p' = bound p -> cap p' = cap p -> eos p' = eos p ->
  branches p' = branches p ++ [e] ->
  path_len_ok p = true -> wf_entry e ->
  extends p p' /\ (wf_path p -> wf_path p').
Proof.
  intros Hb Hc He Hbr Hlen Hwe. split.
  - unfold extends; repeat split; auto.
    exists (branches p), [e]. auto using Forall2_ext_refl.
  - unfold wf_path. intros [Hwf _]. rewrite Hbr, Hc. split.
    + apply Forall_app; split; auto.
    + unfold path_len_ok in Hlen. apply Nat.ltb_lt in Hlen.
      rewrite app_length; cbn [length]. lia.
Qed.

Lemma explore_state_extends p p' :
  explore_state p = POk p' -> extends p p' /\ (wf_path p -> wf_path p').
Proof.
  unfold explore_state. intros H.
  destruct (skipping p); [injection H as <-; apply extends_same_branches; reflexivity|].
  destruct (exploring p); [discriminate|].
  injection H as <-. apply extends_same_branches; reflexivity.
Qed.

Lemma critical_extends p p' :
  critical p = POk p' -> extends p p' /\ (wf_path p -> wf_path p').
Proof.
  unfold critical. intros H.
  destruct (skipping p); [injection H as <-; apply extends_same_branches; reflexivity|].
  destruct (exploring p); [|discriminate].
  injection H as <-. apply extends_same_branches; reflexivity.
Qed.

Lemma skip_branch_extends p :
  extends p (skip_branch p) /\ (wf_path p -> wf_path (skip_branch p)).
Proof. apply extends_same_branches; reflexivity. Qed.

(* ---- push_load ---- *)
Lemma push_load_cases p seed p' :
  push_load p seed = POk p' ->
  path_len_ok p = true /\ length seed <= MAX_ATOMIC_HISTORY /\
  p' = set_branches p (branches p ++ [ELoad (mkLoad seed 0 (exploring p))]).
Proof.
  unfold push_load. intros H.
  destruct (path_len_ok p); cbn [negb] in H; [|discriminate].
  destruct (forallb (fun v => Nat.ltb v MAX_ATOMIC_HISTORY) seed); cbn [negb] in H;
    [|discriminate].
  destruct (Nat.ltb MAX_ATOMIC_HISTORY (length seed)) eqn:Hl; [discriminate|].
  apply Nat.ltb_ge in Hl. injection H as <-. auto.
Qed.

Lemma push_load_extends p seed p' :
  push_load p seed = POk p' -> extends p p' /\ (wf_path p -> wf_path p').
Proof.
  intros H. destruct (push_load_cases _ _ _ H) as (Hlen & Hseed & ->).
  eapply extends_push; try reflexivity; auto.
Qed.

(* ---- branch_load ---- *)
Lemma branch_load_cases p p' v :
  branch_load p = POk (p', v) -> p' = set_pos p (S (pos p)).
Proof.
  unfold branch_load. intros H.
  destruct (is_traversed p); [discriminate|].
  destruct (nth_error (branches p) (pos p)) as [[s|l|s]|]; try discriminate.
  destruct (nth_error (l_vals l) (l_pos l)).
  - injection H as <- _. reflexivity.
  - destruct (Nat.ltb (l_pos l) MAX_ATOMIC_HISTORY); [|discriminate].
    injection H as <- _. reflexivity.
Qed.

Lemma branch_load_extends p p' v :
  branch_load p = POk (p', v) -> extends p p' /\ (wf_path p -> wf_path p').
Proof.
  intros H. rewrite (branch_load_cases _ _ _ H).
  apply extends_same_branches; reflexivity.
Qed.

(* ---- branch_spurious ---- *)
Lemma branch_spurious_cases p p' b :
  branch_spurious p = POk (p', b) ->
  (is_traversed p = false /\ p' = set_pos p (S (pos p))) \/
  (is_traversed p = true /\ path_len_ok p = true /\
   p' = set_pos (set_branches p (branches p ++ [ESpur (mkSpur false (exploring p))]))
                (S (pos p))).
Proof.
  unfold branch_spurious. intros H.
  destruct (is_traversed p).
  - right. destruct (path_len_ok p); cbn [negb] in H; [|discriminate].
    cbv iota in H.
    destruct (nth_error _ _) as [[s|l|s]|] in H; try discriminate.
    injection H as <- _. auto.
  - left. cbv iota in H.
    destruct (nth_error _ _) as [[s|l|s]|] in H; try discriminate.
    injection H as <- _. auto.
Qed.

Lemma branch_spurious_extends p p' b :
  branch_spurious p = POk (p', b) -> extends p p' /\ (wf_path p -> wf_path p').
Proof.
  intros H. destruct (branch_spurious_cases _ _ _ H) as [(_ & ->)|(_ & Hlen & ->)].
  - apply extends_same_branches; reflexivity.
  - eapply extends_push; try reflexivity; auto.
Qed.

(* ---- branch_thread ---- *)
Lemma preemptions_fresh pre ia th prev ex :
  ia = None \/ ia = find_index is_active th ->
  preemptions (mkSched pre ia th prev ex) = pre.
Proof.
  unfold preemptions, active_thread_index. cbn [s_ia s_pre s_threads].
  intros [->| ->]; [reflexivity|].
  rewrite opt_nat_eqb_refl. cbn [negb]. rewrite andb_false_r. reflexivity.
Qed.

Lemma branch_thread_cases p seed p' t :
  branch_thread p seed = POk (p', t) ->
  (is_traversed p = false /\ p' = set_pos p (S (pos p))) \/
  (is_traversed p = true /\ path_len_ok p = true /\
   exists s,
     p' = set_pos (set_branches p (branches p ++ [ESched s])) (S (pos p)) /\
     s_ex s = exploring p /\
     length (s_threads s) = MAX_THREADS /\
     (no_pending seed -> no_pending (s_threads s)) /\
     preemptions s = s_pre s /\
     opt_le_bound (s_pre s) (bound p) = true).
Proof.
  unfold branch_thread. intros H.
  destruct (is_traversed p).
  - right. destruct (path_len_ok p); cbn [negb] in H; [|discriminate].
    destruct (Nat.ltb MAX_THREADS (length seed)); [discriminate|].
    destruct (Nat.ltb 1 (length (filter is_active seed))); [discriminate|].
    cbv zeta in H.
    match type of H with
    | context [mkSched ?pre ?ia ?th ?prev ?ex] =>
        set (PRE := pre) in *; set (IA := ia) in *; set (TH := th) in *;
        set (PREV := prev) in *
    end.
    destruct (opt_le_bound PRE (bound p)) eqn:Hle; cbn [negb] in H; [|discriminate].
    cbv iota in H.
    destruct (nth_error _ _) as [[s|l|s]|] in H; try discriminate.
    injection H as <- _.
    split; [reflexivity|]. split; [reflexivity|].
    exists (mkSched PRE IA TH PREV (exploring p)).
    cbn [s_ex s_threads s_pre set_branches pos].
    split; [reflexivity|]. split; [reflexivity|].
    assert (HTH : length TH = MAX_THREADS /\ (no_pending seed -> no_pending TH)).
    { subst TH.
      destruct (find_index is_active (pad_to MAX_THREADS Disabled seed)).
      - split; [apply pad_to_length|].
        intros Hs. apply pad_to_Forall; [discriminate|exact Hs].
      - split; [rewrite activate_first_yield_length; apply pad_to_length|].
        intros Hs. apply activate_first_yield_no_pending.
        apply pad_to_Forall; [discriminate|exact Hs]. }
    destruct HTH as [HTH1 HTH2].
    split; [exact HTH1|]. split; [exact HTH2|]. split; [|exact Hle].
    apply preemptions_fresh. subst IA.
    match goal with
    | |- context [match ?x with Some _ => _ | None => _ end] => destruct x
    end; [|right; reflexivity].
    match goal with
    | |- context [if ?x then _ else _] => destruct x
    end; [right; reflexivity|left; reflexivity].
  - left. cbv iota in H.
    destruct (nth_error _ _) as [[s|l|s]|] in H; try discriminate.
    injection H as <- _. auto.
Qed.

Lemma branch_thread_extends p seed p' t :
  branch_thread p seed = POk (p', t) -> extends p p' /\ (wf_path p -> wf_path p').
Proof.
  intros H.
  destruct (branch_thread_cases _ _ _ _ H)
    as [(_ & ->)|(_ & Hlen & s & -> & _ & Hth & _)].
  - apply extends_same_branches; reflexivity.
  - eapply extends_push; try reflexivity; auto.
Qed.

(* ---- backtrack ---- *)
Lemma get_sched_nth b i s : get_sched b i = Some s -> nth_error b i = Some (ESched s).
Proof.
  unfold get_sched. destruct (nth_error b i) as [[s0|l|s0]|]; try discriminate.
  intros H; injection H as ->; reflexivity.
Qed.

(* Schedule::backtrack either leaves the schedule alone or, only when the
   schedule is exploring and strictly under the bound, explores some threads *)
Lemma sched_backtrack_inv s tid b s' :
  sched_backtrack s tid b = POk s' ->
  s_ex s = true /\ opt_le_bound (s_pre s) b = true /\
  (s' = s \/
   ((forall bd, b = Some bd -> s_pre s <> bd) /\
    exists th, s' = mkSched (s_pre s) (s_ia s) th (s_prev s) (s_ex s) /\
               Forall2 ext_t (s_threads s) th)).
Proof.
  unfold sched_backtrack. intros H.
  destruct (negb (s_ex s)) eqn:Hex; [discriminate|].
  apply negb_false_iff in Hex.
  destruct (opt_le_bound (s_pre s) b) eqn:Hle; cbn [negb] in H; [|discriminate].
  split; [exact Hex|]. split; [reflexivity|].
  destruct (match b with Some b0 => Nat.eqb (s_pre s) b0 | None => false end) eqn:Hb.
  - injection H as <-. left; reflexivity.
  - destruct (nth_error (s_threads s) tid) as [t|].
    + right. split.
      * intros bd ->. apply Nat.eqb_neq. exact Hb.
      * eexists. split; [injection H as <-; reflexivity|].
        destruct (is_enabled t); auto using ext_t_list_upd_explore, ext_t_map_explore.
    + injection H as <-. left; reflexivity.
Qed.

Lemma sched_backtrack_ext s tid b s' :
  sched_backtrack s tid b = POk s' -> ext (ESched s) (ESched s').
Proof.
  intros H.
  destruct (sched_backtrack_inv _ _ _ _ H) as (Hex & _ & [->|(_ & th & -> & Hth)]).
  - constructor.
  - apply ext_sched; assumption.
Qed.

Lemma upd_sched_ext b i s tid bd s' :
  get_sched b i = Some s -> sched_backtrack s tid bd = POk s' ->
  Forall2 ext b (upd_sched b i s').
Proof.
  intros Hg Hs. unfold upd_sched.
  eapply Forall2_list_set; eauto using get_sched_nth, sched_backtrack_ext.
  constructor.
Qed.

Lemma conservative_cases b curr tid bd fuel b' :
  conservative b curr tid bd fuel = POk b' ->
  b' = b \/
  exists i s s', get_sched b i = Some s /\ sched_backtrack s tid bd = POk s' /\
                 b' = upd_sched b i s'.
Proof.
  revert curr; induction fuel as [|fuel IH]; intros curr H; cbn [conservative] in H.
  - injection H as <-. left; reflexivity.
  - destruct (get_sched b curr) as [cs|] eqn:Hc; [|discriminate].
    destruct (s_prev cs) as [prev|].
    + destruct (get_sched b prev) as [ps|]; [|discriminate].
      destruct (negb (opt_nat_eqb (active_thread_index cs) (active_thread_index ps))
                && s_ex cs).
      * destruct (sched_backtrack cs tid bd) as [cs'|] eqn:Hsb; [|discriminate].
        injection H as <-. right. exists curr, cs, cs'. auto.
      * eapply IH; eassumption.
    + destruct (s_ex cs).
      * destruct (sched_backtrack cs tid bd) as [cs'|] eqn:Hsb; [|discriminate].
        injection H as <-. right. exists curr, cs, cs'. auto.
      * injection H as <-. left; reflexivity.
Qed.

(* backtrack = at most two Schedule::backtrack calls on entries of the stack *)
Lemma backtrack_cases p point tid p' :
  backtrack p point tid = POk p' ->
  p' = p \/
  exists i s s',
    get_sched (branches p) i = Some s /\
    sched_backtrack s tid (bound p) = POk s' /\
    let b1 := upd_sched (branches p) i s' in
    (p' = set_branches p b1 \/
     exists j t t', get_sched b1 j = Some t /\
                    sched_backtrack t tid (bound p) = POk t' /\
                    p' = set_branches p (upd_sched b1 j t')).
Proof.
  unfold backtrack. intros H.
  destruct (find_backtrack_point (branches p) point (S point)) as [[i|]|]; try discriminate.
  2:{ injection H as <-. left; reflexivity. }
  destruct (get_sched (branches p) i) as [s|] eqn:Hg; [|discriminate].
  destruct (sched_backtrack s tid (bound p)) as [s'|] eqn:Hs; [|discriminate].
  right. exists i, s, s'. split; [exact Hg|]. split; [exact Hs|].
  cbv zeta in *.
  destruct (s_prev s') as [curr|].
  - destruct (bound p) as [bd|] eqn:Hbd.
    + destruct (conservative _ _ _ _ _) as [b'|] eqn:Hcons in H; [|discriminate].
      injection H as <-.
      destruct (conservative_cases _ _ _ _ _ _ Hcons) as [->|(j & t & t' & Ht & Htt & ->)].
      * left; reflexivity.
      * right. exists j, t, t'. auto.
    + injection H as <-. left; reflexivity.
  - injection H as <-. left; reflexivity.
Qed.

Lemma backtrack_marks p point tid p' :
  backtrack p point tid = POk p' ->
  bound p' = bound p /\ cap p' = cap p /\ eos p' = eos p /\
  pos p' = pos p /\ exploring p' = exploring p /\ skipping p' = skipping p /\
  Forall2 ext (branches p) (branches p').
Proof.
  intros H.
  destruct (backtrack_cases _ _ _ _ H) as [->|(i & s & s' & Hg & Hs & Hp)].
  - repeat split; auto using Forall2_ext_refl.
  - cbv zeta in Hp.
    destruct Hp as [->|(j & t & t' & Ht & Htt & ->)]; cbn;
      repeat split; eauto using upd_sched_ext, Forall2_ext_trans.
Qed.

Lemma backtrack_extends p point tid p' :
  backtrack p point tid = POk p' -> extends p p' /\ (wf_path p -> wf_path p').
Proof.
  intros H. destruct (backtrack_marks _ _ _ _ H) as (Hb & Hc & He & _ & _ & _ & Hbr).
  apply extends_marks; assumption.
Qed.

(* ------------------------------------------------------------------ *)
(* Part 2: the preemption bound (C15)                                  *)
(* ------------------------------------------------------------------ *)

Definition c15_entry (b : option nat) (e : entry) : Prop :=
  match e, b with
  | ESched s, Some bd =>
      s_pre s <= bd /\ preemptions s <= bd /\
      (s_pre s = bd -> Forall (fun t => t <> Pending) (s_threads s))
  | _, _ => True
  end.

Definition c15_inv (p : path) : Prop := Forall (c15_entry (bound p)) (branches p).

Lemma preemptions_le_S s : preemptions s <= S (s_pre s).
Proof.
  unfold preemptions.
  destruct (is_some (s_ia s) && negb (opt_nat_eqb (s_ia s) (active_thread_index s))); lia.
Qed.

Lemma preemptions_ext_t s th :
  Forall2 ext_t (s_threads s) th ->
  preemptions (mkSched (s_pre s) (s_ia s) th (s_prev s) (s_ex s)) = preemptions s.
Proof.
  intros Hth. unfold preemptions, active_thread_index. cbn [s_pre s_ia s_threads].
  rewrite <- (ext_t_active_index _ _ Hth). reflexivity.
Qed.

Lemma c15_same_branches p p' :
  bound p' = bound p -> branches p' = branches p -> c15_inv p -> c15_inv p'.
Proof. unfold c15_inv. intros -> ->. auto. Qed.

Lemma c15_push p p' e :
  bound p' = bound p -> branches p' = branches p ++ [e] ->
  c15_entry (bound p) e -> c15_inv p -> c15_inv p'.
Proof.
  unfold c15_inv. intros -> -> He Hp. apply Forall_app; split; auto.
Qed.

Lemma explore_state_c15 p p' : explore_state p = POk p' -> c15_inv p -> c15_inv p'.
Proof.
  unfold explore_state. intros H.
  destruct (skipping p); [injection H as <-; auto|].
  destruct (exploring p); [discriminate|].
  injection H as <-. apply c15_same_branches; reflexivity.
Qed.

Lemma critical_c15 p p' : critical p = POk p' -> c15_inv p -> c15_inv p'.
Proof.
  unfold critical. intros H.
  destruct (skipping p); [injection H as <-; auto|].
  destruct (exploring p); [|discriminate].
  injection H as <-. apply c15_same_branches; reflexivity.
Qed.

Lemma skip_branch_c15 p : c15_inv p -> c15_inv (skip_branch p).
Proof. apply c15_same_branches; reflexivity. Qed.

Lemma push_load_c15 p seed p' : push_load p seed = POk p' -> c15_inv p -> c15_inv p'.
Proof.
  intros H. destruct (push_load_cases _ _ _ H) as (_ & _ & ->).
  eapply c15_push; try reflexivity; try exact I.
Qed.

Lemma branch_load_c15 p p' v : branch_load p = POk (p', v) -> c15_inv p -> c15_inv p'.
Proof.
  intros H. rewrite (branch_load_cases _ _ _ H).
  apply c15_same_branches; reflexivity.
Qed.

Lemma branch_spurious_c15 p p' b :
  branch_spurious p = POk (p', b) -> c15_inv p -> c15_inv p'.
Proof.
  intros H. destruct (branch_spurious_cases _ _ _ H) as [(_ & ->)|(_ & _ & ->)].
  - apply c15_same_branches; reflexivity.
  - eapply c15_push; try reflexivity; try exact I.
Qed.

Lemma branch_thread_c15 p seed p' t :
  Forall (fun t => t <> Pending) seed ->
  branch_thread p seed = POk (p', t) -> c15_inv p -> c15_inv p'.
Proof.
  intros Hseed H.
  destruct (branch_thread_cases _ _ _ _ H)
    as [(_ & ->)|(_ & _ & s & -> & _ & _ & Hnp & Hpre & Hle)].
  - apply c15_same_branches; reflexivity.
  - eapply c15_push; try reflexivity.
    unfold c15_entry. destruct (bound p) as [bd|]; [|exact I].
    cbn [opt_le_bound] in Hle. apply Nat.leb_le in Hle.
    rewrite Hpre. repeat split; auto. intros _. apply Hnp. exact Hseed.
Qed.

Lemma sched_backtrack_c15 s tid b s' :
  sched_backtrack s tid b = POk s' ->
  c15_entry b (ESched s) -> c15_entry b (ESched s').
Proof.
  intros H Hc.
  destruct (sched_backtrack_inv _ _ _ _ H) as (_ & _ & [->|(Hne & th & -> & Hth)]);
    [assumption|].
  unfold c15_entry in *. destruct b as [bd|]; [|exact I].
  destruct Hc as (H1 & H2 & H3).
  rewrite (preemptions_ext_t _ _ Hth). cbn [s_pre s_threads].
  repeat split; auto.
  intros Heq. exfalso. exact (Hne bd eq_refl Heq).
Qed.

Lemma upd_sched_c15 bd b i s tid s' :
  get_sched b i = Some s -> sched_backtrack s tid bd = POk s' ->
  Forall (c15_entry bd) b -> Forall (c15_entry bd) (upd_sched b i s').
Proof.
  intros Hg Hs Hb. unfold upd_sched. apply Forall_list_set; [assumption|].
  eapply sched_backtrack_c15; [eassumption|].
  eapply nth_error_In_Forall; eauto using get_sched_nth.
Qed.

Lemma backtrack_c15 p point tid p' :
  backtrack p point tid = POk p' -> c15_inv p -> c15_inv p'.
Proof.
  intros H Hp.
  destruct (backtrack_cases _ _ _ _ H) as [->|(i & s & s' & Hg & Hs & Hq)];
    [assumption|].
  cbv zeta in Hq. unfold c15_inv in *.
  destruct Hq as [->|(j & t & t' & Ht & Htt & ->)]; cbn [set_branches bound branches];
    eauto using upd_sched_c15.
Qed.

(* ---- step ---- *)
(* step pops a (possibly empty) run of exhausted entries off the end of the
   stack and advances the entry below them *)
Lemma step_rev_cases rb rb' :
  step_rev rb = Some rb' ->
  exists popped e e' rest,
    rb = popped ++ e :: rest /\ rb' = e' :: rest /\ advance_entry e = Some e' /\
    Forall (fun x => advance_entry x = None) popped.
Proof.
  revert rb'; induction rb as [|x rb IH]; intros rb' H; cbn [step_rev] in H;
    [discriminate|].
  destruct (advance_entry x) as [x'|] eqn:Hx.
  - injection H as <-. exists [], x, x', rb. auto.
  - destruct (IH _ H) as (popped & e & e' & rest & -> & -> & He & Hp).
    exists (x :: popped), e, e', rest. auto.
Qed.

Lemma step_cases p p' :
  step p = Some p' ->
  exists kept e e' popped,
    branches p = kept ++ e :: popped /\ branches p' = kept ++ [e'] /\
    advance_entry e = Some e' /\ Forall (fun x => advance_entry x = None) popped /\
    bound p' = bound p /\ cap p' = cap p /\ eos p' = eos p /\
    pos p' = 0 /\ exploring p' = eos p /\ skipping p' = false.
Proof.
  unfold step. intros H.
  destruct (step_rev (rev (branches p))) as [rb|] eqn:Hs; [|discriminate].
  injection H as <-. cbn [branches bound cap eos pos exploring skipping].
  destruct (step_rev_cases _ _ Hs) as (popped & e & e' & rest & Hrev & -> & He & Hp).
  exists (rev rest), e, e', (rev popped).
  split.
  - rewrite <- (rev_involutive (branches p)), Hrev, rev_app_distr.
    cbn [rev]. rewrite <- app_assoc. reflexivity.
  - split; [reflexivity|]. split; [exact He|]. split; [|auto 10].
    apply Forall_rev. exact Hp.
Qed.

Lemma advance_entry_exploring e e' :
  advance_entry e = Some e' ->
  entry_exploring e = true /\ entry_exploring e' = true.
Proof.
  destruct e as [s|l|s]; cbn [advance_entry]; intros H.
  - destruct (s_ex s) eqn:Hex; cbn [negb] in H; [|discriminate].
    destruct (activate_pending _) in H; [|discriminate].
    injection H as <-. cbn [entry_exploring s_ex]. auto.
  - destruct (l_ex l) eqn:Hex; cbn [negb] in H; [|discriminate].
    destruct (Nat.ltb _ _) in H; [|discriminate].
    injection H as <-. cbn [entry_exploring l_ex]. auto.
  - destruct (p_ex s) eqn:Hex; cbn [negb] in H; [|discriminate].
    destruct (p_spur s); [discriminate|].
    injection H as <-. cbn [entry_exploring p_ex]. auto.
Qed.

Lemma advance_entry_c15 b e e' :
  advance_entry e = Some e' -> c15_entry b e -> c15_entry b e'.
Proof.
  destruct e as [s|l|s]; cbn [advance_entry]; intros H Hc.
  - destruct (negb (s_ex s)); [discriminate|].
    destruct (activate_pending (visit_active (s_threads s))) as [th|] eqn:Hth;
      [|discriminate].
    injection H as <-. unfold c15_entry in *. destruct b as [bd|]; [|exact I].
    destruct Hc as (H1 & H2 & H3). cbn [s_pre s_threads].
    assert (Hlt : s_pre s <> bd).
    { intros Heq. specialize (H3 Heq).
      rewrite (activate_pending_no_pending _ (visit_active_no_pending _ H3)) in Hth.
      discriminate. }
    split; [exact H1|]. split.
    + match goal with |- preemptions ?x <= _ => pose proof (preemptions_le_S x) as Hp end.
      cbn [s_pre] in Hp. lia.
    + intros Heq. exfalso. exact (Hlt Heq).
  - destruct (negb (l_ex l)); [discriminate|].
    destruct (Nat.ltb _ _) in H; [|discriminate]. injection H as <-. exact I.
  - destruct (negb (p_ex s)); [discriminate|].
    destruct (p_spur s); [discriminate|]. injection H as <-. exact I.
Qed.

Lemma step_c15 p p' : c15_inv p -> step p = Some p' -> c15_inv p'.
Proof.
  unfold c15_inv. intros Hp H.
  destruct (step_cases _ _ H)
    as (kept & e & e' & popped & Hb & Hb' & He & _ & Hbd & _).
  rewrite Hb', Hbd. rewrite Hb in Hp.
  apply Forall_app in Hp. destruct Hp as [Hk Hep].
  inversion Hep as [|x y Hce Hpop]; subst.
  apply Forall_app; split; [exact Hk|].
  constructor; [|constructor]. eapply advance_entry_c15; eassumption.
Qed.

Lemma preemptions_le_bound p bd :
  c15_inv p -> bound p = Some bd ->
  forall s, In (ESched s) (branches p) -> preemptions s <= bd.
Proof.
  unfold c15_inv. intros Hp Hbd s Hin.
  rewrite Forall_forall in Hp. specialize (Hp _ Hin).
  rewrite Hbd in Hp. cbn [c15_entry] in Hp. tauto.
Qed.

(* the same in the vocabulary of PathSpec *)
Lemma c15_sched_bound_ok p :
  c15_inv p -> Forall (sched_bound_ok (bound p)) (branches p).
Proof.
  unfold c15_inv. apply Forall_impl. intros [s|l|s] H; cbn in *; auto.
  destruct (bound p); tauto.
Qed.

(* ------------------------------------------------------------------ *)
(* Part 3: frozen entries, exploration controls (C19)                  *)
(* ------------------------------------------------------------------ *)

Definition last_error {A : Type} (l : list A) : option A := nth_error l (length l - 1).

Lemma last_error_snoc (A : Type) (l : list A) (x : A) : last_error (l ++ [x]) = Some x.
Proof.
  unfold last_error. rewrite app_length. cbn [length].
  replace (length l + 1 - 1) with (length l) by lia.
  rewrite nth_error_app2 by lia. rewrite Nat.sub_diag. reflexivity.
Qed.

Lemma step_prefix p p' :
  step p = Some p' ->
  exists k e', k < length (branches p) /\
    branches p' = firstn k (branches p) ++ [e'] /\
    exists e, nth_error (branches p) k = Some e /\ advance_entry e = Some e'.
Proof.
  intros H.
  destruct (step_cases _ _ H) as (kept & e & e' & popped & Hb & Hb' & He & _).
  exists (length kept), e'. rewrite Hb, Hb'. split; [|split].
  - rewrite app_length. cbn [length]. lia.
  - rewrite firstn_app, Nat.sub_diag, firstn_all. cbn [firstn].
    rewrite app_nil_r. reflexivity.
  - exists e. split; [|exact He].
    rewrite nth_error_app2 by lia. rewrite Nat.sub_diag. reflexivity.
Qed.

Lemma step_last_exploring p p' :
  step p = Some p' ->
  exists e, last_error (branches p') = Some e /\ entry_exploring e = true.
Proof.
  intros H.
  destruct (step_cases _ _ H) as (kept & e & e' & popped & _ & Hb' & He & _).
  exists e'. rewrite Hb'. split; [apply last_error_snoc|].
  apply (advance_entry_exploring _ _ He).
Qed.

Lemma step_frozen p p' i e :
  step p = Some p' -> nth_error (branches p') i = Some e ->
  entry_exploring e = false -> nth_error (branches p) i = Some e.
Proof.
  intros H Hn Hne.
  destruct (step_cases _ _ H) as (kept & e0 & e' & popped & Hb & Hb' & He & _).
  rewrite Hb' in Hn. rewrite Hb.
  destruct (Nat.lt_ge_cases i (length kept)) as [Hlt|Hge].
  - rewrite nth_error_app1 in Hn by assumption.
    rewrite nth_error_app1 by assumption. exact Hn.
  - rewrite nth_error_app2 in Hn by assumption.
    destruct (i - length kept) as [|m]; cbn [nth_error] in Hn.
    + injection Hn as <-.
      destruct (advance_entry_exploring _ _ He) as [_ Hex]. congruence.
    + destruct m; discriminate.
Qed.

(* every entry above the advanced one was exhausted, every entry below it is
   kept verbatim (so non-exploring entries below are never modified) *)
Lemma step_kept p p' i :
  step p = Some p' -> S i < length (branches p') ->
  nth_error (branches p') i = nth_error (branches p) i.
Proof.
  intros H Hi.
  destruct (step_cases _ _ H) as (kept & e0 & e' & popped & Hb & Hb' & _).
  rewrite Hb' in Hi |- *. rewrite Hb. rewrite app_length in Hi. cbn [length] in Hi.
  rewrite !nth_error_app1 by lia. reflexivity.
Qed.

(* ---- new entries inherit the exploring flag of the path ---- *)
Lemma push_load_inherit_exploring p seed p' :
  push_load p seed = POk p' ->
  exists e, branches p' = branches p ++ [e] /\ entry_exploring e = exploring p.
Proof.
  intros H. destruct (push_load_cases _ _ _ H) as (_ & _ & ->).
  eexists; split; reflexivity.
Qed.

Lemma branch_spurious_inherit_exploring p p' b :
  branch_spurious p = POk (p', b) ->
  (is_traversed p = true /\
   exists e, branches p' = branches p ++ [e] /\ entry_exploring e = exploring p) \/
  (is_traversed p = false /\ branches p' = branches p).
Proof.
  intros H. destruct (branch_spurious_cases _ _ _ H) as [(Ht & ->)|(Ht & _ & ->)].
  - right. auto.
  - left. split; [exact Ht|]. eexists; split; reflexivity.
Qed.

Lemma branch_thread_inherit_exploring p seed p' t :
  branch_thread p seed = POk (p', t) ->
  (is_traversed p = true /\
   exists e, branches p' = branches p ++ [e] /\ entry_exploring e = exploring p) \/
  (is_traversed p = false /\ branches p' = branches p).
Proof.
  intros H.
  destruct (branch_thread_cases _ _ _ _ H) as [(Ht & ->)|(Ht & _ & s & -> & Hex & _)].
  - right. auto.
  - left. split; [exact Ht|]. exists (ESched s). split; [reflexivity|exact Hex].
Qed.

(* generic form: whichever of the three pushed [e], its flag is [exploring p] *)
Lemma new_entries_inherit_exploring p p' e :
  (exists seed, push_load p seed = POk p') \/
  (exists b, branch_spurious p = POk (p', b)) \/
  (exists seed t, branch_thread p seed = POk (p', t)) ->
  branches p' = branches p ++ [e] -> entry_exploring e = exploring p.
Proof.
  intros H Hb.
  assert (Hcases :
    (exists e0, branches p' = branches p ++ [e0] /\ entry_exploring e0 = exploring p) \/
    branches p' = branches p).
  { destruct H as [(seed & H)|[(b & H)|(seed & t & H)]].
    - left. eapply push_load_inherit_exploring; eassumption.
    - destruct (branch_spurious_inherit_exploring _ _ _ H) as [(_ & He)|(_ & He)]; auto.
    - destruct (branch_thread_inherit_exploring _ _ _ _ H) as [(_ & He)|(_ & He)]; auto. }
  destruct Hcases as [(e0 & He0 & Hex)|Hsame].
  - rewrite He0 in Hb. apply app_inv_head in Hb. injection Hb as ->. exact Hex.
  - exfalso. rewrite Hsame in Hb.
    apply (f_equal (@length entry)) in Hb. rewrite app_length in Hb.
    cbn [length] in Hb. lia.
Qed.

(* the API never changes the exploring flag of the path except through
   explore_state / critical / skip_branch *)
Lemma push_load_flags p seed p' :
  push_load p seed = POk p' -> exploring p' = exploring p /\ skipping p' = skipping p.
Proof. intros H. destruct (push_load_cases _ _ _ H) as (_ & _ & ->). auto. Qed.

Lemma branch_load_flags p p' v :
  branch_load p = POk (p', v) -> exploring p' = exploring p /\ skipping p' = skipping p.
Proof. intros H. rewrite (branch_load_cases _ _ _ H). auto. Qed.

Lemma branch_spurious_flags p p' b :
  branch_spurious p = POk (p', b) ->
  exploring p' = exploring p /\ skipping p' = skipping p.
Proof.
  intros H. destruct (branch_spurious_cases _ _ _ H) as [(_ & ->)|(_ & _ & ->)]; auto.
Qed.

Lemma branch_thread_flags p seed p' t :
  branch_thread p seed = POk (p', t) ->
  exploring p' = exploring p /\ skipping p' = skipping p.
Proof.
  intros H.
  destruct (branch_thread_cases _ _ _ _ H) as [(_ & ->)|(_ & _ & s & -> & _)]; auto.
Qed.

Lemma backtrack_flags p point tid p' :
  backtrack p point tid = POk p' ->
  exploring p' = exploring p /\ skipping p' = skipping p.
Proof.
  intros H. destruct (backtrack_marks _ _ _ _ H) as (_ & _ & _ & _ & He & Hs & _). auto.
Qed.

(* ---- exploration controls ---- *)
Lemma critical_sets p p' :
  critical p = POk p' -> skipping p = false -> exploring p' = false.
Proof.
  unfold critical. intros H Hsk. rewrite Hsk in H.
  destruct (exploring p); [|discriminate]. injection H as <-. reflexivity.
Qed.

Lemma explore_sets p p' :
  explore_state p = POk p' -> skipping p = false -> exploring p' = true.
Proof.
  unfold explore_state. intros H Hsk. rewrite Hsk in H.
  destruct (exploring p); [discriminate|]. injection H as <-. reflexivity.
Qed.

Lemma skip_sets p : exploring (skip_branch p) = false /\ skipping (skip_branch p) = true.
Proof. split; reflexivity. Qed.

Lemma skipping_sticky p :
  skipping p = true -> explore_state p = POk p /\ critical p = POk p.
Proof. unfold explore_state, critical. intros ->. split; reflexivity. Qed.

(* skipping itself is sticky: no API function but step resets it *)
Lemma skipping_kept_explore p p' :
  explore_state p = POk p' -> skipping p' = skipping p.
Proof.
  unfold explore_state. intros H.
  destruct (skipping p) eqn:Hsk; [injection H as <-; exact Hsk|].
  destruct (exploring p); [discriminate|]. injection H as <-. reflexivity.
Qed.

Lemma skipping_kept_critical p p' :
  critical p = POk p' -> skipping p' = skipping p.
Proof.
  unfold critical. intros H.
  destruct (skipping p) eqn:Hsk; [injection H as <-; exact Hsk|].
  destruct (exploring p); [|discriminate]. injection H as <-. reflexivity.
Qed.

Print Assumptions step_c15.
Print Assumptions preemptions_le_bound.
Print Assumptions backtrack_extends.
Print Assumptions branch_thread_extends.
Print Assumptions step_frozen.
