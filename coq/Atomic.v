(* rt/atomic.rs, rt/synchronize.rs, rt/cell.rs: the view-based store history,
   causality transfers and the causality (data-race) checks. Definitions only.
   Functions take the active thread [th] and its id [me] and return the new
   object state together with the thread's new causality. *)
Require Import LV.Base LV.VV LV.Path LV.Prog LV.Objects.

Definition ord_acq (o : ord) : bool :=
  match o with Acquire | AcqRel | SeqCst => true | _ => false end.
Definition ord_rel (o : ord) : bool :=
  match o with Release | AcqRel | SeqCst => true | _ => false end.
Definition is_seq_cst (o : ord) : bool := match o with SeqCst => true | _ => false end.

(* Synchronize::sync_load: the thread's new causality *)
Definition sync_load (caus : vv) (s : vv) (o : ord) : vv :=
  if ord_acq o then vv_join caus s else caus.

(* Synchronize::sync_store: the synchronisation point's new view *)
Definition sync_store (s : vv) (caus released : vv) (o : ord) : vv :=
  let s := vv_join s released in
  if ord_rel o then vv_join s caus else s.

(* ---- FirstSeen ---- *)
Definition seen_touch (seen : list (option nat)) (me ver : nat) : list (option nat) :=
  match nth_error seen me with
  | Some None => list_set seen me (Some ver)
  | _ => seen
  end.

Fixpoint seen_by_current_from (i : nat) (seen : list (option nat)) (caus : vv) : bool :=
  match seen with
  | [] => false
  | s :: rest =>
      match s with
      | Some v => if Nat.leb v (vv_get caus i) then true
                  else seen_by_current_from (S i) rest caus
      | None => seen_by_current_from (S i) rest caus
      end
  end.
Definition is_seen_by_current (seen : list (option nat)) (caus : vv) : bool :=
  seen_by_current_from 0 seen caus.

Definition is_seen_before_yield (seen : list (option nat)) (me : nat) (last_yield : option nat) : bool :=
  match last_yield with
  | None => false
  | Some ly => match nth_error seen me with
               | Some (Some v) => Nat.leb v ly
               | _ => false
               end
  end.

Definition aindex (cnt : nat) : nat := Nat.modulo cnt MAX_ATOMIC_HISTORY.

(* range(cnt) and the iteration order of stores_mut *)
Definition arange (cnt : nat) : nat * nat :=
  let start := aindex (cnt - MAX_ATOMIC_HISTORY) in
  let e := aindex (Nat.min cnt MAX_ATOMIC_HISTORY) in
  (start, if Nat.eqb e 0 then MAX_ATOMIC_HISTORY else e).
Definition stores_order (cnt : nat) : list nat :=
  let '(start, e) := arange cnt in
  seq start (e - start) ++ seq 0 start.

Definition get_store (s : atomic_state) (i : nat) : astore :=
  nth i (at_stores s) store_default.

Definition at_set_stores (s : atomic_state) (st : list astore) (cnt : nat) : atomic_state :=
  mkAtomic (at_loaded s) (at_unsync_loaded s) (at_stored s) (at_unsync_mut s)
           (at_mutating s) (at_last_loads s) (at_last_nonload s) st cnt.

Definition st_set_mo (x : astore) (mo : vv) : astore :=
  mkStore (st_value x) (st_hb x) mo (st_sync x) (st_seen x) (st_seqcst x) (st_id x) (st_rmw_src x).
Definition st_set_seen (x : astore) (seen : list (option nat)) : astore :=
  mkStore (st_value x) (st_hb x) (st_mo x) (st_sync x) seen (st_seqcst x) (st_id x) (st_rmw_src x).
Definition st_set_value (x : astore) (v : N) : astore :=
  mkStore v (st_hb x) (st_mo x) (st_sync x) (st_seen x) (st_seqcst x) (st_id x) (st_rmw_src x).

(* ---- the four track_* checks ---- *)
Definition track_load (s : atomic_state) (caus : vv) : atomic_state + panic :=
  if at_mutating s then inr PanicMutating
  else match vv_ahead caus (at_unsync_mut s) with
  | Some _ => inr (PanicCausality CLoadMut)
  | None => inl (mkAtomic (vv_join (at_loaded s) caus) (at_unsync_loaded s) (at_stored s)
                   (at_unsync_mut s) (at_mutating s) (at_last_loads s) (at_last_nonload s)
                   (at_stores s) (at_cnt s))
  end.

Definition track_unsync_load (s : atomic_state) (caus : vv) : atomic_state + panic :=
  if at_mutating s then inr PanicMutating
  else match vv_ahead caus (at_unsync_mut s) with
  | Some _ => inr (PanicCausality CUnsyncLoadMut)
  | None =>
  match vv_ahead caus (at_stored s) with
  | Some _ => inr (PanicCausality CUnsyncLoadStore)
  | None => inl (mkAtomic (at_loaded s) (vv_join (at_unsync_loaded s) caus) (at_stored s)
                   (at_unsync_mut s) (at_mutating s) (at_last_loads s) (at_last_nonload s)
                   (at_stores s) (at_cnt s))
  end end.

Definition track_store (s : atomic_state) (caus : vv) : atomic_state + panic :=
  if at_mutating s then inr PanicMutating
  else match vv_ahead caus (at_unsync_mut s) with
  | Some _ => inr (PanicCausality CStoreMut)
  | None =>
  match vv_ahead caus (at_unsync_loaded s) with
  | Some _ => inr (PanicCausality CStoreUnsyncLoad)
  | None => inl (mkAtomic (at_loaded s) (at_unsync_loaded s) (vv_join (at_stored s) caus)
                   (at_unsync_mut s) (at_mutating s) (at_last_loads s) (at_last_nonload s)
                   (at_stores s) (at_cnt s))
  end end.

Definition track_unsync_mut (s : atomic_state) (caus : vv) : atomic_state + panic :=
  if at_mutating s then inr PanicMutating
  else match vv_ahead caus (at_loaded s) with
  | Some _ => inr (PanicCausality CMutLoad)
  | None =>
  match vv_ahead caus (at_unsync_loaded s) with
  | Some _ => inr (PanicCausality CMutUnsyncLoad)
  | None =>
  match vv_ahead caus (at_stored s) with
  | Some _ => inr (PanicCausality CMutStore)
  | None =>
  match vv_ahead caus (at_unsync_mut s) with
  | Some _ => inr (PanicCausality CMutMut)
  | None => inl (mkAtomic (at_loaded s) (at_unsync_loaded s) (at_stored s)
                   (vv_join (at_unsync_mut s) caus) (at_mutating s) (at_last_loads s)
                   (at_last_nonload s) (at_stores s) (at_cnt s))
  end end end end.

(* ---- State::store_from ---- *)
Definition src_eqb (a b : option (nat * nat)) : bool :=
  match a, b with
  | Some (x, y), Some (x', y') => Nat.eqb x x' && Nat.eqb y y'
  | None, None => true
  | _, _ => false
  end.

(* one pass of the RMW-atomicity loop: a store ordered after the source of an RMW
   is ordered after the RMW's own store *)
Definition rmw_atomicity_pass (stores : list astore) (src : option (nat * nat)) (mo : vv) : vv * bool :=
  fold_left
    (fun acc x =>
       let '(mo, changed) := acc in
       match st_rmw_src x with
       | Some (slot, sid) =>
           if src_eqb (Some (slot, sid)) src then (mo, changed)
           else
             let srcst := nth slot stores store_default in
             if negb (Nat.eqb (st_id srcst) sid) then (mo, changed)
             else if vv_le (st_mo srcst) mo && negb (vv_le (st_mo x) mo)
                  then (vv_join mo (st_mo x), true)
                  else (mo, changed)
       | None => (mo, changed)
       end)
    stores (mo, false).

Fixpoint rmw_atomicity (fuel : nat) (stores : list astore) (src : option (nat * nat)) (mo : vv) : vv :=
  match fuel with
  | 0 => mo
  | S f =>
      let '(mo', changed) := rmw_atomicity_pass stores src mo in
      if changed then rmw_atomicity f stores src mo' else mo'
  end.

Definition atomic_store_from (s : atomic_state) (me : nat) (caus released : vv)
           (sync0 : vv) (value : N) (o : ord) (src : option (nat * nat)) : atomic_state :=
  let idx := aindex (at_cnt s) in
  let hb := caus in
  let mo := fold_left
              (fun mo x => if is_seen_by_current (st_seen x) caus then vv_join mo (st_mo x) else mo)
              (at_stores s) hb in
  let mo := rmw_atomicity (S MAX_ATOMIC_HISTORY) (at_stores s) src mo in
  let sync := sync_store sync0 caus released o in
  let seen := seen_touch seen_new me (vv_get caus me) in
  at_set_stores s (list_set (at_stores s) idx
                     (mkStore value hb mo sync seen (is_seq_cst o) (at_cnt s) src))
                (S (at_cnt s)).

(* State::store *)
Definition atomic_store (s : atomic_state) (me : nat) (caus released : vv)
           (sync0 : vv) (value : N) (o : ord) : atomic_state :=
  atomic_store_from s me caus released sync0 value o None.

Definition atomic_new (me : nat) (caus released : vv) (value : N) : atomic_state + panic :=
  let s0 := mkAtomic vv_new vv_new vv_new vv_new false (repeat None MAX_THREADS) None
                     (repeat store_default MAX_ATOMIC_HISTORY) 0 in
  match track_unsync_mut s0 caus with
  | inr p => inr p
  | inl s1 => inl (atomic_store s1 me caus released vv_new value Release)
  end.

(* ---- State::raise_modification_order, State::close_rmw_atomicity ---- *)
(* move store [a] later in the modification order; what was ordered after it stays after it *)
Definition raise_mo (stores : list astore) (a : nat) (v : vv) : list astore :=
  let before := st_mo (nth a stores store_default) in
  let after := vv_join before v in
  if vv_eqb after before then stores
  else mapi (fun i x => if Nat.eqb a i then st_set_mo x after
                        else if vv_lt before (st_mo x) then st_set_mo x (vv_join (st_mo x) after)
                        else x) stores.

(* one (rmw, i) step of the double loop *)
Definition close_step (acc : list astore * bool) (ri : nat * nat) : list astore * bool :=
  let '(stores, changed) := acc in
  let '(r, i) := ri in
  let sr := nth r stores store_default in
  match st_rmw_src sr with
  | Some (slot, sid) =>
      if negb (Nat.eqb slot r) && Nat.eqb (st_id (nth slot stores store_default)) sid
      then
        if Nat.eqb i r || Nat.eqb i slot then acc
        else
          let mo_source := st_mo (nth slot stores store_default) in
          let mo_rmw := st_mo sr in
          let mo := st_mo (nth i stores store_default) in
          if vv_le mo_source mo && negb (vv_le mo_rmw mo) then (raise_mo stores i mo_rmw, true)
          else if vv_le mo mo_rmw && negb (vv_le mo mo_source) then (raise_mo stores slot mo, true)
          else acc
      else acc
  | None => acc
  end.

(* the store of an RMW immediately follows the store it read: whatever is ordered after the
   source is ordered after the RMW, whatever is ordered before the RMW is ordered before its
   source; rounds over all (rmw, i) pairs of live slots until nothing changes *)
Fixpoint close_rmw_atomicity (fuel live : nat) (stores : list astore) : list astore :=
  match fuel with
  | 0 => stores
  | S f =>
      let '(stores', changed) :=
        fold_left close_step (list_prod (seq 0 live) (seq 0 live)) (stores, false) in
      if changed then close_rmw_atomicity f live stores' else stores'
  end.

(* ---- apply_load_coherence ---- *)
Definition apply_load_coherence (s : atomic_state) (caus : vv) (index : nat) : atomic_state :=
  let mo :=
    fold_left
      (fun mo ix =>
         let '(i, x) := ix in
         if Nat.eqb index i then mo
         else
           let mo := if is_seen_by_current (st_seen x) caus then vv_join mo (st_mo x) else mo in
           if vv_lt (st_hb x) caus then vv_join mo (st_mo x) else mo)
      (index_list (at_stores s)) (st_mo (get_store s index)) in
  (* the store that is read may have moved later in the modification order; whatever was
     ordered after it stays ordered after it (fix: the order only ever gains edges) *)
  let before := st_mo (get_store s index) in
  let stores1 := list_upd (at_stores s) index (fun x => st_set_mo x mo) in
  let stores2 :=
    if vv_eqb mo before then stores1
    else mapi (fun i x => if negb (Nat.eqb index i) && vv_lt before (st_mo x)
                          then st_set_mo x (vv_join (st_mo x) mo) else x) stores1 in
  (* RMW atomicity: the new edges must not put a store between an RMW and the store it read *)
  at_set_stores s (close_rmw_atomicity (4 * MAX_ATOMIC_HISTORY) (Nat.min (at_cnt s) MAX_ATOMIC_HISTORY) stores2)
                (at_cnt s).

(* ---- match_load_to_stores ---- *)
(* inner loop for a fixed i: Some true = candidate, Some false = `continue 'outer`,
   None = assert_ne! fails *)
Fixpoint mlts_inner (s : atomic_state) (me : nat) (caus : vv) (ly : option nat) (o : ord)
         (i : nat) (js : list nat) : option bool :=
  match js with
  | [] => Some true
  | j :: js' =>
      if Nat.eqb i j || Nat.leb (at_cnt s) j then mlts_inner s me caus ly o i js'
      else
        let si := get_store s i in
        let sj := get_store s j in
        if vv_eqb (st_mo si) (st_mo sj) then None
        else if vv_lt (st_mo si) (st_mo sj) then
          if is_seen_by_current (st_seen sj) caus then Some false
          else if is_seen_before_yield (st_seen si) me ly then Some false
          else if is_seq_cst o && st_seqcst si && st_seqcst sj then Some false
          else mlts_inner s me caus ly o i js'
        else mlts_inner s me caus ly o i js'
  end.

Fixpoint mlts_outer (s : atomic_state) (me : nat) (caus : vv) (ly : option nat) (o : ord)
         (is_ : list nat) : option (list nat) :=
  match is_ with
  | [] => Some []
  | i :: rest =>
      if Nat.leb (at_cnt s) i then mlts_outer s me caus ly o rest
      else match mlts_inner s me caus ly o i (seq 0 MAX_ATOMIC_HISTORY) with
           | None => None
           | Some keep =>
               match mlts_outer s me caus ly o rest with
               | None => None
               | Some l => Some (if keep then i :: l else l)
               end
           end
  end.

Definition match_load_to_stores (s : atomic_state) (me : nat) (caus : vv) (ly : option nat)
           (o : ord) : option (list nat) :=
  mlts_outer s me caus ly o (seq 0 MAX_ATOMIC_HISTORY).

Fixpoint mrts_inner (s : atomic_state) (i : nat) (js : list nat) : option bool :=
  match js with
  | [] => Some true
  | j :: js' =>
      if Nat.eqb i j || Nat.leb (at_cnt s) j then mrts_inner s i js'
      else
        let si := get_store s i in
        let sj := get_store s j in
        if vv_eqb (st_mo si) (st_mo sj) then None
        else if vv_lt (st_mo si) (st_mo sj) then Some false
        else mrts_inner s i js'
  end.

Fixpoint mrts_outer (s : atomic_state) (is_ : list nat) : option (list nat) :=
  match is_ with
  | [] => Some []
  | i :: rest =>
      if Nat.leb (at_cnt s) i then mrts_outer s rest
      else match mrts_inner s i (seq 0 MAX_ATOMIC_HISTORY) with
           | None => None
           | Some keep =>
               match mrts_outer s rest with
               | None => None
               | Some l => Some (if keep then i :: l else l)
               end
           end
  end.

Definition match_rmw_to_stores (s : atomic_state) : option (list nat) :=
  mrts_outer s (seq 0 MAX_ATOMIC_HISTORY).

(* Note on panic order inside mlts/mrts: Rust evaluates the assert for the
   pair (i, j) only if the inner loop reaches j; the functions above do the
   same, and an assertion failure for a later i is reported only if no earlier
   i failed, as in the sequential Rust loops (any failure is the same panic). *)

(* ---- State::load (after the index is chosen) ---- *)
Definition atomic_load (s : atomic_state) (me : nat) (caus : vv) (index : nat) (o : ord)
  : (atomic_state * vv * N) + panic :=
  match track_load s caus with
  | inr p => inr p
  | inl s1 =>
      let s2 := apply_load_coherence s1 caus index in
      let s3 := at_set_stores s2
                  (list_upd (at_stores s2) index
                     (fun x => st_set_seen x (seen_touch (st_seen x) me (vv_get caus me))))
                  (at_cnt s2) in
      let x := get_store s3 index in
      inl (s3, sync_load caus (st_sync x) o, st_value x)
  end.

(* ---- State::rmw; [f] returns Some next (Ok) or None (Err) ---- *)
Definition atomic_rmw (s : atomic_state) (me : nat) (caus released : vv) (index : nat)
           (so fo : ord) (f : N -> option N) : (atomic_state * vv * N * bool) + panic :=
  match track_load s caus with
  | inr p => inr p
  | inl s1 =>
      let s2 := apply_load_coherence s1 caus index in
      let s3 := at_set_stores s2
                  (list_upd (at_stores s2) index
                     (fun x => st_set_seen x (seen_touch (st_seen x) me (vv_get caus me))))
                  (at_cnt s2) in
      let prev := st_value (get_store s3 index) in
      match f prev with
      | Some next =>
          match track_store s3 caus with
          | inr p => inr p
          | inl s4 =>
              let sync := st_sync (get_store s4 index) in
              let caus' := sync_load caus sync so in
              let s5 := atomic_store_from s4 me caus' released sync next so
                          (Some (index, st_id (get_store s4 index))) in
              inl (s5, caus', prev, true)
          end
      | None =>
          inl (s3, sync_load caus (st_sync (get_store s3 index)) fo, prev, false)
      end
  end.

(* ---- fences ---- *)
(* FirstSeen::is_read_by_current: the active thread itself has loaded the store *)
Definition is_read_by_current (seen : list (option nat)) (me : nat) : bool :=
  match nth_error seen me with Some (Some _) => true | _ => false end.

(* fence_acq over one atomic: visit its stores in stores_mut order *)
Definition fence_acq_atomic (s : atomic_state) (me : nat) (caus : vv) : vv :=
  fold_left
    (fun c i =>
       let x := get_store s i in
       if is_read_by_current (st_seen x) me then vv_join c (st_sync x) else c)
    (stores_order (at_cnt s)) caus.

Definition fence_acq (objs : list object) (me : nat) (caus : vv) : vv :=
  fold_left
    (fun c o => match o with OAtomic s => fence_acq_atomic s me c | _ => c end)
    objs caus.

(* ---- rt/cell.rs ---- *)
Definition cell_new (caus : vv) : cell_state := mkCell 0 false caus caus.

Definition cell_track_read (s : cell_state) (caus : vv) : cell_state + panic :=
  match vv_ahead caus (ce_write s) with
  | Some _ => inr (PanicCausality CCellReadWrite)
  | None => inl (mkCell (ce_reading s) (ce_writing s) (vv_join (ce_read s) caus) (ce_write s))
  end.

Definition cell_track_write (s : cell_state) (caus : vv) : cell_state + panic :=
  match vv_ahead caus (ce_write s) with
  | Some _ => inr (PanicCausality CCellWriteWrite)
  | None =>
  match vv_ahead caus (ce_read s) with
  | Some _ => inr (PanicCausality CCellWriteRead)
  | None => inl (mkCell (ce_reading s) (ce_writing s) (ce_read s) (vv_join (ce_write s) caus))
  end end.
