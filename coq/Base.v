(* Small list/option utilities shared by the model files. Definitions only. *)
From Coq Require Export List Arith Bool NArith.
Export ListNotations.
Require Export LV.Params.

Set Implicit Arguments.

Fixpoint list_set {A} (l : list A) (n : nat) (x : A) : list A :=
  match l, n with
  | [], _ => []
  | _ :: t, 0 => x :: t
  | h :: t, S n' => h :: list_set t n' x
  end.

Definition list_upd {A} (l : list A) (n : nat) (f : A -> A) : list A :=
  match nth_error l n with
  | Some x => list_set l n (f x)
  | None => l
  end.

Fixpoint find_index {A} (p : A -> bool) (l : list A) : option nat :=
  match l with
  | [] => None
  | h :: t => if p h then Some 0 else option_map S (find_index p t)
  end.

(* index of the last element satisfying p *)
Fixpoint find_last_index {A} (p : A -> bool) (l : list A) : option nat :=
  match l with
  | [] => None
  | h :: t =>
      match find_last_index p t with
      | Some i => Some (S i)
      | None => if p h then Some 0 else None
      end
  end.

Definition opt_nat_eqb (a b : option nat) : bool :=
  match a, b with
  | Some x, Some y => Nat.eqb x y
  | None, None => true
  | _, _ => false
  end.

Definition is_some {A} (o : option A) : bool :=
  match o with Some _ => true | None => false end.

Fixpoint pad_to {A} (n : nat) (d : A) (l : list A) : list A :=
  match n with
  | 0 => []
  | S n' => match l with
            | [] => d :: pad_to n' d []
            | h :: t => h :: pad_to n' d t
            end
  end.

Fixpoint mapi_from {A B} (i : nat) (f : nat -> A -> B) (l : list A) : list B :=
  match l with
  | [] => []
  | h :: t => f i h :: mapi_from (S i) f t
  end.
Definition mapi {A B} (f : nat -> A -> B) (l : list A) : list B := mapi_from 0 f l.

Fixpoint index_list_from {A} (i : nat) (l : list A) : list (nat * A) :=
  match l with
  | [] => []
  | h :: t => (i, h) :: index_list_from (S i) t
  end.
Definition index_list {A} (l : list A) : list (nat * A) := index_list_from 0 l.
