(* Refutation witnesses: concrete programs on which the faithful model L (and,
   by the correspondence, the implementation) deviates from the reference
   semantics R. Each is computed by vm_compute; the same programs are listed in
   known_findings.json and replayed on the real code by the checks. *)
Require Import LV.Base LV.Path LV.Prog LV.Objects LV.Exec LV.Check LV.Ref LV.Outcome.

Definition cfg0 : config := mkConfig 5 1000 None None None false.
Definition FUEL : nat := 100 * 100.

Definition run_of (p : prog) := check FUEL FUEL p.
Definition recs_of (p : prog) := fst (fst (run_of p)).
Definition fin_of (p : prog) := snd (fst (run_of p)).

(* [missing p o]: R produces outcome o, the exploration of p finishes normally,
   and no explored iteration has outcome o *)
Definition missing (p : prog) (o : outcome) : bool :=
  mem_outcome o (ref_finished (ref_outcomes false FUEL p)) &&
  match fin_of p with RunOk => true | _ => false end &&
  negb (mem_outcome o (explored p (recs_of p))).

(* D13: dropping a guard is not a scheduling point nor a DPOR access.
   main: lock; x.store(1); unlock      t1: x.load(); try_lock; ...
   R: t1 can read 1 and then see the lock still held; L never explores it. *)
Definition p_D13 : prog :=
  mkProg cfg0 [DMutex; DAtomic 0]
    [[ISpawn 1; ILock 0; IStore 1 1 SeqCst; IUnlock 0; IJoin 1];
     [ILoad 1 SeqCst; ITryLock 0; IStore 1 3 SeqCst; IUnlock 0]].
Definition o_D13 : outcome :=
  [[(0, RUnit); (1, RUnit); (2, RUnit); (3, RUnit); (4, RUnit)];
   [(0, RVal 1); (1, RBool false); (2, RUnit); (3, RX)]].
Lemma D13_missing : missing p_D13 o_D13 = true.
Proof. vm_compute. reflexivity. Qed.

(* D14: park / unpark are not scheduling points: two unparks that coalesce
   before the first park leave the second park blocked for ever; R reaches that
   deadlock, L never does. *)
Definition p_D14 : prog :=
  mkProg cfg0 [DAtomic 0]
    [[ISpawn 1; IPark; IPark; IJoin 1]; [IUnpark 0; IUnpark 0]].
Lemma D14_deadlock_missed :
  ref_can_deadlock (ref_outcomes false FUEL p_D14) = true /\
  run_reports_deadlock (fin_of p_D14) = false /\ fin_of p_D14 = RunOk.
Proof. vm_compute. repeat split; reflexivity. Qed.

(* D5, repaired: unparking a thread that is blocked in join used to make it runnable
   although the join notification had not arrived (loom's own assertion failed). The
   park token is now kept apart from the thread state: the program finishes, as R says. *)
Definition p_D5 : prog :=
  mkProg cfg0 [DAtomic 0] [[ISpawn 1; IJoin 1]; [IUnpark 0]].
Lemma D5_repaired :
  fin_of p_D5 = RunOk /\
  ref_can_deadlock (ref_outcomes false FUEL p_D5) = false /\
  existsb (fun o => match o with OPanic => true | _ => false end) (ref_outcomes false FUEL p_D5) = false.
Proof. vm_compute. repeat split; reflexivity. Qed.

(* D11, repaired: a park token delivered before the thread blocks on a mutex survives
   the blocking: main parks after its critical section and finds the token. *)
Definition p_D11 : prog :=
  mkProg cfg0 [DAtomic 0; DMutex]
    [[ISpawn 1; ILock 1; IStore 0 1 SeqCst; IUnlock 1; IPark; IJoin 1];
     [IUnpark 0; ILock 1; IStore 0 2 SeqCst; IUnlock 1]].
Lemma D11_repaired :
  fin_of p_D11 = RunOk /\ ref_can_deadlock (ref_outcomes false FUEL p_D11) = false.
Proof. vm_compute. repeat split; reflexivity. Qed.

(* D4 (C03): read-modify-write atomicity / coherence. T1: x.store(1); r1 = x.load()
   T2: r2 = x.fetch_add(2); r3 = x.load().  Outcome r1 = 2, r2 = 0, r3 = 2: the RMW read
   the initial value, so its write 2 immediately follows 0 in modification order and 1
   comes after 2; T1 reading 2 after writing 1 violates coherence. RC11 (even the
   weakest instance) forbids it; before the repair of the RMW-atomicity rule L explored
   it, now it does not. *)
Require Import LV.RC11.
Definition p_D4 : prog :=
  mkProg cfg0 [DAtomic 0]
    [[ISpawn 1; ISpawn 2; IJoin 1; IJoin 2];
     [IStore 0 1 Relaxed; ILoad 0 Relaxed];
     [IRmw 0 RAdd 2 Relaxed; ILoad 0 Relaxed]].
Definition o_D4 : outcome :=
  [[(0, RUnit); (1, RUnit); (2, RUnit); (3, RUnit)];
   [(0, RUnit); (1, RVal 2)];
   [(0, RVal 0); (1, RVal 2)]].
Definition litmus_D4 : list (list instr) := tl (p_bodies p_D4).
Lemma D4_repaired :
  rc11_allows false true (fun _ => 0%N) litmus_D4 (S (rc11_enough_fuel litmus_D4))
              [[0%N; 2%N]; [0%N; 2%N]] = false /\
  rc11_allows true false (fun _ => 0%N) litmus_D4 (S (rc11_enough_fuel litmus_D4))
              [[0%N; 2%N]; [0%N; 2%N]] = false /\
  fin_of p_D4 = RunOk /\
  mem_outcome o_D4 (explored p_D4 (recs_of p_D4)) = false.
Proof. vm_compute. repeat split; reflexivity. Qed.

(* D2 (C02), repaired: the outcome that the fence_acq over-synchronisation used to hide
   is allowed by RC11 and is now explored by L. *)
Definition p_D2 : prog :=
  mkProg cfg0 [DAtomic 0; DAtomic 0; DAtomic 0]
    [[ISpawn 1; ISpawn 2; ISpawn 3; IJoin 1; IJoin 2; IJoin 3];
     [IStore 0 1 Relaxed; IStore 1 1 Release];
     [ILoad 1 Relaxed; IStore 2 1 Release];
     [ILoad 2 Acquire; IFence Acquire; ILoad 0 Relaxed]].
Definition o_D2 : outcome :=
  [[(0, RUnit); (1, RUnit); (2, RUnit); (3, RUnit); (4, RUnit); (5, RUnit)];
   [(0, RUnit); (1, RUnit)];
   [(0, RVal 1); (1, RUnit)];
   [(0, RVal 1); (1, RUnit); (2, RVal 0)]].
Definition litmus_D2 : list (list instr) := tl (p_bodies p_D2).
Lemma D2_allowed_and_explored :
  rc11_allows true false (fun _ => 0%N) litmus_D2 (S (rc11_enough_fuel litmus_D2))
              [[0%N; 0%N]; [1%N; 0%N]; [1%N; 0%N; 0%N]] = true /\
  mem_outcome o_D2 (explored p_D2 (recs_of p_D2)) = true.
Proof. vm_compute. repeat split; reflexivity. Qed.

(* D24: yield_now is invisible to DPOR although it constrains scheduling.
   main: x.fetch_add(1); x.store(5)      t1: yield_now(); x.load()
   R: t1 can read 1 (yield before the fetch_add, load between the two writes).
   L (unbounded) never explores it: DPOR reverses the load/store race at the
   store's point, where t1 first has to yield, which forces main's store. *)
Definition p_D24 : prog :=
  mkProg cfg0 [DAtomic 0]
    [[ISpawn 1; IRmw 0 RAdd 1 SeqCst; IStore 0 5 SeqCst; IJoin 1];
     [IYield; ILoad 0 SeqCst]].
Definition o_D24 : outcome :=
  [[(0, RUnit); (1, RVal 0); (2, RUnit); (3, RUnit)];
   [(0, RUnit); (1, RVal 1)]].
Lemma D24_missing : missing p_D24 o_D24 = true.
Proof. vm_compute. reflexivity. Qed.

(* ... while the run with preemption_bound = 2 explores it (conservative
   backtrack points): the bounded result set is not a subset of the unbounded one *)
Definition p_D24_b2 : prog :=
  mkProg (mkConfig 5 1000 (Some 2) None None false) (p_decls p_D24) (p_bodies p_D24).
Lemma D24_bounded_not_subset :
  fin_of p_D24_b2 = RunOk /\ fin_of p_D24 = RunOk /\
  mem_outcome o_D24 (explored p_D24_b2 (recs_of p_D24_b2)) = true /\
  mem_outcome o_D24 (explored p_D24 (recs_of p_D24)) = false.
Proof. vm_compute. repeat split; reflexivity. Qed.
