(* Coherence (CoRR / CoWR / CoRW / CoWW) of ONE atomic cell over SEQUENCES of
   operations by SEVERAL threads.

   THREE load-coherence rules ([rule], [alc_g]):
     RBefore  [alc_before_fix]: apply_load_coherence before fix c0421c4 (only the
              loaded store is raised) -- verbatim local copy;
     RC0421   [alc_c0421c4]: the rule of fix c0421c4 (the raise is propagated to
              the mo-successors of the loaded store) -- verbatim local copy;
     RModel   the MODEL's current apply_load_coherence = the c0421c4 rule
              followed by close_rmw_atomicity (fix D19): [model_alc_eq],
              [atomic_load_g_model], [atomic_rmw_g_model] (all by reflexivity):
              "mstep RModel" is literally Atomic.atomic_load / atomic_rmw /
              atomic_store / match_load_to_stores / match_rmw_to_stores.

   MACHINE ([mstep tr], [mrun tr], [minit]).  State = (atomic_state, clocks :
   list vv).  Steps of thread t, exactly as Ops.v does them (own clock
   component incremented first, last_yield = None, released = vv_new = t_rel of
   a thread that never fenced):
     XLoad idx o   allowed iff idx is in match_load_to_stores s t c None o;
                   effect of load_post (atomic_load, clock := returned clock);
     XStore v o    track_store; atomic_store s t c vv_new vv_new v o;
     XRmw idx f so fo  allowed iff idx is in match_rmw_to_stores s; atomic_rmw;
     XSync u       clock_t := clock_t join clock_u (ANY other synchronisation).
   Stores/RMWs are refused when the ring is full (at_cnt = 7): wrap-around is
   out of scope.  Start: thread 0 creates the cell with clock [1;0;0;0;0]
   (atomic_new), n <= MAX_THREADS threads, all clocks equal to the creator's.

   WHAT IS PROVED, AND FOR WHICH RULE

   (a) RBefore, by vm_compute (first and fourth also seen on the real loom
       before c0421c4): [coherence_counterexample_before_fix] (CoWR false: T1:
       store 20; store 30; load -> 20 after T0: store 40; load 20),
       [corr_counterexample_before_fix], [assert_ne_counterexample_before_fix]
       (two live stores with equal clocks: assert_ne! fires),
       [rmw_counterexample_before_fix] (two RMWs read the same store).

   (b) RC0421: the full invariant development, every name with the suffix
       _c0421c4 (these are theorems about the LOCAL copy [alc_c0421c4], i.e.
       about the model as it was between c0421c4 and the D19 fix):
       invariant [InvO] / [Inv] / [StampO] / [Inv2] ([minit_inv], [minit_inv2],
       [mstep_ext_c0421c4], [mstep_inv_c0421c4], [mrun_inv_c0421c4],
       [mrun_inv2_c0421c4], [reach_inv_c0421c4], [reach_inv2_c0421c4]);
       [mlts_never_none_c0421c4]; [step_stable_c0421c4] / [run_stable_c0421c4]
       (vv_lt between live stores is never lost); [step_knows_c0421c4] /
       [run_knows_c0421c4]; [load_knows_c0421c4], [store_knows_c0421c4],
       [sync_knows_c0421c4]; [CoRR_CoWR_c0421c4], [CoRR_CoWR_rmw_c0421c4],
       [CoWW_CoRW_c0421c4] (happens-before versions); [CoRR_same_thread_c0421c4],
       [CoWR_same_thread_c0421c4], [CoRW_same_thread_c0421c4],
       [CoWW_same_thread_c0421c4].  And its gap: [rmw_gap_before_fix] (loads
       order 20 <mo 10 <mo 21 with 21 = fetch_add of 20).

   (c) RModel (the model's CURRENT functions):
       PROVED (closed):
       - [model_alc_eq]: model rule = c0421c4 rule + close_rmw_atomicity;
       - [close_no_src], [model_alc_no_src]: when no store in the ring is the
         store of an RMW the closure is the identity and apply_load_coherence
         = alc_c0421c4; [mstep_model_eq], [mrun_model_eq]: on RMW-free runs the
         model's machine IS the c0421c4 machine; hence
         [reach_model_rmw_free_c0421c4]: every state the model's functions
         reach by an RMW-free run satisfies every theorem of (b)
         ([model_rmw_free_inv] spells out Inv2 and "assert_ne! never fires").
       COMPUTED (vm_compute):
       - [rmw_gap_refused]: both orders of the D19 gap are refused by the model
         (I1 resp. I2 of the closure added the forcing edge);
       - [model_refuses_old_counterexamples];
       - [search_closure_clean]: all stores / loads / RMWs of 4 threads x 3
         steps and 3 threads x 4 steps after the prefix store 10 | store 20;
         fetch_add: no vv_lt edge is ever lost, no two live stores have equal
         clocks, RMW atomicity holds ([atom_viol]: every live RMW store is
         strictly after its live source and no live store is strictly between)
         and the state is closed under close_step after EVERY step (also after
         stores, which do not run the closure).  (Outside this file the same
         checker ran clean on 4 threads x 4 steps, 3 threads x 5 steps from
         five prefixes and ~30 000 random walks of 12-14 steps, on a local
         re-implementation of the rule.)
       NOT PROVED for RModel on runs WITH RMWs: that [InvO] survives
       close_rmw_atomicity (hence mrun_inv2, mlts_never_none, run_stable,
       CoRR_CoWR, CoRR_CoWR_rmw, CoWW_CoRW, the *_same_thread theorems for the
       model with RMWs) and the new invariant rmw_atomicity_stable.  Reason:
       each raise of the closure is an instance of the generic "raise a above
       b" step, which preserves InvO iff not (a <=mo b); for I1 / I2 that side
       condition is "no live store strictly between the RMW and its source" IN
       THE CURRENT, PARTIALLY CLOSED state.  This is not inductive over the
       closure's own steps from syntactic facts alone (a raise for one RMW pair
       can momentarily put a store between another pair whose own raise is
       still pending); the inductive statement is semantic: "the live stores
       have a LINEAR extension of vv_lt in which every RMW store immediately
       follows its source" -- every I1 / I2 / transitivity edge is forced by
       that extension, so the witness survives the whole closure unchanged,
       and only the c0421c4 step (new read-read edges x -> idx for the seen x)
       has to construct a new extension (contract every RMW chain to a block;
       closedness makes the quotient a partial order; the candidate condition
       excludes cycles there).  Fuel: each productive round adds a vv_lt pair
       and a strict order on 7 stores has at most 21 pairs < 4 * 7.  Not done
       within the time box. *)
Require Import LV.Base LV.VV LV.VVFacts LV.Path LV.Prog LV.Objects LV.Atomic LV.AtomicFacts LV.AtomicCoherence.
From Coq Require Import Lia.

(* ------------------------------------------------------------------ *)
(* 1. the two load-coherence rules                                      *)

(* The HISTORICAL rule: apply_load_coherence as it was before fix c0421c4 (a
   verbatim copy): only the loaded store is raised. *)
Definition alc_before_fix (s : atomic_state) (caus : vv) (index : nat) : atomic_state :=
  let mo :=
    fold_left
      (fun mo ix =>
         let '(i, x) := ix in
         if Nat.eqb index i then mo
         else
           let mo := if is_seen_by_current (st_seen x) caus then vv_join mo (st_mo x) else mo in
           if vv_lt (st_hb x) caus then vv_join mo (st_mo x) else mo)
      (index_list (at_stores s)) (st_mo (get_store s index)) in
  at_set_stores s (list_upd (at_stores s) index (fun x => st_set_mo x mo)) (at_cnt s).

(* The rule of fix c0421c4 (a verbatim copy of apply_load_coherence as it was
   between c0421c4 and the D19 fix): the raise of the loaded store is propagated
   to its mo-successors; no RMW-atomicity closure. *)
Definition alc_c0421c4 (s : atomic_state) (caus : vv) (index : nat) : atomic_state :=
  let mo :=
    fold_left
      (fun mo ix =>
         let '(i, x) := ix in
         if Nat.eqb index i then mo
         else
           let mo := if is_seen_by_current (st_seen x) caus then vv_join mo (st_mo x) else mo in
           if vv_lt (st_hb x) caus then vv_join mo (st_mo x) else mo)
      (index_list (at_stores s)) (st_mo (get_store s index)) in
  let before := st_mo (get_store s index) in
  let stores1 := list_upd (at_stores s) index (fun x => st_set_mo x mo) in
  let stores2 :=
    if vv_eqb mo before then stores1
    else mapi (fun i x => if negb (Nat.eqb index i) && vv_lt before (st_mo x)
                          then st_set_mo x (vv_join (st_mo x) mo) else x) stores1 in
  at_set_stores s stores2 (at_cnt s).

(* which load-coherence rule the machine uses *)
Inductive rule := RBefore | RC0421 | RModel.

Definition alc_g (tr : rule) (s : atomic_state) (caus : vv) (index : nat) : atomic_state :=
  match tr with
  | RModel => apply_load_coherence s caus index
  | RC0421 => alc_c0421c4 s caus index
  | RBefore => alc_before_fix s caus index
  end.

(* the model's rule = the c0421c4 rule followed by the RMW-atomicity closure *)
Lemma model_alc_eq : forall s caus index,
  apply_load_coherence s caus index =
  at_set_stores s
    (close_rmw_atomicity (4 * MAX_ATOMIC_HISTORY) (Nat.min (at_cnt s) MAX_ATOMIC_HISTORY)
       (at_stores (alc_c0421c4 s caus index)))
    (at_cnt s).
Proof. reflexivity. Qed.

Definition loadpart_g (tr : rule) (s1 : atomic_state) (me : nat) (caus : vv) (index : nat)
  : atomic_state :=
  let s2 := alc_g tr s1 caus index in
  at_set_stores s2
    (list_upd (at_stores s2) index
       (fun x => st_set_seen x (seen_touch (st_seen x) me (vv_get caus me))))
    (at_cnt s2).

Definition atomic_load_g (tr : rule) (s : atomic_state) (me : nat) (caus : vv) (index : nat)
           (o : ord) : (atomic_state * vv * N) + panic :=
  match track_load s caus with
  | inr p => inr p
  | inl s1 =>
      let s3 := loadpart_g tr s1 me caus index in
      let x := get_store s3 index in
      inl (s3, sync_load caus (st_sync x) o, st_value x)
  end.

Definition atomic_rmw_g (tr : rule) (s : atomic_state) (me : nat) (caus released : vv)
           (index : nat) (so fo : ord) (f : N -> option N)
  : (atomic_state * vv * N * bool) + panic :=
  match track_load s caus with
  | inr p => inr p
  | inl s1 =>
      let s3 := loadpart_g tr s1 me caus index in
      let prev := st_value (get_store s3 index) in
      match f prev with
      | Some next =>
          match track_store s3 caus with
          | inr p => inr p
          | inl s4 =>
              let sync := st_sync (get_store s4 index) in
              let caus' := sync_load caus sync so in
              let s5 := atomic_store_from s4 me caus' released sync next so
                          (Some (index, st_id (get_store s4 index))) in
              inl (s5, caus', prev, true)
          end
      | None =>
          inl (s3, sync_load caus (st_sync (get_store s3 index)) fo, prev, false)
      end
  end.

(* with tr = RModel these ARE the model's functions *)
Lemma atomic_load_g_model : forall s me caus index o,
  atomic_load_g RModel s me caus index o = atomic_load s me caus index o.
Proof. reflexivity. Qed.

Lemma atomic_rmw_g_model : forall s me caus released index so fo f,
  atomic_rmw_g RModel s me caus released index so fo f =
  atomic_rmw s me caus released index so fo f.
Proof. reflexivity. Qed.

(* ------------------------------------------------------------------ *)
(* 2. the machine                                                       *)

Inductive aop :=
  | XLoad (idx : nat) (o : ord)
  | XStore (v : N) (o : ord)
  | XRmw (idx : nat) (f : N -> option N) (so fo : ord)
  | XSync (u : nat).

Definition mstate := (atomic_state * list vv)%type.

Definition clk (cs : list vv) (t : nat) : vv := nth t cs vv_new.

Definition mstep (tr : rule) (st : mstate) (t : nat) (op : aop) : option mstate :=
  let '(s, cs) := st in
  if negb (Nat.ltb t (length cs)) then None else
  match op with
  | XSync u =>
      if Nat.ltb u (length cs)
      then Some (s, list_set cs t (vv_join (clk cs t) (clk cs u))) else None
  | XLoad idx o =>
      let c := vv_inc (clk cs t) t in
      match match_load_to_stores s t c None o with
      | Some l =>
          if existsb (Nat.eqb idx) l then
            match atomic_load_g tr s t c idx o with
            | inl (s', c', _) => Some (s', list_set cs t c')
            | inr _ => None
            end
          else None
      | None => None
      end
  | XStore v o =>
      if Nat.leb MAX_ATOMIC_HISTORY (at_cnt s) then None else
      let c := vv_inc (clk cs t) t in
      match track_store s c with
      | inl s1 => Some (atomic_store s1 t c vv_new vv_new v o, list_set cs t c)
      | inr _ => None
      end
  | XRmw idx f so fo =>
      if Nat.leb MAX_ATOMIC_HISTORY (at_cnt s) then None else
      let c := vv_inc (clk cs t) t in
      match match_rmw_to_stores s with
      | Some l =>
          if existsb (Nat.eqb idx) l then
            match atomic_rmw_g tr s t c vv_new idx so fo f with
            | inl (s', c', _, _) => Some (s', list_set cs t c')
            | inr _ => None
            end
          else None
      | None => None
      end
  end.

Fixpoint mrun (tr : rule) (st : mstate) (evs : list (nat * aop)) : option mstate :=
  match evs with
  | [] => Some st
  | (t, op) :: r => match mstep tr st t op with Some st' => mrun tr st' r | None => None end
  end.

(* thread 0 creates the cell; [n] threads, every clock equal to the creator's
   clock at creation (the other threads are spawned by thread 0) *)
Definition c_init : vv := vv_inc vv_new 0.
Definition minit (n : nat) (v0 : N) : option mstate :=
  match atomic_new 0 c_init vv_new v0 with
  | inl s => Some (s, repeat c_init n)
  | inr _ => None
  end.

Definition mrun0 (tr : rule) (n : nat) (evs : list (nat * aop)) : option mstate :=
  match minit n 0%N with Some st => mrun tr st evs | None => None end.

(* ---- observation helpers ---- *)
Definition mo_of (st : mstate) (i : nat) : vv := st_mo (get_store (fst st) i).
Definition mo_lt (st : mstate) (i j : nat) : bool := vv_lt (mo_of st i) (mo_of st j).
Definition cands (tr : rule) (st : option mstate) (t : nat) (o : ord) : option (list nat) :=
  match st with
  | Some (s, cs) => match_load_to_stores s t (vv_inc (clk cs t) t) None o
  | None => None
  end.
Definition rcands (st : option mstate) : option (list nat) :=
  match st with Some (s, _) => match_rmw_to_stores s | None => None end.
Definition vals (st : option mstate) :=
  match st with
  | Some (s, cs) => map (fun x => (st_value x, st_mo x)) (firstn (at_cnt s) (at_stores s))
  | None => []
  end.

(* ---- brute-force sanity search ---- *)
Definition inc1 (x : N) : option N := Some (x + 1)%N.

Definition live_pairs (s : atomic_state) : list (nat * nat) :=
  flat_map (fun i => map (fun j => (i, j)) (seq 0 (at_cnt s))) (seq 0 (at_cnt s)).

(* post-state keeps every strict mo edge of the pre-state, and has no two
   live stores with equal clocks *)
Definition step_ok (st st' : mstate) : bool :=
  forallb (fun p => let '(i, j) := p in
             implb (mo_lt st i j) (mo_lt st' i j)) (live_pairs (fst st))
  && forallb (fun p => let '(i, j) := p in
             Nat.eqb i j || negb (vv_eqb (mo_of st' i) (mo_of st' j))) (live_pairs (fst st')).

Definition moves (n : nat) : list (nat * aop) :=
  flat_map (fun t => (t, XStore 1%N Relaxed)
                     :: map (fun k => (t, XLoad k Relaxed)) (seq 0 MAX_ATOMIC_HISTORY)
                     ++ map (fun k => (t, XRmw k inc1 Relaxed Relaxed)) (seq 0 MAX_ATOMIC_HISTORY))
           (seq 0 n).

Fixpoint first_some {A B} (f : A -> option B) (l : list A) : option B :=
  match l with [] => None | a :: r => match f a with Some b => Some b | None => first_some f r end end.

Fixpoint search (tr : rule) (n : nat) (fuel : nat) (st : mstate) (trace : list (nat * nat * nat))
  : option (list (nat * nat * nat)) :=
  match fuel with
  | 0 => None
  | S f =>
      first_some
        (fun m => let '(t, op) := m in
           let code := match op with XStore _ _ => (t, 0, 0) | XLoad k _ => (t, 1, k)
                                | XRmw k _ _ _ => (t, 2, k) | XSync u => (t, 3, u) end in
           match mstep tr st t op with
           | None => None
           | Some st' => if step_ok st st' then search tr n f st' (code :: trace)
                         else Some (rev (code :: trace))
           end)
        (moves n)
  end.

Definition search0 tr n pre fuel :=
  match mrun0 tr n pre with Some st => search tr n fuel st [] | None => Some [(99,99,99)] end.

Definition pre3 := [(1, XStore 10 Relaxed); (2, XStore 20 Relaxed); (2, XStore 30 Relaxed)].

(* ================================================================== *)
(* 3. generic lemmas                                                    *)

Lemma clk_set : forall cs t v u, t < length cs ->
  clk (list_set cs t v) u = if Nat.eqb u t then v else clk cs u.
Proof. intros cs t v u Ht. unfold clk. apply list_set_nth. exact Ht. Qed.

Lemma mapi_from_nth : forall (A B : Type) (f : nat -> A -> B) (l : list A) i k d d',
  k < length l -> nth k (mapi_from i f l) d' = f (i + k) (nth k l d).
Proof.
  intros A B f l. induction l as [|h r IH]; intros i k d d' Hk.
  - simpl in Hk. lia.
  - destruct k as [|k]; cbn [mapi_from nth].
    + rewrite Nat.add_0_r. reflexivity.
    + rewrite (IH (S i) k d d') by (simpl in Hk; lia). f_equal. lia.
Qed.

Lemma mapi_from_length : forall (A B : Type) (f : nat -> A -> B) (l : list A) i,
  length (mapi_from i f l) = length l.
Proof.
  intros A B f l. induction l as [|h r IH]; intros i; [reflexivity|].
  cbn [mapi_from length]. rewrite IH. reflexivity.
Qed.

Lemma vv_lt_new_false : forall a, vv_lt a vv_new = false.
Proof.
  intros a. destruct (vv_lt a vv_new) eqn:H; [|reflexivity].
  apply vv_lt_spec in H. destruct H as [_ [i Hi]]. rewrite vv_new_get in Hi. lia.
Qed.

(* is_seen_by_current, both directions *)
Lemma seen_by_current_from_inv : forall seen k caus,
  seen_by_current_from k seen caus = true ->
  exists m v, nth_error seen m = Some (Some v) /\ v <= vv_get caus (k + m).
Proof.
  induction seen as [|s rest IH]; intros k caus H.
  - simpl in H. discriminate.
  - cbn [seen_by_current_from] in H. destruct s as [v|].
    + destruct (Nat.leb_spec v (vv_get caus k)) as [Hle|Hgt].
      * exists 0, v. split; [reflexivity|]. rewrite Nat.add_0_r. exact Hle.
      * destruct (IH _ _ H) as [m [w [Hn Hw]]]. exists (S m), w. split; [exact Hn|].
        replace (k + S m) with (S k + m) by lia. exact Hw.
    + destruct (IH _ _ H) as [m [w [Hn Hw]]]. exists (S m), w. split; [exact Hn|].
      replace (k + S m) with (S k + m) by lia. exact Hw.
Qed.

Lemma is_seen_by_current_spec : forall seen caus,
  is_seen_by_current seen caus = true <->
  exists m v, nth_error seen m = Some (Some v) /\ v <= vv_get caus m.
Proof.
  intros seen caus. split.
  - intros H. apply seen_by_current_from_inv in H. exact H.
  - intros [m [v [Hn Hv]]]. apply (is_seen_by_current_hit seen m caus Hn Hv).
Qed.

Lemma seen_touch_keeps : forall seen me w m v,
  nth_error seen m = Some (Some v) -> nth_error (seen_touch seen me w) m = Some (Some v).
Proof.
  intros seen me w m v H. unfold seen_touch.
  destruct (nth_error seen me) as [[x|]|] eqn:Hme; try exact H.
  destruct (Nat.eq_dec m me) as [Heq|Hne]; [subst m; rewrite H in Hme; discriminate|].
  revert me m H Hme Hne. induction seen as [|h r IH]; intros me m H Hme Hne.
  - destruct m; discriminate.
  - destruct me as [|me]; destruct m as [|m]; cbn [list_set nth_error] in *; try lia; try exact H.
    apply IH; try assumption. lia.
Qed.

Lemma seen_touch_mono : forall seen me w caus,
  is_seen_by_current seen caus = true ->
  is_seen_by_current (seen_touch seen me w) caus = true.
Proof.
  intros seen me w caus H. apply is_seen_by_current_spec in H.
  destruct H as [m [v [Hn Hv]]]. apply is_seen_by_current_spec.
  exists m, v. split; [apply seen_touch_keeps; exact Hn | exact Hv].
Qed.

Lemma seen_clock_mono : forall seen c c',
  vle c c' -> is_seen_by_current seen c = true -> is_seen_by_current seen c' = true.
Proof.
  intros seen c c' Hle H. apply is_seen_by_current_spec in H.
  destruct H as [m [v [Hn Hv]]]. apply is_seen_by_current_spec.
  exists m, v. split; [exact Hn|]. specialize (Hle m). lia.
Qed.

(* ---- "r is mo joined with some vectors satisfying P" ---- *)
Definition jn (P : vv -> Prop) (mo r : vv) : Prop :=
  vle mo r /\
  forall q, vv_get r q = vv_get mo q \/
            exists g, P g /\ vle g r /\ vv_get r q = vv_get g q.

Lemma jn_refl : forall P mo, jn P mo mo.
Proof. intros P mo. split; [apply vle_refl|]. intros q. left. reflexivity. Qed.

Lemma jn_step : forall (P : vv -> Prop) mo g, P g -> jn P mo (vv_join mo g).
Proof.
  intros P mo g Hg. split; [apply vle_join_l|]. intros q. rewrite vv_get_join.
  destruct (Nat.max_spec (vv_get mo q) (vv_get g q)) as [[_ Hm]|[_ Hm]].
  - right. exists g. split; [exact Hg|]. split; [apply vle_join_r | exact Hm].
  - left. exact Hm.
Qed.

Lemma jn_trans : forall P a b c, jn P a b -> jn P b c -> jn P a c.
Proof.
  intros P a b c [Hab Ha] [Hbc Hb]. split; [eapply vle_trans; eassumption|].
  intros q. destruct (Hb q) as [Heq|[g [Hg [Hle Hq]]]].
  - destruct (Ha q) as [Heq'|[g [Hg [Hle Hq]]]].
    + left. lia.
    + right. exists g. split; [exact Hg|]. split; [eapply vle_trans; eassumption | lia].
  - right. exists g. split; [exact Hg|]. split; assumption.
Qed.

Lemma jn_weaken : forall (P Q : vv -> Prop) a b, (forall g, P g -> Q g) -> jn P a b -> jn Q a b.
Proof.
  intros P Q a b HPQ [Hab Ha]. split; [exact Hab|]. intros q.
  destruct (Ha q) as [Heq|[g [Hg Hr]]]; [left; exact Heq|].
  right. exists g. split; [apply HPQ; exact Hg | exact Hr].
Qed.

Lemma jn_fold : forall (A : Type) (P : vv -> Prop) (f : vv -> A -> vv) (l : list A),
  (forall mo a, In a l -> jn P mo (f mo a)) ->
  forall mo, jn P mo (fold_left f l mo).
Proof.
  intros A P f l. induction l as [|a l IH]; intros Hf mo.
  - apply jn_refl.
  - cbn [fold_left]. eapply jn_trans; [apply Hf; left; reflexivity|].
    apply IH. intros mo' a' Ha'. apply Hf. right. exact Ha'.
Qed.

(* ================================================================== *)
(* 4. the invariant                                                     *)

Set Implicit Arguments.

Definition mo (s : atomic_state) (a : nat) : vv := st_mo (get_store s a).
(* the key of a store: the storing thread's own clock component at the store *)
Definition hbk (own : nat -> nat) (s : atomic_state) (a : nat) : nat :=
  vv_get (st_hb (get_store s a)) (own a).
(* [b]'s modification-order clock knows the key of [a] *)
Definition K (own : nat -> nat) (s : atomic_state) (a b : nat) : Prop :=
  hbk own s a <= vv_get (mo s b) (own a).

Record InvO (own : nat -> nat) (s : atomic_state) (cs : list vv) : Prop := mkInvO {
  i_len : length (at_stores s) = MAX_ATOMIC_HISTORY;
  i_cnt1 : 1 <= at_cnt s;
  i_cnt7 : at_cnt s <= MAX_ATOMIC_HISTORY;
  i_mut : at_mutating s = false;
  i_nthr : length cs <= MAX_THREADS;
  i_clen : forall t, t < length cs -> t < length (clk cs t);
  i_dead : forall a, at_cnt s <= a -> get_store s a = store_default;
  i_own : forall a, a < at_cnt s -> own a < length cs;
  (* the key is a real tick, except for a bottom store (created with the zero clock) *)
  i_key1 : forall a, a < at_cnt s -> 1 <= hbk own s a \/ (forall q, vv_get (mo s a) q = 0);
  i_seen : forall a, a < at_cnt s ->
     nth_error (st_seen (get_store s a)) (own a) = Some (Some (hbk own s a));
  i_hbmo : forall a, a < at_cnt s -> K own s a a;
  i_bmo : forall a t, a < at_cnt s -> t < length cs ->
     vv_get (mo s a) t <= vv_get (clk cs t) t;
  i_bsync : forall a t, a < at_cnt s -> t < length cs ->
     vv_get (st_sync (get_store s a)) t <= vv_get (clk cs t) t;
  i_bclk : forall u t, u < length cs -> t < length cs ->
     vv_get (clk cs u) t <= vv_get (clk cs t) t;
  (* a clock that knows the key of [a] dominates the whole clock of [a] *)
  i_star : forall a b, a < at_cnt s -> b < at_cnt s -> K own s a b -> vle (mo s a) (mo s b);
  (* ... and this order is antisymmetric on live stores *)
  i_D : forall a b, a < at_cnt s -> b < at_cnt s -> a <> b -> K own s a b -> K own s b a -> False
}.

Definition Inv (st : mstate) : Prop := exists own, InvO own (fst st) (snd st).

Section InvFacts.
  Variable own : nat -> nat.
  Variable s : atomic_state.
  Variable cs : list vv.
  Hypothesis HI : InvO own s cs.

  Lemma K_trans : forall a b c, a < at_cnt s -> b < at_cnt s -> c < at_cnt s ->
    K own s a b -> K own s b c -> K own s a c.
  Proof.
    intros a b c Ha Hb Hc Hab Hbc. pose proof (i_star HI Hb Hc Hbc (own a)) as Hle.
    unfold K in *. lia.
  Qed.

  Lemma K_of_vle : forall a b, a < at_cnt s -> vle (mo s a) (mo s b) -> K own s a b.
  Proof.
    intros a b Ha Hle. pose proof (i_hbmo HI Ha) as Hk. specialize (Hle (own a)).
    unfold K in *. lia.
  Qed.

  Lemma lt_iff_K : forall a b, a < at_cnt s -> b < at_cnt s ->
    (vv_lt (mo s a) (mo s b) = true <-> (a <> b /\ K own s a b)).
  Proof.
    intros a b Ha Hb. split.
    - intros Hlt. split.
      + intros Heq. subst b. rewrite vv_lt_irrefl in Hlt. discriminate.
      + apply K_of_vle; [exact Ha|]. apply vv_lt_spec in Hlt. apply Hlt.
    - intros [Hne Hk]. apply vv_lt_spec. split; [apply (i_star HI Ha Hb Hk)|].
      exists (own b). pose proof (i_hbmo HI Hb) as Hbb. unfold K in Hbb.
      destruct (Nat.lt_ge_cases (vv_get (mo s a) (own b)) (vv_get (mo s b) (own b))) as [Hl|Hg];
        [exact Hl|].
      exfalso. apply (i_D HI Ha Hb Hne Hk). unfold K. lia.
  Qed.

  (* distinct live stores never carry equal clocks: loom's assert_ne! holds *)
  Lemma live_mo_distinct : forall a b, a < at_cnt s -> b < at_cnt s -> a <> b ->
    vv_eqb (mo s a) (mo s b) = false.
  Proof.
    intros a b Ha Hb Hne. destruct (vv_eqb (mo s a) (mo s b)) eqn:He; [|reflexivity].
    exfalso. rewrite vv_eqb_spec in He.
    apply (i_D HI Ha Hb Hne).
    - apply K_of_vle; [exact Ha|]. intros q. rewrite (He q). lia.
    - apply K_of_vle; [exact Hb|]. intros q. rewrite (He q). lia.
  Qed.

  Lemma key_seen : forall a c, a < at_cnt s -> hbk own s a <= vv_get c (own a) ->
    is_seen_by_current (st_seen (get_store s a)) c = true.
  Proof.
    intros a c Ha Hle. apply (is_seen_by_current_hit _ (own a) c (i_seen HI Ha) Hle).
  Qed.

  Lemma get_store_cases : forall k, k < at_cnt s \/ get_store s k = store_default.
  Proof.
    intros k. destruct (Nat.lt_ge_cases k (at_cnt s)) as [H|H]; [left; exact H|].
    right. apply (i_dead HI). exact H.
  Qed.
End InvFacts.

(* ================================================================== *)
(* 5. the load phase of the c0421c4 rule                                 *)

Lemma alc_eq : forall s c idx,
  alc_c0421c4 s c idx =
  at_set_stores s
    (if vv_eqb (alc_mo s c idx) (st_mo (get_store s idx))
     then list_upd (at_stores s) idx (fun x => st_set_mo x (alc_mo s c idx))
     else mapi (fun i x => if negb (Nat.eqb idx i) && vv_lt (st_mo (get_store s idx)) (st_mo x)
                           then st_set_mo x (vv_join (st_mo x) (alc_mo s c idx)) else x)
               (list_upd (at_stores s) idx (fun x => st_set_mo x (alc_mo s c idx))))
    (at_cnt s).
Proof. reflexivity. Qed.

Lemma loadpart_tr_get : forall s t c idx k,
  length (at_stores s) = MAX_ATOMIC_HISTORY -> idx < MAX_ATOMIC_HISTORY -> k < MAX_ATOMIC_HISTORY ->
  get_store (loadpart_g RC0421 s t c idx) k =
    if Nat.eqb k idx
    then st_set_seen (st_set_mo (get_store s idx) (alc_mo s c idx))
                     (seen_touch (st_seen (get_store s idx)) t (vv_get c t))
    else if vv_eqb (alc_mo s c idx) (mo s idx) then get_store s k
    else if vv_lt (mo s idx) (mo s k)
         then st_set_mo (get_store s k) (vv_join (mo s k) (alc_mo s c idx))
         else get_store s k.
Proof.
  intros s t c idx k Hlen Hidx Hk.
  unfold loadpart_g, alc_g. rewrite alc_eq. cbv zeta. unfold mo.
  set (M := alc_mo s c idx). set (B := st_mo (get_store s idx)).
  set (st2 := list_upd (at_stores s) idx (fun x => st_set_mo x M)).
  assert (Hl2 : length st2 = MAX_ATOMIC_HISTORY) by (unfold st2; rewrite list_upd_length; exact Hlen).
  assert (Hg2 : forall j, nth j st2 store_default =
                  if Nat.eqb j idx then st_set_mo (get_store s idx) M else get_store s j).
  { intros j. unfold st2. rewrite (@list_upd_nth astore (at_stores s) idx _ j store_default)
      by (rewrite Hlen; exact Hidx). reflexivity. }
  unfold get_store at 1. cbn [at_stores at_set_stores at_cnt].
  destruct (vv_eqb M B) eqn:He.
  - rewrite (@list_upd_nth astore st2 idx _ k store_default) by (rewrite Hl2; exact Hidx).
    rewrite !Hg2. rewrite Nat.eqb_refl. destruct (Nat.eqb k idx); reflexivity.
  - match goal with |- context [mapi ?g st2] => set (G := g) end.
    assert (Hl3 : length (mapi G st2) = MAX_ATOMIC_HISTORY).
    { unfold mapi. rewrite mapi_from_length. exact Hl2. }
    rewrite (@list_upd_nth astore (mapi G st2) idx _ k store_default) by (rewrite Hl3; exact Hidx).
    assert (Hm : forall j, j < MAX_ATOMIC_HISTORY ->
               nth j (mapi G st2) store_default = G j (nth j st2 store_default)).
    { intros j Hj. unfold mapi.
      rewrite (@mapi_from_nth astore astore G st2 0 j store_default store_default)
        by (rewrite Hl2; exact Hj). reflexivity. }
    rewrite (Hm idx Hidx), (Hm k Hk), !Hg2, Nat.eqb_refl.
    destruct (Nat.eqb_spec k idx) as [Heq|Hne].
    + subst k. unfold G. rewrite Nat.eqb_refl. cbn [negb andb]. reflexivity.
    + unfold G. destruct (Nat.eqb_spec idx k) as [Heq|_]; [lia|]. cbn [negb andb]. reflexivity.
Qed.

Lemma loadpart_tr_frame : forall s t c idx,
  let s' := loadpart_g RC0421 s t c idx in
  at_cnt s' = at_cnt s /\ at_mutating s' = at_mutating s /\
  at_unsync_mut s' = at_unsync_mut s /\ at_unsync_loaded s' = at_unsync_loaded s /\
  length (at_stores s') = length (at_stores s).
Proof.
  intros s t c idx. cbv zeta. repeat split.
  unfold loadpart_g, alc_g. rewrite alc_eq. cbv zeta. cbn [at_stores at_set_stores].
  rewrite list_upd_length.
  destruct (vv_eqb (alc_mo s c idx) (st_mo (get_store s idx)));
    [|unfold mapi; rewrite mapi_from_length]; apply list_upd_length.
Qed.

(* the vectors joined into the loaded store: clocks of OTHER stores the
   loading thread has seen (or the zero clock of an empty slot) *)
Definition PS (s : atomic_state) (c : vv) (idx : nat) (g : vv) : Prop :=
  g = vv_new \/
  exists x, x < at_cnt s /\ x <> idx /\ g = mo s x /\
            (is_seen_by_current (st_seen (get_store s x)) c = true \/
             vv_lt (st_hb (get_store s x)) c = true).

Lemma alc_mo_jn : forall own s cs c idx,
  InvO own s cs -> jn (PS s c idx) (mo s idx) (alc_mo s c idx).
Proof.
  intros own s cs c idx HI. unfold alc_mo. apply jn_fold.
  intros m [i x] Hin. apply (@index_list_In astore _ i x store_default) in Hin.
  destruct Hin as [Hi Hx].
  destruct (Nat.eqb_spec idx i) as [Heq|Hne]; [apply jn_refl|].
  assert (HP : is_seen_by_current (st_seen x) c = true \/ vv_lt (st_hb x) c = true ->
               PS s c idx (st_mo x)).
  { intros Hcond. destruct (get_store_cases HI i) as [Hlive|Hdead].
    - right. exists i. split; [exact Hlive|]. split; [lia|]. split.
      + unfold mo, get_store. rewrite Hx. reflexivity.
      + unfold get_store. rewrite <- Hx. exact Hcond.
    - left. unfold get_store in Hdead. rewrite Hx, Hdead. reflexivity. }
  destruct (is_seen_by_current (st_seen x) c) eqn:Hs; destruct (vv_lt (st_hb x) c) eqn:Hh.
  - eapply jn_trans; apply jn_step; apply HP; left; reflexivity.
  - apply jn_step. apply HP. left. reflexivity.
  - apply jn_step. apply HP. right. reflexivity.
  - apply jn_refl.
Qed.

Section LoadPhase.
  Variable own : nat -> nat.
  Variable s : atomic_state.
  Variable cs : list vv.
  Variables (t : nat) (c : vv) (idx : nat).
  Hypothesis HI : InvO own s cs.
  Hypothesis Hidx : idx < at_cnt s.
  (* the candidate condition of the load (match_load_to_stores / match_rmw_to_stores) *)
  Hypothesis Hcand : forall x, x < at_cnt s -> x <> idx ->
    is_seen_by_current (st_seen (get_store s x)) c = true ->
    vv_lt (mo s idx) (mo s x) = false.

  Let s' := loadpart_g RC0421 s t c idx.
  Let M := alc_mo s c idx.
  Let C (k : nat) : Prop := k = idx \/ vv_lt (mo s idx) (mo s k) = true.

  Lemma lp_live7 : forall k, k < at_cnt s -> k < MAX_ATOMIC_HISTORY.
  Proof. intros k Hk. pose proof (i_cnt7 HI). lia. Qed.

  Lemma lp_get : forall k, k < MAX_ATOMIC_HISTORY ->
    get_store s' k =
      if Nat.eqb k idx
      then st_set_seen (st_set_mo (get_store s idx) M)
                       (seen_touch (st_seen (get_store s idx)) t (vv_get c t))
      else if vv_eqb M (mo s idx) then get_store s k
      else if vv_lt (mo s idx) (mo s k)
           then st_set_mo (get_store s k) (vv_join (mo s k) M)
           else get_store s k.
  Proof.
    intros k Hk. apply loadpart_tr_get; [apply (i_len HI) | apply lp_live7; exact Hidx | exact Hk].
  Qed.

  Lemma lp_mo : forall k, k < MAX_ATOMIC_HISTORY ->
    mo s' k = if Nat.eqb k idx then M
              else if vv_eqb M (mo s idx) then mo s k
              else if vv_lt (mo s idx) (mo s k) then vv_join (mo s k) M else mo s k.
  Proof.
    intros k Hk. unfold mo at 1. rewrite (lp_get Hk).
    destruct (Nat.eqb k idx); [reflexivity|].
    destruct (vv_eqb M (mo s idx)); [reflexivity|].
    destruct (vv_lt (mo s idx) (mo s k)); reflexivity.
  Qed.

  Lemma lp_eqb_le : forall k, vv_eqb M (mo s idx) = true ->
    vv_lt (mo s idx) (mo s k) = true -> vle M (mo s k).
  Proof.
    intros k He Hlt. rewrite vv_eqb_spec in He. apply vv_lt_spec in Hlt. destruct Hlt as [Hle _].
    intros q. rewrite (He q). apply Hle.
  Qed.

  Lemma lp_hb : forall k, k < MAX_ATOMIC_HISTORY ->
    st_hb (get_store s' k) = st_hb (get_store s k).
  Proof.
    intros k Hk. rewrite (lp_get Hk).
    destruct (Nat.eqb_spec k idx) as [Heq|_]; [subst k; reflexivity|].
    destruct (vv_eqb M (mo s idx)); [reflexivity|].
    destruct (vv_lt (mo s idx) (mo s k)); reflexivity.
  Qed.

  Lemma lp_sync : forall k, k < MAX_ATOMIC_HISTORY ->
    st_sync (get_store s' k) = st_sync (get_store s k).
  Proof.
    intros k Hk. rewrite (lp_get Hk).
    destruct (Nat.eqb_spec k idx) as [Heq|_]; [subst k; reflexivity|].
    destruct (vv_eqb M (mo s idx)); [reflexivity|].
    destruct (vv_lt (mo s idx) (mo s k)); reflexivity.
  Qed.

  Lemma lp_seen : forall k, k < MAX_ATOMIC_HISTORY ->
    st_seen (get_store s' k) =
    if Nat.eqb k idx then seen_touch (st_seen (get_store s idx)) t (vv_get c t)
    else st_seen (get_store s k).
  Proof.
    intros k Hk. rewrite (lp_get Hk).
    destruct (Nat.eqb_spec k idx) as [Heq|_]; [reflexivity|].
    destruct (vv_eqb M (mo s idx)); [reflexivity|].
    destruct (vv_lt (mo s idx) (mo s k)); reflexivity.
  Qed.

  Lemma lp_hbk : forall k, k < MAX_ATOMIC_HISTORY -> hbk own s' k = hbk own s k.
  Proof. intros k Hk. unfold hbk. rewrite (lp_hb Hk). reflexivity. Qed.

  Lemma lp_jn : jn (PS s c idx) (mo s idx) M.
  Proof. apply (alc_mo_jn c idx HI). Qed.

  Lemma lp_grow : forall k, k < MAX_ATOMIC_HISTORY -> vle (mo s k) (mo s' k).
  Proof.
    intros k Hk. rewrite (lp_mo Hk). destruct (Nat.eqb_spec k idx) as [Heq|_].
    - subst k. apply lp_jn.
    - destruct (vv_eqb M (mo s idx)); [apply vle_refl|].
      destruct (vv_lt (mo s idx) (mo s k)); [apply vle_join_l | apply vle_refl].
  Qed.

  Lemma lp_C_M : forall k, k < MAX_ATOMIC_HISTORY -> C k -> vle M (mo s' k).
  Proof.
    intros k Hk HC. rewrite (lp_mo Hk). destruct (Nat.eqb_spec k idx) as [Heq|Hne]; [apply vle_refl|].
    destruct HC as [Heq|Hlt]; [contradiction|].
    destruct (vv_eqb M (mo s idx)) eqn:He; [apply (lp_eqb_le k He Hlt)|].
    rewrite Hlt. apply vle_join_r.
  Qed.

  Lemma lp_notC : forall k, k < MAX_ATOMIC_HISTORY -> ~ C k -> mo s' k = mo s k.
  Proof.
    intros k Hk HC. rewrite (lp_mo Hk). destruct (Nat.eqb_spec k idx) as [Heq|Hne].
    - exfalso. apply HC. left. exact Heq.
    - destruct (vv_eqb M (mo s idx)); [reflexivity|].
      destruct (vv_lt (mo s idx) (mo s k)) eqn:Hlt; [|reflexivity].
      exfalso. apply HC. right. exact Hlt.
  Qed.

  Lemma lp_C_dec : forall k, C k \/ ~ C k.
  Proof.
    intros k. unfold C. destruct (Nat.eq_dec k idx) as [Heq|Hne]; [left; left; exact Heq|].
    destruct (vv_lt (mo s idx) (mo s k)); [left; right; reflexivity|].
    right. intros [H|H]; [contradiction|discriminate].
  Qed.

  Lemma lp_C_K : forall k, k < at_cnt s -> (C k <-> K own s idx k).
  Proof.
    intros k Hk. unfold C. split.
    - intros [Heq|Hlt]; [subst k; apply (i_hbmo HI Hidx)|].
      apply (lt_iff_K HI Hidx Hk) in Hlt. apply Hlt.
    - intros HK. destruct (Nat.eq_dec k idx) as [Heq|Hne]; [left; exact Heq|].
      right. apply (lt_iff_K HI Hidx Hk). split; [lia | exact HK].
  Qed.

  (* a joined vector is the zero clock or the clock of a seen live store *)
  Lemma lp_PS : forall g, PS s c idx g ->
    g = vv_new \/
    exists x, x < at_cnt s /\ x <> idx /\ g = mo s x /\
              is_seen_by_current (st_seen (get_store s x)) c = true.
  Proof.
    intros g [H0|[x [Hx [Hne [Hg Hcond]]]]]; [left; exact H0|].
    right. exists x. split; [exact Hx|]. split; [exact Hne|]. split; [exact Hg|].
    destruct Hcond as [Hs|Hh]; [exact Hs|].
    apply (key_seen HI c Hx). apply vv_lt_spec in Hh. destruct Hh as [Hle _].
    apply (Hle (own x)).
  Qed.

  Lemma lp_seen_notK : forall x, x < at_cnt s -> x <> idx ->
    is_seen_by_current (st_seen (get_store s x)) c = true -> ~ K own s idx x.
  Proof.
    intros x Hx Hne Hs HK.
    assert (Hlt : vv_lt (mo s idx) (mo s x) = true).
    { apply (lt_iff_K HI Hidx Hx). split; [lia | exact HK]. }
    rewrite (Hcand Hx Hne Hs) in Hlt. discriminate.
  Qed.

  (* where the knowledge of a key in a new clock comes from *)
  Lemma lp_K' : forall a b, a < at_cnt s -> b < at_cnt s -> K own s' a b ->
    K own s a b \/
    (C b /\ exists x, x < at_cnt s /\ x <> idx /\
                      is_seen_by_current (st_seen (get_store s x)) c = true /\
                      K own s a x /\ vle (mo s x) M).
  Proof.
    intros a b Ha Hb HK. unfold K in HK. rewrite (lp_hbk (lp_live7 Ha)) in HK.
    assert (HfromM : hbk own s a <= vv_get M (own a) ->
              K own s a idx \/
              exists x, x < at_cnt s /\ x <> idx /\
                        is_seen_by_current (st_seen (get_store s x)) c = true /\
                        K own s a x /\ vle (mo s x) M).
    { intros HM. destruct lp_jn as [_ Hq]. destruct (Hq (own a)) as [Heq|[g [Hg [Hle Heq]]]].
      - left. unfold K. lia.
      - destruct (lp_PS Hg) as [H0|[x [Hx [Hne [Hgx Hs]]]]].
        + subst g. rewrite vv_new_get in Heq. destruct (i_key1 HI Ha) as [Hk1|Hz]; [lia|].
          left. unfold K. pose proof (i_hbmo HI Ha) as Hkk. unfold K in Hkk. rewrite (Hz (own a)) in Hkk. lia.
        + right. exists x. subst g. repeat split; try assumption. unfold K. lia. }
    rewrite (lp_mo (lp_live7 Hb)) in HK.
    destruct (Nat.eqb_spec b idx) as [Heq|Hne].
    - subst b. destruct (HfromM HK) as [H1|H2]; [left; exact H1|].
      right. split; [left; reflexivity | exact H2].
    - destruct (vv_eqb M (mo s idx)); [left; exact HK|].
      destruct (vv_lt (mo s idx) (mo s b)) eqn:Hlt; [|left; exact HK].
      rewrite vv_get_join in HK.
      destruct (Nat.le_gt_cases (hbk own s a) (vv_get (mo s b) (own a))) as [H1|H1]; [left; exact H1|].
      assert (HM : hbk own s a <= vv_get M (own a)) by lia.
      destruct (HfromM HM) as [H2|H2].
      + left. apply (K_trans HI Ha Hidx Hb H2). apply (lp_C_K Hb). right. exact Hlt.
      + right. split; [right; exact Hlt | exact H2].
  Qed.

  Lemma lp_C_noX : forall a x, a < at_cnt s -> C a -> x < at_cnt s -> x <> idx ->
    is_seen_by_current (st_seen (get_store s x)) c = true -> K own s a x -> False.
  Proof.
    intros a x Ha HC Hx Hne Hs HK.
    apply (lp_seen_notK Hx Hne Hs). apply (K_trans HI Hidx Ha Hx); [|exact HK].
    apply (lp_C_K Ha). exact HC.
  Qed.

  Lemma lp_vle : forall a b, a < at_cnt s -> b < at_cnt s -> K own s a b -> vle (mo s' a) (mo s' b).
  Proof.
    intros a b Ha Hb HK. pose proof (i_star HI Ha Hb HK) as Hle.
    destruct (lp_C_dec a) as [HCa|HCa].
    - assert (HCb : C b).
      { apply (lp_C_K Hb). apply (K_trans HI Hidx Ha Hb); [|exact HK]. apply (lp_C_K Ha). exact HCa. }
      pose proof (lp_C_M (lp_live7 Hb) HCb) as HMb.
      pose proof (lp_grow (lp_live7 Hb)) as Hgb.
      rewrite (lp_mo (lp_live7 Ha)).
      destruct (Nat.eqb_spec a idx) as [Heq|Hne]; [exact HMb|].
      destruct (vv_eqb M (mo s idx)); [eapply vle_trans; eassumption|].
      destruct (vv_lt (mo s idx) (mo s a)).
      + apply vle_join_lub; [eapply vle_trans; eassumption | exact HMb].
      + eapply vle_trans; eassumption.
    - rewrite (lp_notC (lp_live7 Ha) HCa). eapply vle_trans; [exact Hle|].
      apply (lp_grow (lp_live7 Hb)).
  Qed.

  Lemma vv_lt_zero : forall x b, (forall q, vv_get b q = 0) -> vv_lt x b = false.
  Proof.
    intros x b Hz. destruct (vv_lt x b) eqn:H; [|reflexivity].
    apply vv_lt_spec in H. destruct H as [_ [i Hi]]. rewrite (Hz i) in Hi. lia.
  Qed.

  (* a bottom store stays a bottom store *)
  Lemma lp_bottom : forall a, a < at_cnt s -> (forall q, vv_get (mo s a) q = 0) ->
    forall q, vv_get (mo s' a) q = 0.
  Proof.
    intros a Ha Hz q. rewrite (lp_mo (lp_live7 Ha)).
    destruct (Nat.eqb_spec a idx) as [Heq|Hne].
    - subst a. destruct lp_jn as [_ Hq]. destruct (Hq q) as [Heq|[g [Hg [_ Heq]]]].
      + rewrite Heq. apply Hz.
      + destruct (lp_PS Hg) as [H0|[x [Hx [Hnx [Hgx Hs]]]]].
        * subst g. rewrite Heq. apply vv_new_get.
        * exfalso. apply (lp_seen_notK Hx Hnx Hs). unfold K.
          pose proof (i_hbmo HI Hidx) as Hkk. unfold K in Hkk. rewrite (Hz (own idx)) in Hkk. lia.
    - destruct (vv_eqb M (mo s idx)); [apply Hz|].
      rewrite (@vv_lt_zero (mo s idx) (mo s a) Hz). apply Hz.
  Qed.

  Lemma load_phase_inv : InvO own s' cs.
  Proof.
    destruct (loadpart_tr_frame s t c idx) as [Fc [Fm [Fum [Ful Fl]]]]. fold s' in Fc, Fm, Fum, Ful, Fl.
    constructor.
    - rewrite Fl. apply (i_len HI).
    - rewrite Fc. apply (i_cnt1 HI).
    - rewrite Fc. apply (i_cnt7 HI).
    - rewrite Fm. apply (i_mut HI).
    - apply (i_nthr HI).
    - apply (i_clen HI).
    - intros a Ha. rewrite Fc in Ha.
      destruct (Nat.lt_ge_cases a MAX_ATOMIC_HISTORY) as [H7|H7].
      + rewrite (lp_get H7). destruct (Nat.eqb_spec a idx) as [Heq|_]; [lia|].
        destruct (vv_eqb M (mo s idx)); [apply (i_dead HI Ha)|].
        unfold mo at 2. rewrite (i_dead HI Ha). cbn [st_mo store_default].
        rewrite vv_lt_new_false. reflexivity.
      + unfold get_store. apply nth_overflow. rewrite Fl, (i_len HI). exact H7.
    - intros a Ha. rewrite Fc in Ha. apply (i_own HI Ha).
    - intros a Ha. rewrite Fc in Ha. rewrite (lp_hbk (lp_live7 Ha)).
      destruct (i_key1 HI Ha) as [Hk1|Hz]; [left; exact Hk1 | right; apply (lp_bottom Ha Hz)].
    - intros a Ha. rewrite Fc in Ha. rewrite (lp_hbk (lp_live7 Ha)), (lp_seen (lp_live7 Ha)).
      destruct (Nat.eqb_spec a idx) as [Heq|_].
      + subst a. apply seen_touch_keeps. apply (i_seen HI Hidx).
      + apply (i_seen HI Ha).
    - intros a Ha. rewrite Fc in Ha. unfold K. rewrite (lp_hbk (lp_live7 Ha)).
      pose proof (i_hbmo HI Ha) as Hk. pose proof (lp_grow (lp_live7 Ha) (own a)) as Hg.
      unfold K in Hk. lia.
    - intros a u Ha Hu. rewrite Fc in Ha.
      assert (HMu : vv_get M u <= vv_get (clk cs u) u).
      { destruct lp_jn as [_ Hq]. destruct (Hq u) as [Heq|[g [Hg [_ Heq]]]].
        - rewrite Heq. apply (i_bmo HI Hidx Hu).
        - rewrite Heq. destruct (lp_PS Hg) as [H0|[x [Hx [_ [Hgx _]]]]].
          + subst g. rewrite vv_new_get. lia.
          + subst g. apply (i_bmo HI Hx Hu). }
      rewrite (lp_mo (lp_live7 Ha)). destruct (Nat.eqb a idx); [exact HMu|].
      pose proof (i_bmo HI Ha Hu) as Hb.
      destruct (vv_eqb M (mo s idx)); [exact Hb|].
      destruct (vv_lt (mo s idx) (mo s a)); [rewrite vv_get_join; lia | exact Hb].
    - intros a u Ha Hu. rewrite Fc in Ha. rewrite (lp_sync (lp_live7 Ha)). apply (i_bsync HI Ha Hu).
    - apply (i_bclk HI).
    - intros a b Ha Hb HK. rewrite Fc in Ha, Hb.
      destruct (lp_K' Ha Hb HK) as [H1|[HCb [x [Hx [Hne [Hs [Hax HxM]]]]]]].
      + apply (lp_vle Ha Hb H1).
      + destruct (lp_C_dec a) as [HCa|HCa]; [exfalso; apply (lp_C_noX Ha HCa Hx Hne Hs Hax)|].
        rewrite (lp_notC (lp_live7 Ha) HCa).
        eapply vle_trans; [apply (i_star HI Ha Hx Hax)|].
        eapply vle_trans; [exact HxM | apply (lp_C_M (lp_live7 Hb) HCb)].
    - intros a b Ha Hb Hne HKab HKba. rewrite Fc in Ha, Hb.
      destruct (lp_K' Ha Hb HKab) as [H1|[HCb [x [Hx [Hnx [Hs [Hax _]]]]]]];
      destruct (lp_K' Hb Ha HKba) as [H2|[HCa [y [Hy [Hny [Hsy [Hby _]]]]]]].
      + apply (i_D HI Ha Hb Hne H1 H2).
      + (* a in C, K b y, K a b: then b in C *)
        assert (HCb : C b).
        { apply (lp_C_K Hb). apply (K_trans HI Hidx Ha Hb); [|exact H1]. apply (lp_C_K Ha). exact HCa. }
        apply (lp_C_noX Hb HCb Hy Hny Hsy Hby).
      + assert (HCa : C a).
        { apply (lp_C_K Ha). apply (K_trans HI Hidx Hb Ha); [|exact H2]. apply (lp_C_K Hb). exact HCb. }
        apply (lp_C_noX Ha HCa Hx Hnx Hs Hax).
      + apply (lp_C_noX Ha HCa Hx Hnx Hs Hax).
  Qed.
End LoadPhase.

(* ================================================================== *)
(* 6. clocks, frames                                                    *)

Lemma InvO_frame : forall own s s' cs,
  InvO own s cs ->
  at_mutating s' = at_mutating s -> at_unsync_mut s' = at_unsync_mut s ->
  at_unsync_loaded s' = at_unsync_loaded s ->
  at_stores s' = at_stores s -> at_cnt s' = at_cnt s ->
  InvO own s' cs.
Proof.
  intros own s s' cs HI Hm Hum Hul Hst Hc.
  destruct s as [lo ul sd um mu ll ln st cn].
  destruct s' as [lo' ul' sd' um' mu' ll' ln' st' cn'].
  simpl in Hm, Hum, Hul, Hst, Hc. subst mu' um' ul' st' cn'.
  destruct HI. constructor; assumption.
Qed.

(* thread t's clock grows without learning more about another thread u than
   u knows about itself *)
Lemma InvO_clock : forall own s cs t v,
  InvO own s cs -> t < length cs -> vle (clk cs t) v -> t < length v ->
  (forall u, u < length cs -> u <> t -> vv_get v u <= vv_get (clk cs u) u) ->
  InvO own s (list_set cs t v).
Proof.
  intros own s cs t v HI Ht Hle Hlen Hb.
  assert (Hc : forall u, clk (list_set cs t v) u = if Nat.eqb u t then v else clk cs u).
  { intros u. apply clk_set. exact Ht. }
  assert (Hown : forall u, u < length cs ->
            vv_get (clk cs u) u <= vv_get (clk (list_set cs t v) u) u).
  { intros u Hu. rewrite Hc. destruct (Nat.eqb_spec u t) as [Heq|_]; [subst u; apply Hle | lia]. }
  assert (Hgrow : forall u, vle (clk cs u) (clk (list_set cs t v) u)).
  { intros u. rewrite Hc. destruct (Nat.eqb_spec u t) as [Heq|_]; [subst u; exact Hle | apply vle_refl]. }
  destruct HI. constructor; try assumption; rewrite ?list_set_length.
  - exact i_nthr0.
  - intros u Hu. rewrite Hc. destruct (Nat.eqb_spec u t) as [Heq|_]; [subst u; exact Hlen | apply i_clen0; exact Hu].
  - exact i_own0.
  - intros a u Ha Hu. pose proof (i_bmo0 a u Ha Hu). pose proof (Hown u Hu). lia.
  - intros a u Ha Hu. pose proof (i_bsync0 a u Ha Hu). pose proof (Hown u Hu). lia.
  - intros u w Hu Hw. pose proof (Hown w Hw) as Hw'.
    rewrite (Hc u). destruct (Nat.eqb_spec u t) as [Heq|Hne].
    + subst u. destruct (Nat.eq_dec w t) as [Heq|Hne]; [subst w; rewrite Hc, Nat.eqb_refl; lia|].
      pose proof (Hb w Hw Hne). lia.
    + pose proof (i_bclk0 u w Hu Hw). lia.
Qed.

Lemma track_load_inl : forall s c s1, track_load s c = inl s1 -> s1 = tl_state s c.
Proof.
  intros s c s1 H. unfold track_load in H. destruct (at_mutating s) eqn:Hm; [discriminate|].
  destruct (vv_ahead c (at_unsync_mut s)); [discriminate|]. inversion H.
  unfold tl_state. rewrite Hm. reflexivity.
Qed.

Lemma track_store_inl : forall s c s1, track_store s c = inl s1 -> s1 = ts_state s c.
Proof.
  intros s c s1 H. unfold track_store in H. destruct (at_mutating s) eqn:Hm; [discriminate|].
  destruct (vv_ahead c (at_unsync_mut s)); [discriminate|].
  destruct (vv_ahead c (at_unsync_loaded s)); [discriminate|]. inversion H.
  unfold ts_state. rewrite Hm. reflexivity.
Qed.

Lemma InvO_tl : forall own s cs c, InvO own s cs -> InvO own (tl_state s c) cs.
Proof. intros own s cs c HI. apply (@InvO_frame own s (tl_state s c) cs HI); reflexivity. Qed.
Lemma InvO_ts : forall own s cs c, InvO own s cs -> InvO own (ts_state s c) cs.
Proof. intros own s cs c HI. apply (@InvO_frame own s (ts_state s c) cs HI); reflexivity. Qed.

(* ================================================================== *)
(* 7. the store phase (State::store_from)                               *)

Definition PT (stores : list astore) (g : vv) : Prop := exists x, In x stores /\ g = st_mo x.

Lemma store_mo_jn : forall s c, jn (PT (at_stores s)) c (store_mo s c).
Proof.
  intros s c. unfold store_mo. apply jn_fold. intros m a Ha.
  destruct (is_seen_by_current (st_seen a) c); [|apply jn_refl].
  apply jn_step. exists a. split; [exact Ha | reflexivity].
Qed.

Lemma pass_jn : forall stores src l m ch,
  (forall x, In x l -> In x stores) ->
  jn (PT stores) m (fst (fold_left (pass_step stores src) l (m, ch))).
Proof.
  intros stores src l. induction l as [|a l IH]; intros m ch Hsub.
  - apply jn_refl.
  - cbn [fold_left]. rewrite pass_step_eq.
    assert (Hsub' : forall x, In x l -> In x stores) by (intros x Hx; apply Hsub; right; exact Hx).
    destruct (rmw_link stores src a) as [w|]; [|apply IH; exact Hsub'].
    destruct (vv_le w m && negb (vv_le (st_mo a) m)); [|apply IH; exact Hsub'].
    eapply jn_trans; [|apply IH; exact Hsub'].
    apply jn_step. exists a. split; [apply Hsub; left; reflexivity | reflexivity].
Qed.

Lemma rmw_atomicity_jn : forall fuel stores src m,
  jn (PT stores) m (rmw_atomicity fuel stores src m).
Proof.
  induction fuel as [|f IH]; intros stores src m; [apply jn_refl|].
  cbn [rmw_atomicity].
  pose proof (@pass_jn stores src stores m false (fun x H => H)) as Hp.
  rewrite <- rmw_atomicity_pass_fold in Hp.
  destruct (rmw_atomicity_pass stores src m) as [mo' changed]. cbn [fst] in Hp.
  destruct changed; [|exact Hp].
  eapply jn_trans; [exact Hp | apply IH].
Qed.

Lemma store_from_mo_jn : forall s c src, jn (PT (at_stores s)) c (store_from_mo s c src).
Proof.
  intros s c src. unfold store_from_mo.
  eapply jn_trans; [apply store_mo_jn | apply rmw_atomicity_jn].
Qed.

Lemma aindex_small : forall n, n < MAX_ATOMIC_HISTORY -> aindex n = n.
Proof. intros n Hn. unfold aindex. apply Nat.mod_small. exact Hn. Qed.

Lemma sync_store_bound : forall sync0 c rel o u b,
  vv_get sync0 u <= b -> vv_get c u <= b -> vv_get rel u <= b ->
  vv_get (sync_store sync0 c rel o) u <= b.
Proof.
  intros sync0 c rel o u b H0 Hc Hr. unfold sync_store.
  destruct (ord_rel o); rewrite ?vv_get_join; lia.
Qed.

Section StorePhase.
  Variable own : nat -> nat.
  Variable s : atomic_state.
  Variable cs : list vv.
  Variables (t : nat) (c sync0 : vv) (v : N) (o : ord) (src : option (nat * nat)).
  (* the clock of the thread's last release fence: Ops.v passes t_rel *)
  Variable rel : vv.
  Hypothesis HI : InvO own s cs.
  Hypothesis Ht : t < length cs.
  Hypothesis Hroom : at_cnt s < MAX_ATOMIC_HISTORY.
  Hypothesis Hle : vle (clk cs t) c.
  Hypothesis Hfr : vv_get (clk cs t) t < vv_get c t.
  Hypothesis Hlen : t < length c.
  Hypothesis Hoth : forall u, u < length cs -> u <> t -> vv_get c u <= vv_get (clk cs u) u.
  Hypothesis Hsync0 : forall u, u < length cs ->
    vv_get sync0 u <= vv_get (clk (list_set cs t c) u) u.
  Hypothesis Hrel : vle rel c.

  Let n := at_cnt s.
  Let cs' := list_set cs t c.
  Let s' := atomic_store_from s t c rel sync0 v o src.
  Let own' := fun k => if Nat.eqb k n then t else own k.
  Let MN := store_from_mo s c src.
  Let newst := mkStore v c MN (sync_store sync0 c rel o)
                       (seen_touch seen_new t (vv_get c t)) (is_seq_cst o) n src.

  Lemma sp_HI2 : InvO own s cs'.
  Proof. apply (InvO_clock HI Ht Hle Hlen Hoth). Qed.

  Lemma sp_clk_t : clk cs' t = c.
  Proof. unfold cs'. rewrite (clk_set cs t c t Ht). rewrite Nat.eqb_refl. reflexivity. Qed.

  Lemma sp_get : forall k, get_store s' k = if Nat.eqb k n then newst else get_store s k.
  Proof.
    intros k. unfold s', atomic_store_from. cbv zeta.
    rewrite (aindex_small Hroom).
    apply (get_store_set s newst (S (at_cnt s)) k). rewrite (i_len HI). exact Hroom.
  Qed.

  Lemma sp_old : forall k, k < n -> get_store s' k = get_store s k.
  Proof. intros k Hk. rewrite sp_get. destruct (Nat.eqb_spec k n); [lia | reflexivity]. Qed.

  Lemma sp_cnt : at_cnt s' = S n.
  Proof. reflexivity. Qed.

  Lemma sp_fresh : forall a, a < n -> vv_get (mo s a) t < vv_get c t.
  Proof. intros a Ha. pose proof (i_bmo HI Ha Ht). lia. Qed.

  Lemma sp_PT : forall g, PT (at_stores s) g -> g = vv_new \/ exists x, x < n /\ g = mo s x.
  Proof.
    intros g [x [Hin Hg]]. apply (In_nth _ _ store_default) in Hin. destruct Hin as [k [_ Hk]].
    destruct (get_store_cases HI k) as [Hl|Hd].
    - right. exists k. split; [exact Hl|]. unfold mo, get_store. rewrite Hk. exact Hg.
    - left. unfold get_store in Hd. rewrite Hk in Hd. rewrite Hg, Hd. reflexivity.
  Qed.

  Lemma sp_seen_le : forall a, a < n ->
    is_seen_by_current (st_seen (get_store s a)) c = true -> vle (mo s a) MN.
  Proof.
    intros a Ha Hs. apply store_from_mo_ge_seen; [|exact Hs].
    unfold get_store. apply nth_In. rewrite (i_len HI). unfold n in Ha. lia.
  Qed.

  Lemma sp_KN : forall a, a < n -> hbk own s a <= vv_get MN (own a) -> vle (mo s a) MN.
  Proof.
    intros a Ha Hk. destruct (store_from_mo_jn s c src) as [_ Hq]. fold MN in Hq.
    destruct (Hq (own a)) as [Heq|[g [Hg [HgN Heq]]]].
    - apply (sp_seen_le Ha). apply (key_seen HI c Ha). lia.
    - destruct (sp_PT Hg) as [H0|[x [Hx Hgx]]].
      + subst g. rewrite vv_new_get in Heq. destruct (i_key1 HI Ha) as [Hk1|Hz]; [lia|].
        intros q. rewrite (Hz q). lia.
      + subst g. eapply vle_trans; [|exact HgN]. apply (i_star HI Ha Hx). unfold K. lia.
  Qed.

  Lemma sp_hbk_old : forall a, a < n -> hbk own' s' a = hbk own s a.
  Proof.
    intros a Ha. unfold hbk, own'. rewrite (sp_old Ha).
    destruct (Nat.eqb_spec a n); [lia | reflexivity].
  Qed.
  Lemma sp_own_old : forall a, a < n -> own' a = own a.
  Proof. intros a Ha. unfold own'. destruct (Nat.eqb_spec a n); [lia | reflexivity]. Qed.
  Lemma sp_mo_old : forall a, a < n -> mo s' a = mo s a.
  Proof. intros a Ha. unfold mo. rewrite (sp_old Ha). reflexivity. Qed.
  Lemma sp_getn : get_store s' n = newst.
  Proof. rewrite sp_get. rewrite Nat.eqb_refl. reflexivity. Qed.
  Lemma sp_hbk_n : hbk own' s' n = vv_get c t.
  Proof. unfold hbk, own'. rewrite sp_getn. rewrite Nat.eqb_refl. reflexivity. Qed.
  Lemma sp_mo_n : mo s' n = MN.
  Proof. unfold mo. rewrite sp_getn. reflexivity. Qed.
  Lemma sp_own_n : own' n = t.
  Proof. unfold own'. rewrite Nat.eqb_refl. reflexivity. Qed.

  Lemma sp_cases : forall a, a < S n -> a < n \/ a = n.
  Proof. intros a Ha. lia. Qed.

  Lemma sp_K_old : forall a b, a < n -> b < n -> (K own' s' a b <-> K own s a b).
  Proof.
    intros a b Ha Hb. unfold K. rewrite (sp_hbk_old Ha), (sp_own_old Ha), (sp_mo_old Hb). tauto.
  Qed.

  Lemma sp_K_n_old : forall b, b < n -> ~ K own' s' n b.
  Proof.
    intros b Hb HK. unfold K in HK. rewrite sp_hbk_n, sp_own_n, (sp_mo_old Hb) in HK.
    pose proof (sp_fresh Hb). lia.
  Qed.

  Lemma store_phase_inv : InvO own' s' cs'.
  Proof.
    pose proof sp_HI2 as H2.
    assert (HcN : vle c MN) by apply store_from_mo_ge_caus.
    constructor.
    - unfold s', atomic_store_from. cbv zeta. cbn [at_stores at_set_stores].
      rewrite list_set_length. apply (i_len HI).
    - rewrite sp_cnt. lia.
    - rewrite sp_cnt. unfold n. lia.
    - apply (i_mut HI).
    - apply (i_nthr H2).
    - apply (i_clen H2).
    - intros a Ha. rewrite sp_cnt in Ha. rewrite sp_get.
      destruct (Nat.eqb_spec a n); [lia|]. apply (i_dead HI). unfold n in Ha. lia.
    - intros a Ha. rewrite sp_cnt in Ha. destruct (sp_cases Ha) as [Hl|He].
      + rewrite (sp_own_old Hl). apply (i_own H2 Hl).
      + subst a. rewrite sp_own_n. unfold cs'. rewrite list_set_length. exact Ht.
    - intros a Ha. rewrite sp_cnt in Ha. destruct (sp_cases Ha) as [Hl|He].
      + rewrite (sp_hbk_old Hl), (sp_mo_old Hl). apply (i_key1 HI Hl).
      + subst a. left. rewrite sp_hbk_n. lia.
    - intros a Ha. rewrite sp_cnt in Ha. destruct (sp_cases Ha) as [Hl|He].
      + rewrite (sp_hbk_old Hl), (sp_own_old Hl), (sp_old Hl). apply (i_seen HI Hl).
      + subst a. rewrite sp_hbk_n, sp_own_n, sp_getn. cbn [st_seen newst].
        apply seen_touch_new. pose proof (i_nthr HI). lia.
    - intros a Ha. rewrite sp_cnt in Ha. destruct (sp_cases Ha) as [Hl|He].
      + apply (sp_K_old Hl Hl). apply (i_hbmo HI Hl).
      + subst a. unfold K. rewrite sp_hbk_n, sp_own_n, sp_mo_n. apply HcN.
    - intros a u Ha Hu. rewrite sp_cnt in Ha. unfold cs' in Hu. rewrite list_set_length in Hu.
      assert (Hu' : u < length cs') by (unfold cs'; rewrite list_set_length; exact Hu).
      destruct (sp_cases Ha) as [Hl|He].
      + rewrite (sp_mo_old Hl). apply (i_bmo H2 Hl Hu').
      + subst a. rewrite sp_mo_n.
        assert (Hcu : vv_get c u <= vv_get (clk cs' u) u).
        { unfold cs'. rewrite (clk_set cs t c u Ht). destruct (Nat.eqb_spec u t) as [Heq|Hne]; [lia|].
          apply (Hoth Hu Hne). }
        destruct (store_from_mo_jn s c src) as [_ Hq]. fold MN in Hq.
        destruct (Hq u) as [Heq|[g [Hg [_ Heq]]]]; [lia|].
        destruct (sp_PT Hg) as [H0|[x [Hx Hgx]]].
        * subst g. rewrite vv_new_get in Heq. lia.
        * subst g. rewrite Heq. apply (i_bmo H2 Hx Hu').
    - intros a u Ha Hu. rewrite sp_cnt in Ha. unfold cs' in Hu. rewrite list_set_length in Hu.
      assert (Hu' : u < length cs') by (unfold cs'; rewrite list_set_length; exact Hu).
      destruct (sp_cases Ha) as [Hl|He].
      + rewrite (sp_old Hl). apply (i_bsync H2 Hl Hu').
      + subst a. rewrite sp_getn. cbn [st_sync newst]. apply sync_store_bound.
        * apply (Hsync0 Hu).
        * unfold cs'. rewrite (clk_set cs t c u Ht). destruct (Nat.eqb_spec u t) as [Heq|Hne]; [lia|].
          apply (Hoth Hu Hne).
        * eapply Nat.le_trans; [apply (Hrel u)|].
          unfold cs'. rewrite (clk_set cs t c u Ht). destruct (Nat.eqb_spec u t) as [Heq|Hne]; [lia|].
          apply (Hoth Hu Hne).
    - apply (i_bclk H2).
    - intros a b Ha Hb HK. rewrite sp_cnt in Ha, Hb.
      destruct (sp_cases Ha) as [Hla|Hea]; destruct (sp_cases Hb) as [Hlb|Heb].
      + rewrite (sp_mo_old Hla), (sp_mo_old Hlb). apply (i_star HI Hla Hlb).
        apply (sp_K_old Hla Hlb). exact HK.
      + subst b. rewrite (sp_mo_old Hla), sp_mo_n. apply (sp_KN Hla).
        unfold K in HK. rewrite (sp_hbk_old Hla), (sp_own_old Hla), sp_mo_n in HK. exact HK.
      + subst a. exfalso. apply (sp_K_n_old Hlb HK).
      + subst a b. apply vle_refl.
    - intros a b Ha Hb Hne HKab HKba. rewrite sp_cnt in Ha, Hb.
      destruct (sp_cases Ha) as [Hla|Hea]; destruct (sp_cases Hb) as [Hlb|Heb].
      + apply (i_D HI Hla Hlb Hne); [apply (sp_K_old Hla Hlb) | apply (sp_K_old Hlb Hla)]; assumption.
      + subst b. apply (sp_K_n_old Hla HKba).
      + subst a. apply (sp_K_n_old Hlb HKab).
      + lia.
  Qed.

  (* CoWW / CoRW at the store: everything the storing thread has seen is
     strictly mo-before the new store *)
  Lemma store_phase_after_seen : forall a, a < n ->
    is_seen_by_current (st_seen (get_store s a)) c = true ->
    vv_lt (mo s' a) (mo s' n) = true.
  Proof.
    intros a Ha Hs.
    assert (Han : a < at_cnt s') by (rewrite sp_cnt; lia).
    assert (Hnn : n < at_cnt s') by (rewrite sp_cnt; lia).
    apply (lt_iff_K store_phase_inv Han Hnn). split; [lia|].
    apply (@K_of_vle _ _ _ store_phase_inv a n Han).
    rewrite (sp_mo_old Ha), sp_mo_n. apply (sp_seen_le Ha Hs).
  Qed.
End StorePhase.

(* ================================================================== *)
(* 8. every step of the c0421c4 machine preserves the invariant         *)

Section StepFacts.
  Variable own : nat -> nat.
  Variable s : atomic_state.
  Variable cs : list vv.
  Variable t : nat.
  Hypothesis HI : InvO own s cs.
  Hypothesis Ht : t < length cs.
  Let c := vv_inc (clk cs t) t.

  Lemma sf_tlen : t < length (clk cs t).
  Proof. apply (i_clen HI Ht). Qed.
  Lemma sf_le : vle (clk cs t) c.
  Proof. apply vle_inc. Qed.
  Lemma sf_fr : vv_get (clk cs t) t < vv_get c t.
  Proof. unfold c. rewrite vv_get_inc_same by apply sf_tlen. lia. Qed.
  Lemma sf_len : t < length c.
  Proof. unfold c. rewrite vv_inc_length. apply sf_tlen. Qed.
  Lemma sf_oth : forall u, u < length cs -> u <> t -> vv_get c u <= vv_get (clk cs u) u.
  Proof.
    intros u Hu Hne. unfold c. rewrite vv_get_inc_other by lia. apply (i_bclk HI Ht Hu).
  Qed.
End StepFacts.

Lemma acq_clock : forall own s cs t idx o,
  InvO own s cs -> t < length cs -> idx < at_cnt s ->
  let c := vv_inc (clk cs t) t in
  let c' := sync_load c (st_sync (get_store s idx)) o in
  vle (clk cs t) c' /\ vv_get (clk cs t) t < vv_get c' t /\ t < length c' /\
  (forall u, u < length cs -> u <> t -> vv_get c' u <= vv_get (clk cs u) u).
Proof.
  intros own s cs t idx o HI Ht Hidx c c'.
  pose proof (sync_load_ge c (st_sync (get_store s idx)) o) as Hge. fold c' in Hge.
  split; [eapply vle_trans; [apply (sf_le cs t) | exact Hge]|].
  split; [pose proof (sf_fr HI Ht); pose proof (Hge t); fold c in H; lia|].
  split; [apply sync_load_len; apply (sf_len HI Ht)|].
  intros u Hu Hne. unfold c', sync_load. pose proof (sf_oth HI Ht Hu Hne) as Hc. fold c in Hc.
  destruct (ord_acq o); [|exact Hc].
  rewrite vv_get_join. pose proof (i_bsync HI Hidx Hu). lia.
Qed.

Lemma existsb_eqb_In : forall idx l, existsb (Nat.eqb idx) l = true -> In idx l.
Proof.
  intros idx l H. apply existsb_exists in H. destruct H as [x [Hx He]].
  apply Nat.eqb_eq in He. subst x. exact Hx.
Qed.

(* what a step does to the old slots *)
Definition ext (own : nat -> nat) (s : atomic_state) (own' : nat -> nat) (s' : atomic_state) : Prop :=
  at_cnt s <= at_cnt s' /\
  forall a, a < at_cnt s ->
    own' a = own a /\ hbk own' s' a = hbk own s a /\ vle (mo s a) (mo s' a) /\
    forall c, is_seen_by_current (st_seen (get_store s a)) c = true ->
              is_seen_by_current (st_seen (get_store s' a)) c = true.

Lemma ext_trans : forall o1 s1 o2 s2 o3 s3, ext o1 s1 o2 s2 -> ext o2 s2 o3 s3 -> ext o1 s1 o3 s3.
Proof.
  intros o1 s1 o2 s2 o3 s3 [Hc1 H1] [Hc2 H2]. split; [lia|].
  intros a Ha. destruct (H1 a Ha) as [A1 [B1 [C1 D1]]].
  assert (Ha2 : a < at_cnt s2) by lia.
  destruct (H2 a Ha2) as [A2 [B2 [C2 D2]]].
  split; [congruence|]. split; [congruence|]. split; [eapply vle_trans; eassumption|].
  intros c Hs. apply D2. apply D1. exact Hs.
Qed.

Lemma ext_refl : forall own s, ext own s own s.
Proof.
  intros own s. split; [apply le_n|]. intros a Ha.
  split; [reflexivity|]. split; [reflexivity|]. split; [apply vle_refl|]. intros c H. exact H.
Qed.

Lemma load_phase_ext : forall own s cs t c idx,
  InvO own s cs -> idx < at_cnt s ->
  ext own s own (loadpart_g RC0421 s t c idx).
Proof.
  intros own s cs t c idx HI Hidx. split; [apply le_n|].
  intros a Ha. assert (H7 : a < MAX_ATOMIC_HISTORY) by (pose proof (i_cnt7 HI); lia).
  split; [reflexivity|].
  split; [apply (@lp_hbk own s cs t c idx HI Hidx a H7)|].
  split; [apply (@lp_grow own s cs t c idx HI Hidx a H7)|].
  intros c0 Hs. rewrite (@lp_seen own s cs t c idx HI Hidx a H7).
  destruct (Nat.eqb_spec a idx) as [Heq|_]; [|exact Hs].
  subst a. apply seen_touch_mono. exact Hs.
Qed.

Lemma store_phase_ext : forall own s cs t c rel sync0 v o src,
  InvO own s cs -> at_cnt s < MAX_ATOMIC_HISTORY ->
  ext own s (fun k => if Nat.eqb k (at_cnt s) then t else own k)
      (atomic_store_from s t c rel sync0 v o src).
Proof.
  intros own s cs t c rel sync0 v o src HI Hroom.
  split; [change (at_cnt s <= S (at_cnt s)); lia|].
  intros a Ha.
  assert (Hold : get_store (atomic_store_from s t c rel sync0 v o src) a = get_store s a).
  { unfold atomic_store_from. cbv zeta. rewrite (aindex_small Hroom).
    rewrite get_store_set by (rewrite (i_len HI); exact Hroom).
    destruct (Nat.eqb_spec a (at_cnt s)); [lia|reflexivity]. }
  split; [destruct (Nat.eqb_spec a (at_cnt s)); [lia|reflexivity]|].
  split.
  { unfold hbk. rewrite Hold. destruct (Nat.eqb_spec a (at_cnt s)); [lia|reflexivity]. }
  split; [unfold mo; rewrite Hold; apply vle_refl|].
  intros c0 Hs. rewrite Hold. exact Hs.
Qed.

Lemma clk_set_grow : forall cs t v, t < length cs -> vle (clk cs t) v ->
  forall u, vle (clk cs u) (clk (list_set cs t v) u).
Proof.
  intros cs t v Ht Hle u. rewrite (clk_set cs t v u Ht).
  destruct (Nat.eqb_spec u t) as [Heq|_]; [subst u; exact Hle | apply vle_refl].
Qed.

(* ---- the first-seen stamps: st_seen[u] <= clock_u[u] ---- *)
Record StampO (s : atomic_state) (cs : list vv) : Prop := mkStampO {
  sb_le : forall a u w, a < at_cnt s ->
     nth_error (st_seen (get_store s a)) u = Some (Some w) -> w <= vv_get (clk cs u) u;
  sb_len : forall a, a < at_cnt s -> length (st_seen (get_store s a)) = MAX_THREADS
}.

Lemma list_set_nth_error_other : forall (A : Type) (l : list A) n j x,
  n <> j -> nth_error (list_set l n x) j = nth_error l j.
Proof.
  intros A. induction l as [|h r IH]; intros n j x Hne; [reflexivity|].
  destruct n as [|n]; destruct j as [|j]; cbn [list_set nth_error]; try lia; try reflexivity.
  apply IH. lia.
Qed.

Lemma seen_touch_length : forall seen me w, length (seen_touch seen me w) = length seen.
Proof.
  intros seen me w. unfold seen_touch.
  destruct (nth_error seen me) as [[x|]|]; try reflexivity. apply list_set_length.
Qed.

Lemma seen_touch_inv : forall seen me w u x,
  nth_error (seen_touch seen me w) u = Some (Some x) ->
  nth_error seen u = Some (Some x) \/ (u = me /\ x = w).
Proof.
  intros seen me w u x H. unfold seen_touch in H.
  destruct (nth_error seen me) as [[y|]|] eqn:Hme; try (left; exact H).
  destruct (Nat.eq_dec me u) as [Heq|Hne].
  - subst u. right. split; [reflexivity|].
    assert (Hlt : me < length seen) by (apply nth_error_Some; rewrite Hme; discriminate).
    rewrite (list_set_nth_error_same seen (Some w) Hlt) in H. inversion H. reflexivity.
  - left. rewrite list_set_nth_error_other in H by exact Hne. exact H.
Qed.

Lemma seen_touch_hit : forall seen me w, me < length seen ->
  exists x, nth_error (seen_touch seen me w) me = Some (Some x) /\
            (x = w \/ nth_error seen me = Some (Some x)).
Proof.
  intros seen me w Hlt. unfold seen_touch.
  destruct (nth_error seen me) as [[y|]|] eqn:Hme.
  - exists y. split; [exact Hme | right; reflexivity].
  - exists w. split; [apply list_set_nth_error_same; exact Hlt | left; reflexivity].
  - exfalso. apply nth_error_None in Hme. lia.
Qed.

Lemma stamp_clock : forall s cs cs',
  StampO s cs -> (forall u, vle (clk cs u) (clk cs' u)) -> StampO s cs'.
Proof.
  intros s cs cs' [Hb Hl] Hg. constructor; [|exact Hl].
  intros a u w Ha Hn. pose proof (Hb a u w Ha Hn). pose proof (Hg u u). lia.
Qed.

Lemma stamp_load : forall own s cs0 cs cs' t c idx,
  InvO own s cs0 -> idx < at_cnt s -> StampO s cs ->
  (forall u, vle (clk cs u) (clk cs' u)) -> vv_get c t <= vv_get (clk cs' t) t ->
  StampO (loadpart_g RC0421 s t c idx) cs'.
Proof.
  intros own s cs0 cs cs' t c idx HI Hidx HS Hg Hc.
  pose proof (@stamp_clock s cs cs' HS Hg) as [Hb Hl].
  assert (H7 : forall a, a < at_cnt s -> a < MAX_ATOMIC_HISTORY) by (intros a Ha; pose proof (i_cnt7 HI); lia).
  constructor.
  - intros a u w Ha Hn. change (a < at_cnt s) in Ha.
    rewrite (@lp_seen own s cs0 t c idx HI Hidx a (H7 a Ha)) in Hn.
    destruct (Nat.eqb_spec a idx) as [Heq|_]; [|apply (Hb a u w Ha Hn)].
    subst a. apply seen_touch_inv in Hn. destruct Hn as [Hn|[Hu Hw]]; [apply (Hb idx u w Ha Hn)|].
    subst u w. exact Hc.
  - intros a Ha. change (a < at_cnt s) in Ha.
    rewrite (@lp_seen own s cs0 t c idx HI Hidx a (H7 a Ha)).
    destruct (Nat.eqb_spec a idx) as [Heq|_]; [|apply (Hl a Ha)].
    subst a. rewrite seen_touch_length. apply (Hl idx Ha).
Qed.

Lemma seen_new_nth : forall u, nth_error seen_new u <> Some (Some 0) /\
  forall x, nth_error seen_new u = Some (Some x) -> False.
Proof.
  intros u. assert (H : forall x, nth_error seen_new u = Some (Some x) -> False).
  { intros x Hn. apply nth_error_In in Hn. unfold seen_new in Hn. apply repeat_spec in Hn. discriminate. }
  split; [intros Hn; apply (H 0 Hn) | exact H].
Qed.

Lemma stamp_store : forall own s cs0 cs cs' t c rel sync0 v o src,
  InvO own s cs0 -> at_cnt s < MAX_ATOMIC_HISTORY -> StampO s cs ->
  (forall u, vle (clk cs u) (clk cs' u)) -> vv_get c t <= vv_get (clk cs' t) t ->
  StampO (atomic_store_from s t c rel sync0 v o src) cs'.
Proof.
  intros own s cs0 cs cs' t c rel sync0 v o src HI Hroom HS Hg Hc.
  pose proof (@stamp_clock s cs cs' HS Hg) as [Hb Hl].
  assert (Hget : forall a, get_store (atomic_store_from s t c rel sync0 v o src) a =
            if Nat.eqb a (at_cnt s)
            then mkStore v c (store_from_mo s c src) (sync_store sync0 c rel o)
                         (seen_touch seen_new t (vv_get c t)) (is_seq_cst o) (at_cnt s) src
            else get_store s a).
  { intros a. unfold atomic_store_from. cbv zeta. rewrite (aindex_small Hroom).
    apply (get_store_set s _ (S (at_cnt s)) a). rewrite (i_len HI). exact Hroom. }
  constructor.
  - intros a u w Ha Hn. change (a < S (at_cnt s)) in Ha. rewrite Hget in Hn.
    destruct (Nat.eqb_spec a (at_cnt s)) as [Heq|Hne].
    + cbn [st_seen] in Hn. apply seen_touch_inv in Hn. destruct Hn as [Hn|[Hu Hw]].
      * exfalso. apply (proj2 (seen_new_nth u) w Hn).
      * subst u w. exact Hc.
    + apply (Hb a u w); [lia | exact Hn].
  - intros a Ha. change (a < S (at_cnt s)) in Ha. rewrite Hget.
    destruct (Nat.eqb_spec a (at_cnt s)) as [Heq|Hne].
    + cbn [st_seen]. rewrite seen_touch_length. unfold seen_new. apply repeat_length.
    + apply Hl. lia.
Qed.

Lemma stamp_tl : forall s cs c, StampO s cs -> StampO (tl_state s c) cs.
Proof. intros s cs c [Hb Hl]. constructor; [exact Hb | exact Hl]. Qed.
Lemma stamp_ts : forall s cs c, StampO s cs -> StampO (ts_state s c) cs.
Proof. intros s cs c [Hb Hl]. constructor; [exact Hb | exact Hl]. Qed.

Theorem mstep_ext_c0421c4 : forall own s cs t op s' cs',
  InvO own s cs -> mstep RC0421 (s, cs) t op = Some (s', cs') ->
  exists own', InvO own' s' cs' /\ ext own s own' s' /\
               length cs' = length cs /\ (forall u, vle (clk cs u) (clk cs' u)) /\
               (StampO s cs -> StampO s' cs').
Proof.
  intros own s cs t op s' cs' HI Hstep.
  unfold mstep in Hstep.
  destruct (Nat.ltb_spec t (length cs)) as [Ht|Ht]; cbn [negb] in Hstep; [|discriminate].
  destruct op as [idx o|v o|idx f so fo|u].
  - (* load *)
    set (c := vv_inc (clk cs t) t) in *.
    destruct (match_load_to_stores s t c None o) as [l|] eqn:Hm; [|discriminate].
    destruct (existsb (Nat.eqb idx) l) eqn:He; [|discriminate].
    apply existsb_eqb_In in He. apply (load_candidates_spec _ _ _ _ _ _ Hm idx) in He.
    destruct He as [_ [Hidx Hall]].
    unfold atomic_load_g in Hstep.
    destruct (track_load s c) as [s1x|px] eqn:Htlx; [|discriminate]. apply track_load_inl in Htlx. subst s1x. cbv zeta in Hstep.
    inversion Hstep as [[Hs' Hcs']]. clear Hstep. subst s' cs'.
    assert (HI3 : InvO own (loadpart_g RC0421 (tl_state s c) t c idx) cs).
    { apply (@load_phase_inv own (tl_state s c) cs t c idx (InvO_tl c HI) Hidx).
      intros x Hx Hne Hs.
      destruct (vv_lt (mo (tl_state s c) idx) (mo (tl_state s c) x)) eqn:Hlt; [|reflexivity].
      assert (H7 : x < MAX_ATOMIC_HISTORY) by (pose proof (i_cnt7 HI); change (at_cnt (tl_state s c)) with (at_cnt s) in Hx; lia).
      destruct (Hall x H7 Hx Hne Hlt) as [Hns _].
      change (get_store (tl_state s c) x) with (get_store s x) in Hs. rewrite Hs in Hns. discriminate. }
    exists own.
    assert (Hidx3 : idx < at_cnt (loadpart_g RC0421 (tl_state s c) t c idx)) by exact Hidx.
    destruct (acq_clock o HI3 Ht Hidx3) as [H1 [_ [H3 H4]]].
    split; [apply (InvO_clock HI3 Ht H1 H3 H4)|].
    split; [apply (@load_phase_ext own (tl_state s c) cs t c idx (InvO_tl c HI) Hidx)|].
    split; [apply list_set_length|]. split; [apply (@clk_set_grow cs t _ Ht H1)|].
    intros HS. apply (@stamp_load own (tl_state s c) cs cs _ t c idx (InvO_tl c HI) Hidx (stamp_tl c HS) (@clk_set_grow cs t _ Ht H1)).
    rewrite (clk_set cs t _ t Ht), Nat.eqb_refl. apply (sync_load_ge c _ o t).
  - (* store *)
    destruct (Nat.leb_spec MAX_ATOMIC_HISTORY (at_cnt s)) as [Hfull|Hroom]; [discriminate|].
    set (c := vv_inc (clk cs t) t) in *.
    destruct (track_store s c) as [s1y|py] eqn:Htsy; [|discriminate]. apply track_store_inl in Htsy. subst s1y.
    inversion Hstep as [[Hs' Hcs']]. clear Hstep. subst s' cs'.
    eexists. unfold atomic_store.
    split.
    { apply (@store_phase_inv own (ts_state s c) cs t c vv_new v o None vv_new (InvO_ts c HI) Ht Hroom
               (sf_le cs t) (sf_fr HI Ht) (sf_len HI Ht) (sf_oth HI Ht)); [|apply vle_new].
      intros u Hu. rewrite vv_new_get. lia. }
    split; [apply (@store_phase_ext own (ts_state s c) cs t c vv_new vv_new v o None (InvO_ts c HI) Hroom)|].
    split; [apply list_set_length|]. split; [apply (@clk_set_grow cs t _ Ht (sf_le cs t))|].
    intros HS. apply (@stamp_store own (ts_state s c) cs cs _ t c vv_new vv_new v o None (InvO_ts c HI) Hroom (stamp_ts c HS) (@clk_set_grow cs t _ Ht (sf_le cs t))).
    rewrite (clk_set cs t _ t Ht), Nat.eqb_refl. apply le_n.
  - (* rmw *)
    destruct (Nat.leb_spec MAX_ATOMIC_HISTORY (at_cnt s)) as [Hfull|Hroom]; [discriminate|].
    set (c := vv_inc (clk cs t) t) in *.
    destruct (match_rmw_to_stores s) as [l|] eqn:Hm; [|discriminate].
    destruct (existsb (Nat.eqb idx) l) eqn:He; [|discriminate].
    apply existsb_eqb_In in He. apply (rmw_candidates_spec _ _ Hm idx) in He.
    destruct He as [_ [Hidx Hall]].
    unfold atomic_rmw_g in Hstep.
    destruct (track_load s c) as [s1x|px] eqn:Htlx; [|discriminate]. apply track_load_inl in Htlx. subst s1x. cbv zeta in Hstep.
    assert (HI3 : InvO own (loadpart_g RC0421 (tl_state s c) t c idx) cs).
    { apply (@load_phase_inv own (tl_state s c) cs t c idx (InvO_tl c HI) Hidx).
      intros x Hx Hne _.
      assert (H7 : x < MAX_ATOMIC_HISTORY) by (pose proof (i_cnt7 HI); change (at_cnt (tl_state s c)) with (at_cnt s) in Hx; lia).
      apply (Hall x H7 Hx Hne). }
    pose proof (@load_phase_ext own (tl_state s c) cs t c idx (InvO_tl c HI) Hidx) as Hext3.
    set (s3 := loadpart_g RC0421 (tl_state s c) t c idx) in *.
    assert (Hidx3 : idx < at_cnt s3) by exact Hidx.
    destruct (f (st_value (get_store s3 idx))) as [next|].
    + destruct (track_store s3 c) as [s1y|py] eqn:Htsy; [|discriminate]. apply track_store_inl in Htsy. subst s1y.
      inversion Hstep as [[Hs' Hcs']]. clear Hstep. subst s' cs'.
      destruct (acq_clock so HI3 Ht Hidx3) as [H1 [H2 [H3 H4]]].
      eexists.
      split.
      { apply (@store_phase_inv own (ts_state s3 c) cs t _ _ next so _ vv_new (InvO_ts c HI3) Ht Hroom H1 H2 H3 H4); [|apply vle_new].
        intros u Hu. change (get_store (ts_state s3 c) idx) with (get_store s3 idx).
        pose proof (i_bsync HI3 Hidx3 Hu) as Hb.
        rewrite (clk_set cs t _ u Ht). destruct (Nat.eqb_spec u t) as [Heq|_]; [|exact Hb].
        subst u. eapply Nat.le_trans; [exact Hb|]. apply Nat.lt_le_incl. exact H2. }
      split.
      { eapply ext_trans; [exact Hext3|].
        apply (@store_phase_ext own (ts_state s3 c) cs t _ vv_new _ next so _ (InvO_ts c HI3) Hroom). }
      split; [apply list_set_length|]. split; [apply (@clk_set_grow cs t _ Ht H1)|].
      intros HS.
      match goal with |- StampO _ ?X => assert (HS3 : StampO s3 X) end.
      { apply (@stamp_load own (tl_state s c) cs cs _ t c idx (InvO_tl c HI) Hidx (stamp_tl c HS) (@clk_set_grow cs t _ Ht H1)).
        rewrite (clk_set cs t _ t Ht), Nat.eqb_refl. apply (sync_load_ge c _ so t). }
      apply (@stamp_store own (ts_state s3 c) cs _ _ t _ vv_new _ next so _ (InvO_ts c HI3) Hroom (stamp_ts c HS3) (fun u0 => vle_refl _)).
      rewrite (clk_set cs t _ t Ht), Nat.eqb_refl. apply le_n.
    + inversion Hstep as [[Hs' Hcs']]. clear Hstep. subst s' cs'.
      exists own.
      destruct (acq_clock fo HI3 Ht Hidx3) as [H1 [_ [H3 H4]]].
      split; [apply (InvO_clock HI3 Ht H1 H3 H4)|].
      split; [exact Hext3|].
      split; [apply list_set_length|]. split; [apply (@clk_set_grow cs t _ Ht H1)|].
      intros HS. apply (@stamp_load own (tl_state s c) cs cs _ t c idx (InvO_tl c HI) Hidx (stamp_tl c HS) (@clk_set_grow cs t _ Ht H1)).
      rewrite (clk_set cs t _ t Ht), Nat.eqb_refl. apply (sync_load_ge c _ fo t).
  - (* sync *)
    destruct (Nat.ltb_spec u (length cs)) as [Hu|Hu]; [|discriminate].
    inversion Hstep as [[Hs' Hcs']]. clear Hstep. subst s' cs'.
    exists own. split.
    { apply (InvO_clock HI Ht).
      + apply vle_join_l.
      + rewrite vv_join_length. pose proof (i_clen HI Ht). lia.
      + intros w Hw Hne. rewrite vv_get_join.
        pose proof (i_bclk HI Ht Hw). pose proof (i_bclk HI Hu Hw). lia. }
    split; [apply ext_refl|].
    split; [apply list_set_length|]. split; [apply (@clk_set_grow cs t _ Ht (vle_join_l _ _))|].
    intros HS. apply (@stamp_clock s cs _ HS (@clk_set_grow cs t _ Ht (vle_join_l _ _))).
Qed.

Theorem mstep_inv_c0421c4 : forall st t op st',
  Inv st -> mstep RC0421 st t op = Some st' -> Inv st'.
Proof.
  intros [s cs] t op [s' cs'] [own HI] Hstep. cbn [fst snd] in HI.
  destruct (mstep_ext_c0421c4 _ _ HI Hstep) as [own' [HI' _]]. exists own'. exact HI'.
Qed.

Theorem mrun_inv_c0421c4 : forall evs st st',
  Inv st -> mrun RC0421 st evs = Some st' -> Inv st'.
Proof.
  induction evs as [|[t op] evs IH]; intros st st' HI Hrun.
  - cbn [mrun] in Hrun. inversion Hrun. subst st'. exact HI.
  - cbn [mrun] in Hrun. destruct (mstep RC0421 st t op) as [st1|] eqn:Hs; [|discriminate].
    apply (IH st1 st' (@mstep_inv_c0421c4 st t op st1 HI Hs) Hrun).
Qed.

(* ================================================================== *)
(* 9. the start state                                                   *)

Lemma clk_repeat : forall v n t, t < n -> clk (repeat v n) t = v.
Proof.
  intros v n t Ht. unfold clk. rewrite (nth_indep _ vv_new v) by (rewrite repeat_length; exact Ht).
  apply nth_repeat.
Qed.

Definition s_init (v0 : N) : atomic_state :=
  mkAtomic vv_new vv_new vv_new [1;0;0;0;0] false (repeat None MAX_THREADS) None
    (mkStore v0 [1;0;0;0;0] [1;0;0;0;0] [1;0;0;0;0] [Some 1; None; None; None; None] false 0 None
     :: repeat store_default 6) 1.

Lemma minit_eq : forall n v0, minit n v0 = Some (s_init v0, repeat [1;0;0;0;0] n).
Proof. intros n v0. reflexivity. Qed.

Theorem minit_inv : forall n v0 st,
  1 <= n -> n <= MAX_THREADS -> minit n v0 = Some st -> Inv st.
Proof.
  intros n v0 st Hn1 Hn5 Hm. rewrite minit_eq in Hm. inversion Hm as [Hst]. clear Hm Hst.
  exists (fun _ => 0). cbn [fst snd].
  set (ci := [1;0;0;0;0]).
  assert (Hclk : forall t, t < length (repeat ci n) -> clk (repeat ci n) t = ci).
  { intros t Ht. rewrite repeat_length in Ht. apply clk_repeat. exact Ht. }
  assert (H0 : forall a, a < at_cnt (s_init v0) -> a = 0) by (intros a Ha; cbn in Ha; lia).
  constructor.
  - reflexivity.
  - cbn. lia.
  - cbn. unfold MAX_ATOMIC_HISTORY. lia.
  - reflexivity.
  - rewrite repeat_length. exact Hn5.
  - intros t Ht. rewrite (Hclk t Ht). rewrite repeat_length in Ht. unfold MAX_THREADS in Hn5. cbn. lia.
  - intros a Ha. cbn in Ha.
    destruct a as [|[|[|[|[|[|[|a]]]]]]]; try lia; try reflexivity.
    unfold get_store. cbn. destruct a; reflexivity.
  - intros a Ha. rewrite repeat_length. lia.
  - intros a Ha. rewrite (H0 a Ha). left. cbn. lia.
  - intros a Ha. rewrite (H0 a Ha). reflexivity.
  - intros a Ha. rewrite (H0 a Ha). unfold K. cbn. lia.
  - intros a t Ha Ht. rewrite (H0 a Ha). rewrite (Hclk t Ht). apply le_n.
  - intros a t Ha Ht. rewrite (H0 a Ha). rewrite (Hclk t Ht). apply le_n.
  - intros u t Hu Ht. rewrite (Hclk u Hu), (Hclk t Ht). apply le_n.
  - intros a b Ha Hb _. rewrite (H0 a Ha), (H0 b Hb). apply vle_refl.
  - intros a b Ha Hb Hne. rewrite (H0 a Ha), (H0 b Hb) in Hne. lia.
Qed.

(* reachable states of the c0421c4 machine *)
Definition reach_c0421c4 (st : mstate) : Prop :=
  exists n v0 st0 evs, 1 <= n /\ n <= MAX_THREADS /\ minit n v0 = Some st0 /\
                       mrun RC0421 st0 evs = Some st.

Theorem reach_inv_c0421c4 : forall st, reach_c0421c4 st -> Inv st.
Proof.
  intros st [n [v0 [st0 [evs [H1 [H5 [Hi Hr]]]]]]].
  apply (@mrun_inv_c0421c4 evs st0 st (@minit_inv n v0 st0 H1 H5 Hi) Hr).
Qed.

(* ================================================================== *)
(* 10. theorems on the runs of the c0421c4 machine (tr = RC0421)         *)

Definition lives (st : mstate) (a : nat) : Prop := a < at_cnt (fst st).
(* loom's own notion: thread t has seen store i (it read or wrote it, or an
   access of it happens-before t's current point) *)
Definition knows (st : mstate) (t i : nat) : Prop :=
  is_seen_by_current (st_seen (get_store (fst st) i)) (clk (snd st) t) = true.

(* ---- the assertion `mo_i != mo_j` never fires ---- *)
Theorem mlts_never_none_inv_c0421c4 : forall st t c ly o,
  Inv st -> match_load_to_stores (fst st) t c ly o <> None.
Proof.
  intros [s cs] t c ly o [own HI] Hn. cbn [fst snd] in *.
  apply load_candidates_none in Hn. destruct Hn as [i [j [_ [Hi [_ [Hj [Hne He]]]]]]].
  pose proof (live_mo_distinct HI Hi Hj Hne) as Hd. unfold mo in Hd. rewrite Hd in He. discriminate.
Qed.

Theorem mrts_never_none_inv_c0421c4 : forall st, Inv st -> match_rmw_to_stores (fst st) <> None.
Proof.
  intros [s cs] [own HI] Hn. cbn [fst snd] in *.
  apply rmw_candidates_none in Hn. destruct Hn as [i [j [_ [Hi [_ [Hj [Hne He]]]]]]].
  pose proof (live_mo_distinct HI Hi Hj Hne) as Hd. unfold mo in Hd. rewrite Hd in He. discriminate.
Qed.

Theorem mlts_never_none_c0421c4 : forall st, reach_c0421c4 st ->
  (forall t c ly o, match_load_to_stores (fst st) t c ly o <> None) /\
  match_rmw_to_stores (fst st) <> None.
Proof.
  intros st Hr. pose proof (reach_inv_c0421c4 Hr) as HI. split.
  - intros t c ly o. apply mlts_never_none_inv_c0421c4. exact HI.
  - apply mrts_never_none_inv_c0421c4. exact HI.
Qed.

(* ---- the strict order on live stores only grows; knowledge only grows ---- *)
Theorem step_stable_c0421c4 : forall st t op st' a b,
  Inv st -> mstep RC0421 st t op = Some st' ->
  lives st a -> lives st b -> mo_lt st a b = true ->
  lives st' a /\ lives st' b /\ mo_lt st' a b = true.
Proof.
  intros [s cs] t op [s' cs'] a b [own HI] Hstep Ha Hb Hlt.
  unfold lives in *. cbn [fst snd] in *.
  destruct (mstep_ext_c0421c4 _ _ HI Hstep) as [own' [HI' [[Hc Hx] _]]].
  assert (Ha' : a < at_cnt s') by lia. assert (Hb' : b < at_cnt s') by lia.
  split; [exact Ha'|]. split; [exact Hb'|].
  change (vv_lt (mo s a) (mo s b) = true) in Hlt. change (vv_lt (mo s' a) (mo s' b) = true).
  apply (lt_iff_K HI Ha Hb) in Hlt. destruct Hlt as [Hne HK].
  apply (lt_iff_K HI' Ha' Hb'). split; [exact Hne|].
  destruct (Hx a Ha) as [Ho [Hh _]]. destruct (Hx b Hb) as [_ [_ [Hg _]]].
  unfold K in *. rewrite Ho, Hh. specialize (Hg (own a)). lia.
Qed.

Theorem step_knows_c0421c4 : forall st t op st' u i,
  Inv st -> mstep RC0421 st t op = Some st' ->
  lives st i -> knows st u i -> knows st' u i.
Proof.
  intros [s cs] t op [s' cs'] u i [own HI] Hstep Hi Hk.
  unfold lives, knows in *. cbn [fst snd] in *.
  destruct (mstep_ext_c0421c4 _ _ HI Hstep) as [own' [_ [[_ Hx] [_ [Hg _]]]]].
  destruct (Hx i Hi) as [_ [_ [_ Hs]]].
  apply (seen_clock_mono _ _ _ (Hg u)). apply Hs. exact Hk.
Qed.

Theorem run_stable_c0421c4 : forall evs st st' a b,
  Inv st -> mrun RC0421 st evs = Some st' ->
  lives st a -> lives st b -> mo_lt st a b = true ->
  lives st' a /\ lives st' b /\ mo_lt st' a b = true.
Proof.
  induction evs as [|[t op] evs IH]; intros st st' a b HI Hrun Ha Hb Hlt.
  - cbn [mrun] in Hrun. inversion Hrun. subst st'. repeat split; assumption.
  - cbn [mrun] in Hrun. destruct (mstep RC0421 st t op) as [st1|] eqn:Hs; [|discriminate].
    destruct (@step_stable_c0421c4 st t op st1 a b HI Hs Ha Hb Hlt) as [Ha1 [Hb1 Hlt1]].
    apply (IH st1 st' a b (@mstep_inv_c0421c4 st t op st1 HI Hs) Hrun Ha1 Hb1 Hlt1).
Qed.

Theorem run_knows_c0421c4 : forall evs st st' u i,
  Inv st -> mrun RC0421 st evs = Some st' ->
  lives st i -> knows st u i -> lives st' i /\ knows st' u i.
Proof.
  induction evs as [|[t op] evs IH]; intros st st' u i HI Hrun Hi Hk.
  - cbn [mrun] in Hrun. inversion Hrun. subst st'. split; assumption.
  - cbn [mrun] in Hrun. destruct (mstep RC0421 st t op) as [st1|] eqn:Hs; [|discriminate].
    assert (Hi1 : lives st1 i).
    { destruct st as [s cs], st1 as [s1 cs1]. destruct HI as [own HI]. cbn [fst snd] in HI.
      destruct (mstep_ext_c0421c4 _ _ HI Hs) as [own' [_ [[Hc _] _]]]. unfold lives in *. cbn [fst] in *. lia. }
    apply (IH st1 st' u i (@mstep_inv_c0421c4 st t op st1 HI Hs) Hrun Hi1 (@step_knows_c0421c4 st t op st1 u i HI Hs Hi Hk)).
Qed.

(* ---- CoRR / CoWR, happens-before version ----
   If at some point thread t knows store j (it read it, wrote it, or an access
   of it happens-before t) and i is mo-before j at that point, then after ANY
   further steps of any threads t can neither load nor RMW store i. *)
Theorem CoRR_CoWR_c0421c4 : forall st1 evs st2 t i j o,
  Inv st1 -> lives st1 i -> lives st1 j -> knows st1 t j -> mo_lt st1 i j = true ->
  mrun RC0421 st1 evs = Some st2 ->
  mstep RC0421 st2 t (XLoad i o) = None.
Proof.
  intros st1 evs st2 t i j o HI Hi Hj Hk Hlt Hrun.
  destruct (@run_stable_c0421c4 evs st1 st2 i j HI Hrun Hi Hj Hlt) as [Hi2 [Hj2 Hlt2]].
  destruct (@run_knows_c0421c4 evs st1 st2 t j HI Hrun Hj Hk) as [_ Hk2].
  destruct st2 as [s cs]. unfold lives, knows, mo_lt, mo_of in *. cbn [fst snd] in *.
  unfold mstep. destruct (negb (Nat.ltb t (length cs))); [reflexivity|].
  destruct (match_load_to_stores s t (vv_inc (clk cs t) t) None o) as [l|] eqn:Hm; [|reflexivity].
  destruct (existsb (Nat.eqb i) l) eqn:He; [|reflexivity].
  exfalso. apply existsb_eqb_In in He.
  pose proof (@mrun_inv_c0421c4 evs st1 _ HI Hrun) as [own HI2]. cbn [fst snd] in HI2.
  assert (Hj7 : j < MAX_ATOMIC_HISTORY) by (pose proof (i_cnt7 HI2); lia).
  apply (coherence_write_read _ _ _ _ _ _ _ _ Hm Hj7 Hj2 Hlt2); [|exact He].
  apply (seen_clock_mono _ _ _ (vle_inc (clk cs t) t) Hk2).
Qed.

Theorem CoRR_CoWR_rmw_c0421c4 : forall st1 evs st2 t i j f so fo,
  Inv st1 -> lives st1 i -> lives st1 j -> mo_lt st1 i j = true ->
  mrun RC0421 st1 evs = Some st2 ->
  mstep RC0421 st2 t (XRmw i f so fo) = None.
Proof.
  intros st1 evs st2 t i j f so fo HI Hi Hj Hlt Hrun.
  destruct (@run_stable_c0421c4 evs st1 st2 i j HI Hrun Hi Hj Hlt) as [Hi2 [Hj2 Hlt2]].
  destruct st2 as [s cs]. unfold lives, mo_lt, mo_of in *. cbn [fst snd] in *.
  unfold mstep. destruct (negb (Nat.ltb t (length cs))); [reflexivity|].
  destruct (Nat.leb MAX_ATOMIC_HISTORY (at_cnt s)); [reflexivity|].
  destruct (match_rmw_to_stores s) as [l|] eqn:Hm; [|reflexivity].
  destruct (existsb (Nat.eqb i) l) eqn:He; [|reflexivity].
  exfalso. apply existsb_eqb_In in He. apply (rmw_candidates_spec _ _ Hm i) in He.
  destruct He as [_ [_ Hall]].
  pose proof (@mrun_inv_c0421c4 evs st1 _ HI Hrun) as [own HI2]. cbn [fst snd] in HI2.
  assert (Hj7 : j < MAX_ATOMIC_HISTORY) by (pose proof (i_cnt7 HI2); lia).
  assert (Hne : j <> i) by (intros Heq; subst j; rewrite vv_lt_irrefl in Hlt2; discriminate).
  rewrite (Hall j Hj7 Hj2 Hne) in Hlt2. discriminate.
Qed.

(* ---- CoWW / CoRW ----
   A new store is strictly mo-after every store its thread knows (has read,
   has written, or that happens-before it); by [run_stable_c0421c4] it stays so. *)
Theorem CoWW_CoRW_c0421c4 : forall st t v o st' i,
  Inv st -> lives st i -> knows st t i ->
  mstep RC0421 st t (XStore v o) = Some st' ->
  lives st' (at_cnt (fst st)) /\ mo_lt st' i (at_cnt (fst st)) = true.
Proof.
  intros [s cs] t v o st' i [own HI] Hi Hk Hstep.
  unfold lives, knows in *. cbn [fst snd] in *.
  unfold mstep in Hstep.
  destruct (Nat.ltb_spec t (length cs)) as [Ht|Ht]; cbn [negb] in Hstep; [|discriminate].
  destruct (Nat.leb_spec MAX_ATOMIC_HISTORY (at_cnt s)) as [Hfull|Hroom]; [discriminate|].
  set (c := vv_inc (clk cs t) t) in *.
  destruct (track_store s c) as [s1y|py] eqn:Htsy; [|discriminate]. apply track_store_inl in Htsy. subst s1y.
  inversion Hstep as [Hst]. clear Hstep Hst. cbn [fst]. unfold atomic_store.
  split; [change (at_cnt s < S (at_cnt s)); lia|].
  assert (Hsync0 : forall u, u < length cs -> vv_get vv_new u <= vv_get (clk (list_set cs t c) u) u).
  { intros u Hu. rewrite vv_new_get. lia. }
  apply (@store_phase_after_seen own (ts_state s c) cs t c vv_new v o None vv_new (InvO_ts c HI) Ht Hroom
           (sf_le cs t) (sf_fr HI Ht) (sf_len HI Ht) (sf_oth HI Ht) Hsync0 (vle_new _) i Hi).
  apply (seen_clock_mono _ _ _ (vle_inc (clk cs t) t) Hk).
Qed.

(* how a thread comes to know a store: its own store ... *)
Theorem store_knows_c0421c4 : forall st t v o st',
  Inv st -> mstep RC0421 st t (XStore v o) = Some st' ->
  lives st' (at_cnt (fst st)) /\ knows st' t (at_cnt (fst st)).
Proof.
  intros [s cs] t v o st' [own HI] Hstep. unfold lives, knows. cbn [fst snd] in *.
  unfold mstep in Hstep.
  destruct (Nat.ltb_spec t (length cs)) as [Ht|Ht]; cbn [negb] in Hstep; [|discriminate].
  destruct (Nat.leb_spec MAX_ATOMIC_HISTORY (at_cnt s)) as [Hfull|Hroom]; [discriminate|].
  set (c := vv_inc (clk cs t) t) in *.
  destruct (track_store s c) as [s1y|py] eqn:Htsy; [|discriminate]. apply track_store_inl in Htsy. subst s1y.
  inversion Hstep as [Hst]. clear Hstep Hst. cbn [fst snd].
  split; [change (at_cnt s < S (at_cnt s)); lia|].
  unfold atomic_store, atomic_store_from.
  cbv zeta. rewrite (aindex_small (Hroom : at_cnt (ts_state s c) < MAX_ATOMIC_HISTORY)).
  rewrite get_store_set by (change (at_stores (ts_state s c)) with (at_stores s); rewrite (i_len HI); exact Hroom).
  change (at_cnt (ts_state s c)) with (at_cnt s). rewrite Nat.eqb_refl. cbn [st_seen].
  eapply (@is_seen_by_current_hit _ t).
  - apply seen_touch_new. pose proof (i_nthr HI). lia.
  - rewrite (clk_set cs t c t Ht), Nat.eqb_refl. apply le_n.
Qed.

(* ... and any synchronisation edge u -> t *)
Theorem sync_knows_c0421c4 : forall st t u st' i,
  mstep RC0421 st t (XSync u) = Some st' -> knows st u i -> knows st' t i.
Proof.
  intros [s cs] t u st' i Hstep Hk. unfold knows in *. cbn [fst snd] in *.
  unfold mstep in Hstep.
  destruct (Nat.ltb_spec t (length cs)) as [Ht|Ht]; cbn [negb] in Hstep; [|discriminate].
  destruct (Nat.ltb u (length cs)); [|discriminate].
  inversion Hstep as [Hst]. clear Hstep Hst. cbn [fst snd].
  rewrite (clk_set cs t _ t Ht), Nat.eqb_refl.
  apply (seen_clock_mono _ _ _ (vle_join_r (clk cs t) (clk cs u)) Hk).
Qed.

(* ---- with the stamp bound st_seen[u] <= clock_u[u]: a load makes the loaded
   store known, so the same-thread versions need no [knows] hypothesis ---- *)
Definition Inv2 (st : mstate) : Prop := Inv st /\ StampO (fst st) (snd st).

Theorem mstep_inv2_c0421c4 : forall st t op st',
  Inv2 st -> mstep RC0421 st t op = Some st' -> Inv2 st'.
Proof.
  intros [s cs] t op [s' cs'] [[own HI] HS] Hstep. cbn [fst snd] in *.
  destruct (mstep_ext_c0421c4 _ _ HI Hstep) as [own' [HI' [_ [_ [_ HS']]]]].
  split; [exists own'; exact HI' | exact (HS' HS)].
Qed.

Theorem mrun_inv2_c0421c4 : forall evs st st',
  Inv2 st -> mrun RC0421 st evs = Some st' -> Inv2 st'.
Proof.
  induction evs as [|[t op] evs IH]; intros st st' HI Hrun.
  - cbn [mrun] in Hrun. inversion Hrun. subst st'. exact HI.
  - cbn [mrun] in Hrun. destruct (mstep RC0421 st t op) as [st1|] eqn:Hs; [|discriminate].
    apply (IH st1 st' (@mstep_inv2_c0421c4 st t op st1 HI Hs) Hrun).
Qed.

Theorem minit_inv2 : forall n v0 st,
  1 <= n -> n <= MAX_THREADS -> minit n v0 = Some st -> Inv2 st.
Proof.
  intros n v0 st Hn1 Hn5 Hm. split; [apply (@minit_inv n v0 st Hn1 Hn5 Hm)|].
  rewrite minit_eq in Hm. inversion Hm as [Hst]. clear Hm Hst. cbn [fst snd].
  constructor.
  - intros a u w Ha Hn. cbn in Ha. assert (a = 0) by lia. subst a.
    destruct u as [|[|[|[|[|u]]]]]; cbn in Hn; try discriminate.
    + inversion Hn. subst w. rewrite clk_repeat by lia. cbn. lia.
    + destruct u; discriminate.
  - intros a Ha. cbn in Ha. assert (a = 0) by lia. subst a. reflexivity.
Qed.

Theorem reach_inv2_c0421c4 : forall st, reach_c0421c4 st -> Inv2 st.
Proof.
  intros st [n [v0 [st0 [evs [H1 [H5 [Hi Hr]]]]]]].
  apply (@mrun_inv2_c0421c4 evs st0 st (@minit_inv2 n v0 st0 H1 H5 Hi) Hr).
Qed.

Theorem load_knows_c0421c4 : forall st t i o st',
  Inv2 st -> mstep RC0421 st t (XLoad i o) = Some st' -> lives st' i /\ knows st' t i.
Proof.
  intros [s cs] t i o st' [[own HI] HS] Hstep. unfold lives, knows. cbn [fst snd] in *.
  unfold mstep in Hstep.
  destruct (Nat.ltb_spec t (length cs)) as [Ht|Ht]; cbn [negb] in Hstep; [|discriminate].
  set (c := vv_inc (clk cs t) t) in *.
  destruct (match_load_to_stores s t c None o) as [l|] eqn:Hm; [|discriminate].
  destruct (existsb (Nat.eqb i) l) eqn:He; [|discriminate].
  apply existsb_eqb_In in He. apply (load_candidates_spec _ _ _ _ _ _ Hm i) in He.
  destruct He as [H7 [Hidx _]].
  unfold atomic_load_g in Hstep.
  destruct (track_load s c) as [s1x|px] eqn:Htlx; [|discriminate]. apply track_load_inl in Htlx. subst s1x. cbv zeta in Hstep.
  inversion Hstep as [Hst]. clear Hstep Hst. cbn [fst snd].
  split; [exact Hidx|].
  rewrite (@lp_seen own (tl_state s c) cs t c i (InvO_tl c HI) Hidx i H7). rewrite Nat.eqb_refl.
  change (get_store (tl_state s c) i) with (get_store s i).
  destruct HS as [Hb Hl].
  assert (Htl : t < length (st_seen (get_store s i))).
  { rewrite (Hl i Hidx). pose proof (i_nthr HI). lia. }
  destruct (@seen_touch_hit (st_seen (get_store s i)) t (vv_get c t) Htl) as [x [Hn Hx]].
  eapply (@is_seen_by_current_hit _ t); [exact Hn|].
  rewrite (clk_set cs t _ t Ht), Nat.eqb_refl.
  eapply Nat.le_trans; [|apply (sync_load_ge c _ o t)].
  destruct Hx as [Hx|Hx]; [subst x; apply le_n|].
  pose proof (Hb i t x Hidx Hx) as Hw. pose proof (sf_fr HI Ht) as Hf. fold c in Hf. lia.
Qed.

(* CoRR, one thread's own two reads, any steps of any threads in between *)
Theorem CoRR_same_thread_c0421c4 : forall st0 t j o st1 evs st2 i o',
  Inv2 st0 -> mstep RC0421 st0 t (XLoad j o) = Some st1 ->
  lives st1 i -> mo_lt st1 i j = true ->
  mrun RC0421 st1 evs = Some st2 ->
  mstep RC0421 st2 t (XLoad i o') = None.
Proof.
  intros st0 t j o st1 evs st2 i o' HI Hs Hi Hlt Hrun.
  destruct (@load_knows_c0421c4 st0 t j o st1 HI Hs) as [Hj Hk].
  destruct (@mstep_inv2_c0421c4 st0 t (XLoad j o) st1 HI Hs) as [HI1 _].
  apply (@CoRR_CoWR_c0421c4 st1 evs st2 t i j o' HI1 Hi Hj Hk Hlt Hrun).
Qed.

(* CoWR: a thread never reads a store that was mo-before its own earlier store *)
Theorem CoWR_same_thread_c0421c4 : forall st0 t v o st1 evs st2 i o',
  Inv st0 -> mstep RC0421 st0 t (XStore v o) = Some st1 ->
  lives st1 i -> mo_lt st1 i (at_cnt (fst st0)) = true ->
  mrun RC0421 st1 evs = Some st2 ->
  mstep RC0421 st2 t (XLoad i o') = None.
Proof.
  intros st0 t v o st1 evs st2 i o' HI Hs Hi Hlt Hrun.
  destruct (@store_knows_c0421c4 st0 t v o st1 HI Hs) as [Hj Hk].
  pose proof (@mstep_inv_c0421c4 st0 t (XStore v o) st1 HI Hs) as HI1.
  apply (@CoRR_CoWR_c0421c4 st1 evs st2 t i (at_cnt (fst st0)) o' HI1 Hi Hj Hk Hlt Hrun).
Qed.

(* CoRW: a thread's store is mo-after every store it has read before *)
Theorem CoRW_same_thread_c0421c4 : forall st0 t j o st1 evs st2 v o' st3,
  Inv2 st0 -> mstep RC0421 st0 t (XLoad j o) = Some st1 ->
  mrun RC0421 st1 evs = Some st2 ->
  mstep RC0421 st2 t (XStore v o') = Some st3 ->
  mo_lt st3 j (at_cnt (fst st2)) = true.
Proof.
  intros st0 t j o st1 evs st2 v o' st3 HI Hs Hrun Hs3.
  destruct (@load_knows_c0421c4 st0 t j o st1 HI Hs) as [Hj Hk].
  destruct (@mstep_inv2_c0421c4 st0 t (XLoad j o) st1 HI Hs) as [HI1 _].
  destruct (@run_knows_c0421c4 evs st1 st2 t j HI1 Hrun Hj Hk) as [Hj2 Hk2].
  pose proof (@mrun_inv_c0421c4 evs st1 st2 HI1 Hrun) as HI2.
  apply (@CoWW_CoRW_c0421c4 st2 t v o' st3 j HI2 Hj2 Hk2 Hs3).
Qed.

(* CoWW: a thread's later store is mo-after its earlier store *)
Theorem CoWW_same_thread_c0421c4 : forall st0 t v o st1 evs st2 v' o' st3,
  Inv st0 -> mstep RC0421 st0 t (XStore v o) = Some st1 ->
  mrun RC0421 st1 evs = Some st2 ->
  mstep RC0421 st2 t (XStore v' o') = Some st3 ->
  mo_lt st3 (at_cnt (fst st0)) (at_cnt (fst st2)) = true.
Proof.
  intros st0 t v o st1 evs st2 v' o' st3 HI Hs Hrun Hs3.
  destruct (@store_knows_c0421c4 st0 t v o st1 HI Hs) as [Hj Hk].
  pose proof (@mstep_inv_c0421c4 st0 t (XStore v o) st1 HI Hs) as HI1.
  destruct (@run_knows_c0421c4 evs st1 st2 t (at_cnt (fst st0)) HI1 Hrun Hj Hk) as [Hj2 Hk2].
  pose proof (@mrun_inv_c0421c4 evs st1 st2 HI1 Hrun) as HI2.
  apply (@CoWW_CoRW_c0421c4 st2 t v' o' st3 (at_cnt (fst st0)) HI2 Hj2 Hk2 Hs3).
Qed.


(* ================================================================== *)
(* 11. the HISTORICAL rule (tr = RBefore, apply_load_coherence before fix
       c0421c4): coherence was false                                    *)

Definition ok_step (tr : rule) (st : option mstate) (t : nat) (op : aop) : bool :=
  match st with Some s => is_some (mstep tr s t op) | None => false end.
Definition lt_in (st : option mstate) (i j : nat) : bool :=
  match st with Some s => mo_lt s i j | None => false end.
Definition knows_b (st : option mstate) (t i : nat) : bool :=
  match st with
  | Some (s, cs) => is_seen_by_current (st_seen (get_store s i)) (clk cs t)
  | None => false
  end.

(* Two threads.  T1: store 20 (slot 1); store 30 (slot 2).  T0: store 40
   (slot 3); load -> 20 (slot 1: allowed, T0 has not seen 30).  The load joins
   mo(40) into mo(20) in place: 20 <mo 30 is LOST, and T1, which wrote 30 after
   20, may now load its own older store 20 (CoWR violated; observed on the real
   loom as well). *)
Definition cex_pre : list (nat * aop) :=
  [(1, XStore 20 Relaxed); (1, XStore 30 Relaxed); (0, XStore 40 Relaxed)].
Definition cex : list (nat * aop) := cex_pre ++ [(0, XLoad 1 Relaxed)].

Lemma coherence_counterexample_before_fix :
  lt_in (mrun0 RBefore 2 cex_pre) 1 2 = true /\          (* 20 <mo 30 *)
  knows_b (mrun0 RBefore 2 cex_pre) 1 2 = true /\        (* T1 knows 30 *)
  ok_step RBefore (mrun0 RBefore 2 cex_pre) 1 (XLoad 1 Relaxed) = false /\ (* T1 may not read 20 *)
  lt_in (mrun0 RBefore 2 cex) 1 2 = false /\             (* after T0's load the edge is gone *)
  ok_step RBefore (mrun0 RBefore 2 cex) 1 (XLoad 1 Relaxed) = true /\     (* T1 reads 20 *)
  cands RBefore (mrun0 RBefore 2 cex) 1 Relaxed = Some [1; 2].
Proof. vm_compute. repeat split; reflexivity. Qed.

(* the c0421c4 rule keeps the edge and T1 can only read 30 *)
Lemma coherence_counterexample_repaired :
  lt_in (mrun0 RC0421 2 cex) 1 2 = true /\
  ok_step RC0421 (mrun0 RC0421 2 cex) 1 (XLoad 1 Relaxed) = false /\
  cands RC0421 (mrun0 RC0421 2 cex) 1 Relaxed = Some [2].
Proof. vm_compute. repeat split; reflexivity. Qed.

(* CoRR: T2 READS 30 (slot 2) and later reads 20 (slot 1) *)
Lemma corr_counterexample_before_fix :
  let pre := [(1, XStore 20 Relaxed); (1, XStore 30 Relaxed); (2, XLoad 2 Relaxed); (0, XStore 40 Relaxed)] in
  ok_step RBefore (mrun0 RBefore 3 pre) 2 (XLoad 1 Relaxed) = false /\
  ok_step RBefore (mrun0 RBefore 3 (pre ++ [(0, XLoad 1 Relaxed)])) 2 (XLoad 1 Relaxed) = true /\
  ok_step RC0421 (mrun0 RC0421 3 (pre ++ [(0, XLoad 1 Relaxed)])) 2 (XLoad 1 Relaxed) = false.
Proof. vm_compute. repeat split; reflexivity. Qed.

(* loom's `assert_ne!(mo_i, mo_j)` ("TODO: this sometimes fails") does fire:
   slots 1 (10, T1), 2 (20, T2), 3 (30, T2); T3 reads 10, 20; T0 reads 30, 10;
   T2 reads 20: now mo(10) = mo(20) and every later load panics *)
Definition cex_ne : list (nat * aop) :=
  [(1, XStore 10 Relaxed); (2, XStore 20 Relaxed); (2, XStore 30 Relaxed);
   (3, XLoad 1 Relaxed); (3, XLoad 2 Relaxed);
   (0, XLoad 3 Relaxed); (0, XLoad 1 Relaxed); (2, XLoad 2 Relaxed)].

Lemma assert_ne_counterexample_before_fix :
  is_some (mrun0 RBefore 4 cex_ne) = true /\
  cands RBefore (mrun0 RBefore 4 cex_ne) 0 Relaxed = None /\
  rcands (mrun0 RBefore 4 cex_ne) = None /\
  mrun0 RC0421 4 cex_ne = None.            (* the c0421c4 machine refuses the run *)
Proof. vm_compute. repeat split; reflexivity. Qed.

(* two RMWs read the same store (lost update, observed on the real loom):
   T1: store 10.  T2: store 20; fetch_add (reads 20, writes 21).
   T3: load 10; load 20; fetch_add -> reads 20 again *)
Definition cex_rmw : list (nat * aop) :=
  [(1, XStore 10 Relaxed); (2, XStore 20 Relaxed); (2, XRmw 2 inc1 Relaxed Relaxed);
   (3, XLoad 1 Relaxed); (3, XLoad 2 Relaxed)].

Lemma rmw_counterexample_before_fix :
  rcands (mrun0 RBefore 4 (firstn 3 cex_rmw)) = Some [1; 3] /\
  rcands (mrun0 RBefore 4 cex_rmw) = Some [2; 3] /\
  ok_step RBefore (mrun0 RBefore 4 cex_rmw) 3 (XRmw 2 inc1 Relaxed Relaxed) = true /\
  rcands (mrun0 RC0421 4 cex_rmw) = Some [3].
Proof. vm_compute. repeat split; reflexivity. Qed.

(* ---- sanity search: all sequences of stores, loads and RMWs of 4 threads,
   2 steps after the prefix; the historical rule loses an edge, the
   c0421c4 rule keeps all edges and never has two equal live clocks ---- *)
Example search_before_fix : search0 RBefore 4 pre3 2 = Some [(0, 0, 0); (0, 1, 2)].
Proof. vm_compute. reflexivity. Qed.
Example search_repaired : search0 RC0421 4 pre3 2 = None.
Proof. vm_compute. reflexivity. Qed.

(* ---- non-vacuity (c0421c4 machine, 3 threads): T1 stores 20 (slot 1) and
   synchronises with T2; a stale read of the initial store is forbidden for
   T2 and still allowed for T0 ---- *)
Example stale_read_example :
  let evs := [(1, XStore 20 Relaxed); (2, XSync 1)] in
  cands RC0421 (mrun0 RC0421 3 evs) 2 Relaxed = Some [1] /\
  cands RC0421 (mrun0 RC0421 3 evs) 0 Relaxed = Some [0; 1] /\
  knows_b (mrun0 RC0421 3 evs) 2 1 = true /\ knows_b (mrun0 RC0421 3 evs) 0 1 = false.
Proof. vm_compute. repeat split; reflexivity. Qed.

(* the gap of the c0421c4 rule (D19; also of the historical rule): loads can place a store mo-between an RMW's
   source and the RMW's write.  Slots: 1 = 10 (T1), 2 = 20 (T2), 3 = 21 (T2's
   fetch_add of 20).  T3 reads 20 then 10 (20 <mo 10); T0 reads 10 then 21
   (10 <mo 21). *)
Example rmw_gap_before_fix :
  let evs := [(1, XStore 10 Relaxed); (2, XStore 20 Relaxed); (2, XRmw 2 inc1 Relaxed Relaxed);
              (3, XLoad 2 Relaxed); (3, XLoad 1 Relaxed);
              (0, XLoad 1 Relaxed); (0, XLoad 3 Relaxed)] in
  lt_in (mrun0 RC0421 4 evs) 2 1 = true /\ lt_in (mrun0 RC0421 4 evs) 1 3 = true.
Proof. vm_compute. repeat split; reflexivity. Qed.

(* ================================================================== *)
(* 12. the MODEL's current functions (tr = RModel: c0421c4 rule followed by
       close_rmw_atomicity, the D19 fix)                                *)

(* ---- computed facts ---- *)
Definition gp : list (nat * aop) :=
  [(1, XStore 10 Relaxed); (2, XStore 20 Relaxed); (2, XRmw 2 inc1 Relaxed Relaxed)].
(* order A: T3 reads 20 then 10, T0 reads 10 and then wants 21 *)
Definition gapA := gp ++ [(3, XLoad 2 Relaxed); (3, XLoad 1 Relaxed); (0, XLoad 1 Relaxed)].
(* order B: T0 reads 10 then 21, T3 reads 20 and then wants 10 *)
Definition gapB := gp ++ [(0, XLoad 1 Relaxed); (0, XLoad 3 Relaxed); (3, XLoad 2 Relaxed)].

Lemma rmw_gap_refused :
  is_some (mrun0 RModel 4 gapA) = true /\
  ok_step RModel (mrun0 RModel 4 gapA) 0 (XLoad 3 Relaxed) = false /\
  lt_in (mrun0 RModel 4 gapA) 3 1 = true /\         (* I1 put 10 after 21 *)
  is_some (mrun0 RModel 4 gapB) = true /\
  ok_step RModel (mrun0 RModel 4 gapB) 3 (XLoad 1 Relaxed) = false /\
  lt_in (mrun0 RModel 4 gapB) 1 2 = true /\         (* I2 put 10 before 20 *)
  (* the c0421c4 rule accepts both *)
  ok_step RC0421 (mrun0 RC0421 4 gapA) 0 (XLoad 3 Relaxed) = true /\
  ok_step RC0421 (mrun0 RC0421 4 gapB) 3 (XLoad 1 Relaxed) = true.
Proof. vm_compute. repeat split; reflexivity. Qed.

(* the older counterexamples are refused by the model as well *)
Lemma model_refuses_old_counterexamples :
  ok_step RModel (mrun0 RModel 2 cex) 1 (XLoad 1 Relaxed) = false /\
  mrun0 RModel 4 cex_ne = None /\
  rcands (mrun0 RModel 4 cex_rmw) = Some [3].
Proof. vm_compute. repeat split; reflexivity. Qed.

(* ---- search with the full checker: 1 = a vv_lt edge between live stores is
   lost, 2 = two live stores have equal clocks, 3 = RMW atomicity is violated
   (an RMW store not after its live source, or a live store strictly
   mo-between them), 4 = the state is not closed under close_step ---- *)
Definition src_of (s : atomic_state) (r : nat) : option nat :=
  match st_rmw_src (get_store s r) with
  | Some (slot, sid) =>
      if Nat.ltb slot (at_cnt s) && negb (Nat.eqb slot r) && Nat.eqb (st_id (get_store s slot)) sid
      then Some slot else None
  | None => None
  end.

Definition atom_viol (s : atomic_state) : bool :=
  existsb (fun r => match src_of s r with
                    | None => false
                    | Some sr =>
                        negb (vv_lt (mo s sr) (mo s r)) ||
                        existsb (fun x => vv_lt (mo s sr) (mo s x) && vv_lt (mo s x) (mo s r))
                                (seq 0 (at_cnt s))
                    end) (seq 0 (at_cnt s)).

Definition closed_b (s : atomic_state) : bool :=
  let live := Nat.min (at_cnt s) MAX_ATOMIC_HISTORY in
  negb (snd (fold_left close_step (list_prod (seq 0 live) (seq 0 live)) (at_stores s, false))).

Definition step_chk (st st' : mstate) : nat :=
  if negb (forallb (fun p => let '(i, j) := p in
             implb (mo_lt st i j) (mo_lt st' i j)) (live_pairs (fst st))) then 1
  else if negb (forallb (fun p => let '(i, j) := p in
             Nat.eqb i j || negb (vv_eqb (mo_of st' i) (mo_of st' j))) (live_pairs (fst st'))) then 2
  else if atom_viol (fst st') then 3
  else if negb (closed_b (fst st')) then 4 else 0.

Fixpoint search_m (tr : rule) (n : nat) (fuel : nat) (st : mstate) (trace : list (nat * nat * nat))
  : option (nat * list (nat * nat * nat)) :=
  match fuel with
  | 0 => None
  | S f =>
      first_some
        (fun m => let '(t, op) := m in
           let code := match op with XStore _ _ => (t, 0, 0) | XLoad k _ => (t, 1, k)
                                | XRmw k _ _ _ => (t, 2, k) | XSync u => (t, 3, u) end in
           match mstep tr st t op with
           | None => None
           | Some st' => match step_chk st st' with
                         | 0 => search_m tr n f st' (code :: trace)
                         | e => Some (e, rev (code :: trace))
                         end
           end)
        (moves n)
  end.
Definition search_m0 tr n pre fuel :=
  match mrun0 tr n pre with Some st => search_m tr n fuel st [] | None => Some (99, []) end.

(* all stores, loads and RMWs of 4 threads, 3 steps after the prefix (and of
   3 threads, 4 steps): the model keeps every edge, never has equal clocks,
   keeps RMW atomicity and is closed after every step (also after stores,
   which do not run the closure); under the c0421c4 rule the search first meets
   a state that is not closed (atomicity itself is violated in
   [rmw_gap_before_fix]) *)
Example search_closure_clean :
  search_m0 RModel 4 gp 3 = None /\ search_m0 RModel 3 gp 4 = None.
Proof. vm_compute. split; reflexivity. Qed.
Example search_closure_c0421c4 :
  search_m0 RC0421 4 gp 4 = Some (4, [(0, 0, 0); (0, 0, 0); (0, 0, 0); (0, 1, 3)]).
Proof. vm_compute. reflexivity. Qed.

(* ---- proved for the model's functions: on RMW-free runs the closure is the
   identity, the model's machine IS the c0421c4 machine, and every theorem of
   sections 8-10 holds for Atomic.atomic_load / atomic_store ---- *)
Definition no_src (stores : list astore) : Prop :=
  forall x, In x stores -> st_rmw_src x = None.

Lemma no_src_nth : forall stores r, no_src stores ->
  st_rmw_src (nth r stores store_default) = None.
Proof.
  intros stores r Hn. destruct (nth_in_or_default r stores store_default) as [Hin|Hd].
  - apply Hn. exact Hin.
  - rewrite Hd. reflexivity.
Qed.

Lemma close_step_no_src : forall stores ch ri, no_src stores ->
  close_step (stores, ch) ri = (stores, ch).
Proof.
  intros stores ch [r i] Hn. unfold close_step. rewrite (no_src_nth r Hn). reflexivity.
Qed.

Lemma close_fold_no_src : forall l stores ch, no_src stores ->
  fold_left close_step l (stores, ch) = (stores, ch).
Proof.
  induction l as [|ri l IH]; intros stores ch Hn; [reflexivity|].
  cbn [fold_left]. rewrite (close_step_no_src ch ri Hn). apply IH. exact Hn.
Qed.

Lemma close_no_src : forall fuel live stores, no_src stores ->
  close_rmw_atomicity fuel live stores = stores.
Proof.
  intros fuel live stores Hn. destruct fuel as [|f]; [reflexivity|].
  cbn [close_rmw_atomicity]. rewrite (close_fold_no_src _ false Hn). reflexivity.
Qed.

Lemma list_set_In : forall (A : Type) (l : list A) n y x,
  In x (list_set l n y) -> x = y \/ In x l.
Proof.
  intros A. induction l as [|h r IH]; intros n y x Hin; [contradiction|].
  destruct n as [|n]; cbn [list_set] in Hin.
  - destruct Hin as [H|H]; [left; symmetry; exact H | right; right; exact H].
  - destruct Hin as [H|H]; [right; left; exact H|].
    destruct (IH n y x H) as [H1|H1]; [left; exact H1 | right; right; exact H1].
Qed.

Lemma list_upd_In : forall (A : Type) (l : list A) n f x,
  In x (list_upd l n f) -> In x l \/ exists y, In y l /\ x = f y.
Proof.
  intros A l n f x Hin. unfold list_upd in Hin.
  destruct (nth_error l n) as [y|] eqn:Hn; [|left; exact Hin].
  apply list_set_In in Hin. destruct Hin as [H|H]; [|left; exact H].
  right. exists y. split; [apply (nth_error_In l n Hn) | exact H].
Qed.

Lemma mapi_from_In : forall (A B : Type) (g : nat -> A -> B) (l : list A) i x,
  In x (mapi_from i g l) -> exists k y, In y l /\ x = g k y.
Proof.
  intros A B g l. induction l as [|h r IH]; intros i x Hin; [contradiction|].
  cbn [mapi_from] in Hin. destruct Hin as [H|H].
  - exists i, h. split; [left; reflexivity | symmetry; exact H].
  - destruct (IH (S i) x H) as [k [y [Hy Hx]]]. exists k, y. split; [right; exact Hy | exact Hx].
Qed.

Lemma no_src_upd : forall stores n f,
  (forall y, st_rmw_src (f y) = st_rmw_src y) -> no_src stores -> no_src (list_upd stores n f).
Proof.
  intros stores n f Hf Hn x Hin. apply list_upd_In in Hin.
  destruct Hin as [H|[y [Hy Hx]]]; [apply Hn; exact H|].
  subst x. rewrite Hf. apply Hn. exact Hy.
Qed.

Lemma no_src_mapi : forall stores g,
  (forall k y, st_rmw_src (g k y) = st_rmw_src y) -> no_src stores -> no_src (mapi g stores).
Proof.
  intros stores g Hg Hn x Hin. unfold mapi in Hin. apply mapi_from_In in Hin.
  destruct Hin as [k [y [Hy Hx]]]. subst x. rewrite Hg. apply Hn. exact Hy.
Qed.

Lemma no_src_c0421c4 : forall s c idx,
  no_src (at_stores s) -> no_src (at_stores (alc_c0421c4 s c idx)).
Proof.
  intros s c idx Hn. rewrite alc_eq. cbn [at_stores at_set_stores].
  assert (H1 : no_src (list_upd (at_stores s) idx (fun x => st_set_mo x (alc_mo s c idx)))).
  { apply no_src_upd; [intros y; reflexivity | exact Hn]. }
  destruct (vv_eqb (alc_mo s c idx) (st_mo (get_store s idx))); [exact H1|].
  apply no_src_mapi; [|exact H1].
  intros k y. destruct (negb (Nat.eqb idx k) && vv_lt (st_mo (get_store s idx)) (st_mo y)); reflexivity.
Qed.

Lemma model_alc_no_src : forall s c idx,
  no_src (at_stores s) -> apply_load_coherence s c idx = alc_c0421c4 s c idx.
Proof.
  intros s c idx Hn. rewrite model_alc_eq.
  rewrite (close_no_src _ _ (@no_src_c0421c4 s c idx Hn)). reflexivity.
Qed.

Lemma track_load_stores : forall s c s1, track_load s c = inl s1 -> at_stores s1 = at_stores s.
Proof.
  intros s c s1 H. unfold track_load in H. destruct (at_mutating s); [discriminate|].
  destruct (vv_ahead c (at_unsync_mut s)); [discriminate|]. inversion H. reflexivity.
Qed.

Lemma track_store_stores : forall s c s1, track_store s c = inl s1 -> at_stores s1 = at_stores s.
Proof.
  intros s c s1 H. unfold track_store in H. destruct (at_mutating s); [discriminate|].
  destruct (vv_ahead c (at_unsync_mut s)); [discriminate|].
  destruct (vv_ahead c (at_unsync_loaded s)); [discriminate|]. inversion H. reflexivity.
Qed.

Definition rmw_free_op (op : aop) : Prop :=
  match op with XRmw _ _ _ _ => False | _ => True end.

Lemma mstep_model_eq : forall st t op,
  no_src (at_stores (fst st)) -> rmw_free_op op ->
  mstep RModel st t op = mstep RC0421 st t op /\
  forall st', mstep RC0421 st t op = Some st' -> no_src (at_stores (fst st')).
Proof.
  intros [s cs] t op Hn Hop. cbn [fst] in Hn.
  destruct op as [idx o|v o|idx f so fo|u]; [| | contradiction |].
  - (* load *)
    unfold mstep. destruct (negb (Nat.ltb t (length cs))); [split; [reflexivity | discriminate]|].
    destruct (match_load_to_stores s t (vv_inc (clk cs t) t) None o) as [l|];
      [|split; [reflexivity | discriminate]].
    destruct (existsb (Nat.eqb idx) l); [|split; [reflexivity | discriminate]].
    unfold atomic_load_g.
    destruct (track_load s (vv_inc (clk cs t) t)) as [s1|p] eqn:Htl; [|split; [reflexivity | discriminate]].
    assert (Hn1 : no_src (at_stores s1)) by (rewrite (track_load_stores _ _ Htl); exact Hn).
    assert (Heq : loadpart_g RModel s1 t (vv_inc (clk cs t) t) idx =
                  loadpart_g RC0421 s1 t (vv_inc (clk cs t) t) idx).
    { unfold loadpart_g, alc_g. rewrite (@model_alc_no_src s1 (vv_inc (clk cs t) t) idx Hn1). reflexivity. }
    cbv zeta. rewrite Heq. split; [reflexivity|].
    intros st' H. inversion H as [Hst]. cbn [fst].
    unfold loadpart_g, alc_g. cbn [at_stores at_set_stores].
    apply no_src_upd; [intros y; reflexivity|]. apply no_src_c0421c4. exact Hn1.
  - (* store *)
    split; [reflexivity|]. intros st' H. unfold mstep in H.
    destruct (negb (Nat.ltb t (length cs))); [discriminate|].
    destruct (Nat.leb MAX_ATOMIC_HISTORY (at_cnt s)); [discriminate|].
    destruct (track_store s (vv_inc (clk cs t) t)) as [s1|p] eqn:Hts; [|discriminate].
    inversion H as [Hst]. cbn [fst]. unfold atomic_store, atomic_store_from. cbv zeta.
    cbn [at_stores at_set_stores]. intros x Hin. apply list_set_In in Hin.
    destruct Hin as [Hx|Hx]; [subst x; reflexivity|].
    rewrite (track_store_stores _ _ Hts) in Hx. apply Hn. exact Hx.
  - (* sync *)
    split; [reflexivity|]. intros st' H. unfold mstep in H.
    destruct (negb (Nat.ltb t (length cs))); [discriminate|].
    destruct (Nat.ltb u (length cs)); [|discriminate]. inversion H. exact Hn.
Qed.

Definition rmw_free (evs : list (nat * aop)) : Prop :=
  forall e, In e evs -> rmw_free_op (snd e).

Theorem mrun_model_eq : forall evs st,
  no_src (at_stores (fst st)) -> rmw_free evs ->
  mrun RModel st evs = mrun RC0421 st evs.
Proof.
  induction evs as [|[t op] evs IH]; intros st Hn Hf; [reflexivity|].
  cbn [mrun].
  destruct (@mstep_model_eq st t op Hn (Hf (t, op) (or_introl eq_refl))) as [He Hp].
  rewrite He. destruct (mstep RC0421 st t op) as [st1|] eqn:Hs; [|reflexivity].
  apply IH; [apply (Hp st1 eq_refl) | intros e He'; apply Hf; right; exact He'].
Qed.

Lemma minit_no_src : forall n v0 st, minit n v0 = Some st -> no_src (at_stores (fst st)).
Proof.
  intros n v0 st Hm. rewrite minit_eq in Hm. inversion Hm as [Hst]. cbn [fst s_init at_stores].
  intros x [Hx|Hx]; [subst x; reflexivity|]. apply repeat_spec in Hx. subst x. reflexivity.
Qed.

(* states the MODEL's machine reaches by RMW-free runs *)
Definition reach_model_rmw_free (st : mstate) : Prop :=
  exists n v0 st0 evs, 1 <= n /\ n <= MAX_THREADS /\ minit n v0 = Some st0 /\
                       rmw_free evs /\ mrun RModel st0 evs = Some st.

Theorem reach_model_rmw_free_c0421c4 : forall st,
  reach_model_rmw_free st -> reach_c0421c4 st.
Proof.
  intros st [n [v0 [st0 [evs [H1 [H5 [Hi [Hf Hr]]]]]]]].
  exists n, v0, st0, evs. repeat split; try assumption.
  rewrite <- (@mrun_model_eq evs st0 (@minit_no_src n v0 st0 Hi) Hf). exact Hr.
Qed.

(* e.g.: along RMW-free runs of the model's functions the invariants hold and
   assert_ne! never fires *)
Corollary model_rmw_free_inv : forall st, reach_model_rmw_free st ->
  Inv2 st /\
  (forall t c ly o, match_load_to_stores (fst st) t c ly o <> None) /\
  match_rmw_to_stores (fst st) <> None.
Proof.
  intros st Hr. apply reach_model_rmw_free_c0421c4 in Hr.
  split; [apply reach_inv2_c0421c4; exact Hr | apply mlts_never_none_c0421c4; exact Hr].
Qed.

Print Assumptions mstep_ext_c0421c4.
Print Assumptions mstep_inv_c0421c4.
Print Assumptions minit_inv.
Print Assumptions reach_inv_c0421c4.
Print Assumptions mlts_never_none_c0421c4.
Print Assumptions step_stable_c0421c4.
Print Assumptions run_stable_c0421c4.
Print Assumptions run_knows_c0421c4.
Print Assumptions CoRR_CoWR_c0421c4.
Print Assumptions CoRR_CoWR_rmw_c0421c4.
Print Assumptions CoWW_CoRW_c0421c4.
Print Assumptions store_knows_c0421c4.
Print Assumptions load_knows_c0421c4.
Print Assumptions reach_inv2_c0421c4.
Print Assumptions CoRR_same_thread_c0421c4.
Print Assumptions CoWR_same_thread_c0421c4.
Print Assumptions CoRW_same_thread_c0421c4.
Print Assumptions CoWW_same_thread_c0421c4.
Print Assumptions sync_knows_c0421c4.
Print Assumptions coherence_counterexample_before_fix.
Print Assumptions coherence_counterexample_repaired.
Print Assumptions corr_counterexample_before_fix.
Print Assumptions assert_ne_counterexample_before_fix.
Print Assumptions rmw_counterexample_before_fix.
Print Assumptions stale_read_example.
Print Assumptions rmw_gap_before_fix.
Print Assumptions rmw_gap_refused.
Print Assumptions model_alc_no_src.
Print Assumptions mrun_model_eq.
Print Assumptions reach_model_rmw_free_c0421c4.
Print Assumptions model_rmw_free_inv.
Print Assumptions model_refuses_old_counterexamples.
Print Assumptions search_closure_clean.
Print Assumptions search_closure_c0421c4.
Print Assumptions mrun_inv_c0421c4.
Print Assumptions atomic_load_g_model.
Print Assumptions atomic_rmw_g_model.
